(* Proofs/StackFacts: lemmas about Model/Stack (property C15). *)
From Coq Require Import List NArith ZArith Bool Lia.
From Tele Require Import Lib.Bytes Lib.Digits Gen.Consts Model.Stack.
Import ListNotations.
Open Scope N_scope.

(* ------------------------------------------------------------ characters *)

Definition nodot (s : bytes) : Prop := Forall (fun c => c <> 46) s.
Definition nonl (s : bytes) : Prop := Forall (fun c => c <> 10) s.

Lemma Forall_not_In (c : N) s : Forall (fun x => x <> c) s <-> ~ In c s.
Proof.
  rewrite Forall_forall. split.
  - intros H Hin. exact (H c Hin eq_refl).
  - intros H x Hx ->. exact (H Hx).
Qed.

Lemma is_stack_false s : is_stack s = false <-> nonl s.
Proof.
  unfold is_stack, nonl. induction s as [|x s IH]; cbn [existsb].
  - split; [constructor|reflexivity].
  - rewrite orb_false_iff, IH. split.
    + intros [H1 H2]. constructor; [|exact H2]. intros ->. discriminate.
    + intro H. inversion H; subst. split; [|assumption].
      destruct (N.eqb_spec 10 x); [congruence|reflexivity].
Qed.

Lemma is_stack_true s : is_stack s = true <-> In 10 s.
Proof.
  unfold is_stack. rewrite existsb_exists. split.
  - intros [x [Hin Hx]]. apply N.eqb_eq in Hx. subst. exact Hin.
  - intro H. exists 10. split; [exact H|reflexivity].
Qed.

Lemma no_nl_nonl s : no_nl s = true <-> nonl s.
Proof. unfold no_nl. rewrite negb_true_iff. apply is_stack_false. Qed.

(* ------------------------------------------------------------ cut_last_dot *)

Lemma cut_aux_spec x :
  match cut_last_dot_aux x with
  | Some (p, r) => x = p ++ 46 :: r /\ nodot r
  | None => nodot x
  end.
Proof.
  induction x as [|c x IH]; cbn [cut_last_dot_aux]; [constructor|].
  destruct (cut_last_dot_aux x) as [[p r]|].
  - destruct IH as [-> Hr]. split; [reflexivity|exact Hr].
  - destruct (N.eqb_spec c 46) as [->|Hc].
    + split; [reflexivity|exact IH].
    + constructor; assumption.
Qed.

Lemma cut_aux_nodot x : nodot x -> cut_last_dot_aux x = None.
Proof.
  induction 1 as [|c x Hc _ IH]; cbn [cut_last_dot_aux]; [reflexivity|].
  rewrite IH. destruct (N.eqb_spec c 46); [contradiction|reflexivity].
Qed.

Lemma cut_aux_app p r : nodot r -> cut_last_dot_aux (p ++ 46 :: r) = Some (p, r).
Proof.
  intro Hr. induction p as [|c p IH]; cbn [app cut_last_dot_aux].
  - rewrite (cut_aux_nodot r Hr). reflexivity.
  - rewrite IH. reflexivity.
Qed.

Lemma cut_app p r : nodot r -> cut_last_dot (p ++ 46 :: r) = (p, r).
Proof. intro Hr. unfold cut_last_dot. rewrite cut_aux_app by exact Hr. reflexivity. Qed.

Lemma cut_nodot x : nodot x -> cut_last_dot x = ([], x).
Proof. intro H. unfold cut_last_dot. rewrite cut_aux_nodot by exact H. reflexivity. Qed.

(* the two shapes of a cut *)
Lemma cut_spec x p r : cut_last_dot x = (p, r) ->
  nodot r /\ (x = p ++ 46 :: r \/ (p = [] /\ x = r)).
Proof.
  unfold cut_last_dot. pose proof (cut_aux_spec x) as H.
  destruct (cut_last_dot_aux x) as [[p' r']|]; intro E; injection E as <- <-.
  - destruct H as [H1 H2]. split; [exact H2|left; exact H1].
  - split; [exact H|right; split; reflexivity].
Qed.

Lemma cut_spec_nonempty x p r : cut_last_dot x = (p, r) -> p <> [] -> x = p ++ 46 :: r /\ nodot r.
Proof.
  intros E Hp. destruct (cut_spec x p r E) as [Hr [H|[H _]]]; [split; assumption|contradiction].
Qed.

(* ------------------------------------------------------------ split / join *)

Lemma split_nonl s : nonl s -> split_byte s 10 = [s].
Proof.
  induction 1 as [|c s Hc _ IH]; [reflexivity|].
  cbn [split_byte]. rewrite IH. destruct (N.eqb_spec c 10); [contradiction|reflexivity].
Qed.

Lemma split_app a b : nonl a -> split_byte (a ++ 10 :: b) 10 = a :: split_byte b 10.
Proof.
  induction 1 as [|c a Hc _ IH]; cbn [app split_byte].
  - destruct (split_byte b 10) as [|h t] eqn:E; [exfalso; exact (split_byte_nonempty _ _ E)|].
    reflexivity.
  - rewrite IH. destruct (N.eqb_spec c 10); [contradiction|reflexivity].
Qed.

Lemma split_join ls : ls <> [] -> Forall nonl ls -> split_byte (join ls [10]) 10 = ls.
Proof.
  induction ls as [|a ls IH]; intros Hne Hall; [contradiction|].
  inversion Hall as [|? ? Ha Hls]; subst.
  destruct ls as [|b ls].
  - cbn [join]. apply split_nonl. exact Ha.
  - rewrite join_cons2. cbn [app]. rewrite split_app by exact Ha.
    rewrite IH; [reflexivity|discriminate|exact Hls].
Qed.

Lemma join_cons_ne a ls sep : ls <> [] -> join (a :: ls) sep = a ++ sep ++ join ls sep.
Proof. destruct ls; [contradiction|reflexivity]. Qed.

Lemma nonl_app a b : nonl (a ++ b) <-> nonl a /\ nonl b.
Proof. apply Forall_app. Qed.
Lemma nodot_app a b : nodot (a ++ b) <-> nodot a /\ nodot b.
Proof. apply Forall_app. Qed.

(* ------------------------------------------------------------ rendering *)

Definition tail_char (c : N) : Prop :=
  c = 58 \/ c = 61 \/ c = 44 \/ c = 43 \/ c = 45 \/ c = 120 \/ 48 <= c <= 57 \/ 97 <= c <= 102.

Lemma signed_tail c : is_signed_char c -> tail_char c.
Proof. unfold is_signed_char, is_dec_char, tail_char. intuition lia. Qed.
Lemma hex_tail c : is_hex_char c -> tail_char c.
Proof. unfold is_hex_char, tail_char. intuition lia. Qed.

(* the two halves of the tail: ":" B "," H *)
Definition tail_b (f : frame) : bytes :=
  if fr_hasfunc f then fmt_plus_d (fr_line f) else 61 :: fmt_d (fr_line f).
Definition tail_h (f : frame) : bytes := [43; 48; 120] ++ fmt_hex (fr_off f).

Lemma render_tail_eq f : render_tail f = 58 :: tail_b f ++ 44 :: tail_h f.
Proof.
  unfold render_tail, tail_b, tail_h. destruct (fr_hasfunc f); cbn [app]; rewrite <- ?app_assoc; reflexivity.
Qed.

Lemma tail_b_chars f : Forall tail_char (tail_b f).
Proof.
  unfold tail_b. destruct (fr_hasfunc f).
  - eapply Forall_impl; [|apply fmt_plus_d_chars]. exact signed_tail.
  - constructor; [unfold tail_char; lia|].
    eapply Forall_impl; [|apply fmt_d_chars]. exact signed_tail.
Qed.

Lemma tail_h_chars f : Forall tail_char (tail_h f).
Proof.
  unfold tail_h. apply Forall_app. split.
  - repeat constructor; unfold tail_char; lia.
  - eapply Forall_impl; [|apply fmt_hex_chars]. exact hex_tail.
Qed.

Lemma render_tail_chars f : Forall tail_char (render_tail f).
Proof.
  rewrite render_tail_eq. constructor; [unfold tail_char; lia|].
  apply Forall_app. split; [apply tail_b_chars|].
  constructor; [unfold tail_char; lia|apply tail_h_chars].
Qed.

Lemma tail_chars_nodot s : Forall tail_char s -> nodot s.
Proof. apply Forall_impl. unfold tail_char. intros c H. lia. Qed.
Lemma tail_chars_nonl s : Forall tail_char s -> nonl s.
Proof. apply Forall_impl. unfold tail_char. intros c H. lia. Qed.

Lemma render_tail_nodot f : nodot (render_tail f).
Proof. apply tail_chars_nodot, render_tail_chars. Qed.
Lemma render_tail_nonl f : nonl (render_tail f).
Proof. apply tail_chars_nonl, render_tail_chars. Qed.

Lemma render_loc_cut p n f : nodot n -> cut_last_dot (render_loc p n f) = (p, n ++ render_tail f).
Proof.
  intro Hn. unfold render_loc. cbn [app]. apply cut_app.
  apply nodot_app. split; [exact Hn|apply render_tail_nodot].
Qed.

Lemma render_loc_nonl p n f : nonl p -> nonl n -> nonl (render_loc p n f).
Proof.
  intros Hp Hn. unfold render_loc. apply nonl_app. split; [exact Hp|].
  cbn [app]. constructor; [lia|]. apply nonl_app. split; [exact Hn|apply render_tail_nonl].
Qed.

Lemma render_loc_nonempty p n f : render_loc p n f <> [].
Proof. unfold render_loc. destruct p; discriminate. Qed.

(* parts of a cut function name inherit "no newline" *)
Lemma cut_nonl x p r : cut_last_dot x = (p, r) -> nonl x -> nonl p /\ nonl r.
Proof.
  intros E Hx. destruct (cut_spec x p r E) as [_ [H|[-> H]]]; subst.
  - apply nonl_app in Hx as [Hp Hr]. inversion Hr; subst. split; assumption.
  - split; [constructor|exact Hx].
Qed.

(* ------------------------------------------------------------ decode o encode *)

Definition rt_frame (f : frame) : Prop := fn_roundtrips (fr_func f) = true.

Lemma rt_frame_spec f p n : rt_frame f -> cut_last_dot (fr_func f) = (p, n) ->
  nonl (fr_func f) /\ p <> [34].
Proof.
  unfold rt_frame, fn_roundtrips, path_of, is_ditto. intros H E. rewrite E in H. cbn [fst] in H.
  apply andb_true_iff in H as [H1 H2].
  apply no_nl_nonl in H1. apply negb_true_iff in H2.
  apply beq_neq in H2. split; assumption.
Qed.

Lemma beq_true_eq a b : beq a b = true -> a = b.
Proof. apply beq_eq. Qed.

(* the ditto test of the (fixed) encoder *)
Definition dittoed (p last : bytes) : bool := beq p last && negb (beq p []).

Lemma dittoed_true p last : dittoed p last = true -> p = last /\ p <> [].
Proof.
  unfold dittoed. intro H. apply andb_true_iff in H as [H1 H2].
  apply beq_true_eq in H1. apply negb_true_iff, beq_neq in H2. split; assumption.
Qed.

(* Invariant between the encoder's lastImport (last) and the decoder's
   lastPath (dlast): whenever last is non-empty, dlast = last ++ ".".  When
   last is empty (initially, or after a frame with an empty package path) the
   decoder's lastPath may be anything: the next frame is never dittoed. *)
Lemma decode_encode_locs fs : forall last dlast,
  (last = [] \/ dlast = last ++ [46]) ->
  Forall rt_frame fs ->
  decode_lines dlast (encode_locs last fs) = map plain_loc fs.
Proof.
  induction fs as [|f fs IH]; intros last dlast Hinv Hall; [reflexivity|].
  inversion Hall as [|? ? Hf Hfs]; subst.
  cbn [encode_locs map]. unfold plain_loc at 1.
  destruct (cut_last_dot (fr_func f)) as [p n] eqn:E.
  destruct (rt_frame_spec f p n Hf E) as [Hnl Hq].
  destruct (cut_spec _ _ _ E) as [Hn _].
  fold (dittoed p last). destruct (dittoed p last) eqn:Epl.
  - apply dittoed_true in Epl as [-> Hp].
    destruct Hinv as [Hinv|Hinv]; [contradiction|]. subst dlast.
    cbn [decode_lines]. rewrite (render_loc_cut [34] n f Hn).
    cbn [beq N.eqb Pos.eqb andb].
    rewrite (IH last (last ++ [46])); [|right; reflexivity|exact Hfs].
    f_equal. unfold render_loc. rewrite <- !app_assoc. reflexivity.
  - cbn [decode_lines]. rewrite (render_loc_cut p n f Hn).
    destruct p as [|c p].
    + (* empty package path: rendered in full, the decoder skips the line *)
      rewrite (IH [] dlast); [reflexivity|left; reflexivity|exact Hfs].
    + assert (Hb : beq (c :: p) [34] = false) by (apply beq_neq; exact Hq).
      rewrite Hb.
      rewrite (IH (c :: p) ((c :: p) ++ [46])); [reflexivity|right; reflexivity|exact Hfs].
Qed.

Lemma encode_locs_nonl fs : forall last, Forall (fun f => nonl (fr_func f)) fs ->
  Forall nonl (encode_locs last fs).
Proof.
  induction fs as [|f fs IH]; intros last Hall; [constructor|].
  inversion Hall as [|? ? Hf Hfs]; subst. cbn [encode_locs].
  destruct (cut_last_dot (fr_func f)) as [p n] eqn:E.
  destruct (cut_nonl _ _ _ E Hf) as [Hp Hn].
  destruct (beq p last && negb (beq p [])); constructor; try (apply IH; exact Hfs).
  - apply render_loc_nonl; [repeat constructor; lia|exact Hn].
  - apply render_loc_nonl; assumption.
Qed.

Lemma encode_locs_nil last fs : encode_locs last fs = [] -> fs = [].
Proof.
  destruct fs as [|f fs]; [reflexivity|]. cbn [encode_locs].
  destruct (cut_last_dot (fr_func f)) as [p n]. destruct (beq p last && negb (beq p [])); discriminate.
Qed.

Definition pfx_ok (prefix : bytes) : Prop := prefix_ok prefix = true.

Lemma pfx_ok_spec prefix : pfx_ok prefix -> Forall (fun l => path_of l <> [34]) (split_byte prefix 10).
Proof.
  unfold pfx_ok, prefix_ok, is_ditto. intro H. rewrite forallb_forall in H.
  apply Forall_forall. intros l Hl. specialize (H l Hl). apply negb_true_iff, beq_neq in H. exact H.
Qed.

(* decoding the lines of the counter name leaves them unchanged, whatever
   they set lastPath to *)
Lemma decode_prefix_lines pls : Forall (fun l => path_of l <> [34]) pls ->
  forall d0 ls, exists dl, decode_lines d0 (pls ++ ls) = pls ++ decode_lines dl ls.
Proof.
  induction 1 as [|l pls Hq _ IH]; intros d0 ls; [exists d0; reflexivity|].
  cbn [app decode_lines]. unfold path_of in Hq.
  destruct (cut_last_dot l) as [p r]. cbn [fst] in Hq.
  destruct p as [|c p].
  - destruct (IH d0 ls) as [dl ->]. exists dl. reflexivity.
  - assert (Hb : beq (c :: p) [34] = false) by (apply beq_neq; exact Hq).
    rewrite Hb. destruct (IH ((c :: p) ++ [46]) ls) as [dl ->]. exists dl. reflexivity.
Qed.

Lemma is_stack_app_nl a b : is_stack (a ++ 10 :: b) = true.
Proof. apply is_stack_true. apply in_or_app. right. left. reflexivity. Qed.

Lemma split_app_nl a b : split_byte (a ++ 10 :: b) 10 = split_byte a 10 ++ split_byte b 10.
Proof.
  induction a as [|x a IH]; cbn [app split_byte].
  - destruct (split_byte b 10) as [|h t] eqn:E; [exfalso; exact (split_byte_nonempty _ _ E)|reflexivity].
  - rewrite IH. destruct (split_byte a 10) as [|h t] eqn:E; [exfalso; exact (split_byte_nonempty _ _ E)|].
    cbn [app]. destruct (x =? 10); reflexivity.
Qed.

Lemma join_app (a b : list bytes) sep : a <> [] -> b <> [] ->
  join (a ++ b) sep = join a sep ++ sep ++ join b sep.
Proof.
  induction a as [|x a IH]; intros Ha Hb; [contradiction|].
  destruct a as [|y a].
  - cbn [app]. rewrite join_cons_ne by exact Hb. reflexivity.
  - change ((x :: y :: a) ++ b) with (x :: ((y :: a) ++ b)).
    rewrite join_cons_ne by (cbn [app]; discriminate).
    rewrite IH by (discriminate || exact Hb). rewrite join_cons2. rewrite <- !app_assoc. reflexivity.
Qed.

(* the lines after the counter name *)
Definition loc_lines (fs : list frame) : list bytes :=
  match encode_locs [] fs with [] => [[]] | l => l end.
Definition plain_lines (fs : list frame) : list bytes :=
  match map plain_loc fs with [] => [[]] | l => l end.

Lemma rt_frames_nonl fs : Forall rt_frame fs -> Forall (fun f => nonl (fr_func f)) fs.
Proof.
  apply Forall_impl. intros f Hf. destruct (cut_last_dot (fr_func f)) as [p n] eqn:E.
  destruct (rt_frame_spec f p n Hf E) as [H _]. exact H.
Qed.

Lemma split_encode_raw prefix fs : Forall (fun f => nonl (fr_func f)) fs ->
  split_byte (encode_raw prefix fs) 10 = split_byte prefix 10 ++ loc_lines fs.
Proof.
  intro Hfs. unfold encode_raw. cbn [app]. rewrite split_app_nl. f_equal. unfold loc_lines.
  pose proof (encode_locs_nonl fs [] Hfs) as H.
  destruct (encode_locs [] fs) as [|l ls] eqn:E; [reflexivity|].
  apply split_join; [discriminate|exact H].
Qed.

Lemma join_plain_lines fs : join (plain_lines fs) [10] = join (map plain_loc fs) [10].
Proof. unfold plain_lines. destruct (map plain_loc fs); reflexivity. Qed.

Lemma decode_loc_lines fs dl : Forall rt_frame fs -> decode_lines dl (loc_lines fs) = plain_lines fs.
Proof.
  intro Hfs. unfold loc_lines, plain_lines.
  pose proof (decode_encode_locs fs [] dl (or_introl eq_refl) Hfs) as H.
  destruct fs as [|f fs]; [reflexivity|].
  destruct (encode_locs [] (f :: fs)) as [|l ls] eqn:E; [apply encode_locs_nil in E; discriminate|].
  rewrite H. reflexivity.
Qed.

Lemma plain_lines_nonempty fs : plain_lines fs <> [].
Proof. unfold plain_lines. destruct (map plain_loc fs); discriminate. Qed.

(* decoded lines of an untruncated name = lines of the uncompressed rendering *)
Lemma decode_raw_lines prefix fs : pfx_ok prefix -> Forall rt_frame fs ->
  decode_lines [] (split_byte (encode_raw prefix fs) 10) = split_byte prefix 10 ++ plain_lines fs.
Proof.
  intros Hp Hfs. rewrite split_encode_raw by (apply rt_frames_nonl; exact Hfs).
  destruct (decode_prefix_lines _ (pfx_ok_spec prefix Hp) [] (loc_lines fs)) as [dl ->].
  rewrite decode_loc_lines by exact Hfs. reflexivity.
Qed.

Lemma decode_encode_raw prefix fs : pfx_ok prefix -> Forall rt_frame fs ->
  decode_stack (encode_raw prefix fs) = render_plain prefix fs.
Proof.
  intros Hp Hfs. unfold decode_stack.
  assert (Hst : is_stack (encode_raw prefix fs) = true) by (unfold encode_raw; apply is_stack_app_nl).
  rewrite Hst, decode_raw_lines by assumption.
  rewrite join_app; [|intro E; exact (split_byte_nonempty _ _ E)|apply plain_lines_nonempty].
  rewrite join_split_byte, join_plain_lines. reflexivity.
Qed.

Lemma untruncated_eq prefix fs : is_truncated prefix fs = false ->
  encode_frames prefix fs = encode_raw prefix fs.
Proof. unfold is_truncated, encode_frames, truncate_name. intros ->. reflexivity. Qed.

Lemma decode_encode prefix fs : pfx_ok prefix -> Forall rt_frame fs ->
  is_truncated prefix fs = false ->
  decode_stack (encode_frames prefix fs) = render_plain prefix fs.
Proof.
  intros Hp Hfs Ht. rewrite (untruncated_eq _ _ Ht). apply decode_encode_raw; assumption.
Qed.

(* formerly the finding ditto-empty-path (fixed in /repo by a2e6094): the frame
   the runtime returns when no pc symbolises (empty Function) is now rendered
   in full and round-trips. *)
Definition zero_frame : frame := mkFrame [] false 0 0.

Lemma decode_encode_empty_path :
  let prefix := [112] in
  let fs := [zero_frame; zero_frame] in
  Forall rt_frame fs /\ pfx_ok prefix /\ is_truncated prefix fs = false /\
  encode_frames prefix fs = prefix ++ [10] ++ [46; 58; 61; 48; 44; 43; 48; 120; 48]
                                   ++ [10] ++ [46; 58; 61; 48; 44; 43; 48; 120; 48] /\
  decode_stack (encode_frames prefix fs) = render_plain prefix fs.
Proof. vm_compute. repeat split; try reflexivity; repeat constructor. Qed.

(* the remaining hypotheses are necessary *)
(* (a) a package path that is a lone ditto mark is read as a ditto *)
Lemma decode_encode_needs_no_ditto_path :
  let fs := [mkFrame [97; 46; 102] true 1 2; mkFrame [34; 46; 103] true 1 2] in   (* a.f then Q.g, Q = byte 34 *)
  pfx_ok [112] /\ is_truncated [112] fs = false /\
  decode_stack (encode_frames [112] fs) <> render_plain [112] fs.
Proof. vm_compute. repeat split; discriminate. Qed.

(* (b) a newline inside a function name: the ditto of the next frame expands to
   the part after the newline only *)
Lemma decode_encode_needs_no_newline :
  let fs := [mkFrame [97; 10; 98; 46; 102] true 1 2; mkFrame [97; 10; 98; 46; 103] true 1 2] in
  pfx_ok [112] /\ is_truncated [112] fs = false /\
  decode_stack (encode_frames [112] fs) <> render_plain [112] fs.
Proof. vm_compute. repeat split; discriminate. Qed.

(* (c) a line of the counter name itself that looks like a ditto is expanded *)
Lemma decode_encode_needs_prefix_ok :
  let prefix := [34; 46; 120] in                                                 (* Q.x *)
  prefix_ok prefix = false /\ is_truncated prefix [] = false /\
  decode_stack (encode_frames prefix []) <> render_plain prefix [].
Proof. vm_compute. repeat split; discriminate. Qed.

(* the counter name may contain dots and even newlines: its lines only set the
   decoder's lastPath, which the first frame overrides or ignores *)
Lemma decode_encode_dotted_prefix :
  let prefix := [97; 46; 98; 10; 99; 46; 100] in                                 (* a.b newline c.d *)
  let fs := [zero_frame; mkFrame [109; 46; 102] true 1 2; mkFrame [109; 46; 103] true 1 2] in
  pfx_ok prefix /\ Forall rt_frame fs /\
  decode_stack (encode_frames prefix fs) = render_plain prefix fs.
Proof. vm_compute. repeat split; try reflexivity; repeat constructor. Qed.

(* ------------------------------------------------------------ truncated names: complete lines *)

Fixpoint count_nl (s : bytes) : nat :=
  match s with
  | [] => O
  | c :: s' => if c =? 10 then S (count_nl s') else count_nl s'
  end.

(* lines completed inside s do not depend on what follows s *)
Lemma split_prefix_lines s : forall t,
  firstn (count_nl s) (split_byte (s ++ t) 10) = firstn (count_nl s) (split_byte s 10).
Proof.
  induction s as [|x s IH]; intro t; [reflexivity|].
  cbn [app split_byte count_nl]. specialize (IH t).
  destruct (split_byte (s ++ t) 10) as [|h tl] eqn:E1; [exfalso; exact (split_byte_nonempty _ _ E1)|].
  destruct (split_byte s 10) as [|h' tl'] eqn:E2; [exfalso; exact (split_byte_nonempty _ _ E2)|].
  destruct (N.eqb_spec x 10) as [->|Hx].
  - cbn [firstn]. rewrite IH. reflexivity.
  - destruct (count_nl s) as [|c]; [reflexivity|].
    cbn [firstn] in IH |- *. injection IH as -> ->. reflexivity.
Qed.

Lemma decode_lines_firstn k : forall last ls,
  firstn k (decode_lines last ls) = decode_lines last (firstn k ls).
Proof.
  induction k as [|k IH]; intros last ls; [reflexivity|].
  destruct ls as [|l ls]; [reflexivity|].
  cbn [decode_lines firstn]. destruct (cut_last_dot l) as [p r].
  destruct p as [|c p]; [cbn [firstn]; rewrite IH; reflexivity|].
  destruct (beq (c :: p) [34]); cbn [firstn]; rewrite IH; reflexivity.
Qed.

(* decoded lines stay free of newlines *)
Lemma decode_lines_nonl ls : forall last, nonl last -> Forall nonl ls -> Forall nonl (decode_lines last ls).
Proof.
  induction ls as [|l ls IH]; intros last Hl Hall; [constructor|].
  inversion Hall as [|? ? Hl0 Hls]; subst. cbn [decode_lines].
  destruct (cut_last_dot l) as [p r] eqn:E.
  destruct (cut_nonl _ _ _ E Hl0) as [Hp Hr].
  destruct p as [|c p]; [constructor; [exact Hl0|apply IH; assumption]|].
  destruct (beq (c :: p) [34]).
  - constructor; [apply nonl_app; split; assumption|apply IH; assumption].
  - constructor; [exact Hl0|apply IH; [|exact Hls]].
    apply nonl_app. split; [exact Hp|repeat constructor; lia].
Qed.

Lemma split_byte_nonl_lines s : Forall nonl (split_byte s 10).
Proof.
  induction s as [|x s IH]; [repeat constructor|].
  cbn [split_byte]. destruct (split_byte s 10) as [|h t] eqn:E; [exfalso; exact (split_byte_nonempty _ _ E)|].
  inversion IH; subst.
  destruct (N.eqb_spec x 10); constructor; try assumption; try constructor; assumption.
Qed.

Lemma decode_lines_length ls : forall last, length (decode_lines last ls) = length ls.
Proof.
  induction ls as [|l ls IH]; intro last; [reflexivity|].
  cbn [decode_lines]. destruct (cut_last_dot l) as [p r].
  destruct p as [|c p]; [cbn [length]; rewrite IH; reflexivity|].
  destruct (beq (c :: p) [34]); cbn [length]; rewrite IH; reflexivity.
Qed.

Lemma split_decode_stack s : is_stack s = true ->
  split_byte (decode_stack s) 10 = decode_lines [] (split_byte s 10).
Proof.
  intro H. unfold decode_stack. rewrite H. apply split_join.
  - intro E. apply (f_equal (@length bytes)) in E. rewrite decode_lines_length in E.
    destruct (split_byte s 10) eqn:E2; [exact (split_byte_nonempty _ _ E2)|discriminate].
  - apply decode_lines_nonl; [constructor|apply split_byte_nonl_lines].
Qed.

Lemma truncated_eq prefix fs : is_truncated prefix fs = true ->
  encode_frames prefix fs =
  firstn (N.to_nat c_maxNameLen - length c_truncated_marker) (encode_raw prefix fs) ++ c_truncated_marker.
Proof. unfold is_truncated, encode_frames, truncate_name. intros ->. reflexivity. Qed.

Lemma marker_head : exists m, c_truncated_marker = 10 :: m.
Proof. eexists. reflexivity. Qed.

(* the complete lines of a truncated name decode to the first lines of the
   uncompressed rendering *)
Lemma decode_encode_truncated prefix fs : pfx_ok prefix -> Forall rt_frame fs ->
  is_truncated prefix fs = true ->
  let kept := firstn (N.to_nat c_maxNameLen - length c_truncated_marker) (encode_raw prefix fs) in
  firstn (count_nl kept) (split_byte (decode_stack (encode_frames prefix fs)) 10) =
  firstn (count_nl kept) (split_byte (render_plain prefix fs) 10).
Proof.
  intros Hp Hfs Ht kept.
  rewrite (truncated_eq _ _ Ht). fold kept.
  destruct marker_head as [m Hm].
  rewrite split_decode_stack by (rewrite Hm; apply is_stack_app_nl).
  rewrite decode_lines_firstn, split_prefix_lines.
  rewrite <- (decode_encode_raw prefix fs Hp Hfs).
  rewrite split_decode_stack by (unfold encode_raw; apply is_stack_app_nl).
  rewrite decode_lines_firstn.
  assert (Hs : firstn (count_nl kept) (split_byte (encode_raw prefix fs) 10) =
               firstn (count_nl kept) (split_byte kept 10)).
  { rewrite <- (split_prefix_lines kept
                 (skipn (N.to_nat c_maxNameLen - length c_truncated_marker) (encode_raw prefix fs))).
    unfold kept. rewrite firstn_skipn. reflexivity. }
  rewrite Hs. reflexivity.
Qed.

(* ------------------------------------------------------------ length bound, truncation mark *)

Lemma marker_fits :
  (N.to_nat c_maxNameLen - length c_truncated_marker + length c_truncated_marker = N.to_nat c_maxNameLen)%nat.
Proof. vm_compute. reflexivity. Qed.

Lemma truncation_marked prefix fs : is_truncated prefix fs = true ->
  N.of_nat (length (encode_frames prefix fs)) = c_maxNameLen /\
  has_suffix (encode_frames prefix fs) c_truncated_marker = true /\
  firstn (N.to_nat c_maxNameLen - length c_truncated_marker) (encode_frames prefix fs) =
  firstn (N.to_nat c_maxNameLen - length c_truncated_marker) (encode_raw prefix fs).
Proof.
  intro Ht. rewrite (truncated_eq _ _ Ht).
  unfold is_truncated in Ht. apply N.ltb_lt in Ht.
  pose proof marker_fits as Hm.
  set (K := (N.to_nat c_maxNameLen - length c_truncated_marker)%nat) in *.
  assert (HK : (K <= length (encode_raw prefix fs))%nat) by lia.
  assert (Hlen : length (firstn K (encode_raw prefix fs)) = K) by (apply firstn_length_le; exact HK).
  split; [|split].
  - rewrite app_length, Hlen. lia.
  - apply has_suffix_app. eexists. reflexivity.
  - rewrite firstn_app, Hlen, Nat.sub_diag. cbn [firstn]. rewrite app_nil_r.
    rewrite firstn_firstn, Nat.min_id. reflexivity.
Qed.

Lemma length_bound prefix fs : N.of_nat (length (encode_frames prefix fs)) <= c_maxNameLen.
Proof.
  destruct (is_truncated prefix fs) eqn:Ht.
  - destruct (truncation_marked prefix fs Ht) as [H _]. lia.
  - rewrite (untruncated_eq _ _ Ht). unfold is_truncated in Ht. apply N.ltb_ge in Ht. exact Ht.
Qed.

Lemma maxNameLen_value : c_maxNameLen = 4096.
Proof. reflexivity. Qed.

Lemma marker_value : c_truncated_marker = [10; 116; 114; 117; 110; 99; 97; 116; 101; 100; 10].   (* "\ntruncated\n" *)
Proof. reflexivity. Qed.

(* ------------------------------------------------------------ decoder on plain names *)

Lemma decode_identity_on_plain s : is_stack s = false -> decode_stack s = s.
Proof. unfold decode_stack. intros ->. reflexivity. Qed.

Lemma decode_line_count s :
  length (split_byte (decode_stack s) 10) = length (split_byte s 10).
Proof.
  destruct (is_stack s) eqn:H.
  - rewrite split_decode_stack by exact H. apply decode_lines_length.
  - rewrite decode_identity_on_plain by exact H. reflexivity.
Qed.

(* ------------------------------------------------------------ injectivity *)

Lemma last_sep_unique (c : N) x1 : forall x2 y1 y2,
  ~ In c y1 -> ~ In c y2 -> x1 ++ c :: y1 = x2 ++ c :: y2 -> x1 = x2 /\ y1 = y2.
Proof.
  induction x1 as [|a x1 IH]; intros x2 y1 y2 H1 H2 E.
  - destruct x2 as [|d x2]; cbn [app] in E.
    + injection E as E. split; [reflexivity|exact E].
    + injection E as Ed E. exfalso. apply H1. rewrite E. apply in_or_app. right. left. reflexivity.
  - destruct x2 as [|d x2]; cbn [app] in E.
    + injection E as Ed E. exfalso. apply H2. rewrite <- E. apply in_or_app. right. left. reflexivity.
    + injection E as Ead E. destruct (IH x2 y1 y2 H1 H2 E) as [-> ->]. subst. split; reflexivity.
Qed.

Lemma tail_chars_not_in (c : N) s : ~ tail_char c -> Forall tail_char s -> ~ In c s.
Proof.
  intros Hc Hs Hin. rewrite Forall_forall in Hs. exact (Hc (Hs c Hin)).
Qed.

Lemma no44_in_h f : ~ In 44 (tail_h f).
Proof.
  unfold tail_h. intro H. apply in_app_or in H as [H|H].
  - cbn in H. lia.
  - pose proof (fmt_hex_chars (fr_off f)) as Hc. rewrite Forall_forall in Hc.
    specialize (Hc 44 H). unfold is_hex_char in Hc. lia.
Qed.

Lemma no58_in_b f : ~ In 58 (tail_b f).
Proof.
  unfold tail_b. destruct (fr_hasfunc f); intro H.
  - pose proof (fmt_plus_d_chars (fr_line f)) as Hc. rewrite Forall_forall in Hc.
    specialize (Hc 58 H). unfold is_signed_char, is_dec_char in Hc. lia.
  - destruct H as [H|H]; [lia|].
    pose proof (fmt_d_chars (fr_line f)) as Hc. rewrite Forall_forall in Hc.
    specialize (Hc 58 H). unfold is_signed_char, is_dec_char in Hc. lia.
Qed.

Lemma tail_b_inj f g : tail_b f = tail_b g ->
  fr_hasfunc f = fr_hasfunc g /\ fr_line f = fr_line g.
Proof.
  unfold tail_b. destruct (fr_hasfunc f), (fr_hasfunc g); intro H.
  - split; [reflexivity|apply fmt_plus_d_inj; exact H].
  - exfalso. pose proof (fmt_plus_d_chars (fr_line f)) as Hc. rewrite H in Hc.
    inversion Hc as [|? ? Hc1 _]; subst. unfold is_signed_char, is_dec_char in Hc1. lia.
  - exfalso. pose proof (fmt_plus_d_chars (fr_line g)) as Hc. rewrite <- H in Hc.
    inversion Hc as [|? ? Hc1 _]; subst. unfold is_signed_char, is_dec_char in Hc1. lia.
  - injection H as H. split; [reflexivity|apply fmt_d_inj; exact H].
Qed.

Lemma tail_h_inj f g : tail_h f = tail_h g -> fr_off f = fr_off g.
Proof. unfold tail_h. intro H. apply app_inv_head in H. apply fmt_hex_inj. exact H. Qed.

Lemma render_loc_shape p n f :
  render_loc p n f = ((p ++ 46 :: n) ++ 58 :: tail_b f) ++ 44 :: tail_h f.
Proof.
  unfold render_loc. rewrite render_tail_eq. rewrite <- !app_assoc. cbn [app].
  rewrite <- ?app_assoc. reflexivity.
Qed.

Lemma render_loc_inj p1 n1 f1 p2 n2 f2 : nodot n1 -> nodot n2 ->
  render_loc p1 n1 f1 = render_loc p2 n2 f2 ->
  p1 = p2 /\ n1 = n2 /\ fr_hasfunc f1 = fr_hasfunc f2 /\ fr_line f1 = fr_line f2 /\ fr_off f1 = fr_off f2.
Proof.
  intros Hn1 Hn2 E. rewrite !render_loc_shape in E.
  apply last_sep_unique in E; [|apply no44_in_h|apply no44_in_h].
  destruct E as [E Eh].
  apply last_sep_unique in E; [|apply no58_in_b|apply no58_in_b].
  destruct E as [E Eb].
  apply last_sep_unique in E; [|apply Forall_not_In; exact Hn1|apply Forall_not_In; exact Hn2].
  destruct E as [-> ->].
  destruct (tail_b_inj _ _ Eb) as [H1 H2]. pose proof (tail_h_inj _ _ Eh) as H3.
  repeat split; assumption.
Qed.

Definition id_frame (f : frame) : Prop := fn_identified (fr_func f) = true.

Lemma id_frame_spec f p n : id_frame f -> cut_last_dot (fr_func f) = (p, n) ->
  nonl (fr_func f) /\ p <> [34] /\ has_prefix (fr_func f) [46] = false.
Proof.
  unfold id_frame, fn_identified, path_of, is_ditto. intros H E. rewrite E in H. cbn [fst] in H.
  apply andb_true_iff in H as [H H3]. apply andb_true_iff in H as [H1 H2].
  apply no_nl_nonl in H1. apply negb_true_iff in H2, H3. apply beq_neq in H2.
  repeat split; assumption.
Qed.

(* a function name is determined by its cut, unless it has a leading dot *)
Lemma func_of_cut x y p n :
  cut_last_dot x = (p, n) -> cut_last_dot y = (p, n) ->
  has_prefix x [46] = false -> has_prefix y [46] = false -> x = y.
Proof.
  intros Ex Ey Hx Hy.
  destruct (cut_spec _ _ _ Ex) as [_ [H1|[H1 H1']]], (cut_spec _ _ _ Ey) as [_ [H2|[H2 H2']]]; subst; try reflexivity.
  - cbn in Hx. discriminate.
  - cbn in Hy. discriminate.
Qed.

Lemma frame_eq f g : fr_func f = fr_func g -> fr_hasfunc f = fr_hasfunc g ->
  fr_line f = fr_line g -> fr_off f = fr_off g -> f = g.
Proof. destruct f, g; cbn. intros -> -> -> ->. reflexivity. Qed.

Lemma cons_inj {A} (a b : A) l m : a :: l = b :: m -> a = b /\ l = m.
Proof. intro H. injection H as -> ->. split; reflexivity. Qed.

Lemma encode_locs_inj fs1 : forall fs2 last,
  Forall id_frame fs1 -> Forall id_frame fs2 ->
  encode_locs last fs1 = encode_locs last fs2 -> fs1 = fs2.
Proof.
  induction fs1 as [|f fs1 IH]; intros fs2 last H1 H2 E.
  - symmetry in E. apply encode_locs_nil in E. congruence.
  - destruct fs2 as [|g fs2]; [apply encode_locs_nil in E; discriminate|].
    inversion H1 as [|? ? Hf Hfs1]; inversion H2 as [|? ? Hg Hfs2]; subst.
    cbn [encode_locs] in E.
    destruct (cut_last_dot (fr_func f)) as [p n] eqn:Ef.
    destruct (cut_last_dot (fr_func g)) as [q m] eqn:Eg.
    destruct (id_frame_spec f p n Hf Ef) as [_ [Hp Hdf]].
    destruct (id_frame_spec g q m Hg Eg) as [_ [Hq Hdg]].
    destruct (cut_spec _ _ _ Ef) as [Hn _]. destruct (cut_spec _ _ _ Eg) as [Hm _].
    fold (dittoed p last) in E. fold (dittoed q last) in E.
    destruct (dittoed p last) eqn:Bp, (dittoed q last) eqn:Bq; apply cons_inj in E; destruct E as [Eh Et];
      destruct (render_loc_inj _ _ _ _ _ _ Hn Hm Eh) as [Epq [Enm [Ea [Eb Ec]]]].
    + apply dittoed_true in Bp as [Bp _]. apply dittoed_true in Bq as [Bq _]. subst p q m.
      f_equal; [|exact (IH _ _ Hfs1 Hfs2 Et)].
      apply frame_eq; try assumption. eapply func_of_cut; eassumption.
    + subst q. contradiction.
    + subst p. contradiction.
    + subst q m.
      f_equal; [|exact (IH _ _ Hfs1 Hfs2 Et)].
      apply frame_eq; try assumption. eapply func_of_cut; eassumption.
Qed.

Lemma id_frames_nonl fs : Forall id_frame fs -> Forall (fun f => nonl (fr_func f)) fs.
Proof.
  apply Forall_impl. intros f Hf. destruct (cut_last_dot (fr_func f)) as [p n] eqn:E.
  destruct (id_frame_spec f p n Hf E) as [H _]. exact H.
Qed.

Lemma join_nil_inv ls : Forall (fun l : bytes => l <> []) ls -> join ls [10] = [] -> ls = [].
Proof.
  destruct ls as [|a ls]; [reflexivity|]. intros H E. exfalso.
  inversion H as [|? ? Ha _]; subst. destruct ls; cbn [join] in E.
  - contradiction.
  - apply app_eq_nil in E as [E _]. contradiction.
Qed.

Lemma encode_locs_nonempty_lines fs : forall last, Forall (fun l : bytes => l <> []) (encode_locs last fs).
Proof.
  induction fs as [|f fs IH]; intro last; [constructor|]. cbn [encode_locs].
  destruct (cut_last_dot (fr_func f)) as [p n]. destruct (beq p last && negb (beq p []));
    (constructor; [apply render_loc_nonempty|apply IH]).
Qed.

Lemma join_lines_inj l1 l2 : Forall nonl l1 -> Forall nonl l2 ->
  Forall (fun l : bytes => l <> []) l1 -> Forall (fun l : bytes => l <> []) l2 ->
  join l1 [10] = join l2 [10] -> l1 = l2.
Proof.
  intros N1 N2 E1 E2 E.
  destruct l1 as [|a l1].
  - symmetry in E. cbn [join] in E. symmetry. apply join_nil_inv; assumption.
  - destruct l2 as [|b l2].
    + apply join_nil_inv in E; assumption.
    + rewrite <- (split_join (a :: l1)) by (discriminate || assumption).
      rewrite <- (split_join (b :: l2)) by (discriminate || assumption).
      rewrite E. reflexivity.
Qed.

Lemma encode_raw_inj prefix fs1 fs2 : Forall id_frame fs1 -> Forall id_frame fs2 ->
  encode_raw prefix fs1 = encode_raw prefix fs2 -> fs1 = fs2.
Proof.
  intros H1 H2 E. unfold encode_raw in E. apply app_inv_head in E. apply app_inv_head in E.
  apply join_lines_inj in E.
  - exact (encode_locs_inj _ _ _ H1 H2 E).
  - apply encode_locs_nonl, id_frames_nonl, H1.
  - apply encode_locs_nonl, id_frames_nonl, H2.
  - apply encode_locs_nonempty_lines.
  - apply encode_locs_nonempty_lines.
Qed.

Lemma injective_untruncated prefix fs1 fs2 :
  Forall id_frame fs1 -> Forall id_frame fs2 ->
  is_truncated prefix fs1 = false -> is_truncated prefix fs2 = false ->
  fs1 <> fs2 -> encode_frames prefix fs1 <> encode_frames prefix fs2.
Proof.
  intros H1 H2 T1 T2 Hne E. apply Hne.
  rewrite (untruncated_eq _ _ T1), (untruncated_eq _ _ T2) in E.
  exact (encode_raw_inj _ _ _ H1 H2 E).
Qed.

(* the two names excluded by fn_identified really collide *)
Lemma leading_dot_collision :
  let f := mkFrame ([102]) true 1 2 in
  let g := mkFrame ([46; 102]) true 1 2 in
  f <> g /\ encode_frames ([112]) [f] = encode_frames ([112]) [g].
Proof. split; [discriminate|vm_compute; reflexivity]. Qed.

Lemma ditto_path_collision :
  let f1 := mkFrame ([97; 46; 102]) true 1 2 in
  let f2 := mkFrame ([97; 46; 103]) true 1 2 in
  let g2 := mkFrame [34; 46; 103] true 1 2 in       (* a function whose package path is a lone ditto mark *)
  [f1; f2] <> [f1; g2] /\ encode_frames ([112]) [f1; f2] = encode_frames ([112]) [f1; g2].
Proof. split; [discriminate|vm_compute; reflexivity]. Qed.

(* ------------------------------------------------------------ the cache of Inc *)

Lemma lookup_from_bound pcs st : forall i j, lookup_from i pcs st = Some j ->
  (i <= j < i + length st)%nat.
Proof.
  induction st as [|[k v] st IH]; intros i j H; cbn [lookup_from] in H; [discriminate|].
  destruct (beq k pcs).
  - injection H as <-. cbn [length]. lia.
  - apply IH in H. cbn [length]. lia.
Qed.

Lemma lookup_from_key pcs st : forall i j, lookup_from i pcs st = Some j ->
  exists v, nth_error st (j - i) = Some (pcs, v).
Proof.
  induction st as [|[k v] st IH]; intros i j H; cbn [lookup_from] in H; [discriminate|].
  destruct (beq k pcs) eqn:B.
  - injection H as <-. apply beq_true_eq in B. subst. rewrite Nat.sub_diag. exists v. reflexivity.
  - pose proof (lookup_from_bound _ _ _ _ H) as Hb.
    destruct (IH _ _ H) as [w Hw]. exists w.
    replace (j - i)%nat with (S (j - S i)) by lia. exact Hw.
Qed.

Lemma lookup_from_app pcs st more : forall i j, lookup_from i pcs st = Some j ->
  lookup_from i pcs (st ++ more) = Some j.
Proof.
  induction st as [|[k v] st IH]; intros i j H; cbn [lookup_from app] in *; [discriminate|].
  destruct (beq k pcs); [exact H|apply IH; exact H].
Qed.

Lemma lookup_from_app_none pcs st more : forall i, lookup_from i pcs st = None ->
  lookup_from i pcs (st ++ more) = lookup_from (i + length st) pcs more.
Proof.
  induction st as [|[k v] st IH]; intros i H; cbn [lookup_from app length] in *.
  - rewrite Nat.add_0_r. reflexivity.
  - destruct (beq k pcs); [discriminate|]. rewrite IH by exact H. f_equal. lia.
Qed.

Section Cache.
  Variable symb : list N -> list frame.
  Variable name : bytes.

  (* every entry carries the name computed from its own pcs *)
  Definition names_ok (st : cache) : Prop :=
    Forall (fun e => snd e = encode_stack symb (fst e) name) st.

  Lemma inc_spec st pcs st1 i : inc symb name st pcs = (st1, i) ->
    lookup pcs st1 = Some i /\ (exists more, st1 = st ++ more) /\ (names_ok st -> names_ok st1).
  Proof.
    unfold inc. destruct (lookup pcs st) as [j|] eqn:L; intro E; injection E as <- <-.
    - split; [exact L|]. split; [exists []; rewrite app_nil_r; reflexivity|tauto].
    - split; [|split].
      + unfold lookup in *. rewrite lookup_from_app_none by exact L.
        cbn [lookup_from]. rewrite beq_refl. reflexivity.
      + eexists. reflexivity.
      + intro H. apply Forall_app. split; [exact H|]. constructor; [reflexivity|constructor].
  Qed.

  (* the counter hit by each Inc is the final cache's entry for its pcs *)
  Lemma run_hits hist : forall st st2 hits, run symb name st hist = (st2, hits) ->
    (exists more, st2 = st ++ more) /\
    (names_ok st -> names_ok st2) /\
    length hits = length hist /\
    forall k pcs, nth_error hist k = Some pcs -> nth_error hits k = lookup pcs st2.
  Proof.
    induction hist as [|p hist IH]; intros st st2 hits E; cbn [run] in E.
    - injection E as <- <-. split; [exists []; rewrite app_nil_r; reflexivity|].
      split; [tauto|]. split; [reflexivity|]. intros [|k] pcs H; discriminate.
    - destruct (inc symb name st p) as [st1 i] eqn:Ei.
      destruct (run symb name st1 hist) as [st2' hits'] eqn:Er.
      injection E as <- <-.
      destruct (inc_spec _ _ _ _ Ei) as [Hl [[m1 Hm1] Hn1]].
      destruct (IH _ _ _ Er) as [[m2 Hm2] [Hn2 [Hlen Hk]]].
      split; [exists (m1 ++ m2); rewrite Hm2, Hm1, app_assoc; reflexivity|].
      split; [tauto|]. split; [cbn [length]; congruence|].
      intros [|k] pcs H; cbn [nth_error] in *.
      + injection H as <-. rewrite Hm2. unfold lookup in *. symmetry. apply lookup_from_app. exact Hl.
      + apply Hk. exact H.
  Qed.

  Lemma same_stack_same_counter hist i j pcs :
    nth_error hist i = Some pcs -> nth_error hist j = Some pcs ->
    let hits := snd (run symb name [] hist) in
    nth_error hits i = nth_error hits j /\ nth_error hits i <> None.
  Proof.
    intros Hi Hj. destruct (run symb name [] hist) as [st2 hits] eqn:E. cbn [snd].
    destruct (run_hits _ _ _ _ E) as [_ [_ [Hlen Hk]]].
    rewrite (Hk _ _ Hi), (Hk _ _ Hj). split; [reflexivity|].
    rewrite <- (Hk _ _ Hi). apply nth_error_Some. rewrite Hlen. apply nth_error_Some. congruence.
  Qed.

  Lemma different_stack_different_counter hist i j p q c :
    nth_error hist i = Some p -> nth_error hist j = Some q -> p <> q ->
    let hits := snd (run symb name [] hist) in
    nth_error hits i = Some c -> nth_error hits j <> Some c.
  Proof.
    intros Hi Hj Hpq. destruct (run symb name [] hist) as [st2 hits] eqn:E. cbn [snd].
    destruct (run_hits _ _ _ _ E) as [_ [_ [_ Hk]]].
    rewrite (Hk _ _ Hi), (Hk _ _ Hj). intros H1 H2. unfold lookup in *.
    destruct (lookup_from_key _ _ _ _ H1) as [v Hv]. destruct (lookup_from_key _ _ _ _ H2) as [w Hw].
    rewrite Hv in Hw. injection Hw as Hw _. contradiction.
  Qed.

  (* the counter hit carries the name encoding the stack *)
  Lemma hit_counter_name hist i pcs c :
    nth_error hist i = Some pcs ->
    let '(st2, hits) := run symb name [] hist in
    nth_error hits i = Some c -> nth_error st2 c = Some (pcs, encode_stack symb pcs name).
  Proof.
    intros Hi. destruct (run symb name [] hist) as [st2 hits] eqn:E.
    destruct (run_hits _ _ _ _ E) as [_ [Hn [_ Hk]]].
    rewrite (Hk _ _ Hi). intro H. unfold lookup in H.
    destruct (lookup_from_key _ _ _ _ H) as [v Hv]. rewrite Nat.sub_0_r in Hv.
    assert (Hok : names_ok st2) by (apply Hn; constructor).
    unfold names_ok in Hok. rewrite Forall_forall in Hok.
    specialize (Hok _ (nth_error_In _ _ Hv)). cbn [fst snd] in Hok. rewrite Hv, Hok. reflexivity.
  Qed.

  (* NewStack(name, depth): the key of an Inc is the first depth pcs of the call
     stack.  Two Incs hit one counter exactly when their stacks agree on those. *)
  Lemma depth_identity (d : nat) fulls i j p q :
    nth_error fulls i = Some p -> nth_error fulls j = Some q ->
    let hits := snd (run symb name [] (map (firstn d) fulls)) in
    nth_error hits i = nth_error hits j <-> firstn d p = firstn d q.
  Proof.
    intros Hi Hj hits.
    pose proof (map_nth_error (firstn d) _ _ Hi) as Hi'. pose proof (map_nth_error (firstn d) _ _ Hj) as Hj'.
    split.
    - intro E. destruct (list_eq_dec N.eq_dec (firstn d p) (firstn d q)) as [Heq|Hne]; [exact Heq|].
      exfalso. destruct (same_stack_same_counter _ _ _ _ Hi' Hi') as [_ Hsome].
      destruct (nth_error hits i) as [c|] eqn:Ec; [|apply Hsome; exact Ec].
      refine (different_stack_different_counter _ _ _ _ _ c Hi' Hj' Hne Ec _).
      unfold hits in E. rewrite <- E. reflexivity.
    - intro Heq. rewrite Heq in Hi'. destruct (same_stack_same_counter _ _ _ _ Hi' Hj') as [E _]. exact E.
  Qed.

  (* ReadStack keys: the expanded name of every counter is the uncompressed
     rendering of its own stack's frames *)
  Lemma readstack_key_expanded hist c pcs nm :
    Forall rt_frame (symb pcs) -> pfx_ok name -> is_truncated name (symb pcs) = false ->
    nth_error (fst (run symb name [] hist)) c = Some (pcs, nm) ->
    decode_stack nm = render_plain name (symb pcs).
  Proof.
    intros Hrt Hp Ht Hn. destruct (run symb name [] hist) as [st2 hits] eqn:E. cbn [fst] in Hn.
    destruct (run_hits _ _ _ _ E) as [_ [Hok _]].
    assert (H : names_ok st2) by (apply Hok; constructor).
    unfold names_ok in H. rewrite Forall_forall in H. specialize (H _ (nth_error_In _ _ Hn)).
    cbn [fst snd] in H. subst nm. unfold encode_stack. apply decode_encode; assumption.
  Qed.

  (* with an injective symboliser, different stacks get different names unless truncated *)
  Hypothesis symb_inj : forall p q, symb p = symb q -> p = q.
  Hypothesis symb_id : forall p, Forall id_frame (symb p).

  Lemma different_stack_different_name p q : p <> q ->
    is_truncated name (symb p) = false -> is_truncated name (symb q) = false ->
    encode_stack symb p name <> encode_stack symb q name.
  Proof.
    intros Hpq Tp Tq. unfold encode_stack. apply injective_untruncated; try assumption; try apply symb_id.
    intro E. apply Hpq. apply symb_inj. exact E.
  Qed.
End Cache.

(* KNOWN FINDING (class symboliser-not-injective): the premise symb_inj fails
   for the real runtime: all instantiations of a generic function are named
   F[...], with equal line and pc offsets when they share code shape, so two
   different pc lists get one name.  Model witness: any symboliser that sends
   two different pcs to the same frame. *)
Definition generic_frame : frame :=
  mkFrame [112; 47; 112; 97; 46; 71; 91; 46; 46; 46; 93] true 1 30.    (* p/pa.G[...] :+1,+0x1e *)

Lemma different_stack_same_name_refuted :
  let symb := fun pcs : list N => map (fun _ : N => generic_frame) pcs in
  let name := [115; 116] in
  [1] <> [2] /\ (forall p, Forall id_frame (symb p)) /\
  is_truncated name (symb [1]) = false /\ is_truncated name (symb [2]) = false /\
  encode_stack symb [1] name = encode_stack symb [2] name.
Proof.
  cbv zeta. split; [discriminate|]. split; [|repeat split; vm_compute; reflexivity].
  intro p. apply Forall_map. apply Forall_forall. intros x _. vm_compute. reflexivity.
Qed.

(* the cache key must be the WHOLE recorded pc slice: keyed on a bounded prefix
   (here 32 pcs) two different stacks of equal length share a counter *)
Lemma bounded_key_refuted (symb : list N -> list frame) (name : bytes) :
  let p := repeat 7 32 ++ [1] in
  let q := repeat 7 32 ++ [2] in
  p <> q /\ length p = length q /\
  let hits := snd (run symb name [] (map (firstn 32) [p; q])) in
  nth_error hits 0 = nth_error hits 1.
Proof.
  cbv zeta. split; [discriminate|]. split; [reflexivity|].
  apply (depth_identity symb name 32 [repeat 7 32 ++ [1]; repeat 7 32 ++ [2]] 0 1 _ _ eq_refl eq_refl).
  reflexivity.
Qed.

(* no length limit applies to the EXPANDED name: an encoded name well within the
   4096-byte limit can expand to more than 4096 bytes (100 frames of one package) *)
Definition long_pkg_frame : frame :=
  mkFrame (repeat 112 60 ++ [46; 102]) true 1 26.        (* 60 x p, then .f *)

Lemma expanded_name_exceeds_limit :
  let fs := repeat long_pkg_frame 100 in
  Forall rt_frame fs /\ pfx_ok [115; 116] /\
  is_truncated [115; 116] fs = false /\
  (N.of_nat (length (encode_frames [115; 116] fs)) <= 4096) /\
  decode_stack (encode_frames [115; 116] fs) = render_plain [115; 116] fs /\
  4096 < N.of_nat (length (decode_stack (encode_frames [115; 116] fs))).
Proof.
  cbv zeta.
  assert (Hrt : Forall rt_frame (repeat long_pkg_frame 100)).
  { apply Forall_forall. intros f Hf. apply repeat_spec in Hf. subst f. vm_compute. reflexivity. }
  assert (Hp : pfx_ok [115; 116]) by (vm_compute; reflexivity).
  assert (Ht : is_truncated [115; 116] (repeat long_pkg_frame 100) = false) by (vm_compute; reflexivity).
  split; [exact Hrt|]. split; [exact Hp|]. split; [exact Ht|].
  split; [exact (length_bound _ _)|]. split; [apply decode_encode; assumption|].
  rewrite (decode_encode _ _ Hp Hrt Ht). vm_compute. reflexivity.
Qed.

(* expanding a truncated name keeps the visible mark: whatever the frames and the
   counter name, the expansion of a truncated name still ends with the marker *)
Lemma decode_lines_app_exists a : forall last b,
  exists last', decode_lines last (a ++ b) = decode_lines last a ++ decode_lines last' b.
Proof.
  induction a as [|l a IH]; intros last b; [exists last; reflexivity|].
  cbn [app decode_lines]. destruct (cut_last_dot l) as [p r].
  destruct p as [|c p].
  - destruct (IH last b) as [l' ->]. exists l'. reflexivity.
  - destruct (beq (c :: p) [34]).
    + destruct (IH last b) as [l' ->]. exists l'. reflexivity.
    + destruct (IH ((c :: p) ++ [46]) b) as [l' ->]. exists l'. reflexivity.
Qed.

Definition marker_word : bytes := [116; 114; 117; 110; 99; 97; 116; 101; 100].   (* truncated *)

Lemma marker_shape : c_truncated_marker = 10 :: marker_word ++ [10].
Proof. reflexivity. Qed.

Lemma decode_marker_lines last : decode_lines last [marker_word; []] = [marker_word; []].
Proof. reflexivity. Qed.

Lemma decode_truncated_keeps_marker prefix fs : is_truncated prefix fs = true ->
  exists body, decode_stack (encode_frames prefix fs) = body ++ c_truncated_marker.
Proof.
  intro Ht. rewrite (truncated_eq _ _ Ht).
  set (kept := firstn (N.to_nat c_maxNameLen - length c_truncated_marker) (encode_raw prefix fs)).
  rewrite marker_shape. unfold decode_stack. rewrite is_stack_app_nl.
  rewrite split_app_nl.
  assert (Hs : split_byte (marker_word ++ [10]) 10 = [marker_word; []]) by reflexivity.
  rewrite Hs.
  destruct (decode_lines_app_exists (split_byte kept 10) [] [marker_word; []]) as [l' ->].
  rewrite decode_marker_lines.
  exists (join (decode_lines [] (split_byte kept 10)) [10]).
  rewrite join_app.
  - cbn [join app]. reflexivity.
  - intro E. apply (f_equal (@length bytes)) in E. rewrite decode_lines_length in E.
    destruct (split_byte kept 10) eqn:E2; [exact (split_byte_nonempty _ _ E2)|discriminate].
  - discriminate.
Qed.

(* ------------------------------------------------------------ statements with the literal bound *)

Lemma length_bound_lit prefix fs : N.of_nat (length (encode_frames prefix fs)) <= 4096.
Proof. exact (length_bound prefix fs). Qed.

Lemma truncation_marked_lit prefix fs :
  4096 < N.of_nat (length (encode_raw prefix fs)) ->
  N.of_nat (length (encode_frames prefix fs)) = 4096 /\
  exists body, encode_frames prefix fs = body ++ [10; 116; 114; 117; 110; 99; 97; 116; 101; 100; 10].
Proof.
  intro H. assert (Ht : is_truncated prefix fs = true) by (unfold is_truncated; apply N.ltb_lt; exact H).
  destruct (truncation_marked prefix fs Ht) as [H1 [H2 _]]. split; [exact H1|].
  apply has_suffix_app in H2. exact H2.
Qed.

Lemma untruncated_unmarked prefix fs :
  N.of_nat (length (encode_raw prefix fs)) <= 4096 -> encode_frames prefix fs = encode_raw prefix fs.
Proof.
  intro H. apply untruncated_eq. unfold is_truncated. apply N.ltb_ge. exact H.
Qed.

Lemma decode_total s : exists r, decode_stack s = r /\
  length (split_byte r 10) = length (split_byte s 10).
Proof. eexists. split; [reflexivity|apply decode_line_count]. Qed.
