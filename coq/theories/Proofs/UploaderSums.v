(* Proofs/UploaderSums: the canonical body of a report (Model/Uploader.sums)
   groups the folded count files by their program identity: one program entry
   per identity that occurs, and the value of every counter in it is the sum
   over exactly the files of that identity. *)
From Coq Require Import List ZArith NArith Bool Lia Sorting.Sorted Sorting.Permutation.
From Tele Require Import Lib.Bytes Lib.FS Model.Span Model.Uploader.
Import ListNotations.
Open Scope Z_scope.

(* the value of counter k in a list of (counter, value) pairs *)
Definition kval (cs : list (N * Z)) (k : N) : Z :=
  fold_right (fun kv a => if N.eqb (fst kv) k then snd kv + a else a) 0 cs.
(* the value of counter k in the program entries of identity p *)
Definition pval (l : list (N * list (N * Z))) (p k : N) : Z :=
  fold_right (fun e a => if N.eqb (fst e) p then kval (snd e) k + a else a) 0 l.
(* what the files of identity p contribute to counter k *)
Definition fval (files : list (bytes * cfile)) (p k : N) : Z :=
  fold_right (fun e a => if N.eqb (cf_prog (snd e)) p then kval (cf_counts (snd e)) k + a else a) 0 files.

Lemma add_kv_val l k v k' : kval (add_kv l k v) k' = kval l k' + (if N.eqb k k' then v else 0).
Proof.
  induction l as [|[k0 v0] l IH]; simpl.
  - destruct (N.eqb k k'); lia.
  - destruct (N.eqb k0 k) eqn:E0.
    + apply N.eqb_eq in E0. subst k0. simpl. destruct (N.eqb k k'); lia.
    + destruct (N.ltb k k0); simpl.
      * destruct (N.eqb k k'); destruct (N.eqb k0 k'); lia.
      * rewrite IH. destruct (N.eqb k0 k'); lia.
Qed.

Lemma add_kvs_val cs : forall l k', kval (add_kvs l cs) k' = kval l k' + kval cs k'.
Proof.
  unfold add_kvs. induction cs as [|[k v] cs IH]; intros l k'; simpl; [lia|].
  rewrite IH, add_kv_val. destruct (N.eqb k k'); lia.
Qed.

Lemma add_prog_val l p cs p' k :
  pval (add_prog l p cs) p' k = pval l p' k + (if N.eqb p p' then kval cs k else 0).
Proof.
  induction l as [|[p0 cs0] l IH]; simpl.
  - rewrite add_kvs_val. simpl. destruct (N.eqb p p'); lia.
  - destruct (N.eqb p0 p) eqn:E0.
    + apply N.eqb_eq in E0. subst p0. simpl. rewrite add_kvs_val. destruct (N.eqb p p'); lia.
    + destruct (N.ltb p p0); simpl.
      * rewrite add_kvs_val. simpl. destruct (N.eqb p p'); destruct (N.eqb p0 p'); lia.
      * rewrite IH. destruct (N.eqb p0 p'); lia.
Qed.

Definition contrib (allowed : list N) (up : bool) (cf : cfile) : list (N * Z) :=
  if up then filter (fun kv => existsb (N.eqb (fst kv)) allowed) (cf_counts cf) else cf_counts cf.

Definition fval_gen (allowed : list N) (up : bool) (files : list (bytes * cfile)) (p k : N) : Z :=
  fold_right (fun e a => if N.eqb (cf_prog (snd e)) p then kval (contrib allowed up (snd e)) k + a else a) 0 files.

Lemma sums_fold allowed up files : forall acc p k,
  pval (fold_left (fun a e => add_prog a (cf_prog (snd e)) (contrib allowed up (snd e))) files acc) p k
  = pval acc p k + fval_gen allowed up files p k.
Proof.
  induction files as [|e files IH]; intros acc p k; simpl; [lia|].
  rewrite IH, add_prog_val. destruct (N.eqb (cf_prog (snd e)) p); lia.
Qed.

Lemma sums_unfold allowed up files :
  sums allowed up files =
  fold_left (fun a e => add_prog a (cf_prog (snd e)) (contrib allowed up (snd e))) files [].
Proof. reflexivity. Qed.

(* each value = the sum over exactly the files of that identity *)
Theorem sums_val allowed up files p k :
  pval (sums allowed up files) p k = fval_gen allowed up files p k.
Proof. rewrite sums_unfold, (sums_fold allowed up files [] p k). simpl. lia. Qed.

Lemma fval_gen_local allowed files p k : fval_gen allowed false files p k = fval files p k.
Proof. reflexivity. Qed.

Theorem sums_val_local allowed files p k : pval (sums allowed false files) p k = fval files p k.
Proof. rewrite sums_val. apply fval_gen_local. Qed.

(* the upload version keeps exactly the approved counters *)
Lemma kval_filter (f : N -> bool) cs k :
  kval (filter (fun kv => f (fst kv)) cs) k = if f k then kval cs k else 0.
Proof.
  induction cs as [|[k0 v0] cs IH]; simpl; [destruct (f k); reflexivity|].
  destruct (f k0) eqn:Ef; simpl; rewrite IH.
  - destruct (N.eqb k0 k) eqn:E; [apply N.eqb_eq in E; subst; rewrite Ef; reflexivity|destruct (f k); reflexivity].
  - destruct (N.eqb k0 k) eqn:E; [apply N.eqb_eq in E; subst; rewrite Ef; reflexivity|reflexivity].
Qed.

Theorem sums_val_upload allowed files p k :
  pval (sums allowed true files) p k = if existsb (N.eqb k) allowed then fval files p k else 0.
Proof.
  rewrite sums_val. unfold fval_gen, fval, contrib.
  induction files as [|e files IH]; simpl; [destruct (existsb (N.eqb k) allowed); reflexivity|].
  rewrite IH. rewrite (kval_filter (fun x => existsb (N.eqb x) allowed)).
  destruct (N.eqb (cf_prog (snd e)) p); destruct (existsb (N.eqb k) allowed); lia.
Qed.

(* ---- the program entries: strictly sorted by identity (no identity twice),
        and exactly the identities of the files ---- *)
Definition keys (l : list (N * list (N * Z))) : list N := map fst l.

Lemma add_prog_keys l p cs x : In x (keys (add_prog l p cs)) <-> x = p \/ In x (keys l).
Proof.
  unfold keys. induction l as [|[p0 cs0] l IH]; simpl; [intuition congruence|].
  destruct (N.eqb p0 p) eqn:E0.
  - apply N.eqb_eq in E0. subst p0. simpl. intuition congruence.
  - destruct (N.ltb p p0); simpl; [intuition congruence|]. rewrite IH. intuition congruence.
Qed.

Lemma add_prog_sorted l p cs :
  StronglySorted N.lt (keys l) -> StronglySorted N.lt (keys (add_prog l p cs)).
Proof.
  unfold keys. induction l as [|[p0 cs0] l IH]; simpl; intros H.
  - repeat constructor.
  - inversion H as [|a b H1 H2]; subst.
    destruct (N.eqb p0 p) eqn:E0; [simpl; constructor; assumption|].
    destruct (N.ltb p p0) eqn:E1; simpl.
    + apply N.ltb_lt in E1. constructor; [exact H|]. constructor; [exact E1|].
      rewrite Forall_forall in *. intros x Hx. specialize (H2 x Hx). lia.
    + apply N.ltb_ge in E1. apply N.eqb_neq in E0. constructor; [apply IH; exact H1|].
      rewrite Forall_forall in *. intros x Hx.
      apply (add_prog_keys l p cs x) in Hx. destruct Hx as [-> | Hx]; [lia|apply H2; exact Hx].
Qed.

Lemma sums_fold_keys allowed up files : forall acc,
  StronglySorted N.lt (keys acc) ->
  StronglySorted N.lt (keys (fold_left (fun a e => add_prog a (cf_prog (snd e)) (contrib allowed up (snd e))) files acc)) /\
  forall x, In x (keys (fold_left (fun a e => add_prog a (cf_prog (snd e)) (contrib allowed up (snd e))) files acc)) <->
            In x (keys acc) \/ exists e : bytes * cfile, In e files /\ cf_prog (snd e) = x.
Proof.
  induction files as [|e files IH]; intros acc H; simpl.
  - split; [exact H|]. intros x. split; [auto|intros [Hx | (e & [] & _)]; exact Hx].
  - destruct (IH _ (add_prog_sorted acc (cf_prog (snd e)) (contrib allowed up (snd e)) H)) as [A B].
    split; [exact A|]. intros x. rewrite B, add_prog_keys. split.
    + intros [[-> | Hx] | (e' & He' & Hp)]; eauto.
    + intros [Hx | (e' & [<- | He'] & Hp)]; eauto.
Qed.

Theorem sums_keys allowed up files :
  StronglySorted N.lt (keys (sums allowed up files)) /\
  forall x, In x (keys (sums allowed up files)) <-> exists e : bytes * cfile, In e files /\ cf_prog (snd e) = x.
Proof.
  rewrite sums_unfold.
  destruct (sums_fold_keys allowed up files [] (SSorted_nil _)) as [A B]. split; [exact A|].
  intros x. rewrite (B x). simpl. tauto.
Qed.

Lemma sorted_nodup l : StronglySorted N.lt l -> NoDup l.
Proof.
  induction 1 as [|a l H IH Hall]; constructor; auto.
  intros Hin. rewrite Forall_forall in Hall. specialize (Hall a Hin). lia.
Qed.

(* ---- the order of the files does not matter ---- *)
Lemma fval_perm files files' p k : Permutation files files' -> fval files p k = fval files' p k.
Proof.
  induction 1 as [|e l l' H IH|e1 e2 l|l l' l'' H1 IH1 H2 IH2]; simpl; auto.
  - rewrite IH. reflexivity.
  - destruct (N.eqb (cf_prog (snd e1)) p); destruct (N.eqb (cf_prog (snd e2)) p); lia.
  - congruence.
Qed.

(* ---- the executable oracle is equality with the canonical body ---- *)
Lemma kvs_eqb_eq a : forall b, kvs_eqb a b = true <-> a = b.
Proof.
  induction a as [|[k v] a IH]; intros [|[k' v'] b]; simpl; split; try discriminate; auto.
  - intros H. apply andb_prop in H. destruct H as [H H3]. apply andb_prop in H. destruct H as [H1 H2].
    apply N.eqb_eq in H1. apply Z.eqb_eq in H2. apply IH in H3. congruence.
  - intros H. injection H as -> -> ->. rewrite N.eqb_refl, Z.eqb_refl. simpl. apply IH. reflexivity.
Qed.

Lemma progs_eqb_eq a : forall b, progs_eqb a b = true <-> a = b.
Proof.
  induction a as [|[p cs] a IH]; intros [|[p' cs'] b]; simpl; split; try discriminate; auto.
  - intros H. apply andb_prop in H. destruct H as [H H3]. apply andb_prop in H. destruct H as [H1 H2].
    apply N.eqb_eq in H1. apply kvs_eqb_eq in H2. apply IH in H3. congruence.
  - intros H. injection H as -> -> ->. rewrite N.eqb_refl. simpl.
    rewrite (proj2 (kvs_eqb_eq cs' cs') eq_refl). simpl. apply IH. reflexivity.
Qed.

Theorem week_reports_ok_spec obs files :
  week_reports_ok obs files = true ->
  NoDup (keys obs) /\
  (forall x, In x (keys obs) <-> exists e : bytes * cfile, In e files /\ cf_prog (snd e) = x) /\
  forall p k, pval obs p k = fval files p k.
Proof.
  unfold week_reports_ok. intros H. apply progs_eqb_eq in H. subst obs.
  destruct (sums_keys [] false files) as [A B].
  split; [apply sorted_nodup; exact A|]. split; [exact B|].
  intros p k. rewrite sums_val. reflexivity.
Qed.
