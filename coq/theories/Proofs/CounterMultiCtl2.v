(* Towards the control invariant of Model/CounterMulti WITH inline extension
   (a generalisation of Proofs/CounterMultiCtl.v, self-contained so that the
   partial theorems there stay untouched): the base invariant `CIb` of a thread
   (no statement about m_nest / m_grown), rotations that open a FULL file
   (changerM FullFile) and an initially full file admitted; every step that is
   not itself an inline extension preserves it (`core_CI_add`, `core_CI_chg`
   under `NGH`), hence the control invariant `GI2` holds, and no flag is set, UP
   TO THE FIRST INLINE EXTENSION of every run (`GI2_run`,
   `multi_flags_clear_upto`).  NOT here yet: the second walk level (the nested
   walk over m_nest, the own thread at CounterConc's G program points, the
   couplings at the growth step and at the nested close); the step lemmas it
   needs are proved (`step_grow`, `stepG`, `step_gclose_thr`, `llook2_prev2`,
   `step_prev2`). *)
From Coq Require Import List ZArith NArith Bool Arith Lia.
From Tele Require Import Gen.Consts Model.CounterConc Model.CounterMulti Proofs.CounterWord Proofs.CounterInv Proofs.CounterMultiFacts.
Import ListNotations.
Open Scope Z_scope.

(* ---- classes of program points of the embedded threads ---- *)
Definition inI (u : thread) : Prop := t_pc u = IvLoad \/ t_pc u = IvCas.
Definition pcR (p : pc) : bool :=
  match p with RfLoad | RfCas | LCas | LLoad | LLook1 | LLook2 | LCellLoad | LCellCas | Crash => true | _ => false end.
Definition pcA (p : pc) : bool :=
  match p with
  | ALoad | ACas | AXCas | AXLoad | ACellLoad | ACellCas | RCas | RLoad
  | LCas | LLoad | LLook1 | LLook2 | LCellLoad | LCellCas | Crash => true
  | _ => false
  end.
Definition fin (u : thread) : Prop := t_pc u = match t_prev u with Some _ => CClose | None => Done end.

Ltac step_cases H :=
  repeat match type of H with
         | (if ?c then _ else _) = _ => destruct c
         | match ?c with Some _ => _ | None => _ end = _ => destruct c
         | match ?c with O => _ | S _ => _ end = _ => destruct c
         | (let w' := _ in _) = _ => cbv zeta in H
         end.

Lemma fin_to_close u : fin (to_close u).
Proof. unfold fin, to_close. destruct (t_prev u) eqn:E; cbn; rewrite E; reflexivity. Qed.
Lemma to_close_keeps u : t_kind (to_close u) = t_kind u /\ t_prev (to_close u) = t_prev u.
Proof. unfold to_close. destruct (t_prev u) eqn:E; cbn; auto. Qed.

(* invalidate *)
Lemma stepI np s u s' u' : step_thread np s u = (s', u') -> inI u ->
  (inI u' \/ t_pc u' = RfLoad) /\ t_kind u' = t_kind u /\ t_prev u' = t_prev u /\
  file_part s' = file_part s /\ length (s_cells s') = length (s_cells s).
Proof.
  intros H [Hpc|Hpc]; unfold step_thread in H; rewrite Hpc in H; step_cases H; injection H as <- <-;
    unfold inI; cbn; auto.
Qed.

(* refresh (incl. releaseLock and the lookup), a thread of kind Changer, file not full *)
Ltac keeps :=
  repeat match goal with
         | |- context [to_close ?x] => let A := fresh in let B := fresh in destruct (to_close_keeps x) as [A B]; rewrite ?A, ?B; clear A B
         end; cbn [t_pc t_kind t_prev with_pc with_st with_old with_amt with_st2]; auto.

Lemma stepR np s u s' u' : step_thread np s u = (s', u') -> pcR (t_pc u) = true -> t_kind u = Changer -> s_full s = false ->
  (pcR (t_pc u') = true \/ fin u') /\ t_kind u' = Changer /\ t_prev u' = t_prev u /\
  file_part s' = file_part s /\ length (s_cells s') = length (s_cells s).
Proof.
  intros H Hp Hk Hf. unfold step_thread in H.
  destruct (t_pc u) eqn:Hpc; try discriminate Hp; try rewrite Hf in H; step_cases H; try rewrite Hf in H; step_cases H;
    injection H as <- <-; unfold after_release in *; try rewrite Hk in *;
    (split; [first [left; cbn; rewrite ?Hpc; reflexivity | right; apply fin_to_close] |]);
    (split; [keeps|]); (split; [keeps|]);
    cbn [file_part set_word set_sat set_ptr set_cell touch s_cur s_maps s_closed s_full s_tight s_cells]; rewrite ?upd_len; split; reflexivity.
Qed.

(* Add proper (from its first load), a thread of kind Adder, file not full *)
Lemma stepA np s u s' u' : step_thread np s u = (s', u') -> pcA (t_pc u) = true -> t_kind u = Adder -> s_full s = false ->
  (pcA (t_pc u') = true \/ t_pc u' = Done) /\ t_kind u' = Adder /\
  file_part s' = file_part s /\ length (s_cells s') = length (s_cells s).
Proof.
  intros H Hp Hk Hf. unfold step_thread in H.
  destruct (t_pc u) eqn:Hpc; try discriminate Hp; try rewrite Hf in H; step_cases H; try rewrite Hf in H; step_cases H;
    injection H as <- <-; unfold after_release in *; try rewrite Hk in *;
    (split; [first [left; cbn; rewrite ?Hpc; reflexivity | right; reflexivity] |]);
    (split; [keeps|]);
    cbn [file_part set_word set_sat set_ptr set_cell touch s_cur s_maps s_closed s_full s_tight s_cells]; rewrite ?upd_len; split; reflexivity.
Qed.

Ltac step_cases_e H :=
  repeat match type of H with
         | (if ?c then _ else _) = _ => destruct c eqn:?
         | match ?c with Some _ => _ | None => _ end = _ => destruct c eqn:?
         | match ?c with O => _ | S _ => _ end = _ => destruct c eqn:?
         | match ?c with NewFile => _ | SameFile => _ | NoFile => _ | FullFile => _ end = _ => destruct c eqn:?
         | (let w' := _ in _) = _ => cbv zeta in H
         end.

Definition nogrowb (u u' : thread) : bool := negb (pc_is (t_pc u) LLook2 && pc_is (t_pc u') GIvLoad).

(* refresh, kind Changer, a step that is not the extension *)
Lemma stepR2 np s u s' u' : step_thread np s u = (s', u') -> pcR (t_pc u) = true -> t_kind u = Changer ->
  nogrowb u u' = true ->
  (pcR (t_pc u') = true \/ fin u') /\ t_kind u' = Changer /\ t_prev u' = t_prev u /\
  file_part s' = file_part s /\ length (s_cells s') = length (s_cells s).
Proof.
  intros H Hp Hk Hg. unfold step_thread in H. unfold nogrowb in Hg.
  destruct (t_pc u) eqn:Hpc; try discriminate Hp; step_cases_e H;
    injection H as <- <-; unfold after_release in *; try rewrite Hk in *; cbn in Hg; try discriminate Hg;
    (split; [first [left; cbn; rewrite ?Hpc; reflexivity | right; apply fin_to_close] |]);
    (split; [keeps|]); (split; [keeps|]);
    cbn [file_part set_word set_sat set_ptr set_cell touch s_cur s_maps s_closed s_full s_tight s_cells]; rewrite ?upd_len; split; reflexivity.
Qed.

Lemma stepA2 np s u s' u' : step_thread np s u = (s', u') -> pcA (t_pc u) = true -> t_kind u = Adder ->
  nogrowb u u' = true ->
  (pcA (t_pc u') = true \/ t_pc u' = Done) /\ t_kind u' = Adder /\ t_prev u' = t_prev u /\
  file_part s' = file_part s /\ length (s_cells s') = length (s_cells s).
Proof.
  intros H Hp Hk Hg. unfold step_thread in H. unfold nogrowb in Hg.
  destruct (t_pc u) eqn:Hpc; try discriminate Hp; step_cases H;
    injection H as <- <-; unfold after_release in *; try rewrite Hk in *; cbn in Hg; try discriminate Hg;
    (split; [first [left; cbn; rewrite ?Hpc; reflexivity | right; reflexivity] |]);
    (split; [keeps|]); (split; [keeps|]);
    cbn [file_part set_word set_sat set_ptr set_cell touch s_cur s_maps s_closed s_full s_tight s_cells]; rewrite ?upd_len; split; reflexivity.
Qed.

Lemma step_prev2 np s u s' u' : step_thread np s u = (s', u') ->
  t_prev2 u' = t_prev2 u \/ (t_pc u = LLook2 /\ t_pc u' = GIvLoad).
Proof.
  intros H. unfold step_thread in H.
  destruct (t_pc u) eqn:Hpc; step_cases_e H; injection H as <- <-; unfold after_release, to_close, goto_nops;
    try (right; split; reflexivity);
    left; repeat match goal with |- context [match ?c with _ => _ end] => destruct c end; cbn; congruence.
Qed.

(* the extension itself *)
Lemma step_grow np s u s' u' : step_thread np s u = (s', u') -> t_pc u = LLook2 -> t_pc u' = GIvLoad ->
  exists g0, s_cur s = Some g0 /\ s_full s = true /\ t_prev2 u = None /\ t_prev2 u' = Some g0 /\
    t_kind u' = t_kind u /\ t_prev u' = t_prev u /\ t_tgt u' = t_tgt u /\
    file_part s' = (Some (length (s_maps s)), s_maps s ++ [file_of s g0], s_closed s, false, false) /\
    length (s_cells s') = length (s_cells s).
Proof.
  intros H Hpc Hg. unfold step_thread in H. rewrite Hpc in H.
  destruct (s_cur s) as [g0|] eqn:Ec; [|injection H as <- <-; cbn in Hg; discriminate].
  destruct (t_prev2 u) eqn:E2; [injection H as <- <-; cbn in Hg; discriminate|].
  destruct (s_full s) eqn:Ef; injection H as <- <-; [|cbn in Hg; discriminate].
  exists g0. cbn. repeat split; reflexivity.
Qed.
Lemma llook2_prev2 np s u s' u' : step_thread np s u = (s', u') -> t_prev2 u <> None -> nogrowb u u' = true.
Proof.
  intros H Hn. unfold nogrowb. destruct (pc_is (t_pc u) LLook2) eqn:E1; [|reflexivity].
  destruct (pc_is (t_pc u') GIvLoad) eqn:E2; [|reflexivity]. apply pc_is_eq in E1, E2.
  destruct (step_grow _ _ _ _ _ H E1 E2) as (g0 & _ & _ & X & _). congruence.
Qed.

(* the own thread inside the nested walk *)
Definition pcGI (p : pc) : bool := match p with GIvLoad | GIvCas => true | _ => false end.
Definition pcGR (p : pc) : bool := match p with GRfLoad | Crash => true | _ => false end.
Lemma stepG np s u s' u' : step_thread np s u = (s', u') -> pcGI (t_pc u) = true \/ pcGR (t_pc u) = true ->
  (if pcGI (t_pc u) then pcGI (t_pc u') = true \/ t_pc u' = GRfLoad else pcGR (t_pc u') = true \/ t_pc u' = GClose) /\
  t_kind u' = t_kind u /\ t_prev u' = t_prev u /\ t_prev2 u' = t_prev2 u /\ t_tgt u' = t_tgt u /\
  file_part s' = file_part s /\ length (s_cells s') = length (s_cells s).
Proof.
  intros H Hp. unfold step_thread in H.
  destruct (t_pc u) eqn:Hpc; cbn in Hp; destruct Hp as [Hp|Hp]; try discriminate Hp; step_cases H; injection H as <- <-;
    cbn; rewrite ?Hpc; cbn; repeat split; auto.
Qed.
Lemma step_gclose_thr np s u : t_pc u = GClose ->
  let u' := snd (step_thread np s u) in
  t_pc u' = LCas /\ t_kind u' = t_kind u /\ t_prev u' = t_prev u /\ t_tgt u' = t_tgt u /\
  length (s_cells (fst (step_thread np s u))) = length (s_cells s).
Proof. intros H. unfold step_thread. rewrite H. destruct (t_prev2 u); cbn; auto. Qed.

Lemma thr_idle_adder ms j u : t_pc u = AIdle ->
  t_pc (thr_step ms j u) = ALoad /\ t_kind (thr_step ms j u) = t_kind u.
Proof. intros H. unfold thr_step, step_thread. rewrite H. cbn. auto. Qed.
Lemma thr_idle_changer ms j u : t_pc u = CIdle -> t_tgt u = NewFile \/ t_tgt u = FullFile ->
  t_pc (thr_step ms j u) = CStore /\ t_tgt (thr_step ms j u) = t_tgt u.
Proof. intros H [T|T]; unfold thr_step, step_thread; rewrite H, T; cbn; auto. Qed.
Lemma thr_store ms j u : t_pc u = CStore -> t_tgt u = NewFile \/ t_tgt u = FullFile ->
  t_pc (thr_step ms j u) = IvLoad /\ t_kind (thr_step ms j u) = Changer /\ t_prev (thr_step ms j u) = ms_cur ms.
Proof. intros H [T|T]; unfold thr_step, step_thread; rewrite H, T; cbn; auto. Qed.
Lemma thr_close ms j u g : t_pc u = CClose -> t_prev u = Some g -> t_pc (thr_step ms j u) = Done.
Proof. intros H T. unfold thr_step, step_thread. rewrite H, T. cbn. auto. Qed.

(* ---- the control invariant ---- *)
Definition nc (ms : mshared) : nat := length (ms_ctrs ms).
Definition chg (g : option nat) (u : thread) : Prop := t_kind u = Changer /\ t_prev u = g.

Definition wstate (ph : wphase) (pre : list nat) (cur : option nat) (rest snap : list nat) (j : nat) (u : thread) : Prop :=
  match ph with
  | PInv => (In j pre -> t_pc u = RfLoad) /\ (cur = Some j -> inI u) /\ (In j rest -> t_pc u = IvLoad) /\ (~ In j snap -> fin u)
  | PRef => (In j pre -> fin u) /\ (cur = Some j -> pcR (t_pc u) = true) /\ (In j rest -> t_pc u = RfLoad) /\ (~ In j snap -> fin u)
  end.

Definition snap_ok (ms : mshared) (snap : list nat) : Prop :=
  NoDup snap /\ forall j, In j snap -> (j < nc ms)%nat /\ claimed ms j = true.

Definition quiet_redo (u : thread) : Prop := t_pc u = Done \/ t_pc u = CIdle.

Definition CIadd (ms : mshared) (t : mthread) : Prop :=
  let k := m_k t in let a := nth k (m_main t) dflt in let rd := m_redo t in
  (k < nc ms)%nat /\ (forall j, j <> k -> nth j (m_main t) dflt = dflt) /\ m_walks t = [] /\
  t_kind a = Adder /\ t_kind rd = Changer /\ t_prev rd = None /\ (m_wrote t = true -> claimed ms k = true) /\
  match m_pc t with
  | MIdle => t_pc a = AIdle /\ m_wrote t = false /\ t_pc rd = CIdle
  | MRTest | MRDbgNext => t_pc a = ALoad /\ m_wrote t = false /\ t_pc rd = CIdle
  | MRHead | MRNext => t_pc a = ALoad /\ ((m_wrote t = false /\ t_pc rd = CIdle) \/ (m_wrote t = true /\ t_pc rd = IvLoad))
  | MRLink | MRDbgFail | MRDbgOk => t_pc a = ALoad /\ m_wrote t = true /\ t_pc rd = IvLoad
  | MRun => m_c t = k /\ claimed ms k = true /\
      match m_role t with
      | RRedo => t_pc a = ALoad /\ (inI rd \/ pcR (t_pc rd) = true)
      | RMain => pcA (t_pc a) = true /\ quiet_redo rd
      | RNest => False
      end
  | MDone => t_pc a = Done /\ quiet_redo rd
  | _ => False
  end.

Definition CIchg (ms : mshared) (t : mthread) : Prop :=
  let M := fun j => nth j (m_main t) dflt in
  let g := m_prev t in
  m_redo t = dflt /\ m_wrote t = false /\ (m_tgt t = NewFile \/ m_tgt t = FullFile) /\
  match m_pc t with
  | MIdle => m_walks t = [] /\ forall j, (j < nc ms)%nat -> t_pc (M j) = CIdle /\ t_tgt (M j) = m_tgt t
  | MStore => m_walks t = [] /\ forall j, (j < nc ms)%nat -> t_pc (M j) = CStore /\ t_tgt (M j) = m_tgt t
  | MReload => m_walks t = [] /\ forall j, (j < nc ms)%nat -> chg g (M j) /\ t_pc (M j) = IvLoad
  | MHead => m_walks t = [mkW [] [] PInv None] /\ forall j, (j < nc ms)%nat -> chg g (M j) /\ t_pc (M j) = IvLoad
  | MRun => exists ph pre rest, m_walks t = [mkW rest (pre ++ m_c t :: rest) ph None] /\ m_role t = RMain /\
      snap_ok ms (pre ++ m_c t :: rest) /\
      forall j, (j < nc ms)%nat -> chg g (M j) /\ wstate ph pre (Some (m_c t)) rest (pre ++ m_c t :: rest) j (M j)
  | MNext => exists ph pre rest, m_walks t = [mkW rest (pre ++ rest) ph None] /\
      snap_ok ms (pre ++ rest) /\
      forall j, (j < nc ms)%nat -> chg g (M j) /\ wstate ph pre None rest (pre ++ rest) j (M j)
  | MClose => exists w gg, m_walks t = [w] /\ w_own w = None /\ g = Some gg /\
      forall j, (j < nc ms)%nat -> t_pc (M j) = CClose /\ t_prev (M j) = Some gg
  | MDone => m_walks t = [] /\ forall j, (j < nc ms)%nat -> t_pc (M j) = Done
  | _ => False
  end.

Definition CIb (ms : mshared) (t : mthread) : Prop :=
  length (m_main t) = nc ms /\ if m_isadd t then CIadd ms t else CIchg ms t.
Definition CI (ms : mshared) (t : mthread) : Prop :=
  CIb ms t /\ m_nest t = repeat nest0 (nc ms) /\ m_grown t = false.

(* the shared part *)
Definition MW (ms : mshared) : Prop :=
  length (ms_claimed ms) = nc ms /\
  (forall j, In j (ms_list ms) -> (j < nc ms)%nat /\ claimed ms j = true) /\
  NoDup (ms_list ms) /\
  Forall (fun c => length (c_cells c) = ms_nf ms) (ms_ctrs ms) /\
  (ms_full ms = true -> ms_tight ms = true).

(* what a step may do to the shared part, as far as other threads' invariants care *)
Definition grows_to (ms ms' : mshared) : Prop :=
  nc ms' = nc ms /\ (forall j, claimed ms j = true -> claimed ms' j = true).

Lemma snap_ok_mono ms ms' l : grows_to ms ms' -> snap_ok ms l -> snap_ok ms' l.
Proof. intros [N C] [A B]. split; [exact A|]. intros j Hj. destruct (B j Hj). rewrite N. auto. Qed.

Lemma CIb_mono ms ms' t : grows_to ms ms' -> CIb ms t -> CIb ms' t.
Proof.
  intros G (L & X). pose proof G as [N C]. unfold CIb. rewrite N. split; [assumption|].
  destruct (m_isadd t).
  - destruct X as (A1 & A2 & A3 & A4 & A5 & A6 & A7 & A8). unfold CIadd. rewrite N. repeat (split; [auto|]).
    destruct (m_pc t); auto. destruct A8 as (B1 & B2 & B3). auto.
  - destruct X as (A1 & A2 & A3 & A4). unfold CIchg. rewrite N. repeat (split; [auto|]).
    destruct (m_pc t); auto.
    + destruct A4 as (ph & pre & rest & B1 & B2 & B3 & B4). exists ph, pre, rest.
      split; [exact B1|]. split; [exact B2|]. split; [eapply snap_ok_mono; eauto | exact B4].
    + destruct A4 as (ph & pre & rest & B1 & B3 & B4). exists ph, pre, rest.
      split; [exact B1|]. split; [eapply snap_ok_mono; eauto | exact B4].
Qed.
Lemma CI_mono ms ms' t : grows_to ms ms' -> CI ms t -> CI ms' t.
Proof.
  intros G (B & Ne & Gr). pose proof G as [N _]. unfold CI. rewrite N. split; [eapply CIb_mono; eauto|]. auto.
Qed.

Definition MS (ms : mshared) : Prop :=
  length (ms_claimed ms) = nc ms /\
  Forall (fun c => length (c_cells c) = ms_nf ms) (ms_ctrs ms) /\
  (ms_full ms = true -> ms_tight ms = true).

Lemma MW_MS ms : MW ms -> MS ms.
Proof. intros (A & B & C & D & E). repeat split; assumption. Qed.

Lemma grows_refl ms : grows_to ms ms. Proof. split; auto. Qed.

Lemma inj_shared c ms s : (c < nc ms)%nat -> MS ms ->
  file_part s = file_part (proj c ms) -> length (s_cells s) = length (s_cells (proj c ms)) ->
  grows_to ms (inj c ms s) /\ MS (inj c ms s).
Proof.
  intros Hc (M1 & M4 & M5) FP LC. unfold file_part in FP. cbn in FP. injection FP as F1 F2 F3 F4 F5.
  split; [split; [unfold nc, inj; cbn; apply upd_len | auto]|].
  unfold MS, nc, inj. cbn [ms_claimed ms_ctrs ms_nf ms_full ms_tight]. rewrite upd_len. split; [exact M1|]. split; [|rewrite F4, F5; exact M5].
  apply Forall_upd; [exact M4|]. cbn [c_cells]. rewrite LC. cbn [proj s_cells].
  rewrite Forall_forall in M4. apply M4. apply nth_In. exact Hc.
Qed.

Lemma set_chk_false ms : set_chk ms false = ms.
Proof. destruct ms; unfold set_chk; cbn. rewrite orb_false_r. reflexivity. Qed.

Lemma forallb_of_nth {A} (f : A -> bool) d l : (forall j, (j < length l)%nat -> f (nth j l d) = true) -> forallb f l = true.
Proof.
  intros H. apply forallb_forall. intros x Hx. destruct (In_nth l x d Hx) as (j & Hj & <-). apply H. exact Hj.
Qed.

Lemma quiet_nest0 n : forallb quietb (repeat nest0 n) = true.
Proof. induction n; cbn; auto. Qed.

Lemma CIb_done_ok ms t : CIb ms t -> forallb quietb (m_nest t) = true -> done_ok t = true.
Proof.
  intros (L & X) Ne. unfold done_ok. destruct (m_pc t) eqn:Hpc; try reflexivity.
  rewrite Ne, andb_true_r. destruct (m_isadd t).
  - destruct X as (A1 & A2 & A3 & A4 & A5 & A6 & A7 & A8). rewrite Hpc in A8. destruct A8 as [B1 B2].
    apply andb_true_iff. split.
    + apply (forallb_of_nth quietb dflt). intros j Hj. destruct (Nat.eq_dec j (m_k t)) as [->|Ne'].
      * unfold quietb. rewrite B1. reflexivity.
      * rewrite (A2 j Ne'). reflexivity.
    + unfold quietb. destruct B2 as [-> | ->]; reflexivity.
  - destruct X as (A1 & A2 & A3 & A4). rewrite Hpc in A4. destruct A4 as [B1 B2]. rewrite A1.
    apply andb_true_iff. split; [|reflexivity].
    apply (forallb_of_nth quietb dflt). intros j Hj. rewrite L in Hj. unfold quietb. rewrite (B2 j Hj). reflexivity.
Qed.

Lemma CIb_lens_focus ms t : CIb ms t -> length (m_nest t) = nc ms -> lens_ok ms t = true /\ focus_ok ms t = true.
Proof.
  intros (L & X) Ne. split.
  - unfold lens_ok. rewrite L, Ne. fold (nc ms). rewrite Nat.eqb_refl. reflexivity.
  - unfold focus_ok, rc_ok. destruct (m_pc t) eqn:Hpc; try reflexivity.
    + destruct (m_isadd t) eqn:Ea.
      * destruct X as (A1 & A2 & A3 & A4 & A5 & A6 & A7 & A8). rewrite Hpc in A8. destruct A8 as (B1 & B2 & B3).
        rewrite B1. fold (nc ms). apply Nat.ltb_lt in A1. rewrite A1, B2, Nat.eqb_refl. destruct (m_role t); reflexivity.
      * destruct X as (A1 & A2 & A3 & A4). rewrite Hpc in A4. destruct A4 as (ph & pre & rest & B1 & B2 & [B3 B4] & B5).
        destruct (B4 (m_c t)) as [C1 C2]; [apply in_or_app; right; left; reflexivity|].
        fold (nc ms). apply Nat.ltb_lt in C1. rewrite C1, C2, B2. reflexivity.
    + destruct (m_isadd t) eqn:Ea.
      * destruct X as (A1 & A2 & A3 & A4 & A5 & A6 & A7 & A8). rewrite Hpc in A8. contradiction.
      * destruct X as (A1 & A2 & A3 & A4). rewrite Hpc in A4. destruct A4 as (w & gg & B1 & B2 & _). rewrite B1, B2. reflexivity.
Qed.

Definition step_ok (ms : mshared) (t : mthread) (ms' : mshared) (t' : mthread) : Prop :=
  ms_chk ms' = ms_chk ms /\ ms_bad ms' = ms_bad ms /\ m_nest t' = m_nest t /\ m_grown t' = m_grown t /\ m_tgt t' = m_tgt t /\
  CIb ms' t' /\ grows_to ms ms' /\ MS ms' /\
  m_isadd t' = m_isadd t /\ m_k t' = m_k t.

Ltac msimp :=
  cbn [m_pc m_isadd m_k m_tgt m_main m_nest m_redo m_wrote m_head m_role m_c m_walks m_grown m_prev
       with_mpc with_focus with_walks with_main with_nest with_redo with_reg with_grown with_prev sett gett] in *.

Lemma pcR_not p : pcR p = true ->
  pc_is p GIvLoad = false /\ pc_is p CStore = false /\ pc_is p CClose = false /\ pc_is p GClose = false /\ pc_is p Done = false /\ pc_is p RfLoad = (match p with RfLoad => true | _ => false end).
Proof. destruct p; cbn; intros H; try discriminate; repeat split. Qed.
Lemma pcA_not p : pcA p = true ->
  pc_is p GIvLoad = false /\ pc_is p CStore = false /\ pc_is p CClose = false /\ pc_is p GClose = false /\ pc_is p Done = false.
Proof. destruct p; cbn; intros H; try discriminate; repeat split. Qed.
Lemma inI_not u : inI u ->
  pc_is (t_pc u) GIvLoad = false /\ pc_is (t_pc u) CStore = false /\ pc_is (t_pc u) CClose = false /\ pc_is (t_pc u) GClose = false /\
  pc_is (t_pc u) Done = false /\ pc_is (t_pc u) LLook2 = false /\ pc_is (t_pc u) RfLoad = false.
Proof. intros [H|H]; rewrite H; repeat split. Qed.
Lemma fin_pc u : fin u -> (t_pc u = CClose /\ t_prev u <> None) \/ (t_pc u = Done /\ t_prev u = None).
Proof. unfold fin. destruct (t_prev u); intros H; [left|right]; split; auto; discriminate. Qed.

Section AdderStep.
Variables (ms : mshared) (t : mthread).
Hypothesis W : MW ms.
Hypothesis Ea : m_isadd t = true.
Hypothesis L : length (m_main t) = nc ms.
Hypothesis A1 : (m_k t < nc ms)%nat.
Hypothesis A2 : forall j, j <> m_k t -> nth j (m_main t) dflt = dflt.
Hypothesis A3 : m_walks t = [].
Hypothesis A4 : t_kind (nth (m_k t) (m_main t) dflt) = Adder.
Hypothesis A5 : t_kind (m_redo t) = Changer.
Hypothesis A6 : t_prev (m_redo t) = None.
Hypothesis A7 : m_wrote t = true -> claimed ms (m_k t) = true.

(* rebuilding the invariant for a thread that differs in control, own adder and redo only *)
Lemma mk_CIadd ms' t' : grows_to ms ms' ->
  m_isadd t' = true -> m_k t' = m_k t -> m_walks t' = [] ->
  (m_main t' = m_main t \/ exists a', m_main t' = upd (m_main t) (m_k t) a' /\ t_kind a' = Adder) ->
  t_kind (m_redo t') = Changer -> t_prev (m_redo t') = None ->
  (m_wrote t' = true -> claimed ms' (m_k t) = true) ->
  (let k := m_k t in let a := nth k (m_main t') dflt in let rd := m_redo t' in
   match m_pc t' with
  | MIdle => t_pc a = AIdle /\ m_wrote t' = false /\ t_pc rd = CIdle
  | MRTest | MRDbgNext => t_pc a = ALoad /\ m_wrote t' = false /\ t_pc rd = CIdle
  | MRHead | MRNext => t_pc a = ALoad /\ ((m_wrote t' = false /\ t_pc rd = CIdle) \/ (m_wrote t' = true /\ t_pc rd = IvLoad))
  | MRLink | MRDbgFail | MRDbgOk => t_pc a = ALoad /\ m_wrote t' = true /\ t_pc rd = IvLoad
  | MRun => m_c t' = k /\ claimed ms' k = true /\
      match m_role t' with
      | RRedo => t_pc a = ALoad /\ (inI rd \/ pcR (t_pc rd) = true)
      | RMain => pcA (t_pc a) = true /\ quiet_redo rd
      | RNest => False
      end
  | MDone => t_pc a = Done /\ quiet_redo rd
  | _ => False
  end) -> CIb ms' t'.
Proof.
  intros [N C] E1 E2 E5 E6 E7 E8 E9 E10. unfold CIb. rewrite E1, N.
  assert (LM : length (m_main t') = nc ms) by (destruct E6 as [-> | (a' & -> & _)]; rewrite ?upd_len; exact L).
  split; [exact LM|].
  unfold CIadd. rewrite E2, E5, N. split; [exact A1|]. split.
  { intros j Hj. destruct E6 as [-> | (a' & -> & _)]; [auto|]. rewrite nth_upd_other by exact Hj. auto. }
  split; [reflexivity|]. split.
  { destruct E6 as [-> | (a' & -> & Ka)]; [exact A4|]. rewrite nth_upd_same by (rewrite L; exact A1). exact Ka. }
  split; [exact E7|]. split; [exact E8|]. split; [exact E9|]. exact E10.
Qed.
End AdderStep.

Lemma claimed_set ms k : (k < length (ms_claimed ms))%nat -> claimed (set_claimed ms k) k = true.
Proof. intros H. unfold claimed, set_claimed. cbn. apply nth_upd_same. exact H. Qed.
Lemma claimed_set_mono ms k j : claimed ms j = true -> claimed (set_claimed ms k) j = true.
Proof. unfold claimed, set_claimed. cbn. apply nth_upd_true. Qed.

Definition NGH (ms : mshared) (t : mthread) : Prop :=
  forall s' u', step_thread np0 (proj (m_c t) ms) (gett t (m_role t) (m_c t)) = (s', u') -> nogrowb (gett t (m_role t) (m_c t)) u' = true.

Lemma core_CI_add ms t ms' t' : MW ms -> CIb ms t -> m_isadd t = true -> (m_pc t = MRun -> NGH ms t) ->
  mstep_core ms t = (ms', t') -> step_ok ms t ms' t'.
Proof.
  intros W (L & X) Ea NG H. rewrite Ea in X. destruct X as (A1 & A2 & A3 & A4 & A5 & A6 & A7 & A8).
  pose proof (MW_MS _ W) as S. pose proof S as (M1 & M4 & M5).
  pose proof (mk_CIadd ms t L A1 A2 A4) as MK.
  unfold mstep_core in H. destruct (m_pc t) eqn:Hpc; try contradiction.
  - (* MIdle *)
    destruct A8 as (B1 & B2 & B3). rewrite Ea in H. injection H as <- <-. msimp. rewrite B1. cbn [pc_is negb]. rewrite set_chk_false.
    destruct (thr_idle_adder ms (m_k t) _ B1) as [T1 T2].
    unfold step_ok. repeat (split; [reflexivity|]). split; [|split; [apply grows_refl|split; [exact S|split; reflexivity]]].
    apply MK; msimp; auto; [apply grows_refl | right; eexists; split; [reflexivity | congruence] |].
    rewrite nth_upd_same by (rewrite L; exact A1). auto.
  - (* MRTest *)
    destruct A8 as (B1 & B2 & B3). destruct (claimed ms (m_k t)) eqn:Ec; injection H as <- <-;
      (unfold step_ok; repeat (split; [reflexivity|]); split; [|split; [apply grows_refl|split; [exact S|split; reflexivity]]]);
      apply MK; msimp; auto; try apply grows_refl.
    all: try (intros X; rewrite B2 in X; discriminate X).
    all: try (split; [exact B1|]; left; split; assumption).
    all: try (split; [reflexivity|]; split; [exact Ec|]; split; [rewrite B1; reflexivity | right; exact B3]).
  - (* MRHead *)
    destruct A8 as (B1 & B2). injection H as <- <-.
    unfold step_ok; repeat (split; [reflexivity|]); split; [|split; [apply grows_refl|split; [exact S|split; reflexivity]]].
    apply MK; msimp; auto; apply grows_refl.
  - (* MRNext *)
    destruct A8 as (B1 & [[B2 B3]|[B2 B3]]).
    + rewrite B2 in H. destruct (claimed ms (m_k t)) eqn:Ec; injection H as <- <-.
      * unfold step_ok; repeat (split; [reflexivity|]); split; [|split; [apply grows_refl|split; [exact S|split; reflexivity]]].
        apply MK; msimp; auto; apply grows_refl.
      * msimp. rewrite B3, Ea. cbn [pc_is andb negb]. rewrite set_chk_false.
        assert (G : grows_to ms (set_claimed ms (m_k t))).
        { split; [reflexivity|]. intros j. apply claimed_set_mono. }
        unfold step_ok. repeat (split; [reflexivity|]). split; [|split; [exact G|split; [|split; reflexivity]]].
        -- apply MK; msimp; auto.
           intros _. apply claimed_set. rewrite M1. exact A1.
        -- unfold MS, nc. cbn. rewrite upd_len. repeat split; assumption.
    + rewrite B2 in H. injection H as <- <-.
      unfold step_ok; repeat (split; [reflexivity|]); split; [|split; [apply grows_refl|split; [exact S|split; reflexivity]]].
      apply MK; msimp; auto; apply grows_refl.
  - (* MRLink *)
    destruct A8 as (B1 & B2 & B3).
    assert (G : forall l, grows_to ms (set_list ms l)) by (intros l; split; [reflexivity | auto]).
    destruct (onat_eqb _ _); injection H as <- <-;
      (unfold step_ok; repeat (split; [reflexivity|]); split; [|split; [first [apply G | apply grows_refl]|split; [exact S|split; reflexivity]]]);
      apply MK; msimp; auto; first [apply G | apply grows_refl].
  - (* MRDbgNext *)
    destruct A8 as (B1 & B2 & B3). injection H as <- <-.
    unfold step_ok; repeat (split; [reflexivity|]); split; [|split; [apply grows_refl|split; [exact S|split; reflexivity]]].
    apply MK; msimp; auto; apply grows_refl.
  - (* MRDbgFail *)
    destruct A8 as (B1 & B2 & B3). injection H as <- <-.
    unfold step_ok; repeat (split; [reflexivity|]); split; [|split; [apply grows_refl|split; [exact S|split; reflexivity]]].
    apply MK; msimp; auto; apply grows_refl.
  - (* MRDbgOk *)
    destruct A8 as (B1 & B2 & B3). injection H as <- <-.
    unfold step_ok; repeat (split; [reflexivity|]); split; [|split; [apply grows_refl|split; [exact S|split; reflexivity]]].
    apply MK; msimp; auto; try apply grows_refl.
    split; [reflexivity|]. split; [apply A7; exact B2|]. split; [exact B1|]. left. left. exact B3.
  - (* MRun *)
    destruct A8 as (B1 & B2 & B3). cbv zeta in H. rewrite B1 in H. rewrite A3 in H.
    pose proof (NG eq_refl) as NG'. unfold NGH in NG'. rewrite B1 in NG'.
    destruct (m_role t) eqn:Er; try contradiction; cbn [gett] in H, NG'.
    + (* Add proper *)
      destruct B3 as [C1 C2].
      destruct (step_thread np0 (proj (m_k t) ms) (nth (m_k t) (m_main t) dflt)) as [s' u'] eqn:Es.
      destruct (stepA2 _ _ _ _ _ Es C1 A4 (NG' _ _ eq_refl)) as (D1 & D2 & _ & D3 & D4).
      destruct (inj_shared (m_k t) ms s' A1 S D3 D4) as [G S'].
      destruct (pcA_not _ C1) as (N1 & N2 & N3 & N4 & N5).
      assert (Ng : pc_is (t_pc u') GIvLoad = false).
      { destruct D1 as [D1|D1]; [apply (pcA_not _ D1) | rewrite D1; reflexivity]. }
      rewrite Ng, andb_false_r in H. cbn [andb] in H. rewrite N2, N3, N4 in H. cbn [orb] in H. rewrite set_chk_false in H.
      destruct D1 as [D1|D1].
      * destruct (pcA_not _ D1) as (_ & _ & _ & _ & Q). rewrite Q in H. injection H as <- <-.
        unfold step_ok. repeat (split; [reflexivity|]). split; [|split; [exact G|split; [exact S'|split; reflexivity]]].
        apply MK; msimp; auto. { right. eexists. split; [reflexivity|exact D2]. }
        rewrite Hpc, Er. split; [exact B1|]. split; [apply G; exact B2|].
        rewrite nth_upd_same by (rewrite L; exact A1). split; assumption.
      * rewrite D1 in H. cbn [pc_is] in H. injection H as <- <-.
        unfold step_ok. repeat (split; [reflexivity|]). split; [|split; [exact G|split; [exact S'|split; reflexivity]]].
        apply MK; msimp; auto. { right. eexists. split; [reflexivity|exact D2]. }
        rewrite nth_upd_same by (rewrite L; exact A1). split; assumption.
    + (* the registrar's redo *)
      destruct B3 as [C1 C2].
      destruct (step_thread np0 (proj (m_k t) ms) (m_redo t)) as [s' u'] eqn:Es.
      assert (D : (inI u' \/ pcR (t_pc u') = true \/ t_pc u' = Done) /\ t_kind u' = Changer /\ t_prev u' = None /\
                  file_part s' = file_part (proj (m_k t) ms) /\ length (s_cells s') = length (s_cells (proj (m_k t) ms)) /\
                  pc_is (t_pc (m_redo t)) LLook2 && pc_is (t_pc u') GIvLoad = false /\
                  pc_is (t_pc (m_redo t)) CStore || pc_is (t_pc (m_redo t)) CClose || pc_is (t_pc (m_redo t)) GClose = false).
      { destruct C2 as [C2|C2].
        - destruct (stepI _ _ _ _ _ Es C2) as (D1 & D2 & D3 & D4 & D5).
          destruct (inI_not _ C2) as (N1 & N2 & N3 & N4 & N5 & N6 & N7).
          rewrite N6, N2, N3, N4. repeat split; try congruence.
          destruct D1 as [D1|D1]; [left; exact D1 | right; left; rewrite D1; reflexivity].
        - destruct (stepR2 _ _ _ _ _ Es C2 A5 (NG' _ _ eq_refl)) as (D1 & D2 & D3 & D4 & D5).
          destruct (pcR_not _ C2) as (N1 & N2 & N3 & N4 & N5 & N6).
          rewrite N2, N3, N4. repeat split; try congruence.
          + destruct D1 as [D1|D1]; [right; left; exact D1|]. right; right.
            destruct (fin_pc _ D1) as [[_ X]|[X _]]; [congruence | exact X].
          + destruct D1 as [D1|D1]; [rewrite (proj1 (pcR_not _ D1)); apply andb_false_r|].
            destruct (fin_pc _ D1) as [[X _]|[X _]]; rewrite X; apply andb_false_r. }
      destruct D as (D1 & D2 & D3 & D4 & D5 & D6 & D7).
      destruct (inj_shared (m_k t) ms s' A1 S D4 D5) as [G S'].
      rewrite D6 in H. cbn [andb] in H. rewrite D7, set_chk_false in H.
      destruct (pc_is (t_pc u') Done) eqn:Ed.
      * apply pc_is_eq in Ed. injection H as <- <-.
        unfold step_ok. repeat (split; [reflexivity|]). split; [|split; [exact G|split; [exact S'|split; reflexivity]]].
        apply MK; msimp; auto.
        split; [reflexivity|]. split; [apply G; exact B2|]. rewrite C1. split; [reflexivity | left; exact Ed].
      * injection H as <- <-.
        unfold step_ok. repeat (split; [reflexivity|]). split; [|split; [exact G|split; [exact S'|split; reflexivity]]].
        apply MK; msimp; auto.
        rewrite Hpc, Er. split; [exact B1|]. split; [apply G; exact B2|]. split; [exact C1|].
        destruct D1 as [D1|[D1|D1]]; auto. rewrite D1 in Ed. discriminate.
  - (* MDone *)
    injection H as <- <-.
    unfold step_ok; repeat (split; [reflexivity|]); split; [|split; [apply grows_refl|split; [exact S|split; reflexivity]]].
    apply MK; msimp; auto; try apply grows_refl. rewrite Hpc. exact A8.
Qed.

(* ---- a rotation ---- *)
Lemma alli_from_of_nth {A} (f : nat -> A -> bool) d l : forall i,
  (forall j, (j < length l)%nat -> f (i + j)%nat (nth j l d) = true) -> alli_from f i l = true.
Proof.
  induction l as [|x l IH]; intros i H; cbn; [reflexivity|]. apply andb_true_iff. split.
  - specialize (H 0%nat ltac:(cbn; lia)). rewrite Nat.add_0_r in H. exact H.
  - apply IH. intros j Hj. specialize (H (S j) ltac:(cbn; lia)). replace (i + S j)%nat with (S i + j)%nat in H by lia. exact H.
Qed.
Lemma alli_of_nth {A} (f : nat -> A -> bool) d l : (forall j, (j < length l)%nat -> f j (nth j l d) = true) -> alli f l = true.
Proof. intros H. apply (alli_from_of_nth f d l 0). exact H. Qed.
Lemma set_bad_false ms : set_bad ms false = ms.
Proof. destruct ms; unfold set_bad; cbn. rewrite orb_false_r. reflexivity. Qed.
Lemma memn_In x l : memn x l = true <-> In x l.
Proof.
  induction l as [|y l IH]; cbn; [split; [discriminate|contradiction]|].
  rewrite orb_true_iff, IH, Nat.eqb_eq. split; intros [H|H]; auto.
Qed.
Lemma mapi_len {A B} (f : nat -> A -> B) l : length (mapi f l) = length l.
Proof. apply mapi_from_len. Qed.

Lemma mk_CIchg ms ms' t t' : grows_to ms ms' -> CIb ms t -> m_isadd t = false ->
  m_isadd t' = false -> length (m_main t') = length (m_main t) ->
  m_redo t' = m_redo t -> m_wrote t' = m_wrote t -> m_tgt t' = m_tgt t ->
  (let M := fun j => nth j (m_main t') dflt in
   let g := m_prev t' in
   match m_pc t' with
  | MIdle => m_walks t' = [] /\ forall j, (j < nc ms)%nat -> t_pc (M j) = CIdle /\ t_tgt (M j) = m_tgt t
  | MStore => m_walks t' = [] /\ forall j, (j < nc ms)%nat -> t_pc (M j) = CStore /\ t_tgt (M j) = m_tgt t
  | MReload => m_walks t' = [] /\ forall j, (j < nc ms)%nat -> chg g (M j) /\ t_pc (M j) = IvLoad
  | MHead => m_walks t' = [mkW [] [] PInv None] /\ forall j, (j < nc ms)%nat -> chg g (M j) /\ t_pc (M j) = IvLoad
  | MRun => exists ph pre rest, m_walks t' = [mkW rest (pre ++ m_c t' :: rest) ph None] /\ m_role t' = RMain /\
      snap_ok ms' (pre ++ m_c t' :: rest) /\
      forall j, (j < nc ms)%nat -> chg g (M j) /\ wstate ph pre (Some (m_c t')) rest (pre ++ m_c t' :: rest) j (M j)
  | MNext => exists ph pre rest, m_walks t' = [mkW rest (pre ++ rest) ph None] /\
      snap_ok ms' (pre ++ rest) /\
      forall j, (j < nc ms)%nat -> chg g (M j) /\ wstate ph pre None rest (pre ++ rest) j (M j)
  | MClose => exists w gg, m_walks t' = [w] /\ w_own w = None /\ g = Some gg /\
      forall j, (j < nc ms)%nat -> t_pc (M j) = CClose /\ t_prev (M j) = Some gg
  | MDone => m_walks t' = [] /\ forall j, (j < nc ms)%nat -> t_pc (M j) = Done
  | _ => False
  end) -> CIb ms' t'.
Proof.
  intros [N C] (L & X) Ea E1 E4 E5 E6 E7 E8. rewrite Ea in X. destruct X as (A1 & A2 & A3 & _).
  unfold CIb. rewrite E1, E4, N. split; [assumption|].
  unfold CIchg. rewrite E5, E6, E7, N. repeat (split; [first [assumption|reflexivity]|]). exact E8.
Qed.

Lemma nodup_mid (pre : list nat) c rest : NoDup (pre ++ c :: rest) -> ~ In c pre /\ ~ In c rest.
Proof. intros H. apply NoDup_remove_2 in H. split; intros X; apply H; apply in_or_app; auto. Qed.

Lemma advance_fields tt : m_nest (advance tt) = m_nest tt /\ m_grown (advance tt) = m_grown tt /\ m_tgt (advance tt) = m_tgt tt /\
  m_isadd (advance tt) = m_isadd tt /\ m_k (advance tt) = m_k tt.
Proof.
  unfold advance, after_walk. destruct (m_walks tt) as [|w ws]; [cbn; auto|].
  destruct (w_rest w); [|cbn; auto]. destruct (w_ph w); [destruct (w_snap w)|]; cbn; auto;
    destruct (w_own w); cbn; auto; destruct (m_prev tt); cbn; auto.
Qed.

Lemma core_CI_chg ms t ms' t' : MW ms -> CIb ms t -> m_isadd t = false -> (m_pc t = MRun -> NGH ms t) ->
  mstep_core ms t = (ms', t') -> step_ok ms t ms' t'.
Proof.
  intros W I0 Ea NG H. pose proof I0 as (L & X). rewrite Ea in X. destruct X as (A1 & A2 & A3 & A8).
  pose proof (MW_MS _ W) as S. pose proof S as (M1 & M4 & M5).
  pose proof (fun ms' t' G => mk_CIchg ms ms' t t' G I0 Ea) as MK.
  assert (ND : forall j, thr_step ms j dflt = dflt) by reflexivity.
  unfold mstep_core in H. destruct (m_pc t) eqn:Hpc; try contradiction.
  - (* MIdle *)
    destruct A8 as [B1 B2]. rewrite Ea in H. cbv iota in H. injection H as <- <-.
    assert (F : forallb (fun u => pc_is (t_pc u) CIdle) (m_main t) = true).
    { apply (forallb_of_nth _ dflt). intros j Hj. rewrite L in Hj. rewrite (proj1 (B2 j Hj)). reflexivity. }
    rewrite F. cbn [negb]. rewrite set_chk_false.
    unfold step_ok. repeat (split; [reflexivity|]). split; [|split; [apply grows_refl|split; [exact S|split; reflexivity]]].
    apply MK; msimp; auto; [apply grows_refl | apply mapi_len |].
    split; [exact B1|]. intros j Hj. rewrite nth_mapi by exact ND. destruct (B2 j Hj) as [P1 P2].
    destruct (thr_idle_changer ms j _ P1 ltac:(rewrite P2; exact A3)) as [Q1 Q2]. split; [exact Q1 | rewrite Q2; exact P2].
  - (* MRun: the walk visits counter m_c *)
    destruct A8 as (ph & pre & rest & B1 & B2 & B3 & B4). cbv zeta in H. rewrite B2 in H. cbn [gett] in H. rewrite B1 in H.
    set (c := m_c t) in *.
    destruct B3 as [SN SC]. destruct (SC c ltac:(apply in_or_app; right; left; reflexivity)) as [Hc Hcl].
    destruct (nodup_mid _ _ _ SN) as [NP NR].
    pose proof (NG eq_refl) as NG'. unfold NGH in NG'. rewrite B2 in NG'. cbn [gett] in NG'. fold c in NG'.
    destruct (B4 c Hc) as [[K1 K2] WS].
    destruct (step_thread np0 (proj c ms) (nth c (m_main t) dflt)) as [s' u'] eqn:Es.
    assert (D : (match ph with PInv => inI u' \/ t_pc u' = RfLoad | PRef => pcR (t_pc u') = true \/ fin u' end) /\
                chg (m_prev t) u' /\
                file_part s' = file_part (proj c ms) /\ length (s_cells s') = length (s_cells (proj c ms)) /\
                pc_is (t_pc (nth c (m_main t) dflt)) LLook2 && pc_is (t_pc u') GIvLoad = false /\
                pc_is (t_pc (nth c (m_main t) dflt)) CStore || pc_is (t_pc (nth c (m_main t) dflt)) CClose || pc_is (t_pc (nth c (m_main t) dflt)) GClose = false).
    { destruct ph; cbn [wstate] in WS; destruct WS as (_ & WC & _); specialize (WC eq_refl).
      - destruct (stepI _ _ _ _ _ Es WC) as (D1 & D2 & D3 & D4 & D5).
        destruct (inI_not _ WC) as (N1 & N2 & N3 & N4 & N5 & N6 & N7).
        rewrite N6, N2, N3, N4. unfold chg. repeat split; try congruence; try exact D1.
      - destruct (stepR2 _ _ _ _ _ Es WC K1 (NG' _ _ eq_refl)) as (D1 & D2 & D3 & D4 & D5).
        destruct (pcR_not _ WC) as (N1 & N2 & N3 & N4 & N5 & N6).
        rewrite N2, N3, N4. unfold chg. repeat split; try congruence; try exact D1.
        destruct D1 as [D1|D1]; [rewrite (proj1 (pcR_not _ D1)); apply andb_false_r|].
        destruct (fin_pc _ D1) as [[X _]|[X _]]; rewrite X; apply andb_false_r. }
    destruct D as (D1 & D2 & D4 & D5 & D6 & D7).
    destruct (inj_shared c ms s' Hc S D4 D5) as [G S'].
    rewrite D6 in H. cbn [andb] in H. rewrite D7, set_chk_false in H.
    assert (IO : is_own (mkW rest (pre ++ c :: rest) ph None) c = false) by reflexivity.
    unfold visit_ended in H. rewrite IO in H. cbn [w_ph] in H.
    (* the other counters' threads are untouched *)
    assert (OT : forall j, j <> c -> nth j (upd (m_main t) c u') dflt = nth j (m_main t) dflt) by (intros j Hj; apply nth_upd_other; exact Hj).
    assert (SM : nth c (upd (m_main t) c u') dflt = u') by (apply nth_upd_same; rewrite L; exact Hc).
    assert (ended : bool) by exact true.
    destruct (match ph with PInv => pc_is (t_pc u') RfLoad | PRef => pc_is (t_pc u') CClose || pc_is (t_pc u') Done end) eqn:Ev;
      injection H as <- <-; (unfold step_ok; repeat (split; [reflexivity|]); split; [|split; [exact G|split; [exact S'|split; reflexivity]]]);
      apply MK; msimp; auto; try (rewrite upd_len; reflexivity).
    + (* the visit has ended: MNext *)
      rewrite B1. exists ph, (pre ++ [c]), rest. rewrite <- app_assoc. cbn [app]. split; [reflexivity|].
      split; [eapply snap_ok_mono; [exact G | split; assumption]|].
      intros j Hj. destruct (Nat.eq_dec j c) as [->|Nj].
      * rewrite SM. split; [exact D2|]. destruct ph; cbn [wstate].
        -- repeat split; try (intros X; exfalso; auto; fail); try discriminate.
           ++ intros _. destruct D1 as [[X|X]|X]; [rewrite X in Ev; discriminate | rewrite X in Ev; discriminate | exact X].
           ++ intros X. exfalso. apply X. apply in_or_app; right; left; reflexivity.
        -- repeat split; try (intros X; exfalso; auto; fail); try discriminate.
           ++ intros _. destruct D1 as [X|X]; [|exact X]. destruct (pcR_not _ X) as (_ & _ & Q1 & _ & Q2 & _). rewrite Q1, Q2 in Ev. discriminate.
           ++ intros X. exfalso. apply X. apply in_or_app; right; left; reflexivity.
      * rewrite (OT j Nj). destruct (B4 j Hj) as [Kj Wj]. split; [exact Kj|].
        destruct ph; cbn [wstate] in *; destruct Wj as (W1 & W2 & W3 & W4); repeat split; auto; try discriminate;
          intros X; apply in_app_or in X as [X|[X|[]]]; auto; congruence.
    + (* still visiting *)
      rewrite Hpc, B1. exists ph, pre, rest. split; [reflexivity|]. split; [exact B2|].
      split; [eapply snap_ok_mono; [exact G | split; assumption]|].
      intros j Hj. destruct (Nat.eq_dec j c) as [->|Nj].
      * rewrite SM. split; [exact D2|]. destruct ph; cbn [wstate].
        -- repeat split; try (intros X; exfalso; auto; fail).
           ++ intros _. destruct D1 as [X|X]; [exact X | rewrite X in Ev; discriminate].
           ++ intros X. exfalso. apply X. apply in_or_app; right; left; reflexivity.
        -- repeat split; try (intros X; exfalso; auto; fail).
           ++ intros _. destruct D1 as [X|X]; [exact X|]. destruct (fin_pc _ X) as [[Y _]|[Y _]]; rewrite Y in Ev; discriminate.
           ++ intros X. exfalso. apply X. apply in_or_app; right; left; reflexivity.
      * rewrite (OT j Nj). destruct (B4 j Hj) as [Kj Wj]. split; [exact Kj|].
        destruct ph; cbn [wstate] in *; destruct Wj as (W1 & W2 & W3 & W4); repeat split; auto; intros X; injection X as X; congruence.
  - (* MStore *)
    destruct A8 as [B1 B2]. cbv zeta in H. injection H as <- <-.
    assert (TE : forall g, tgt_eqb g g = true) by (intros g; destruct g; reflexivity).
    assert (F1 : forallb (fun u => pc_is (t_pc u) CStore && tgt_eqb (t_tgt u) (m_tgt t)) (m_main t) = true).
    { apply (forallb_of_nth _ dflt). intros j Hj. rewrite L in Hj. destruct (B2 j Hj) as [-> ->]. rewrite TE. reflexivity. }
    assert (F2 : forallb (fun c => Nat.eqb (length (c_cells c)) (ms_nf ms)) (ms_ctrs ms) = true).
    { apply forallb_forall. intros c Hc. rewrite Forall_forall in M4. apply Nat.eqb_eq. apply M4. exact Hc. }
    assert (F3 : match m_tgt t with NewFile | FullFile => true | _ => false end = true) by (destruct A3 as [-> | ->]; reflexivity).
    rewrite F1, F2, F3, L. unfold nc. rewrite Nat.eqb_refl. cbn [andb negb]. rewrite set_chk_false.
    set (full := match m_tgt t with FullFile => true | _ => false end).
    assert (G : grows_to ms (store_new ms full)).
    { split; [unfold nc, store_new; cbn; apply map_length | auto]. }
    unfold step_ok. repeat (split; [reflexivity|]). split; [|split; [exact G|split; [|split; reflexivity]]].
    + apply MK; msimp; auto; [apply mapi_len|].
      split; [exact B1|]. intros j Hj. rewrite nth_mapi by exact ND. destruct (B2 j Hj) as [P1 P2].
      destruct (thr_store ms j _ P1 ltac:(rewrite P2; exact A3)) as (Q1 & Q2 & Q3). unfold chg. auto.
    + unfold MS, nc, store_new. cbn. rewrite map_length. split; [exact M1|]. split; [|auto].
      apply Forall_forall. intros c Hc. apply in_map_iff in Hc as (c0 & <- & Hc0). cbn. rewrite app_length. cbn.
      rewrite Forall_forall in M4. rewrite (M4 c0 Hc0). lia.
  - (* MReload *)
    destruct A8 as [B1 B2]. injection H as <- <-.
    unfold step_ok. repeat (split; [reflexivity|]). split; [|split; [apply grows_refl|split; [exact S|split; reflexivity]]].
    apply MK; msimp; auto; [apply grows_refl|]. rewrite B1. split; [reflexivity|exact B2].
  - (* MHead: invalidateCounters loads the head of the list *)
    destruct A8 as [B1 B4]. destruct W as (_ & W2 & W3 & _).
    rewrite B1 in H. cbv zeta in H. cbn [w_own] in H.
    assert (OK : alli (fun j u => memn j (ms_list ms) || false && is_own (mkW [] [] PInv None) j || pc_is (t_pc u) IvLoad) (m_main t) = true).
    { apply (alli_of_nth _ dflt). intros j Hj. rewrite L in Hj. rewrite (proj2 (B4 j Hj)). apply orb_true_r. }
    rewrite OK in H. cbn [negb] in H. rewrite set_chk_false, set_bad_false in H. injection H as <- <-.
    set (sk := fun (j : nat) (u : thread) => if memn j (ms_list ms) || false && is_own (mkW [] [] PInv None) j then u else skip_thread u).
    assert (SKD : forall j, sk j dflt = dflt) by (intros j; unfold sk; destruct (memn j (ms_list ms) || _); reflexivity).
    assert (MJ : forall j, (j < nc ms)%nat ->
              chg (m_prev t) (nth j (mapi sk (m_main t)) dflt) /\
              (In j (ms_list ms) -> t_pc (nth j (mapi sk (m_main t)) dflt) = IvLoad) /\
              (~ In j (ms_list ms) -> fin (nth j (mapi sk (m_main t)) dflt))).
    { intros j Hj. rewrite nth_mapi by exact SKD. destruct (B4 j Hj) as [[K1 K2] P]. unfold sk. cbn [andb]. rewrite orb_false_r.
      destruct (memn j (ms_list ms)) eqn:Em.
      - split; [split; assumption|]. split; [intros _; exact P|]. intros X. exfalso. apply X. apply memn_In. exact Em.
      - unfold skip_thread. destruct (to_close_keeps (nth j (m_main t) dflt)) as [Q1 Q2].
        split; [split; congruence|]. split; [|intros _; apply fin_to_close].
        intros X. apply memn_In in X. congruence. }
    unfold step_ok. split; [reflexivity|]. split; [reflexivity|].
    match goal with |- context [advance ?x] => destruct (advance_fields x) as (AF1 & AF2 & AF3 & AF4 & AF5) end.
    split; [exact AF1|]. split; [exact AF2|]. split; [exact AF3|].
    split; [|split; [apply grows_refl|split; [exact S|split; [exact AF4|exact AF5]]]]. clear AF1 AF2 AF3 AF4 AF5.
    unfold advance. cbn [m_walks with_walks w_rest w_snap w_ph w_own visit_role].
    destruct (ms_list ms) as [|c rest'] eqn:El.
    + unfold after_walk. cbn [w_own m_prev with_walks with_main]. destruct (m_prev t) as [gg|] eqn:Ep.
      * apply MK; msimp; auto; [apply grows_refl | apply mapi_len |].
        eexists. exists gg. split; [reflexivity|]. split; [reflexivity|]. split; [exact Ep|].
        intros j Hj. destruct (MJ j Hj) as [[_ P] [_ F]]. specialize (F (fun x => x)). unfold fin in F.
        fold sk. rewrite P in F. split; [exact F | exact P].
      * apply MK; msimp; auto; [apply grows_refl | apply mapi_len |].
        split; [reflexivity|]. intros j Hj. destruct (MJ j Hj) as [[_ P] [_ F]]. specialize (F (fun x => x)). unfold fin in F.
        fold sk. rewrite P in F. exact F.
    + apply MK; msimp; auto; [apply grows_refl | apply mapi_len |].
      exists PInv, [], rest'. cbn [app]. split; [reflexivity|]. split; [reflexivity|].
      split; [split; [exact W3 | exact W2]|].
      intros j Hj. destruct (MJ j Hj) as [K [P F]]. fold sk. split; [exact K|]. cbn [wstate].
      split; [intros []|]. split; [intros X; injection X as <-; left; apply P; left; reflexivity|].
      split; [intros X; apply P; right; exact X | exact F].
  - (* MNext: c.next.Load(): on to the next counter, the second loop, or the close *)
    destruct A8 as (ph & pre & rest & B1 & B3 & B4). injection H as <- <-.
    assert (FIN : (forall j, (j < nc ms)%nat -> chg (m_prev t) (nth j (m_main t) dflt) /\ fin (nth j (m_main t) dflt)) ->
                  forall w, w_own w = None -> CIb ms (after_walk t w [])).
    { intros FA w Ho. unfold after_walk. rewrite Ho. destruct (m_prev t) as [gg|] eqn:Ep.
      - apply MK; msimp; auto; [apply grows_refl|]. exists w, gg. repeat split; auto.
        + destruct (FA j H) as [[_ P] F]. unfold fin in F. rewrite P in F. exact F.
        + destruct (FA j H) as [[_ P] F]. exact P.
      - apply MK; msimp; auto; [apply grows_refl|]. split; [reflexivity|]. intros j Hj.
        destruct (FA j Hj) as [[_ P] F]. unfold fin in F. rewrite P in F. exact F. }
    unfold step_ok. split; [reflexivity|]. split; [reflexivity|].
    destruct (advance_fields t) as (AF1 & AF2 & AF3 & AF4 & AF5).
    split; [exact AF1|]. split; [exact AF2|]. split; [exact AF3|].
    split; [|split; [apply grows_refl|split; [exact S|split; [exact AF4|exact AF5]]]]. clear AF1 AF2 AF3 AF4 AF5.
    unfold advance. rewrite B1. cbn [w_rest w_snap w_ph w_own visit_role].
    destruct rest as [|c rest'].
    + rewrite app_nil_r in *. destruct ph.
      * destruct pre as [|c rest'].
        -- apply FIN; [|reflexivity]. intros j Hj. destruct (B4 j Hj) as [K Wj]. split; [exact K|].
           cbn [wstate] in Wj. apply Wj. intros [].
        -- apply MK; msimp; auto; [apply grows_refl|].
           exists PRef, [], rest'. cbn [app]. split; [reflexivity|]. split; [reflexivity|]. split; [exact B3|].
           intros j Hj. destruct (B4 j Hj) as [K Wj]. split; [exact K|]. cbn [wstate] in *. destruct Wj as (W1 & W2 & W3 & W4).
           split; [intros []|]. split; [intros X; injection X as <-; rewrite W1 by (left; reflexivity); reflexivity|].
           split; [intros X; apply W1; right; exact X | exact W4].
      * apply FIN; [|reflexivity]. intros j Hj. destruct (B4 j Hj) as [K Wj]. split; [exact K|].
        cbn [wstate] in Wj. destruct Wj as (W1 & W2 & W3 & W4). destruct (in_dec Nat.eq_dec j pre); auto.
    + apply MK; msimp; auto; [apply grows_refl|].
      exists ph, pre, rest'. split; [reflexivity|]. split; [reflexivity|]. split; [exact B3|].
      intros j Hj. destruct (B4 j Hj) as [K Wj]. split; [exact K|].
      destruct ph; cbn [wstate] in *; destruct Wj as (W1 & W2 & W3 & W4); repeat split; auto.
      * intros X. injection X as <-. left. apply W3. left. reflexivity.
      * intros X. apply W3. right. exact X.
      * intros X. injection X as <-. rewrite W3 by (left; reflexivity). reflexivity.
      * intros X. apply W3. right. exact X.
  - (* MClose *)
    destruct A8 as (w & gg & B1 & B2 & B3 & B4). rewrite B1, B2, B3 in H. injection H as <- <-.
    assert (F : forallb (fun u => pc_is (t_pc u) CClose && onat_eqb (t_prev u) (Some gg)) (m_main t) = true).
    { apply (forallb_of_nth _ dflt). intros j Hj. rewrite L in Hj. destruct (B4 j Hj) as [-> ->]. cbn. rewrite Nat.eqb_refl. reflexivity. }
    rewrite F. cbn [negb]. rewrite set_chk_false.
    assert (G : grows_to ms (add_closed ms gg)) by (split; [reflexivity|auto]).
    unfold step_ok. repeat (split; [reflexivity|]). split; [|split; [exact G|split; [exact S|split; reflexivity]]].
    apply MK; msimp; auto; [apply mapi_len|].
    split; [reflexivity|]. intros j Hj. rewrite nth_mapi by exact ND. destruct (B4 j Hj) as [P1 P2]. exact (thr_close ms j _ gg P1 P2).
  - (* MDone *)
    injection H as <- <-.
    unfold step_ok. repeat (split; [reflexivity|]). split; [|split; [apply grows_refl|split; [exact S|split; reflexivity]]].
    apply MK; msimp; auto; [apply grows_refl|]. rewrite Hpc. exact A8.
Qed.

(* ---- the registration list stays duplicate-free: one linker per counter ---- *)
Lemma core_list ms t ms' t' : mstep_core ms t = (ms', t') ->
  ms_list ms' = ms_list ms \/ (m_pc t = MRLink /\ ms_list ms' = m_k t :: ms_list ms).
Proof.
  intros H. unfold mstep_core in H. destruct (m_pc t) eqn:Hpc.
  - destruct (m_isadd t); injection H as <- <-; left; reflexivity.
  - destruct (claimed ms (m_k t)); injection H as <- <-; left; reflexivity.
  - injection H as <- <-; left; reflexivity.
  - destruct (m_wrote t); [|destruct (claimed ms (m_k t))]; injection H as <- <-; left; reflexivity.
  - destruct (onat_eqb _ _); injection H as <- <-; [right; auto | left; reflexivity].
  - injection H as <- <-; left; reflexivity.
  - injection H as <- <-; left; reflexivity.
  - injection H as <- <-; left; reflexivity.
  - cbv zeta in H. destruct (step_thread np0 _ _) as [s' u'].
    destruct (_ && m_grown t); [injection H as <- <-; left; reflexivity|].
    destruct (pc_is _ LLook2 && _); [injection H as <- <-; left; reflexivity|].
    destruct (m_walks t); [destruct (pc_is (t_pc u') Done); [destruct (m_role t)|]|destruct (visit_ended _ _ _)];
      injection H as <- <-; left; reflexivity.
  - injection H as <- <-. left; reflexivity.
  - injection H as <- <-; left; reflexivity.
  - destruct (m_walks t); injection H as <- <-; left; reflexivity.
  - injection H as <- <-; left; reflexivity.
  - destruct (m_walks t) as [|w ws]; [injection H as <- <-; left; reflexivity|].
    destruct (w_own w) as [[r c]|].
    + destruct (step_thread np0 _ _) as [s' u']. injection H as <- <-. left; reflexivity.
    + destruct (m_prev t); injection H as <- <-; left; reflexivity.
  - injection H as <- <-; left; reflexivity.
Qed.

(* an adder thread: how m_wrote and the register phase evolve *)
Lemma core_wrote_add ms t ms' t' : mstep_core ms t = (ms', t') -> CIb ms t -> m_isadd t = true ->
  (m_wrote t' = m_wrote t \/ (m_wrote t = false /\ claimed ms (m_k t) = false /\ ms_list ms' = ms_list ms)) /\
  (reg_phase t' = true -> m_wrote t' = true -> (reg_phase t = true /\ m_wrote t = true /\ (m_pc t = MRLink -> ms_list ms' = ms_list ms)) \/ (claimed ms (m_k t) = false /\ ms_list ms' = ms_list ms)).
Proof.
  intros H (L & X) Ea. rewrite Ea in X. destruct X as (A1 & A2 & A3 & A4 & A5 & A6 & A7 & A8).
  unfold mstep_core in H. unfold reg_phase. destruct (m_pc t) eqn:Hpc; try contradiction.
  - rewrite Ea in H. injection H as <- <-. cbn. split; [auto|]. intros; discriminate.
  - destruct A8 as (B1 & B2 & B3). destruct (claimed ms (m_k t)); injection H as <- <-; cbn; (split; [auto|]); intros; try discriminate. congruence.
  - injection H as <- <-; cbn. split; [auto|]. intros _ Hw. left. repeat split; auto; discriminate.
  - destruct (m_wrote t) eqn:Ew; [|destruct (claimed ms (m_k t)) eqn:Ec]; injection H as <- <-; cbn.
    + split; [auto|]. intros _ _. left. repeat split; auto; discriminate.
    + split; [auto|]. intros; discriminate.
    + split; [right; auto|]. intros _ _. right. auto.
  - destruct A8 as (B1 & B2 & B3). destruct (onat_eqb _ _); injection H as <- <-; cbn; (split; [auto|]); intros; try discriminate.
    left. repeat split; auto.
  - injection H as <- <-; cbn. split; [auto|]. intros; discriminate.
  - destruct A8 as (B1 & B2 & B3). injection H as <- <-; cbn. split; [auto|]. intros _ _. left. repeat split; auto; discriminate.
  - injection H as <- <-; cbn. split; [auto|]. intros; discriminate.
  - cbv zeta in H. destruct (step_thread np0 _ _) as [s' u'].
    destruct (_ && m_grown t); [injection H as <- <-; cbn; split; [auto|]; intros; discriminate|].
    destruct (pc_is _ LLook2 && _); [injection H as <- <-; cbn; split; [destruct (m_role t); auto|]; intros; discriminate|].
    rewrite A3 in H. destruct (m_role t); destruct (pc_is (t_pc u') Done);
      injection H as <- <-; cbn; (split; [auto|]); rewrite ?Hpc; cbn; intros; congruence.
  - injection H as <- <-; cbn. split; [auto|]. rewrite Hpc. cbn. intros; congruence.
Qed.

(* ---- the invariant of the whole system ---- *)
Definition GI2 (st : mstate) : Prop :=
  let '(ms, ts) := st in
  ms_chk ms = false /\ ms_bad ms = false /\ MW ms /\ Forall (CI ms) ts /\
  (forall j t, nth_error ts j = Some t -> m_isadd t = true -> m_wrote t = true -> reg_phase t = true ->
     ~ In (m_k t) (ms_list ms)) /\
  (forall i j ti tj, nth_error ts i = Some ti -> nth_error ts j = Some tj -> i <> j ->
     m_isadd ti = true -> m_isadd tj = true -> m_wrote ti = true -> m_wrote tj = true -> m_k ti <> m_k tj).

Lemma CI_wrote_claimed ms t : CIb ms t -> m_isadd t = true -> m_wrote t = true -> claimed ms (m_k t) = true /\ (m_k t < nc ms)%nat.
Proof. intros (_ & X) Ea Hw. rewrite Ea in X. destruct X as (A1 & _ & _ & _ & _ & _ & A7 & _). auto. Qed.
Lemma CI_chg_wrote ms t : CIb ms t -> m_isadd t = false -> m_wrote t = false /\ reg_phase t = false.
Proof.
  intros (_ & X) Ea. rewrite Ea in X. destruct X as (_ & A2 & _ & A8). split; [exact A2|].
  unfold reg_phase. destruct (m_pc t); try reflexivity; contradiction.
Qed.

Definition NGH_at (st : mstate) (i : nat) : Prop :=
  match nth_error (snd st) i with Some t => m_pc t = MRun -> NGH (fst st) t | None => True end.

Theorem GI2_step st i : GI2 st -> NGH_at st i -> GI2 (mstep st i).
Proof.
  destruct st as [ms ts]. intros (C & B & W & F & U3 & U2) NG. unfold NGH_at in NG. cbn [fst snd] in NG. unfold mstep.
  destruct (nth_error ts i) as [t0|] eqn:Hn; [|exact (conj C (conj B (conj W (conj F (conj U3 U2)))))].
  pose proof (nth_error_Forall _ _ _ _ F Hn) as I0c. pose proof I0c as (I0 & Ne0 & Gr0).
  unfold mstep_thread. destruct (mstep_core ms t0) as [ms1 t1] eqn:Hc. cbn [fst snd].
  assert (SO : step_ok ms t0 ms1 t1).
  { destruct (m_isadd t0) eqn:Ea; [eapply core_CI_add | eapply core_CI_chg]; eauto. }
  destruct SO as (C1 & B1 & EN & EG & ET & I1 & G & S1 & E1 & E2).
  destruct (CIb_lens_focus _ _ I0 ltac:(rewrite Ne0; apply repeat_length)) as [LO FO].
  rewrite LO, FO, (CIb_done_ok _ _ I1 ltac:(rewrite EN, Ne0; apply quiet_nest0)). cbn [andb negb]. rewrite set_chk_false.
  pose proof G as [N CM]. pose proof W as (W1 & W2 & W3 & W4 & W5). destruct S1 as (S1 & S4 & S5).
  pose proof (core_list _ _ _ _ Hc) as CL.
  assert (LNK : m_pc t0 = MRLink -> m_isadd t0 = true /\ m_wrote t0 = true /\ reg_phase t0 = true).
  { intros Hp. destruct (m_isadd t0) eqn:Ea.
    - destruct I0 as (_ & X). rewrite Ea in X. destruct X as (_ & _ & _ & _ & _ & _ & _ & A8). rewrite Hp in A8.
      unfold reg_phase. rewrite Hp. repeat split; apply A8.
    - destruct (CI_chg_wrote _ _ I0 Ea) as [_ R]. unfold reg_phase in R. rewrite Hp in R. discriminate. }
  split; [congruence|]. split; [congruence|]. split; [|split; [|split]].
  - (* MW *)
    unfold MW. split; [exact S1|]. split; [|split; [|split; [exact S4|exact S5]]].
    + intros j Hj. rewrite N. destruct CL as [CL | (Hp & CL)]; rewrite CL in Hj.
      * destruct (W2 j Hj). auto.
      * destruct Hj as [<-|Hj]; [|destruct (W2 j Hj); auto].
        destruct (LNK Hp) as (Ea & Hw & _). destruct (CI_wrote_claimed _ _ I0 Ea Hw). auto.
    + destruct CL as [-> | (Hp & ->)]; [exact W3|]. constructor; [|exact W3].
      destruct (LNK Hp) as (Ea & Hw & Hr). exact (U3 i t0 Hn Ea Hw Hr).
  - apply Forall_upd; [|split; [exact I1|]; rewrite EN, EG, N; auto]. apply Forall_forall. intros x Hx. apply (CI_mono ms); [exact G|].
    rewrite Forall_forall in F. apply F. exact Hx.
  - (* a linker's counter is not on the list *)
    intros j t Hj Ea Hw Hr. destruct (Nat.eq_dec i j) as [<-|Nij].
    + rewrite (nth_error_upd_same _ _ _ _ Hn) in Hj. injection Hj as <-.
      assert (Ea0 : m_isadd t0 = true) by congruence.
      destruct (core_wrote_add _ _ _ _ Hc I0 Ea0) as [_ X]. destruct (X Hr Hw) as [(R0 & W0 & Lk)|(Cf & Ll)].
      * rewrite E2. destruct CL as [-> | (Hp & _)]; [|rewrite (Lk Hp)]; exact (U3 i t0 Hn Ea0 W0 R0).
      * rewrite E2, Ll. intros Hin. destruct (W2 _ Hin). congruence.
    + rewrite nth_error_upd_other in Hj by exact Nij.
      destruct CL as [-> | (Hp & ->)]; [exact (U3 j t Hj Ea Hw Hr)|].
      intros [Hin|Hin]; [|exact (U3 j t Hj Ea Hw Hr Hin)].
      destruct (LNK Hp) as (Ea0 & Hw0 & _). exact (U2 i j t0 t Hn Hj Nij Ea0 Ea Hw0 Hw Hin).
  - (* one claimer per counter *)
    assert (KEY : forall j tj, nth_error ts j = Some tj -> i <> j -> m_isadd t1 = true -> m_isadd tj = true ->
                  m_wrote t1 = true -> m_wrote tj = true -> m_k t1 <> m_k tj).
    { intros j tj Hj Nij Ea1 Eaj Hw1 Hwj. assert (Ea0 : m_isadd t0 = true) by congruence.
      destruct (core_wrote_add _ _ _ _ Hc I0 Ea0) as [[X|(X1 & X2 & _)] _].
      - rewrite E2. apply (U2 i j t0 tj Hn Hj Nij Ea0 Eaj); congruence.
      - rewrite E2. intros Heq. rewrite Forall_forall in F.
        destruct (CI_wrote_claimed ms tj (proj1 (F tj (nth_error_In _ _ Hj))) Eaj Hwj). congruence. }
    intros a b ta tb Ha Hb Nab Eaa Eab Hwa Hwb.
    destruct (Nat.eq_dec i a) as [<-|Nia]; destruct (Nat.eq_dec i b) as [<-|Nib]; try congruence.
    + rewrite (nth_error_upd_same _ _ _ _ Hn) in Ha. injection Ha as <-. rewrite nth_error_upd_other in Hb by exact Nib.
      exact (KEY b tb Hb Nib Eaa Eab Hwa Hwb).
    + rewrite (nth_error_upd_same _ _ _ _ Hn) in Hb. injection Hb as <-. rewrite nth_error_upd_other in Ha by exact Nia.
      intros Heq. exact (KEY a ta Ha Nia Eab Eaa Hwb Hwa (eq_sym Heq)).
    + rewrite nth_error_upd_other in Ha, Hb by assumption. exact (U2 a b ta tb Ha Hb Nab Eaa Eab Hwa Hwb).
Qed.


(* ---- up to the first inline extension ---- *)
Definition has_grown (ts : list mthread) : bool := existsb m_grown ts.

Lemma core_grown ms t ms' t' : mstep_core ms t = (ms', t') -> m_grown t = true -> m_grown t' = true.
Proof.
  intros H G. unfold mstep_core in H. destruct (m_pc t).
  - destruct (m_isadd t); injection H as <- <-; exact G.
  - destruct (claimed ms (m_k t)); injection H as <- <-; exact G.
  - injection H as <- <-; exact G.
  - destruct (m_wrote t); [|destruct (claimed ms (m_k t))]; injection H as <- <-; exact G.
  - destruct (onat_eqb _ _); injection H as <- <-; exact G.
  - injection H as <- <-; exact G.
  - injection H as <- <-; exact G.
  - injection H as <- <-; exact G.
  - cbv zeta in H. destruct (step_thread np0 _ _) as [s' u'].
    destruct (_ && m_grown t); [injection H as <- <-; exact G|].
    destruct (pc_is _ LLook2 && _); [injection H as <- <-; reflexivity|].
    destruct (m_walks t); [destruct (pc_is (t_pc u') Done); [destruct (m_role t)|]|destruct (visit_ended _ _ _)];
      injection H as <- <-; destruct (m_role t); exact G.
  - injection H as <- <-. exact G.
  - injection H as <- <-; exact G.
  - destruct (m_walks t) as [|w ws]; [injection H as <- <-; exact G|].
    cbv zeta in H. injection H as <- <-. rewrite (proj1 (proj2 (advance_fields _))).
    destruct (w_own w) as [[r c]|]; [destruct (negb _); [destruct r|]|]; exact G.
  - injection H as <- <-. rewrite (proj1 (proj2 (advance_fields _))). exact G.
  - destruct (m_walks t) as [|w ws]; [injection H as <- <-; exact G|].
    destruct (w_own w) as [[r c]|].
    + destruct (step_thread np0 _ _) as [s' u']. injection H as <- <-. destruct r; exact G.
    + destruct (m_prev t); injection H as <- <-; exact G.
  - injection H as <- <-; exact G.
Qed.

Lemma existsb_upd (f : mthread -> bool) l i t t' : nth_error l i = Some t -> (f t = true -> f t' = true) ->
  existsb f l = true -> existsb f (upd l i t') = true.
Proof.
  revert i; induction l as [|x l IH]; intros [|i] Hn Hf H; cbn in *; try discriminate.
  - injection Hn as ->. apply orb_true_iff in H as [H|H]; [rewrite (Hf H); reflexivity | rewrite H; apply orb_true_r].
  - apply orb_true_iff in H as [H|H]; [rewrite H; reflexivity | rewrite (IH _ Hn Hf H); apply orb_true_r].
Qed.
Lemma existsb_upd_new (f : mthread -> bool) l i t t' : nth_error l i = Some t -> f t' = true -> existsb f (upd l i t') = true.
Proof.
  revert i; induction l as [|x l IH]; intros [|i] Hn Hf; cbn in *; try discriminate.
  - rewrite Hf. reflexivity.
  - rewrite (IH _ Hn Hf). apply orb_true_r.
Qed.

Lemma mstep_grown_mono st i : has_grown (snd st) = true -> has_grown (snd (mstep st i)) = true.
Proof.
  destruct st as [ms ts]. cbn [snd]. intros H. unfold mstep. destruct (nth_error ts i) as [t|] eqn:Hn; [|exact H].
  unfold mstep_thread. destruct (mstep_core ms t) as [ms1 t1] eqn:Hc. cbn [fst snd].
  apply (existsb_upd m_grown ts i t t1 Hn); [apply (core_grown _ _ _ _ Hc) | exact H].
Qed.
Lemma mrun_grown_mono sched : forall st, has_grown (snd st) = true -> has_grown (snd (mrun sched st)) = true.
Proof. induction sched as [|i sched IH]; intros st H; [exact H|]. cbn [mrun fold_left]. apply IH. apply mstep_grown_mono. exact H. Qed.

(* a step that extends the file marks its thread *)
Lemma step_grows st i : GI2 st -> ~ NGH_at st i -> has_grown (snd (mstep st i)) = true.
Proof.
  destruct st as [ms ts]. intros (C & B & W & F & _) NN. unfold NGH_at in NN. cbn [fst snd] in *. unfold mstep.
  destruct (nth_error ts i) as [t|] eqn:Hn; [|exfalso; apply NN; exact I].
  pose proof (nth_error_Forall _ _ _ _ F Hn) as (I0 & Ne0 & Gr0).
  unfold mstep_thread. destruct (mstep_core ms t) as [ms1 t1] eqn:Hc. cbn [fst snd].
  apply (existsb_upd_new m_grown ts i t t1 Hn).
  destruct (m_pc t) eqn:Hpc; try (exfalso; apply NN; intros X; discriminate X).
  unfold mstep_core in Hc. rewrite Hpc in Hc. cbv zeta in Hc.
  destruct (step_thread np0 (proj (m_c t) ms) (gett t (m_role t) (m_c t))) as [s' u'] eqn:Es.
  destruct (pc_is (t_pc (gett t (m_role t) (m_c t))) LLook2 && pc_is (t_pc u') GIvLoad) eqn:Eg.
  - rewrite Gr0 in Hc. cbn [andb] in Hc. injection Hc as <- <-. reflexivity.
  - exfalso. apply NN. intros _ s'' u'' E. rewrite Es in E. injection E as <- <-. unfold nogrowb. rewrite Eg. reflexivity.
Qed.

Theorem GI2_run sched : forall st, GI2 st -> has_grown (snd (mrun sched st)) = false -> GI2 (mrun sched st).
Proof.
  induction sched as [|i sched IH]; intros st G H; [exact G|]. cbn [mrun fold_left] in *.
  assert (H1 : has_grown (snd (mstep st i)) = false).
  { destruct (has_grown (snd (mstep st i))) eqn:E; [|reflexivity]. pose proof (mrun_grown_mono sched _ E) as X. unfold mrun in X. rewrite X in H. discriminate. }
  apply IH; [|exact H]. apply GI2_step; [exact G|].
  unfold NGH_at. destruct (nth_error (snd st) i) as [t|] eqn:Hn; [|exact I].
  intros Hpc s' u' Es. destruct (nogrowb (gett t (m_role t) (m_c t)) u') eqn:Eb; [reflexivity|]. exfalso.
  assert (NN : ~ NGH_at st i).
  { unfold NGH_at. rewrite Hn. intros X. specialize (X Hpc s' u' Es). congruence. }
  rewrite (step_grows st i G NN) in H1. discriminate.
Qed.

(* ---- initial states: full files and rotations that open a full file allowed ---- *)
Definition ctl_init (ms : mshared) (ts : list mthread) : Prop :=
  MW ms /\ Forall (fun t => m_isadd t = false -> m_tgt t = NewFile \/ m_tgt t = FullFile) ts.

Lemma init_CI2 ms t : mthread_init (nc ms) t -> (m_isadd t = false -> m_tgt t = NewFile \/ m_tgt t = FullFile) -> CI ms t.
Proof.
  intros [(k & n & Hk & Hn & ->)|(tg & ->)] Ht.
  - unfold CI, CIb, adderM. msimp. rewrite upd_len, repeat_length. split; [|split; reflexivity]. split; [reflexivity|].
    unfold CIadd. msimp. split; [exact Hk|]. split.
    { intros j Hj. rewrite nth_upd_other by exact Hj. rewrite nth_repeat. destruct (Nat.ltb j (nc ms)); reflexivity. }
    rewrite nth_upd_same by (rewrite repeat_length; exact Hk). cbn. repeat split; auto; discriminate.
  - specialize (Ht eq_refl). cbn in Ht.
    unfold CI, CIb, changerM. msimp. rewrite repeat_length. split; [|split; reflexivity]. split; [reflexivity|].
    unfold CIchg. msimp. repeat (split; [first [reflexivity|exact Ht]|]). intros j Hj. rewrite nth_repeat.
    apply Nat.ltb_lt in Hj. rewrite Hj. split; reflexivity.
Qed.

Lemma init_GI2 ms ts : mgood ms ts -> ctl_init ms ts -> GI2 (ms, ts).
Proof.
  intros (C & B & FT & _ & _) (W & FN). unfold GI2. split; [exact C|]. split; [exact B|]. split; [exact W|].
  split; [|split].
  - rewrite Forall_forall in *. intros t Ht. apply init_CI2; [apply FT; exact Ht | apply FN; exact Ht].
  - intros j t Hj _ Hw. rewrite Forall_forall in FT.
    assert (X : m_wrote t = false) by (destruct (FT t (nth_error_In _ _ Hj)) as [(k & n & _ & _ & ->)|(tg & ->)]; reflexivity).
    congruence.
  - intros i j ti tj Hi _ _ _ _ Hw. rewrite Forall_forall in FT.
    assert (X : m_wrote ti = false) by (destruct (FT ti (nth_error_In _ _ Hi)) as [(k & n & _ & _ & ->)|(tg & ->)]; reflexivity).
    congruence.
Qed.

(* up to the first inline extension no schedule sets a flag: full files and
   changerM FullFile included *)
Theorem multi_flags_clear_upto ms0 ts0 sched : mgood ms0 ts0 -> ctl_init ms0 ts0 ->
  has_grown (snd (mrun sched (ms0, ts0))) = false ->
  ms_chk (fst (mrun sched (ms0, ts0))) = false /\ ms_bad (fst (mrun sched (ms0, ts0))) = false.
Proof.
  intros G N H. pose proof (GI2_run sched _ (init_GI2 _ _ G N) H) as X.
  destruct (mrun sched (ms0, ts0)) as [ms ts]. destruct X as (C & B & _). auto.
Qed.

Theorem multi_inv_upto ms0 ts0 sched k : mgood ms0 ts0 -> reg_init ms0 -> ctl_init ms0 ts0 ->
  has_grown (snd (mrun sched (ms0, ts0))) = false -> (k < length (ms_ctrs ms0))%nat ->
  Inv (total_k k ms0 ts0) (sproj k (mrun sched (ms0, ts0))) /\
  Forall (fun t => done_ok t = true) (snd (mrun sched (ms0, ts0))).
Proof. intros G R N H Hk. destruct (multi_flags_clear_upto ms0 ts0 sched G N H) as [C B]. apply multi_inv; assumption. Qed.
