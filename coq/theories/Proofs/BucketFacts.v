(* Proofs/BucketFacts: lemmas about Model/Bucket. *)
From Coq Require Import List NArith ZArith Bool Lia Sorted.
From Tele Require Import Lib.Bytes Lib.Calendar Lib.SortedMap Model.Bucket Proofs.SortedMapFacts.
Import ListNotations.
Open Scope N_scope.

(* ------------------------------------------------------------------ orders *)
Lemma comp_cmp_ok : cmp_ok comp_cmp.
Proof. apply lex_cmp_ok. exact N_cmp_ok. Qed.
Lemma path_cmp_ok : cmp_ok path_cmp.
Proof. apply lex_cmp_ok. exact comp_cmp_ok. Qed.

Definition bytes_eq_dec : forall a b : bytes, {a = b} + {a <> b} := list_eq_dec N.eq_dec.
Definition path_eq_dec : forall a b : path, {a = b} + {a <> b} := list_eq_dec bytes_eq_dec.

Lemma fget_fput_same p e m : fget p (fput p e m) = Some e.
Proof. apply (get_put_same _ _ _ path_cmp_ok). Qed.
Lemma fget_fput_other p q e m : q <> p -> fget q (fput p e m) = fget q m.
Proof. apply (get_put_other _ _ _ path_cmp_ok). Qed.
Lemma sget_sput_same p c s : sget p (sput p c s) = Some c.
Proof. apply (get_put_same _ _ _ path_cmp_ok). Qed.
Lemma sget_sput_other p q c s : q <> p -> sget q (sput p c s) = sget q s.
Proof. apply (get_put_other _ _ _ path_cmp_ok). Qed.

(* ---------------------------------------------------------------- prefixes *)
(* q is a proper prefix of p *)
Definition pp (q p : path) : Prop := exists x r, p = q ++ x :: r.

Lemma is_prefix_spec : forall q p, is_prefix q p = true <-> exists r, p = q ++ r.
Proof.
  induction q as [|x q IH]; intros p; simpl.
  - split; [intros _; exists p; reflexivity | reflexivity].
  - destruct p as [|y p].
    + split; [discriminate | intros [r H]; discriminate].
    + rewrite andb_true_iff, beq_eq, IH. split.
      * intros [-> [r ->]]. exists r. reflexivity.
      * intros [r H]. injection H as -> ->. split; [reflexivity | exists r; reflexivity].
Qed.

Lemma is_pprefix_spec q p : is_pprefix q p = true <-> pp q p.
Proof.
  unfold is_pprefix, pp. rewrite andb_true_iff, is_prefix_spec, negb_true_iff, Nat.eqb_neq. split.
  - intros [[r ->] Hlen]. destruct r as [|x r].
    + rewrite app_nil_r in Hlen. contradiction.
    + exists x, r. reflexivity.
  - intros [x [r ->]]. split; [exists (x :: r); reflexivity|].
    rewrite app_length. simpl. lia.
Qed.

Lemma pp_neq q p : pp q p -> q <> p.
Proof.
  intros [x [r H]] ->. apply (f_equal (@length _)) in H. rewrite app_length in H. simpl in H. lia.
Qed.

Lemma pp_trans a b c : pp a b -> pp b c -> pp a c.
Proof.
  intros [x [r ->]] [y [t ->]]. exists x, (r ++ y :: t). rewrite <- app_assoc. reflexivity.
Qed.

Lemma pp_nil p : p <> [] -> pp [] p.
Proof. destruct p as [|x r]; [contradiction|]. intros _. exists x, r. reflexivity. Qed.

Lemma in_inits : forall p q, In q (inits p) <-> q <> [] /\ exists r, p = q ++ r.
Proof.
  induction p as [|k p IH]; intros q; simpl.
  - split; [intros [] | intros [Hne [r H]]]. destruct q; [contradiction | discriminate].
  - split.
    + intros [<-|H].
      * split; [discriminate | exists p; reflexivity].
      * apply in_map_iff in H as [q' [<- H]]. apply IH in H as [_ [r ->]].
        split; [discriminate | exists r; reflexivity].
    + intros [Hne [r H]]. destruct q as [|x q]; [contradiction|].
      injection H as <- ->. destruct q as [|y q].
      * left. reflexivity.
      * right. apply in_map_iff. exists (y :: q). split; [reflexivity|].
        apply IH. split; [discriminate | exists r; reflexivity].
Qed.

Lemma in_parents p q : In q (parents p) <-> q <> [] /\ pp q p.
Proof.
  unfold parents. rewrite in_inits.
  destruct p as [|k p0].
  - simpl. split.
    + intros [Hne [r H]]. destruct q; [contradiction|discriminate].
    + intros [_ [x [r H]]]. destruct q; discriminate.
  - assert (Hp : k :: p0 <> []) by discriminate.
    destruct (exists_last Hp) as [l [z E]]. rewrite E. rewrite removelast_last. split.
    + intros [Hne [r ->]]. split; [exact Hne|].
      rewrite <- app_assoc. destruct (r ++ [z]) as [|x t] eqn:Er.
      * destruct r; discriminate.
      * exists x, t. reflexivity.
    + intros [Hne [x [r H]]]. split; [exact Hne|].
      assert (Hxr : x :: r <> []) by discriminate.
      destruct (exists_last Hxr) as [l2 [z2 E2]]. rewrite E2 in H.
      rewrite app_assoc in H. apply app_inj_tail in H as [-> _]. eexists. reflexivity.
Qed.

Lemma not_in_parents_self p : ~ In p (parents p).
Proof. intro H. apply in_parents in H as [_ H]. apply pp_neq in H. contradiction. Qed.

(* each element of the list is a proper prefix of all later ones *)
Fixpoint chain (ds : list path) : Prop :=
  match ds with
  | [] => True
  | d :: ds' => (forall d', In d' ds' -> pp d d') /\ chain ds'
  end.

Lemma chain_map_cons k : forall ds, chain ds -> chain (map (cons k) ds).
Proof.
  induction ds as [|d ds IH]; simpl; [auto|].
  intros [H1 H2]. split; [|auto].
  intros d' Hin. apply in_map_iff in Hin as [d0 [<- Hin]].
  destruct (H1 _ Hin) as [x [r ->]]. exists x, r. reflexivity.
Qed.

Lemma chain_inits : forall p, chain (inits p).
Proof.
  induction p as [|k p IH]; simpl; [exact I|]. split.
  - intros d' Hin. apply in_map_iff in Hin as [d0 [<- Hin]].
    apply in_inits in Hin as [Hne _]. destruct d0 as [|x r]; [contradiction|].
    exists x, r. reflexivity.
  - apply chain_map_cons. exact IH.
Qed.

Lemma chain_parents p : chain (parents p).
Proof. apply chain_inits. Qed.

(* -------------------------------------------------------------- invariants *)
Record inv (m : fs) : Prop := {
  inv_sorted : sorted path_cmp m;
  inv_root : fget [] m = Some D;
  (* every ancestor of an entry is a directory *)
  inv_anc : forall k e q, fget k m = Some e -> pp q k -> fget q m = Some D;
  (* every directory except the bucket directory holds a file somewhere below *)
  inv_dirs : forall d, d <> [] -> fget d m = Some D -> exists q c, pp d q /\ fget q m = Some (F c)
}.

Lemma inv_init : inv fs_init.
Proof.
  split.
  - simpl. split; [intros ? []|exact I].
  - reflexivity.
  - intros k e q H Hpp. destruct k as [|x k].
    + destruct Hpp as [y [r Hpp]]. destruct q; discriminate.
    + discriminate.
  - intros d Hne H. destruct d; [contradiction|discriminate].
Qed.

(* ------------------------------------------------------------------ mkdirs *)
Lemma mkdirs_sorted : forall ds m, sorted path_cmp m -> sorted path_cmp (snd (mkdirs m ds)).
Proof.
  induction ds as [|d ds IH]; intros m Hs; simpl; [exact Hs|].
  destruct (fget d m) as [[c|]|]; simpl; auto.
  apply IH. apply (put_sorted _ _ _ path_cmp_ok). exact Hs.
Qed.

Lemma mkdirs_ok_iff : forall ds m,
  fst (mkdirs m ds) = true <-> forall d, In d ds -> forall c, fget d m <> Some (F c).
Proof.
  induction ds as [|d ds IH]; intros m; simpl.
  - split; [intros _ ? [] | reflexivity].
  - destruct (fget d m) as [[c|]|] eqn:E; simpl.
    + split; [discriminate|]. intro H. exfalso. apply (H d (or_introl eq_refl) c). exact E.
    + rewrite IH. split.
      * intros H d' [<-|Hin] c'; [rewrite E; discriminate | apply H; exact Hin].
      * intros H d' Hin. apply H. right; exact Hin.
    + rewrite IH. split.
      * intros H d' [<-|Hin] c'; [rewrite E; discriminate|].
        specialize (H d' Hin c'). destruct (path_eq_dec d' d) as [->|Hne].
        -- rewrite E. discriminate.
        -- rewrite fget_fput_other in H by exact Hne. exact H.
      * intros H d' Hin c'. destruct (path_eq_dec d' d) as [->|Hne].
        -- rewrite fget_fput_same. discriminate.
        -- rewrite fget_fput_other by exact Hne. apply H. right; exact Hin.
Qed.

Lemma mkdirs_ok_get : forall ds m, fst (mkdirs m ds) = true ->
  forall q, fget q (snd (mkdirs m ds)) = if in_dec path_eq_dec q ds then Some D else fget q m.
Proof.
  induction ds as [|d ds IH]; intros m Hok q; simpl in *; [reflexivity|].
  destruct (fget d m) as [[c|]|] eqn:E; simpl in *.
  - discriminate.
  - rewrite (IH m Hok q). destruct (path_eq_dec d q) as [->|Hne].
    + destruct (in_dec path_eq_dec q ds); [reflexivity | exact E].
    + destruct (in_dec path_eq_dec q ds); reflexivity.
  - rewrite (IH _ Hok q). destruct (path_eq_dec d q) as [->|Hne].
    + destruct (in_dec path_eq_dec q ds); [reflexivity | apply fget_fput_same].
    + destruct (in_dec path_eq_dec q ds); [reflexivity | apply fget_fput_other; congruence].
Qed.

Lemma mkdirs_all_dirs : forall ds m, (forall d, In d ds -> fget d m = Some D) -> mkdirs m ds = (true, m).
Proof.
  induction ds as [|d ds IH]; intros m H; simpl; [reflexivity|].
  rewrite (H d (or_introl eq_refl)). apply IH. intros; apply H; right; assumption.
Qed.

Lemma mkdirs_fail_same : forall ds m,
  (forall k e q, fget k m = Some e -> pp q k -> fget q m = Some D) ->
  chain ds -> fst (mkdirs m ds) = false -> snd (mkdirs m ds) = m.
Proof.
  induction ds as [|d ds IH]; intros m Hanc Hch Hf; simpl in *; [reflexivity|].
  destruct Hch as [Hch1 Hch2].
  destruct (fget d m) as [[c|]|] eqn:E; simpl in *.
  - reflexivity.
  - apply IH; assumption.
  - exfalso.
    assert (Hok : fst (mkdirs (fput d D m) ds) = true).
    { apply mkdirs_ok_iff. intros d' Hin c' Hg.
      assert (Hne : d' <> d) by (intros ->; rewrite fget_fput_same in Hg; discriminate).
      rewrite fget_fput_other in Hg by exact Hne.
      rewrite (Hanc _ _ _ Hg (Hch1 _ Hin)) in E. discriminate. }
    congruence.
Qed.

Lemma files_mkdirs : forall ds m, files (snd (mkdirs m ds)) = files m.
Proof.
  induction ds as [|d ds IH]; intros m; simpl; [reflexivity|].
  destruct (fget d m) as [[c|]|] eqn:E; simpl; auto.
  rewrite IH. unfold files, fput. apply fmf_put_none; [reflexivity | exact E].
Qed.

(* ------------------------------------------------------------------- write *)
Lemma write_ok_get m p c m' : write m p c = (true, m') ->
  (forall d, In d (parents p) -> forall c', fget d m <> Some (F c')) /\
  fget p m <> Some D /\
  m' = fput p (F c) (snd (mkdirs m (parents p))) /\
  forall q, fget q m' =
    if path_eq_dec q p then Some (F c)
    else if in_dec path_eq_dec q (parents p) then Some D else fget q m.
Proof.
  unfold write. destruct (mkdirs m (parents p)) as [ok m1] eqn:E.
  assert (E1 : fst (mkdirs m (parents p)) = ok) by (rewrite E; reflexivity).
  assert (E2 : snd (mkdirs m (parents p)) = m1) by (rewrite E; reflexivity).
  destruct ok; [|discriminate].
  pose proof (mkdirs_ok_get _ _ E1) as Hget. rewrite E2 in Hget.
  assert (Hp : fget p m1 = fget p m).
  { rewrite Hget. destruct (in_dec path_eq_dec p (parents p)) as [Hin|]; [|reflexivity].
    exfalso. eapply not_in_parents_self; eauto. }
  intro H.
  assert (Hm' : m' = fput p (F c) m1 /\ fget p m <> Some D).
  { rewrite <- Hp. destruct (fget p m1) as [[c0|]|]; try discriminate;
      injection H as <-; split; try reflexivity; discriminate. }
  destruct Hm' as [-> HnD].
  split; [apply mkdirs_ok_iff; exact E1|]. split; [exact HnD|]. split; [reflexivity|].
  intro q. destruct (path_eq_dec q p) as [->|Hne].
  - apply fget_fput_same.
  - rewrite fget_fput_other by exact Hne. apply Hget.
Qed.

Lemma write_fail_same m p c m' : inv m -> write m p c = (false, m') -> m' = m.
Proof.
  intros Hinv. unfold write. destruct (mkdirs m (parents p)) as [ok m1] eqn:E.
  assert (E1 : fst (mkdirs m (parents p)) = ok) by (rewrite E; reflexivity).
  assert (E2 : snd (mkdirs m (parents p)) = m1) by (rewrite E; reflexivity).
  destruct ok.
  - pose proof (mkdirs_ok_get _ _ E1) as Hget. rewrite E2 in Hget.
    destruct (fget p m1) as [[c0|]|] eqn:Ep; try discriminate.
    intro H. injection H as <-.
    rewrite Hget in Ep. destruct (in_dec path_eq_dec p (parents p)) as [Hin|_].
    + exfalso. eapply not_in_parents_self; eauto.
    + assert (Hall : forall d, In d (parents p) -> fget d m = Some D).
      { intros d Hd. apply in_parents in Hd as [_ Hd]. eapply (inv_anc _ Hinv); eauto. }
      rewrite (mkdirs_all_dirs _ _ Hall) in E. congruence.
  - intro H. injection H as <-. rewrite <- E2.
    apply mkdirs_fail_same; [apply (inv_anc _ Hinv) | apply chain_parents | exact E1].
Qed.

Lemma write_ok_inv m p c m' : inv m -> p <> [] -> write m p c = (true, m') -> inv m'.
Proof.
  intros Hinv Hp H. destruct (write_ok_get _ _ _ _ H) as [Hnf [HnD [Hm' Hget]]].
  assert (Hroot : fget [] m' = Some D).
  { rewrite Hget. destruct (path_eq_dec [] p) as [<-|_]; [contradiction|].
    destruct (in_dec path_eq_dec [] (parents p)) as [Hin|_]; [reflexivity | apply (inv_root _ Hinv)]. }
  split.
  - subst m'. apply (put_sorted _ _ _ path_cmp_ok). apply mkdirs_sorted. apply (inv_sorted _ Hinv).
  - exact Hroot.
  - intros k e q Hk Hpp.
    destruct (path_eq_dec q []) as [->|Hq]; [exact Hroot|].
    rewrite Hget in Hk. rewrite Hget.
    destruct (path_eq_dec k p) as [->|Hkp].
    + (* the new file: its ancestors are its parents *)
      destruct (path_eq_dec q p) as [->|_]; [exfalso; exact (pp_neq _ _ Hpp eq_refl)|].
      destruct (in_dec path_eq_dec q (parents p)) as [_|Hn]; [reflexivity|].
      exfalso. apply Hn. apply in_parents. split; assumption.
    + destruct (in_dec path_eq_dec k (parents p)) as [Hin|Hnin].
      * apply in_parents in Hin as [_ Hin]. pose proof (pp_trans _ _ _ Hpp Hin) as Hqp.
        destruct (path_eq_dec q p) as [->|_]; [exfalso; exact (pp_neq _ _ Hqp eq_refl)|].
        destruct (in_dec path_eq_dec q (parents p)) as [_|Hn]; [reflexivity|].
        exfalso. apply Hn. apply in_parents. split; assumption.
      * pose proof (inv_anc _ Hinv _ _ _ Hk Hpp) as HqD.
        destruct (path_eq_dec q p) as [->|_]; [contradiction|].
        destruct (in_dec path_eq_dec q (parents p)); [reflexivity | exact HqD].
  - intros d Hd HdD. rewrite Hget in HdD.
    destruct (path_eq_dec d p) as [->|Hdp]; [discriminate|].
    destruct (in_dec path_eq_dec d (parents p)) as [Hin|Hnin].
    + exists p, c. split; [apply in_parents in Hin; tauto|].
      rewrite Hget. destruct (path_eq_dec p p); [reflexivity|contradiction].
    + destruct (inv_dirs _ Hinv d Hd HdD) as [q [c0 [Hpp Hq]]].
      destruct (path_eq_dec q p) as [->|Hqp].
      * exists p, c. split; [exact Hpp|]. rewrite Hget. destruct (path_eq_dec p p); [reflexivity|contradiction].
      * exists q, c0. split; [exact Hpp|]. rewrite Hget.
        destruct (path_eq_dec q p); [contradiction|].
        destruct (in_dec path_eq_dec q (parents p)) as [Hin|_]; [|exact Hq].
        exfalso. eapply Hnf; eauto.
Qed.

Lemma write_ok_files m p c m' : inv m -> write m p c = (true, m') -> files m' = sput p c (files m).
Proof.
  intros Hinv H. destruct (write_ok_get _ _ _ _ H) as [_ [_ [-> _]]].
  unfold files, fput, sput.
  rewrite (fmf_put_some _ _ _ _ path_cmp_ok file_of p (F c) c).
  - f_equal. apply files_mkdirs.
  - apply mkdirs_sorted. apply (inv_sorted _ Hinv).
  - reflexivity.
Qed.

(* --------------------------------------------- the files of a tree as a map *)
Lemma sget_files m q : inv m ->
  sget q (files m) = match fget q m with Some (F c) => Some c | _ => None end.
Proof.
  intro Hinv. unfold sget, files, fget.
  rewrite (get_fmf _ _ _ _ path_cmp_ok file_of q m (inv_sorted _ Hinv)).
  destruct (get path_cmp q m) as [[c|]|]; reflexivity.
Qed.

Lemma files_sorted m : inv m -> sorted path_cmp (files m).
Proof. intro Hinv. apply fmf_sorted. apply (inv_sorted _ Hinv). Qed.

Lemma in_files m q c : inv m -> (In (q, c) (files m) <-> fget q m = Some (F c)).
Proof.
  intro Hinv. split.
  - intro Hin. apply (in_get _ _ _ path_cmp_ok _ _ _ (files_sorted _ Hinv)) in Hin.
    fold (sget q (files m)) in Hin. rewrite (sget_files _ _ Hinv) in Hin.
    destruct (fget q m) as [[c0|]|]; congruence.
  - intro Hg. apply (get_in _ _ _ path_cmp_ok). fold (sget q (files m)).
    rewrite (sget_files _ _ Hinv), Hg. reflexivity.
Qed.

Lemma above_spec m p : inv m ->
  (above p (files m) = true <-> exists q c, fget q m = Some (F c) /\ pp q p).
Proof.
  intro Hinv. unfold above. rewrite existsb_exists. split.
  - intros [[q c] [Hin Hpp]]. simpl in Hpp. exists q, c.
    split; [apply (in_files _ _ _ Hinv); exact Hin | apply is_pprefix_spec; exact Hpp].
  - intros [q [c [Hg Hpp]]]. exists (q, c).
    split; [apply (in_files _ _ _ Hinv); exact Hg | apply is_pprefix_spec; exact Hpp].
Qed.

Lemma below_spec m p : inv m -> p <> [] -> (below p (files m) = true <-> fget p m = Some D).
Proof.
  intros Hinv Hp. unfold below. rewrite existsb_exists. split.
  - intros [[q c] [Hin Hpp]]. simpl in Hpp. apply (in_files _ _ _ Hinv) in Hin.
    apply is_pprefix_spec in Hpp. eapply (inv_anc _ Hinv); eauto.
  - intro HD. destruct (inv_dirs _ Hinv p Hp HD) as [q [c [Hpp Hq]]].
    exists (q, c). split; [apply (in_files _ _ _ Hinv); exact Hq | apply is_pprefix_spec; exact Hpp].
Qed.

Lemma above_parents m p : inv m ->
  (above p (files m) = true <-> exists d c, In d (parents p) /\ fget d m = Some (F c)).
Proof.
  intro Hinv. rewrite (above_spec _ _ Hinv). split.
  - intros [q [c [Hg Hpp]]]. exists q, c. split; [|exact Hg].
    apply in_parents. split; [|exact Hpp]. intros ->. rewrite (inv_root _ Hinv) in Hg. discriminate.
  - intros [d [c [Hin Hg]]]. exists d, c. split; [exact Hg|]. apply in_parents in Hin. tauto.
Qed.

(* the write succeeds exactly when the name does not collide with the map *)
Lemma write_ok_iff m p c : inv m -> p <> [] -> fst (write m p c) = negb (collides p (files m)).
Proof.
  intros Hinv Hp. unfold collides.
  destruct (above p (files m)) eqn:Ea; simpl.
  - apply (above_parents _ _ Hinv) in Ea as [d [c0 [Hin Hg]]].
    destruct (write m p c) as [[|] m'] eqn:E; [|reflexivity].
    destruct (write_ok_get _ _ _ _ E) as [Hnf _]. exfalso. eapply Hnf; eauto.
  - destruct (below p (files m)) eqn:Eb; simpl.
    + apply (below_spec _ _ Hinv Hp) in Eb.
      destruct (write m p c) as [[|] m'] eqn:E; [|reflexivity].
      destruct (write_ok_get _ _ _ _ E) as [_ [HnD _]]. contradiction.
    + unfold write. destruct (mkdirs m (parents p)) as [ok m1] eqn:E.
      assert (E1 : fst (mkdirs m (parents p)) = ok) by (rewrite E; reflexivity).
      assert (E2 : snd (mkdirs m (parents p)) = m1) by (rewrite E; reflexivity).
      assert (Hok : ok = true).
      { rewrite <- E1. apply mkdirs_ok_iff. intros d Hin c0 Hg.
        assert (above p (files m) = true) by (apply (above_parents _ _ Hinv); eauto). congruence. }
      rewrite Hok in E1 |- *. pose proof (mkdirs_ok_get _ _ E1 p) as Hget. rewrite E2 in Hget.
      destruct (in_dec path_eq_dec p (parents p)) as [Hin|_];
        [exfalso; eapply not_in_parents_self; eauto|].
      rewrite Hget. destruct (fget p m) as [[c0|]|] eqn:Ep; try reflexivity.
      exfalso. apply (below_spec _ _ Hinv Hp) in Ep. congruence.
Qed.

(* -------------------------------------------------------------------- read *)
Lemma walk_dirs_none : forall ds m, walk_dirs m ds = None <-> forall d, In d ds -> fget d m = Some D.
Proof.
  induction ds as [|d ds IH]; intros m; simpl.
  - split; [intros _ ? [] | reflexivity].
  - destruct (fget d m) as [[c|]|] eqn:E.
    + split; [discriminate|]. intro H. specialize (H d (or_introl eq_refl)). congruence.
    + rewrite IH. split.
      * intros H d' [<-|Hin]; auto.
      * intros H d' Hin. apply H. right; exact Hin.
    + split; [discriminate|]. intro H. specialize (H d (or_introl eq_refl)). congruence.
Qed.

Lemma walk_dirs_range : forall ds m r, walk_dirs m ds = Some r -> r = RNotExist.
Proof.
  induction ds as [|d ds IH]; intros m r; simpl; [discriminate|].
  destruct (fget d m) as [[c|]|]; [intro H; injection H as <-; auto | apply IH | intro H; injection H as <-; auto].
Qed.

Lemma read_spec m p : inv m -> p <> [] -> read m p = spec_read (files m) p.
Proof.
  intros Hinv Hp. unfold read, spec_read, spec_read_strict. rewrite (sget_files _ _ Hinv).
  destruct (walk_dirs m (parents p)) as [r|] eqn:Ew.
  - rewrite (walk_dirs_range _ _ _ Ew).
    destruct (fget p m) as [[c|]|] eqn:Ep; try reflexivity. exfalso.
    assert (Hall : forall d, In d (parents p) -> fget d m = Some D).
    { intros d Hd. apply in_parents in Hd as [_ Hd]. eapply (inv_anc _ Hinv); eauto. }
    apply walk_dirs_none in Hall. congruence.
  - destruct (fget p m) as [[c|]|]; reflexivity.
Qed.

(* ------------------------------------------------- operation sequences *)
Lemma components_nonempty n : components n <> [].
Proof. apply split_byte_nonempty. Qed.

Lemma same_path_spec a b : same_path a b = true <-> a = b.
Proof.
  unfold same_path. pose proof (c_eq path_cmp path_cmp_ok a b) as H.
  destruct (path_cmp a b); split; intro E; try discriminate; try tauto.
  - apply H in E. discriminate.
  - apply H in E. discriminate.
Qed.

Lemma write_refines m p c : inv m -> p <> [] ->
  fst (write m p c) = fst (spec_write (files m) p c) /\
  inv (snd (write m p c)) /\
  files (snd (write m p c)) = snd (spec_write (files m) p c).
Proof.
  intros Hinv Hp. pose proof (write_ok_iff m p c Hinv Hp) as Hok. unfold spec_write.
  destruct (write m p c) as [ok m'] eqn:E. simpl in Hok.
  destruct (collides p (files m)); simpl in Hok; subst ok; simpl.
  - apply (write_fail_same _ _ _ _ Hinv) in E. subst m'. auto.
  - split; [reflexivity|]. split.
    + eapply write_ok_inv; eauto.
    + eapply write_ok_files; eauto.
Qed.

Lemma read_sget m p : inv m -> p <> [] ->
  read m p = match sget p (files m) with Some c => ROk c | None => RNotExist end.
Proof. intros Hinv Hp. rewrite (read_spec _ _ Hinv Hp). reflexivity. Qed.

Lemma copy_refines m d sr : inv m -> d <> [] -> sr <> [] ->
  fst (copy m d sr) = fst (spec_copy (files m) d sr) /\
  inv (snd (copy m d sr)) /\
  files (snd (copy m d sr)) = snd (spec_copy (files m) d sr).
Proof.
  intros Hinv Hd Hs. unfold copy, spec_copy. rewrite (read_sget _ _ Hinv Hs).
  destruct (sget sr (files m)) as [c|]; simpl; [|auto].
  destruct (same_path d sr); simpl; [auto|]. apply write_refines; assumption.
Qed.

Lemma step_refines m o : inv m ->
  fst (step_fs m o) = fst (step_spec false (files m) o) /\
  inv (snd (step_fs m o)) /\
  files (snd (step_fs m o)) = snd (step_spec false (files m) o).
Proof.
  intro Hinv. destruct o as [n c|n|pre|d sr]; simpl.
  - destruct (write_refines m (components n) c Hinv (components_nonempty n)) as [H1 [H2 H3]].
    destruct (write m (components n) c) as [ok m']. destruct (spec_write (files m) (components n) c) as [ok' s'].
    simpl in *. subst. auto.
  - rewrite (read_spec _ _ Hinv (components_nonempty n)). auto.
  - auto.
  - destruct (copy_refines m (components d) (components sr) Hinv (components_nonempty d) (components_nonempty sr))
      as [H1 [H2 H3]].
    destruct (copy m (components d) (components sr)) as [ok m'].
    destruct (spec_copy (files m) (components d) (components sr)) as [ok' s'].
    simpl in *. subst. auto.
Qed.

Lemma run_refines : forall ops m, inv m ->
  fst (run_fs m ops) = fst (run_spec false (files m) ops) /\
  inv (snd (run_fs m ops)) /\
  files (snd (run_fs m ops)) = snd (run_spec false (files m) ops).
Proof.
  induction ops as [|o ops IH]; intros m Hinv; simpl; [auto|].
  destruct (step_refines m o Hinv) as [H1 [H2 H3]].
  destruct (step_fs m o) as [r m1]. destruct (step_spec false (files m) o) as [r' s1].
  simpl in *. subst r' s1.
  destruct (IH m1 H2) as [G1 [G2 G3]].
  destruct (run_fs m1 ops) as [rs m2]. destruct (run_spec false (files m1) ops) as [rs' s2].
  simpl in *. subst rs' s2. auto.
Qed.

Definition reachable (m : fs) : Prop := exists ops, snd (run_fs fs_init ops) = m.

Lemma reachable_inv m : reachable m -> inv m.
Proof. intros [ops <-]. apply (run_refines ops fs_init inv_init). Qed.

Theorem refinement ops :
  fst (run_fs fs_init ops) = fst (run_spec false [] ops).
Proof. apply (run_refines ops fs_init inv_init). Qed.

Theorem refinement_state ops :
  files (snd (run_fs fs_init ops)) = snd (run_spec false [] ops).
Proof. apply (run_refines ops fs_init inv_init). Qed.

(* strict specification = the code's behaviour away from the two deviations *)
Lemma filter_all_true {A} (l : list A) : filter (fun _ => true) l = l.
Proof. induction l; simpl; congruence. Qed.

Lemma listing_true l pre :
  listing true l pre = filter (fun n => has_prefix n pre) (map (fun kv => join_path (fst kv)) l).
Proof. unfold listing. simpl. rewrite filter_all_true. reflexivity. Qed.

Lemma listing_strict : forall l pre,
  existsb (fun kv : path * bytes => has_prefix (join_path (fst kv)) pre && negb (walkable (fst kv))) l = false ->
  listing true l pre = listing false l pre.
Proof.
  unfold listing. induction l as [|kv l IH]; intros pre H; simpl in *; [reflexivity|].
  apply orb_false_iff in H as [H1 H2]. specialize (IH pre H2). simpl in IH.
  destruct (walkable (fst kv)); simpl in *.
  - rewrite IH. reflexivity.
  - rewrite andb_true_r in H1. rewrite H1. exact IH.
Qed.

Lemma step_strict s o : deviating s o = false -> step_spec true s o = step_spec false s o.
Proof.
  destruct o as [n c|n|pre|d sr]; simpl; intro H.
  - reflexivity.
  - reflexivity.
  - unfold spec_list. rewrite (listing_strict _ _ H). reflexivity.
  - reflexivity.
Qed.

Lemma run_strict : forall ops s, no_deviation s ops = true ->
  run_spec true s ops = run_spec false s ops.
Proof.
  induction ops as [|o ops IH]; intros s H; simpl in *; [reflexivity|].
  apply andb_true_iff in H as [H1 H2]. apply negb_true_iff in H1.
  rewrite (step_strict _ _ H1) in *.
  destruct (step_spec false s o) as [r s1]. simpl in H2. rewrite (IH _ H2). reflexivity.
Qed.

Theorem refinement_strict ops : no_deviation [] ops = true ->
  fst (run_fs fs_init ops) = fst (run_spec true [] ops).
Proof. intro H. rewrite (run_strict _ _ H). apply refinement. Qed.

(* ------------------------------------------- single operations, by name *)
Lemma spec_read_ok s q c : spec_read s q = ROk c <-> sget q s = Some c.
Proof.
  unfold spec_read, spec_read_strict. destruct (sget q s) as [c0|].
  - split; intro H; injection H as ->; reflexivity.
  - split; discriminate.
Qed.

Theorem write_read m n c m' : reachable m ->
  write m (components n) c = (true, m') -> read m' (components n) = ROk c.
Proof.
  intros Hr H. apply reachable_inv in Hr.
  pose proof (components_nonempty n) as Hp.
  rewrite (read_spec _ _ (write_ok_inv _ _ _ _ Hr Hp H) Hp).
  rewrite (write_ok_files _ _ _ _ Hr H). apply spec_read_ok. apply sget_sput_same.
Qed.

Theorem write_frame m n c m' n2 c2 : reachable m ->
  write m (components n) c = (true, m') -> components n2 <> components n ->
  (read m' (components n2) = ROk c2 <-> read m (components n2) = ROk c2).
Proof.
  intros Hr H Hne. apply reachable_inv in Hr.
  rewrite (read_spec _ _ (write_ok_inv _ _ _ _ Hr (components_nonempty n) H) (components_nonempty n2)).
  rewrite (read_spec _ _ Hr (components_nonempty n2)).
  rewrite (write_ok_files _ _ _ _ Hr H), !spec_read_ok, sget_sput_other by exact Hne. reflexivity.
Qed.

Theorem failed_write_inert m n c m' : reachable m ->
  write m (components n) c = (false, m') -> m' = m.
Proof. intros Hr H. eapply write_fail_same; eauto using reachable_inv. Qed.

Theorem write_succeeds_iff m n c : reachable m ->
  fst (write m (components n) c) = negb (collides (components n) (files m)).
Proof. intro Hr. apply write_ok_iff; [apply reachable_inv; exact Hr | apply components_nonempty]. Qed.

Theorem read_stored m n c : reachable m ->
  (read m (components n) = ROk c <-> sget (components n) (files m) = Some c).
Proof.
  intro Hr. rewrite (read_spec _ _ (reachable_inv _ Hr) (components_nonempty n)). apply spec_read_ok.
Qed.

(* every absent object reports not-exist, colliding names included *)
Theorem read_absent_not_exist m n : reachable m ->
  sget (components n) (files m) = None -> read m (components n) = RNotExist.
Proof.
  intros Hr Hs. rewrite (read_spec _ _ (reachable_inv _ Hr) (components_nonempty n)).
  unfold spec_read, spec_read_strict. rewrite Hs. reflexivity.
Qed.

Lemma sorted_strongly {V} (l : list (path * V)) : sorted path_cmp l ->
  StronglySorted (fun a b => path_cmp a b = Lt) (keys l).
Proof.
  induction l as [|[k v] l IH]; simpl; intro H; [constructor|].
  destruct H as [H1 H2]. constructor; [auto|]. apply Forall_forall. exact H1.
Qed.

Theorem list_prefix_exact m pre : reachable m ->
  list_names m pre = listing false (files m) pre /\
  (deviating (files m) (OList pre) = false ->
   list_names m pre = filter (fun n => has_prefix n pre) (map (fun kv => join_path (fst kv)) (files m))) /\
  StronglySorted (fun a b => path_cmp a b = Lt) (keys (files m)) /\
  NoDup (keys (files m)).
Proof.
  intro Hr. pose proof (reachable_inv _ Hr) as Hinv. split; [reflexivity|]. split.
  - intro H. unfold list_names. simpl in H. rewrite <- (listing_strict _ _ H). apply listing_true.
  - split; [apply sorted_strongly; apply files_sorted; exact Hinv|].
    apply (sorted_keys_nodup _ _ _ path_cmp_ok). apply files_sorted. exact Hinv.
Qed.

(* --------------------------------------------------- splitting and joining *)
Lemma split_byte_nosep : forall s c, ~ In c s -> split_byte s c = [s].
Proof.
  induction s as [|x s IH]; intros c H; simpl; [reflexivity|].
  rewrite IH by (intro; apply H; right; assumption).
  destruct (N.eqb_spec x c) as [->|_]; [exfalso; apply H; left; reflexivity | reflexivity].
Qed.

Lemma split_byte_app : forall a c rest, ~ In c a ->
  split_byte (a ++ c :: rest) c = a :: split_byte rest c.
Proof.
  induction a as [|x a IH]; intros c rest H; simpl.
  - destruct (split_byte rest c) as [|h t] eqn:E; [exfalso; eapply split_byte_nonempty; eauto|].
    rewrite N.eqb_refl. reflexivity.
  - rewrite IH by (intro; apply H; right; assumption).
    destruct (N.eqb_spec x c) as [->|_]; [exfalso; apply H; left; reflexivity | reflexivity].
Qed.

Lemma split_byte_pieces : forall s c x, In x (split_byte s c) -> ~ In c x.
Proof.
  induction s as [|a s IH]; intros c x; simpl.
  - intros [<-|[]] [].
  - pose proof (IH c) as IHc. destruct (split_byte s c) as [|h t] eqn:E.
    + exfalso. eapply split_byte_nonempty; eauto.
    + destruct (N.eqb_spec a c) as [->|Hne].
      * intros [<-|Hin]; [intros [] | apply IHc; exact Hin].
      * intros [<-|Hin].
        -- intros [->|Hin2]; [contradiction | apply (IHc h (or_introl eq_refl)); exact Hin2].
        -- apply IHc. right. exact Hin.
Qed.

Lemma split_join : forall l c, l <> [] -> (forall x, In x l -> ~ In c x) ->
  split_byte (join l [c]) c = l.
Proof.
  induction l as [|a l IH]; intros c Hne H; [contradiction|].
  destruct l as [|b l].
  - simpl. apply split_byte_nosep. apply H. left; reflexivity.
  - rewrite join_cons2. change ([c] ++ join (b :: l) [c]) with (c :: join (b :: l) [c]).
    rewrite split_byte_app by (apply H; left; reflexivity).
    rewrite IH; [reflexivity | discriminate | intros x Hx; apply H; right; exact Hx].
Qed.

Lemma join_components n : join_path (components n) = n.
Proof. apply join_split_byte. Qed.

(* ---------------------------------------------------- confinement of names *)
Lemma clean_rel_ok : forall cs stack, forallb comp_ok cs = true ->
  clean_rel stack cs = Inside (rev stack ++ cs).
Proof.
  induction cs as [|c cs IH]; intros stack H; simpl in *.
  - rewrite app_nil_r. reflexivity.
  - apply andb_true_iff in H as [Hc H]. unfold comp_ok in Hc.
    apply andb_true_iff in Hc as [Hc H3]. apply andb_true_iff in Hc as [H1 H2].
    apply negb_true_iff in H1, H2, H3. rewrite H1, H2, H3. simpl.
    rewrite (IH _ H). simpl. rewrite <- app_assoc. reflexivity.
Qed.

Theorem name_resolves_inside n : name_ok n = true -> resolve n = Inside (components n).
Proof. intro H. unfold resolve. rewrite (clean_rel_ok _ [] H). reflexivity. Qed.

Lemma comp_ok_long c : (2 < length c)%nat -> comp_ok c = true.
Proof.
  destruct c as [|a [|b [|d c]]]; simpl; try lia. intros _.
  unfold comp_ok, dot, dotdot. simpl. rewrite !andb_false_r. reflexivity.
Qed.

Lemma utf8_ascii : forall s, forallb (fun c => c <? 128) s = true -> utf8_valid s = true.
Proof.
  induction s as [|a s IH]; simpl; [reflexivity|]. intro H.
  apply andb_true_iff in H as [H1 H2]. rewrite H1. auto.
Qed.

Lemma parse_fixed_digits w s z : parse_fixed w s = Some z -> all_digits s = true.
Proof.
  unfold parse_fixed. destruct (Nat.eqb (length s) w && all_digits s) eqn:E; [|discriminate].
  apply andb_true_iff in E as [_ E]. intros _. exact E.
Qed.

Definition date_char (c : N) : bool := is_digit c || N.eqb c 45.

Lemma parse_date_chars s d : parse_date s = Some d ->
  length s = 10%nat /\ forallb date_char s = true.
Proof.
  unfold parse_date. destruct (Nat.eqb (length s) 10) eqn:El; [|discriminate].
  apply Nat.eqb_eq in El.
  destruct s as [|a0 [|a1 [|a2 [|a3 [|a4 [|a5 [|a6 [|a7 [|a8 [|a9 [|x xs]]]]]]]]]]];
    simpl in El; try lia.
  destruct (parse_fixed 4 (sub [a0; a1; a2; a3; a4; a5; a6; a7; a8; a9] 0 4)) eqn:E1; [|discriminate].
  destruct (parse_fixed 2 (sub [a0; a1; a2; a3; a4; a5; a6; a7; a8; a9] 5 2)) eqn:E2; [|discriminate].
  destruct (parse_fixed 2 (sub [a0; a1; a2; a3; a4; a5; a6; a7; a8; a9] 8 2)) eqn:E3; [|discriminate].
  apply parse_fixed_digits in E1, E2, E3.
  cbv [sub firstn skipn all_digits forallb] in E1, E2, E3.
  cbv [nth_byte nth].
  destruct (N.eqb a4 dash && N.eqb a7 dash && valid_civil z z0 z1) eqn:E4; [|discriminate].
  intros _. split; [reflexivity|].
  apply andb_true_iff in E4 as [E4 _]. apply andb_true_iff in E4 as [E4 E7].
  unfold dash in *.
  repeat (apply andb_true_iff in E1 as [? E1]). repeat (apply andb_true_iff in E2 as [? E2]).
  repeat (apply andb_true_iff in E3 as [? E3]).
  cbv [forallb date_char].
  repeat match goal with H : is_digit _ = true |- _ => rewrite H; clear H end.
  rewrite E4, E7. simpl. rewrite !orb_true_r. reflexivity.
Qed.

Lemma date_char_facts c : date_char c = true -> c <> slash /\ (c <? 128) = true.
Proof.
  unfold date_char, is_digit, slash. rewrite orb_true_iff, andb_true_iff, N.eqb_eq, !N.leb_le, N.ltb_lt. lia.
Qed.

Lemma g_char_facts c : g_char c = true -> c <> slash /\ (c <? 128) = true.
Proof.
  unfold g_char, is_digit, slash.
  rewrite !orb_true_iff, andb_true_iff, !N.eqb_eq, !N.leb_le, N.ltb_lt. lia.
Qed.

Lemma forallb_no_slash (f : N -> bool) s :
  (forall c, f c = true -> c <> slash /\ (c <? 128) = true) -> forallb f s = true ->
  ~ In slash s /\ forallb (fun c => c <? 128) s = true.
Proof.
  intros Hf. induction s as [|a s IH]; simpl; intro H; [split; [intros []|reflexivity]|].
  apply andb_true_iff in H as [H1 H2]. destruct (Hf _ H1) as [Ha Hb]. destruct (IH H2) as [I1 I2].
  split; [intros [E|E]; [congruence|contradiction] | rewrite Hb, I2; reflexivity].
Qed.

Lemma json_ext_no_slash : ~ In slash json_ext.
Proof. unfold json_ext, slash. simpl. intros [H|[H|[H|[H|[H|[]]]]]]; discriminate. Qed.

(* a good object name: ordinary components, resolves to exactly these
   components below the bucket directory, and is found by the directory walk *)
Definition good_name (n : bytes) : Prop :=
  name_ok n = true /\ resolve n = Inside (components n) /\ walkable (components n) = true.

Lemma good_single n : ~ In slash n -> (2 < length n)%nat -> good_name n.
Proof.
  intros Hs Hl. assert (Hc : components n = [n]) by (apply split_byte_nosep; exact Hs).
  assert (Hok : name_ok n = true).
  { unfold name_ok. rewrite Hc. simpl. rewrite (comp_ok_long _ Hl). reflexivity. }
  split; [exact Hok|]. split; [apply name_resolves_inside; exact Hok|].
  rewrite Hc. reflexivity.
Qed.

Theorem upload_name_good week xs d : parse_date week = Some d -> g_string xs = true ->
  components (upload_name week xs) = [week; xs ++ json_ext] /\ good_name (upload_name week xs).
Proof.
  intros Hw Hx. destruct (parse_date_chars _ _ Hw) as [Hl Hc].
  destruct (forallb_no_slash _ _ date_char_facts Hc) as [Hws Hwa].
  unfold g_string in Hx. apply andb_true_iff in Hx as [_ Hx].
  destruct (forallb_no_slash _ _ g_char_facts Hx) as [Hxs _].
  assert (Hcomp : components (upload_name week xs) = [week; xs ++ json_ext]).
  { unfold components, upload_name. simpl app. rewrite split_byte_app by exact Hws.
    rewrite split_byte_nosep; [reflexivity|].
    intro Hin. apply in_app_or in Hin as [Hin|Hin]; [contradiction | apply json_ext_no_slash; exact Hin]. }
  split; [exact Hcomp|].
  assert (Hok : name_ok (upload_name week xs) = true).
  { unfold name_ok. rewrite Hcomp. simpl. rewrite !comp_ok_long; [reflexivity| |].
    - rewrite app_length. simpl. lia.
    - rewrite Hl. lia. }
  split; [exact Hok|]. split; [apply name_resolves_inside; exact Hok|].
  rewrite Hcomp. unfold walkable. simpl. rewrite (utf8_ascii _ Hwa). reflexivity.
Qed.

Theorem merge_name_good date d : parse_date date = Some d -> good_name (merge_name date).
Proof.
  intro Hw. destruct (parse_date_chars _ _ Hw) as [Hl Hc].
  destruct (forallb_no_slash _ _ date_char_facts Hc) as [Hws _].
  apply good_single.
  - unfold merge_name. intro Hin. apply in_app_or in Hin as [Hin|Hin]; [contradiction | apply json_ext_no_slash; exact Hin].
  - unfold merge_name. rewrite app_length, Hl. lia.
Qed.

(* the date rendering consists of digits and dashes, for every day number
   (no calendar reasoning needed) *)
Lemma is_digit_48 n : n < 10 -> is_digit (48 + n) = true.
Proof. intro H. unfold is_digit. rewrite andb_true_iff, !N.leb_le. lia. Qed.

Lemma dec_digits_digits : forall fuel n acc, forallb is_digit acc = true ->
  forallb is_digit (dec_digits fuel n acc) = true.
Proof.
  induction fuel as [|f IH]; intros n acc H; cbn [dec_digits]; [exact H|].
  destruct (N.ltb_spec n 10).
  - cbn [forallb]. rewrite is_digit_48 by assumption. exact H.
  - apply IH. cbn [forallb]. rewrite is_digit_48, H; [reflexivity|]. apply N.mod_lt. discriminate.
Qed.

Lemma pad_left_aux_digits : forall k s, forallb is_digit s = true -> forallb is_digit (pad_left_aux k s) = true.
Proof. induction k as [|k IH]; intros s H; simpl; auto. Qed.

Lemma pad_left_aux_length : forall k (s : bytes), length (pad_left_aux k s) = (k + length s)%nat.
Proof. induction k as [|k IH]; intros s; simpl; [reflexivity|]. rewrite IH. reflexivity. Qed.

Lemma dec_pad_digits w n : forallb is_digit (dec_pad w n) = true.
Proof.
  unfold dec_pad, pad_left, dec_of_N. apply pad_left_aux_digits. apply dec_digits_digits. reflexivity.
Qed.

Lemma dec_pad_length w n : (w <= length (dec_pad w n))%nat.
Proof. unfold dec_pad, pad_left. rewrite pad_left_aux_length. lia. Qed.

Lemma forallb_app {A} (f : A -> bool) l1 l2 : forallb f (l1 ++ l2) = forallb f l1 && forallb f l2.
Proof. induction l1 as [|a l1 IH]; simpl; [reflexivity|]. rewrite IH, andb_assoc. reflexivity. Qed.

Lemma digits_date_chars s : forallb is_digit s = true -> forallb date_char s = true.
Proof.
  induction s as [|a s IH]; simpl; [reflexivity|]. intro H. apply andb_true_iff in H as [H1 H2].
  unfold date_char at 1. rewrite H1, IH by exact H2. reflexivity.
Qed.

Lemma fmt_date_chars day : forallb date_char (fmt_date day) = true /\ (2 < length (fmt_date day))%nat.
Proof.
  unfold fmt_date. destruct (civil_from_days day) as [[y m] d]. unfold fmt_ymd. split.
  - rewrite !forallb_app. rewrite !(digits_date_chars _ (dec_pad_digits _ _)). reflexivity.
  - rewrite app_length. pose proof (dec_pad_length 4 (Z.to_N y)). lia.
Qed.

Lemma fmt_date_no_slash day : ~ In slash (fmt_date day) /\ (2 < length (fmt_date day))%nat.
Proof.
  destruct (fmt_date_chars day) as [Hc Hl].
  destruct (forallb_no_slash _ _ date_char_facts Hc) as [Hs _]. auto.
Qed.

Theorem chart_name_good s e : good_name (chart_name s e).
Proof.
  destruct (fmt_date_no_slash s) as [S1 S2]. destruct (fmt_date_no_slash e) as [E1 E2].
  unfold chart_name. destruct (Z.eqb s e).
  - apply good_single.
    + intro Hin. apply in_app_or in Hin as [Hin|Hin]; [contradiction | apply json_ext_no_slash; exact Hin].
    + rewrite app_length. lia.
  - apply good_single.
    + intro Hin. apply in_app_or in Hin as [Hin|Hin]; [contradiction|].
      simpl in Hin. destruct Hin as [Hin|Hin]; [discriminate|].
      apply in_app_or in Hin as [Hin|Hin]; [contradiction | apply json_ext_no_slash; exact Hin].
    + rewrite app_length. lia.
Qed.

(* ------------------------- stored paths are images of names (no '/' inside) *)
Definition noslash (k : path) : Prop := forall c, In c k -> ~ In slash c.
Definition canon (m : fs) : Prop := forall k e, fget k m = Some e -> noslash k.

Lemma canon_init : canon fs_init.
Proof.
  intros k e H. destruct k as [|x k]; [intros c []|]. simpl in H. discriminate.
Qed.

Lemma noslash_components n : noslash (components n).
Proof. intros c Hin. eapply split_byte_pieces; eauto. Qed.

Lemma noslash_pp q p : pp q p -> noslash p -> noslash q.
Proof. intros [x [r ->]] H c Hin. apply H. apply in_or_app. left; exact Hin. Qed.

Lemma write_canon m n c : inv m -> canon m -> canon (snd (write m (components n) c)).
Proof.
  intros Hinv Hc. destruct (write m (components n) c) as [[|] m'] eqn:E; simpl.
  - destruct (write_ok_get _ _ _ _ E) as [_ [_ [_ Hget]]].
    intros k e Hk. rewrite Hget in Hk.
    destruct (path_eq_dec k (components n)) as [->|_]; [apply noslash_components|].
    destruct (in_dec path_eq_dec k (parents (components n))) as [Hin|_]; [|eapply Hc; eauto].
    apply in_parents in Hin as [_ Hin]. eapply noslash_pp; eauto. apply noslash_components.
  - apply (write_fail_same _ _ _ _ Hinv) in E. subst m'. exact Hc.
Qed.

Lemma step_canon m o : inv m -> canon m -> canon (snd (step_fs m o)).
Proof.
  intros Hinv Hc. destruct o as [n c|n|pre|d sr]; simpl; try exact Hc.
  - pose proof (write_canon m n c Hinv Hc) as H.
    destruct (write m (components n) c) as [ok m']. exact H.
  - unfold copy. destruct (read m (components sr)) as [c| | |]; simpl; try exact Hc.
    destruct (same_path (components d) (components sr)); simpl; [exact Hc|].
    pose proof (write_canon m d c Hinv Hc) as H.
    destruct (write m (components d) c) as [ok m']. exact H.
Qed.

Lemma run_canon : forall ops m, inv m -> canon m -> canon (snd (run_fs m ops)).
Proof.
  induction ops as [|o ops IH]; intros m Hinv Hc; simpl; [exact Hc|].
  pose proof (step_canon m o Hinv Hc) as Hc1.
  destruct (step_refines m o Hinv) as [_ [Hinv1 _]].
  destruct (step_fs m o) as [r m1]. simpl in *.
  specialize (IH m1 Hinv1 Hc1). destruct (run_fs m1 ops) as [rs m2]. exact IH.
Qed.

Lemma reachable_canon m : reachable m -> canon m.
Proof. intros [ops <-]. apply run_canon; [exact inv_init | exact canon_init]. Qed.

Theorem list_member m pre n : reachable m ->
  (In n (listing true (files m) pre) <->
   has_prefix n pre = true /\ exists c, sget (components n) (files m) = Some c).
Proof.
  intro Hr. pose proof (reachable_inv _ Hr) as Hinv. pose proof (reachable_canon _ Hr) as Hc.
  rewrite listing_true, filter_In, in_map_iff. split.
  - intros [[[k c] [Hj Hin]] Hp]. simpl in Hj. split; [exact Hp|]. exists c.
    pose proof Hin as Hg. apply (in_files _ _ _ Hinv) in Hg.
    assert (Hk : k <> []) by (intros ->; rewrite (inv_root _ Hinv) in Hg; discriminate).
    assert (Hcomp : components n = k).
    { rewrite <- Hj. unfold components, join_path. apply split_join; [exact Hk|]. eapply Hc; eauto. }
    rewrite Hcomp. apply (in_get _ _ _ path_cmp_ok _ _ _ (files_sorted _ Hinv)). exact Hin.
  - intros [Hp [c Hs]]. split; [|exact Hp].
    exists (components n, c). split; [apply join_components|].
    apply (get_in _ _ _ path_cmp_ok). exact Hs.
Qed.

(* counter-examples (the two deviations) *)
Definition ops_read_dir : list op := [OWrite [97; 47; 98] [1]; ORead [97]; OWrite [99] [2]; ORead [99; 47; 100]].
Definition ops_list_nonutf8 : list op := [OWrite [128; 47; 120] [1]; OList []].

(* the former deviation, now an instance of the positive theorem *)
Lemma read_colliding_example :
  forallb op_ok ops_read_dir = true /\
  fst (run_fs fs_init ops_read_dir) = [RW true; RR RNotExist; RW true; RR RNotExist].
Proof. vm_compute. auto. Qed.

Lemma list_exact_refuted :
  forallb op_ok ops_list_nonutf8 = true /\
  fst (run_spec true [] ops_list_nonutf8) = [RW true; RL [[128; 47; 120]]] /\
  fst (run_fs fs_init ops_list_nonutf8) = [RW true; RL []].
Proof. vm_compute. auto. Qed.

(* when every written name is walkable (all directory components valid
   UTF-8, as for the names the services build) no listing deviates *)
Lemma in_put_inv {V} k (v : V) : forall m kv, In kv (put path_cmp k v m) -> kv = (k, v) \/ In kv m.
Proof.
  induction m as [|[k0 v0] m IH]; intros kv; simpl.
  - intros [<-|[]]. auto.
  - destruct (path_cmp k k0); simpl.
    + intros [<-|H]; auto.
    + intros [<-|H]; auto.
    + intros [<-|H]; auto. destruct (IH _ H); auto.
Qed.

Definition all_walkable (s : smap) : Prop := forall kv, In kv s -> walkable (fst kv) = true.

Lemma all_walkable_no_dev s pre : all_walkable s -> deviating s (OList pre) = false.
Proof.
  intro H. simpl. destruct (existsb _ s) eqn:E; [|reflexivity].
  apply existsb_exists in E as [kv [Hin Hb]]. rewrite (H _ Hin), andb_false_r in Hb. discriminate.
Qed.

(* the name an operation stores under, if any *)
Definition writes_to (o : op) : option bytes :=
  match o with OWrite n _ => Some n | OCopy d _ => Some d | _ => None end.

Lemma spec_write_walkable s p c : all_walkable s -> walkable p = true ->
  all_walkable (snd (spec_write s p c)).
Proof.
  intros Hs Hp. unfold spec_write. destruct (collides p s); simpl; [exact Hs|].
  intros kv Hin. apply in_put_inv in Hin as [->|Hin]; [exact Hp | auto].
Qed.

Lemma run_spec_walkable b : forall ops s, all_walkable s ->
  (forall o n, In o ops -> writes_to o = Some n -> walkable (components n) = true) ->
  all_walkable (snd (run_spec b s ops)).
Proof.
  induction ops as [|o ops IH]; intros s Hs Hw; simpl; [exact Hs|].
  assert (Hs1 : all_walkable (snd (step_spec b s o))).
  { destruct o as [n c|n|pre|d sr]; simpl; try exact Hs.
    - pose proof (spec_write_walkable s (components n) c Hs (Hw _ n (or_introl eq_refl) eq_refl)) as H.
      destruct (spec_write s (components n) c). exact H.
    - unfold spec_copy. destruct (sget (components sr) s) as [c|]; simpl; [|exact Hs].
      destruct (same_path (components d) (components sr)); simpl; [exact Hs|].
      pose proof (spec_write_walkable s (components d) c Hs (Hw _ d (or_introl eq_refl) eq_refl)) as H.
      destruct (spec_write s (components d) c). exact H. }
  destruct (step_spec b s o) as [r s1]. simpl in Hs1.
  specialize (IH s1 Hs1 (fun o' n H => Hw o' n (or_intror H))).
  destruct (run_spec b s1 ops) as [rs s2]. exact IH.
Qed.

Theorem walkable_list_exact ops pre :
  (forall o n, In o ops -> writes_to o = Some n -> walkable (components n) = true) ->
  let m := snd (run_fs fs_init ops) in
  list_names m pre = filter (fun n => has_prefix n pre) (map (fun kv => join_path (fst kv)) (files m)).
Proof.
  intros Hw m. assert (Hr : reachable m) by (exists ops; reflexivity).
  apply (list_prefix_exact m pre Hr). apply all_walkable_no_dev.
  unfold m. rewrite refinement_state. apply run_spec_walkable; [intros ? []|exact Hw].
Qed.

(* ------------------------------------------------------------------- Copy *)
(* Copy(dst, src) between different names is write(dst, read(src)): the
   destination then reads as the source did, the source and every other
   object read as before; the two objects are independent afterwards (a later
   write to one does not change the other: write_frame). *)
Theorem copy_is_write_of_read m d sr : reachable m -> components d <> components sr ->
  copy m (components d) (components sr) =
    match read m (components sr) with
    | ROk c => write m (components d) c
    | _ => (false, m)
    end.
Proof.
  intros _ Hne. unfold copy. destruct (read m (components sr)); try reflexivity.
  destruct (same_path (components d) (components sr)) eqn:E; [|reflexivity].
  apply same_path_spec in E. contradiction.
Qed.

Lemma run_fs_snoc : forall a b m0, snd (run_fs m0 (a ++ b)) = snd (run_fs (snd (run_fs m0 a)) b).
Proof.
  induction a as [|o a IH]; intros b m0; simpl; [reflexivity|].
  destruct (step_fs m0 o) as [r m1]. specialize (IH b m1).
  destruct (run_fs m1 (a ++ b)) as [rs m2]. destruct (run_fs m1 a) as [rs' m3]. exact IH.
Qed.

Theorem copy_read m d sr m' : reachable m -> components d <> components sr ->
  copy m (components d) (components sr) = (true, m') ->
  reachable m' /\
  exists c, read m (components sr) = ROk c /\ read m' (components d) = ROk c /\ read m' (components sr) = ROk c /\
  forall n c2, components n <> components d ->
    (read m' (components n) = ROk c2 <-> read m (components n) = ROk c2).
Proof.
  intros Hr Hne H. pose proof H as Hcopy. rewrite (copy_is_write_of_read _ _ _ Hr Hne) in H.
  destruct (read m (components sr)) as [c| | |] eqn:Er; try discriminate.
  split.
  - destruct Hr as [ops <-]. exists (ops ++ [OCopy d sr]).
    rewrite run_fs_snoc. simpl. rewrite Hcopy. reflexivity.
  - exists c. split; [reflexivity|]. split; [eapply write_read; eauto|]. split.
    + apply (write_frame m d c m' sr c Hr H); [congruence | exact Er].
    + intros n c2 Hn. apply (write_frame m d c m' n c2 Hr H Hn).
Qed.

(* copying an object onto itself keeps its content and the whole tree (fix
   11cc580); an absent object cannot be copied *)
Theorem copy_self_keeps_content m o : reachable m ->
  (forall c, read m (components o) = ROk c -> copy m (components o) (components o) = (true, m)) /\
  (sget (components o) (files m) = None -> copy m (components o) (components o) = (false, m)).
Proof.
  intro Hr. unfold copy. split.
  - intros c H. rewrite H. rewrite (proj2 (same_path_spec _ _) eq_refl). reflexivity.
  - intro H. rewrite (read_absent_not_exist m o Hr H). reflexivity.
Qed.

Definition ops_copy_self : list op := [OWrite [97] [1; 2; 3]; OCopy [97] [97]; ORead [97]; OCopy [98] [98]].
Lemma copy_self_example :
  forallb op_ok ops_copy_self = true /\
  fst (run_fs fs_init ops_copy_self) = [RW true; RC true; RR (ROk [1; 2; 3]); RC false].
Proof. vm_compute. auto. Qed.

(* ------------------------------------------------------ writers as handles *)
Lemma append_refines m p data : inv m -> p <> [] ->
  fst (append m p data) = fst (spec_append (files m) p data) /\
  inv (snd (append m p data)) /\
  files (snd (append m p data)) = snd (spec_append (files m) p data).
Proof.
  intros Hinv Hp. unfold append, spec_append. rewrite (read_sget _ _ Hinv Hp).
  destruct (sget p (files m)) as [c|]; simpl; [|auto]. apply write_refines; assumption.
Qed.

Lemma step_w_refines m hs o : inv m ->
  fst (step_w (m, hs) o) = fst (step_w_spec false (files m, hs) o) /\
  inv (fst (snd (step_w (m, hs) o))) /\
  files (fst (snd (step_w (m, hs) o))) = fst (snd (step_w_spec false (files m, hs) o)) /\
  snd (snd (step_w (m, hs) o)) = snd (snd (step_w_spec false (files m, hs) o)).
Proof.
  intro Hinv. destruct o as [o|n|k data|k]; simpl.
  - destruct (step_refines m o Hinv) as [H1 [H2 H3]].
    destruct (step_fs m o) as [r m']. destruct (step_spec false (files m) o) as [r' s']. simpl in *. subst. auto.
  - destruct (write_refines m (components n) [] Hinv (components_nonempty n)) as [H1 [H2 H3]].
    destruct (write m (components n) []) as [ok m']. destruct (spec_write (files m) (components n) []) as [ok' s'].
    simpl in *. subst. auto.
  - destruct (nth_error hs k) as [h|]; simpl; [|auto].
    destruct (h_open h); simpl; [|auto].
    destruct (append_refines m (components (h_name h)) data Hinv (components_nonempty _)) as [H1 [H2 H3]].
    destruct (append m (components (h_name h)) data) as [ok m'].
    destruct (spec_append (files m) (components (h_name h)) data) as [ok' s']. simpl in *. subst. auto.
  - destruct (nth_error hs k) as [h|]; simpl; auto.
Qed.

Theorem run_w_refines : forall ops m hs, inv m ->
  fst (run_w (m, hs) ops) = fst (run_w_spec false (files m, hs) ops) /\
  files (fst (snd (run_w (m, hs) ops))) = fst (snd (run_w_spec false (files m, hs) ops)).
Proof.
  induction ops as [|o ops IH]; intros m hs Hinv; [simpl; auto|].
  cbn [run_w run_w_spec].
  destruct (step_w_refines m hs o Hinv) as [H1 [H2 [H3 H4]]].
  destruct (step_w (m, hs) o) as [r [m1 hs1]]. destruct (step_w_spec false (files m, hs) o) as [r' [s1 hs1']].
  cbn [fst snd] in *. subst r' s1 hs1'.
  destruct (IH m1 hs1 H2) as [G1 G2].
  destruct (run_w (m1, hs1) ops) as [rs st2]. destruct (run_w_spec false _ ops) as [rs' st2'].
  cbn [fst snd] in *. subst rs'. split; [reflexivity | exact G2].
Qed.

Theorem writers_refinement ops :
  fst (run_w (fs_init, []) ops) = fst (run_w_spec false ([], []) ops) /\
  files (fst (snd (run_w (fs_init, []) ops))) = fst (snd (run_w_spec false ([], []) ops)).
Proof. apply (run_w_refines ops fs_init [] inv_init). Qed.

(* the specification of a stream of writes is a map: an open writer's object
   holds exactly the bytes written through it so far, whatever was written to
   OTHER objects in between *)
Lemma spec_append_laws s p c data : sget p s = Some c -> collides p s = false ->
  spec_append s p data = (true, sput p (c ++ data) s) /\
  forall q, q <> p -> sget q (sput p (c ++ data) s) = sget q s.
Proof.
  intros Hg Hc. unfold spec_append, spec_write. rewrite Hg, Hc. split; [reflexivity|].
  intros q Hq. apply sget_sput_other. exact Hq.
Qed.

(* two writers open at the same time on different objects, one of them
   closed twice before (as the service handlers do) *)
Definition ops_two_writers : list wop :=
  [WOpen [120]; WWrite 0 [1]; WClose 0; WClose 0;
   WOpen [97]; WOpen [98]; WWrite 1 [1; 2]; WWrite 2 [3]; WWrite 1 [4]; WClose 1; WClose 2; WClose 2;
   WPlain (ORead [97]); WPlain (ORead [98]); WWrite 1 [5]].
Lemma two_writers_example :
  fst (run_w (fs_init, []) ops_two_writers) =
  [WOk true; WOk true; WOk true; WOk false;
   WOk true; WOk true; WOk true; WOk true; WOk true; WOk true; WOk true; WOk false;
   WR (RR (ROk [1; 2; 4])); WR (RR (ROk [3])); WOk false].
Proof. vm_compute. reflexivity. Qed.

(* ----------------------------------------- listings under a done context *)
Lemma names_eqb_refl : forall a, names_eqb a a = true.
Proof. induction a as [|x a IH]; simpl; [reflexivity|]. rewrite beq_refl. exact IH. Qed.

Theorem listing_complete_or_error m pre ctx_done : reachable m ->
  deviating (files m) (OList pre) = false ->
  list_ctx ctx_done m pre = (false, filter (fun n => has_prefix n pre) (map (fun kv => join_path (fst kv)) (files m))) /\
  listing_ok (filter (fun n => has_prefix n pre) (map (fun kv => join_path (fst kv)) (files m)))
             (list_ctx ctx_done m pre) = true.
Proof.
  intros Hr Hd. destruct (list_prefix_exact m pre Hr) as [_ [H _]]. specialize (H Hd).
  unfold list_ctx, listing_ok. rewrite H. simpl. split; [reflexivity | apply names_eqb_refl].
Qed.

(* ------------------------------------------------- several buckets at once *)
Lemma bid_eqb_spec a b : bid_eqb a b = true <-> a = b.
Proof.
  destruct a as [a1 a2], b as [b1 b2]. unfold bid_eqb. simpl.
  rewrite andb_true_iff, !N.eqb_eq. split; [intros [-> ->]; reflexivity | intro H; injection H; auto].
Qed.

(* non-interference: in any interleaving, what a bucket answers and holds is
   what it would answer and hold if its own operations were run alone *)
Theorem world_independent : forall ops w b,
  proj_res b (fst (run_world w ops)) = fst (run_fs (w b) (proj_ops b ops)) /\
  snd (run_world w ops) b = snd (run_fs (w b) (proj_ops b ops)).
Proof.
  induction ops as [|[b0 o] ops IH]; intros w b; simpl; [auto|].
  unfold step_world. simpl.
  destruct (step_fs (w b0) o) as [r m'] eqn:Es.
  specialize (IH (wput b0 m' w) b).
  destruct (run_world (wput b0 m' w) ops) as [rs w''] eqn:Er. simpl in *.
  unfold proj_ops, proj_res in *. simpl.
  destruct (bid_eqb b0 b) eqn:Eb; simpl.
  - apply bid_eqb_spec in Eb. subst b0. rewrite Es.
    unfold wput in IH at 1 2. rewrite (proj2 (bid_eqb_spec b b) eq_refl) in IH.
    destruct IH as [I1 I2].
    destruct (run_fs m' (map snd (filter (fun bo => bid_eqb (fst bo) b) ops))) as [rs2 m2]. simpl in *.
    rewrite I1. auto.
  - unfold wput in IH at 1 2.
    assert (Eb' : bid_eqb b b0 = false).
    { destruct (bid_eqb b b0) eqn:E; [|reflexivity]. apply bid_eqb_spec in E. subst.
      rewrite (proj2 (bid_eqb_spec b0 b0) eq_refl) in Eb. discriminate. }
    rewrite Eb' in IH. exact IH.
Qed.

Theorem world_bucket_refines ops b :
  proj_res b (fst (run_world world_init ops)) = fst (run_spec false [] (proj_ops b ops)) /\
  files (snd (run_world world_init ops) b) = snd (run_spec false [] (proj_ops b ops)).
Proof.
  destruct (world_independent ops world_init b) as [H1 H2]. rewrite H1, H2. unfold world_init.
  split; [apply refinement | apply refinement_state].
Qed.

(* ------------------------------------------ statements as used by Props/C18 *)
Lemma spec_map_laws s p c :
  (forall s', spec_write s p c = (true, s') ->
     spec_read_strict s' p = ROk c /\
     forall q, q <> p -> spec_read_strict s' q = spec_read_strict s q) /\
  (forall s', spec_write s p c = (false, s') -> s' = s).
Proof.
  unfold spec_write. destruct (collides p s); split; intros s' H; try discriminate; injection H as <-.
  - reflexivity.
  - unfold spec_read_strict. rewrite sget_sput_same. split; [reflexivity|].
    intros q Hq. rewrite sget_sput_other by exact Hq. reflexivity.
Qed.

Lemma refinement_full ops : forallb op_ok ops = true ->
  fst (run_fs fs_init ops) = fst (run_spec false [] ops) /\
  files (snd (run_fs fs_init ops)) = snd (run_spec false [] ops).
Proof. intros _. split; [apply refinement | apply refinement_state]. Qed.

Lemma refinement_strict_full ops : forallb op_ok ops = true -> no_deviation [] ops = true ->
  fst (run_fs fs_init ops) = fst (run_spec true [] ops).
Proof. intros _. apply refinement_strict. Qed.

Lemma escape_example : resolve [46; 46; 47; 120] = Escapes /\ name_ok [46; 46; 47; 120] = false.
Proof. vm_compute. auto. Qed.

(* the walk order is component-wise: "a/b" is listed before "a-b" although
   '-' < '/' as bytes *)
Lemma walk_order_example :
  fst (run_fs fs_init [OWrite [97; 45; 98] []; OWrite [97; 47; 98] []; OList []]) =
  [RW true; RW true; RL [[97; 47; 98]; [97; 45; 98]]].
Proof. vm_compute. reflexivity. Qed.
