(* Proofs/WorkerOracle: the executable oracle chart_ok (what the runner
   evaluates on the implementation's chart object) is equivalent to the
   specification; compareSemver's tie-break makes a strict total order. *)
From Coq Require Import List NArith ZArith Bool Permutation Sorted Lia.
From Tele Require Import Lib.Bytes Lib.Calendar Lib.Sort Gen.Consts Model.Worker
  Proofs.WorkerFacts Proofs.WorkerSpec Proofs.WorkerChart.
Import ListNotations.

Lemma carries_spec p ch b : carries p ch b = true <-> In (ch, b) (prog_cells p).
Proof.
  unfold carries. rewrite existsb_exists. split.
  - intros [[c0 b0] [Hin H]]. cbn [fst snd] in H. apply andb_true_iff in H as [H1 H2].
    apply beq_eq in H1, H2. subst. exact Hin.
  - intro H. exists (ch, b). split; [exact H|]. cbn [fst snd]. rewrite !beq_refl. reflexivity.
Qed.

Lemma counts_for_spec pk q key r :
  counts_for pk (q_chart q) (q_buckets q) (q_norm q) key r = true <->
  exists p b, In p (r_progs r) /\ pr_prog p = pk /\ In b (q_buckets q) /\ q_norm q b = Some key /\
              In (q_chart q, b) (prog_cells p).
Proof.
  unfold counts_for. rewrite existsb_exists. split.
  - intros [p [Hp H]]. apply andb_true_iff in H as [H1 H2]. apply beq_eq in H1.
    apply existsb_exists in H2 as [b [Hb H2]]. apply andb_true_iff in H2 as [H2 H3].
    destruct (q_norm q b) as [k|] eqn:En; [|discriminate]. apply beq_eq in H2. subst k.
    apply carries_spec in H3. exists p, b. auto.
  - intros [p [b [Hp [Hpk [Hb [Hn Hc]]]]]]. exists p. split; [exact Hp|].
    apply andb_true_iff. split; [apply beq_eq; exact Hpk|].
    apply existsb_exists. exists b. split; [exact Hb|]. rewrite Hn, beq_refl. cbn [andb].
    apply carries_spec. exact Hc.
Qed.

Lemma spec_count_ids rs pk q key x :
  In x (nodup Z.eq_dec (map r_x (filter (counts_for pk (q_chart q) (q_buckets q) (q_norm q) key) rs)))
  <-> counted rs pk q key x.
Proof.
  rewrite nodup_In, in_map_iff. unfold counted. split.
  - intros [r [Hx Hr]]. apply filter_In in Hr as [Hr Hc]. apply counts_for_spec in Hc as [p [b Hc]].
    exists r, p, b. intuition.
  - intros [r [p [b [Hr [Hp [Hpk [Hb [Hn [Hc Hx]]]]]]]]]. exists r. split; [exact Hx|].
    apply filter_In. split; [exact Hr|]. apply counts_for_spec. exists p, b. auto.
Qed.

Lemma spec_count_is rs pk q key :
  count_is rs pk q key (spec_count rs pk (q_chart q) (q_buckets q) (q_norm q) key).
Proof.
  eexists. split; [apply NoDup_nodup|]. split; [apply spec_count_ids | reflexivity].
Qed.

Lemma spec_count_pos rs pk q key :
  (0 < spec_count rs pk (q_chart q) (q_buckets q) (q_norm q) key)%Z <-> exists x, counted rs pk q key x.
Proof.
  unfold spec_count. split.
  - intro H. destruct (nodup Z.eq_dec _) as [|x l] eqn:E; [cbn in H; lia|].
    exists x. apply spec_count_ids. rewrite E. left. reflexivity.
  - intros [x Hx]. apply spec_count_ids in Hx.
    destruct (nodup Z.eq_dec _) as [|y l]; [destruct Hx | cbn [length]; lia].
Qed.

Lemma max_week_is rs : is_max_week rs (max_week rs).
Proof.
  unfold max_week. fold (fold_end (map r_week (filter has_progs rs)) []).
  assert (Hin : forall w, In w (map r_week (filter has_progs rs)) <-> week_set rs w).
  { intro w. rewrite in_map_iff. unfold week_set. split.
    - intros [r [<- Hr]]. apply filter_In in Hr as [Hr Hp]. exists r. split; [exact Hr|]. split; [|reflexivity].
      unfold has_progs in Hp. destruct (r_progs r); [discriminate | discriminate].
    - intros [r [Hr [Hne <-]]]. exists r. split; [reflexivity|]. apply filter_In. split; [exact Hr|].
      unfold has_progs. destruct (r_progs r); [contradiction | reflexivity]. }
  destruct (fold_end_spec (map r_week (filter has_progs rs)) []) as [H1 [_ H3]]. split.
  - destruct H1 as [->|H1]; [left; reflexivity | right; apply Hin; exact H1].
  - intros w' Hw'. apply H3. apply Hin. exact Hw'.
Qed.

Lemma norm_keys_in q key : In key (norm_keys (q_norm q) (q_buckets q)) <-> key_of q key.
Proof.
  unfold norm_keys, key_of. rewrite in_flat_map. split.
  - intros [b [Hb H]]. exists b. split; [exact Hb|]. destruct (q_norm q b); [destruct H as [->|[]]; reflexivity | destruct H].
  - intros [b [Hb Hn]]. exists b. split; [exact Hb|]. rewrite Hn. left. reflexivity.
Qed.

Lemma counted_key_of rs pk q key x : counted rs pk q key x -> key_of q key.
Proof. intros [r [p [b [_ [_ [_ [Hb [Hn _]]]]]]]]. exists b. auto. Qed.

Lemma chart_nonempty_spec rs pk q :
  chart_nonempty rs pk (q_chart q) (q_buckets q) (q_norm q) = true <-> exists key x, counted rs pk q key x.
Proof.
  unfold chart_nonempty. rewrite existsb_exists. split.
  - intros [key [_ H]]. apply Z.ltb_lt in H. apply spec_count_pos in H as [x Hx]. exists key, x. exact Hx.
  - intros [key [x Hx]]. exists key. split; [apply norm_keys_in; eapply counted_key_of; eauto|].
    apply Z.ltb_lt. apply spec_count_pos. exists x. exact Hx.
Qed.

Lemma nodupb_spec l : nodupb l = true <-> NoDup l.
Proof.
  induction l as [|x l IH]; cbn [nodupb].
  - split; [constructor | reflexivity].
  - rewrite andb_true_iff, negb_true_iff, IH. split.
    + intros [H1 H2]. constructor; [|exact H2]. intro Hin. apply mem_b_In in Hin. congruence.
    + intro H. inversion H as [|? ? Hn Hl]; subst. split; [|exact Hl].
      destruct (mem_b x l) eqn:E; [apply mem_b_In in E; contradiction | reflexivity].
Qed.

Lemma pos_or_ignore v ig : ((0 <? v)%Z || negb ig) = true <-> ((0 < v)%Z \/ ig = false).
Proof.
  rewrite orb_true_iff, Z.ltb_lt, negb_true_iff. reflexivity.
Qed.

Theorem partition_ok_iff rs pk q oc : partition_ok rs pk q oc = true <-> partition_spec rs pk q oc.
Proof.
  destruct oc as [c|]; cbn [partition_ok partition_spec].
  - rewrite !andb_true_iff, !beq_eq, chart_nonempty_spec, nodupb_spec, wsortedb_spec, !forallb_forall.
    split.
    + intros [[[[[[[H1 H2] H3] H4] H5] H6] H7] H8].
      repeat (split; [assumption|]). split.
      * intros wk key v Hin. specialize (H7 _ Hin). cbn beta iota in H7.
        rewrite !andb_true_iff, beq_eq, mem_b_In, Z.eqb_eq, pos_or_ignore in H7.
        destruct H7 as [[[A1 A2] A3] A4]. subst wk v.
        split; [apply max_week_is|]. split; [apply norm_keys_in; exact A2|].
        split; [apply spec_count_is | exact A4].
      * intros key n Hko Hc Hpos. apply norm_keys_in in Hko. specialize (H8 _ Hko).
        apply orb_true_iff in H8 as [H8|H8]; [apply mem_b_In; exact H8|].
        exfalso. rewrite (count_is_fun _ _ _ _ _ _ Hc (spec_count_is rs pk q key)) in Hpos.
        apply pos_or_ignore in Hpos. rewrite Hpos in H8. discriminate.
    + intros [H1 [H2 [H3 [H4 [H5 [H6 [H7 H8]]]]]]].
      repeat split; try assumption.
      * intros [[wk key] v] Hin. destruct (H7 _ _ _ Hin) as [A1 [A2 [A3 A4]]].
        rewrite !andb_true_iff, beq_eq, mem_b_In, Z.eqb_eq, pos_or_ignore.
        split; [split; [split|]|].
        -- apply (is_max_week_fun rs); [exact A1 | apply max_week_is].
        -- apply norm_keys_in. exact A2.
        -- apply (count_is_fun _ _ _ _ _ _ A3 (spec_count_is rs pk q key)).
        -- exact A4.
      * intros key Hk. apply norm_keys_in in Hk.
        destruct ((0 <? spec_count rs pk (q_chart q) (q_buckets q) (q_norm q) key)%Z || negb (q_ignore q)) eqn:E.
        -- apply orb_true_iff. left. apply mem_b_In. apply (H8 key _ Hk (spec_count_is rs pk q key)).
           apply pos_or_ignore. exact E.
        -- apply orb_true_iff. right. reflexivity.
  - rewrite negb_true_iff. split.
    + intros H key x Hc. assert (E : chart_nonempty rs pk (q_chart q) (q_buckets q) (q_norm q) = true).
      { apply chart_nonempty_spec. exists key, x. exact Hc. }
      congruence.
    + intro H. destruct (chart_nonempty rs pk (q_chart q) (q_buckets q) (q_norm q)) eqn:E; [|reflexivity].
      apply chart_nonempty_spec in E as [key [x Hc]]. exfalso. exact (H key x Hc).
Qed.

Lemma reqs_ok_iff rs pk qs : forall cs, reqs_ok rs pk qs cs = true <-> reqs_spec rs pk qs cs.
Proof.
  unfold reqs_spec. induction qs as [|q qs IH]; intro cs; cbn [reqs_ok].
  - split.
    + intro H. destruct cs; [|discriminate]. exists []. split; [constructor | reflexivity].
    + intros [ocs [F ->]]. inversion F; subst. reflexivity.
  - destruct (chart_nonempty rs pk (q_chart q) (q_buckets q) (q_norm q)) eqn:En.
    + split.
      * intro H. destruct cs as [|c cs]; [discriminate|]. apply andb_true_iff in H as [H1 H2].
        apply partition_ok_iff in H1. apply IH in H2 as [ocs [F ->]].
        exists (Some c :: ocs). split; [constructor; assumption | reflexivity].
      * intros [ocs [F ->]]. inversion F as [|? oc ? ocs' S F']; subst.
        destruct oc as [c|].
        -- cbn [drop_none flat_map app]. apply andb_true_iff. split; [apply partition_ok_iff; exact S|].
           apply IH. exists ocs'. split; [exact F' | reflexivity].
        -- exfalso. cbn [partition_spec] in S. apply chart_nonempty_spec in En as [key [x Hc]]. exact (S key x Hc).
    + split.
      * intro H. apply IH in H as [ocs [F ->]]. exists (None :: ocs). split; [|reflexivity].
        constructor; [|exact F]. cbn [partition_spec]. intros key x Hc.
        assert (E : chart_nonempty rs pk (q_chart q) (q_buckets q) (q_norm q) = true)
          by (apply chart_nonempty_spec; exists key, x; exact Hc). congruence.
      * intros [ocs [F ->]]. inversion F as [|? oc ? ocs' S F']; subst.
        destruct oc as [c|].
        -- exfalso. cbn [partition_spec] in S. destruct S as [Hex _].
           apply chart_nonempty_spec in Hex. congruence.
        -- cbn [drop_none flat_map app]. apply IH. exists ocs'. split; [exact F' | reflexivity].
Qed.

Lemma programs_ok_iff lts ltg cfg rs ps : forall os,
  programs_ok lts ltg cfg rs ps os = true <-> programs_spec lts ltg cfg rs ps os.
Proof.
  unfold programs_spec. induction ps as [|p ps IH]; intros [|o os]; cbn [programs_ok].
  - split; [constructor | reflexivity].
  - split; [discriminate | intro F; inversion F].
  - split; [discriminate | intro F; inversion F].
  - rewrite !andb_true_iff, !beq_eq, reqs_ok_iff, IH. split.
    + intros [[[H1 H2] H3] H4]. constructor; auto.
    + intro F. inversion F as [|? ? ? ? [H1 [H2 H3]] F']; subst. auto.
Qed.

Theorem chart_ok_iff lts ltg cfg s e rs cd :
  chart_ok lts ltg cfg s e rs cd = true <-> chartdata_spec lts ltg cfg s e rs cd.
Proof.
  unfold chart_ok, chartdata_spec. rewrite !andb_true_iff, !beq_eq, Nat.eqb_eq, programs_ok_iff.
  intuition.
Qed.

(* the model's chart object passes its own oracle *)
Theorem chart_ok_accepts_model it lts ltg cfg read start end_ name cd :
  iter_ok it -> cfg_ok lts ltg cfg ->
  handle_chart it lts ltg cfg read start end_ = ChartOk name cd ->
  chart_ok lts ltg cfg (fmt_date start) (fmt_date end_)
           (days_reports read start (Z.to_nat (end_ - start + 1))) cd = true.
Proof.
  intros Hit Hcfg H. apply chart_ok_iff.
  apply (handle_chart_ok_spec it lts ltg cfg read start end_ name cd Hit Hcfg H).
Qed.

(* ------------------------------------------------------------------ *)
(* compareSemver: semver.Compare with ties broken lexically is a strict
   total order whenever semver.Compare is a total preorder *)

Section Semver.
  Variable cmp : bytes -> bytes -> comparison.
  Hypothesis cmp_opp : forall x y, cmp y x = CompOpp (cmp x y).
  Hypothesis cmp_lt_trans : forall x y z, cmp x y = Lt -> cmp y z = Lt -> cmp x z = Lt.
  Hypothesis cmp_lt_eq : forall x y z, cmp x y = Lt -> cmp y z = Eq -> cmp x z = Lt.
  Hypothesis cmp_eq_lt : forall x y z, cmp x y = Eq -> cmp y z = Lt -> cmp x z = Lt.
  Hypothesis cmp_eq_trans : forall x y z, cmp x y = Eq -> cmp y z = Eq -> cmp x z = Eq.

  Lemma semver_lt_order : order_ok (semver_lt cmp) (fun _ => True).
  Proof.
    unfold order_ok, lt_asym, lt_trans, lt_total, semver_lt. split; [|split].
    - intros a b _ _. rewrite (cmp_opp a b). destruct (cmp a b); cbn [CompOpp]; try congruence.
      apply bltb_asym.
    - intros a b c _ _ _. destruct (cmp a b) eqn:E1; try discriminate; destruct (cmp b c) eqn:E2; try discriminate.
      + rewrite (cmp_eq_trans _ _ _ E1 E2). apply bltb_trans.
      + rewrite (cmp_eq_lt _ _ _ E1 E2). reflexivity.
      + rewrite (cmp_lt_eq _ _ _ E1 E2). reflexivity.
      + rewrite (cmp_lt_trans _ _ _ E1 E2). reflexivity.
    - intros a b _ _ Hne. rewrite (cmp_opp a b). destruct (cmp a b); cbn [CompOpp]; auto.
      apply bltb_total. exact Hne.
  Qed.
End Semver.

