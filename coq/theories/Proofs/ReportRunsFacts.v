(* Proofs/ReportRunsFacts: the parse cache of a run is transparent, so every
   run of a process reports exactly the expired files of the directory AS IT
   IS AT THAT RUN, whatever earlier runs of the process have seen. *)
From Coq Require Import List ZArith NArith Bool Lia.
From Tele Require Import Lib.Bytes Lib.Str Lib.Assoc Model.Config Model.ApprovalSpec Model.Report Model.ReportRuns
  Proofs.ConfigFacts Proofs.AggregateFacts Proofs.ReportFacts Proofs.ReportOracle.
Import ListNotations.
Open Scope Z_scope.

Definition cache_ok (c : cache) (d : dir) : Prop :=
  forall n e, aget beq n c = Some e -> dir_read d n = Some e.

Lemma cache_ok_nil d : cache_ok [] d.
Proof. intros n e H. discriminate. Qed.

Lemma read_cached_ok d c n : cache_ok c d ->
  fst (read_cached d c n) = dir_read d n /\ cache_ok (snd (read_cached d c n)) d.
Proof.
  intro Hc. unfold read_cached. destruct (aget beq n c) as [e|] eqn:Ea.
  - cbn [fst snd]. split; [symmetry; apply Hc; exact Ea | exact Hc].
  - destruct (dir_read d n) as [e|] eqn:Er; cbn [fst snd]; (split; [reflexivity|]); [|exact Hc].
    intros n' e' H. cbn [aget] in H. destruct (beq n' n) eqn:En.
    + apply beq_eq in En. subst n'. injection H as <-. exact Er.
    + apply Hc. exact H.
Qed.

Definition fw_step (d : dir) (t : Z) (n : bytes) : list bytes :=
  match dir_read d n with Some e => if t <? d_end e then [] else [n] | None => [] end.
Definition fe_step (d : dir) (t : Z) (n : bytes) : list dfile :=
  match dir_read d n with Some e => if d_end e <? t then [e] else [] | None => [] end.

Lemma find_work_ok d t names : forall c, cache_ok c d ->
  fst (find_work d t names c) = flat_map (fw_step d t) names /\ cache_ok (snd (find_work d t names c)) d.
Proof.
  induction names as [|n ns IH]; intros c Hc; cbn [find_work flat_map]; [split; [reflexivity | exact Hc]|].
  destruct (read_cached_ok d c n Hc) as [H1 H2]. destruct (read_cached d c n) as [o c1]. cbn [fst snd] in H1, H2.
  destruct (IH c1 H2) as [H3 H4]. destruct (find_work d t ns c1) as [rest c2]. cbn [fst snd] in *.
  split; [|exact H4]. subst o. rewrite <- H3. unfold fw_step. destruct (dir_read d n) as [e|]; [|reflexivity].
  destruct (t <? d_end e); reflexivity.
Qed.

Lemma expired_files_ok d t names : forall c, cache_ok c d ->
  fst (expired_files d t names c) = flat_map (fe_step d t) names.
Proof.
  induction names as [|n ns IH]; intros c Hc; cbn [expired_files flat_map]; [reflexivity|].
  destruct (read_cached_ok d c n Hc) as [H1 H2]. destruct (read_cached d c n) as [o c1]. cbn [fst snd] in H1, H2.
  pose proof (IH c1 H2) as H3. destruct (expired_files d t ns c1) as [rest c2]. cbn [fst snd] in *.
  subst o. rewrite <- H3. unfold fe_step. destruct (dir_read d n) as [e|]; [|reflexivity].
  destruct (d_end e <? t); reflexivity.
Qed.

(* paths are unique in a directory: reading a file's path gives that file *)
Lemma dir_read_self d : NoDup (map d_name d) -> forall e, In e d -> dir_read d (d_name e) = Some e.
Proof.
  induction d as [|a d IH]; intros Hnd e He; [destruct He|].
  cbn [map] in Hnd. inversion Hnd as [|? ? Hni Hnd']; subst. unfold dir_read. cbn [find].
  destruct He as [->|He]; [rewrite beq_refl; reflexivity|].
  destruct (beq (d_name a) (d_name e)) eqn:E.
  - apply beq_eq in E. exfalso. apply Hni. rewrite E. apply in_map. exact He.
  - apply IH; assumption.
Qed.

Lemma work_names d t l : (forall e, In e l -> dir_read d (d_name e) = Some e) ->
  flat_map (fw_step d t) (map d_name l) = map d_name (filter (fun e => negb (t <? d_end e)) l).
Proof.
  induction l as [|a l IH]; intro H; [reflexivity|]. cbn [map flat_map filter].
  rewrite IH by (intros e He; apply H; right; exact He). unfold fw_step at 1.
  rewrite (H a (or_introl eq_refl)). destruct (t <? d_end a); reflexivity.
Qed.

Lemma exp_names d t l : (forall e, In e l -> dir_read d (d_name e) = Some e) ->
  flat_map (fe_step d t) (map d_name l) = filter (fun e => d_end e <? t) l.
Proof.
  induction l as [|a l IH]; intro H; [reflexivity|]. cbn [map flat_map filter].
  rewrite IH by (intros e He; apply H; right; exact He). unfold fe_step at 1.
  rewrite (H a (or_introl eq_refl)). destruct (d_end a <? t); reflexivity.
Qed.

Lemma filter_filter_imp {A} (p q : A -> bool) l :
  (forall x, p x = true -> q x = true) -> filter p (filter q l) = filter p l.
Proof.
  intro H. induction l as [|a l IH]; [reflexivity|]. cbn [filter].
  destruct (q a) eqn:Eq; cbn [filter]; rewrite IH; [reflexivity|].
  destruct (p a) eqn:Ep; [|reflexivity]. apply H in Ep. congruence.
Qed.

(* one run, started with any cache that is consistent with the directory,
   computes the specification *)
Theorem run_with_ok c0 p d :
  NoDup (map d_name d) -> cache_ok c0 d -> run_with c0 p d = run_spec p d.
Proof.
  intros Hnd Hc. unfold run_with, run_spec.
  destruct (find_work_ok d (rp_start p) (map d_name d) c0 Hc) as [Hw Hc1].
  destruct (find_work d (rp_start p) (map d_name d) c0) as [work c1]. cbn [fst snd] in Hw, Hc1.
  pose proof (expired_files_ok d (rp_start p) work c1 Hc1) as He.
  destruct (expired_files d (rp_start p) work c1) as [files c2]. cbn [fst] in He.
  assert (Hf : files = expired_now (rp_start p) d).
  { rewrite He, Hw, (work_names d _ d (dir_read_self d Hnd)).
    rewrite exp_names by (intros e Hin; apply filter_In in Hin as [Hin _]; apply dir_read_self; assumption).
    unfold expired_now. apply filter_filter_imp. intros e H. apply Z.ltb_lt in H.
    apply negb_true_iff, Z.ltb_ge. lia. }
  rewrite Hf. destruct (expired_now (rp_start p) d); reflexivity.
Qed.

(* the code: a fresh uploader per Run *)
Theorem run_uploader_spec p d : NoDup (map d_name d) -> run_uploader p d = run_spec p d.
Proof. intro H. apply run_with_ok; [exact H | apply cache_ok_nil]. Qed.

(* a process: every run reports the directory as it is at that run *)
Theorem run_history_spec h :
  (forall s, In s h -> NoDup (map d_name (snd s))) ->
  run_history h = map (fun s => run_spec (fst s) (snd s)) h.
Proof.
  intro H. unfold run_history. apply map_ext_in. intros s Hs. apply run_uploader_spec. exact (H s Hs).
Qed.

(* hence the C01 oracle, evaluated with the files as they are at that run,
   accepts every run's reports (outside the two known classes) *)
Theorem run_report_check p d local up deleted :
  NoDup (map d_name d) ->
  run_uploader p d = (Some (local, Some up), deleted) ->
  forall fl, In fl (report_check (rp_cfg p) (map d_file (expired_now (rp_start p) d)) local up) ->
             cert (rp_cfg p) (map d_file (expired_now (rp_start p) d)) fl.
Proof.
  intros Hnd H. rewrite (run_uploader_spec p d Hnd) in H. unfold run_spec in H.
  destruct (expired_now (rp_start p) d) as [|e es] eqn:E; [discriminate|].
  destruct (create_report (rp_gate p) (rp_cfg p) (rp_cfgver p) (rp_week p) (rp_lastweek p) (rp_x p)
                          (map d_file (e :: es))) as [[l u]|] eqn:Ec; [|discriminate].
  injection H as -> -> _. eapply report_check_model. exact Ec.
Qed.

(* why the cache must not outlive a run: started with a cache that holds an
   OLDER state of a file, a run reports the old values *)
From Coq Require Import String.
Local Open Scope string_scope.
Local Open Scope list_scope.
Local Open Scope Z_scope.
Definition st_file (v : N) : dfile := mkD (s2b "a.v1.count") 100 (mkFile w_id [(s2b "foo", v)]).
Definition st_params : run_params :=
  mkRun true (w_cfg [mkCC (s2b "foo") bits_one] []) (s2b "v1.0.0") (s2b "1970-01-01") (s2b "") bits_half 200.

Theorem stale_cache_refuted :
  exists c0 p d, NoDup (map d_name d) /\ run_with c0 p d <> run_spec p d.
Proof.
  exists [(s2b "a.v1.count", st_file 3)], st_params, [st_file 10].
  split; [repeat constructor; intros []|]. vm_compute. discriminate.
Qed.

(* ---------------------------------------------------------------- every Run fetches the configuration *)

Lemma latest_config_snoc st v u : latest_config (st ++ [(v, u)]) = Some (v, u).
Proof. unfold latest_config. rewrite rev_app_distr. reflexivity. Qed.

Definition with_config (p : run_params) (v : bytes) (u : upload_cfg) : run_params :=
  mkRun (rp_gate p) u v (rp_week p) (rp_lastweek p) (rp_x p) (rp_start p).

(* a Run against a store whose newest version is (v, u) is the specified run under u, labelled v *)
Theorem run_fetching_spec st v u p d :
  NoDup (map d_name d) -> run_fetching (st ++ [(v, u)]) p d = run_spec (with_config p v u) d.
Proof.
  intro H. unfold run_fetching. rewrite latest_config_snoc. apply run_uploader_spec. exact H.
Qed.

(* its upload report carries that version and is filtered by THAT configuration,
   whatever configuration earlier Runs of the process were given *)
Theorem run_fetching_filters_by_latest st v u p d local up deleted :
  NoDup (map d_name d) ->
  run_fetching (st ++ [(v, u)]) p d = (Some (local, Some up), deleted) ->
  r_config up = v /\
  r_programs up = filter_upload (new_config u) (rp_x p) (aggregate (map d_file (expired_now (rp_start p) d))).
Proof.
  intros Hnd H. rewrite (run_fetching_spec st v u p d Hnd) in H. unfold run_spec in H.
  cbn [with_config rp_gate rp_cfg rp_cfgver rp_week rp_lastweek rp_x rp_start] in H.
  destruct (expired_now (rp_start p) d) as [|e es] eqn:E; [discriminate|].
  destruct (create_report (rp_gate p) u v (rp_week p) (rp_lastweek p) (rp_x p) (map d_file (e :: es)))
    as [[l o]|] eqn:Ec; [|discriminate].
  injection H as -> -> _. apply create_report_shape in Ec as [_ [-> _]]. split; reflexivity.
Qed.

Theorem run_fetching_history_pointwise h before s after :
  h = before ++ s :: after ->
  nth (List.length before) (run_fetching_history h) (None, []) = run_fetching (fst (fst s)) (snd (fst s)) (snd s).
Proof.
  intros ->. unfold run_fetching_history. rewrite map_app, app_nth2 by (rewrite map_length; apply le_n).
  rewrite map_length, PeanoNat.Nat.sub_diag. reflexivity.
Qed.

(* ---------------------------------------------------------------- one report per week label *)

Lemma in_week_labels l w : In w (week_labels l) <-> exists e, In e l /\ fst e = w.
Proof.
  induction l as [|a l IH]; cbn [week_labels].
  - split; [intros [] | intros [e [[] _]]].
  - split.
    + intros [<-|H]; [exists a; split; [left|]; reflexivity|].
      apply filter_In in H as [H _]. apply IH in H as [e [He Hw]]. exists e. split; [right|]; assumption.
    + intros [e [[<-|He] Hw]]; [left; exact Hw|].
      destruct (beq w (fst a)) eqn:E; [left; apply beq_eq in E; auto|].
      right. apply filter_In. split; [apply IH; eauto | rewrite E; reflexivity].
Qed.

Lemma week_labels_nodup l : NoDup (week_labels l).
Proof.
  induction l as [|a l IH]; cbn [week_labels]; constructor.
  - intro H. apply filter_In in H as [_ H]. rewrite beq_refl in H. discriminate.
  - apply NoDup_filter. exact IH.
Qed.

(* every expired file is in the report of its own label - together with every
   other file of that label, whatever their instants - and in no other *)
Theorem week_reports_cover gate u cfgver lastweek x l e :
  In e l ->
  In (fst e, create_report gate u cfgver (fst e) lastweek x (week_files (fst e) l))
     (week_reports gate u cfgver lastweek x l) /\
  In (snd e) (week_files (fst e) l) /\
  (forall w, In (snd e) (week_files w l) -> exists e', In e' l /\ fst e' = w /\ snd e' = snd e).
Proof.
  intro He. split; [|split].
  - unfold week_reports. apply in_map_iff. exists (fst e). split; [reflexivity|].
    apply in_week_labels. eauto.
  - unfold week_files. apply in_map. apply filter_In. rewrite beq_refl. auto.
  - intros w Hw. unfold week_files in Hw. apply in_map_iff in Hw as [e' [Hs Hf]].
    apply filter_In in Hf as [Hin Hb]. apply beq_eq in Hb. eauto.
Qed.

(* exactly one report per label *)
Theorem week_reports_one_per_label gate u cfgver lastweek x l :
  map fst (week_reports gate u cfgver lastweek x l) = week_labels l /\ NoDup (week_labels l).
Proof.
  split; [|apply week_labels_nodup]. unfold week_reports. rewrite map_map. cbn [fst]. apply map_id.
Qed.

(* two files of the same label are reported together *)
Theorem week_files_same_label l e1 e2 :
  In e1 l -> In e2 l -> fst e1 = fst e2 ->
  In (snd e1) (week_files (fst e1) l) /\ In (snd e2) (week_files (fst e1) l).
Proof.
  intros H1 H2 He. unfold week_files. split; apply in_map; apply filter_In; split; auto.
  - apply beq_refl.
  - rewrite He. apply beq_refl.
Qed.
