(* Proofs about Model/Gating, part 1: the decision functions (tooOld,
   uploadOK, dateRE, ready reports, the future-date test). *)
From Coq Require Import String.
From Coq Require Import List ZArith NArith Bool Lia.
From Tele Require Import Lib.Bytes Lib.Calendar Proofs.CalendarFacts Gen.Consts Model.Mode Model.Gating
  Proofs.ModeFacts Proofs.DateOrder.
Import ListNotations.
Open Scope Z_scope.

Lemma literals_gating :
  json_suffix = s2b ".json" /\ count_suffix = s2b ".v1.count" /\ local_prefix = s2b "local." /\
  lock_suffix = s2b ".lock".
Proof. repeat split; vm_compute; reflexivity. Qed.

(* the Go constant is 21 days *)
Lemma distant_past_21d : c_distantPast_ns = 21 * ns_per_day.
Proof. reflexivity. Qed.

Lemma sat63_gt c x : - 2 ^ 63 <= c < 2 ^ 63 - 1 -> (c <? sat63 x) = (c <? x).
Proof.
  intros H. unfold sat63. change (2 ^ 63) with 9223372036854775808 in *.
  destruct (Z.ltb_spec c x), (Z.ltb_spec c (Z.max (-9223372036854775808) (Z.min (9223372036854775808 - 1) x))); lia.
Qed.

Theorem too_old_iff date start :
  too_old date start = true <-> exists d, parse_date date = Some d /\ 21 * ns_per_day < start - day_ns d.
Proof.
  unfold too_old. destruct (parse_date date) as [d|].
  - rewrite sat63_gt by (vm_compute; split; [discriminate | reflexivity]).
    rewrite distant_past_21d, Z.ltb_lt. split.
    + intros H. exists d. auto.
    + intros (d' & E & H). injection E as <-. exact H.
  - split; [discriminate | intros (d & E & _); discriminate].
Qed.

Lemma too_old_false date start :
  too_old date start = false <-> forall d, parse_date date = Some d -> start - day_ns d <= 21 * ns_per_day.
Proof.
  destruct (too_old date start) eqn:E.
  - apply too_old_iff in E as (d & P & H). split; [discriminate|]. intros G. specialize (G d P). lia.
  - split; [|reflexivity]. intros _ d P.
    destruct (Z_le_gt_dec (start - day_ns d) (21 * ns_per_day)) as [L|L]; [exact L|].
    assert (too_old date start = true) by (apply too_old_iff; exists d; split; [exact P | lia]). congruence.
Qed.

(* ---- dateRE ---- *)
Lemma date_shape_len s : date_shape s = true -> length s = 10%nat.
Proof.
  destruct s as [|a [|b [|c [|d [|e [|f [|g [|h [|i [|j [|? ?]]]]]]]]]]]; try discriminate. reflexivity.
Qed.

Lemma re_date_some name s : re_date name = Some s ->
  exists pre, name = (pre ++ s ++ json_suffix)%list /\ date_shape s = true.
Proof.
  unfold re_date. destruct (Nat.ltb_spec (length name) 15) as [L|L]; [discriminate|].
  set (tail := skipn (length name - 15) name).
  destruct (date_shape (firstn 10 tail)) eqn:D; [|discriminate].
  destruct (beq (skipn 10 tail) json_suffix) eqn:J; [|discriminate].
  intros H. assert (E : s = firstn 10 tail) by (change (Some (firstn 10 tail) = Some s) in H; congruence).
  clear H. subst s. apply beq_eq in J. exists (firstn (length name - 15) name). split; [|exact D].
  rewrite <- J, firstn_skipn. subst tail. rewrite firstn_skipn. reflexivity.
Qed.

Lemma re_date_json name s : re_date name = Some s -> has_suffix name json_suffix = true.
Proof.
  intros H. apply re_date_some in H as (pre & -> & _). apply has_suffix_app.
  exists (pre ++ s)%list. rewrite app_assoc. reflexivity.
Qed.

(* a name that is exactly <date>.json *)
Lemma re_date_exact s : date_shape s = true -> re_date (s ++ json_suffix) = Some s.
Proof.
  intros D.
  destruct s as [|a [|b [|c [|d [|e [|f [|g [|h [|i [|j [|? ?]]]]]]]]]]]; try discriminate.
  unfold re_date.
  change (skipn _ ([a; b; c; d; e; f; g; h; i; j] ++ json_suffix))
    with ([a; b; c; d; e; f; g; h; i; j] ++ json_suffix)%list.
  change (firstn 10 ([a; b; c; d; e; f; g; h; i; j] ++ json_suffix)) with [a; b; c; d; e; f; g; h; i; j].
  rewrite D. reflexivity.
Qed.

Lemma parse_date_shape s d : parse_date s = Some d -> date_shape s = true.
Proof.
  intros P. destruct (parse_date_inv _ _ P) as (a & b & c & e & m1 & m2 & d1 & d2 & -> & Dy & Dm & Dd & _).
  cbn [all_digits forallb] in *.
  repeat (match goal with H : _ && _ = true |- _ => apply andb_true_iff in H as [? ?] end).
  cbn [date_shape]. change (N.eqb dash dash) with true.
  repeat (match goal with H : is_digit _ = true |- _ => rewrite H; clear H end). reflexivity.
Qed.

(* ---- the future-date test compares strings; for dates it is the day order ---- *)
Theorem future_report_days start name s dn :
  (let '(y, _, _) := civil_from_days (start / ns_per_day) in 0 <= y <= 9999) ->
  re_date name = Some s -> parse_date s = Some dn ->
  future_report (today_of start) name = (start / ns_per_day <? dn).
Proof.
  intros Y R P. unfold future_report, today_of. rewrite R.
  pose proof (fmt_parse_any_year (start / ns_per_day)) as F.
  destruct (civil_from_days (start / ns_per_day)) as [[y m] d]. destruct F as [F _].
  destruct (F Y) as [P0 _].
  destruct (date_string_order _ _ _ _ P0 P) as [L _]. exact L.
Qed.

Section Decisions.
Variable R : Type.
Variable rlt : R -> R -> bool.
Variable rzero : R.

Theorem upload_ok_spec mode asof start expiry earliest x rate :
  upload_ok R rlt rzero mode asof start expiry earliest x rate =
  spec_uploadable R rlt rzero mode asof start (parse_date expiry) earliest x rate.
Proof.
  assert (E1 : negb (too_old expiry start) =
               match parse_date expiry with Some d => start - day_ns d <=? 21 * ns_per_day | None => true end).
  { unfold too_old. destruct (parse_date expiry) as [d|]; [|reflexivity].
    rewrite sat63_gt by (vm_compute; split; [discriminate | reflexivity]).
    rewrite distant_past_21d.
    destruct (Z.ltb_spec (21 * ns_per_day) (start - day_ns d)),
             (Z.leb_spec (start - day_ns d) (21 * ns_per_day)); try reflexivity; lia. }
  unfold upload_ok, spec_uploadable. rewrite E1, (andb_comm (rlt rate x)). reflexivity.
Qed.

Theorem upload_ok_iff mode asof start expiry earliest x rate :
  upload_ok R rlt rzero mode asof start expiry earliest x rate = true <->
  mode = m_on /\
  (forall d, parse_date expiry = Some d -> start - day_ns d <= 21 * ns_per_day) /\
  (asof = None \/ exists a, asof = Some a /\ day_ns a < earliest) /\
  ~ (rlt rzero rate = true /\ rlt rate x = true).
Proof.
  unfold upload_ok. rewrite !andb_true_iff, beq_eq, negb_true_iff, too_old_false, negb_true_iff, andb_false_iff.
  split.
  - intros [[[M T] A] S]. repeat split; try assumption.
    + destruct asof as [a|]; [right; exists a; split; [reflexivity | apply Z.ltb_lt; exact A] | left; reflexivity].
    + intros [S1 S2]. destruct S as [S|S]; congruence.
  - intros (M & T & A & S). repeat split; try assumption.
    + destruct A as [->|(a & -> & H)]; [reflexivity | apply Z.ltb_lt; exact H].
    + destruct (rlt rate x) eqn:E1; [|left; reflexivity].
      destruct (rlt rzero rate) eqn:E2; [|right; reflexivity]. exfalso. apply S. split; reflexivity.
Qed.

End Decisions.

Theorem ready_report_iff mode asof name :
  ready_report mode asof name = true <->
  has_suffix name json_suffix = true /\ has_prefix name local_prefix = false /\
  has_suffix name count_suffix = false /\ mode = m_on /\
  (asof = None \/ report_date name = None \/
   exists a r, asof = Some a /\ report_date name = Some r /\ a < r).
Proof.
  unfold ready_report. rewrite !andb_true_iff, !negb_true_iff, beq_eq. split.
  - intros [[[[C L] J] M] D]. repeat split; try assumption.
    destruct asof as [a|]; [|left; reflexivity]. destruct (report_date name) as [r|]; [|right; left; reflexivity].
    right; right. exists a, r. repeat split. apply Z.ltb_lt. exact D.
  - intros (J & L & C & M & D). repeat split; try assumption.
    destruct D as [->|[->|(a & r & -> & -> & H)]].
    + reflexivity.
    + destruct asof; reflexivity.
    + apply Z.ltb_lt. exact H.
Qed.

(* every mode string other than "on" is treated alike by the two upload
   decisions, and other than "off" by the two off tests *)
Theorem decisions_other_is_local mode : mode <> m_on -> mode <> m_off ->
  (forall asof name, ready_report mode asof name = ready_report m_local asof name) /\
  (forall R rlt rzero asof start expiry earliest x rate,
      upload_ok R rlt rzero mode asof start expiry earliest x rate =
      upload_ok R rlt rzero m_local asof start expiry earliest x rate) /\
  beq mode m_off = beq m_local m_off.
Proof.
  intros H1 H2. apply beq_neq in H1. apply beq_neq in H2. repeat split.
  - intros asof name. unfold ready_report. rewrite H1. change (beq m_local m_on) with false.
    rewrite !andb_false_r. reflexivity.
  - intros. unfold upload_ok. rewrite H1. reflexivity.
  - rewrite H2. reflexivity.
Qed.
