(* Proofs/UploaderFaultDrop: one uploader.Run under an arbitrary fault plan,
   part 5: a ready report (local/W.json) is removed only when the server has
   it (the marker upload/W.json exists) or refused it with a 4xx.  No fault
   of any call makes the run drop a report that was not delivered. *)
From Coq Require Import List ZArith NArith Bool Lia Arith.
From Tele Require Import Lib.Bytes Lib.FS Model.Span Model.Uploader Model.UploaderFault
  Proofs.FSFacts Proofs.UploaderBase Proofs.UploaderNames Proofs.UploaderFiles
  Proofs.UploaderData Proofs.UploaderFaultFacts Proofs.UploaderFaultInv Proofs.UploaderFaultIso.
Import ListNotations.
Open Scope nat_scope.

Record up_inv (f : FS) (log : list ack) (t : thread) : Prop := mkUI {
  u_marker : t_pc t = URemAlready \/ t_pc t = URemDone -> d_mem (up_dir f) (marker_name (t_week t)) = true;
  u_4xx : t_pc t = URem4xx -> In (mkAck (t_week t) (t_buf t) O4xx (t_id t)) log
}.

Lemma up_inv_init f c : up_inv f [] (new_thread 0 c).
Proof. constructor; simpl; [intros [H | H]; discriminate|discriminate]. Qed.

Lemma fdecide_up p i f log err t e t' err' n pan :
  fdecide p i f err t = (e, t', err', n, pan) -> up_inv f log t ->
  up_inv (fst (apply_eff e f log)) (snd (apply_eff e f log)) t'.
Proof.
  intros H [U1 U2]. unfold fdecide, decide, answer in H.
  destruct (t_pc t) eqn:Epc.
  all: repeat match type of H with
              | context [match ?x with _ => _ end] => destruct x eqn:?
              end; simpl in H; inversion H; subst; clear H.
  all: adv.
  all: constructor; unfold apply_eff; cbn [fst snd]; simpl t_pc; simpl t_week; simpl t_buf; simpl t_id.
  all: try (intros [Hx | Hx]; simpl in Hx; dmatch Hx; pcdiscr).
  all: try (intros Hx; simpl in Hx; dmatch Hx; pcdiscr).
  all: try congruence.
  all: try (apply in_or_app; right; left; reflexivity).
  all: try (unfold up_dir; simpl;
            match goal with Hu : f_upload _ = Some _ |- _ => rewrite Hu end; rewrite d_mem_put, beq_refl; reflexivity).
  all: try assumption.
Qed.

Lemma fpick_up p i picks f log t t' n pan picks' :
  t_pc t = RPick -> fpick p i picks t = (t', n, pan, picks') -> up_inv f log t'.
Proof.
  intros Hp H. unfold fpick in H.
  destruct (t_weeks t) as [|g0 gs] eqn:Ew.
  - injection H as <- <- <- <-. unfold start_upload. adv; constructor; simpl; rewrite ?Hp;
      try (intros [Hx | Hx]; discriminate); discriminate.
  - destruct (choose picks t (fst g0)) as [w ps].
    destruct (take_week w (g0 :: gs)) as [[files rest]|] eqn:Et.
    + destruct (not_needed w (t_uploaded t) (t_ready t)).
      * injection H as <- <- <- <-. constructor; simpl; [intros [Hx | Hx]|intros Hx]; destruct files; discriminate.
      * destruct (bad p i); [|destruct (has_counts files)]; injection H as <- <- <- <-;
          constructor; simpl; rewrite ?Hp; try (intros [Hx | Hx]; discriminate); discriminate.
    + injection H as <- <- <- <-. constructor; rewrite Hp; [intros [Hx | Hx]; discriminate|discriminate].
Qed.

Section Drop.
Variables (p : fplan) (f0 : FS) (c : ucfg) (exported : bool).
Hypothesis Hwf : fs_wf f0.
Notation x0 := (finit f0 c exported).

Lemma up_reach x : freach p x0 x -> up_inv (x_fs x) (x_log x) (x_t x).
Proof.
  induction 1 as [|x picks Hr IH]; [apply up_inv_init|].
  unfold fstep. destruct (x_pre x); [exact IH|].
  destruct (t_pc (x_t x)) eqn:Epc.
  5: { destruct (fpick p (x_idx x) picks (x_t x)) as [[[t' n] pan] pk] eqn:Ef. simpl. eapply fpick_up; eauto. }
  all: destruct (fdecide p (x_idx x) (x_fs x) (x_err x) (x_t x)) as [[[[e t'] err'] k] pan] eqn:Ef;
    pose proof (fdecide_up _ _ _ (x_log x) _ _ _ _ _ _ _ Ef IH) as U;
    destruct (apply_eff e (x_fs x) (x_log x)) as [f' log'] eqn:Ea; simpl in *; exact U.
Qed.

(* ---- a file of local/ that is not a count file disappears only as the
        ready report the run has just handled, and only after the server's
        marker exists or the server answered 4xx ---- *)
Theorem fault_ready_removed_only x picks n :
  freach p x0 x -> is_count n = false ->
  d_find (f_local (x_fs x)) n <> None -> d_find (f_local (x_fs (fst (fstep p picks x)))) n = None ->
  n = t_file (x_t x) /\
  (((t_pc (x_t x) = URemAlready \/ t_pc (x_t x) = URemDone) /\
    d_mem (up_dir (x_fs x)) (marker_name (t_week (x_t x))) = true) \/
   (t_pc (x_t x) = URem4xx /\
    In (mkAck (t_week (x_t x)) (t_buf (x_t x)) O4xx (t_id (x_t x))) (x_log x))).
Proof.
  intros Hr Hn Hsome Hnone. pose proof (up_reach _ Hr) as [U1 U2].
  pose proof (rinv_reach p f0 c exported Hwf _ Hr) as [(N & D & K) HR HF HN HA HC].
  unfold fstep in Hnone.
  destruct (x_pre x); [contradiction|].
  destruct (t_pc (x_t x)) eqn:Epc.
  5: { destruct (fpick p (x_idx x) picks (x_t x)) as [[[t' k] pan] pk]. contradiction. }
  all: destruct (fdecide p (x_idx x) (x_fs x) (x_err x) (x_t x)) as [[[[e t'] err'] k] pan] eqn:Ef;
    destruct (apply_eff e (x_fs x) (x_log x)) as [f' log'] eqn:Ea; simpl in Hnone;
    assert (Ef' : f' = fst (apply_eff e (x_fs x) (x_log x))) by (rewrite Ea; reflexivity); rewrite Ef' in Hnone; clear Ea Ef';
    rewrite local_apply in Hnone;
    destruct (fdecide_cases _ _ _ _ _ _ _ _ _ _ Ef) as
      [(o & Hd) | [(-> & Hw) | [(Hp & c0 & -> & ->) | [(Hp & c0 & -> & Ht) | (Hp & c0 & -> & ->)]]]];
    try contradiction.
  all: try (exfalso; rewrite d_find_set_id in Hnone;
            destruct (d_find (f_local (x_fs x)) n) as [[i1 c1]|]; [discriminate|contradiction]).
  all: assert (Hda : decide_all (x_fs x) (AStep o) (x_t x) = (e, t')) by exact Hd;
    destruct e; try contradiction.
  all: try (exfalso; rewrite d_find_set_id in Hnone;
            destruct (d_find (f_local (x_fs x)) n) as [[i1 c1]|]; [discriminate|contradiction]).
  all: try (exfalso; rewrite d_find_add in Hnone; destruct (beq n0 n); [discriminate|contradiction]).
  all: destruct (beq n0 n) eqn:Eb;
    [apply beq_eq in Eb; subst n0
    |exfalso; rewrite d_find_remove_other in Hnone; [contradiction|intros ->; rewrite beq_refl in Eb; discriminate]].
  all: destruct (eff_remlocal _ _ _ _ _ Hda) as [(Hp & rest & Hdel) | (Hp & -> & _)];
    [ exfalso; pose proof (ni_dels _ N) as ND; rewrite Hdel in ND; inversion ND as [|a1 l1 Hc1 Hc2]; congruence
    | split; [reflexivity|] ].
  all: destruct Hp as [Hp | [Hp | Hp]]; try congruence.
  all: try (left; split; [auto|apply U1; auto]; fail).
  all: try (right; split; [auto|apply U2; auto]; fail).
Qed.

End Drop.
