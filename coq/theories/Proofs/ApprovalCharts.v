(* Proofs/ApprovalCharts: the viewer's Charts section (charts() after fix
   c8e437d: Active = HasCounter || HasCounterPrefix || HasStack).  A chart is
   shown as present in the configuration iff some configured counter of the
   program belongs to it or a configured stack has its name; no chart drawing
   an approved plain counter or an approved stack counter is ever called
   absent (for configurations whose bucket lists do not introduce the chart
   separator); the chart oracle reports nothing on the model.
   (Before c8e437d the configured stacks were not consulted: the chart of an
   approved stack counter was called "not present in the telemetry config" -
   finding 20; the oracle class viewer-chart-stack still detects that.) *)
From Coq Require Import List ZArith NArith Bool Lia.
From Tele Require Import Lib.Bytes Lib.Str Lib.Assoc Lib.Calendar Model.Config Model.ApprovalSpec Model.Report
  Model.Approval Proofs.ConfigFacts Proofs.AggregateFacts Proofs.ReportFacts Proofs.ApprovalFacts.
Import ListNotations.
Open Scope N_scope.

Lemma has_counter_prefix_spec u prog name :
  has_counter_prefix (new_config u) prog name = true <->
  exists p cc rest, In p (uc_programs u) /\ pc_name p = prog /\ In cc (pc_counters p) /\
                    cut_byte (cc_name cc) ch_colon = (name, rest, true).
Proof.
  unfold has_counter_prefix. rewrite memk_In. cbn [new_config t_pgcounterprefix]. rewrite in_flat_map. split.
  - intros [p [Hp Hin]]. unfold counter_prefix_keys in Hin. apply in_flat_map in Hin as [cc [Hc Hin]].
    destruct (cut_byte (cc_name cc) ch_colon) as [[pre rest] found] eqn:E. destruct found; [|destruct Hin].
    destruct Hin as [Hin|[]]. injection Hin as <- <-. exists p, cc, rest. auto.
  - intros [p [cc [rest [Hp [Hn [Hc Hcut]]]]]]. exists p. split; [exact Hp|].
    unfold counter_prefix_keys. apply in_flat_map. exists cc. split; [exact Hc|]. rewrite Hcut. left. subst. reflexivity.
Qed.

Lemma counter_part_listed u prog name :
  has_counter (new_config u) prog name || has_counter_prefix (new_config u) prog name = counter_chart_listedb u prog name.
Proof.
  unfold counter_chart_listedb. rewrite has_counter_approvedb. f_equal.
  match goal with |- ?a = ?b => destruct b eqn:E end.
  - apply existsb_exists in E as [p [Hp Hb]]. apply andb_true_iff in Hb as [Hn Hc].
    apply beq_eq in Hn. apply existsb_exists in Hc as [cc [Hcc Hcut]].
    destruct (cut_byte (cc_name cc) ch_colon) as [[pre rest] found] eqn:Ec.
    apply andb_true_iff in Hcut as [-> Hpre]. apply beq_eq in Hpre. subst pre.
    apply has_counter_prefix_spec. exists p, cc, rest. auto.
  - destruct (has_counter_prefix (new_config u) prog name) eqn:Ep; [|reflexivity].
    apply has_counter_prefix_spec in Ep as [p [cc [rest [Hp [Hn [Hc Hcut]]]]]].
    assert (Ht : existsb (fun p => beq (pc_name p) prog &&
                    existsb (fun cc => let '(pre, _, found) := cut_byte (cc_name cc) ch_colon in
                                       found && beq pre name) (pc_counters p)) (uc_programs u) = true).
    { apply existsb_exists. exists p. split; [exact Hp|]. rewrite (proj2 (beq_eq _ _) Hn). cbn [andb].
      apply existsb_exists. exists cc. split; [exact Hc|]. rewrite Hcut, beq_refl. reflexivity. }
    congruence.
Qed.

Lemma has_stack_name_listed u prog name : has_stack (new_config u) prog name = nonempty (stack_rates u prog name).
Proof.
  destruct (nonempty (stack_rates u prog name)) eqn:E.
  - apply nonempty_In in E as [r Hr]. apply in_stack_rates in Hr. apply has_stack_spec. eauto.
  - destruct (has_stack (new_config u) prog name) eqn:E2; [|reflexivity].
    apply has_stack_spec in E2 as [r Hr]. apply in_stack_rates in Hr.
    destruct (stack_rates u prog name); [destruct Hr | discriminate].
Qed.

(* "present in the config" as the viewer computes it = some configured counter
   belongs to the chart or a configured stack has its name *)
Theorem viewer_chart_active_listed u prog name :
  viewer_chart_active (new_config u) prog name = chart_listedb u prog name.
Proof.
  unfold viewer_chart_active, chart_listedb. rewrite counter_part_listed, has_stack_name_listed. reflexivity.
Qed.

(* bucket lists do not introduce the chart separator: an expansion with a
   colon has its chart name spelled before the colon of the collapsed name
   ("chart:{b1,b2}", "chart:b" - every configuration the generator of the
   upload configuration writes) *)
Definition chart_prefix_ok (u : upload_cfg) : Prop :=
  forall p cc k, In p (uc_programs u) -> In cc (pc_counters p) -> In k (expand (cc_name cc)) ->
                 In ch_colon k ->
                 exists rest, cut_byte (cc_name cc) ch_colon = (before_byte k ch_colon, rest, true).

(* a chart drawing an approved plain counter is shown as present *)
Theorem approved_counter_chart_active u prog k :
  chart_prefix_ok u -> is_stack k = false -> approved_counterb u prog k = true ->
  viewer_chart_active (new_config u) prog (chart_name k) = true.
Proof.
  intros Hok Hs Ha. unfold chart_name. rewrite Hs. unfold viewer_chart_active.
  apply orb_true_iff. left.
  destruct (has_byte k ch_colon) eqn:Hc.
  - apply orb_true_iff. right. apply approved_counterb_spec in Ha as [r [p [cc [Hp [Hn [Hcc [He _]]]]]]].
    apply has_byte_In in Hc. destruct (Hok p cc k Hp Hcc He Hc) as [rest Hcut].
    apply has_counter_prefix_spec. exists p, cc, rest. auto.
  - apply has_byte_false in Hc. rewrite (before_byte_nostack k ch_colon Hc).
    rewrite has_counter_approvedb, Ha. reflexivity.
Qed.

Lemma in_chart_items files prog name k :
  In k (chart_items files prog name) -> chart_name k = name.
Proof.
  unfold chart_items. intro H. apply in_flat_map in H as [f [_ H]].
  destruct (beq (id_program (f_ident f)) prog); [|destruct H].
  apply filter_In in H as [_ H]. apply beq_eq in H. exact H.
Qed.

(* a chart drawing an approved stack counter is shown as present (formerly finding 20) *)
Theorem approved_stack_chart_active u prog k :
  is_stack k = true -> approved_stackb u prog k = true ->
  viewer_chart_active (new_config u) prog (chart_name k) = true.
Proof.
  intros Hs Ha. unfold chart_name. rewrite Hs. unfold viewer_chart_active.
  rewrite (has_stack_approvedb u prog k), Ha. apply orb_true_r.
Qed.

(* the chart oracle on the model: nothing *)
Theorem viewer_chart_check_model u files prog name : chart_prefix_ok u ->
  viewer_chart_check u files prog name (viewer_chart_active (new_config u) prog name) = [].
Proof.
  intros Hok. unfold viewer_chart_check. cbv zeta.
  destruct (viewer_chart_active (new_config u) prog name) eqn:Ea; cbn [negb andb].
  - rewrite <- (viewer_chart_active_listed u prog name), Ea. reflexivity.
  - destruct (existsb (fun k => negb (is_stack k) && approved_counterb u prog k) (chart_items files prog name)) eqn:Ep.
    + exfalso. apply existsb_exists in Ep as [k [Hk Hb]]. apply andb_true_iff in Hb as [Hs Hap].
      apply negb_true_iff in Hs. pose proof (approved_counter_chart_active u prog k Hok Hs Hap) as Ht.
      rewrite (in_chart_items _ _ _ _ Hk) in Ht. congruence.
    + destruct (existsb (fun k => is_stack k && approved_stackb u prog k) (chart_items files prog name)) eqn:Es; [|reflexivity].
      exfalso. apply existsb_exists in Es as [k [Hk Hb]]. apply andb_true_iff in Hb as [H1 H2].
      pose proof (approved_stack_chart_active u prog k H1 H2) as Ht.
      rewrite (in_chart_items _ _ _ _ Hk) in Ht. congruence.
Qed.
