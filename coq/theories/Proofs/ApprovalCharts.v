(* Proofs/ApprovalCharts: the viewer's Charts section.  A chart is shown as
   present in the configuration iff some configured COUNTER of the program
   belongs to it; no chart drawing an approved plain counter is ever called
   absent (for configurations whose bucket lists do not introduce the chart
   separator); the configured STACKS are never consulted: a chart of an
   approved stack counter is called "not present in the telemetry config"
   (finding 20, witness below) - the only failure the chart oracle can report
   on the model. *)
From Coq Require Import List ZArith NArith Bool Lia.
From Tele Require Import Lib.Bytes Lib.Str Lib.Assoc Lib.Calendar Model.Config Model.ApprovalSpec Model.Report
  Model.Approval Proofs.ConfigFacts Proofs.AggregateFacts Proofs.ReportFacts Proofs.ApprovalFacts.
Import ListNotations.
Open Scope N_scope.

Lemma has_counter_prefix_spec u prog name :
  has_counter_prefix (new_config u) prog name = true <->
  exists p cc rest, In p (uc_programs u) /\ pc_name p = prog /\ In cc (pc_counters p) /\
                    cut_byte (cc_name cc) ch_colon = (name, rest, true).
Proof.
  unfold has_counter_prefix. rewrite memk_In. cbn [new_config t_pgcounterprefix]. rewrite in_flat_map. split.
  - intros [p [Hp Hin]]. unfold counter_prefix_keys in Hin. apply in_flat_map in Hin as [cc [Hc Hin]].
    destruct (cut_byte (cc_name cc) ch_colon) as [[pre rest] found] eqn:E. destruct found; [|destruct Hin].
    destruct Hin as [Hin|[]]. injection Hin as <- <-. exists p, cc, rest. auto.
  - intros [p [cc [rest [Hp [Hn [Hc Hcut]]]]]]. exists p. split; [exact Hp|].
    unfold counter_prefix_keys. apply in_flat_map. exists cc. split; [exact Hc|]. rewrite Hcut. left. subst. reflexivity.
Qed.

(* "present in the config" as the viewer computes it = some configured counter belongs to the chart *)
Theorem viewer_chart_active_listed u prog name :
  viewer_chart_active (new_config u) prog name = counter_chart_listedb u prog name.
Proof.
  unfold viewer_chart_active, counter_chart_listedb. rewrite has_counter_approvedb. f_equal.
  match goal with |- ?a = ?b => destruct b eqn:E end.
  - apply existsb_exists in E as [p [Hp Hb]]. apply andb_true_iff in Hb as [Hn Hc].
    apply beq_eq in Hn. apply existsb_exists in Hc as [cc [Hcc Hcut]].
    destruct (cut_byte (cc_name cc) ch_colon) as [[pre rest] found] eqn:Ec.
    apply andb_true_iff in Hcut as [-> Hpre]. apply beq_eq in Hpre. subst pre.
    apply has_counter_prefix_spec. exists p, cc, rest. auto.
  - destruct (has_counter_prefix (new_config u) prog name) eqn:Ep; [|reflexivity].
    apply has_counter_prefix_spec in Ep as [p [cc [rest [Hp [Hn [Hc Hcut]]]]]].
    assert (Ht : existsb (fun p => beq (pc_name p) prog &&
                    existsb (fun cc => let '(pre, _, found) := cut_byte (cc_name cc) ch_colon in
                                       found && beq pre name) (pc_counters p)) (uc_programs u) = true).
    { apply existsb_exists. exists p. split; [exact Hp|]. rewrite (proj2 (beq_eq _ _) Hn). cbn [andb].
      apply existsb_exists. exists cc. split; [exact Hc|]. rewrite Hcut, beq_refl. reflexivity. }
    congruence.
Qed.

(* bucket lists do not introduce the chart separator: an expansion with a
   colon has its chart name spelled before the colon of the collapsed name
   ("chart:{b1,b2}", "chart:b" - every configuration the generator of the
   upload configuration writes) *)
Definition chart_prefix_ok (u : upload_cfg) : Prop :=
  forall p cc k, In p (uc_programs u) -> In cc (pc_counters p) -> In k (expand (cc_name cc)) ->
                 In ch_colon k ->
                 exists rest, cut_byte (cc_name cc) ch_colon = (before_byte k ch_colon, rest, true).

(* a chart drawing an approved plain counter is shown as present *)
Theorem approved_counter_chart_active u prog k :
  chart_prefix_ok u -> is_stack k = false -> approved_counterb u prog k = true ->
  viewer_chart_active (new_config u) prog (chart_name k) = true.
Proof.
  intros Hok Hs Ha. unfold chart_name. rewrite Hs. unfold viewer_chart_active.
  destruct (has_byte k ch_colon) eqn:Hc.
  - apply orb_true_iff. right. apply approved_counterb_spec in Ha as [r [p [cc [Hp [Hn [Hcc [He _]]]]]]].
    apply has_byte_In in Hc. destruct (Hok p cc k Hp Hcc He Hc) as [rest Hcut].
    apply has_counter_prefix_spec. exists p, cc, rest. auto.
  - apply has_byte_false in Hc. rewrite (before_byte_nostack k ch_colon Hc).
    rewrite has_counter_approvedb, Ha. reflexivity.
Qed.

Lemma in_chart_items files prog name k :
  In k (chart_items files prog name) -> chart_name k = name.
Proof.
  unfold chart_items. intro H. apply in_flat_map in H as [f [_ H]].
  destruct (beq (id_program (f_ident f)) prog); [|destruct H].
  apply filter_In in H as [_ H]. apply beq_eq in H. exact H.
Qed.

(* the chart oracle on the model: only the stack class *)
Theorem viewer_chart_check_model u files prog name : chart_prefix_ok u ->
  forall cl, In cl (viewer_chart_check u files prog name (viewer_chart_active (new_config u) prog name)) ->
  cl = AViewerChartStack /\ viewer_chart_active (new_config u) prog name = false /\
  exists k, In k (chart_items files prog name) /\ is_stack k = true /\ approved_stackb u prog k = true.
Proof.
  intros Hok cl. unfold viewer_chart_check. cbv zeta.
  destruct (viewer_chart_active (new_config u) prog name) eqn:Ea; cbn [negb andb].
  - rewrite <- Ea, viewer_chart_active_listed. unfold chart_listedb.
    rewrite viewer_chart_active_listed in Ea. rewrite Ea. cbn. intros [].
  - destruct (existsb (fun k => negb (is_stack k) && approved_counterb u prog k) (chart_items files prog name)) eqn:Ep.
    + exfalso. apply existsb_exists in Ep as [k [Hk Hb]]. apply andb_true_iff in Hb as [Hs Hap].
      apply negb_true_iff in Hs. pose proof (approved_counter_chart_active u prog k Hok Hs Hap) as Ht.
      rewrite (in_chart_items _ _ _ _ Hk) in Ht. congruence.
    + destruct (existsb (fun k => is_stack k && approved_stackb u prog k) (chart_items files prog name)) eqn:Es; [|intros []].
      intros [<-|[]]. split; [reflexivity|]. split; [reflexivity|].
      apply existsb_exists in Es as [k [Hk Hb]]. apply andb_true_iff in Hb as [H1 H2]. eauto.
Qed.

From Coq Require Import String.
Local Open Scope string_scope.
Local Open Scope list_scope.
Local Open Scope N_scope.
(* finding 20: the chart of an approved stack counter is called "not present in the telemetry config" *)
Theorem viewer_chart_stack_refuted :
  exists u prog k, is_stack k = true /\ approved_stackb u prog k = true /\
                   viewer_chart_active (new_config u) prog (chart_name k) = false.
Proof.
  exists (w_cfg [mkCC (s2b "foo") bits_one] [mkCC (s2b "stk") bits_one]), (s2b "cmd/go"), (s2b "stk" ++ [10] ++ s2b "f").
  split; [reflexivity|]. split; vm_compute; reflexivity.
Qed.
