(* Proofs/FormatExtras: what the executable checker wf_file means, stated
   without reference to its code; concrete files (evaluated by the VM on
   16 KiB inputs) on which the decoder used to depart from the property,
   and boundary examples. *)
From Coq Require Import String.
From Coq Require Import List Arith NArith ZArith Bool Lia.
From Tele Require Import Lib.Bytes Lib.BytesN Gen.Consts Model.DecodeStack Model.Layout Model.Parse
  Proofs.LayoutArith Proofs.LayoutRead Proofs.LayoutWrite Proofs.WriterFacts Proofs.WriterInv.
Import ListNotations.
Open Scope N_scope.

(* wf_file bs = true says: the documented v1 layout *)
Theorem wf_file_meaning bs : wf_file bs = true ->
  exists hdr meta kv limit rs,
    spec_header bs = Some (hdr, meta) /\ meta_kv meta = Some kv /\ spec_records bs = Some rs /\
    (* prefix; length field (32-aligned, at most one page); metadata = the bytes
       after it up to the first NUL *)
    has_prefix bs c_hdrPrefix = true /\ get32 bs 28 = hdr /\ hdr mod 32 = 0 /\ (32 <= hdr /\ hdr <= 16384) /\
    meta = cut_nul (slice bs 32 (hdr - 32)) /\
    (* size and allocation limit: the offset of the end of the records, not
       necessarily a multiple of 32 *)
    len bs mod 16384 = 0 /\ 16384 <= len bs /\
    limit = get32 bs hdr /\ limit <= len bs /\ (limit = 0 \/ hdr + 2052 <= limit) /\
    (* every linked record *)
    (forall r, In r rs ->
       r_off r mod 32 = 0 /\ hdr + 4 + 4 * 512 <= r_off r /\ r_off r + 16 + len (r_name r) <= limit /\
       1 <= len (r_name r) <= 4096 /\
       r_off r mod 16384 + rec_size (len (r_name r)) <= 16384 - 32 /\
       r_name r = slice bs (r_off r + 16) (len (r_name r)) /\ r_val r = get64 bs (r_off r) /\
       (* it is in the chain of bucket hash(name) *)
       exists c, In r c /\
         spec_chain (chain_fuel limit) bs hdr limit (get32 bs (hdr + 4 + 4 * hash (r_name r))) = Some c) /\
    (* records are pairwise disjoint and have different names *)
    (forall r r', In r rs -> In r' rs -> r <> r' ->
       (r_end r <= r_off r' \/ r_end r' <= r_off r) /\ r_name r <> r_name r').
Proof.
  unfold wf_file, spec_records.
  destruct (spec_read bs) as [[[[[hdr meta] kv] limit] tbl]|] eqn:E; [|discriminate]. intros _.
  pose proof (spec_read_inv _ _ _ _ _ _ E) as (Eh & Ek & El & H1 & H2 & H3 & H4 & H5 & Ht & Hp).
  pose proof (spec_header_inv _ _ _ Eh) as (Hpp & E28 & Hb & Hmod & Hfit & Em).
  exists hdr, meta, kv, limit, (concat tbl).
  split; [exact Eh|]. split; [exact Ek|]. split; [reflexivity|]. split; [exact Hpp|].
  split; [now symmetry|]. split; [exact Hmod|]. split; [exact Hb|]. split; [exact Em|].
  split; [exact H1|]. split; [exact H2|]. split; [exact El|]. split; [exact H3|].
  split; [rewrite first_off_val in H5; exact H5|]. split.
  - intros r Hr. pose proof (wf_record_in _ _ _ _ _ Ht Hr) as [Hri _].
    pose proof (rec_in_facts _ _ _ _ Hri H3) as (F1 & F2 & F3 & F4 & F5 & _ & F7 & F8).
    rewrite first_off_val in F2.
    repeat match goal with |- _ /\ _ => split end; try assumption; try lia.
    destruct (record_bucket _ _ _ _ _ Ht Hr) as (c & Hc1 & Hc2). exists c. split; [exact Hc1|].
    rewrite head_off_val in Hc2. exact Hc2.
  - intros r r' Hr Hr' Hne.
    destruct (pairwise_In _ _ _ _ rec_compat_sym Hp Hr Hr') as [->|C]; [contradiction|].
    unfold rec_compat in C. apply andb_true_iff in C as [C1 C2]. split.
    + apply orb_true_iff in C1. destruct C1 as [C1|C1]; apply N.leb_le in C1; [now left|now right].
    + apply negb_true_iff in C2. now apply beq_neq in C2.
Qed.

(* ---------------------------------------------------------------- witnesses *)

Definition nlb : bytes := [10].
(* a compressed stack counter name and its own expansion *)
Definition twin_a : bytes := s2b "p" ++ nlb ++ s2b "x.f:+1,+0x1" ++ nlb ++ [34] ++ s2b ".g:+2,+0x2".
Definition twin_b : bytes := s2b "p" ++ nlb ++ s2b "x.f:+1,+0x1" ++ nlb ++ s2b "x.g:+2,+0x2".
Definition wit_meta : bytes := s2b "Program: p" ++ nlb.

Definition fresh_state : wstate :=
  match create [] wit_meta with Some s => s | None => {| w_meta := []; w_hdr := 0; w_bs := [] |} end.
Definition file_after (ops : list op) : bytes := w_bs (snd (run_ops fresh_state ops)).

(* the library writes both counters; the file follows the layout; Parse returns
   both under the one expanded name, the later record (higher bucket) wins *)
Definition twin_file : bytes := file_after [OpAdd twin_a 1; OpAdd twin_b 2].

Lemma twin_file_facts :
  wf_file twin_file = true /\ decode_stack twin_a = twin_b /\
  parse twin_file = POk [(s2b "Program", s2b "p")] [(twin_b, 1); (twin_b, 2)] /\
  last_wins [(twin_b, 1); (twin_b, 2)] = [(twin_b, 2)].
Proof. vm_compute. repeat split. Qed.

(* the same two counters with the buckets in the other order *)
Definition twin_a2 : bytes := s2b "q" ++ nlb ++ s2b "x.f" ++ nlb ++ [34] ++ s2b ".g".
Definition twin_b2 : bytes := s2b "q" ++ nlb ++ s2b "x.f" ++ nlb ++ s2b "x.g".
Lemma twin2_file_facts :
  let f := file_after [OpAdd twin_a2 1; OpAdd twin_b2 2] in
  wf_file f = true /\
  parse f = POk [(s2b "Program", s2b "p")] [(twin_b2, 2); (twin_b2, 1)].
Proof. vm_compute. repeat split. Qed.

(* the same stored name twice in one chain: corrupt *)
Definition dup_file : bytes :=
  put (put (put (c_hdrPrefix ++ le32 32 ++ zeros (16384 - 32))
                (head_off 32 (hash (s2b "dup"))) (le32 2112))
           2112 (le64 1 ++ le32 3 ++ le32 2176 ++ s2b "dup"))
      2176 (le64 2 ++ le32 3 ++ le32 0 ++ s2b "dup").
Lemma dup_file_facts : parse dup_file = PErrCorrupt /\ wf_file dup_file = false.
Proof. vm_compute. repeat split. Qed.

(* header length field 16377 in a 16 KiB input: bucket head 0 would start three
   bytes before the end of the input; load32 answers 0 for it *)
Definition oob_file : bytes := c_hdrPrefix ++ le32 16377 ++ zeros (16384 - 32).
Lemma oob_file_facts :
  len oob_file = 16384 /\
  parse_with [] oob_file = POk [] [] /\ parse_with [255; 255; 255] oob_file = POk [] [].
Proof. vm_compute. repeat split. Qed.

(* a record at an offset that is not a multiple of 8: refused *)
Definition unaligned_file : bytes :=
  put (put (c_hdrPrefix ++ le32 32 ++ zeros (16384 - 32)) 36 (le32 4004))
      4004 (le64 7 ++ le32 3 ++ le32 0 ++ s2b "abc").
Lemma unaligned_file_facts :
  parse unaligned_file = PErrCorrupt /\
  parse (put (put (c_hdrPrefix ++ le32 32 ++ zeros (16384 - 32)) 36 (le32 4008))
             4008 (le64 7 ++ le32 3 ++ le32 0 ++ s2b "abc")) = POk [] [(s2b "abc", 7)].
Proof. vm_compute. repeat split. Qed.

(* an ordinary run *)
Lemma example_run :
  let f := file_after [OpAdd (s2b "gopls/client:vscode") 3; OpNew (s2b "b"); OpAdd (s2b "gopls/client:vscode") 4;
                       OpExtend 20000; OpReopen wit_meta] in
  wf_file f = true /\ len f = 32768 /\
  parse f = POk [(s2b "Program", s2b "p")] [(s2b "gopls/client:vscode", 7); (s2b "b", 0)].
Proof. vm_compute. repeat split. Qed.

(* the empty name and names over 4096 bytes are refused and leave the file as it is *)
Lemma refused_names :
  fst (run_ops fresh_state [OpNew []; OpAdd (repeat 120 4097) 1]) = [REmpty; RLong] /\
  file_after [OpNew []; OpAdd (repeat 120 4097) 1] = file_after [].
Proof. vm_compute. repeat split. Qed.

(* uint32 wrap in place for an allocation limit within 32 bytes of 4 GiB *)
Lemma place_wraps_near_4GiB : place 32 (4294967296 - 10) 1 = (0, 32).
Proof. vm_compute. reflexivity. Qed.

Lemma wit_meta_ok : meta_ok wit_meta.
Proof.
  split; [vm_compute; discriminate|]. split; [|vm_compute; discriminate].
  vm_compute. intuition discriminate.
Qed.

(* FNV-1a test vectors from the reference distribution *)
Lemma fnv_vectors :
  fnv1a [] = 2166136261 /\ fnv1a (s2b "a") = 3826002220 /\ fnv1a (s2b "foobar") = 3214735720.
Proof. vm_compute. repeat split. Qed.
