(* Proofs/UploaderIdem: re-running.  Reports written by earlier runs are
   never changed by later steps, and once a week's local report exists and
   all earlier runs have returned, no later run creates a report file for
   that week again. *)
From Coq Require Import List ZArith NArith Bool Lia Arith.
From Tele Require Import Lib.Bytes Lib.FS Model.Span Model.Uploader
  Proofs.FSFacts Proofs.UploaderBase Proofs.UploaderNames Proofs.UploaderFiles Proofs.UploaderData.
Import ListNotations.
Open Scope nat_scope.

(* a written local report survives any continuation *)
Theorem local_report_forever st st' n id c :
  reach st -> reach_from st st' -> is_localrep n = true -> is_count n = false ->
  d_find (f_local (s_fs st)) n = Some (id, c) -> c <> CRep None ->
  d_find (f_local (s_fs st')) n = Some (id, c).
Proof.
  intros Hr Hrf Hl Hc Hf Hne. induction Hrf as [|st1 ia H IH|st1 c0 H IH]; auto.
  pose proof (reach_from_reach _ _ Hr H) as Hr1.
  destruct (local_report_stable st1 ia n Hr1 Hl Hc _ _ IH) as (c' & Hf' & Hc').
  rewrite Hf', Hc'; auto.
Qed.

Lemma local_report_exists_forever st st' n :
  reach st -> reach_from st st' -> is_localrep n = true -> is_count n = false ->
  d_mem (f_local (s_fs st)) n = true -> d_mem (f_local (s_fs st')) n = true.
Proof.
  intros Hr Hrf Hl Hc Hm. induction Hrf as [|st1 ia H IH|st1 c0 H IH]; auto.
  pose proof (reach_from_reach _ _ Hr H) as Hr1.
  unfold d_mem in IH. destruct (d_find (f_local (s_fs st1)) n) as [[id c]|] eqn:Ef; [|discriminate].
  destruct (local_report_stable st1 ia n Hr1 Hl Hc _ _ Ef) as (c' & Hf' & _).
  unfold d_mem. rewrite Hf'. reflexivity.
Qed.

(* past the existence checks of createReport for week w *)
Definition creating (w : bytes) (t : thread) : Prop :=
  t_week t = w /\
  (t_pc t = RStatUp \/ t_pc t = RCreateUp \/ t_pc t = RWriteUp \/ t_pc t = RCreateLocal \/ t_pc t = RWriteLocal).

Lemma creating_after w f a t e t' :
  decide_all f a t = (e, t') -> creating w t' ->
  creating w t \/ (t_pc t = RStatLocal /\ t_week t = w /\ d_mem (f_local f) (local_name w) = false).
Proof.
  intros H. unfold creating. destruct a; dinv H; adv; simpl; intros [Hw Hp]; pcrw; simpl in *;
    try (destruct Hp as [Hp | [Hp | [Hp | [Hp | Hp]]]]; dmatch Hp; pcdiscr; fail);
    try (left; split; auto; tauto); auto 8.
  right. subst w. auto.
Qed.

Definition idem_inv (w : bytes) (st : state) : Prop :=
  d_mem (f_local (s_fs st)) (local_name w) = true /\
  forall i t, nth_error (s_ths st) i = Some t -> ~ creating w t.

Lemma idem_step w st ia : reach st -> idem_inv w st -> idem_inv w (step st ia).
Proof.
  intros Hr [Hm Hn]. split.
  - apply (local_report_exists_forever st (step st ia)); auto using is_localrep_local, is_count_local.
    apply rf_step. apply rf_refl.
  - destruct ia as [i a].
    destruct (step_cases st i a) as [-> | (t & e & t' & Hi & Hk & Hd & ->)]; [auto|].
    simpl. intros j tj Hj Hc. rewrite nth_error_upd in Hj. destruct (Nat.eqb i j) eqn:Eij; [|eapply Hn; eauto].
    rewrite Hi in Hj. injection Hj as <-.
    destruct (creating_after _ _ _ _ _ _ Hd Hc) as [Hc0 | (_ & _ & Hf)].
    + eapply Hn; eauto.
    + congruence.
Qed.

(* all earlier runs have returned (or were killed before their existence checks) *)
Theorem idempotent w st st' i a t e t' :
  reach st -> week_ok w -> d_mem (f_local (s_fs st)) (local_name w) = true ->
  (forall j tj, nth_error (s_ths st) j = Some tj -> ~ creating w tj) ->
  reach_from st st' ->
  nth_error (s_ths st') i = Some t -> decide_all (s_fs st') a t = (e, t') ->
  e <> ECreateLocal (ready_name w) /\ e <> ECreateLocal (local_name w).
Proof.
  intros Hr Hwk Hm Hn Hrf.
  assert (HI : idem_inv w st').
  { induction Hrf as [|st1 ia H IH|st1 c0 H IH].
    - exact (conj Hm Hn).
    - apply idem_step; auto. eapply reach_from_reach; eauto.
    - destruct IH as [Hm1 Hn1]; auto. split; auto.
      intros j tj Hj. destruct (spawn_threads _ _ _ _ Hj) as [H1 | [_ ->]]; [eauto|].
      intros [_ Hp]. simpl in Hp. destruct Hp as [Hp | [Hp | [Hp | [Hp | Hp]]]]; discriminate. }
  intros Hi Hd.
  destruct HI as [_ Hn']. specialize (Hn' _ _ Hi).
  pose proof (names_inv_reach _ (reach_from_reach _ _ Hr Hrf) _ _ Hi) as N.
  split; intros ->; apply Hn'; destruct (eff_createlocal _ _ _ _ _ Hd) as (_ & [(Hp & E & _) | (Hp & E & _)]).
  - apply ready_name_inj in E. split; auto.
  - exfalso. pose proof (f_equal is_localrep E) as E2.
    rewrite is_localrep_local, (week_not_local _ Hwk) in E2. discriminate.
  - exfalso. pose proof (f_equal is_localrep E) as E2.
    assert (Hw : week_ok (t_week t)) by (apply (ni_week _ N); rewrite Hp; reflexivity).
    rewrite is_localrep_local, (week_not_local _ Hw) in E2. discriminate.
  - apply local_name_inj in E. split; auto.
Qed.

(* a quiescent state satisfies the premise *)
Lemma quiescent_not_creating w st :
  (forall j tj, nth_error (s_ths st) j = Some tj -> t_pc tj = Done) ->
  forall j tj, nth_error (s_ths st) j = Some tj -> ~ creating w tj.
Proof.
  intros H j tj Hj [_ Hp]. rewrite (H _ _ Hj) in Hp.
  destruct Hp as [Hp | [Hp | [Hp | [Hp | Hp]]]]; discriminate.
Qed.
