(* Proofs/FileConcShapes: WHEN a call of newCounter can fail.  Every failure a
   step appends to a process's results is its own argument (FEmpty, FTooLong),
   the 4 GiB test (FRange), or one of the two shapes of the known finding:
   FBeyond only when the process has already reserved and written its record
   (it is in the link loop), FTries only after ten re-maps.  In particular a
   call that has reserved nothing and re-mapped fewer than ten times never
   fails because of what other processes did.  (This is what the oracle class
   survivor-errcorrupt-early of the runner relies on.) *)
From Coq Require Import List NArith ZArith Bool Lia Arith.
From Tele Require Import Gen.Consts Model.FileConc Proofs.FileConcBase Proofs.FileConcInv
  Proofs.FileConcThms Proofs.FileConcInv2.
Import ListNotations.
Open Scope N_scope.

Section Shapes.
Variable bucket : name -> N.
Variable nlen : name -> N.
Variable H : N.
Set Default Proof Using "All".

Notation place := (place nlen H).
Notation rec_start := (rec_start H).
Notation apply_act := (apply_act nlen).
Notation dispatch := (dispatch nlen).
Notation ret_cell := (ret_cell nlen).
Notation ret_fail := (ret_fail nlen).
Notation look_fail := (look_fail nlen).
Notation look_at := (look_at nlen H).
Notation dwalk := (dwalk nlen H).
Notation step_thread := (step_thread bucket nlen H).
Notation wf_shared := (wf_shared bucket nlen H).
Notation tinv := (tinv bucket nlen H).
Notation tinv2 := (tinv2 bucket nlen H).
Notation run := (run bucket nlen H).
Notation step := (step bucket nlen H).

Definition shape_ok (me : nat) (f : file) (t : thread) (l : list result) : Prop :=
  forall e, In (RFail e) l ->
    e = FEmpty \/ e = FTooLong \/ e = FRange \/
    (e = FBeyond /\ mine me f (t_start t) (t_nm t) true true) \/
    (e = FTries /\ 10 <= t_tries t).

Definition ext_ok (me : nat) (f : file) (t t' : thread) : Prop :=
  exists l, t_res t' = t_res t ++ l /\ shape_ok me f t l.

Lemma ext_dispatch : forall me f t ops t1 l0, t_res t1 = t_res t ++ l0 -> shape_ok me f t l0 ->
  ext_ok me f t (dispatch ops t1).
Proof.
  intros me f t ops. induction ops as [|o ops IH]; intros t1 l0 E S.
  - exists l0. cbn. auto.
  - destruct o as [nm|k]; cbn [FileConc.dispatch].
    + destruct (nlen nm =? 0).
      * apply (IH _ (l0 ++ [RFail FEmpty])).
        -- unfold push_res; cbn. rewrite E, app_assoc. reflexivity.
        -- intros e I. apply in_app_iff in I. destruct I as [I|[I|[]]]; [apply S; exact I|inversion I; auto].
      * destruct (c_maxNameLen <? nlen nm).
        -- apply (IH _ (l0 ++ [RFail FTooLong])).
           ++ unfold push_res; cbn. rewrite E, app_assoc. reflexivity.
           ++ intros e I. apply in_app_iff in I. destruct I as [I|[I|[]]]; [apply S; exact I|inversion I; auto].
        -- exists l0. cbn. auto.
    + destruct (t_cell t1 =? 0); [apply (IH _ l0); assumption|]. exists l0. cbn. auto.
Qed.

Lemma ext_same : forall me f t t', t_res t' = t_res t -> ext_ok me f t t'.
Proof. intros me f t t' E. exists []. rewrite app_nil_r. split; [exact E|intros e []]. Qed.

Lemma ext_ret_cell : forall me f t t1 c, t_res t1 = t_res t -> ext_ok me f t (ret_cell c t1).
Proof.
  intros me f t t1 c E. unfold FileConc.ret_cell. apply (ext_dispatch me f t _ _ [RCell c]).
  - unfold push_res; cbn. rewrite E. reflexivity.
  - intros e [I|[]]. discriminate.
Qed.

Lemma ext_ret_fail : forall me f t t1 e, t_res t1 = t_res t -> shape_ok me f t [RFail e] ->
  ext_ok me f t (ret_fail e t1).
Proof.
  intros me f t t1 e E S. unfold FileConc.ret_fail. apply (ext_dispatch me f t _ _ [RFail e]).
  - unfold push_res; cbn. rewrite E. reflexivity.
  - exact S.
Qed.

Lemma shape_one : forall me f t e,
  (e = FEmpty \/ e = FTooLong \/ e = FRange \/
   (e = FBeyond /\ mine me f (t_start t) (t_nm t) true true) \/ (e = FTries /\ 10 <= t_tries t)) ->
  shape_ok me f t [RFail e].
Proof. intros me f t e X e' [I|[]]. inversion I; subst. exact X. Qed.

Lemma ext_look_fail : forall me f t t1, t_res t1 = t_res t -> t_tries t1 = t_tries t -> ext_ok me f t (look_fail t1).
Proof.
  intros me f t t1 E Et. unfold FileConc.look_fail. destruct (10 <=? t_tries t1) eqn:Q.
  - apply ext_ret_fail; [exact E|]. apply shape_one. right; right; right; right. split; [reflexivity|].
    apply N.leb_le in Q. lia.
  - apply ext_same. exact E.
Qed.

Lemma ext_look_at : forall me f t t1 off n, t_res t1 = t_res t -> t_tries t1 = t_tries t -> ext_ok me f t (look_at t1 off n).
Proof.
  intros me f t t1 off n E Et. unfold FileConc.look_at.
  destruct (off =? 0); [apply ext_same; exact E|].
  destruct (_ || _ || _ || _); [apply ext_look_fail; assumption|apply ext_same; exact E].
Qed.

Lemma ext_dwalk : forall me f t t1 off n, t_res t1 = t_res t ->
  mine me f (t_start t) (t_nm t) true true -> ext_ok me f t (dwalk t1 off n).
Proof.
  intros me f t t1 off n E Mi. unfold FileConc.dwalk.
  destruct (off =? t_oldh t1); [apply ext_same; exact E|].
  destruct (_ || _ || _); [|apply ext_same; exact E].
  apply ext_ret_fail; [exact E|]. apply shape_one. right; right; right; left. auto.
Qed.

(* one step of one process *)
Theorem failure_shapes : forall me f t, wf_shared f -> tinv me f t -> tinv2 f t ->
  ext_ok me f t (snd (step_thread me f t)).
Proof.
  intros me f t W T (R & P2). pose proof T as (M0 & M1 & C & S & Bg & P).
  unfold pc_inv in P. unfold pc_inv2 in P2. unfold FileConc.step_thread.
  destruct (t_pc t) eqn:Pc; cbn [fst snd].
  - (* LHead *) apply ext_look_at; reflexivity.
  - (* LLen *)
    destruct P as (Nm & Ih & Io & Wk). destruct P2 as (Tr & Bd & Wk2).
    destruct (_ || _); cbn [snd]; [apply ext_look_fail; reflexivity|apply ext_same; reflexivity].
  - (* LNext *)
    destruct (name_eq f (t_off t) (t_nm t)); cbn [snd]; [apply ext_ret_cell; reflexivity|apply ext_look_at; reflexivity].
  - (* RLimit *)
    destruct P2 as (Tr & Lm). destruct (f_limit f <=? t_map t) eqn:Q; cbn [snd].
    + apply N.leb_le in Q. lia.
    + apply ext_same; reflexivity.
  - (* RMap *)
    destruct P2 as (Tr & Lm). destruct (f_size f <? t_lim t) eqn:Q; cbn [snd].
    + apply N.ltb_lt in Q. lia.
    + apply ext_same; reflexivity.
  - (* PLimit *)
    destruct (place (f_limit f) (t_nm t)) as [s e].
    destruct (W32 <=? round e PAGE); cbn [snd].
    + apply ext_ret_fail; [reflexivity|]. apply shape_one. auto.
    + destruct (t_map t <? e); cbn [snd]; apply ext_same; reflexivity.
  - (* EStat *) apply ext_same; reflexivity.
  - (* EWrite *) destruct (t_sz t <? round (t_end t) PAGE); cbn [snd]; apply ext_same; reflexivity.
  - (* EMap *)
    destruct (f_size f <? round (t_end t) PAGE) eqn:Q; cbn [snd].
    + apply N.ltb_lt in Q. lia.
    + apply ext_same; reflexivity.
  - (* PCas *) destruct (f_limit f =? t_lim t); cbn [snd]; apply ext_same; reflexivity.
  - (* WCopy *)
    destruct P2 as (B1 & B2).
    destruct ((t_start t <? rec_start) || (t_map t <? t_start t + 16 + nlen (t_nm t))) eqn:G; cbn [snd].
    + apply orb_true_iff in G. destruct G as [G|G]; apply N.ltb_lt in G; lia.
    + apply ext_same; reflexivity.
  - (* WLen *) apply ext_same; reflexivity.
  - (* KNext *) apply ext_same; reflexivity.
  - (* KCas *)
    destruct (head_of f (bucket (t_nm t)) =? t_head t); cbn [snd]; [apply ext_ret_cell; reflexivity|apply ext_same; reflexivity].
  - (* DHead *) destruct P as (Io & Fo & Mi). apply ext_dwalk; [reflexivity|exact Mi].
  - (* DLen *)
    destruct P as (Io & Fo & Mi & _).
    destruct (_ || _); cbn [snd]; [|apply ext_same; reflexivity].
    apply ext_ret_fail; [reflexivity|]. apply shape_one. right; right; right; left. auto.
  - (* DNext *)
    destruct P as (Io & Fo & Mi & Ih & Iof & Wk). destruct P2 as (Bd & Wk2).
    pose proof (walked2_count bucket nlen H _ _ _ _ _ _ W Wk2) as Cn.
    destruct (t_map t / UNIT <? t_n t) eqn:G; cbn [snd].
    + apply N.ltb_lt in G. unfold UNIT, c_recordUnit in G. lia.
    + destruct (name_eq f (t_off t) (t_nm t)); cbn [snd]; [apply ext_same; reflexivity|apply ext_dwalk; [reflexivity|exact Mi]].
  - (* DDead *) apply ext_ret_cell; reflexivity.
  - (* ALoad *) apply ext_same; reflexivity.
  - (* ACas *)
    destruct (load_val f (t_cell t) =? t_old t); cbn [snd]; [|apply ext_same; reflexivity].
    apply (ext_dispatch me f t _ _ []); [cbn; rewrite app_nil_r; reflexivity|intros e []].
  - (* Done *) apply ext_same; reflexivity.
Qed.

(* the same at every reachable state of every schedule *)
Theorem failure_shapes_reachable : forall st0 sched i t, init_ok bucket nlen H st0 ->
  nth_error (snd (run sched st0)) i = Some t ->
  ext_ok i (fst (run sched st0)) t (snd (step_thread i (fst (run sched st0)) t)).
Proof.
  intros st0 sched i t I0 E.
  destruct (Inv2_run bucket nlen H sched st0 (Inv2_init bucket nlen H st0 I0)) as ((W & TI & _) & T2).
  apply failure_shapes; [exact W|exact (TI i t E)|exact (T2 i t E)].
Qed.

(* ---- the caller's mapping.  t_map0 is the length of the mapping the process
   held when it called newCounter (other goroutines of the process may hold
   pointers into it); t_map is the mapping the call itself works on after a
   re-map or an extension.  No step inside a call touches t_map0: it is only
   replaced when the call returns a cell (and then by the call's mapping, for
   the caller to publish, invalidate the pointers and close the old one). *)
Lemma map0_dispatch : forall ops t, t_map0 (dispatch ops t) = t_map0 t.
Proof.
  induction ops as [|o ops IH]; intro t; [reflexivity|]. destruct o as [nm|k]; cbn [FileConc.dispatch].
  - destruct (nlen nm =? 0); [rewrite IH; reflexivity|]. destruct (c_maxNameLen <? nlen nm); [rewrite IH|]; reflexivity.
  - destruct (t_cell t =? 0); [apply IH|reflexivity].
Qed.

Lemma reslen_push : forall r t, length (t_res (push_res r t)) = S (length (t_res t)).
Proof. intros. unfold push_res. cbn [t_res set_res]. rewrite app_length. cbn. lia. Qed.

Lemma reslen_dispatch : forall ops t, (length (t_res t) <= length (t_res (dispatch ops t)))%nat.
Proof.
  induction ops as [|o ops IH]; intro t; [cbn; lia|]. destruct o as [nm|k]; cbn [FileConc.dispatch].
  - destruct (nlen nm =? 0).
    + specialize (IH (push_res (RFail FEmpty) (set_cell 0 t))). rewrite reslen_push in IH. cbn [t_res set_cell] in IH. lia.
    + destruct (c_maxNameLen <? nlen nm); [|cbn; lia].
      specialize (IH (push_res (RFail FTooLong) (set_cell 0 t))). rewrite reslen_push in IH. cbn [t_res set_cell] in IH. lia.
  - destruct (t_cell t =? 0); [apply IH|cbn; lia].
Qed.

Definition kept (t t' : thread) : Prop :=
  length (t_res t') = length (t_res t) -> t_map0 t' = t_map0 t.

Lemma kept_same : forall t t', t_map0 t' = t_map0 t -> kept t t'.
Proof. intros t t' E _. exact E. Qed.

Lemma kept_ret : forall t t1 ops r, t_res t1 = t_res t -> kept t (dispatch ops (push_res r t1)).
Proof.
  intros t t1 ops r E Len. exfalso.
  pose proof (reslen_dispatch ops (push_res r t1)) as X. rewrite reslen_push, E in X. lia.
Qed.

Lemma kept_look_fail : forall t t1, t_res t1 = t_res t -> t_map0 t1 = t_map0 t -> kept t (look_fail t1).
Proof.
  intros t t1 E M. unfold FileConc.look_fail. destruct (10 <=? t_tries t1).
  - unfold FileConc.ret_fail. apply kept_ret. exact E.
  - apply kept_same. exact M.
Qed.

Theorem caller_mapping_kept : forall me f t, kept t (snd (step_thread me f t)).
Proof.
  intros me f t. unfold FileConc.step_thread.
  destruct (t_pc t); cbn [fst snd];
    repeat match goal with
           | |- context [let '(_, _) := ?p in _] => destruct p
           | |- kept _ (snd (if ?c then _ else _)) => destruct c; cbn [fst snd]
           end;
    unfold FileConc.look_at, FileConc.dwalk;
    repeat match goal with
           | |- kept _ (if ?c then _ else _) => destruct c
           end;
    try (apply kept_same; reflexivity);
    try (apply kept_look_fail; reflexivity);
    try (unfold FileConc.ret_fail; apply kept_ret; reflexivity);
    try (unfold FileConc.ret_cell; apply kept_ret; reflexivity).
  (* ACas success: dispatch of the next operation *)
  apply kept_same. rewrite map0_dispatch. reflexivity.
Qed.

End Shapes.
