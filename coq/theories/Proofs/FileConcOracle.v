(* Proofs/FileConcOracle: the executable oracles that the runner evaluates on
   the decoded REAL file (wf_obsb, uniq_obsb of Model/FileConc) accept the
   view (obs_of) of every well-formed model file. *)
From Coq Require Import List NArith ZArith Bool Lia Arith.
From Tele Require Import Gen.Consts Model.FileConc Proofs.FileConcBase Proofs.FileConcInv
  Proofs.FileConcThms Proofs.FileConcInv2.
Import ListNotations.
Open Scope N_scope.

Lemma pairwise_intro : forall (A : Type) (key : A -> N) (p : A -> A -> bool) (l : list A),
  NoDup (map key l) ->
  (forall x y, In x l -> In y l -> key x <> key y -> p x y = true) ->
  pairwise p l = true.
Proof.
  induction l as [|x tl IH]; cbn; intros ND P; [reflexivity|].
  inversion ND as [|? ? NI ND']; subst. apply andb_true_iff. split.
  - apply forallb_forall. intros y Iy. apply P; auto. intro E. apply NI. rewrite E. apply in_map. exact Iy.
  - apply IH; [exact ND'|]. intros; apply P; auto.
Qed.

Lemma NoDup_flat_map : forall (g : N -> list N) (bs : list N),
  NoDup bs -> (forall b, NoDup (g b)) ->
  (forall b b' x, b <> b' -> In x (g b) -> In x (g b') -> False) ->
  NoDup (flat_map g bs).
Proof.
  induction bs as [|b bs IH]; cbn; intros ND G D; [constructor|].
  inversion ND as [|? ? NI ND']; subst.
  assert (App : forall l1 l2 : list N, NoDup l1 -> NoDup l2 -> (forall x, In x l1 -> In x l2 -> False) -> NoDup (l1 ++ l2)).
  { induction l1 as [|a l1 IH1]; cbn; intros l2 N1 N2 Dj; [exact N2|].
    inversion N1 as [|? ? NI1 N1']; subst. constructor.
    - intro I. apply in_app_iff in I. destruct I as [I|I]; [tauto|]. apply (Dj a); auto.
    - apply IH1; auto. intros x I1 I2. apply (Dj x); auto. }
  apply App; [apply G|apply IH; auto|].
  intros x I1 I2. apply in_flat_map in I2. destruct I2 as (b' & Ib' & Ix).
  apply (D b b' x); auto. intro E. subst. tauto.
Qed.

Section Oracle.
Variable bucket : name -> N.
Variable nlen : name -> N.
Variable H : N.
Set Default Proof Using "All".

Notation rsize := (rsize nlen).
Notation rec_start := (rec_start H).
Notation wf_shared := (wf_shared bucket nlen H).

Definition view_of (r : rec) : ent := (r_off r, (r_name r, (r_val r, r_next r))).

Lemma chain_view_spec : forall f b, wf_shared f ->
  Forall2 (fun o e => exists r, find_rec o (f_recs f) = Some r /\ e = view_of r) (f_chain f b) (chain_view f b).
Proof.
  intros f b W. destruct (proj2 W b) as (_ & LR & _). unfold chain_view.
  induction (f_chain f b) as [|o l IH]; cbn; [constructor|]. constructor.
  - destruct (LR o (or_introl eq_refl)) as (r & E & _). exists r. split; [exact E|]. rewrite E.
    apply find_rec_some in E. destruct E as [_ <-]. reflexivity.
  - apply IH. intros x Ix. apply LR. right. exact Ix.
Qed.

Lemma chain_view_offs : forall f b, wf_shared f -> map e_off (chain_view f b) = f_chain f b.
Proof.
  intros f b W. pose proof (chain_view_spec f b W) as F.
  induction F as [|o e l l' (r & E & ->) F IH]; cbn; [reflexivity|]. rewrite IH.
  apply find_rec_some in E. destruct E as [_ ->]. reflexivity.
Qed.

(* the per-chain oracle *)
Lemma chain_ok_model : forall f b, wf_shared f -> (forall r, In r (f_recs f) -> r_val r <= MAX64) ->
  chain_ok bucket nlen H false (f_limit f) b (chain_view f b) = true.
Proof.
  intros f b W VB. pose proof W as [WL WC]. destruct (WC b) as (ND & LR & LO & NN).
  destruct WL as (_ & _ & _ & _ & _ & L & _).
  pose proof (chain_view_spec f b W) as F. pose proof (chain_view_offs f b W) as Eo.
  revert LR LO Eo. clear ND NN.
  induction F as [|o e l l' (r & E & ->) F IH]; intros LR LO Eo; [reflexivity|].
  cbn [chain_ok]. apply andb_true_iff. split.
  - destruct (LR o (or_introl eq_refl)) as (r' & E' & Cp & Lw & Bk). rewrite E in E'. inversion E'; subst r'.
    pose proof (find_rec_some _ _ _ E) as [Ir Er]. destruct (L r Ir) as (L1 & L2 & L3 & L4 & L5 & L6).
    cbn [linked_ok] in LO. destruct LO as [Ln _]. unfold load_next in Ln. rewrite E in Ln.
    cbn [map] in Eo. inversion Eo as [[Eo1 Eo2]].
    unfold ent_ok, view_of, e_off, e_name, e_val, e_next; cbn [fst snd].
    rewrite !andb_true_iff. splits.
    + apply N.eqb_eq. unfold UNIT, c_recordUnit. exact L1.
    + apply N.leb_le. exact L2.
    + apply N.leb_le. exact L3.
    + apply N.eqb_eq. unfold PAGE, c_pageSize. exact L4.
    + cbn [orb]. apply N.leb_le. exact L6.
    + apply N.leb_le. exact L5.
    + apply N.eqb_eq. exact Bk.
    + apply N.eqb_eq. rewrite Ln.
      destruct l' as [|e' l'']; destruct l as [|o' l3]; cbn in Eo2 |- *; try discriminate; try reflexivity.
      inversion Eo2; reflexivity.
    + apply N.leb_le. apply VB. exact Ir.
  - apply IH.
    + intros x Ix. apply LR. right. exact Ix.
    + cbn [linked_ok] in LO. apply LO.
    + cbn [map] in Eo. inversion Eo. reflexivity.
Qed.

Definition nonempty (bc : N * list ent) : bool := match snd bc with [] => false | _ => true end.

Lemma buckets_spec : NoDup buckets /\ forall b, In b buckets -> b < c_numHash.
Proof.
  unfold buckets. split.
  - apply NoDup_map_inj_in; [intros x y _ _ E; apply Nat2N.inj; exact E|apply seq_NoDup].
  - intros b I. apply in_map_iff in I. destruct I as (k & <- & Ik). apply in_seq in Ik. lia.
Qed.

Lemma all_ents_eq : forall o, all_ents o = flat_map snd (o_chains o).
Proof. reflexivity. Qed.

Lemma obs_chains_eq : forall f, o_chains (obs_of f) =
  filter (fun bc : N * list ent => match snd bc with [] => false | _ => true end)
         (map (fun b => (b, chain_view f b)) buckets).
Proof. reflexivity. Qed.

Lemma obs_chains_spec : forall f bc, In bc (o_chains (obs_of f)) ->
  In (fst bc) buckets /\ snd bc = chain_view f (fst bc).
Proof.
  intros f bc I. rewrite obs_chains_eq in I. apply filter_In in I. destruct I as [I _].
  apply in_map_iff in I. destruct I as (b & <- & Ib). auto.
Qed.

(* all entries of the view, by their offsets *)
Lemma all_ents_offs : forall f, wf_shared f ->
  map e_off (all_ents (obs_of f)) =
  flat_map (f_chain f) (filter (fun b => match f_chain f b with [] => false | _ => true end) buckets).
Proof.
  intros f W. rewrite all_ents_eq, obs_chains_eq.
  induction buckets as [|b bs IH]; [reflexivity|]. cbn [map filter].
  pose proof (chain_view_offs f b W) as Eo.
  destruct (f_chain f b) as [|o l] eqn:Ec.
  - destruct (chain_view f b); [cbn; exact IH|discriminate].
  - destruct (chain_view f b) as [|e l'] eqn:Ev; [discriminate|].
    cbn [snd flat_map]. rewrite map_app, IH, Eo, Ec. reflexivity.
Qed.

Lemma all_ents_nodup : forall f, wf_shared f -> NoDup (map e_off (all_ents (obs_of f))).
Proof.
  intros f W. rewrite all_ents_offs by exact W. apply NoDup_flat_map.
  - apply NoDup_filter. apply buckets_spec.
  - intro b. apply (proj2 W b).
  - intros b b' x Ne I1 I2. destruct (proj2 W b) as (_ & LR1 & _). destruct (proj2 W b') as (_ & LR2 & _).
    destruct (LR1 x I1) as (r1 & E1 & _ & _ & B1). destruct (LR2 x I2) as (r2 & E2 & _ & _ & B2).
    rewrite E1 in E2. inversion E2; subst. congruence.
Qed.

Lemma view_in : forall f (l : list N) (l' : list ent) e,
  Forall2 (fun o e => exists r, find_rec o (f_recs f) = Some r /\ e = view_of r) l l' ->
  In e l' -> exists r, In (e_off e) l /\ find_rec (e_off e) (f_recs f) = Some r /\ e = view_of r.
Proof.
  intros f l l' e F. induction F as [|o e' l l' (r & E & ->) F IH]; intro Ie; [destruct Ie|].
  destruct Ie as [<-|Ie].
  - exists r. pose proof (find_rec_some _ _ _ E) as [_ Er].
    assert (Eo : e_off (view_of r) = o) by (unfold view_of, e_off; cbn [fst]; exact Er).
    rewrite Eo. splits; auto. left; reflexivity.
  - destruct (IH Ie) as (r' & A & B & C'). exists r'. splits; auto. right; exact A.
Qed.

Lemma all_ents_spec : forall f e, wf_shared f -> In e (all_ents (obs_of f)) ->
  exists b r, In (e_off e) (f_chain f b) /\ find_rec (e_off e) (f_recs f) = Some r /\ e = view_of r.
Proof.
  intros f e W I. rewrite all_ents_eq in I. apply in_flat_map in I. destruct I as (bc & Ibc & Ie).
  destruct (obs_chains_spec f bc Ibc) as [_ Ev]. rewrite Ev in Ie.
  exists (fst bc). apply (view_in f _ _ e (chain_view_spec f (fst bc) W) Ie).
Qed.

Theorem oracle_accepts_model : forall f, wf_shared f ->
  (forall r, In r (f_recs f) -> r_val r <= MAX64) ->
  wf_obsb bucket nlen H false (obs_of f) = true /\ uniq_obsb (obs_of f) = true.
Proof.
  intros f W VB. pose proof W as [WL WC].
  destruct WL as (A & B & C & D & E0 & L & P & NDo & DM).
  split.
  - unfold wf_obsb. repeat (apply andb_true_iff; split).
    + apply N.eqb_eq. unfold obs_of; cbn [o_size]. unfold PAGE, c_pageSize. exact A.
    + apply N.leb_le. exact B.
    + apply N.leb_le. exact C.
    + apply forallb_forall. intros bc Ibc. destruct (obs_chains_spec f bc Ibc) as [Ib Ev].
      apply andb_true_iff. split; [apply N.ltb_lt; apply buckets_spec; exact Ib|].
      rewrite Ev. unfold obs_of; cbn [o_limit]. apply chain_ok_model; assumption.
    + apply (pairwise_intro _ fst).
      * rewrite obs_chains_eq.
        assert (X : forall bs, NoDup bs -> NoDup (map fst (filter (fun bc : N * list ent => match snd bc with [] => false | _ => true end)
                                            (map (fun b => (b, chain_view f b)) bs)))).
        { induction bs as [|b bs IH]; cbn; intro ND; [constructor|]. inversion ND as [|? ? NI ND']; subst.
          destruct (chain_view f b); cbn; [apply IH; exact ND'|]. constructor; [|apply IH; exact ND'].
          intro I. apply in_map_iff in I. destruct I as (bc & Eb & Ibc). apply filter_In in Ibc. destruct Ibc as [Ibc _].
          apply in_map_iff in Ibc. destruct Ibc as (b' & <- & Ib'). cbn in Eb. subst. tauto. }
        apply X. apply buckets_spec.
      * intros x y _ _ Ne. apply negb_true_iff. apply N.eqb_neq. exact Ne.
    + apply (pairwise_intro _ e_off); [apply all_ents_nodup; exact W|].
      intros x y Ix Iy Ne.
      destruct (all_ents_spec f x W Ix) as (b1 & r1 & _ & E1 & ->).
      destruct (all_ents_spec f y W Iy) as (b2 & r2 & _ & E2 & ->).
      apply find_rec_some in E1, E2. destruct E1 as [I1 O1]. destruct E2 as [I2 O2].
      unfold disjoint_ents, view_of, e_off, e_name in *; cbn [fst snd] in *.
      apply orb_true_iff. destruct (N.lt_ge_cases (r_off r1) (r_off r2)) as [Lt|Ge].
      * left. apply N.leb_le. apply P; auto.
      * right. apply N.leb_le. apply P; auto. lia.
  - unfold uniq_obsb. apply (pairwise_intro _ e_off); [apply all_ents_nodup; exact W|].
    intros x y Ix Iy Ne. apply negb_true_iff. apply N.eqb_neq. intro En. apply Ne.
    destruct (all_ents_spec f x W Ix) as (b1 & r1 & J1 & E1 & Ex).
    destruct (all_ents_spec f y W Iy) as (b2 & r2 & J2 & E2 & Ey).
    destruct (WC b1) as (_ & LR1 & _ & NN). destruct (WC b2) as (_ & LR2 & _).
    destruct (LR1 _ J1) as (r1' & E1' & _ & _ & B1). destruct (LR2 _ J2) as (r2' & E2' & _ & _ & B2).
    rewrite E1 in E1'. inversion E1'; subst r1'. rewrite E2 in E2'. inversion E2'; subst r2'.
    assert (Nm : r_name r1 = r_name r2) by (subst x y; unfold view_of, e_name in En; cbn [fst snd] in En; exact En).
    assert (Eb : b2 = b1) by congruence. rewrite Eb in J2. clear Eb B1 B2 LR1 LR2.
    assert (Inj : forall l, NoDup (map (name_at f) l) -> In (e_off x) l -> In (e_off y) l ->
                   name_at f (e_off x) = name_at f (e_off y) -> e_off x = e_off y).
    { induction l as [|z l IH]; cbn; intros ND K1 K2 Eq; [contradiction|].
      inversion ND as [|? ? NI ND']; subst.
      destruct K1 as [K1|K1]; destruct K2 as [K2|K2]; try congruence; auto.
      - exfalso. apply NI. rewrite K1, Eq. apply in_map. exact K2.
      - exfalso. apply NI. rewrite K2, <- Eq. apply in_map. exact K1. }
    apply (Inj _ NN J1 J2). unfold name_at. rewrite E1, E2. cbn. congruence.
Qed.

(* at every reachable state *)
Theorem oracle_accepts_reachable : forall st0 sched, init_ok bucket nlen H st0 ->
  let f := fst (run bucket nlen H sched st0) in
  wf_obsb bucket nlen H false (obs_of f) = true /\ uniq_obsb (obs_of f) = true.
Proof.
  intros st0 sched I0 f. destruct (reach_inv bucket nlen H st0 sched I0) as (W & _ & V).
  apply oracle_accepts_model; [exact W|]. intros r Ir. fold f in V. rewrite (V r Ir). unfold sat. lia.
Qed.

End Oracle.
