(* Proofs/FileConcInv2: a second invariant layer on top of Proofs/FileConcInv: which failures a call can return, bounds on
   the walks (the cycle guards never fire), on the remap loop and on extend. *)
From Coq Require Import List NArith ZArith Bool Lia Arith.
From Tele Require Import Gen.Consts Model.FileConc Proofs.FileConcBase Proofs.FileConcInv Proofs.FileConcThms.
Import ListNotations.
Open Scope N_scope.
Set Default Proof Using "Type".

(* ---- counting aligned offsets below a bound ---- *)
Lemma NoDup_map_inj_in : forall (A B : Type) (g : A -> B) (l : list A),
  (forall x y, In x l -> In y l -> g x = g y -> x = y) -> NoDup l -> NoDup (map g l).
Proof.
  induction l as [|a l IH]; cbn; intros Inj ND; [constructor|].
  inversion ND as [|? ? NI ND']; subst. constructor.
  - intro I. apply in_map_iff in I. destruct I as (y & E & Iy).
    assert (y = a) by (apply Inj; auto). subst. tauto.
  - apply IH; [intros; apply Inj; auto|exact ND'].
Qed.

Lemma count_bound : forall (pre : list N) m, NoDup pre ->
  (forall x, In x pre -> x mod 32 = 0 /\ 32 <= x /\ x + 16 <= m) ->
  N.of_nat (length pre) <= m / 32.
Proof.
  intros pre m ND P.
  set (g := fun x : N => N.to_nat (x / 32 - 1)).
  assert (NDg : NoDup (map g pre)).
  { apply NoDup_map_inj_in; [|exact ND]. intros x y Ix Iy E.
    destruct (P x Ix) as (A1 & A2 & _). destruct (P y Iy) as (B1 & B2 & _).
    unfold g in E. apply N2Nat.inj in E. clear - A1 A2 B1 B2 E. nlia. }
  assert (Incl : incl (map g pre) (seq 0 (N.to_nat (m / 32)))).
  { intros k Ik. apply in_map_iff in Ik. destruct Ik as (x & <- & Ix).
    destruct (P x Ix) as (A1 & A2 & A3). apply in_seq. split; [lia|]. cbn. unfold g.
    clear - A1 A2 A3. nlia. }
  pose proof (NoDup_incl_length NDg Incl) as Len. rewrite map_length, seq_length in Len. lia.
Qed.

Lemma NoDup_app_l : forall (l1 l2 : list N), NoDup (l1 ++ l2) -> NoDup l1.
Proof.
  induction l1 as [|a l1 IH]; cbn; intros l2 ND; [constructor|].
  inversion ND as [|? ? NI ND']; subst. constructor.
  - intro I. apply NI. apply in_or_app. left. exact I.
  - eapply IH; eauto.
Qed.

Lemma NoDup_suf : forall o l, NoDup l -> NoDup (suf o l).
Proof.
  induction l as [|y tl IH]; cbn; intro ND; [constructor|].
  destruct (y =? o); [exact ND|]. inversion ND; subst. auto.
Qed.

Lemma suf_length_le : forall o l, (length (suf o l) <= length l)%nat.
Proof.
  induction l as [|y tl IH]; cbn; [lia|]. destruct (y =? o); cbn; lia.
Qed.

Section Inv2.
Variable bucket : name -> N.
Variable nlen : name -> N.
Variable H : N.
Set Default Proof Using "All".

Notation rsize := (rsize nlen).
Notation place := (place nlen H).
Notation rec_start := (rec_start H).
Notation apply_act := (apply_act nlen).
Notation dispatch := (dispatch nlen).
Notation ret_cell := (ret_cell nlen).
Notation ret_fail := (ret_fail nlen).
Notation look_fail := (look_fail nlen).
Notation look_at := (look_at nlen H).
Notation dwalk := (dwalk nlen H).
Notation step_thread := (step_thread bucket nlen H).
Notation step := (step bucket nlen H).
Notation run := (run bucket nlen H).
Notation wf_shared := (wf_shared bucket nlen H).
Notation tinv := (tinv bucket nlen H).
Notation Inv := (Inv bucket nlen H).
Notation inch := (inch).

(* the failures a call may return: its own empty or over-long name, the two
   stale-mapping failures of the known finding, the model's 4 GiB bound *)
Definition allowed (e : fail) : bool :=
  match e with FEmpty | FTooLong | FBeyond | FTries | FRange => true | _ => false end.
Definition res_ok (t : thread) : Prop :=
  Forall (fun r => match r with RFail e => allowed e = true | RCell _ => True end) (t_res t).

Definition walked2 (f : file) (b h off n m : N) : Prop :=
  exists pre, suf h (f_chain f b) = pre ++ suf off (f_chain f b) /\
              N.of_nat (length pre) = n /\ forall x, In x pre -> x + 16 <= m.

Definition pc_inv2 (f : file) (t : thread) : Prop :=
  let b := bucket (t_nm t) in
  match t_pc t with
  | LHead => t_tries t <= 10
  | LLen | LNext =>
      t_tries t <= 10 /\ t_off t + 16 <= t_map t /\ walked2 f b (t_head t) (t_off t) (t_n t) (t_map t)
  | RLimit => t_tries t < 10 /\ t_map t < f_limit f
  | RMap => t_tries t < 10 /\ t_lim t <= f_size f
  | EWrite => t_sz t <= f_size f
  | EMap => round (t_end t) PAGE <= f_size f
  | WCopy => rec_start <= t_start t /\ t_start t + 16 + nlen (t_nm t) <= t_map t
  | DLen | DNext => t_off t + 16 <= t_map t /\ walked2 f b (t_head t) (t_off t) (t_n t) (t_map t)
  | _ => True
  end.

Definition tinv2 (f : file) (t : thread) : Prop := res_ok t /\ pc_inv2 f t.

(* ---- stability ---- *)
Lemma walked2_ev : forall f f' b h off n m, evolve f f' -> inch f b h -> inch f b off ->
  walked2 f b h off n m -> walked2 f' b h off n m.
Proof.
  intros f f' b h off n m Ev Ih Io (pre & E & Ln & P). exists pre.
  rewrite (suf_ev f f' b h Ev Ih), (suf_ev f f' b off Ev Io). auto.
Qed.

Lemma tinv2_stable : forall me f f' t, evolve f f' -> tinv me f t -> tinv2 f t -> tinv2 f' t.
Proof.
  intros me f f' t Ev (_ & _ & _ & _ & _ & P) (R & P2). split; [exact R|].
  pose proof (ev_size _ _ Ev) as Es. pose proof (ev_limit _ _ Ev) as El.
  unfold pc_inv, pc_inv2 in *. destruct (t_pc t); try exact P2;
    repeat match goal with H : _ /\ _ |- _ => destruct H end; splits; auto; try lia.
  - eapply walked2_ev; eauto. right; assumption.
  - eapply walked2_ev; eauto. right; assumption.
  - eapply walked2_ev; eauto. right; assumption.
  - eapply walked2_ev; eauto. right; assumption.
Qed.

(* ---- local helper lemmas ---- *)
Lemma res_ok_push_cell : forall c t, res_ok t -> res_ok (push_res (RCell c) t).
Proof. intros c t R. unfold res_ok, push_res; cbn. apply Forall_app. split; [exact R|repeat constructor]. Qed.
Lemma res_ok_push_fail : forall e t, res_ok t -> allowed e = true -> res_ok (push_res (RFail e) t).
Proof. intros e t R A. unfold res_ok, push_res; cbn. apply Forall_app. split; [exact R|repeat constructor; exact A]. Qed.

Lemma dispatch_tinv2 : forall f ops t, res_ok t -> tinv2 f (dispatch ops t).
Proof.
  intros f ops. induction ops as [|o ops IH]; intros t R.
  - cbn. split; [exact R|exact I].
  - destruct o as [nm|k]; cbn [FileConc.dispatch].
    + destruct (nlen nm =? 0); [apply IH; apply (res_ok_push_fail FEmpty (set_cell 0 t)); [exact R|reflexivity]|].
      destruct (c_maxNameLen <? nlen nm).
      * apply IH. apply (res_ok_push_fail FTooLong (set_cell 0 t)); [exact R|reflexivity].
      * split; [exact R|]. unfold pc_inv2; cbn. lia.
    + destruct (t_cell t =? 0); [apply IH; exact R|]. split; [exact R|exact I].
Qed.

Lemma ret_cell_tinv2 : forall f c t, res_ok t -> tinv2 f (ret_cell c t).
Proof.
  intros f c t R. unfold FileConc.ret_cell. apply dispatch_tinv2.
  apply (res_ok_push_cell c (set_cell c (set_map0 (t_map t) t))). exact R.
Qed.

Lemma ret_fail_tinv2 : forall f e t, res_ok t -> allowed e = true -> tinv2 f (ret_fail e t).
Proof.
  intros f e t R A. unfold FileConc.ret_fail. apply dispatch_tinv2.
  apply (res_ok_push_fail e (set_cell 0 (set_map (t_map0 t) t))); assumption.
Qed.

(* a linked record, seen from a mapping of length m *)
Lemma linked_bounds : forall f b o, wf_shared f -> In o (f_chain f b) ->
  o mod 32 = 0 /\ H + 2052 <= o /\ o + 48 <= f_limit f + 31 /\
  exists nl, load_len nlen f o = nl /\ 1 <= nl /\ o + 16 + nl <= f_limit f.
Proof.
  intros f b o W I. pose proof W as [WL WC]. destruct (WC b) as (_ & LR & _).
  destruct (LR o I) as (r & E & Cp & Lw & Bk). pose proof (find_rec_some _ _ _ E) as [Ir Eo].
  destruct WL as (_ & _ & _ & _ & _ & L & _). destruct (L r Ir) as (L1 & L2 & L3 & L4 & L5 & Np).
  destruct (rsize_facts nlen (r_name r)) as (R1 & R2 & R3 & R4). cbv zeta in *. rewrite (rec_start_val H) in L2. subst o.
  splits; try lia. exists (nlen (r_name r)).
  unfold load_len. rewrite E, Lw. rewrite N.mod_small by (unfold_consts; lia). splits; lia.
Qed.

Lemma walked2_count : forall f b h off n m, wf_shared f -> walked2 f b h off n m -> n <= m / 32.
Proof.
  intros f b h off n m W (pre & E & Ln & P). rewrite <- Ln.
  destruct (proj2 W b) as (ND & _).
  assert (NDp : NoDup pre).
  { pose proof (NoDup_suf h _ ND) as X. rewrite E in X. apply NoDup_app_l in X. exact X. }
  apply count_bound; [exact NDp|]. intros x Ix.
  assert (Il : In x (f_chain f b)) by (apply (suf_incl h); rewrite E; apply in_or_app; left; exact Ix).
  destruct (linked_bounds f b x W Il) as (A1 & A2 & _). splits; auto; lia.
Qed.

Lemma look_fail_tinv2 : forall f t, res_ok t -> t_tries t <= 10 -> t_map t < f_limit f -> tinv2 f (look_fail t).
Proof.
  intros f t R Tr Lm. unfold FileConc.look_fail. destruct (10 <=? t_tries t) eqn:Q.
  - apply ret_fail_tinv2; [exact R|reflexivity].
  - apply N.leb_gt in Q. split; [exact R|]. unfold pc_inv2; cbn. split; assumption.
Qed.

Lemma look_at_tinv2 : forall f t off n, wf_shared f -> res_ok t -> t_tries t <= 10 ->
  inch f (bucket (t_nm t)) off ->
  walked2 f (bucket (t_nm t)) (t_head t) off n (t_map t) ->
  tinv2 f (look_at t off n).
Proof.
  intros f t off n W R Tr Io Wk. unfold FileConc.look_at.
  destruct (off =? 0) eqn:Q0; [split; [exact R|exact I]|]. apply N.eqb_neq in Q0.
  destruct Io as [->|Io]; [contradiction|].
  destruct (linked_bounds f _ off W Io) as (A1 & A2 & A3 & _).
  pose proof (walked2_count _ _ _ _ _ _ W Wk) as Cn.
  destruct ((t_map t / UNIT <? n) || (off <? H + c_hashOff) || negb (off mod 8 =? 0) || (t_map t <? off + 16)) eqn:G.
  - apply look_fail_tinv2; auto.
    repeat (apply orb_true_iff in G; destruct G as [G|G]).
    + apply N.ltb_lt in G. unfold UNIT, c_recordUnit in G. lia.
    + apply N.ltb_lt in G. unfold_consts. lia.
    + apply negb_true_iff in G. apply N.eqb_neq in G. exfalso. apply G. clear - A1. nlia.
    + apply N.ltb_lt in G. lia.
  - apply orb_false_iff in G. destruct G as [_ G]. apply N.ltb_ge in G.
    split; [exact R|]. unfold pc_inv2; cbn. splits; auto.
Qed.

Lemma dwalk_tinv2 : forall f t off n, wf_shared f -> res_ok t ->
  walked2 f (bucket (t_nm t)) (t_head t) off n (t_map t) ->
  tinv2 f (dwalk t off n).
Proof.
  intros f t off n W R Wk. unfold FileConc.dwalk.
  destruct (off =? t_oldh t); [split; [exact R|exact I]|].
  destruct ((off <? H + c_hashOff) || negb (off mod 8 =? 0) || (t_map t <? off + 16)) eqn:G.
  - apply ret_fail_tinv2; [exact R|reflexivity].
  - apply orb_false_iff in G. destruct G as [_ G]. apply N.ltb_ge in G.
    split; [exact R|]. unfold pc_inv2; cbn. splits; auto.
Qed.

Lemma walked2_refl : forall f b h m, walked2 f b h h 0 m.
Proof. intros. exists []. splits; auto. intros x []. Qed.

Lemma walked2_step : forall f b h off n m, wf_shared f -> In off (f_chain f b) -> off + 16 <= m ->
  walked2 f b h off n m -> walked2 f b h (load_next f off) (n + 1) m.
Proof.
  intros f b h off n m W I Bd (pre & E & Ln & P).
  destruct (proj2 W b) as (ND & LR & LO & NN).
  pose proof (zero_not_linked bucket nlen H f b W) as Z.
  destruct (suf_in off _ I) as (rest & Es).
  pose proof (linked_ok_suf f off _ rest LO Es) as Lnx.
  pose proof (suf_next off _ rest ND Z Es) as Sn.
  exists (pre ++ [off]). rewrite Lnx, Sn, E, Es, <- app_assoc. splits; auto.
  - rewrite app_length. cbn. lia.
  - intros x Ix. apply in_app_iff in Ix. destruct Ix as [Ix|[<-|[]]]; auto.
Qed.

(* ---- one step of one process ---- *)
Lemma step_tinv2 : forall me f t, wf_shared f -> tinv me f t -> tinv2 f t ->
  tinv2 (match fst (step_thread me f t) with Some a => apply_act a f | None => f end)
        (snd (step_thread me f t)).
Proof.
  intros me f t W T (R & P2). pose proof T as (M0 & M1 & C & S & Bg & P).
  unfold pc_inv in P. unfold pc_inv2 in P2. unfold FileConc.step_thread.
  destruct (t_pc t) eqn:Pc; cbn [fst snd].
  - (* LHead *)
    apply look_at_tinv2; cbn; auto using head_inch, walked2_refl.
  - (* LLen *)
    destruct P as ([Nm1 Nm2] & Ih & Io & Wk). destruct P2 as (Tr & Bd & Wk2).
    destruct (linked_bounds f _ _ W Io) as (A1 & A2 & A3 & nl & El & N1 & N2).
    destruct ((load_len nlen f (t_off t) =? 0) || (t_map t <? t_off t + 16 + load_len nlen f (t_off t))) eqn:G; cbn [fst snd].
    + apply look_fail_tinv2; auto. rewrite El in G.
      apply orb_true_iff in G. destruct G as [G|G]; [apply N.eqb_eq in G; lia|apply N.ltb_lt in G; lia].
    + split; [exact R|]. unfold pc_inv2; cbn. splits; auto.
  - (* LNext *)
    destruct P as ([Nm1 Nm2] & Ih & Io & Wk). destruct P2 as (Tr & Bd & Wk2).
    destruct (name_eq f (t_off t) (t_nm t)) eqn:Q; cbn [fst snd].
    + apply ret_cell_tinv2; exact R.
    + destruct (walk_step bucket nlen H f _ _ _ _ W Io Wk Q) as [I2 _].
      apply look_at_tinv2; auto. apply walked2_step; auto.
  - (* RLimit *)
    destruct P2 as (Tr & Lm). destruct (f_limit f <=? t_map t) eqn:Q; cbn [fst snd].
    + apply N.leb_le in Q. lia.
    + split; [exact R|]. unfold pc_inv2; cbn. split; [exact Tr|]. destruct W as [(_ & _ & X & _) _]. exact X.
  - (* RMap *)
    destruct P2 as (Tr & Lm). destruct (f_size f <? t_lim t) eqn:Q; cbn [fst snd].
    + apply N.ltb_lt in Q. lia.
    + split; [exact R|]. unfold pc_inv2; cbn. lia.
  - (* PLimit *)
    destruct (place (f_limit f) (t_nm t)) as [s e].
    destruct (W32 <=? round e PAGE); cbn [fst snd]; [apply ret_fail_tinv2; [exact R|reflexivity]|].
    destruct (t_map t <? e); cbn [fst snd]; split; try exact R; exact I.
  - (* EStat *)
    split; [exact R|]. unfold pc_inv2; cbn. lia.
  - (* EWrite *)
    destruct (t_sz t <? round (t_end t) PAGE) eqn:Q; cbn [fst snd]; (split; [exact R|]); unfold pc_inv2; cbn.
    + lia.
    + apply N.ltb_ge in Q. lia.
  - (* EMap *)
    destruct (f_size f <? round (t_end t) PAGE) eqn:Q; cbn [fst snd].
    + apply N.ltb_lt in Q. lia.
    + split; [exact R|exact I].
  - (* PCas *)
    destruct P as ([Nm1 Nm2] & Ih & Fr & Pl & En & Rg).
    destruct (f_limit f =? t_lim t) eqn:Q; cbn [fst snd]; [|split; [exact R|exact I]].
    apply N.eqb_eq in Q. split; [exact R|]. unfold pc_inv2; cbn.
    destruct (place_spec nlen H _ _ _ _ Pl Nm2) as (P1 & P2' & P3 & P4 & P5).
    destruct (rsize_facts nlen (t_nm t)) as (R1 & _). cbv zeta in R1.
    destruct W as [(_ & _ & _ & _ & E0 & _) _]. rewrite <- Q in P1.
    split; [|lia]. destruct (f_limit f =? 0) eqn:Q0; [lia|]. apply N.eqb_neq in Q0. lia.
  - (* WCopy *)
    destruct P2 as (B1 & B2).
    destruct ((t_start t <? rec_start) || (t_map t <? t_start t + 16 + nlen (t_nm t))) eqn:G; cbn [fst snd].
    + apply orb_true_iff in G. destruct G as [G|G]; apply N.ltb_lt in G; lia.
    + split; [exact R|exact I].
  - (* WLen *) split; [exact R|exact I].
  - (* KNext *) split; [exact R|exact I].
  - (* KCas *)
    destruct (head_of f (bucket (t_nm t)) =? t_head t); cbn [fst snd].
    + apply ret_cell_tinv2; exact R.
    + split; [exact R|exact I].
  - (* DHead *)
    apply dwalk_tinv2; cbn; auto using walked2_refl.
  - (* DLen *)
    destruct P2 as (Bd & Wk2).
    destruct ((load_len nlen f (t_off t) =? 0) || (t_map t <? t_off t + 16 + load_len nlen f (t_off t))); cbn [fst snd].
    + apply ret_fail_tinv2; [exact R|reflexivity].
    + split; [exact R|]. unfold pc_inv2; cbn. auto.
  - (* DNext *)
    destruct P as (Io & Fo & Mi & Ih & Iof & Wk). destruct P2 as (Bd & Wk2).
    pose proof (walked2_count _ _ _ _ _ _ W Wk2) as Cn.
    destruct (t_map t / UNIT <? t_n t) eqn:G; cbn [fst snd].
    + apply N.ltb_lt in G. unfold UNIT, c_recordUnit in G. lia.
    + destruct (name_eq f (t_off t) (t_nm t)); cbn [fst snd]; [split; [exact R|exact I]|].
      apply dwalk_tinv2; auto. apply walked2_step; auto.
  - (* DDead *) apply ret_cell_tinv2; exact R.
  - (* ALoad *) split; [exact R|exact I].
  - (* ACas *)
    destruct (load_val f (t_cell t) =? t_old t); cbn [fst snd]; [|split; [exact R|exact I]].
    apply dispatch_tinv2. exact R.
  - (* Done *) split; [exact R|]. unfold pc_inv2. rewrite Pc. exact I.
Qed.

(* ---- the global second invariant ---- *)
Definition Inv2 (st : state) : Prop :=
  Inv st /\ forall i t, nth_error (snd st) i = Some t -> tinv2 (fst st) t.

Lemma Inv2_step : forall st i, Inv2 st -> Inv2 (step st i).
Proof.
  intros st i (In & T2). split; [apply Inv_step; exact In|].
  pose proof (step_evolve bucket nlen H st i In) as Ev.
  destruct st as [f ts]. destruct In as (W & TI & V). cbn [fst snd] in *.
  unfold FileConc.step in *. destruct (nth_error ts i) as [t|] eqn:E; [|exact T2].
  pose proof (step_tinv2 i f t W (TI i t E) (T2 i t E)) as S2.
  destruct (step_thread i f t) as [oa t']. cbn [fst snd] in *.
  intros j tj Ej. destruct (Nat.eq_dec i j) as [<-|Ne].
  - rewrite (nth_upd_same _ ts i t' t E) in Ej. inversion Ej; subst. exact S2.
  - rewrite nth_upd_other in Ej by exact Ne. eapply tinv2_stable; eauto.
Qed.

Lemma Inv2_run : forall sched st, Inv2 st -> Inv2 (run sched st).
Proof.
  induction sched as [|i sched IH]; intros st I; [exact I|]. cbn. apply IH. apply Inv2_step. exact I.
Qed.

Lemma Inv2_init : forall st, init_ok bucket nlen H st -> Inv2 st.
Proof.
  intros st I0. split; [apply Inv_init; exact I0|].
  destruct st as [f ts]. destruct I0 as (_ & Sp & _). cbn [fst snd] in *.
  intros i t E. destruct (Sp i t E) as (m & ops & -> & _). unfold spawn. apply dispatch_tinv2.
  unfold res_ok; cbn. constructor.
Qed.

(* survivor_not_failed, positive part: whatever the others do and whoever is
   killed, a call fails only for its own empty or over-long name, in the stale-mapping
   class of the known finding (FBeyond, FTries), or at the model's 4 GiB bound *)
Theorem failures_classified : forall st0 sched, init_ok bucket nlen H st0 ->
  forall i t e, nth_error (snd (run sched st0)) i = Some t -> In (RFail e) (t_res t) ->
    e = FEmpty \/ e = FTooLong \/ e = FBeyond \/ e = FTries \/ e = FRange.
Proof.
  intros st0 sched I0 i t e E Ie.
  destruct (Inv2_run sched st0 (Inv2_init st0 I0)) as (_ & T2). destruct (T2 i t E) as (R & _).
  unfold res_ok in R. rewrite Forall_forall in R. specialize (R _ Ie). cbn in R.
  destruct e; try discriminate; auto 6.
Qed.

End Inv2.
