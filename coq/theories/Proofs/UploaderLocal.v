(* Proofs/UploaderLocal: any number of concurrent uploaders in mode local
   (nothing is ever uploaded).  For a week W with no report before, the one
   local.W.json that gets written folds in ALL of W's count files that are
   expired for its author - none missed, under every interleaving.
   (In mode on the statement is false for three uploaders: Props/C07.v,
   C07_concurrent_whole_week_refuted.) *)
From Coq Require Import List ZArith NArith Bool Lia Arith.
From Tele Require Import Lib.Bytes Lib.FS Model.Span Model.Uploader
  Proofs.FSFacts Proofs.UploaderBase Proofs.UploaderNames Proofs.UploaderFiles Proofs.UploaderData
  Proofs.UploaderLock Proofs.UploaderEver Proofs.UploaderSeq Proofs.UploaderIdem Proofs.UploaderNoDup.
Import ListNotations.
Open Scope nat_scope.

(* ---------------------------------------------------------------- the keys of the week map are distinct *)
Lemma bytes_eq_dec (a b : bytes) : {a = b} + {a <> b}.
Proof. apply list_eq_dec. apply N.eq_dec. Qed.

Lemma group_add_keys g w e :
  map fst (group_add g w e) = if in_dec bytes_eq_dec w (map fst g) then map fst g else map fst g ++ [w].
Proof.
  induction g as [|[w' l] g IH]; simpl; auto.
  destruct (beq w' w) eqn:E.
  - apply beq_eq in E. subst w'. simpl. destruct (bytes_eq_dec w w); [|contradiction].
    destruct (in_dec bytes_eq_dec w (map fst g)); reflexivity.
  - apply beq_neq in E. simpl. rewrite IH.
    destruct (bytes_eq_dec w' w); [contradiction|].
    destruct (in_dec bytes_eq_dec w (map fst g)); reflexivity.
Qed.

Lemma group_files_keys start cs : NoDup (map fst (group_files start cs)).
Proof.
  unfold group_files.
  assert (G : forall acc, NoDup (map fst acc) ->
            NoDup (map fst (fold_left (fun g e => if before_start (cf_end (snd e)) start
                                                   then group_add g (uploader_week (cf_end (snd e))) e else g) cs acc))).
  { induction cs as [|e cs IH]; intros acc Ha; simpl; auto. apply IH.
    destruct (before_start (cf_end (snd e)) start); auto. rewrite group_add_keys.
    destruct (in_dec bytes_eq_dec _ (map fst acc)) as [Hin | Hn]; auto.
    apply nodup_app. split; auto. split; [repeat constructor; auto|].
    intros x Hx [<- | []]. contradiction. }
  apply G. constructor.
Qed.

Lemma take_week_none w g : ~ In w (map fst g) -> take_week w g = None.
Proof.
  induction g as [|[w' l] g IH]; simpl; auto. intros Hn.
  destruct (beq w' w) eqn:E.
  - apply beq_eq in E. exfalso. apply Hn. auto.
  - rewrite IH; auto.
Qed.

Lemma take_week_keys w g l rest :
  take_week w g = Some (l, rest) -> NoDup (map fst g) ->
  NoDup (map fst rest) /\ ~ In w (map fst rest) /\ (forall x, In x (map fst rest) -> In x (map fst g)).
Proof.
  revert l rest. induction g as [|[w' l0] g IH]; simpl; intros l rest E Hn; [discriminate|].
  inversion Hn; subst. destruct (beq w' w) eqn:Ew.
  - injection E as <- <-. apply beq_eq in Ew. subst w'. auto.
  - destruct (take_week w g) as [[l1 r]|] eqn:Et; [|discriminate]. injection E as <- <-.
    destruct (IH _ _ eq_refl H2) as (A & B & C). simpl. split; [|split].
    + constructor; auto.
    + apply beq_neq in Ew. intros [E | Hin]; auto.
    + intros x [<- | Hx]; auto.
Qed.

Lemma take_week_other_none w w' g files rest :
  take_week w' g = Some (files, rest) -> w' <> w -> take_week w g = None -> take_week w rest = None.
Proof.
  revert files rest. induction g as [|[w0 l] g IH]; simpl; intros files rest E Hne Hn; [discriminate|].
  destruct (beq w0 w') eqn:E0.
  - injection E as <- <-. destruct (beq w0 w); [discriminate|].
    destruct (take_week w g) as [[? ?]|]; [discriminate|reflexivity].
  - destruct (take_week w' g) as [[l0 r]|] eqn:Et; [|discriminate]. injection E as <- <-.
    simpl. destruct (beq w0 w); [discriminate|].
    destruct (take_week w g) as [[? ?]|] eqn:Etw; [discriminate|].
    rewrite (IH _ _ eq_refl Hne eq_refl). reflexivity.
Qed.

(* thread-local: keys of t_weeks distinct *)
Definition keys_inv (t : thread) : Prop := NoDup (map fst (t_weeks t)).

Lemma keys_inv_step f a t e t' : decide_all f a t = (e, t') -> keys_inv t -> keys_inv t'.
Proof.
  unfold keys_inv. intros H K.
  destruct a; dinv H; adv; simpl; auto; try apply group_files_keys.
  all: match goal with Ht : take_week _ _ = Some _ |- _ => destruct (take_week_keys _ _ _ _ Ht K) as (A & _ & _); exact A end.
Qed.

Lemma keys_inv_reach st : reach st -> forall i t, nth_error (s_ths st) i = Some t -> keys_inv t.
Proof. apply thread_inv_reach; [intros; constructor|apply keys_inv_step]. Qed.

(* ---------------------------------------------------------------- a thread in mode local *)
Record ml (t : thread) : Prop := mkML {
  ml_ready : t_ready t = [];
  ml_upl : in_upl (t_pc t) = false;
  ml_noup : t_pc t <> RCreateUp /\ t_pc t <> RWriteUp;
  ml_upok : t_upok t = false
}.

Definition ml_inv (t : thread) : Prop := u_on (t_cfg t) = false -> ml t.

Lemma filter_none {A} (f : A -> bool) l : (forall x, f x = false) -> filter f l = [].
Proof. intros H. induction l as [|x l IH]; simpl; auto. rewrite H. exact IH. Qed.

Lemma collect_ready_local c n : u_on c = false -> collect_ready c n = false.
Proof. intros H. unfold collect_ready. rewrite H. rewrite !andb_false_r. reflexivity. Qed.

Lemma upload_ok_local c w files : u_on c = false -> upload_ok c w files = false.
Proof. intros H. unfold upload_ok. rewrite H. reflexivity. Qed.

Lemma ml_inv_step f a t e t' : decide_all f a t = (e, t') -> ml_inv t -> ml_inv t'.
Proof.
  unfold ml_inv. intros H HI Hon. rewrite (cfg_step _ _ _ _ _ H) in Hon.
  destruct (HI Hon) as [M1 M2 [M3 M4] M5]. clear HI.
  destruct a; dinv H; adv; pcrw; simpl in *; try discriminate.
  all: try (rewrite M1 in *; simpl in *).
  all: try (rewrite M5 in *; simpl in *).
  all: try (match goal with Hn : next_upload _ [] = Some _ |- _ => discriminate end).
  all: try (rewrite (filter_none (collect_ready (t_cfg t)) _ (fun n => collect_ready_local _ n Hon))).
  all: constructor; simpl; pcrw; auto; try discriminate.
  all: try (split; intros Hx; dmatch Hx; pcdiscr).
  all: auto using upload_ok_local.
  all: try (match goal with |- in_upl (match ?x with _ => _ end) = false => destruct x; reflexivity end).
  all: try (rewrite M5; exact M1).
Qed.

Lemma ml_inv_reach st : reach st -> forall i t, nth_error (s_ths st) i = Some t -> ml_inv t.
Proof.
  apply thread_inv_reach; [|apply ml_inv_step].
  intros k c _. constructor; simpl; auto. split; discriminate.
Qed.

(* ---------------------------------------------------------------- the invariant *)
Section Local.
Variables (f : FS) (W : bytes).
Hypothesis Hwf : fs_wf f.
Hypothesis P1a : d_mem (f_local f) (local_name W) = false.
Hypothesis P1b : d_mem (f_local f) (ready_name W) = false.
Hypothesis P1c : d_mem (up_dir f) (marker_name W) = false.
Hypothesis HWk : week_ok W.

Notation wf := (wfile f W).

(* W's count files that are expired for configuration c *)
Definition expd (c : ucfg) (n : bytes) (cf : cfile) : Prop :=
  wf n cf /\ before_start (cf_end cf) (u_start c) = true.
Definition gok (c : ucfg) (l : list (bytes * cfile)) : Prop := forall n cf, In (n, cf) l <-> expd c n cf.
Definition cl_u (t : thread) : Prop := forall u, t_uploaded t = Some u -> ~ In (marker_name W) u.

Definition pending (e : Prop) (t : thread) : Prop :=
  e \/ take_week W (t_weeks t) = None \/ gok (t_cfg t) (glook W (t_weeks t)).

Definition thr (e : Prop) (t : thread) : Prop :=
  match t_pc t with
  | FReadCount => e \/ (forall n cf, expd (t_cfg t) n cf -> In n (t_ents t) \/ In (n, cf) (t_count t))
  | FReadUpload | FMkdir => e \/ (forall n cf, expd (t_cfg t) n cf -> In (n, cf) (t_count t))
  | RPick => cl_u t /\ pending e t
  | RDel | RStatLocal | RStatUp | RCreateLocal | RWriteLocal =>
      cl_u t /\
      ((t_week t <> W /\ pending e t) \/
       (t_week t = W /\ take_week W (t_weeks t) = None /\
        match t_pc t with
        | RDel => e
        | RWriteLocal => e /\ gok (t_cfg t) (t_files t)
        | _ => e \/ gok (t_cfg t) (t_files t)
        end))
  | _ => True
  end.

Lemma thr_mono (e e' : Prop) t : (e -> e') -> thr e t -> thr e' t.
Proof.
  intros He. unfold thr, pending. destruct (t_pc t); auto; try tauto.
Qed.

Lemma thr_kill e t : thr e t -> thr e (kill t).
Proof. unfold thr, pending, cl_u. simpl. auto. Qed.

Definition Gfs (fs : FS) : Prop :=
  forall n cf, wf n cf ->
    d_find (f_local fs) n = d_find (f_local f) n \/
    (d_find (f_local fs) n = None /\ d_mem (f_local fs) (local_name W) = true).

Lemma gok_group t :
  data_inv (f_local f) t -> names_inv t ->
  (forall n cf, expd (t_cfg t) n cf -> In (n, cf) (t_count t)) ->
  gok (t_cfg t) (glook W (group_files (u_start (t_cfg t)) (t_count t))).
Proof.
  intros D N Hcov n cf. rewrite glook_group_files, filter_In. split.
  - intros [Hin Hb]. apply andb_true_iff in Hb. destruct Hb as [Hb Hw]. apply beq_eq in Hw.
    pose proof (di_count _ _ D) as DC. rewrite Forall_forall in DC. specialize (DC _ Hin).
    pose proof (ni_count _ N) as NC. unfold cnames in NC. rewrite Forall_forall in NC. specialize (NC _ Hin).
    destruct DC as (id & ct & Hf & Hp). simpl in *. split; auto. split; auto. exists id, ct. auto.
  - intros [Hw Hb]. split; [apply Hcov; split; auto|]. simpl. rewrite Hb.
    destruct Hw as (_ & _ & _ & _ & _ & ->). rewrite beq_refl. reflexivity.
Qed.

Lemma not_needed_local t : t_ready t = [] -> cl_u t -> not_needed W (t_uploaded t) (t_ready t) = false.
Proof.
  intros Hr Hu. unfold not_needed. rewrite Hr. simpl. rewrite orb_false_r.
  destruct (t_uploaded t) as [u|] eqn:E; auto.
  destruct (existsb (beq (W ++ sfx_json)) u) eqn:Ex; auto.
  apply existsb_exists in Ex. destruct Ex as (x & Hx & Hb). apply beq_eq in Hb. subst x.
  exfalso. apply (Hu u E). exact Hx.
Qed.

Lemma thr_back (e : Prop) t0 :
  cl_u t0 ->
  (t_week t0 <> W /\ pending e t0 \/ t_week t0 = W /\ take_week W (t_weeks t0) = None /\ e) ->
  (t_pc t0 = RDel \/ t_pc t0 = RPick) -> thr e t0.
Proof.
  intros Hu HX [Hp | Hp]; unfold thr; rewrite Hp; split; auto.
  unfold pending in *. tauto.
Qed.

Lemma start_del_pc t w files ready :
  t_pc (start_del t w files ready) = RDel \/ t_pc (start_del t w files ready) = RPick.
Proof. unfold start_del. simpl. destruct files; auto. Qed.

(* the stepping thread *)
Lemma thr_step fs log a t eff t' :
  decide_all fs a t = (eff, t') -> u_on (t_cfg t) = false -> ml t ->
  names_inv t -> data_inv (f_local f) t -> keys_inv t ->
  d_mem (f_local fs) (ready_name W) = false -> d_mem (up_dir fs) (marker_name W) = false -> Gfs fs ->
  let e := d_mem (f_local fs) (local_name W) = true in
  let e' := d_mem (f_local (fst (apply_eff eff fs log))) (local_name W) = true in
  (e -> e') -> thr e t -> thr e' t'.
Proof.
  intros Hd Hon [M1 M2 [M3 M4] M5] N D K HR HM HG e e' Hee HT.
  assert (Hcfg : t_cfg t' = t_cfg t) by (eapply cfg_step; eauto).
  destruct a as [o | w | | ].
  4: { simpl in Hd. injection Hd as <- <-. apply thr_kill. eapply thr_mono; eauto. }
  - (* a call *)
    simpl in Hd. unfold decide in Hd. unfold thr in HT.
    destruct (t_pc t) eqn:Epc; try (exfalso; auto; fail); try discriminate;
      try (injection Hd as <- <-; unfold thr; rewrite Epc; exact I).
    + (* FReadLocal *)
      injection Hd as <- <-. subst e e'. simpl in *.
      assert (HX : d_mem (f_local fs) (local_name W) = true \/
                   forall n cf, expd (t_cfg t) n cf -> In n (filter is_count (d_names (f_local fs)))).
      { destruct (d_mem (f_local fs) (local_name W)) eqn:Ee; auto. right.
        intros n cf [Hw Hb]. destruct (HG n cf Hw) as [E | [_ E]]; [|congruence].
        destruct Hw as (Hc & id & ct & Hf & _). apply filter_In. split; auto.
        apply mem_in_d_names. rewrite <- E in Hf. eapply find_mem; eauto. }
      unfold thr. simpl. destruct (filter is_count (d_names (f_local fs))) as [|x l] eqn:El; simpl;
        (destruct HX as [HX | HX]; [left; exact HX|right; intros n cf Hx; specialize (HX n cf Hx)]).
      * destruct HX.
      * left. exact HX.
    + (* FReadCount *)
      destruct (t_ents t) as [|n rest] eqn:Ee.
      * injection Hd as <- <-. subst e e'. unfold thr. simpl.
        destruct HT as [He | Hcov]; [left; exact He|right].
        intros m cf Hx. destruct (Hcov m cf Hx) as [[] | H]; auto.
      * injection Hd as <- <-. subst e e'. simpl in *.
        set (cnt := match d_get (f_local fs) n with
                    | Some ct => match parse ct with
                                 | Some cf => if after_start (cf_end cf) (u_start (t_cfg t)) then t_count t
                                              else t_count t ++ [(n, cf)]
                                 | None => t_count t end
                    | None => t_count t end).
        assert (Hsub : forall x, In x (t_count t) -> In x cnt).
        { intros x Hx. subst cnt. destruct (d_get (f_local fs) n) as [ct|]; auto.
          destruct (parse ct) as [cf|]; auto. destruct (after_start _ _); auto. apply in_or_app. auto. }
        assert (HX : d_mem (f_local fs) (local_name W) = true \/
                     forall m cf, expd (t_cfg t) m cf -> In m rest \/ In (m, cf) cnt).
        { destruct HT as [He | Hcov]; [left; exact He|].
          destruct (d_mem (f_local fs) (local_name W)) eqn:El; auto. right.
          intros m cf Hx. destruct (Hcov m cf Hx) as [[<- | Hin] | Hin]; auto.
          right. subst cnt. destruct Hx as [Hw Hb]. destruct (HG _ _ Hw) as [E1 | [_ E1]]; [|congruence].
          apply before_not_after in Hb.
          destruct Hw as (_ & id & ct & Hf & Hp & _). rewrite Hf in E1.
          unfold d_get. rewrite E1, Hp, Hb. apply in_or_app. right. left. reflexivity. }
        unfold thr. simpl. destruct rest as [|y rest']; simpl;
          (destruct HX as [HX | HX]; [left; exact HX|right]); auto.
        intros m cf Hx. destruct (HX m cf Hx) as [[] | H]; auto.
    + (* FReadUpload *)
      destruct (f_upload fs) as [d|] eqn:Eu; injection Hd as <- <-; subst e e'; unfold thr; simpl; auto.
      split.
      * intros u Eq. injection Eq as <-. intros Hin. apply filter_In in Hin. destruct Hin as [Hin _].
        apply in_d_names in Hin. unfold up_dir in HM. rewrite Eu in HM. congruence.
      * unfold pending. simpl. destruct HT as [He | Hcov]; [left; exact He|right; right].
        apply gok_group; auto.
    + (* FMkdir *)
      injection Hd as <- <-. subst e e'. unfold thr. simpl. split.
      * intros u Eq. discriminate.
      * unfold pending. simpl. destruct HT as [He | Hcov]; [left; exact He|right; right].
        apply gok_group; auto.
    + (* RPick *)
      injection Hd as <- <-. unfold thr. rewrite Epc. destruct HT as [Hu Hp]. split; auto;
        try (unfold pending in *; subst e e'; simpl in *; tauto).
    + (* RDel *)
      destruct HT as [Hu HX].
      assert (HX' : t_week t <> W /\ pending e' t \/ t_week t = W /\ take_week W (t_weeks t) = None /\ e').
      { unfold pending in *. tauto. }
      destruct (t_dels t) as [|n rest]; injection Hd as <- <-.
      * apply thr_back; simpl; auto.
      * apply thr_back; simpl; auto. destruct rest; auto.
    + (* RStatLocal *)
      destruct HT as [Hu HX].
      destruct (d_mem (f_local fs) (local_name (t_week t))) eqn:El; injection Hd as <- <-.
      * apply thr_back; [exact Hu| |apply start_del_pc]. unfold start_del. simpl.
        destruct HX as [[Hw Hp] | (Hw & Htw & _)]; [left; unfold pending in *; tauto|right].
        repeat split; auto. apply Hee. unfold e. rewrite <- Hw. exact El.
      * unfold thr. simpl. split; auto; try (unfold pending in *; subst e e'; simpl in *; tauto).
    + (* RStatUp *)
      destruct HT as [Hu HX].
      destruct (d_mem (f_local fs) (ready_name (t_week t))) eqn:El; injection Hd as <- <-.
      * apply thr_back; [exact Hu| |apply start_del_pc]. unfold start_del. simpl.
        destruct HX as [[Hw Hp] | (Hw & Htw & _)]; [left; unfold pending in *; tauto|].
        exfalso. rewrite Hw in El. congruence.
      * rewrite M5. unfold thr. simpl. split; auto; try (unfold pending in *; subst e e'; simpl in *; tauto).
    + (* RCreateLocal *)
      destruct HT as [Hu HX].
      destruct (d_mem (f_local fs) (local_name (t_week t))) eqn:El; injection Hd as <- <-.
      * apply thr_back; [exact Hu| |apply start_del_pc]. unfold finish_week, start_del. simpl.
        destruct HX as [[Hw Hp] | (Hw & Htw & _)]; [left; unfold pending in *; tauto|right].
        repeat split; auto. apply Hee. unfold e. rewrite <- Hw. exact El.
      * unfold thr. simpl. split; auto.
        destruct HX as [[Hw Hp] | (Hw & Htw & Hg)]; [left; unfold pending in *; tauto|right].
        split; [exact Hw|split; [exact Htw|split]].
        -- subst e'. simpl. rewrite Hw, d_mem_add, beq_refl. reflexivity.
        -- destruct Hg as [He | Hg]; auto. unfold e in He. rewrite <- Hw in He. congruence.
    + (* RWriteLocal *)
      destruct HT as [Hu HX]. injection Hd as <- <-.
      apply thr_back; [exact Hu| |apply start_del_pc]. unfold finish_week, start_del. simpl.
      destruct HX as [[Hw Hp] | (Hw & Htw & He & _)]; [left; unfold pending in *; tauto|right].
      repeat split; auto.
  - (* the range loop picks week w *)
    simpl in Hd. unfold step_pick in Hd.
    destruct (t_pc t) eqn:Epc;
      try (injection Hd as <- <-; eapply thr_mono; [exact Hee|exact HT]).
    destruct (take_week w (t_weeks t)) as [[files rest]|] eqn:Et;
      [|injection Hd as <- <-; eapply thr_mono; [exact Hee|exact HT]].
    unfold thr in HT. rewrite Epc in HT. destruct HT as [Hu Hp].
    destruct (take_week_keys _ _ _ _ Et K) as (_ & Hnot & _).
    destruct (beq w W) eqn:Ew.
    + (* W *)
      apply beq_eq in Ew. subst w.
      rewrite (not_needed_local t M1 Hu) in Hd.
      assert (Hnone : take_week W rest = None) by (apply take_week_none; exact Hnot).
      destruct (has_counts files) eqn:Ehc; injection Hd as <- <-.
      * unfold thr. simpl. split; auto. right. split; auto. split; auto.
        destruct Hp as [He | [Hn | Hg]]; [left; apply Hee; exact He|congruence|right].
        unfold glook in Hg. rewrite Et in Hg. exact Hg.
      * unfold thr. simpl. rewrite Epc. split; auto. right. left. exact Hnone.
    + (* another week *)
      apply beq_neq in Ew.
      assert (Hp' : pending e' (set_weeks t rest)).
      { unfold pending in *. simpl. destruct Hp as [He | [Hn | Hg]]; auto.
        - right. left. eapply take_week_other_none; eauto.
        - right. right. rewrite (take_week_other _ _ _ _ _ Et Ew). exact Hg. }
      destruct (not_needed w (t_uploaded t) (t_ready t)); [|destruct (has_counts files)];
        injection Hd as <- <-.
      * apply thr_back; [exact Hu| |apply start_del_pc]. left. split; auto.
      * unfold thr. simpl. split; auto.
      * unfold thr. simpl. rewrite Epc. split; auto.
  - (* the range loop ends *)
    simpl in Hd. unfold step_pick_none in Hd.
    destruct (t_pc t) eqn:Epc;
      try (injection Hd as <- <-; eapply thr_mono; [exact Hee|exact HT]).
    destruct (forallb (silent t) (t_weeks t));
      [|injection Hd as <- <-; eapply thr_mono; [exact Hee|exact HT]].
    injection Hd as <- <-. unfold start_upload, advance. simpl. rewrite M1. simpl. unfold thr. simpl. exact I.
Qed.

(* ---- the state-level invariant ---- *)
Variable cfgs : list ucfg.
Notation s0 := (init_state f cfgs).

Definition all_local (st : state) : Prop :=
  forall i t, nth_error (s_ths st) i = Some t -> u_on (t_cfg t) = false.

Definition Est (st : state) : Prop := d_mem (f_local (s_fs st)) (local_name W) = true.

Definition Rep (st : state) : Prop :=
  forall id r, d_find (f_local (s_fs st)) (local_name W) = Some (id, CRep (Some r)) ->
    r_week r = W /\ r_up r = false /\
    exists i t, nth_error (s_ths st) i = Some t /\ t_id t = r_by r /\ gok (t_cfg t) (r_files r).

Definition LInv (st : state) : Prop :=
  d_mem (f_local (s_fs st)) (ready_name W) = false /\
  d_mem (up_dir (s_fs st)) (marker_name W) = false /\
  Gfs (s_fs st) /\
  (forall i t, nth_error (s_ths st) i = Some t -> thr (Est st) t) /\
  Rep st.

Lemma id_step fs a t e t' : decide_all fs a t = (e, t') -> t_id t' = t_id t.
Proof. intros H. destruct a; dinv H; adv; reflexivity. Qed.

Lemma LInv_init : LInv s0.
Proof.
  split; [exact P1b|]. split; [exact P1c|]. split; [intros n cf _; left; reflexivity|]. split.
  - intros i t Hi. destruct (init_threads _ _ _ _ Hi) as (k & c & ->). exact I.
  - intros id r Hf. apply find_mem in Hf. simpl in Hf. congruence.
Qed.

Lemma LInv_step st ia : reach_from s0 st -> all_local st -> LInv st -> LInv (step st ia).
Proof.
  intros Hrf Hloc (HR & HM & HG & HT & HRep). destruct ia as [i a].
  destruct (data_reach _ _ _ Hwf Hrf) as (Hr & _ & HD).
  assert (Hee : Est st -> Est (step st (i, a))).
  { intros He. apply (local_report_exists_forever st (step st (i, a))); auto using is_localrep_local, is_count_local.
    apply rf_step. apply rf_refl. }
  destruct (step_cases st i a) as [E | (t & e & t' & Hi & Hk & Hd & E)].
  - rewrite E. exact (conj HR (conj HM (conj HG (conj HT HRep)))).
  - pose proof (Hloc _ _ Hi) as Hon.
    pose proof (ml_inv_reach _ Hr _ _ Hi Hon) as ML. pose proof ML as [M1 M2 [M3 M4] M5].
    pose proof (names_inv_reach _ Hr _ _ Hi) as N.
    pose proof (keys_inv_reach _ Hr _ _ Hi) as K.
    pose proof (HD _ _ Hi) as D.
    assert (HTt := HT _ _ Hi).
    split; [|split; [|split; [|split]]].
    + (* W.json is never created *)
      rewrite E. simpl. rewrite local_apply. destruct e; auto.
      * apply d_mem_remove_false. exact HR.
      * rewrite d_mem_add, HR, orb_false_r. apply beq_false_ne.
        destruct (eff_createlocal _ _ _ _ _ Hd) as (_ & [(Hp & _) | (Hp & -> & _)]); [contradiction|].
        intros Eq. pose proof (f_equal is_localrep Eq) as E2.
        rewrite is_localrep_local, (week_not_local _ HWk) in E2. discriminate.
      * rewrite d_mem_set_id. exact HR.
    + (* no marker is ever written *)
      rewrite E. simpl. rewrite up_apply. destruct e; auto.
      * rewrite d_mem_add, HM, orb_false_r. apply beq_false_ne.
        destruct (eff_createlock _ _ _ _ _ Hd) as (_ & -> & _). apply lock_ne_marker.
      * destruct (eff_putup _ _ _ _ _ _ Hd) as (Hp & _). rewrite Hp in M2. discriminate.
      * apply d_mem_remove_false. exact HM.
    + (* a count file of W disappears only once local.W.json exists *)
      intros n cf Hw. pose proof Hw as (Hc & id & ct & Hf & Hpa & Hwk).
      destruct (find_step st i a n Hr) as [Eq | [(t1 & t1' & Hi1 & Hd1 & Eq) | [(t1 & t1' & Hi1 & Hd1 & _) | (t1 & t1' & fd & c' & Hi1 & Hd1 & Hwr & _)]]].
      * simpl in Eq. rewrite Eq. destruct (HG n cf Hw) as [A | [A B]]; [left; exact A|right].
        split; auto. apply Hee. exact B.
      * right. split; [exact Eq|]. apply Hee.
        rewrite Hi in Hi1. injection Hi1 as <-.
        destruct (deleted_file_week _ _ _ _ _ _ _ _ Hwf Hrf Hi Hd1 Hc) as (id' & c0 & cf' & Hf' & Hp' & Hwk' & _).
        rewrite Hf in Hf'. injection Hf' as <- <-. rewrite Hpa in Hp'. injection Hp' as <-.
        destruct (remlocal_name _ _ _ _ _ _ Hr Hi Hd1) as [(_ & Hpc & _) | (Hc' & _)]; [|congruence].
        unfold thr in HTt. rewrite Hpc in HTt. destruct HTt as [_ [[Hne _] | (_ & _ & He)]]; [|exact He].
        exfalso. apply Hne. congruence.
      * apply createlocal_name in Hd1. congruence.
      * apply writing_name in Hwr. congruence.
    + (* threads *)
      intros j tj Hj. rewrite E in Hj. simpl in Hj. rewrite nth_error_upd in Hj.
      destruct (Nat.eqb i j) eqn:Eij.
      * rewrite Hi in Hj. injection Hj as <-.
        assert (X := thr_step (s_fs st) (s_log st) a t e t' Hd Hon ML N D K HR HM HG).
        simpl in X. unfold Est. rewrite E. simpl. apply X; auto.
        unfold Est in Hee. rewrite E in Hee. exact Hee.
      * eapply thr_mono; [exact Hee|]. eauto.
    + (* the report, once written *)
      intros id r Hf.
      assert (Hpers : forall i0 t0, nth_error (s_ths st) i0 = Some t0 ->
                exists t1, nth_error (s_ths (step st (i, a))) i0 = Some t1 /\ t_id t1 = t_id t0 /\ t_cfg t1 = t_cfg t0).
      { intros i0 t0 H0. rewrite E. simpl. rewrite nth_error_upd. destruct (Nat.eqb i i0) eqn:Ei0; [|eauto].
        apply Nat.eqb_eq in Ei0. subst i0. rewrite Hi. rewrite Hi in H0. injection H0 as <-.
        exists t'. split; auto. split; [eapply id_step; eauto|eapply cfg_step; eauto]. }
      destruct (find_step st i a (local_name W) Hr) as [Eq | [(t1 & t1' & Hi1 & Hd1 & Eq) | [(t1 & t1' & Hi1 & Hd1 & _ & Eq) | (t1 & t1' & fd & c' & Hi1 & Hd1 & Hwr & _ & Eq)]]];
        simpl in Eq; rewrite Eq in Hf.
      * destruct (HRep _ _ Hf) as (A & B & i0 & t0 & H0 & Hid & Hg).
        destruct (Hpers _ _ H0) as (t1 & H1 & Hid1 & Hc1). split; auto. split; auto.
        exists i0, t1. rewrite Hid1, Hc1. auto.
      * discriminate.
      * discriminate.
      * injection Hf as Hfd Hc. subst fd c'. rewrite Hi in Hi1. injection Hi1 as <-.
        destruct (eff_writeid _ _ _ _ _ _ Hd1) as (_ & [(Hp & _) | (Hp & Hbody & _)]).
        { exfalso. unfold writing in Hwr. rewrite Hp in Hwr.
          assert (Hn : ready_name (t_week t) = local_name W) by congruence.
          pose proof (f_equal is_localrep Hn) as E2. rewrite is_localrep_local in E2.
          assert (Hw : week_ok (t_week t)) by (apply (ni_week _ N); rewrite Hp; reflexivity).
          rewrite (week_not_local _ Hw) in E2. discriminate. }
        unfold writing in Hwr. rewrite Hp in Hwr.
        assert (Hn : local_name (t_week t) = local_name W) by congruence. apply local_name_inj in Hn.
        unfold local_body in Hbody. injection Hbody as ->.
        unfold thr in HTt. rewrite Hp in HTt. destruct HTt as [_ [[Hne _] | (_ & _ & _ & Hg)]]; [contradiction|].
        simpl. split; auto. split; auto.
        destruct (Hpers _ _ Hi) as (t1 & H1 & Hid1 & Hc1). exists i, t1. rewrite Hid1, Hc1. auto.
Qed.

Lemma LInv_spawn st c : LInv st -> LInv (spawn st c).
Proof.
  intros (HR & HM & HG & HT & HRep). split; [exact HR|]. split; [exact HM|]. split; [exact HG|]. split.
  - intros i t Hi. destruct (spawn_threads _ _ _ _ Hi) as [H1 | [_ ->]]; [apply HT in H1; exact H1|exact I].
  - intros id r Hf. destruct (HRep _ _ Hf) as (A & B & i0 & t0 & H0 & Hid & Hg).
    split; auto. split; auto. exists i0, t0. split; auto. apply spawn_old. exact H0.
Qed.

Theorem local_whole_week st :
  reach_from s0 st -> all_local st -> Rep st.
Proof.
  intros Hrf. assert (G : all_local st -> LInv st).
  { induction Hrf as [|st1 ia H IH|st1 c H IH]; intros Hl.
    - apply LInv_init.
    - assert (Hl1 : all_local st1).
      { intros i t Hi. destruct (thread_persists_step st1 ia i t Hi) as (t1 & H1 & <-). eapply Hl; eauto. }
      apply LInv_step; auto.
    - apply LInv_spawn. apply IH. intros i t Hi. apply (Hl i t). apply spawn_old. exact Hi. }
  intros Hl. destruct (G Hl) as (_ & _ & _ & _ & HRep). exact HRep.
Qed.

End Local.
