(* Proofs/WorkerProps: the C13 theorems in the exact form exported by
   Props/C13.v (definitions unfolded to first principles where that helps
   reading), and the concrete witnesses. *)
From Coq Require Import List NArith ZArith Bool Permutation Sorted Lia.
From Tele Require Import Lib.Bytes Lib.Calendar Lib.Sort Gen.Consts Model.Worker
  Proofs.WorkerFacts Proofs.WorkerSpec Proofs.WorkerChart Proofs.WorkerOracle.
Import ListNotations.

(* each datum's value = number of distinct X among the reports having a
   program report of that program which carries a configured bucket that
   normalises to the datum's key *)
Theorem partition_value_spec it rs pk q c :
  iter_ok it -> req_ok q -> run_req it (group rs) pk q = Some (Some c) ->
  forall wk key v, In (wk, key, v) (c_data c) ->
    exists ids, NoDup ids /\
      (forall x, In x ids <->
         exists r p b, In r rs /\ In p (r_progs r) /\ pr_prog p = pk /\ In b (q_buckets q) /\
                       q_norm q b = Some key /\ In (q_chart q, b) (prog_cells p) /\ r_x r = x) /\
      v = Z.of_nat (length ids).
Proof.
  intros Hit Hq H wk key v Hin.
  destruct (partition_meets_spec it rs pk q Hit Hq) as [oc [R S]]. rewrite R in H. injection H as ->.
  cbn [partition_spec] in S. destruct S as [_ [_ [_ [_ [_ [_ [A _]]]]]]].
  destruct (A _ _ _ Hin) as [_ [_ [Hc _]]]. exact Hc.
Qed.

(* which data are present, and when the chart is omitted *)
Theorem partition_shape it rs pk q :
  iter_ok it -> req_ok q ->
  exists oc, run_req it (group rs) pk q = Some oc /\
    match oc with
    | None => forall key x, ~ counted rs pk q key x
    | Some c =>
        (exists key x, counted rs pk q key x) /\
        NoDup (map d_key (c_data c)) /\ wsorted d_key (q_lt q) (c_data c) /\
        (forall wk key v, In (wk, key, v) (c_data c) ->
           is_max_week rs wk /\ key_of q key /\ ((0 < v)%Z \/ q_ignore q = false)) /\
        (forall key n, key_of q key -> count_is rs pk q key n -> ((0 < n)%Z \/ q_ignore q = false) ->
           exists wk, In (wk, key, n) (c_data c))
    end.
Proof.
  intros Hit Hq. destruct (partition_meets_spec it rs pk q Hit Hq) as [oc [R S]].
  exists oc. split; [exact R|]. destruct oc as [c|]; cbn [partition_spec] in S; [|exact S].
  destruct S as [S1 [_ [_ [_ [S5 [S6 [S7 S8]]]]]]]. repeat (split; [assumption|]). split.
  - intros wk key v Hin. destruct (S7 _ _ _ Hin) as [A1 [A2 [_ A4]]]. auto.
  - intros key n Hko Hc Hpos. pose proof (S8 key n Hko Hc Hpos) as Hk.
    apply in_map_iff in Hk as [[[wk key'] v] [Ek Hin]]. cbn in Ek. subst key'.
    destruct (S7 _ _ _ Hin) as [_ [_ [Hc' _]]].
    rewrite (count_is_fun _ _ _ _ _ _ Hc Hc'). exists wk. exact Hin.
Qed.

Theorem num_reports_is_count it lts ltg cfg read start end_ name cd :
  iter_ok it -> cfg_ok lts ltg cfg ->
  handle_chart it lts ltg cfg read start end_ = ChartOk name cd ->
  cd_num cd = length (days_reports read start (Z.to_nat (end_ - start + 1))) /\
  forall i, (i < Z.to_nat (end_ - start + 1))%nat -> exists rs, read (start + Z.of_nat i)%Z = ROk rs.
Proof.
  intros Hit Hcfg H.
  destruct (handle_chart_ok_spec it lts ltg cfg read start end_ name cd Hit Hcfg H) as [_ [Hall [_ [_ [_ [Hn _]]]]]].
  split; assumption.
Qed.

(* per-day permutations of the stored objects, any iteration orders *)
Theorem chart_deterministic it it' lts ltg cfg read read' start end_ :
  iter_ok it -> iter_ok it' -> cfg_ok lts ltg cfg ->
  (forall day, day_equiv (read day) (read' day)) ->
  handle_chart it lts ltg cfg read start end_ = handle_chart it' lts ltg cfg read' start end_.
Proof.
  intros Hit Hit' Hcfg He. apply handle_chart_deterministic; auto. apply read_days_equiv. exact He.
Qed.

(* the witness of the former finding 16 (GoVersion "go1" in the configuration,
   one report): since fix 48ba0d4 goMajorMinor("go1") = "" and the chart is
   produced; the report's go1.21 is not a configured version, so the
   GoVersion chart is omitted and only GOOS/GOARCH remain *)
Definition witness_cfg : config :=
  mkCfg [] [] [[103; 111; 49]%N] [mkPC [120%N] [] []].
Definition witness_report : report :=
  mkReport [] 1%Z [mkProg [120%N] [] [103; 111; 49; 46; 50; 49]%N [] [] []].

Lemma goversion_witness_charted :
  map go_major_minor [[103; 111; 49]%N; [103%N]; []; [103; 111; 49; 50]%N; [103; 111; 49; 46; 50; 49; 46; 51]%N]
    = [[]; []; []; []; [103; 111; 49; 46; 50; 49]%N] /\
  exists name ps,
    handle_chart iter_id bltb bltb witness_cfg (fun _ => ROk [witness_report]) 0 0
      = ChartOk name (mkCD (fmt_date 0) (fmt_date 0) ps 1).
Proof. split; [vm_compute; reflexivity|]. eexists. eexists. vm_compute. reflexivity. Qed.

(* a configuration satisfying cfg_ok, and a run on it *)
Definition example_cfg : config :=
  mkCfg [[108%N]; [100%N]] [] [[103; 111; 49; 46; 50; 49; 46; 51]%N; [103; 111; 49; 46; 50; 49]%N; [103; 111; 49; 46; 57]%N]
        [mkPC [120%N] [[118; 49]%N] [[102; 58; 123; 97; 44; 98; 125]%N]].
Definition example_reports : list report :=
  [ mkReport [50%N] 7%Z [mkProg [120%N] [118; 49]%N [103; 111; 49; 46; 50; 49]%N [108%N] [] [([102; 58; 97]%N, 3%Z)]];
    mkReport [49%N] 7%Z [mkProg [120%N] [118; 49]%N [103; 111; 49; 46; 50; 49; 46; 51]%N [100%N] [] [([102; 58; 97]%N, 1%Z)]];
    mkReport [49%N] 9%Z [mkProg [120%N] [118; 50]%N [103; 111; 49; 46; 57]%N [108%N] [] [([102; 58; 98]%N, 1%Z)]];
    mkReport [57%N] 5%Z [] ].

Lemma example_cfg_ok : cfg_ok bltb bltb example_cfg.
Proof. split; apply lex_order_ok. Qed.

Lemma example_chart :
  exists name ps,
    handle_chart iter_id bltb bltb example_cfg (fun _ => ROk example_reports) 19737 19737
      = ChartOk name (mkCD (fmt_date 19737) (fmt_date 19737) ps 4) /\
    map (fun c => (c_name c, map (fun x : datum => (d_key x, snd x)) (c_data c))) (flat_map po_charts ps) =
      [ (c_versionCounter, [([118; 49]%N, 1%Z)]);
        (c_goosCounter, [([100%N], 1%Z); ([108%N], 2%Z)]);
        (c_goversionCounter, [([103; 111; 49; 46; 50; 49]%N, 1%Z); ([103; 111; 49; 46; 57]%N, 1%Z)]);
        ([102%N], [([97%N], 1%Z); ([98%N], 1%Z)]) ].
Proof. eexists. eexists. split; vm_compute; reflexivity. Qed.
