(* Proofs/ReportFacts: the theorems of property C01 over Model/Report:
   soundness, value equality and completeness of the upload filter for all
   configurations, files and X; the report header; the witnesses of the two
   known findings. *)
From Coq Require Import List ZArith NArith Bool Lia.
From Tele Require Import Lib.Bytes Lib.Str Lib.Assoc Model.Config Model.ApprovalSpec Model.Report
  Proofs.ConfigFacts Proofs.AggregateFacts.
Import ListNotations.
Open Scope Z_scope.

(* ---------------------------------------------------------------- the filter *)

Lemma build_ok_spec u i : build_ok (new_config u) i = true <-> approved_build u i.
Proof. unfold build_ok. apply has_tables_build. Qed.

Lemma in_filter_upload c x ps i cs ss :
  In (i, (cs, ss)) (filter_upload c x ps) <->
  exists cs0 ss0, In (i, (cs0, ss0)) ps /\ build_ok c i = true /\
                  cs = filter (keep_counter c x (id_program i)) cs0 /\
                  ss = filter (keep_stack c x (id_program i)) ss0.
Proof.
  unfold filter_upload. rewrite in_map_iff. split.
  - intros [[i0 [cs0 ss0]] [He Hin]]. apply filter_In in Hin as [Hin Hb].
    unfold trim_prog in He. cbn [fst snd] in *. injection He as <- <- <-. exists cs0, ss0. auto.
  - intros [cs0 [ss0 [Hin [Hb [-> ->]]]]]. exists (i, (cs0, ss0)). split; [reflexivity|].
    apply filter_In. auto.
Qed.

Lemma keep_counter_spec u x prog kv :
  keep_counter (new_config u) x prog kv = true <->
  (exists r, counter_entry u prog (fst kv) r) /\ (x <= rate (new_config u) prog (fst kv))%N.
Proof. unfold keep_counter. rewrite andb_true_iff, has_counter_spec, N.leb_le. reflexivity. Qed.

Lemma keep_stack_spec u x prog kv :
  keep_stack (new_config u) x prog kv = true <->
  (exists r, stack_entry u prog (stack_title (fst kv)) r) /\
  (x <= rate (new_config u) prog (stack_title (fst kv)))%N.
Proof. unfold keep_stack. cbv zeta. rewrite andb_true_iff, has_stack_spec, N.leb_le. reflexivity. Qed.

(* ---------------------------------------------------------------- C01 soundness *)

Definition counter_sound (u : upload_cfg) (x : N) (prog k : bytes) : Prop :=
  is_stack k = false /\
  (exists r, counter_entry u prog k r) /\
  (x <= rate (new_config u) prog k)%N /\
  rate_entry u prog k (rate (new_config u) prog k).

Definition stack_sound (u : upload_cfg) (x : N) (prog k : bytes) : Prop :=
  is_stack k = true /\
  (exists r, stack_entry u prog (stack_title k) r) /\
  (x <= rate (new_config u) prog (stack_title k))%N /\
  rate_entry u prog (stack_title k) (rate (new_config u) prog (stack_title k)).

Theorem upload_sound u files x i cs ss :
  In (i, (cs, ss)) (filter_upload (new_config u) x (aggregate files)) ->
  approved_build u i /\
  (exists f, In f files /\ f_ident f = i) /\
  (forall k v, In (k, v) cs -> counter_sound u x (id_program i) k) /\
  (forall k v, In (k, v) ss -> stack_sound u x (id_program i) k).
Proof.
  intro H. apply in_filter_upload in H as [cs0 [ss0 [Hin [Hb [-> ->]]]]].
  split; [apply build_ok_spec; exact Hb|]. split.
  - apply aggregate_keys. apply in_map_iff. exists (i, (cs0, ss0)). auto.
  - split; intros k v Hk; apply filter_In in Hk as [Hk Hkeep].
    + destruct (aggregate_counter _ _ _ _ _ _ Hin Hk) as [Hs _].
      apply keep_counter_spec in Hkeep as [[r Hr] Hx]. cbn [fst] in *.
      repeat split; eauto. eapply rate_is_entry. left. exact Hr.
    + destruct (aggregate_stack _ _ _ _ _ _ Hin Hk) as [Hs _].
      apply keep_stack_spec in Hkeep as [[r Hr] Hx]. cbn [fst] in *.
      repeat split; eauto. eapply rate_is_entry. right. exact Hr.
Qed.

(* under an unambiguous configuration the table rate is the configured rate:
   "lists for that program with a rate not below X" *)
Theorem upload_sound_rates u files x i cs ss :
  cfg_rate_unambiguous u ->
  In (i, (cs, ss)) (filter_upload (new_config u) x (aggregate files)) ->
  (forall k v, In (k, v) cs -> exists r, counter_entry u (id_program i) k r /\ (x <= r)%N) /\
  (forall k v, In (k, v) ss -> exists r, stack_entry u (id_program i) (stack_title k) r /\ (x <= r)%N).
Proof.
  intros Hu H. destruct (upload_sound _ _ _ _ _ _ H) as [_ [_ [Hc Hs]]]. split; intros k v Hk.
  - destruct (Hc k v Hk) as [_ [[r Hr] [Hx _]]]. exists r. split; [exact Hr|].
    rewrite (rate_table_functional u _ _ r Hu) in Hx; [exact Hx | left; exact Hr].
  - destruct (Hs k v Hk) as [_ [[r Hr] [Hx _]]]. exists r. split; [exact Hr|].
    rewrite (rate_table_functional u _ _ r Hu) in Hx; [exact Hx | right; exact Hr].
Qed.

(* ---------------------------------------------------------------- C01 values *)

Theorem upload_values u files x i cs ss k v :
  In (i, (cs, ss)) (filter_upload (new_config u) x (aggregate files)) ->
  In (k, v) cs \/ In (k, v) ss ->
  spec_entries files i k <> [] /\
  v = wrap64 (spec_sum files i k) /\
  (spec_sum files i k < two63 -> v = spec_sum files i k).
Proof.
  intros H Hk. apply in_filter_upload in H as [cs0 [ss0 [Hin [Hb [-> ->]]]]].
  assert (Hp : pget (aggregate files) i k = Some v).
  { destruct Hk as [Hk|Hk]; apply filter_In in Hk as [Hk _].
    - apply (aggregate_counter _ _ _ _ _ _ Hin Hk).
    - apply (aggregate_stack _ _ _ _ _ _ Hin Hk). }
  apply pget_value in Hp as [Hne ->]. split; [exact Hne|]. split; [reflexivity|].
  intro Hlt. apply wrap64_small. unfold spec_sum in *. pose proof (zsum_nonneg (spec_entries files i k)).
  unfold two63 in *. lia.
Qed.

(* ---------------------------------------------------------------- C01 completeness *)

Theorem upload_complete u files x f :
  In f files -> approved_build u (f_ident f) ->
  exists cs ss, In (f_ident f, (cs, ss)) (filter_upload (new_config u) x (aggregate files)) /\
    forall k v0, In (k, v0) (f_counts f) ->
      (is_stack k = false -> (exists r, counter_entry u (id_program (f_ident f)) k r) ->
       (x <= rate (new_config u) (id_program (f_ident f)) k)%N -> exists v, In (k, v) cs) /\
      (is_stack k = true -> (exists r, stack_entry u (id_program (f_ident f)) (stack_title k) r) ->
       (x <= rate (new_config u) (id_program (f_ident f)) (stack_title k))%N -> exists v, In (k, v) ss).
Proof.
  intros Hf Hb. destruct (aggregate_has_prog files f Hf) as [cs0 [ss0 Hin]].
  exists (filter (keep_counter (new_config u) x (id_program (f_ident f))) cs0),
         (filter (keep_stack (new_config u) x (id_program (f_ident f))) ss0).
  split.
  - apply in_filter_upload. exists cs0, ss0. repeat split; auto. apply build_ok_spec. exact Hb.
  - intros k v0 Hk. destruct (aggregate_has files f k v0 Hf Hk) as [cs1 [ss1 [v' [Hin1 Hk1]]]].
    assert (He : (cs1, ss1) = (cs0, ss0)).
    { destruct (wf_aggregate files) as [Hnd _].
      pose proof (In_aget _ _ ident_eqb ident_eqb_eq _ _ _ Hnd Hin) as E0.
      pose proof (In_aget _ _ ident_eqb ident_eqb_eq _ _ _ Hnd Hin1) as E1. congruence. }
    injection He as -> ->. split; intros Hs He Hx; rewrite Hs in Hk1; exists v'; apply filter_In; (split; [exact Hk1|]).
    + apply keep_counter_spec. auto.
    + apply keep_stack_spec. auto.
Qed.

(* with the configured rate in place of the table rate *)
Theorem upload_complete_rates u files x f :
  cfg_rate_unambiguous u -> In f files -> approved_build u (f_ident f) ->
  exists cs ss, In (f_ident f, (cs, ss)) (filter_upload (new_config u) x (aggregate files)) /\
    forall k v0, In (k, v0) (f_counts f) ->
      (is_stack k = false -> forall r, counter_entry u (id_program (f_ident f)) k r -> (x <= r)%N ->
       exists v, In (k, v) cs) /\
      (is_stack k = true -> forall r, stack_entry u (id_program (f_ident f)) (stack_title k) r -> (x <= r)%N ->
       exists v, In (k, v) ss).
Proof.
  intros Hu Hf Hb. destruct (upload_complete u files x f Hf Hb) as [cs [ss [Hin Hall]]].
  exists cs, ss. split; [exact Hin|]. intros k v0 Hk. destruct (Hall k v0 Hk) as [Hc Hs]. split.
  - intros Hst r Hr Hx. apply Hc; eauto. rewrite (rate_table_functional u _ _ r Hu); [exact Hx | left; exact Hr].
  - intros Hst r Hr Hx. apply Hs; eauto. rewrite (rate_table_functional u _ _ r Hu); [exact Hx | right; exact Hr].
Qed.

(* ---------------------------------------------------------------- nothing else: the report itself *)

Theorem create_report_shape gate u cfgver week lastweek x files local up :
  create_report gate u cfgver week lastweek x files = Some (local, up) ->
  local = mkReport week lastweek x cfgver (aggregate files) /\
  match up with
  | Some r => r = mkReport week lastweek x cfgver (filter_upload (new_config u) x (aggregate files)) /\
              gate = true /\ sample_blocks u x = false
  | None => gate = false \/ sample_blocks u x = true
  end.
Proof.
  unfold create_report. destruct (succeeded files); [|discriminate].
  intro H. injection H as <- <-. split; [reflexivity|].
  destruct gate; cbn [andb]; [|left; reflexivity].
  destruct (sample_blocks u x); cbn [negb]; [right; reflexivity | auto].
Qed.

(* no report at all only when no file holds a counter *)
Theorem create_report_none gate u cfgver week lastweek x files :
  create_report gate u cfgver week lastweek x files = None <->
  forall f, In f files -> f_counts f = [].
Proof.
  unfold create_report. destruct (succeeded files) eqn:E.
  - split; [discriminate|]. intro H. unfold succeeded in E. apply existsb_exists in E as [f [Hf Hn]].
    rewrite (H f Hf) in Hn. discriminate.
  - split; [|reflexivity]. intros _ f Hf. unfold succeeded in E.
    destruct (f_counts f) eqn:Ec; [reflexivity|]. exfalso.
    assert (Ht : existsb (fun f => nonempty (f_counts f)) files = true).
    { apply existsb_exists. exists f. rewrite Ec. auto. }
    congruence.
Qed.

(* ---------------------------------------------------------------- known findings: witnesses in the model *)

From Coq Require Import String.
Local Open Scope string_scope.
Local Open Scope list_scope.
Local Open Scope Z_scope.
Definition w_id : ident := mkId (s2b "cmd/go") (s2b "go1.22.1") (s2b "go1.22.1") (s2b "linux") (s2b "amd64").
Definition w_cfg (counters stacks : list counter_cfg) : upload_cfg :=
  mkUC [s2b "linux"] [s2b "amd64"] [s2b "go1.22.1"] 0%N
       [mkPC (s2b "cmd/go") [s2b "go1.22.1"] counters stacks].
Definition bits_one : N := 0x3FF0000000000000%N.   (* math.Float64bits(1.0) *)
Definition bits_half : N := 0x3FE0000000000000%N.  (* math.Float64bits(0.5) *)

(* finding 13: counter foo with rate 0 and stack foo with rate 1: at X = 1/2
   the plain counter foo, whose only configured rate is 0, is uploaded *)
Theorem upload_rate_refuted :
  exists u files x i cs ss k v,
    In (i, (cs, ss)) (filter_upload (new_config u) x (aggregate files)) /\ In (k, v) cs /\
    (forall r, counter_entry u (id_program i) k r -> (r < x)%N) /\
    (exists r, counter_entry u (id_program i) k r).
Proof.
  exists (w_cfg [mkCC (s2b "foo") 0%N] [mkCC (s2b "foo") bits_one]),
         [mkFile w_id [(s2b "foo", 3%N)]], bits_half, w_id, [(s2b "foo", 3)], [], (s2b "foo"), 3.
  split; [vm_compute; left; reflexivity|]. split; [left; reflexivity|]. split.
  - intros r Hr. apply in_counter_rates in Hr. vm_compute in Hr. destruct Hr as [<-|[]]. reflexivity.
  - exists 0%N. apply in_counter_rates. vm_compute. left. reflexivity.
Qed.

(* and the mirror image: a counter whose only configured rate is 1 is dropped *)
Theorem upload_rate_refuted_complete :
  exists u f x k v0,
    approved_build u (f_ident f) /\ In (k, v0) (f_counts f) /\ is_stack k = false /\
    (exists r, counter_entry u (id_program (f_ident f)) k r) /\
    (forall r, counter_entry u (id_program (f_ident f)) k r -> (x <= r)%N) /\
    forall cs ss, In (f_ident f, (cs, ss)) (filter_upload (new_config u) x (aggregate [f])) ->
                  forall v, ~ In (k, v) cs.
Proof.
  exists (w_cfg [mkCC (s2b "foo") bits_one] [mkCC (s2b "foo") 0%N]),
         (mkFile w_id [(s2b "foo", 3%N)]), bits_half, (s2b "foo"), 3%N.
  split; [apply approved_buildb_spec; vm_compute; reflexivity|].
  split; [left; reflexivity|]. split; [reflexivity|]. split.
  - exists bits_one. apply in_counter_rates. vm_compute. left. reflexivity.
  - split.
    + intros r Hr. apply in_counter_rates in Hr. vm_compute in Hr. destruct Hr as [<-|[]]. vm_compute. discriminate.
    + intros cs ss Hin v Hv. vm_compute in Hin. destruct Hin as [Hin|[]]. injection Hin as <- <-. exact Hv.
Qed.

(* finding 14: a counter value of 2^63 is uploaded as -2^63 *)
Theorem upload_value_refuted :
  exists u files x i cs ss k v,
    In (i, (cs, ss)) (filter_upload (new_config u) x (aggregate files)) /\ In (k, v) cs /\
    spec_sum files i k = two63 /\ v = - two63.
Proof.
  exists (w_cfg [mkCC (s2b "foo") bits_one] []),
         [mkFile w_id [(s2b "foo", 9223372036854775808%N)]], bits_half, w_id,
         [(s2b "foo", -9223372036854775808)], [], (s2b "foo"), (-9223372036854775808).
  split; [vm_compute; left; reflexivity|]. split; [left; reflexivity|]. split; reflexivity.
Qed.
