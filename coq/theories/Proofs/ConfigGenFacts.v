(* Proofs/ConfigGenFacts: facts about Model/ConfigGen: sorting, padVersions
   (superset, sorted, duplicate-free), grouping and version selection of
   generate. *)
From Coq Require Import List NArith ZArith Bool Lia Permutation.
From Tele Require Import Lib.Bytes Lib.Text Model.ChartCfg Model.ConfigGen Proofs.ChartCfgFacts.
Import ListNotations.
Open Scope N_scope.

(* ------------------------------------------------------------ generic list facts *)

Lemma mem_in x l : mem x l = true <-> In x l.
Proof.
  unfold mem. rewrite existsb_exists. split.
  - intros [y [Hy He]]. apply beq_eq in He. subst. exact Hy.
  - intros H. exists x. split; [exact H | apply beq_refl].
Qed.
Lemma mem_false x l : mem x l = false <-> ~ In x l.
Proof.
  split; intro H.
  - intro Hin. apply mem_in in Hin. congruence.
  - destruct (mem x l) eqn:E; [apply mem_in in E; contradiction | reflexivity].
Qed.

Lemma insert_by_perm {A} (lt : A -> A -> bool) x l : Permutation (insert_by lt x l) (x :: l).
Proof.
  induction l as [|y l IH]; cbn [insert_by]; [apply Permutation_refl|].
  destruct (lt y x).
  - apply perm_trans with (y :: x :: l); [apply perm_skip; exact IH | apply perm_swap].
  - apply Permutation_refl.
Qed.
Lemma sort_by_perm {A} (lt : A -> A -> bool) l : Permutation (sort_by lt l) l.
Proof.
  induction l as [|x l IH]; cbn [sort_by fold_right]; [apply Permutation_refl|].
  apply perm_trans with (x :: sort_by lt l); [apply insert_by_perm | apply perm_skip; exact IH].
Qed.
Lemma sort_by_in {A} (lt : A -> A -> bool) l x : In x (sort_by lt l) <-> In x l.
Proof.
  split; apply Permutation_in; [apply sort_by_perm | apply Permutation_sym, sort_by_perm].
Qed.
Lemma sort_by_nodup {A} (lt : A -> A -> bool) l : NoDup l -> NoDup (sort_by lt l).
Proof. intros H. eapply Permutation_NoDup; [apply Permutation_sym, sort_by_perm | exact H]. Qed.

(* adjacent elements of the result are in order, given an asymmetric "less" *)
Fixpoint adjacent {A} (lt : A -> A -> bool) (l : list A) : Prop :=
  match l with
  | a :: ((b :: _) as t) => lt b a = false /\ adjacent lt t
  | _ => True
  end.

Lemma insert_by_adjacent {A} (lt : A -> A -> bool) :
  (forall a b, lt a b = true -> lt b a = false) ->
  forall x l, adjacent lt l -> adjacent lt (insert_by lt x l).
Proof.
  intros Hasym x l. induction l as [|y l IH]; intros Hl; [exact I|].
  cbn [insert_by]. destruct (lt y x) eqn:E.
  - destruct l as [|z l].
    + cbn [insert_by adjacent]. split; [apply Hasym; exact E | exact I].
    + destruct Hl as [Hzy Hl]. specialize (IH Hl). cbn [insert_by] in *.
      destruct (lt z x) eqn:E2.
      * cbn [adjacent]. split; [exact Hzy | exact IH].
      * cbn [adjacent]. split; [apply Hasym; exact E | exact IH].
  - cbn [adjacent]. split; [exact E | exact Hl].
Qed.
Lemma sort_by_adjacent {A} (lt : A -> A -> bool) :
  (forall a b, lt a b = true -> lt b a = false) -> forall l, adjacent lt (sort_by lt l).
Proof.
  intros Hasym l. induction l as [|x l IH]; [exact I|].
  cbn [sort_by fold_right]. apply insert_by_adjacent; assumption.
Qed.

Lemma NoDup_app_intro {A} (a b : list A) : NoDup a -> NoDup b -> (forall x, In x a -> ~ In x b) -> NoDup (a ++ b).
Proof.
  induction a as [|x a IH]; intros Ha Hb Hd; [exact Hb|].
  inversion Ha as [|? ? Hx Ha']; subst. cbn [app]. constructor.
  - intro Hin. apply in_app_or in Hin as [Hin|Hin]; [contradiction | apply (Hd x); [left; reflexivity | exact Hin]].
  - apply IH; try assumption. intros y Hy. apply Hd. right. exact Hy.
Qed.

Lemma NoDup_flat_map_tag {A B C} (f : A -> list B) (tag : B -> C) (t : A -> C) l :
  NoDup (map t l) -> (forall x, In x l -> NoDup (f x)) ->
  (forall x s, In x l -> In s (f x) -> tag s = t x) -> NoDup (flat_map f l).
Proof.
  induction l as [|x l IH]; intros Hn Hf Ht; [constructor|].
  cbn [map] in Hn. inversion Hn as [|? ? Hx Hn']; subst.
  cbn [flat_map]. apply NoDup_app_intro.
  - apply Hf. left. reflexivity.
  - apply IH; [exact Hn' | intros; apply Hf; right; assumption | intros y s Hy Hs; apply Ht; [right; exact Hy | exact Hs]].
  - intros s Hs Hin. apply in_flat_map in Hin as [y [Hy Hsy]].
    apply Hx. rewrite <- (Ht x s (or_introl eq_refl) Hs), (Ht y s (or_intror Hy) Hsy).
    apply in_map. exact Hy.
Qed.

Lemma flat_map_flat_map {A B C} (f : B -> list C) (g : A -> list B) l :
  flat_map f (flat_map g l) = flat_map (fun x => flat_map f (g x)) l.
Proof.
  induction l as [|x l IH]; [reflexivity|]. cbn [flat_map]. rewrite flat_map_app, IH. reflexivity.
Qed.
Lemma flat_map_map {A B C} (f : B -> list C) (g : A -> B) l : flat_map f (map g l) = flat_map (fun x => f (g x)) l.
Proof. induction l as [|x l IH]; [reflexivity|]. cbn [map flat_map]. rewrite IH. reflexivity. Qed.

Lemma in_firstn {A} n (l : list A) x : In x (firstn n l) -> In x l.
Proof.
  revert n; induction l as [|y l IH]; intros [|n] H; cbn [firstn] in H; try contradiction.
  destruct H as [->|H]; [left; reflexivity | right; apply (IH n H)].
Qed.
Lemma NoDup_firstn {A} n (l : list A) : NoDup l -> NoDup (firstn n l).
Proof.
  revert n; induction l as [|x l IH]; intros [|n] H; cbn [firstn]; try constructor.
  - inversion H; subst. intro Hin. apply in_firstn in Hin. contradiction.
  - inversion H; subst. apply IH. assumption.
Qed.
Lemma NoDup_skipn {A} n (l : list A) : NoDup l -> NoDup (skipn n l).
Proof.
  revert n; induction l as [|x l IH]; intros [|n] H; cbn [skipn]; try assumption.
  inversion H; subst. apply IH. assumption.
Qed.

Lemma in_skipn_nth {A} n (l : list A) x : In x (skipn n l) -> exists i, (n <= i)%nat /\ nth_error l i = Some x.
Proof.
  revert n; induction l as [|y l IH]; intros [|n] H; cbn [skipn] in H; try contradiction.
  - apply In_nth_error in H as [i Hi]. exists i. split; [lia | exact Hi].
  - apply IH in H as [i [Hi Hn]]. exists (S i). split; [lia | exact Hn].
Qed.
Lemma nth_error_firstn_some {A} k (l : list A) i x : nth_error (firstn k l) i = Some x -> nth_error l i = Some x.
Proof.
  revert k i; induction l as [|y l IH]; intros [|k] [|i] H; cbn in *; try discriminate; try assumption.
  apply (IH k i H).
Qed.

(* a string is cut uniquely at the first occurrence of a byte *)
Lemma split_unique c d e x y : has_byte c d = false -> has_byte c e = false ->
  d ++ c :: x = e ++ c :: y -> d = e /\ x = y.
Proof.
  revert e; induction d as [|a d IH]; intros [|b e] Hd He E; cbn [app] in E.
  - injection E as <-. auto.
  - injection E as <- _. rewrite has_byte_cons, N.eqb_refl in He. discriminate.
  - injection E as -> _. rewrite has_byte_cons, N.eqb_refl in Hd. discriminate.
  - injection E as <- E. rewrite has_byte_cons in Hd, He.
    apply orb_false_iff in Hd as [_ Hd]. apply orb_false_iff in He as [_ He].
    destruct (IH e Hd He E) as [-> ->]. auto.
Qed.

(* ------------------------------------------------------------ version strings *)

Lemma digits_no x ds : forallb is_digit ds = true -> is_digit x = false -> has_byte x ds = false.
Proof.
  intros Hall Hx. apply has_byte_false_in. intro Hin.
  rewrite forallb_forall in Hall. rewrite (Hall x Hin) in Hx. discriminate.
Qed.

Lemma dec_of_N_digits n : n < 10 ^ 40 -> forallb is_digit (dec_of_N n) = true.
Proof. intros H. destruct (dec_of_N_spec n H) as [d [t [-> [_ [Hall _]]]]]. exact Hall. Qed.
Lemma dec_of_N_inj a b : a < 10 ^ 40 -> b < 10 ^ 40 -> dec_of_N a = dec_of_N b -> a = b.
Proof.
  intros Ha Hb E. destruct (dec_of_N_spec a Ha) as [d [t [E1 [_ [_ V1]]]]].
  destruct (dec_of_N_spec b Hb) as [d' [t' [E2 [_ [_ V2]]]]]. congruence.
Qed.

Definition small3 (t : N * N * N) : Prop :=
  let '(a, b, c) := t in a < 10 ^ 40 /\ b < 10 ^ 40 /\ c < 10 ^ 40.
Definition rel3 (t : N * N * N) : bytes := let '(a, b, c) := t in rel_string a b c.

Lemma rel_string_inj t u : small3 t -> small3 u -> rel3 t = rel3 u -> t = u.
Proof.
  destruct t as [[a b] c], u as [[a' b'] c']. cbn [small3 rel3]. intros [A1 [A2 A3]] [B1 [B2 B3]] E.
  unfold rel_string in E. injection E as E.
  apply split_unique in E as [E1 E]; try (apply digits_no; [apply dec_of_N_digits; assumption | reflexivity]).
  apply split_unique in E as [E2 E3]; try (apply digits_no; [apply dec_of_N_digits; assumption | reflexivity]).
  apply dec_of_N_inj in E1, E2, E3; try assumption. congruence.
Qed.

Lemma rel_string_no_dash a b c : a < 10 ^ 40 -> b < 10 ^ 40 -> c < 10 ^ 40 -> has_byte 45 (rel_string a b c) = false.
Proof.
  intros A B C. unfold rel_string.
  rewrite has_byte_cons, has_byte_app, has_byte_cons, has_byte_app, has_byte_cons.
  rewrite !digits_no; try reflexivity; apply dec_of_N_digits; assumption.
Qed.

(* ------------------------------------------------------------ padVersions *)

Lemma bcmp_antisym a b : bcmp a b = CompOpp (bcmp b a).
Proof.
  revert b; induction a as [|x a IH]; intros [|y b]; cbn [bcmp]; try reflexivity.
  rewrite (N.compare_antisym y x). destruct (y ?= x); cbn [CompOpp]; try reflexivity. apply IH.
Qed.
Lemma bltb_asym a b : bltb a b = true -> bltb b a = false.
Proof. unfold bltb. rewrite (bcmp_antisym b a). destruct (bcmp a b); cbn; congruence. Qed.

Definition triples (pd : padding) : list (nat * nat * nat) :=
  flat_map (fun j =>
    flat_map (fun k => map (fun q => (j, k, q)) (seq 0 (Z.to_nat (pd_patch pd + 1))))
             (seq 0 (Z.to_nat (pd_majmin pd - Z.of_nat j + 1))))
    (seq 0 (Z.to_nat (pd_maj pd + 1))).

Definition vt (M m p : N) (t : nat * nat * nat) : N * N * N :=
  let '(j, k, q) := t in
  (M + N.of_nat j,
   match j with O => m + N.of_nat k | _ => N.of_nat k end,
   match j, k with O, O => p + N.of_nat q | _, _ => N.of_nat q end).
Definition un (M m p : N) (u : N * N * N) : nat * nat * nat :=
  let '(a, b, c) := u in
  let j := N.to_nat (a - M) in
  let k := match j with O => N.to_nat (b - m) | _ => N.to_nat b end in
  let q := match j, k with O, O => N.to_nat (c - p) | _, _ => N.to_nat c end in
  (j, k, q).
Lemma un_vt M m p t : un M m p (vt M m p t) = t.
Proof.
  destruct t as [[j k] q]. unfold vt, un.
  replace (N.to_nat (M + N.of_nat j - M)) with j by lia.
  destruct j as [|j].
  - replace (N.to_nat (m + N.of_nat k - m)) with k by lia. destruct k as [|k].
    + replace (N.to_nat (p + N.of_nat q - p)) with q by lia. reflexivity.
    + rewrite Nat2N.id. reflexivity.
  - rewrite !Nat2N.id. reflexivity.
Qed.

Lemma triples_nodup pd : NoDup (triples pd).
Proof.
  unfold triples.
  apply (NoDup_flat_map_tag _ (fun t => fst (fst t)) (fun j => j)).
  - rewrite map_id. apply seq_NoDup.
  - intros j _. apply (NoDup_flat_map_tag _ (fun t => snd (fst t)) (fun k => k)).
    + rewrite map_id. apply seq_NoDup.
    + intros k _. apply FinFun.Injective_map_NoDup; [|apply seq_NoDup].
      intros q q' E. injection E. auto.
    + intros k s _ Hs. apply in_map_iff in Hs as [q [<- _]]. reflexivity.
  - intros j s _ Hs. apply in_flat_map in Hs as [k [_ Hs]]. apply in_map_iff in Hs as [q [<- _]]. reflexivity.
Qed.

Lemma triples_bound pd j k q : In (j, k, q) (triples pd) ->
  (Z.of_nat j <= pd_maj pd /\ Z.of_nat k <= pd_majmin pd /\ Z.of_nat q <= pd_patch pd)%Z.
Proof.
  unfold triples. intros H. apply in_flat_map in H as [j' [Hj H]]. apply in_flat_map in H as [k' [Hk H]].
  apply in_map_iff in H as [q' [E Hq]]. injection E as -> -> ->.
  apply in_seq in Hj, Hk, Hq. lia.
Qed.

Lemma span_digits_spec s d r : span_digits s = (d, r) -> forallb is_digit d = true.
Proof.
  revert d r; induction s as [|c s IH]; intros d r H; cbn [span_digits] in H.
  - injection H as <- <-. reflexivity.
  - destruct (is_digit c) eqn:E.
    + destruct (span_digits s) as [d' r']. injection H as <- <-. cbn [forallb]. rewrite E. apply (IH d' r' eq_refl).
    + injection H as <- <-. reflexivity.
Qed.
Lemma scan_int_bound s v r : scan_int s = Some (v, r) -> v <= 9223372036854775807.
Proof.
  unfold scan_int. destruct (span_digits s) as [d r']. destruct d; [discriminate|].
  destruct (digits_val (n :: d) <=? 9223372036854775807) eqn:E; [|discriminate].
  intros H. injection H as <- <-. apply N.leb_le. exact E.
Qed.
Lemma parse_mmp_bound s M m p : parse_mmp s = Some (M, m, p) ->
  M <= 9223372036854775807 /\ m <= 9223372036854775807 /\ p <= 9223372036854775807.
Proof.
  unfold parse_mmp. destruct (cut_before s 45) as [|c s0]; [discriminate|].
  destruct c as [|c]; [discriminate|].
  destruct (Pos.eq_dec c 118) as [->|Hne].
  2:{ intros H. exfalso. repeat (destruct c as [c|c|]; try discriminate H); apply Hne; reflexivity. }
  destruct (scan_int s0) as [[M' r1]|] eqn:E1; [|discriminate].
  destruct r1 as [|c1 s1]; [discriminate|].
  destruct (N.eq_dec c1 46) as [->|Hne1].
  2:{ intros H. exfalso. destruct c1 as [|c1]; [discriminate H|].
      repeat (destruct c1 as [c1|c1|]; try discriminate H); apply Hne1; reflexivity. }
  destruct (scan_int s1) as [[m' r2]|] eqn:E2; [|discriminate].
  destruct r2 as [|c2 s2]; [discriminate|].
  destruct (N.eq_dec c2 46) as [->|Hne2].
  2:{ intros H. exfalso. destruct c2 as [|c2]; [discriminate H|].
      repeat (destruct c2 as [c2|c2|]; try discriminate H); apply Hne2; reflexivity. }
  destruct (scan_int s2) as [[p' r3]|] eqn:E3; [|discriminate].
  intros H. injection H as <- <- <-.
  apply scan_int_bound in E1, E2, E3. auto.
Qed.

Definition pd_small (pd : padding) : Prop :=
  (pd_maj pd < 2 ^ 64 /\ pd_majmin pd < 2 ^ 64 /\ pd_patch pd < 2 ^ 64)%Z.

Section Pad.
  Variable is_valid : bool -> bytes -> bool.
  Variable vcmp : bool -> bytes -> bytes -> comparison.
  Variable canonical : bytes -> bytes.
  Variable prerelease : bytes -> bytes.

  Notation sem_less := (sem_less vcmp).
  Notation sem_sort := (sem_sort vcmp).
  Notation pad_versions := (pad_versions vcmp canonical prerelease).

  Theorem pad_superset versions patts pd out : pad_versions versions patts pd = Some out ->
    forall v, In v versions -> In v out.
  Proof.
    unfold ConfigGen.pad_versions. destruct (parse_mmp _) as [[[M m] p]|]; [|discriminate].
    intros H v Hv. injection H as <-. unfold ConfigGen.sem_sort.
    apply sort_by_in. apply in_or_app. left. apply sort_by_in. exact Hv.
  Qed.

  (* the comparator is antisymmetric (premise about semver.Compare) *)
  Hypothesis cmp_antisym : forall a b, vcmp false a b = CompOpp (vcmp false b a).

  Lemma sem_less_asym a b : sem_less a b = true -> sem_less b a = false.
  Proof.
    unfold ConfigGen.sem_less. rewrite (cmp_antisym b a).
    destruct (vcmp false a b); cbn [CompOpp]; try congruence. apply bltb_asym.
  Qed.

  Lemma adjacent_ok_iff l : adjacent_ok vcmp l = true <-> adjacent sem_less l.
  Proof.
    induction l as [|a l0 IH]; [split; intros; [exact I | reflexivity]|].
    destruct l0 as [|b l1]; [split; intros; [exact I | reflexivity]|].
    change (adjacent_ok vcmp (a :: b :: l1)) with (negb (sem_less b a) && adjacent_ok vcmp (b :: l1)).
    change (adjacent sem_less (a :: b :: l1)) with (sem_less b a = false /\ adjacent sem_less (b :: l1)).
    rewrite andb_true_iff, negb_true_iff, IH. reflexivity.
  Qed.

  Theorem pad_sorted versions patts pd out : pad_versions versions patts pd = Some out ->
    adjacent_ok vcmp out = true.
  Proof.
    unfold ConfigGen.pad_versions. destruct (parse_mmp _) as [[[M m] p]|]; [|discriminate].
    intros H. injection H as <-. apply adjacent_ok_iff. apply sort_by_adjacent. exact sem_less_asym.
  Qed.

  (* ---- no duplicates *)
  Variable patts : list bytes.
  Hypothesis canon_rel : forall a b c, canonical (rel_string a b c) = rel_string a b c.
  Hypothesis canon_pre : forall a b c patt, In patt patts ->
    canonical (pre_string (rel_string a b c) patt) = pre_string (rel_string a b c) patt.

  Lemma next_pre_aux_spec all v patts0 : forall i0 acc, (acc <= i0)%nat ->
    let r := next_pre_aux all v i0 patts0 acc in
    (acc <= r)%nat /\
    forall idx patt, nth_error patts0 idx = Some patt -> mem (pre_string v patt) all = true -> (i0 + idx < r)%nat.
  Proof.
    induction patts0 as [|p0 ps IH]; intros i0 acc Hle; cbv zeta; cbn [next_pre_aux].
    - split; [lia|]. intros idx patt H. destruct idx; discriminate.
    - assert ((if mem (pre_string v p0) all then S i0 else acc) <= S i0)%nat as Hle' by (destruct (mem _ _); lia).
      specialize (IH (S i0) _ Hle').
      cbv zeta in IH. destruct IH as [Hacc Hidx]. split.
      + destruct (mem (pre_string v p0) all); lia.
      + intros idx patt Hn Hm. destruct idx as [|idx]; cbn [nth_error] in Hn.
        * injection Hn as ->. rewrite Hm in *. lia.
        * specialize (Hidx idx patt Hn Hm). lia.
  Qed.

  Lemma pres_spec all v pre s : In s (pres all v patts pre) ->
    exists patt, s = pre_string v patt /\ In patt patts /\ mem s all = false.
  Proof.
    unfold pres. intros H. apply in_map_iff in H as [patt [<- Hin]].
    exists patt. split; [reflexivity|].
    apply in_skipn_nth in Hin as [i [Hi Hn]]. apply nth_error_firstn_some in Hn.
    split; [apply (nth_error_In _ _ Hn)|].
    destruct (mem (pre_string v patt) all) eqn:E; [|reflexivity].
    destruct (next_pre_aux_spec all v patts 0 0 (le_n 0)) as [_ Hspec]. specialize (Hspec i patt Hn E).
    unfold next_pre in Hi. lia.
  Qed.

  Lemma pre_string_inj v p1 p2 : pre_string v p1 = pre_string v p2 -> p1 = p2.
  Proof. unfold pre_string. intros H. apply app_inv_head in H. congruence. Qed.

  Lemma pres_nodup all v pre : NoDup patts -> NoDup (pres all v patts pre).
  Proof.
    intros Hn. unfold pres. apply FinFun.Injective_map_NoDup.
    - intros a b. apply pre_string_inj.
    - apply NoDup_skipn, NoDup_firstn, Hn.
  Qed.

  Section Emit.
    Variables (all : list bytes) (pd : padding) (M m p : N).
    Hypothesis Mb : M <= 9223372036854775807.
    Hypothesis mb : m <= 9223372036854775807.
    Hypothesis pb : p <= 9223372036854775807.
    Hypothesis Hsmall : pd_small pd.

    Definition emit' (t : nat * nat * nat) : list bytes :=
      let '(j, k, q) := t in emit all patts pd M m p j k q.

    Lemma vt_small t : In t (triples pd) -> small3 (vt M m p t).
    Proof.
      destruct t as [[j k] q]. intros H. apply triples_bound in H as [Hj [Hk Hq]].
      destruct Hsmall as [S1 [S2 S3]].
      assert (N.of_nat j < 2 ^ 64) by lia. assert (N.of_nat k < 2 ^ 64) by lia. assert (N.of_nat q < 2 ^ 64) by lia.
      assert (2 ^ 64 + 2 ^ 64 < 10 ^ 40) as Hbig by (vm_compute; reflexivity).
      assert (9223372036854775807 < 2 ^ 64) as Hm by (vm_compute; reflexivity).
      unfold vt, small3. repeat split.
      - lia.
      - destruct j; lia.
      - destruct j; [destruct k|]; lia.
    Qed.

    Lemma added_flat : added all patts pd M m p = flat_map emit' (triples pd).
    Proof.
      unfold added, triples. rewrite flat_map_flat_map. apply flat_map_ext. intros j.
      rewrite flat_map_flat_map. apply flat_map_ext. intros k.
      rewrite flat_map_map. reflexivity.
    Qed.

    Lemma emit_cases t s : In t (triples pd) -> In s (emit' t) ->
      let v := rel3 (vt M m p t) in
      mem s all = false /\ cut_before s 45 = v /\
      (s = v \/ exists patt, In patt patts /\ s = pre_string v patt).
    Proof.
      destruct t as [[j k] q]. intros Ht Hs. pose proof (vt_small _ Ht) as Hsm.
      cbn [emit'] in Hs. unfold emit in Hs. cbv zeta.
      destruct ((Z.of_nat (j + k + q) =? 0)%Z || (pd_releases pd <? Z.of_nat (j + k + q))%Z); [contradiction|].
      unfold vt, rel3, small3 in *. destruct Hsm as [S1 [S2 S3]].
      set (v := rel_string (M + N.of_nat j) match j with O => m + N.of_nat k | S _ => N.of_nat k end
                           match j with O => match k with O => p + N.of_nat q | S _ => N.of_nat q end | S _ => N.of_nat q end) in *.
      assert (has_byte 45 v = false) as Hnd by (apply rel_string_no_dash; assumption).
      destruct (mem v all) eqn:Em; [contradiction|].
      destruct Hs as [<-|Hs].
      - split; [exact Em|]. split; [apply cut_before_none; exact Hnd | left; reflexivity].
      - apply pres_spec in Hs as [patt [-> [Hin Hm]]]. split; [exact Hm|]. split.
        + unfold pre_string. apply cut_before_hit. exact Hnd.
        + right. exists patt. auto.
    Qed.

    Lemma emit_nodup t : NoDup patts -> In t (triples pd) -> NoDup (emit' t).
    Proof.
      intros Hn Ht. pose proof (vt_small _ Ht) as Hsm. destruct t as [[j k] q].
      cbn [emit']. unfold emit.
      destruct ((Z.of_nat (j + k + q) =? 0)%Z || (pd_releases pd <? Z.of_nat (j + k + q))%Z); [constructor|].
      unfold vt, small3 in Hsm. destruct Hsm as [S1 [S2 S3]].
      set (v := rel_string _ _ _).
      assert (has_byte 45 v = false) as Hnd by (apply rel_string_no_dash; assumption).
      destruct (mem v all); [constructor|]. constructor; [|apply pres_nodup; exact Hn].
      intro Hin. apply pres_spec in Hin as [patt [E _]].
      rewrite E in Hnd. unfold pre_string in Hnd. rewrite has_byte_app, has_byte_cons, N.eqb_refl, orb_true_r in Hnd.
      discriminate.
    Qed.

    Lemma added_nodup : NoDup patts -> NoDup (added all patts pd M m p).
    Proof.
      intros Hn. rewrite added_flat.
      apply (NoDup_flat_map_tag emit' (fun s => cut_before s 45) (fun t => rel3 (vt M m p t))).
      - (* distinct triples give distinct release strings *)
        assert (forall l, (forall t, In t l -> In t (triples pd)) -> NoDup l -> NoDup (map (fun t => rel3 (vt M m p t)) l)) as P.
        { induction l as [|t l IH]; intros Hsub Hnd; [constructor|].
          inversion Hnd as [|? ? Hx Hnd']; subst. cbn [map]. constructor.
          - intro Hin. apply in_map_iff in Hin as [t' [E Ht']].
            apply rel_string_inj in E; [| apply vt_small, Hsub; right; exact Ht' | apply vt_small, Hsub; left; reflexivity].
            apply (f_equal (un M m p)) in E. rewrite !un_vt in E. subst. contradiction.
          - apply IH; [intros; apply Hsub; right; assumption | exact Hnd']. }
        apply P; [auto | apply triples_nodup].
      - intros t Ht. apply emit_nodup; assumption.
      - intros t s Ht Hs. destruct (emit_cases t s Ht Hs) as [_ [E _]]. exact E.
    Qed.

    Lemma added_fresh s : In s (added all patts pd M m p) -> mem s all = false /\ canonical s = s.
    Proof.
      rewrite added_flat. intros H. apply in_flat_map in H as [t [Ht Hs]].
      destruct (emit_cases t s Ht Hs) as [Hm [_ Hc]]. split; [exact Hm|].
      destruct t as [[j k] q]. unfold rel3, vt in Hc.
      destruct Hc as [->|[patt [Hin ->]]]; [apply canon_rel | apply canon_pre; exact Hin].
    Qed.
  End Emit.

  Theorem pad_nodup versions pd out : NoDup versions -> NoDup patts -> pd_small pd ->
    pad_versions versions patts pd = Some out -> NoDup out.
  Proof.
    intros Hv Hp Hs. unfold ConfigGen.pad_versions.
    destruct (parse_mmp _) as [[[M m] p]|] eqn:E; [|discriminate].
    destruct (parse_mmp_bound _ _ _ _ E) as [Mb [mb pb]].
    intros H. injection H as <-. unfold ConfigGen.sem_sort.
    apply sort_by_nodup. apply NoDup_app_intro.
    - apply sort_by_nodup. exact Hv.
    - apply added_nodup; assumption.
    - intros x Hx Hadd.
      destruct (added_fresh _ pd M m p Mb mb pb Hs x Hadd) as [Hm Hc].
      apply mem_false in Hm. apply Hm. rewrite <- Hc. apply in_map. exact Hx.
  Qed.

  Lemma nodup_b_iff l : nodup_b l = true <-> NoDup l.
  Proof.
    induction l as [|x l IH]; [split; [constructor | reflexivity]|].
    cbn [nodup_b]. rewrite andb_true_iff, negb_true_iff, IH, mem_false. split.
    - intros [H1 H2]. constructor; assumption.
    - intros H. inversion H; subst. auto.
  Qed.
  Lemma superset_b_iff a b : superset_b a b = true <-> (forall v, In v a -> In v b).
  Proof.
    unfold superset_b. rewrite forallb_forall. split; intros H v Hv; [apply mem_in | apply mem_in]; auto.
  Qed.
End Pad.

(* ------------------------------------------------------------ generate: grouping *)

Definition cc_of (r : chart) : cconf := (c_counter r, c_depth r).
Definition is_stack (r : chart) : bool := (0 <? c_depth r)%Z.
Definition recs (n : bytes) (l : list chart) : list chart := filter (fun r => beq (c_program r) n) l.

Lemma existsb_filter {A} (f g : A -> bool) l : existsb f (filter g l) = existsb (fun x => g x && f x) l.
Proof.
  induction l as [|x l IH]; [reflexivity|]. cbn [filter existsb]. destruct (g x); cbn [existsb andb orb]; rewrite IH; reflexivity.
Qed.

Lemma recs_app n a b : recs n (a ++ b) = recs n a ++ recs n b.
Proof. apply filter_app. Qed.

Section Generate.
  Variable is_valid : bool -> bytes -> bool.
  Variable vcmp : bool -> bytes -> bytes -> comparison.
  Variable canonical : bytes -> bytes.
  Variable prerelease : bytes -> bytes.

  (* premises about version.Compare and semver.Compare: total preorders *)
  Hypothesis cmp_trans : forall tc a b c,
    cmp_le (vcmp tc a b) = true -> cmp_le (vcmp tc b c) = true -> cmp_le (vcmp tc a c) = true.
  Hypothesis cmp_total : forall tc a b, vcmp tc a b = Gt -> cmp_le (vcmp tc b a) = true.

  Notation eligible := (eligible vcmp).
  Notation min_version := (min_version vcmp).
  Notation add_to := (add_to vcmp).
  Notation add_record := (add_record vcmp).
  Notation group := (group vcmp).

  Lemma elig_min prog a b v :
    eligible (is_toolchain prog) (min_version prog a b) v
    = eligible (is_toolchain prog) a v || eligible (is_toolchain prog) b v.
  Proof.
    unfold ConfigGen.min_version, ConfigGen.eligible.
    destruct (is_empty a) eqn:Ea; [reflexivity|]. destruct (is_empty b) eqn:Eb; [cbn; rewrite orb_true_r; reflexivity|].
    cbn [orb]. set (tc := is_toolchain prog).
    destruct (vcmp tc a b) eqn:E; rewrite ?Ea, ?Eb; cbn [orb].
    - destruct (cmp_le (vcmp tc a v)) eqn:E1; [reflexivity|]. cbn [orb].
      destruct (cmp_le (vcmp tc b v)) eqn:E2; [|reflexivity].
      rewrite <- E1. apply (cmp_trans tc a b v); [rewrite E; reflexivity | exact E2].
    - destruct (cmp_le (vcmp tc a v)) eqn:E1; [reflexivity|]. cbn [orb].
      destruct (cmp_le (vcmp tc b v)) eqn:E2; [|reflexivity].
      rewrite <- E1. apply (cmp_trans tc a b v); [rewrite E; reflexivity | exact E2].
    - destruct (cmp_le (vcmp tc b v)) eqn:E2; [rewrite orb_true_r; reflexivity|]. rewrite orb_false_r.
      destruct (cmp_le (vcmp tc a v)) eqn:E1; [|reflexivity].
      rewrite <- E2. apply (cmp_trans tc b a v); [apply cmp_total; exact E | exact E1].
  Qed.

  Definition prog_ok (done : list chart) (p : prog) : Prop :=
    let rs := recs (p_name p) done in
    rs <> [] /\
    p_counters p = map cc_of (filter (fun r => negb (is_stack r)) rs) /\
    p_stacks p = map cc_of (filter is_stack rs) /\
    (exists r0 rest, rs = r0 :: rest /\ p_module p = c_module r0) /\
    (forall v, eligible (is_toolchain (p_name p)) (p_min p) v
               = existsb (fun r => eligible (is_toolchain (p_name p)) (c_version r) v) rs).

  Definition inv (done : list chart) (ps : list prog) : Prop :=
    NoDup (map p_name ps) /\
    (forall r, In r done -> exists p, In p ps /\ p_name p = c_program r) /\
    (forall p, In p ps -> prog_ok done p).

  Lemma add_to_name r p : p_name (add_to r p) = p_name p.
  Proof. reflexivity. Qed.

  Lemma add_record_cases r ps :
    (exists ps1 p ps2, ps = ps1 ++ p :: ps2 /\ p_name p = c_program r /\
                       add_record r ps = ps1 ++ add_to r p :: ps2)
    \/ ((forall p, In p ps -> p_name p <> c_program r) /\
        add_record r ps = ps ++ [add_to r (mkProg (c_program r) (c_module r) (c_version r) [] [])]).
  Proof.
    induction ps as [|q ps IH]; cbn [ConfigGen.add_record].
    - right. split; [intros p []| reflexivity].
    - destruct (beq (p_name q) (c_program r)) eqn:E.
      + left. apply beq_eq in E. exists [], q, ps. auto.
      + apply beq_neq in E. destruct IH as [[ps1 [p [ps2 [E1 [E2 E3]]]]] | [Hno E3]].
        * left. exists (q :: ps1), p, ps2. rewrite E3, E1. auto.
        * right. split; [intros p [<-|Hp]; auto | rewrite E3; reflexivity].
  Qed.

  Lemma recs_other n r done : n <> c_program r -> recs n (done ++ [r]) = recs n done.
  Proof.
    intros H. rewrite recs_app. unfold recs at 2. cbn [filter].
    assert (beq (c_program r) n = false) as -> by (apply beq_neq; congruence). apply app_nil_r.
  Qed.
  Lemma recs_same r done : recs (c_program r) (done ++ [r]) = recs (c_program r) done ++ [r].
  Proof. rewrite recs_app. unfold recs at 2. cbn [filter]. rewrite beq_refl. reflexivity. Qed.

  Lemma prog_ok_other done r p : p_name p <> c_program r -> prog_ok done p -> prog_ok (done ++ [r]) p.
  Proof. unfold prog_ok. intros H. rewrite (recs_other _ r done H). auto. Qed.

  Lemma prog_ok_same done r p : p_name p = c_program r -> prog_ok done p -> prog_ok (done ++ [r]) (add_to r p).
  Proof.
    unfold prog_ok. intros Hn [Hne [Hc [Hs [[r0 [rest [Hr Hm]]] He]]]].
    rewrite add_to_name, Hn in *. rewrite recs_same. repeat split.
    - destruct (recs (c_program r) done); discriminate.
    - cbn [ConfigGen.add_to p_counters]. rewrite filter_app, map_app, <- Hc. cbn [filter]. unfold is_stack.
      destruct (0 <? c_depth r)%Z; cbn [negb map]; [rewrite app_nil_r|]; reflexivity.
    - cbn [ConfigGen.add_to p_stacks]. rewrite filter_app, map_app, <- Hs. cbn [filter]. unfold is_stack.
      destruct (0 <? c_depth r)%Z; cbn [map]; [|rewrite app_nil_r]; reflexivity.
    - exists r0, (rest ++ [r]). rewrite Hr. split; [reflexivity | exact Hm].
    - intros v. cbn [ConfigGen.add_to p_min]. rewrite elig_min, He, existsb_app. cbn [existsb]. rewrite orb_false_r. reflexivity.
  Qed.

  Lemma inv_step done ps r : inv done ps -> inv (done ++ [r]) (add_record r ps).
  Proof.
    intros [Hnd [Hcov Hok]].
    destruct (add_record_cases r ps) as [[ps1 [p [ps2 [E1 [E2 E3]]]]] | [Hno E3]]; rewrite E3.
    - subst ps. split; [|split].
      + rewrite map_app in *. cbn [map] in *. rewrite add_to_name. exact Hnd.
      + intros r' Hin. apply in_app_or in Hin as [Hin|[<-|[]]].
        * destruct (Hcov r' Hin) as [q [Hq Hqn]]. apply in_app_or in Hq as [Hq|[<-|Hq]].
          -- exists q. split; [apply in_or_app; left; exact Hq | exact Hqn].
          -- exists (add_to r p). split; [apply in_or_app; right; left; reflexivity | exact Hqn].
          -- exists q. split; [apply in_or_app; right; right; exact Hq | exact Hqn].
        * exists (add_to r p). split; [apply in_or_app; right; left; reflexivity | exact E2].
      + intros q Hq.
        assert (forall q', In q' (ps1 ++ ps2) -> p_name q' <> p_name p) as Hdist.
        { intros q' Hq' Eq. rewrite map_app in Hnd. cbn [map] in Hnd. apply NoDup_remove_2 in Hnd.
          apply Hnd. rewrite <- map_app, <- Eq. apply in_map. exact Hq'. }
        apply in_app_or in Hq as [Hq|[<-|Hq]].
        * apply prog_ok_other; [rewrite <- E2; apply Hdist, in_or_app; left; exact Hq | apply Hok, in_or_app; left; exact Hq].
        * apply prog_ok_same; [exact E2 | apply Hok, in_or_app; right; left; reflexivity].
        * apply prog_ok_other; [rewrite <- E2; apply Hdist, in_or_app; right; exact Hq | apply Hok, in_or_app; right; right; exact Hq].
    - assert (recs (c_program r) done = []) as Hnone.
      { destruct (recs (c_program r) done) as [|r' l] eqn:E; [reflexivity|]. exfalso.
        assert (In r' (recs (c_program r) done)) as Hin by (rewrite E; left; reflexivity).
        unfold recs in Hin. apply filter_In in Hin as [Hin Hb]. apply beq_eq in Hb.
        destruct (Hcov r' Hin) as [q [Hq Hqn]]. apply (Hno q Hq). congruence. }
      split; [|split].
      + rewrite map_app. cbn [map]. rewrite add_to_name. cbn [p_name].
        apply NoDup_app_intro; [exact Hnd | constructor; [intros [] | constructor] |].
        intros x Hx [<-|[]]. apply in_map_iff in Hx as [q [Hqn Hq]]. apply (Hno q Hq Hqn).
      + intros r' Hin. apply in_app_or in Hin as [Hin|[<-|[]]].
        * destruct (Hcov r' Hin) as [q [Hq Hqn]]. exists q. split; [apply in_or_app; left; exact Hq | exact Hqn].
        * eexists. split; [apply in_or_app; right; left; reflexivity | reflexivity].
      + intros q Hq. apply in_app_or in Hq as [Hq|[<-|[]]].
        * apply prog_ok_other; [apply Hno; exact Hq | apply Hok; exact Hq].
        * unfold prog_ok. rewrite add_to_name. cbn [p_name]. rewrite recs_same, Hnone. cbn [app filter map].
          repeat split.
          -- discriminate.
          -- cbn [ConfigGen.add_to p_counters]. unfold is_stack. destruct (0 <? c_depth r)%Z; reflexivity.
          -- cbn [ConfigGen.add_to p_stacks]. unfold is_stack. destruct (0 <? c_depth r)%Z; reflexivity.
          -- exists r, []. auto.
          -- intros v. cbn [ConfigGen.add_to p_min existsb]. rewrite elig_min, orb_false_r, orb_diag. reflexivity.
  Qed.

  Lemma group_inv gcfgs : inv gcfgs (group gcfgs).
  Proof.
    unfold ConfigGen.group.
    assert (forall l done ps, inv done ps -> inv (done ++ l) (fold_left (fun ps r => add_record r ps) l ps)) as P.
    { induction l as [|r l IH]; intros done ps H; cbn [fold_left].
      - rewrite app_nil_r. exact H.
      - replace (done ++ r :: l) with ((done ++ [r]) ++ l) by (rewrite <- app_assoc; reflexivity).
        apply IH. apply inv_step. exact H. }
    apply (P gcfgs [] []). split; [constructor | split; [intros r [] | intros p []]].
  Qed.
End Generate.

(* ------------------------------------------------------------ generate: results *)

Lemma find_recs n l r0 rest : recs n l = r0 :: rest -> find (fun r => beq (c_program r) n) l = Some r0.
Proof.
  induction l as [|r l IH]; cbn [recs filter find]; [discriminate|].
  destruct (beq (c_program r) n); [intros H; injection H as -> _; reflexivity | exact IH].
Qed.

Lemma Forall2_in_l {A B} (R : A -> B -> Prop) l1 l2 a : Forall2 R l1 l2 -> In a l1 -> exists b, In b l2 /\ R a b.
Proof.
  induction 1 as [|x y l1 l2 Hxy _ IH]; intros Hin; [contradiction|].
  destruct Hin as [<-|Hin]; [exists y; split; [left; reflexivity | exact Hxy]|].
  destruct (IH Hin) as [b [Hb Hr]]. exists b. split; [right; exact Hb | exact Hr].
Qed.
Lemma Forall2_in_r {A B} (R : A -> B -> Prop) l1 l2 b : Forall2 R l1 l2 -> In b l2 -> exists a, In a l1 /\ R a b.
Proof.
  induction 1 as [|x y l1 l2 Hxy _ IH]; intros Hin; [contradiction|].
  destruct Hin as [<-|Hin]; [exists x; split; [left; reflexivity | exact Hxy]|].
  destruct (IH Hin) as [a [Ha Hr]]. exists a. split; [right; exact Ha | exact Hr].
Qed.

Definition lists_spec (gcfgs : list chart) (out : list oprog) : Prop :=
  (forall r, In r gcfgs -> exists o, In o out /\ o_name o = c_program r /\
      In (cc_of r) (if is_stack r then o_stacks o else o_counters o)) /\
  (forall o, In o out ->
      (forall c, In c (o_counters o) -> exists r, In r gcfgs /\ c_program r = o_name o /\ cc_of r = c /\ is_stack r = false) /\
      (forall c, In c (o_stacks o) -> exists r, In r gcfgs /\ c_program r = o_name o /\ cc_of r = c /\ is_stack r = true) /\
      (exists r, In r gcfgs /\ c_program r = o_name o)).

Lemma cconf_eqb_eq a b : cconf_eqb a b = true <-> a = b.
Proof.
  destruct a as [a1 a2], b as [b1 b2]. unfold cconf_eqb. cbn [fst snd].
  rewrite andb_true_iff, beq_eq, Z.eqb_eq. split; [intros [-> ->]; reflexivity | intros H; injection H; auto].
Qed.

Lemma lists_ok_iff gcfgs out : lists_ok gcfgs out = true <-> lists_spec gcfgs out.
Proof.
  unfold lists_ok, lists_spec. rewrite andb_true_iff, !forallb_forall. split.
  - intros [H1 H2]. split.
    + intros r Hr. specialize (H1 r Hr). apply existsb_exists in H1 as [o [Ho H1]].
      apply andb_true_iff in H1 as [Hn Hc]. apply beq_eq in Hn.
      apply existsb_exists in Hc as [c [Hc Hec]]. apply cconf_eqb_eq in Hec. subst c.
      exists o. unfold is_stack, cc_of. auto.
    + intros o Ho. specialize (H2 o Ho). apply andb_true_iff in H2 as [H2 H5].
      apply andb_true_iff in H2 as [H3 H4]. rewrite forallb_forall in H3, H4. split; [|split].
      * intros c Hc. specialize (H3 c Hc). apply existsb_exists in H3 as [r [Hr H3]].
        apply andb_true_iff in H3 as [H3 Hs]. apply andb_true_iff in H3 as [Hn He].
        apply beq_eq in Hn. apply cconf_eqb_eq in He. apply negb_true_iff in Hs. exists r. auto.
      * intros c Hc. specialize (H4 c Hc). apply existsb_exists in H4 as [r [Hr H4]].
        apply andb_true_iff in H4 as [H4 Hs]. apply andb_true_iff in H4 as [Hn He].
        apply beq_eq in Hn. apply cconf_eqb_eq in He. exists r. auto.
      * apply existsb_exists in H5 as [r [Hr Hn]]. apply beq_eq in Hn. exists r. auto.
  - intros [H1 H2]. split.
    + intros r Hr. destruct (H1 r Hr) as [o [Ho [Hn Hc]]]. apply existsb_exists. exists o. split; [exact Ho|].
      apply andb_true_iff. split; [apply beq_eq; exact Hn|]. apply existsb_exists. exists (cc_of r).
      split; [exact Hc | apply cconf_eqb_eq; reflexivity].
    + intros o Ho. destruct (H2 o Ho) as [H3 [H4 [r0 [Hr0 Hn0]]]].
      apply andb_true_iff. split; [apply andb_true_iff; split|].
      * apply forallb_forall. intros c Hc. destruct (H3 c Hc) as [r [Hr [Hn [He Hs]]]].
        apply existsb_exists. exists r. split; [exact Hr|]. unfold is_stack in Hs. subst c. unfold cc_of.
        rewrite (proj2 (beq_eq _ _) Hn), (proj2 (cconf_eqb_eq _ _) eq_refl), Hs. reflexivity.
      * apply forallb_forall. intros c Hc. destruct (H4 c Hc) as [r [Hr [Hn [He Hs]]]].
        apply existsb_exists. exists r. split; [exact Hr|]. unfold is_stack in Hs. subst c. unfold cc_of.
        rewrite (proj2 (beq_eq _ _) Hn), (proj2 (cconf_eqb_eq _ _) eq_refl), Hs. reflexivity.
      * apply existsb_exists. exists r0. split; [exact Hr0 | apply beq_eq; exact Hn0].
Qed.

Section Generate2.
  Variable is_valid : bool -> bytes -> bool.
  Variable vcmp : bool -> bytes -> bytes -> comparison.
  Variable canonical : bytes -> bytes.
  Variable prerelease : bytes -> bytes.
  Hypothesis cmp_trans : forall tc a b c,
    cmp_le (vcmp tc a b) = true -> cmp_le (vcmp tc b c) = true -> cmp_le (vcmp tc a c) = true.
  Hypothesis cmp_total : forall tc a b, vcmp tc a b = Gt -> cmp_le (vcmp tc b a) = true.
  Variable go_versions : list bytes.
  Variable proxy : list (bytes * list bytes).
  Variable paddings : list (bytes * padding).
  Variable patterns : list bytes.

  Notation gen := (generate is_valid vcmp canonical prerelease go_versions proxy paddings patterns).
  Notation vfor := (versions_for is_valid vcmp canonical prerelease go_versions proxy paddings patterns).
  Notation fin := (finish_all is_valid vcmp canonical prerelease go_versions proxy paddings patterns).

  Definition out_of (p : prog) (o : oprog) : Prop :=
    o_name o = p_name p /\ o_counters o = p_counters p /\ o_stacks o = p_stacks p /\ vfor p = VOk (o_versions o).

  Lemma finish_all_ok ps : forall out, fin ps = GOk out -> Forall2 out_of ps out.
  Proof.
    induction ps as [|p ps IH]; intros out H; cbn [finish_all] in H.
    - injection H as <-. constructor.
    - destruct (vfor p) as [| |vs] eqn:Ev; destruct (fin ps) as [| |out'] eqn:Ef; try discriminate.
      injection H as <-. constructor; [|apply IH; reflexivity].
      unfold out_of. cbn [o_name o_counters o_stacks o_versions]. auto.
  Qed.

  Lemma gen_ok gcfgs out : gen gcfgs = GOk out ->
    exists out0, Forall2 out_of (group vcmp gcfgs) out0 /\ (forall o, In o out <-> In o out0)
                 /\ forallb (validate is_valid) gcfgs = true.
  Proof.
    unfold generate. destruct (forallb (validate is_valid) gcfgs) eqn:Ev; [|discriminate].
    destruct (fin (group vcmp gcfgs)) as [| |out0] eqn:Ef; try discriminate.
    intros H. injection H as <-. exists out0. split; [apply finish_all_ok; exact Ef|].
    split; [intros o; apply sort_by_in | reflexivity].
  Qed.

  Theorem generate_lists gcfgs out : gen gcfgs = GOk out -> lists_spec gcfgs out.
  Proof.
    intros H. destruct (gen_ok gcfgs out H) as [out0 [HF [Hin _]]].
    destruct (group_inv vcmp cmp_trans cmp_total gcfgs) as [_ [Hcov Hok]].
    split.
    - intros r Hr. destruct (Hcov r Hr) as [p [Hp Hn]].
      destruct (Forall2_in_l _ _ _ p HF Hp) as [o [Ho [On [Oc [Os _]]]]].
      exists o. split; [apply Hin; exact Ho|]. split; [congruence|].
      destruct (Hok p Hp) as [_ [Pc [Ps _]]].
      assert (In r (recs (p_name p) gcfgs)) as Hrec.
      { unfold recs. apply filter_In. split; [exact Hr | apply beq_eq; congruence]. }
      destruct (is_stack r) eqn:Es.
      + rewrite Os, Ps. apply in_map. apply filter_In. auto.
      + rewrite Oc, Pc. apply in_map. apply filter_In. rewrite Es. auto.
    - intros o Ho. apply Hin in Ho. destruct (Forall2_in_r _ _ _ o HF Ho) as [p [Hp [On [Oc [Os _]]]]].
      destruct (Hok p Hp) as [Hne [Pc [Ps _]]]. split; [|split].
      + intros c Hc. rewrite Oc, Pc in Hc. apply in_map_iff in Hc as [r [<- Hr]].
        apply filter_In in Hr as [Hr Hs]. apply filter_In in Hr as [Hr Hn]. apply beq_eq in Hn.
        apply negb_true_iff in Hs. exists r. repeat split; try assumption. congruence.
      + intros c Hc. rewrite Os, Ps in Hc. apply in_map_iff in Hc as [r [<- Hr]].
        apply filter_In in Hr as [Hr Hs]. apply filter_In in Hr as [Hr Hn]. apply beq_eq in Hn.
        exists r. repeat split; try assumption. congruence.
      + destruct (recs (p_name p) gcfgs) as [|r l] eqn:E; [contradiction|].
        assert (In r (recs (p_name p) gcfgs)) as Hr by (rewrite E; left; reflexivity).
        apply filter_In in Hr as [Hr Hn]. apply beq_eq in Hn. exists r. split; [exact Hr | congruence].
  Qed.

  Notation wanted := (wanted vcmp).

  Lemma wanted_recs gcfgs n v :
    wanted gcfgs n v = existsb (fun r => eligible vcmp (is_toolchain n) (c_version r) v) (recs n gcfgs).
  Proof. unfold ConfigGen.wanted, recs. rewrite existsb_filter. reflexivity. Qed.

  (* versions of a toolchain program: exactly the valid known Go versions
     that are not older than the minimum of some record of the program *)
  Theorem generate_versions_toolchain gcfgs out o : gen gcfgs = GOk out -> In o out ->
    is_toolchain (o_name o) = true ->
    o_versions o = filter (fun v => is_valid true v && wanted gcfgs (o_name o) v) go_versions.
  Proof.
    intros H Ho Htc. destruct (gen_ok gcfgs out H) as [out0 [HF [Hin _]]].
    apply Hin in Ho. destruct (Forall2_in_r _ _ _ o HF Ho) as [p [Hp [On [_ [_ Ov]]]]].
    destruct (group_inv vcmp cmp_trans cmp_total gcfgs) as [_ [_ Hok]].
    destruct (Hok p Hp) as [_ [_ [_ [_ He]]]].
    unfold versions_for in Ov. rewrite <- On, Htc in Ov. injection Ov as <-.
    apply filter_ext. intros v. rewrite wanted_recs, On. rewrite <- He, <- On, Htc. reflexivity.
  Qed.

  (* versions of a module program: the proxy's versions not older than that
     minimum, padded *)
  Theorem generate_versions_module gcfgs out o : gen gcfgs = GOk out -> In o out ->
    is_toolchain (o_name o) = false ->
    exists r0 vs pd,
      find (fun r => beq (c_program r) (o_name o)) gcfgs = Some r0 /\
      lookup (c_module r0) proxy = Some vs /\ lookup (o_name o) paddings = Some pd /\
      pad_versions vcmp canonical prerelease (filter (fun v => wanted gcfgs (o_name o) v) vs) patterns pd
      = Some (o_versions o) /\
      forall v, In v vs -> wanted gcfgs (o_name o) v = true -> In v (o_versions o).
  Proof.
    intros H Ho Htc. destruct (gen_ok gcfgs out H) as [out0 [HF [Hin _]]].
    apply Hin in Ho. destruct (Forall2_in_r _ _ _ o HF Ho) as [p [Hp [On [_ [_ Ov]]]]].
    destruct (group_inv vcmp cmp_trans cmp_total gcfgs) as [_ [_ Hok]].
    destruct (Hok p Hp) as [_ [_ [_ [[r0 [rest [Hr Hm]]] He]]]].
    unfold versions_for in Ov. rewrite <- On, Htc in Ov.
    destruct (lookup (p_module p) proxy) as [vs|] eqn:El; [|discriminate].
    destruct (forallb (is_valid false) vs); [|discriminate].
    destruct (lookup (o_name o) paddings) as [pd|] eqn:Ep; [|discriminate].
    destruct (pad_versions vcmp canonical prerelease (filter (eligible vcmp false (p_min p)) vs) patterns pd) as [vout|] eqn:Epad; [|discriminate].
    injection Ov as <-.
    assert (forall v, eligible vcmp false (p_min p) v = wanted gcfgs (o_name o) v) as Hw.
    { intros v. rewrite wanted_recs, On, <- He, <- On, Htc. reflexivity. }
    exists r0, vs, pd. rewrite On. split; [apply (find_recs _ _ _ _ Hr)|].
    split; [rewrite <- Hm; exact El|]. split; [reflexivity|].
    rewrite <- On. split.
    - rewrite <- Epad. f_equal. apply filter_ext. intros v. symmetry. apply Hw.
    - intros v Hv Hwv. apply (pad_superset vcmp canonical prerelease _ _ _ _ Epad).
      apply filter_In. split; [exact Hv | rewrite Hw; exact Hwv].
  Qed.

  Theorem generate_versions_oracle gcfgs out : gen gcfgs = GOk out ->
    versions_ok is_valid vcmp go_versions proxy gcfgs out = true.
  Proof.
    intros H. unfold versions_ok. apply forallb_forall. intros o Ho.
    destruct (is_toolchain (o_name o)) eqn:Htc.
    - rewrite (generate_versions_toolchain gcfgs out o H Ho Htc). apply list_eqb_refl. apply beq_refl.
    - destruct (generate_versions_module gcfgs out o H Ho Htc) as [r0 [vs [pd [Hf [Hl [_ [_ Hsup]]]]]]].
      rewrite Hf, Hl.
      assert (existsb (fun r => beq (c_program r) (o_name o)) gcfgs = true) as ->.
      { apply existsb_exists. apply find_some in Hf as [Hin Hb]. exists r0. auto. }
      apply forallb_forall. intros v Hv.
      destruct (ConfigGen.wanted vcmp gcfgs (o_name o) v) eqn:Ew; [|reflexivity].
      cbn [negb orb]. apply mem_in. apply Hsup; assumption.
  Qed.

  Theorem generate_lists_oracle gcfgs out : gen gcfgs = GOk out -> lists_ok gcfgs out = true.
  Proof. intros H. apply lists_ok_iff. apply generate_lists. exact H. Qed.

  (* the least-minimum reading of `wanted`: a version is wanted iff it is not
     older than a least element of the program's minimums ("" least of all) *)
  Definition least_min (gcfgs : list chart) (n m : bytes) : Prop :=
    (exists r, In r gcfgs /\ c_program r = n /\ c_version r = m) /\
    forall r, In r gcfgs -> c_program r = n ->
      is_empty m = true \/ (is_empty (c_version r) = false /\ cmp_le (vcmp (is_toolchain n) m (c_version r)) = true).

  Theorem wanted_iff_not_older_than_least gcfgs n m v : least_min gcfgs n m ->
    wanted gcfgs n v = eligible vcmp (is_toolchain n) m v.
  Proof.
    intros [[r0 [Hr0 [Hn0 Hm0]]] Hleast]. unfold ConfigGen.wanted.
    destruct (eligible vcmp (is_toolchain n) m v) eqn:Em.
    - apply existsb_exists. exists r0. split; [exact Hr0|]. rewrite (proj2 (beq_eq _ _) Hn0), Hm0, Em. reflexivity.
    - destruct (existsb _ gcfgs) eqn:Ex; [|reflexivity]. exfalso.
      apply existsb_exists in Ex as [r [Hr Hx]]. apply andb_true_iff in Hx as [Hn He]. apply beq_eq in Hn.
      unfold ConfigGen.eligible in Em, He. apply orb_false_iff in Em as [Em1 Em2].
      destruct (Hleast r Hr Hn) as [Hemp | [Hne Hle]]; [congruence|].
      rewrite Hne in He. cbn [orb] in He.
      rewrite (cmp_trans _ _ _ _ Hle He) in Em2. discriminate.
  Qed.
  (* A program's entry depends only on that program's own records (and the
     known Go versions, its module's proxy list, its padding): not on the other
     programs of the configuration, their order, nor on whether they share the
     module. *)
  Lemma versions_for_ext p1 p2 : p_name p1 = p_name p2 -> p_module p1 = p_module p2 ->
    (forall v, eligible vcmp (is_toolchain (p_name p1)) (p_min p1) v
               = eligible vcmp (is_toolchain (p_name p2)) (p_min p2) v) ->
    vfor p1 = vfor p2.
  Proof.
    intros Hn Hm He. unfold versions_for. rewrite <- Hn, <- Hm. rewrite <- Hn in He.
    destruct (is_toolchain (p_name p1)) eqn:Htc.
    - f_equal. apply filter_ext. intros v. rewrite He. reflexivity.
    - destruct (lookup (p_module p1) proxy) as [vs|]; [|reflexivity].
      destruct (forallb (is_valid false) vs); [|reflexivity].
      destruct (lookup (p_name p1) paddings) as [pd|]; [|reflexivity].
      rewrite (filter_ext _ _ He). reflexivity.
  Qed.

  Theorem generate_entry_of_own_records gcfgs1 gcfgs2 out1 out2 o1 o2 :
    gen gcfgs1 = GOk out1 -> gen gcfgs2 = GOk out2 -> In o1 out1 -> In o2 out2 ->
    o_name o1 = o_name o2 -> recs (o_name o1) gcfgs1 = recs (o_name o1) gcfgs2 -> o1 = o2.
  Proof.
    intros H1 H2 Ho1 Ho2 Hn Hr.
    destruct (gen_ok gcfgs1 out1 H1) as [a1 [HF1 [Hin1 _]]]. destruct (gen_ok gcfgs2 out2 H2) as [a2 [HF2 [Hin2 _]]].
    apply Hin1 in Ho1. apply Hin2 in Ho2.
    destruct (Forall2_in_r _ _ _ o1 HF1 Ho1) as [p1 [Hp1 [N1 [C1 [S1 V1]]]]].
    destruct (Forall2_in_r _ _ _ o2 HF2 Ho2) as [p2 [Hp2 [N2 [C2 [S2 V2]]]]].
    destruct (group_inv vcmp cmp_trans cmp_total gcfgs1) as [_ [_ Hok1]].
    destruct (group_inv vcmp cmp_trans cmp_total gcfgs2) as [_ [_ Hok2]].
    destruct (Hok1 p1 Hp1) as [_ [Pc1 [Ps1 [[r1 [rest1 [Hr1 Hm1]]] He1]]]].
    destruct (Hok2 p2 Hp2) as [_ [Pc2 [Ps2 [[r2 [rest2 [Hr2 Hm2]]] He2]]]].
    assert (p_name p1 = p_name p2) as Hpn by congruence.
    rewrite <- N1 in He1, Pc1, Ps1, Hr1.
    rewrite <- N2, <- Hn in He2, Pc2, Ps2, Hr2. rewrite <- Hr in He2, Pc2, Ps2, Hr2.
    assert (vfor p1 = vfor p2) as Hv.
    { apply versions_for_ext.
      - exact Hpn.
      - rewrite Hr1 in Hr2. injection Hr2 as <- _. congruence.
      - intros v. rewrite <- N1, <- N2, <- Hn. rewrite He1, He2. reflexivity. }
    rewrite Hv, V2 in V1. injection V1 as V1.
    destruct o1, o2. cbn in *. congruence.
  Qed.
End Generate2.

(* ------------------------------------------------------------ padVersions is partial *)

(* padVersions panics ("unable to parse latest release version") exactly when
   parseSemver fails on the latest release: fmt.Sscanf("%d") rejects a
   component above the int range. *)
Theorem pad_defined_iff vcmp canonical prerelease versions patts pd :
  pad_versions vcmp canonical prerelease versions patts pd = None
  <-> parse_mmp (latest_release vcmp canonical prerelease (sem_sort vcmp versions)) = None.
Proof.
  unfold pad_versions. destruct (parse_mmp _) as [[[M m] p]|]; split; intro H; try discriminate; reflexivity.
Qed.

(* witness: a valid semantic version whose major number is 2^63 *)
Theorem pad_total_refuted :
  pad_versions (fun _ => bcmp) (fun v => v) (fun _ => [])
    [[118; 57; 50; 50; 51; 51; 55; 50; 48; 51; 54; 56; 53; 52; 55; 55; 53; 56; 48; 56; 46; 48; 46; 48]] []
    (mkPad 1 1 1 1 0) = None.
Proof. vm_compute. reflexivity. Qed.
