(* Proofs/DateMono: days_from_civil is strictly increasing in the
   lexicographic order of valid dates (arithmetic, no sweep); consequences:
   civil_from_days inverts days_from_civil, and the key yyyymmdd of a day
   number is strictly increasing. *)
From Coq Require Import List ZArith NArith Bool Lia.
From Tele Require Import Lib.Bytes Lib.Calendar Proofs.CalendarFacts.
Import ListNotations.
Open Scope Z_scope.

(* days before the 1st of March of the (March-based) year Y, up to a constant *)
Definition yearF (Y : Z) : Z := 365 * Y + Y / 4 - Y / 100 + Y / 400.
Definition shY (y m : Z) : Z := if m <=? 2 then y - 1 else y.
Definition mpOf (m : Z) : Z := if 2 <? m then m - 3 else m + 9.
Definition mstart (k : Z) : Z := (153 * k + 2) / 5.
Definition doyOf (m d : Z) : Z := mstart (mpOf m) + d - 1.

Lemma days_yearF y m d : days_from_civil y m d = yearF (shY y m) + doyOf m d - 719468.
Proof.
  unfold days_from_civil, doe_of, yearF, shY, doyOf, mstart, mpOf.
  set (Y := if m <=? 2 then y - 1 else y).
  set (doy := (153 * (if 2 <? m then m - 3 else m + 9) + 2) / 5 + d - 1).
  clearbody doy. clearbody Y.
  Z.div_mod_to_equations. lia.
Qed.

Lemma yearF_step Y : yearF (Y + 1) - yearF Y = 365 + (if is_leap (Y + 1) then 1 else 0).
Proof.
  unfold yearF, is_leap.
  destruct (Z.eqb_spec ((Y + 1) mod 4) 0) as [E4|E4];
  destruct (Z.eqb_spec ((Y + 1) mod 100) 0) as [E100|E100];
  destruct (Z.eqb_spec ((Y + 1) mod 400) 0) as [E400|E400]; cbn [negb andb orb];
  Z.div_mod_to_equations; lia.
Qed.

Lemma yearF_mono a b : a <= b -> 365 * (b - a) <= yearF b - yearF a.
Proof.
  intros H. replace b with (a + (b - a)) by ring.
  assert (Hn : 0 <= b - a) by lia. generalize (b - a) Hn. clear.
  apply (natlike_ind (fun n => 365 * (a + n - a) <= yearF (a + n) - yearF a)).
  - rewrite Z.add_0_r. lia.
  - intros n Hn IH. pose proof (yearF_step (a + n)) as S.
    replace (a + Z.succ n) with (a + n + 1) by lia.
    destruct (is_leap (a + n + 1)); lia.
Qed.

Lemma month_cases m : 1 <= m <= 12 ->
  m = 1 \/ m = 2 \/ m = 3 \/ m = 4 \/ m = 5 \/ m = 6 \/ m = 7 \/ m = 8 \/ m = 9 \/ m = 10 \/ m = 11 \/ m = 12.
Proof. lia. Qed.

Lemma valid_civil_dim y m d : valid_civil y m d = true ->
  1 <= m <= 12 /\ 1 <= d <= days_in_month y m.
Proof.
  unfold valid_civil. intros H.
  repeat (apply andb_true_iff in H as [H ?]).
  apply Z.leb_le in H. repeat (match goal with H : (_ <=? _) = true |- _ => apply Z.leb_le in H end). lia.
Qed.

Ltac comp_mstart :=
  repeat match goal with
         | |- context [mstart ?e] =>
             let v := eval vm_compute in (mstart e) in change (mstart e) with v
         end.

(* the day of the (March-based) year: within 0..365, 365 only on 29 February *)
Lemma doy_bound y m d : valid_civil y m d = true ->
  0 <= doyOf m d <= 365 /\ (doyOf m d = 365 -> m = 2 /\ is_leap y = true).
Proof.
  intros V. apply valid_civil_dim in V as [Hm Hd].
  unfold days_in_month in Hd.
  destruct (month_cases m Hm) as [->|[->|[->|[->|[->|[->|[->|[->|[->|[->|[->| ->]]]]]]]]]]];
    cbn in Hd; unfold doyOf; comp_mstart;
    try (split; [lia | intros; lia]).
  destruct (is_leap y); (split; [lia|]); intros E; [split; reflexivity | exfalso; lia].
Qed.

(* a valid day of a month other than February lies before the start of the next month *)
Lemma doy_before_next y m d : valid_civil y m d = true -> mpOf m <= 10 ->
  doyOf m d < mstart (mpOf m + 1).
Proof.
  intros V. apply valid_civil_dim in V as [Hm Hd].
  unfold days_in_month in Hd.
  destruct (month_cases m Hm) as [->|[->|[->|[->|[->|[->|[->|[->|[->|[->|[->| ->]]]]]]]]]]];
    cbn in Hd; intros K; cbn in K; unfold doyOf; comp_mstart; lia.
Qed.

Lemma mstart_mono a b : a <= b -> mstart a <= mstart b.
Proof. intros H. unfold mstart. Z.div_mod_to_equations. lia. Qed.

Definition lexlt (p q : Z * Z * Z) : Prop :=
  let '(y, m, d) := p in let '(y', m', d') := q in
  y < y' \/ (y = y' /\ (m < m' \/ (m = m' /\ d < d'))).

Theorem days_mono y m d y' m' d' :
  valid_civil y m d = true -> valid_civil y' m' d' = true ->
  lexlt (y, m, d) (y', m', d') -> days_from_civil y m d < days_from_civil y' m' d'.
Proof.
  intros V V' L. cbn [lexlt] in L.
  pose proof (doy_bound _ _ _ V) as [B1 B2]. pose proof (doy_bound _ _ _ V') as [B1' _].
  pose proof (valid_civil_dim _ _ _ V) as [Hm Hd]. pose proof (valid_civil_dim _ _ _ V') as [Hm' Hd'].
  rewrite !days_yearF.
  assert (C : shY y m < shY y' m' \/ (shY y m = shY y' m' /\ mpOf m < mpOf m') \/
              (shY y m = shY y' m' /\ m = m' /\ d < d')).
  { unfold shY, mpOf.
    destruct (Z.leb_spec m 2), (Z.leb_spec m' 2), (Z.ltb_spec 2 m), (Z.ltb_spec 2 m'); cbv iota; lia. }
  destruct C as [C|[[C1 C2]|(C1 & C2 & C3)]].
  - (* an earlier March-based year *)
    pose proof (yearF_mono (shY y m + 1) (shY y' m') ltac:(lia)) as M.
    pose proof (yearF_step (shY y m)) as S.
    destruct (Z.eq_dec (doyOf m d) 365) as [E|E].
    + destruct (B2 E) as [-> Lp]. change (shY y 2) with (y - 1) in *.
      replace (y - 1 + 1) with y in * by ring. rewrite Lp in S. lia.
    + destruct (is_leap (shY y m + 1)); lia.
  - (* same year, an earlier month *)
    assert (K : mpOf m <= 10) by (unfold mpOf in *; destruct (Z.ltb_spec 2 m), (Z.ltb_spec 2 m'); cbv iota in *; lia).
    pose proof (doy_before_next _ _ _ V K) as N.
    pose proof (mstart_mono (mpOf m + 1) (mpOf m') ltac:(lia)) as Mm.
    rewrite C1. unfold doyOf at 2. lia.
  - rewrite C1. subst m'. unfold doyOf. lia.
Qed.

Lemma lex_trichotomy (p q : Z * Z * Z) : p = q \/ lexlt p q \/ lexlt q p.
Proof.
  destruct p as [[y m] d], q as [[y' m'] d']. cbn [lexlt].
  destruct (Z.lt_trichotomy y y') as [H|[H|H]]; [right; left; lia | | right; right; lia].
  destruct (Z.lt_trichotomy m m') as [H2|[H2|H2]]; [right; left; lia | | right; right; lia].
  destruct (Z.lt_trichotomy d d') as [H3|[H3|H3]]; [right; left; lia | | right; right; lia].
  left. congruence.
Qed.

(* ---- civil_from_days inverts days_from_civil on valid dates ---- *)
Theorem civil_inverse y m d : valid_civil y m d = true ->
  civil_from_days (days_from_civil y m d) = (y, m, d).
Proof.
  intros V. pose proof (civil_roundtrip (days_from_civil y m d)) as R.
  destruct (civil_from_days (days_from_civil y m d)) as [[y2 m2] d2]. destruct R as [R V2].
  destruct (lex_trichotomy (y2, m2, d2) (y, m, d)) as [E|[L|L]]; [exact E | |].
  - pose proof (days_mono _ _ _ _ _ _ V2 V L). lia.
  - pose proof (days_mono _ _ _ _ _ _ V V2 L). lia.
Qed.

(* ---- the key yyyymmdd is strictly increasing in the day number ---- *)
Definition kkey (z : Z) : Z := let '(y, m, d) := civil_from_days z in y * 10000 + m * 100 + d.

Lemma kkey_mono a b : a < b -> kkey a < kkey b.
Proof.
  intros H. unfold kkey.
  pose proof (civil_roundtrip a) as Ra. pose proof (civil_roundtrip b) as Rb.
  destruct (civil_from_days a) as [[y m] d]. destruct (civil_from_days b) as [[y' m'] d'].
  destruct Ra as [Ra Va]. destruct Rb as [Rb Vb].
  pose proof (valid_civil_bounds _ _ _ Va) as [Hm Hd]. pose proof (valid_civil_bounds _ _ _ Vb) as [Hm' Hd'].
  destruct (lex_trichotomy (y, m, d) (y', m', d')) as [E|[L|L]].
  - injection E as -> -> ->. lia.
  - cbn [lexlt] in L. nia.
  - pose proof (days_mono _ _ _ _ _ _ Vb Va L). lia.
Qed.

Lemma kkey_order a b : (kkey a <? kkey b) = (a <? b).
Proof.
  destruct (Z.ltb_spec a b) as [H|H].
  - apply Z.ltb_lt. apply kkey_mono. exact H.
  - apply Z.ltb_ge. destruct (Z.eq_dec a b) as [->|Hne]; [lia|].
    pose proof (kkey_mono b a ltac:(lia)). lia.
Qed.
