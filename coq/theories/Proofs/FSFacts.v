(* Proofs/FSFacts: lookup after each directory operation of Lib/FS. *)
From Coq Require Import List ZArith NArith Bool Lia Arith.
From Tele Require Import Lib.Bytes Lib.FS.
Import ListNotations.

Lemma beq_sym a b : beq a b = beq b a.
Proof.
  destruct (beq a b) eqn:E1; destruct (beq b a) eqn:E2; auto.
  - apply beq_eq in E1. subst. rewrite beq_refl in E2. discriminate.
  - apply beq_eq in E2. subst. rewrite beq_refl in E1. discriminate.
Qed.

Lemma beq_false_ne a b : a <> b -> beq a b = false.
Proof. intros H. apply beq_neq. exact H. Qed.

Section Dir.
Context {C : Type}.
Implicit Types (d : dir C) (n m : bytes) (c : C).

Lemma d_find_remove_same d n : d_find (d_remove d n) n = None.
Proof.
  induction d as [|[k v] d IH]; simpl; auto.
  destruct (beq k n) eqn:E; simpl; auto. rewrite E. exact IH.
Qed.

Lemma d_find_remove_other d n m : n <> m -> d_find (d_remove d n) m = d_find d m.
Proof.
  intros H. induction d as [|[k v] d IH]; simpl; auto.
  destruct (beq k n) eqn:E; simpl.
  - apply beq_eq in E. subst k. rewrite (beq_false_ne _ _ H). exact IH.
  - destruct (beq k m); auto.
Qed.

Lemma d_mem_remove_same d n : d_mem (d_remove d n) n = false.
Proof. unfold d_mem. rewrite d_find_remove_same. reflexivity. Qed.

Lemma d_mem_remove_other d n m : n <> m -> d_mem (d_remove d n) m = d_mem d m.
Proof. intros H. unfold d_mem. rewrite d_find_remove_other by exact H. reflexivity. Qed.

Lemma d_mem_remove_true d n m : d_mem (d_remove d n) m = true -> d_mem d m = true.
Proof.
  destruct (beq n m) eqn:E.
  - apply beq_eq in E. subst. rewrite d_mem_remove_same. discriminate.
  - apply beq_neq in E. rewrite d_mem_remove_other by exact E. auto.
Qed.

Lemma d_get_remove_other d n m : n <> m -> d_get (d_remove d n) m = d_get d m.
Proof. intros H. unfold d_get. rewrite d_find_remove_other by exact H. reflexivity. Qed.

Lemma d_find_add d n id c m :
  d_find (d_add d n id c) m = if beq n m then Some (id, c) else d_find d m.
Proof. reflexivity. Qed.

Lemma d_mem_add d n id c m : d_mem (d_add d n id c) m = beq n m || d_mem d m.
Proof. unfold d_mem. rewrite d_find_add. destruct (beq n m); reflexivity. Qed.

Lemma d_get_add d n id c m : d_get (d_add d n id c) m = if beq n m then Some c else d_get d m.
Proof. unfold d_get. rewrite d_find_add. destruct (beq n m); reflexivity. Qed.

Lemma d_find_set_id d id c n :
  d_find (d_set_id d id c) n =
  match d_find d n with
  | Some (i, c0) => Some (i, if Nat.eqb i id then c else c0)
  | None => None
  end.
Proof.
  induction d as [|[k [i c0]] d IH]; simpl; auto.
  destruct (Nat.eqb i id) eqn:E; simpl; destruct (beq k n); auto; rewrite E; reflexivity.
Qed.

Lemma d_mem_set_id d id c n : d_mem (d_set_id d id c) n = d_mem d n.
Proof. unfold d_mem. rewrite d_find_set_id. destruct (d_find d n) as [[i c0]|]; reflexivity. Qed.

Lemma d_find_put d n id c m :
  d_find (d_put d n id c) m =
  if beq n m then Some (match d_find d n with Some (i, _) => i | None => id end, c)
  else d_find d m.
Proof.
  induction d as [|[k [i c0]] d IH]; simpl.
  - destruct (beq n m); reflexivity.
  - destruct (beq k n) eqn:E; simpl.
    + apply beq_eq in E. subst k. destruct (beq n m); reflexivity.
    + rewrite IH. destruct (beq n m) eqn:E2.
      * apply beq_eq in E2. subst m. rewrite E. reflexivity.
      * reflexivity.
Qed.

Lemma d_mem_put d n id c m : d_mem (d_put d n id c) m = beq n m || d_mem d m.
Proof. unfold d_mem. rewrite d_find_put. destruct (beq n m); reflexivity. Qed.

Lemma d_get_put d n id c m : d_get (d_put d n id c) m = if beq n m then Some c else d_get d m.
Proof. unfold d_get. rewrite d_find_put. destruct (beq n m); reflexivity. Qed.

Lemma d_get_set_id d id c n :
  d_get (d_set_id d id c) n =
  match d_find d n with
  | Some (i, c0) => Some (if Nat.eqb i id then c else c0)
  | None => None
  end.
Proof. unfold d_get. rewrite d_find_set_id. destruct (d_find d n) as [[i c0]|]; reflexivity. Qed.

Lemma d_mem_get d n : d_mem d n = true <-> exists c, d_get d n = Some c.
Proof.
  unfold d_mem, d_get. destruct (d_find d n) as [[i c]|]; split; intros H; auto.
  - exists c. reflexivity.
  - discriminate.
  - destruct H as [c H]. discriminate.
Qed.

Lemma d_mem_false_get d n : d_mem d n = false <-> d_get d n = None.
Proof. unfold d_mem, d_get. destruct (d_find d n) as [[i c]|]; split; intros H; auto; discriminate. Qed.

(* ids *)
Lemma d_find_id_in d n i c : d_find d n = Some (i, c) -> In i (d_ids d).
Proof.
  induction d as [|[k [j c0]] d IH]; simpl; [discriminate|].
  destruct (beq k n); intros H.
  - injection H as -> _. left. reflexivity.
  - right. exact (IH H).
Qed.

Lemma d_ids_remove d n i : In i (d_ids (d_remove d n)) -> In i (d_ids d).
Proof.
  induction d as [|[k [j c0]] d IH]; simpl; auto.
  destruct (beq k n); simpl; intros H; [right; auto|destruct H; auto].
Qed.

Lemma d_ids_set_id d id c : d_ids (d_set_id d id c) = d_ids d.
Proof.
  induction d as [|[k [j c0]] d IH]; simpl; auto.
  destruct (Nat.eqb j id); simpl; rewrite IH; reflexivity.
Qed.

Lemma d_ids_put d n id c i : In i (d_ids (d_put d n id c)) -> i = id \/ In i (d_ids d).
Proof.
  induction d as [|[k [j c0]] d IH]; simpl.
  - intros [H|[]]; auto.
  - destruct (beq k n); simpl; intros [H|H]; auto.
    destruct (IH H); auto.
Qed.

End Dir.
