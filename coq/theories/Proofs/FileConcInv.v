(* Proofs/FileConcInv: the inductive invariant of Model/FileConc.
   Shared part: wf_shared (layout + chains).  Per process: tinv, stable under
   every action of every other process (rely: evolve + frame).  *)
From Coq Require Import List NArith ZArith Bool Lia.
From Tele Require Import Gen.Consts Model.FileConc Proofs.FileConcBase.
Import ListNotations.
Open Scope N_scope.
Set Default Proof Using "Type".

Section Inv.
Variable bucket : name -> N.
Variable nlen : name -> N.
Variable H : N.

Notation rsize := (rsize nlen).
Notation place := (place nlen H).
Notation rec_start := (rec_start H).
Notation apply_act := (apply_act nlen).

(* ------------------------------------------------------------------ *)
(* well-formedness of the shared file                                  *)

Definition has_rec (f : file) (o : N) : Prop := exists r, find_rec o (f_recs f) = Some r.
Definition unlinked (f : file) (o : N) : Prop := forall b, ~ In o (f_chain f b).
Definition name_at (f : file) (o : N) : option name := option_map r_name (find_rec o (f_recs f)).

Definition rec_layout_ok (limit : N) (r : rec) : Prop :=
  r_off r mod 32 = 0 /\ rec_start <= r_off r /\ r_off r + rsize (r_name r) <= limit /\
  r_off r / 16384 = (r_off r + rsize (r_name r)) / 16384 /\ nlen (r_name r) <= c_maxNameLen /\
  1 <= nlen (r_name r).

Definition wf_layout (f : file) : Prop :=
  f_size f mod 16384 = 0 /\ c_minFileLen <= f_size f /\ f_limit f <= f_size f /\ f_limit f < W32 /\
  (f_limit f = 0 \/ rec_start <= f_limit f) /\
  (forall r, In r (f_recs f) -> rec_layout_ok (f_limit f) r) /\
  (forall r1 r2, In r1 (f_recs f) -> In r2 (f_recs f) -> r_off r1 < r_off r2 ->
                 r_off r1 + rsize (r_name r1) <= r_off r2) /\
  NoDup (map r_off (f_recs f)) /\ f_damaged f = false.

Definition linked_rec (f : file) (b o : N) : Prop :=
  exists r, find_rec o (f_recs f) = Some r /\ r_copied r = true /\ r_lenw r = true /\ bucket (r_name r) = b.

Fixpoint linked_ok (f : file) (l : list N) : Prop :=
  match l with
  | [] => True
  | a :: tl => load_next f a = hd 0 tl /\ linked_ok f tl
  end.

Definition wf_chains (f : file) : Prop := forall b,
  NoDup (f_chain f b) /\ (forall o, In o (f_chain f b) -> linked_rec f b o) /\
  linked_ok f (f_chain f b) /\ NoDup (map (name_at f) (f_chain f b)).

Definition wf_shared (f : file) : Prop := wf_layout f /\ wf_chains f.

(* ------------------------------------------------------------------ *)
(* what a step may do to the file, and under which condition            *)

Definition named_other (f : file) (nm : name) (x : N) : Prop :=
  exists r, find_rec x (f_recs f) = Some r /\ r_name r <> nm.

Definition owned_unlinked (me : nat) (f : file) (off : N) : Prop :=
  exists r, find_rec off (f_recs f) = Some r /\ r_owner r = me /\ unlinked f off.

Definition act_pre (me : nat) (f : file) (a : act) : Prop :=
  match a with
  | AExtend e => e mod 16384 = 0
  | AReserve me' s e nm =>
      me' = me /\ place (f_limit f) nm = (s, e) /\ e <= f_size f /\ nlen nm <= c_maxNameLen /\ e < W32 /\
      1 <= nlen nm
  | ACopy off => owned_unlinked me f off
  | ALen off => owned_unlinked me f off
  | ANext off v => owned_unlinked me f off
  | ALink b off =>
      exists r, find_rec off (f_recs f) = Some r /\ r_owner r = me /\ unlinked f off /\
                r_copied r = true /\ r_lenw r = true /\ bucket (r_name r) = b /\
                r_next r = head_of f b /\
                (forall x, In x (f_chain f b) -> named_other f (r_name r) x)
  | AVal off v => (exists b, In off (f_chain f b)) /\ exists r, find_rec off (f_recs f) = Some r /\ r_val r <= v
  end.

(* ---- small facts ---- *)
Lemma wf_rec_pos : forall f r, wf_layout f -> In r (f_recs f) -> 0 < r_off r.
Proof.
  intros f r W I. destruct W as (_ & _ & _ & _ & _ & L & _). destruct (L r I) as (_ & S & _).
  rewrite (rec_start_val H) in S. lia.
Qed.

Lemma zero_not_linked : forall f b, wf_shared f -> ~ In 0 (f_chain f b).
Proof.
  intros f b [WL WC] I. destruct (WC b) as (_ & LR & _). destruct (LR 0 I) as (r & E & _).
  apply find_rec_some in E. destruct E as [I' E]. pose proof (wf_rec_pos f r WL I'). lia.
Qed.

Lemma name_at_some : forall f o r, find_rec o (f_recs f) = Some r -> name_at f o = Some (r_name r).
Proof. intros f o r E. unfold name_at. rewrite E. reflexivity. Qed.

Lemma linked_ok_ext : forall f f' l, (forall a, In a l -> load_next f' a = load_next f a) ->
  linked_ok f l -> linked_ok f' l.
Proof.
  induction l as [|a tl IH]; cbn; intros E L; [exact I|].
  destruct L as [L1 L2]. split; [rewrite E by (left; reflexivity); exact L1|].
  apply IH; [intros; apply E; right; assumption|exact L2].
Qed.

(* chains are preserved when the records reachable from them keep their
   name, flags and next field *)
Lemma wf_chains_pres : forall f f',
  f_chain f' = f_chain f ->
  (forall b o r, In o (f_chain f b) -> find_rec o (f_recs f) = Some r ->
     exists r', find_rec o (f_recs f') = Some r' /\ r_name r' = r_name r /\
                r_copied r' = r_copied r /\ r_lenw r' = r_lenw r /\ r_next r' = r_next r) ->
  wf_chains f -> wf_chains f'.
Proof.
  intros f f' EC P W b. destruct (W b) as (ND & LR & LO & NN). rewrite EC.
  assert (Same : forall o, In o (f_chain f b) -> load_next f' o = load_next f o /\ name_at f' o = name_at f o).
  { intros o I. destruct (LR o I) as (r & E & _). destruct (P b o r I E) as (r' & E' & A & _ & _ & D).
    unfold load_next, name_at. rewrite E, E'. cbn. rewrite A, D. auto. }
  splits.
  - exact ND.
  - intros o I. destruct (LR o I) as (r & E & C1 & C2 & C3).
    destruct (P b o r I E) as (r' & E' & A & B & C & _).
    exists r'. rewrite A, B, C. auto.
  - apply (linked_ok_ext f); [intros a I; apply Same; exact I|exact LO].
  - erewrite map_ext_in; [exact NN|]. intros a I. apply Same. exact I.
Qed.

Definition same_on (g : rec -> rec) : Prop := forall r, r_off (g r) = r_off r /\ r_name (g r) = r_name r.

Lemma wf_layout_upd : forall f off g, same_on g -> wf_layout f ->
  wf_layout (mkF (f_size f) (f_limit f) (f_chain f) (upd_rec off g (f_recs f)) (f_damaged f)).
Proof.
  intros f off g Sg (A & B & C & D & E & L & P & ND & DM).
  assert (Sg1 : forall r, r_off (g r) = r_off r) by (intro; apply Sg).
  unfold wf_layout; cbn. splits; try assumption.
  - intros r' I. apply In_upd_rec in I. destruct I as (r & I & ->).
    specialize (L r I). unfold rec_layout_ok in *.
    destruct (Sg r) as [Ea Eb]. destruct (r_off r =? off); rewrite ?Ea, ?Eb; exact L.
  - intros r1' r2' I1 I2. apply In_upd_rec in I1, I2.
    destruct I1 as (r1 & I1 & ->). destruct I2 as (r2 & I2 & ->).
    specialize (P r1 r2 I1 I2).
    destruct (Sg r1) as [Ea Eb]. destruct (Sg r2) as [Ec Ed].
    destruct (r_off r1 =? off); destruct (r_off r2 =? off); rewrite ?Ea, ?Eb, ?Ec, ?Ed; exact P.
  - rewrite map_off_upd by exact Sg1. exact ND.
Qed.

Lemma wf_chains_upd : forall f off g, same_on g ->
  (forall r, r_copied (g r) = r_copied r /\ r_lenw (g r) = r_lenw r /\ r_next (g r) = r_next r) \/ unlinked f off ->
  wf_chains f ->
  wf_chains (mkF (f_size f) (f_limit f) (f_chain f) (upd_rec off g (f_recs f)) (f_damaged f)).
Proof.
  intros f off g Sg Cond W. apply (wf_chains_pres f); [reflexivity| |exact W].
  assert (Sg1 : forall r, r_off (g r) = r_off r) by (intro; apply Sg).
  intros b o r I E. cbn.
  destruct (N.eq_dec o off) as [->|Ne].
  - destruct Cond as [Cond|U]; [|exfalso; exact (U b I)].
    exists (g r). rewrite (find_rec_upd_same _ _ _ r Sg1 E).
    destruct (Sg r) as [_ ->]. destruct (Cond r) as (-> & -> & ->). auto.
  - exists r. rewrite find_rec_upd_other by assumption. auto.
Qed.

Lemma overlaps_tail_false : forall lim e r, rec_layout_ok lim r -> e mod 16384 = 0 ->
  overlaps_tail nlen e r = false.
Proof.
  intros lim e r (A & B & C & D & E) He. unfold overlaps_tail.
  destruct (rsize_facts nlen (r_name r)) as (R1 & R2 & R3 & R4).
  apply andb_false_iff.
  destruct (r_off r <? e) eqn:Q1; [right|left; reflexivity].
  apply N.ltb_lt in Q1. apply N.ltb_ge.
  change (FileConc.rsize nlen (r_name r)) with (rsize (r_name r)).
  remember (rsize (r_name r)) as sz. remember (r_off r) as o. clear - A D He Q1 R3. nlia.
Qed.

(* ---- wf_shared is preserved by every permitted action ---- *)
Lemma wf_act : forall me f a, wf_shared f -> act_pre me f a -> wf_shared (apply_act a f).
Proof.
  intros me f a [WL WC] Pre. destruct a as [e|me' s e nm|off|off|off v|b off|off v]; cbn in Pre |- *.
  - (* AExtend *)
    destruct WL as (A & B & C & D & E & L & P & ND & DM). split.
    + unfold wf_layout; cbn. splits; try assumption; try (clear - A B C Pre; nlia).
      rewrite DM. cbn. apply not_true_is_false. intro X. apply existsb_exists in X.
      destruct X as (r & I & O). rewrite (overlaps_tail_false _ e r (L r I) Pre) in O. discriminate.
    + apply (wf_chains_pres f); [reflexivity| |exact WC]. intros; eauto 10.
  - (* AReserve *)
    destruct Pre as (-> & Pl & Es & Nm & Rg & Np).
    destruct WL as (A & B & C & D & E & L & P & ND & DM).
    destruct (place_spec nlen H _ _ _ _ Pl Nm) as (P1 & P2 & P3 & P4 & P5).
    destruct (rsize_facts nlen nm) as (R1 & R2 & R3 & R4).
    assert (Lb : rec_start <= s /\ f_limit f <= s).
    { destruct (f_limit f =? 0) eqn:Q; [apply N.eqb_eq in Q; lia|]. apply N.eqb_neq in Q. lia. }
    assert (Old : forall r, In r (f_recs f) -> r_off r + rsize (r_name r) <= s /\ r_off r < s).
    { intros r I. destruct (L r I) as (_ & _ & X & _).
      destruct (rsize_facts nlen (r_name r)) as (_ & _ & _ & Y). lia. }
    split.
    + unfold wf_layout; cbn. splits; try assumption; try (unfold_consts; lia).
      * intros r I. apply in_app_iff in I. destruct I as [I|[<-|[]]].
        -- destruct (L r I) as (X1 & X2 & X3 & X4 & X5 & X6). unfold rec_layout_ok. splits; try assumption. lia.
        -- unfold rec_layout_ok; cbn. splits; try assumption; try lia. rewrite <- P4. exact P5.
      * intros r1 r2 I1 I2 Lt. apply in_app_iff in I1, I2.
        destruct I1 as [I1|[<-|[]]]; destruct I2 as [I2|[<-|[]]]; cbn in *.
        -- exact (P r1 r2 I1 I2 Lt).
        -- apply (Old r1 I1).
        -- pose proof (Old r2 I2). lia.
        -- lia.
      * rewrite map_app. cbn. apply NoDup_snoc; [exact ND|].
        intro I. apply in_map_iff in I. destruct I as (r & X & I). pose proof (Old r I). lia.
    + apply (wf_chains_pres f); [reflexivity| |exact WC]. intros b o r I E'. cbn.
      exists r. rewrite find_rec_app, E'. auto.
  - (* ACopy *)
    destruct Pre as (r & E & O & U). split.
    + apply wf_layout_upd; [intro; cbn; auto|exact WL].
    + apply wf_chains_upd; [intro; cbn; auto|right; exact U|exact WC].
  - (* ALen *)
    destruct Pre as (r & E & O & U). split.
    + apply wf_layout_upd; [intro; cbn; auto|exact WL].
    + apply wf_chains_upd; [intro; cbn; auto|right; exact U|exact WC].
  - (* ANext *)
    destruct Pre as (r & E & O & U). split.
    + apply wf_layout_upd; [intro; cbn; auto|exact WL].
    + apply wf_chains_upd; [intro; cbn; auto|right; exact U|exact WC].
  - (* ALink *)
    destruct Pre as (r & E & O & U & Cp & Lw & Bk & Nx & Fr). split; [exact WL|].
    intro b'. cbn. destruct (b' =? b) eqn:Q.
    + apply N.eqb_eq in Q. subst b'. destruct (WC b) as (ND & LR & LO & NN).
      assert (NA : forall x, name_at (mkF (f_size f) (f_limit f)
                   (fun b' => if b' =? b then off :: f_chain f b' else f_chain f b') (f_recs f) (f_damaged f)) x
                   = name_at f x) by reflexivity.
      split; [|split; [|split]].
      * constructor; [apply U|exact ND].
      * intros o [<-|I]; [exists r; auto|]. destruct (LR o I) as (r0 & X). exists r0. exact X.
      * cbn [linked_ok]. split.
        -- unfold load_next. cbn. rewrite E. exact Nx.
        -- apply (linked_ok_ext f); [reflexivity|exact LO].
      * cbn [map]. constructor.
        -- change (~ In (name_at f off) (map (name_at f) (f_chain f b))).
           rewrite (name_at_some f off r E). intro I. apply in_map_iff in I. destruct I as (x & Ex & Ix).
           destruct (Fr x Ix) as (rx & E1 & E2). rewrite (name_at_some f x rx E1) in Ex. congruence.
        -- exact NN.
    + destruct (WC b') as (ND & LR & LO & NN). splits; try assumption.
      apply (linked_ok_ext f); [reflexivity|exact LO].
  - (* AVal *)
    split.
    + apply wf_layout_upd; [intro; cbn; auto|exact WL].
    + apply wf_chains_upd; [intro; cbn; auto|left; intro; cbn; auto|exact WC].
Qed.

(* ------------------------------------------------------------------ *)
(* rely: how the file may change under a process's feet                  *)

Record evolve (f f' : file) : Prop := mkEv {
  ev_size : f_size f <= f_size f';
  ev_limit : f_limit f <= f_limit f';
  ev_chain : forall b, exists ext, f_chain f' b = ext ++ f_chain f b /\
                        forall x, In x ext -> x <> 0 /\ unlinked f x;
  ev_recs : forall o r, find_rec o (f_recs f) = Some r ->
             exists r', find_rec o (f_recs f') = Some r' /\ r_name r' = r_name r /\ r_owner r' = r_owner r /\
                        (r_copied r = true -> r_copied r' = true) /\ (r_lenw r = true -> r_lenw r' = true) /\
                        r_val r <= r_val r' /\ r_init r' = r_init r
}.

(* the records a process has reserved and not linked are its own *)
Definition frame (j : nat) (f f' : file) : Prop :=
  forall o r, find_rec o (f_recs f) = Some r -> r_owner r = j -> unlinked f o ->
              find_rec o (f_recs f') = Some r /\ unlinked f' o.

Lemma evolve_refl : forall f, evolve f f.
Proof.
  intro f. constructor; try lia.
  - intro b. exists []. split; [reflexivity|intros x []].
  - intros o r E. exists r. splits; auto. lia.
Qed.

Lemma evolve_upd : forall f off g, same_on g ->
  (forall r, r_owner (g r) = r_owner r /\ (r_copied r = true -> r_copied (g r) = true) /\
             (r_lenw r = true -> r_lenw (g r) = true) /\ r_init (g r) = r_init r) ->
  (forall r, find_rec off (f_recs f) = Some r -> r_val r <= r_val (g r)) ->
  evolve f (mkF (f_size f) (f_limit f) (f_chain f) (upd_rec off g (f_recs f)) (f_damaged f)).
Proof.
  intros f off g Sg Pg Vg. assert (Sg1 : forall r, r_off (g r) = r_off r) by (intro; apply Sg).
  constructor; cbn; try lia.
  - intro b. exists []. split; [reflexivity|intros x []].
  - intros o r E. destruct (N.eq_dec o off) as [->|Ne].
    + exists (g r). rewrite (find_rec_upd_same _ _ _ r Sg1 E). destruct (Sg r) as [_ ->].
      destruct (Pg r) as (-> & A & B & ->). splits; auto.
    + exists r. rewrite find_rec_upd_other by assumption. splits; auto. lia.
Qed.

Lemma frame_upd : forall j f off g r0, (forall r, r_off (g r) = r_off r) ->
  find_rec off (f_recs f) = Some r0 -> (r_owner r0 <> j \/ ~ unlinked f off) ->
  frame j f (mkF (f_size f) (f_limit f) (f_chain f) (upd_rec off g (f_recs f)) (f_damaged f)).
Proof.
  intros j f off g r0 Sg1 E0 Cond o r E Ow U. cbn. split; [|exact U].
  destruct (N.eq_dec o off) as [->|Ne].
  - exfalso. rewrite E0 in E. inversion E; subst. destruct Cond as [X|X]; [congruence|exact (X U)].
  - rewrite find_rec_upd_other by assumption. exact E.
Qed.

Lemma act_evolve : forall me f a, wf_shared f -> act_pre me f a -> evolve f (apply_act a f).
Proof.
  intros me f a W Pre. destruct a as [e|me' s e nm|off|off|off v|b off|off v]; cbn in Pre |- *.
  - constructor; cbn; try lia.
    + intro b. exists []. split; [reflexivity|intros x []].
    + intros o r E. exists r. splits; auto. lia.
  - destruct Pre as (-> & Pl & Es & Nm & Rg).
    destruct (place_spec nlen H _ _ _ _ Pl Nm) as (P1 & P2 & _).
    constructor; cbn; try lia.
    + intro b. exists []. split; [reflexivity|intros x []].
    + intros o r E. exists r. rewrite find_rec_app, E. splits; auto. lia.
  - apply evolve_upd; [intro; cbn; auto|intro; cbn; auto|intros; cbn; lia].
  - apply evolve_upd; [intro; cbn; auto|intro; cbn; auto|intros; cbn; lia].
  - apply evolve_upd; [intro; cbn; auto|intro; cbn; auto|intros; cbn; lia].
  - destruct Pre as (r & E & O & U & _).
    constructor; cbn; try lia.
    + intro b'. destruct (b' =? b).
      * exists [off]. split; [reflexivity|]. intros x [<-|[]]. split; [|exact U].
        apply find_rec_some in E. destruct E as [I E]. pose proof (wf_rec_pos f r (proj1 W) I). lia.
      * exists []. split; [reflexivity|intros x []].
    + intros o r' E'. exists r'. splits; auto. lia.
  - destruct Pre as (_ & r & E & V).
    apply evolve_upd; [intro; cbn; auto|intro; cbn; auto|].
    intros r' E'. rewrite E in E'. inversion E'; subst. cbn. exact V.
Qed.

Lemma act_frame : forall me j f a, wf_shared f -> act_pre me f a -> j <> me -> frame j f (apply_act a f).
Proof.
  intros me j f a W Pre Ne. destruct a as [e|me' s e nm|off|off|off v|b off|off v]; cbn in Pre |- *.
  - intros o r E Ow U. cbn. auto.
  - intros o r E Ow U. cbn. rewrite find_rec_app, E. auto.
  - destruct Pre as (r & E & O & U). apply (frame_upd j f off _ r); [intro; reflexivity|exact E|left; lia].
  - destruct Pre as (r & E & O & U). apply (frame_upd j f off _ r); [intro; reflexivity|exact E|left; lia].
  - destruct Pre as (r & E & O & U). apply (frame_upd j f off _ r); [intro; reflexivity|exact E|left; lia].
  - destruct Pre as (r & E & O & U & _). intros o r' E' Ow U'. cbn. split; [exact E'|].
    intros b' I. cbn in I. destruct (b' =? b); [|exact (U' b' I)].
    destruct I as [<-|I]; [|exact (U' b' I)]. rewrite E in E'. inversion E'; subst. lia.
  - destruct Pre as ((b & I) & r & E & V). apply (frame_upd j f off _ r); [intro; reflexivity|exact E|].
    right. intro U. exact (U b I).
Qed.

(* ------------------------------------------------------------------ *)
(* what each process knows, by program point                             *)

Definition inch (f : file) (b o : N) : Prop := o = 0 \/ In o (f_chain f b).
Definition fresh_from (f : file) (b : N) (nm : name) (o : N) : Prop :=
  forall x, In x (suf o (f_chain f b)) -> named_other f nm x.
Definition walked (f : file) (b : N) (nm : name) (h off : N) : Prop :=
  exists pre, suf h (f_chain f b) = pre ++ suf off (f_chain f b) /\ forall x, In x pre -> named_other f nm x.
Definition mine (me : nat) (f : file) (start : N) (nm : name) (cp lw : bool) : Prop :=
  exists r, find_rec start (f_recs f) = Some r /\ r_name r = nm /\ r_owner r = me /\
            r_copied r = cp /\ r_lenw r = lw /\ unlinked f start.
Definition cell_ok (f : file) (nm : name) (c : N) : Prop :=
  c = 0 \/ (In c (f_chain f (bucket nm)) /\ name_at f c = Some nm).
Definition map_ok (f : file) (m : N) : Prop := c_minFileLen <= m /\ m <= f_size f.
Definition in_add (p : pc) : bool := match p with ALoad | ACas => true | _ => false end.

Definition pc_inv (me : nat) (f : file) (t : thread) : Prop :=
  let nm := t_nm t in let b := bucket nm in
  match t_pc t with
  | LHead | RLimit | RMap => 1 <= nlen nm /\ nlen nm <= c_maxNameLen
  | LLen | LNext =>
      (1 <= nlen nm /\ nlen nm <= c_maxNameLen) /\ inch f b (t_head t) /\ In (t_off t) (f_chain f b) /\ walked f b nm (t_head t) (t_off t)
  | PLimit | EStat | EWrite | EMap =>
      (1 <= nlen nm /\ nlen nm <= c_maxNameLen) /\ inch f b (t_head t) /\ fresh_from f b nm (t_head t)
  | PCas =>
      (1 <= nlen nm /\ nlen nm <= c_maxNameLen) /\ inch f b (t_head t) /\ fresh_from f b nm (t_head t) /\
      place (t_lim t) nm = (t_start t, t_end t) /\ t_end t <= t_map t /\ t_end t < W32
  | WCopy => inch f b (t_head t) /\ fresh_from f b nm (t_head t) /\ mine me f (t_start t) nm false false
  | WLen => inch f b (t_head t) /\ fresh_from f b nm (t_head t) /\ mine me f (t_start t) nm true false
  | KNext => inch f b (t_head t) /\ fresh_from f b nm (t_head t) /\ mine me f (t_start t) nm true true
  | KCas => inch f b (t_head t) /\ fresh_from f b nm (t_head t) /\ mine me f (t_start t) nm true true /\
            load_next f (t_start t) = t_head t
  | DHead => inch f b (t_oldh t) /\ fresh_from f b nm (t_oldh t) /\ mine me f (t_start t) nm true true
  | DLen | DNext =>
      inch f b (t_oldh t) /\ fresh_from f b nm (t_oldh t) /\ mine me f (t_start t) nm true true /\
      inch f b (t_head t) /\ In (t_off t) (f_chain f b) /\ walked f b nm (t_head t) (t_off t)
  | DDead => mine me f (t_start t) nm true true /\ In (t_off t) (f_chain f b) /\ name_at f (t_off t) = Some nm
  | ALoad | ACas => t_cell t <> 0
  | Done => True
  end.

Definition tinv (me : nat) (f : file) (t : thread) : Prop :=
  map_ok f (t_map0 t) /\ map_ok f (t_map t) /\ cell_ok f (t_nm t) (t_cell t) /\
  Forall (fun ck => has_rec f (fst ck)) (t_succ t) /\
  t_begun t = (if in_add (t_pc t) then (t_cell t, t_amt t) :: t_succ t else t_succ t) /\
  pc_inv me f t.

(* ---- stability of the atoms ---- *)
Lemma in_ev : forall f f' b o, evolve f f' -> In o (f_chain f b) -> In o (f_chain f' b).
Proof. intros f f' b o Ev I. destruct (ev_chain _ _ Ev b) as (ext & -> & _). apply in_or_app. auto. Qed.

Lemma inch_ev : forall f f' b o, evolve f f' -> inch f b o -> inch f' b o.
Proof. intros f f' b o Ev [->|I]; [left; reflexivity|right; eapply in_ev; eauto]. Qed.

Lemma suf_ev : forall f f' b o, evolve f f' -> inch f b o -> suf o (f_chain f' b) = suf o (f_chain f b).
Proof.
  intros f f' b o Ev I. destruct (ev_chain _ _ Ev b) as (ext & -> & X). apply suf_app_fresh.
  intro Io. destruct (X o Io) as [Nz U]. destruct I as [->|I]; [exact (Nz eq_refl)|exact (U b I)].
Qed.

Lemma named_other_ev : forall f f' nm x, evolve f f' -> named_other f nm x -> named_other f' nm x.
Proof.
  intros f f' nm x Ev (r & E & Ne). destruct (ev_recs _ _ Ev x r E) as (r' & E' & A & _).
  exists r'. split; [exact E'|congruence].
Qed.

Lemma fresh_ev : forall f f' b nm o, evolve f f' -> inch f b o -> fresh_from f b nm o -> fresh_from f' b nm o.
Proof.
  intros f f' b nm o Ev I F x Ix. rewrite (suf_ev f f' b o Ev I) in Ix. eapply named_other_ev; eauto.
Qed.

Lemma walked_ev : forall f f' b nm h off, evolve f f' -> inch f b h -> inch f b off ->
  walked f b nm h off -> walked f' b nm h off.
Proof.
  intros f f' b nm h off Ev Ih Io (pre & E & P). exists pre.
  rewrite (suf_ev f f' b h Ev Ih), (suf_ev f f' b off Ev Io). split; [exact E|].
  intros x Ix. eapply named_other_ev; eauto.
Qed.

Lemma has_rec_ev : forall f f' o, evolve f f' -> has_rec f o -> has_rec f' o.
Proof. intros f f' o Ev (r & E). destruct (ev_recs _ _ Ev o r E) as (r' & E' & _). exists r'. exact E'. Qed.

Lemma name_at_ev : forall f f' o nm, evolve f f' -> name_at f o = Some nm -> name_at f' o = Some nm.
Proof.
  intros f f' o nm Ev E. unfold name_at in *. destruct (find_rec o (f_recs f)) as [r|] eqn:Q; [|discriminate].
  destruct (ev_recs _ _ Ev o r Q) as (r' & E' & A & _). rewrite E'. cbn in *. congruence.
Qed.

Lemma cell_ok_ev : forall f f' nm c, evolve f f' -> cell_ok f nm c -> cell_ok f' nm c.
Proof.
  intros f f' nm c Ev [->|[I E]]; [left; reflexivity|right]. split; [eapply in_ev; eauto|eapply name_at_ev; eauto].
Qed.

Lemma map_ok_ev : forall f f' m, evolve f f' -> map_ok f m -> map_ok f' m.
Proof. intros f f' m Ev [A B]. pose proof (ev_size _ _ Ev). split; lia. Qed.

Lemma succ_ev : forall f f' (l : list (N * N)), evolve f f' ->
  Forall (fun ck => has_rec f (fst ck)) l -> Forall (fun ck => has_rec f' (fst ck)) l.
Proof. intros f f' l Ev F. eapply Forall_impl; [|exact F]. intros a Ha. eapply has_rec_ev; eauto. Qed.

Lemma mine_frame : forall me f f' s nm cp lw, frame me f f' -> mine me f s nm cp lw -> mine me f' s nm cp lw.
Proof.
  intros me f f' s nm cp lw Fr (r & E & A & B & C & D & U). destruct (Fr s r E B U) as [E' U'].
  exists r. splits; auto.
Qed.

Lemma mine_next_frame : forall me f f' s nm cp lw, frame me f f' -> mine me f s nm cp lw ->
  load_next f' s = load_next f s.
Proof.
  intros me f f' s nm cp lw Fr (r & E & A & B & C & D & U). destruct (Fr s r E B U) as [E' U'].
  unfold load_next. rewrite E, E'. reflexivity.
Qed.

Lemma tinv_stable : forall me f f' t, evolve f f' -> frame me f f' -> tinv me f t -> tinv me f' t.
Proof.
  intros me f f' t Ev Fr (M0 & M1 & C & S & Bg & P).
  unfold tinv. splits; eauto using map_ok_ev, cell_ok_ev, succ_ev.
  unfold pc_inv in *. destruct (t_pc t); try exact P;
    repeat match goal with H : _ /\ _ |- _ => destruct H end; splits;
    eauto using inch_ev, fresh_ev, walked_ev, mine_frame, in_ev, name_at_ev.
  - apply walked_ev with (f := f); auto. right; assumption.
  - apply walked_ev with (f := f); auto. right; assumption.
  - erewrite mine_next_frame; eauto.
  - apply walked_ev with (f := f); auto. right; assumption.
  - apply walked_ev with (f := f); auto. right; assumption.
Qed.

(* ------------------------------------------------------------------ *)
(* local steps: helper lemmas                                            *)

Notation dispatch := (dispatch nlen).
Notation ret_cell := (ret_cell nlen).
Notation ret_fail := (ret_fail nlen).
Notation look_fail := (look_fail nlen).
Notation look_at := (look_at nlen H).
Notation dwalk := (dwalk nlen H).
Notation step_thread := (step_thread bucket nlen H).

(* the part of tinv every program point of newCounter shares *)
Definition base (f : file) (t : thread) : Prop :=
  map_ok f (t_map0 t) /\ map_ok f (t_map t) /\
  Forall (fun ck => has_rec f (fst ck)) (t_succ t) /\ t_begun t = t_succ t.

Lemma dispatch_tinv : forall me f ops t,
  base f t -> cell_ok f (t_nm t) (t_cell t) -> tinv me f (dispatch ops t).
Proof.
  intros me f ops. induction ops as [|o ops IH]; intros t (M0 & M1 & S & Bg) C.
  - cbn. unfold tinv, pc_inv; cbn. splits; auto.
  - destruct o as [nm|k]; cbn [FileConc.dispatch].
    + destruct (nlen nm =? 0) eqn:Q0; [apply IH; [unfold base; cbn; splits; auto|left; reflexivity]|].
      apply N.eqb_neq in Q0. destruct (c_maxNameLen <? nlen nm) eqn:Q.
      * apply IH; [unfold base; cbn; splits; auto|left; reflexivity].
      * apply N.ltb_ge in Q. unfold tinv, pc_inv; cbn. splits; auto; try lia. left; reflexivity.
    + destruct (t_cell t =? 0) eqn:Q.
      * apply IH; [unfold base; splits; auto|exact C].
      * apply N.eqb_neq in Q. unfold tinv, pc_inv; cbn. splits; auto. rewrite Bg. reflexivity.
Qed.

Lemma ret_fail_tinv : forall me f e t, base f t -> tinv me f (ret_fail e t).
Proof.
  intros me f e t (M0 & M1 & S & Bg). unfold FileConc.ret_fail. apply dispatch_tinv.
  - unfold base, push_res; cbn. splits; auto.
  - left; reflexivity.
Qed.

Lemma ret_cell_tinv : forall me f c t, base f t -> cell_ok f (t_nm t) c -> tinv me f (ret_cell c t).
Proof.
  intros me f c t (M0 & M1 & S & Bg) C. unfold FileConc.ret_cell. apply dispatch_tinv.
  - unfold base, push_res; cbn. splits; auto.
  - exact C.
Qed.

Lemma look_fail_tinv : forall me f t, base f t -> cell_ok f (t_nm t) (t_cell t) ->
  1 <= nlen (t_nm t) /\ nlen (t_nm t) <= c_maxNameLen -> tinv me f (look_fail t).
Proof.
  intros me f t B C Nm. unfold FileConc.look_fail. destruct (10 <=? t_tries t).
  - apply ret_fail_tinv; exact B.
  - destruct B as (M0 & M1 & S & Bg). destruct Nm. unfold tinv, pc_inv; cbn. splits; auto.
Qed.

Lemma suf_zero : forall f b, wf_shared f -> suf 0 (f_chain f b) = [].
Proof. intros f b W. apply suf_notin. apply zero_not_linked. exact W. Qed.

Lemma look_at_tinv : forall me f t off n, wf_shared f -> base f t -> 1 <= nlen (t_nm t) /\ nlen (t_nm t) <= c_maxNameLen ->
  cell_ok f (t_nm t) (t_cell t) ->
  inch f (bucket (t_nm t)) (t_head t) -> inch f (bucket (t_nm t)) off ->
  walked f (bucket (t_nm t)) (t_nm t) (t_head t) off ->
  tinv me f (look_at t off n).
Proof.
  intros me f t off n W B [Nm1 Nm2] Cz Ih Io Wk. unfold FileConc.look_at.
  destruct (off =? 0) eqn:Q0.
  - apply N.eqb_eq in Q0. subst off. destruct B as (M0 & M1 & S & Bg).
    unfold tinv, pc_inv; cbn. splits; auto.
    destruct Wk as (pre & E & P). rewrite suf_zero, app_nil_r in E by exact W.
    intros x Ix. apply P. rewrite <- E. exact Ix.
  - apply N.eqb_neq in Q0.
    destruct ((t_map t / UNIT <? n) || (off <? H + c_hashOff) || negb (off mod 8 =? 0) || (t_map t <? off + 16)).
    + apply look_fail_tinv; auto.
    + destruct B as (M0 & M1 & S & Bg). unfold tinv, pc_inv; cbn. splits; auto.
      destruct Io; [contradiction|assumption].
Qed.

Lemma dwalk_tinv : forall me f t off n, wf_shared f -> base f t -> cell_ok f (t_nm t) (t_cell t) ->
  inch f (bucket (t_nm t)) (t_oldh t) -> fresh_from f (bucket (t_nm t)) (t_nm t) (t_oldh t) ->
  mine me f (t_start t) (t_nm t) true true ->
  inch f (bucket (t_nm t)) (t_head t) -> inch f (bucket (t_nm t)) off ->
  walked f (bucket (t_nm t)) (t_nm t) (t_head t) off ->
  tinv me f (dwalk t off n).
Proof.
  intros me f t off n W B Cz Io Fo Mi Ih Iof Wk. unfold FileConc.dwalk.
  destruct (off =? t_oldh t) eqn:Q.
  - apply N.eqb_eq in Q. subst off. destruct B as (M0 & M1 & S & Bg).
    unfold tinv, pc_inv; cbn. splits; auto.
    destruct Wk as (pre & E & P). intros x Ix. rewrite E in Ix. apply in_app_iff in Ix.
    destruct Ix as [Ix|Ix]; [apply P; exact Ix|apply Fo; exact Ix].
  - destruct ((off <? H + c_hashOff) || negb (off mod 8 =? 0) || (t_map t <? off + 16)) eqn:G.
    + apply ret_fail_tinv; exact B.
    + apply orb_false_iff in G. destruct G as [G _]. apply orb_false_iff in G. destruct G as [G _]. apply N.ltb_ge in G.
      destruct B as (M0 & M1 & S & Bg). unfold tinv, pc_inv; cbn. splits; auto.
      destruct Iof as [->|I]; [unfold_consts; lia|exact I].
Qed.

Lemma linked_ok_suf : forall f a l rest, linked_ok f l -> suf a l = a :: rest -> load_next f a = hd 0 rest.
Proof.
  induction l as [|y tl IH]; cbn; intros rest L E; [discriminate|].
  destruct L as [L1 L2]. destruct (y =? a) eqn:Q.
  - apply N.eqb_eq in Q. subst y. inversion E; subst. exact L1.
  - apply IH; assumption.
Qed.

(* one step of a chain walk that did not find the name *)
Lemma walk_step : forall f b nm h off, wf_shared f -> In off (f_chain f b) ->
  walked f b nm h off -> name_eq f off nm = false ->
  inch f b (load_next f off) /\ walked f b nm h (load_next f off).
Proof.
  intros f b nm h off W I (pre & E & P) Ne.
  destruct (proj2 W b) as (ND & LR & LO & NN).
  pose proof (zero_not_linked f b W) as Z.
  destruct (suf_in off _ I) as (rest & Es).
  pose proof (linked_ok_suf f off _ rest LO Es) as Ln.
  pose proof (suf_next off _ rest ND Z Es) as Sn.
  rewrite Ln. split.
  - destruct rest as [|z rest']; [left; reflexivity|right]. cbn.
    apply (suf_incl off). rewrite Es. right. left. reflexivity.
  - exists (pre ++ [off]). rewrite Sn, E, Es, <- app_assoc. split; [reflexivity|].
    intros x Ix. apply in_app_iff in Ix. destruct Ix as [Ix|[<-|[]]]; [apply P; exact Ix|].
    destruct (LR off I) as (r & Er & Cp & _). exists r. split; [exact Er|].
    unfold name_eq in Ne. rewrite Er, Cp in Ne. cbn in Ne. apply N.eqb_neq in Ne. exact Ne.
Qed.

Lemma name_eq_true : forall f off nm, name_eq f off nm = true -> name_at f off = Some nm.
Proof.
  intros f off nm E. unfold name_eq in E. unfold name_at.
  destruct (find_rec off (f_recs f)) as [r|]; [|discriminate]. cbn.
  apply andb_true_iff in E. destruct E as [_ E]. apply N.eqb_eq in E. congruence.
Qed.

Lemma head_inch : forall f b, inch f b (head_of f b).
Proof.
  intros f b. unfold inch, head_of. destruct (f_chain f b); [left; reflexivity|right; left; reflexivity].
Qed.

Lemma walked_refl : forall f b nm h, walked f b nm h h.
Proof. intros. exists []. split; [reflexivity|intros x []]. Qed.

(* ------------------------------------------------------------------ *)
(* one step of one process                                               *)

Definition post (me : nat) (f : file) (t : thread) (oa : option act) (t' : thread) : Prop :=
  match oa with
  | None => tinv me f t' /\ t_succ t' = t_succ t
  | Some a =>
      act_pre me f a /\ tinv me (apply_act a f) t' /\
      match a with
      | AVal c v => exists k, v = cell_add (load_val f c) k /\ t_succ t' = (c, k) :: t_succ t
      | _ => t_succ t' = t_succ t
      end
  end.

Lemma succ_dispatch : forall ops t, t_succ (dispatch ops t) = t_succ t.
Proof.
  induction ops as [|o ops IH]; intro t; [reflexivity|]. destruct o as [nm|k]; cbn [FileConc.dispatch].
  - destruct (nlen nm =? 0); [rewrite IH; reflexivity|]. destruct (c_maxNameLen <? nlen nm); [rewrite IH|]; reflexivity.
  - destruct (t_cell t =? 0); [apply IH|reflexivity].
Qed.
Lemma succ_ret_cell : forall c t, t_succ (ret_cell c t) = t_succ t.
Proof. intros. unfold FileConc.ret_cell. rewrite succ_dispatch. reflexivity. Qed.
Lemma succ_ret_fail : forall e t, t_succ (ret_fail e t) = t_succ t.
Proof. intros. unfold FileConc.ret_fail. rewrite succ_dispatch. reflexivity. Qed.
Lemma succ_look_fail : forall t, t_succ (look_fail t) = t_succ t.
Proof. intros. unfold FileConc.look_fail. destruct (10 <=? t_tries t); [apply succ_ret_fail|reflexivity]. Qed.
Lemma succ_look_at : forall t off n, t_succ (look_at t off n) = t_succ t.
Proof.
  intros. unfold FileConc.look_at. destruct (off =? 0); [reflexivity|].
  destruct (_ || _ || _); [apply succ_look_fail|reflexivity].
Qed.
Lemma succ_dwalk : forall t off n, t_succ (dwalk t off n) = t_succ t.
Proof.
  intros. unfold FileConc.dwalk. destruct (off =? t_oldh t); [reflexivity|].
  destruct (_ || _); [apply succ_ret_fail|reflexivity].
Qed.

Ltac tinv_parts T := destruct T as (M0 & M1 & C & S & Bg & P); unfold pc_inv in P.
Ltac use_pc Pc := unfold FileConc.step_thread; rewrite Pc; try rewrite Pc in *; cbn [in_add] in *.

Lemma base_of : forall f t, map_ok f (t_map0 t) -> map_ok f (t_map t) ->
  Forall (fun ck => has_rec f (fst ck)) (t_succ t) -> t_begun t = t_succ t -> base f t.
Proof. intros. unfold base. auto. Qed.

Ltac sg := cbn [fst snd post].

Section Steps.
Set Default Proof Using "All".
Variables (me : nat) (f : file) (t : thread).
Hypothesis W : wf_shared f.
Hypothesis VB : forall r, In r (f_recs f) -> r_val r <= MAX64.
Hypothesis T : tinv me f t.

Notation goal := (post me f t (fst (step_thread me f t)) (snd (step_thread me f t))).

Lemma post_LHead : t_pc t = LHead -> goal.
Proof.
  intro Pc. tinv_parts T. use_pc Pc. sg. split; [|rewrite succ_look_at; reflexivity].
  apply look_at_tinv; cbn; auto using head_inch, walked_refl. apply base_of; auto.
Qed.

Lemma post_LLen : t_pc t = LLen -> goal.
Proof.
  intro Pc. tinv_parts T. use_pc Pc. destruct P as ([Nm1 Nm2] & Ih & Io & Wk).
  destruct (_ || _); sg.
  - split; [|rewrite succ_look_fail; reflexivity]. apply look_fail_tinv; auto. apply base_of; auto.
  - split; [|reflexivity]. unfold tinv, pc_inv; cbn. splits; auto.
Qed.

Lemma post_LNext : t_pc t = LNext -> goal.
Proof.
  intro Pc. tinv_parts T. use_pc Pc. destruct P as ([Nm1 Nm2] & Ih & Io & Wk).
  destruct (name_eq f (t_off t) (t_nm t)) eqn:Q; sg.
  - split; [|rewrite succ_ret_cell; reflexivity]. apply ret_cell_tinv; [apply base_of; auto|].
    right. split; [exact Io|apply name_eq_true; exact Q].
  - split; [|rewrite succ_look_at; reflexivity]. destruct (walk_step f _ _ _ _ W Io Wk Q) as [I2 W2].
    apply look_at_tinv; auto. apply base_of; auto.
Qed.

Lemma post_RLimit : t_pc t = RLimit -> goal.
Proof.
  intro Pc. tinv_parts T. use_pc Pc. destruct P as [Nm1 Nm2]. destruct (f_limit f <=? t_map t); sg.
  - split; [|rewrite succ_ret_fail; reflexivity]. apply ret_fail_tinv. apply base_of; auto.
  - split; [|reflexivity]. unfold tinv, pc_inv; cbn. splits; auto.
Qed.

Lemma size_ok : map_ok f (f_size f).
Proof. destruct W as [(A & B & _) _]. split; [exact B|lia]. Qed.

Lemma post_RMap : t_pc t = RMap -> goal.
Proof.
  intro Pc. tinv_parts T. use_pc Pc. destruct P as [Nm1 Nm2]. destruct (f_size f <? t_lim t); sg.
  - split; [|rewrite succ_ret_fail; reflexivity]. apply ret_fail_tinv. apply base_of; auto.
  - split; [|reflexivity]. unfold tinv, pc_inv; cbn. splits; auto using size_ok.
Qed.

Lemma post_PLimit : t_pc t = PLimit -> goal.
Proof.
  intro Pc. tinv_parts T. use_pc Pc. destruct P as ([Nm1 Nm2] & Ih & Fr).
  destruct (place (f_limit f) (t_nm t)) as [s e] eqn:Pl.
  destruct (W32 <=? round e PAGE) eqn:Q1; sg.
  - split; [|rewrite succ_ret_fail; reflexivity]. apply ret_fail_tinv. apply base_of; auto.
  - apply N.leb_gt in Q1. destruct (t_map t <? e) eqn:Q2; sg.
    + split; [|reflexivity]. unfold tinv, pc_inv; cbn. splits; auto.
    + apply N.ltb_ge in Q2. split; [|reflexivity]. unfold tinv, pc_inv; cbn. splits; auto.
      pose proof (round_page e) as (Rp & _). lia.
Qed.

Lemma post_EStat : t_pc t = EStat -> goal.
Proof.
  intro Pc. tinv_parts T. use_pc Pc. sg. split; [|reflexivity].
  unfold tinv, pc_inv; cbn. destruct P as ([Nm1 Nm2] & Ih & Fr). splits; auto.
Qed.

Lemma act_frame_any : forall j a, act_pre me f a ->
  match a with AExtend _ | AReserve _ _ _ _ | AVal _ _ => True | _ => False end ->
  frame j f (apply_act a f).
Proof.
  intros j a Pre K. destruct a as [e|me' s e nm|off|off|off v|b off|off v]; try contradiction; cbn in Pre |- *.
  - intros o r E Ow U. cbn. auto.
  - intros o r E Ow U. cbn. rewrite find_rec_app, E. auto.
  - destruct Pre as ((b & I) & r & E & V). apply (frame_upd j f off _ r); [intro; reflexivity|exact E|].
    right. intro U. exact (U b I).
Qed.

Lemma post_EWrite : t_pc t = EWrite -> goal.
Proof.
  intro Pc. assert (T' : tinv me f (set_pc EMap t)).
  { tinv_parts T. rewrite Pc in *. cbn [in_add] in *. destruct P as ([Nm1 Nm2] & Ih & Fr). unfold tinv, pc_inv; cbn. splits; auto. }
  use_pc Pc. destruct (t_sz t <? round (t_end t) PAGE); sg.
  - assert (Pre : act_pre me f (AExtend (round (t_end t) PAGE))) by (cbn; apply round_page).
    split; [exact Pre|]. split; [|reflexivity].
    apply (tinv_stable me f); [eapply act_evolve; eauto|apply act_frame_any; [exact Pre|exact I]|exact T'].
  - split; [exact T'|reflexivity].
Qed.

Lemma post_EMap : t_pc t = EMap -> goal.
Proof.
  intro Pc. tinv_parts T. use_pc Pc. destruct P as ([Nm1 Nm2] & Ih & Fr).
  destruct (f_size f <? round (t_end t) PAGE); sg.
  - split; [|rewrite succ_ret_fail; reflexivity]. apply ret_fail_tinv. apply base_of; auto.
  - split; [|reflexivity]. unfold tinv, pc_inv; cbn. splits; auto using size_ok.
Qed.

Lemma fresh_offset_unlinked : forall s, find_rec s (f_recs f) = None -> unlinked f s.
Proof.
  intros s E b I. destruct (proj2 W b) as (_ & LR & _). destruct (LR s I) as (r & E' & _). congruence.
Qed.

Lemma post_PCas : t_pc t = PCas -> goal.
Proof.
  intro Pc. pose proof T as T0. tinv_parts T. use_pc Pc. destruct P as ([Nm1 Nm2] & Ih & Fr & Pl & En & Rg).
  destruct (f_limit f =? t_lim t) eqn:Q; sg.
  - apply N.eqb_eq in Q.
    assert (Pre : act_pre me f (AReserve me (t_start t) (t_end t) (t_nm t))).
    { cbn. rewrite Q. splits; auto. destruct M1. lia. }
    split; [exact Pre|]. split; [|reflexivity].
    pose proof (act_evolve me f _ W Pre) as Ev.
    (* the new record is ours *)
    pose proof W as [WL WC]. destruct WL as (_ & _ & _ & _ & E0 & L & _).
    destruct (place_spec nlen H _ _ _ _ Pl Nm2) as (P1 & P2 & P3 & P4 & P5).
    assert (Fresh : find_rec (t_start t) (f_recs f) = None).
    { destruct (find_rec (t_start t) (f_recs f)) as [r|] eqn:Er; [|reflexivity]. exfalso.
      apply find_rec_some in Er. destruct Er as [Ir Eo]. destruct (L r Ir) as (_ & _ & X & _).
      destruct (rsize_facts nlen (r_name r)) as (_ & _ & _ & Y). cbv zeta in Y.
      rewrite <- Q in P1. destruct (f_limit f =? 0) eqn:Q0; [apply N.eqb_eq in Q0|]; lia. }
    unfold tinv, pc_inv; cbn.
    splits; eauto using map_ok_ev, cell_ok_ev, succ_ev, inch_ev, fresh_ev.
    exists (mkR (t_start t) (t_nm t) me false false 0 0 0). cbn.
    rewrite find_rec_app, Fresh. cbn. rewrite N.eqb_refl. splits; auto.
    apply fresh_offset_unlinked. exact Fresh.
  - split; [|reflexivity]. unfold tinv, pc_inv; cbn. splits; auto.
Qed.

Lemma mine_pre : forall cp lw, mine me f (t_start t) (t_nm t) cp lw -> owned_unlinked me f (t_start t).
Proof. intros cp lw (r & E & A & B & _ & _ & U). exists r. auto. Qed.

(* after an update of our own unlinked record *)
Lemma mine_upd : forall g cp lw cp' lw', (forall r, r_off (g r) = r_off r) ->
  (forall r, r_name (g r) = r_name r /\ r_owner (g r) = r_owner r) ->
  (forall r, r_copied r = cp -> r_lenw r = lw -> r_copied (g r) = cp' /\ r_lenw (g r) = lw') ->
  mine me f (t_start t) (t_nm t) cp lw ->
  mine me (mkF (f_size f) (f_limit f) (f_chain f) (upd_rec (t_start t) g (f_recs f)) (f_damaged f))
       (t_start t) (t_nm t) cp' lw'.
Proof.
  intros g cp lw cp' lw' G1 G2 G3 (r & E & A & B & Cc & D & U).
  exists (g r). cbn [f_recs]. rewrite (find_rec_upd_same _ _ _ r G1 E). destruct (G2 r) as [-> ->].
  destruct (G3 r Cc D) as [-> ->]. splits; auto.
Qed.

Lemma post_WCopy : t_pc t = WCopy -> goal.
Proof.
  intro Pc. tinv_parts T. use_pc Pc. destruct P as (Ih & Fr & Mi).
  destruct (_ || _); sg.
  - split; [|rewrite succ_ret_fail; reflexivity]. apply ret_fail_tinv. apply base_of; auto.
  - assert (Pre : act_pre me f (ACopy (t_start t))) by (cbn; eapply mine_pre; eauto).
    split; [exact Pre|]. split; [|reflexivity].
    pose proof (act_evolve me f _ W Pre) as Ev.
    unfold tinv, pc_inv; cbn.
    splits; eauto using map_ok_ev, cell_ok_ev, succ_ev, inch_ev, fresh_ev.
    apply (mine_upd r_set_copied false false); auto; intros; cbn; auto.
Qed.

Lemma post_WLen : t_pc t = WLen -> goal.
Proof.
  intro Pc. tinv_parts T. use_pc Pc. destruct P as (Ih & Fr & Mi). sg.
  assert (Pre : act_pre me f (ALen (t_start t))) by (cbn; eapply mine_pre; eauto).
  split; [exact Pre|]. split; [|reflexivity].
  pose proof (act_evolve me f _ W Pre) as Ev.
  unfold tinv, pc_inv; cbn.
  splits; eauto using map_ok_ev, cell_ok_ev, succ_ev, inch_ev, fresh_ev.
  apply (mine_upd r_set_lenw true false); auto; intros; cbn; auto.
Qed.

Lemma post_KNext : t_pc t = KNext -> goal.
Proof.
  intro Pc. tinv_parts T. use_pc Pc. destruct P as (Ih & Fr & Mi). sg.
  assert (Pre : act_pre me f (ANext (t_start t) (t_head t))) by (cbn; eapply mine_pre; eauto).
  split; [exact Pre|]. split; [|reflexivity].
  pose proof (act_evolve me f _ W Pre) as Ev.
  unfold tinv, pc_inv; cbn.
  splits; eauto using map_ok_ev, cell_ok_ev, succ_ev, inch_ev, fresh_ev.
  - apply (mine_upd (r_set_next (t_head t)) true true); auto; intros; cbn; auto.
  - destruct Mi as (r & E & _).
    change (load_next (apply_act (ANext (t_start t) (t_head t)) f) (t_start t) = t_head t).
    unfold load_next, FileConc.apply_act; cbn [f_recs].
    rewrite (find_rec_upd_same (t_start t) (r_set_next (t_head t)) _ r (fun _ => eq_refl) E). reflexivity.
Qed.

Lemma post_KCas : t_pc t = KCas -> goal.
Proof.
  intro Pc. tinv_parts T. use_pc Pc. destruct P as (Ih & Fr & Mi & Nx).
  destruct (head_of f (bucket (t_nm t)) =? t_head t) eqn:Q; sg.
  - apply N.eqb_eq in Q. destruct Mi as (r & E & A & B & Cc & D & U).
    assert (Pre : act_pre me f (ALink (bucket (t_nm t)) (t_start t))).
    { cbn. exists r. splits; auto; try congruence.
      - unfold load_next in Nx. rewrite E in Nx. congruence.
      - rewrite A. intros x Ix. apply Fr. rewrite <- Q. unfold head_of.
        destruct (suf_whole (f_chain f (bucket (t_nm t)))) as [->|E0]; [exact Ix|]. rewrite E0 in Ix. destruct Ix. }
    split; [exact Pre|]. split; [|rewrite succ_ret_cell; reflexivity].
    pose proof (act_evolve me f _ W Pre) as Ev.
    apply ret_cell_tinv.
    + apply base_of; cbn; eauto using map_ok_ev, succ_ev.
    + right. cbn. rewrite N.eqb_refl. split; [left; reflexivity|].
      unfold name_at; cbn. rewrite E. cbn. congruence.
  - split; [|reflexivity]. unfold tinv, pc_inv; cbn. splits; auto.
Qed.

Lemma post_DHead : t_pc t = DHead -> goal.
Proof.
  intro Pc. tinv_parts T. use_pc Pc. destruct P as (Io & Fo & Mi). sg.
  split; [|rewrite succ_dwalk; reflexivity].
  apply dwalk_tinv; cbn; auto using head_inch, walked_refl. apply base_of; auto.
Qed.

Lemma post_DLen : t_pc t = DLen -> goal.
Proof.
  intro Pc. tinv_parts T. use_pc Pc. destruct P as (Io & Fo & Mi & Ih & Iof & Wk).
  destruct (_ || _); sg.
  - split; [|rewrite succ_ret_fail; reflexivity]. apply ret_fail_tinv. apply base_of; auto.
  - split; [|reflexivity]. unfold tinv, pc_inv; cbn. splits; auto.
Qed.

Lemma post_DNext : t_pc t = DNext -> goal.
Proof.
  intro Pc. tinv_parts T. use_pc Pc. destruct P as (Io & Fo & Mi & Ih & Iof & Wk).
  destruct (t_map t / UNIT <? t_n t); sg.
  - split; [|rewrite succ_ret_fail; reflexivity]. apply ret_fail_tinv. apply base_of; auto.
  - destruct (name_eq f (t_off t) (t_nm t)) eqn:Q; sg.
    + split; [|reflexivity]. unfold tinv, pc_inv; cbn. splits; auto. apply name_eq_true; exact Q.
    + split; [|rewrite succ_dwalk; reflexivity]. destruct (walk_step f _ _ _ _ W Iof Wk Q) as [I2 W2].
      apply dwalk_tinv; auto. apply base_of; auto.
Qed.

Lemma post_DDead : t_pc t = DDead -> goal.
Proof.
  intro Pc. tinv_parts T. use_pc Pc. destruct P as (Mi & Iof & Na). sg.
  assert (Pre : act_pre me f (ANext (t_start t) DEAD)) by (cbn; eapply mine_pre; eauto).
  split; [exact Pre|]. split; [|rewrite succ_ret_cell; reflexivity].
  pose proof (act_evolve me f _ W Pre) as Ev.
  apply ret_cell_tinv.
  - apply base_of; cbn; eauto using map_ok_ev, succ_ev.
  - right. split; [eapply in_ev; eauto|eapply name_at_ev; eauto].
Qed.

Lemma post_ALoad : t_pc t = ALoad -> goal.
Proof.
  intro Pc. tinv_parts T. use_pc Pc. sg. split; [|reflexivity].
  unfold tinv, pc_inv; cbn. splits; auto.
Qed.

Lemma post_ACas : t_pc t = ACas -> goal.
Proof.
  intro Pc. tinv_parts T. use_pc Pc.
  destruct (load_val f (t_cell t) =? t_old t) eqn:Q; sg.
  - apply N.eqb_eq in Q. destruct C as [C|[Ic Na]]; [contradiction|].
    destruct (proj2 W (bucket (t_nm t))) as (_ & LR & _). destruct (LR _ Ic) as (r & E & _).
    assert (Pre : act_pre me f (AVal (t_cell t) (cell_add (t_old t) (t_amt t)))).
    { cbn. split; [eauto|]. exists r. split; [exact E|].
      unfold load_val in Q. rewrite E in Q. apply find_rec_some in E. destruct E as [Ir _].
      pose proof (VB r Ir). unfold cell_add. lia. }
    split; [exact Pre|].
    pose proof (act_evolve me f _ W Pre) as Ev.
    split.
    + apply dispatch_tinv.
      * apply base_of; cbn; eauto using map_ok_ev, succ_ev.
        constructor; [cbn; eapply has_rec_ev; eauto; exists r; exact E|eapply succ_ev; eauto].
      * cbn. eapply cell_ok_ev; eauto. right. auto.
    + exists (t_amt t). rewrite Q. split; [reflexivity|]. rewrite succ_dispatch. reflexivity.
  - split; [|reflexivity]. unfold tinv, pc_inv; cbn. splits; auto.
Qed.

Lemma post_Done : t_pc t = Done -> goal.
Proof. intro Pc. use_pc Pc. sg. split; [exact T|reflexivity]. Qed.

Lemma step_thread_post : goal.
Proof.
  destruct (t_pc t) eqn:Pc;
    eauto using post_LHead, post_LLen, post_LNext, post_RLimit, post_RMap, post_PLimit, post_EStat,
      post_EWrite, post_EMap, post_PCas, post_WCopy, post_WLen, post_KNext, post_KCas, post_DHead,
      post_DLen, post_DNext, post_DDead, post_ALoad, post_ACas, post_Done.
Qed.

End Steps.
Set Default Proof Using "Type".

(* ------------------------------------------------------------------ *)
(* the global invariant                                                  *)

Notation step := (step bucket nlen H).
Notation run := (run bucket nlen H).

(* increments whose cell CAS succeeded, per cell *)
Definition sum_to (c : N) (l : list (N * N)) : N :=
  fold_right (fun ck acc => if fst ck =? c then snd ck + acc else acc) 0 l.
Definition total (c : N) (ts : list thread) : N :=
  fold_right (fun t acc => sum_to c (t_succ t) + acc) 0 ts.
Definition total_begun (c : N) (ts : list thread) : N :=
  fold_right (fun t acc => sum_to c (t_begun t) + acc) 0 ts.

Definition vals_ok (f : file) (ts : list thread) : Prop :=
  forall r, In r (f_recs f) -> r_val r = sat (r_init r + total (r_off r) ts).

Definition Inv (st : state) : Prop :=
  wf_shared (fst st) /\
  (forall i t, nth_error (snd st) i = Some t -> tinv i (fst st) t) /\
  vals_ok (fst st) (snd st).

Lemma nth_upd_same : forall A (l : list A) i x y, nth_error l i = Some y -> nth_error (upd l i x) i = Some x.
Proof. induction l as [|a l IH]; destruct i; cbn; intros; try discriminate; eauto. Qed.

Lemma nth_upd_other : forall A (l : list A) i j x, i <> j -> nth_error (upd l i x) j = nth_error l j.
Proof.
  induction l as [|a l IH]; destruct i, j; cbn; intros; try reflexivity; try congruence.
  apply IH. congruence.
Qed.

Lemma total_cons : forall c a ts, total c (a :: ts) = sum_to c (t_succ a) + total c ts.
Proof. reflexivity. Qed.
Lemma total_begun_cons : forall c a ts, total_begun c (a :: ts) = sum_to c (t_begun a) + total_begun c ts.
Proof. reflexivity. Qed.

Lemma total_upd : forall c ts i t t', nth_error ts i = Some t ->
  total c (upd ts i t') + sum_to c (t_succ t) = total c ts + sum_to c (t_succ t').
Proof.
  induction ts as [|a ts IH]; destruct i; cbn [nth_error upd]; intros t t' E; try discriminate.
  - inversion E; subst. rewrite !total_cons. lia.
  - specialize (IH i t t' E). rewrite !total_cons. lia.
Qed.

Lemma total_begun_upd : forall c ts i t t', nth_error ts i = Some t ->
  total_begun c (upd ts i t') + sum_to c (t_begun t) = total_begun c ts + sum_to c (t_begun t').
Proof.
  induction ts as [|a ts IH]; destruct i; cbn [nth_error upd]; intros t t' E; try discriminate.
  - inversion E; subst. rewrite !total_begun_cons. lia.
  - specialize (IH i t t' E). rewrite !total_begun_cons. lia.
Qed.

Lemma sum_to_cons : forall c c0 k l, sum_to c ((c0, k) :: l) = (if c0 =? c then k else 0) + sum_to c l.
Proof. intros. unfold sum_to at 1. cbn [fold_right fst snd]. fold (sum_to c l). destruct (c0 =? c); lia. Qed.

Lemma sum_to_zero : forall c l, Forall (fun ck => fst ck <> c) l -> sum_to c l = 0.
Proof.
  induction l as [|a l IH]; cbn; intro F; [reflexivity|]. inversion F; subst.
  destruct (fst a =? c) eqn:Q; [apply N.eqb_eq in Q; contradiction|auto].
Qed.

Lemma total_zero : forall c ts, (forall t, In t ts -> sum_to c (t_succ t) = 0) -> total c ts = 0.
Proof.
  induction ts as [|a ts IH]; intro Z; [reflexivity|]. rewrite total_cons.
  rewrite (Z a) by (left; reflexivity). rewrite IH; [reflexivity|]. intros; apply Z; right; assumption.
Qed.

Lemma reserve_fresh : forall f nm s e, wf_layout f -> place (f_limit f) nm = (s, e) ->
  nlen nm <= c_maxNameLen -> find_rec s (f_recs f) = None.
Proof.
  intros f nm s e (_ & _ & _ & _ & E0 & L & _) Pl Nm.
  destruct (place_spec nlen H _ _ _ _ Pl Nm) as (P1 & _).
  destruct (find_rec s (f_recs f)) as [r|] eqn:Er; [|reflexivity]. exfalso.
  apply find_rec_some in Er. destruct Er as [Ir Eo]. destruct (L r Ir) as (_ & _ & X & _).
  destruct (rsize_facts nlen (r_name r)) as (_ & _ & _ & Y). cbv zeta in Y.
  destruct (f_limit f =? 0) eqn:Q0; [apply N.eqb_eq in Q0|]; lia.
Qed.

Lemma vals_step : forall f ts i t oa t', wf_shared f ->
  (forall j tj, nth_error ts j = Some tj -> tinv j f tj) ->
  vals_ok f ts -> nth_error ts i = Some t -> post i f t oa t' ->
  vals_ok (match oa with Some a => apply_act a f | None => f end) (upd ts i t').
Proof.
  intros f ts i t oa t' W TI V E Po.
  assert (Same : t_succ t' = t_succ t -> forall c, total c (upd ts i t') = total c ts).
  { intros Es c. pose proof (total_upd c ts i t t' E) as X. rewrite Es in X. lia. }
  destruct oa as [a|]; [|destruct Po as [_ Es]; intros r I; rewrite (Same Es); exact (V r I)].
  destruct Po as (Pre & _ & Es).
  destruct a as [e|me' s e nm|off|off|off v|b off|off v]; cbn in Pre |- *;
    try (intros r I; cbn in I; rewrite (Same Es); first
      [ exact (V r I)
      | apply In_upd_rec in I; destruct I as (r0 & I0 & ->); specialize (V r0 I0);
        destruct (r_off r0 =? off); cbn; exact V ]).
  - (* AReserve *)
    destruct Pre as (-> & Pl & _ & Nm & _).
    pose proof (reserve_fresh f nm s e (proj1 W) Pl Nm) as Fresh.
    intros r I. cbn in I. rewrite (Same Es). apply in_app_iff in I. destruct I as [I|[<-|[]]]; [exact (V r I)|].
    cbn. rewrite total_zero; [reflexivity|].
    intros tj Ij. apply In_nth_error in Ij. destruct Ij as (j & Ej).
    destruct (TI j tj Ej) as (_ & _ & _ & S & _). apply sum_to_zero.
    eapply Forall_impl; [|exact S]. intros ck (r0 & E0) X. rewrite X in E0. congruence.
  - (* AVal *)
    destruct Es as (k & -> & Es). destruct Pre as (_ & r0 & E0 & _).
    pose proof (total_upd off ts i t t' E) as X. rewrite Es, sum_to_cons, N.eqb_refl in X.
    intros r I. cbn in I. apply In_upd_rec in I. destruct I as (r1 & I1 & ->).
    destruct (r_off r1 =? off) eqn:Q.
    + apply N.eqb_eq in Q. cbn [r_val r_set_val r_init r_off].
      assert (r1 = r0).
      { destruct W as [(_ & _ & _ & _ & _ & _ & _ & ND & _) _].
        pose proof (In_find_rec _ r1 ND I1) as X1. rewrite Q, E0 in X1. congruence. }
      subst r1. unfold load_val. rewrite E0. rewrite (V r0 I1), Q.
      unfold cell_add, sat. lia.
    + apply N.eqb_neq in Q. pose proof (total_upd (r_off r1) ts i t t' E) as Y. rewrite Es, sum_to_cons in Y.
      destruct (off =? r_off r1) eqn:Q2; [apply N.eqb_eq in Q2; congruence|].
      rewrite (V r1 I1). f_equal. lia.
Qed.

Lemma Inv_step : forall st i, Inv st -> Inv (step st i).
Proof.
  intros [f ts] i (W & TI & V). unfold FileConc.step. cbn [fst snd] in *.
  destruct (nth_error ts i) as [t|] eqn:E; [|exact (conj W (conj TI V))].
  assert (VB : forall r, In r (f_recs f) -> r_val r <= MAX64).
  { intros r I. rewrite (V r I). unfold sat. lia. }
  pose proof (step_thread_post i f t W VB (TI i t E)) as Po.
  pose proof (vals_step f ts i t _ _ W TI V E Po) as V'.
  destruct (step_thread i f t) as [oa t']. cbn [fst snd] in *.
  destruct oa as [a|].
  - destruct Po as (Pre & Ti' & _). split; [|split]; cbn [fst snd].
    + eapply wf_act; eauto.
    + intros j tj Ej. destruct (Nat.eq_dec i j) as [<-|Ne].
      * rewrite (nth_upd_same _ ts i t' t E) in Ej. inversion Ej; subst. exact Ti'.
      * rewrite nth_upd_other in Ej by exact Ne.
        apply (tinv_stable j f); [eapply act_evolve; eauto|eapply act_frame; eauto|apply TI; exact Ej].
    + exact V'.
  - destruct Po as (Ti' & _). split; [|split]; cbn [fst snd].
    + exact W.
    + intros j tj Ej. destruct (Nat.eq_dec i j) as [<-|Ne].
      * rewrite (nth_upd_same _ ts i t' t E) in Ej. inversion Ej; subst. exact Ti'.
      * rewrite nth_upd_other in Ej by exact Ne. apply TI; exact Ej.
    + exact V'.
Qed.

Lemma Inv_run : forall sched st, Inv st -> Inv (run sched st).
Proof.
  induction sched as [|i sched IH]; intros st I; [exact I|].
  cbn. apply IH. apply Inv_step. exact I.
Qed.

(* initial states: any well-formed file (e.g. left by earlier runs, with
   abandoned regions), any number of processes that have just opened it *)
Definition init_ok (st : state) : Prop :=
  wf_shared (fst st) /\
  (forall i t, nth_error (snd st) i = Some t ->
     exists m ops, t = spawn nlen m ops /\ map_ok (fst st) m) /\
  (forall r, In r (f_recs (fst st)) -> r_val r = sat (r_init r)).

Lemma Inv_init : forall st, init_ok st -> Inv st.
Proof.
  intros [f ts] (W & Sp & V). cbn [fst snd] in *. split; [exact W|split]; cbn [fst snd].
  - intros i t E. destruct (Sp i t E) as (m & ops & -> & M). unfold spawn. apply dispatch_tinv.
    + unfold base; cbn. splits; auto.
    + left; reflexivity.
  - intros r I. rewrite total_zero; [rewrite N.add_0_r; exact (V r I)|].
    intros t It. apply In_nth_error in It. destruct It as (i & E).
    destruct (Sp i t E) as (m & ops & -> & _). unfold spawn. rewrite succ_dispatch. reflexivity.
Qed.

Lemma wf_empty : wf_shared empty_file.
Proof.
  split.
  - unfold wf_layout, empty_file; cbn. splits; auto; try (intros; contradiction); try constructor;
      unfold_consts; try lia; try reflexivity.
  - intro b. cbn. splits; try constructor. intros o [].
Qed.

End Inv.
