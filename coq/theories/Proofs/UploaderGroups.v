(* Proofs/UploaderGroups: the program entries of the weekly report.  Every
   report a run writes folds in each file once; hence the canonical body of
   local.W.json after a complete sequential run groups exactly W's count files
   by their full program identity, each value the sum over that group. *)
From Coq Require Import List ZArith NArith Bool Lia Sorting.Sorted Sorting.Permutation.
From Tele Require Import Lib.Bytes Lib.FS Model.Span Model.Uploader
  Proofs.FSFacts Proofs.UploaderBase Proofs.UploaderNames Proofs.UploaderFiles Proofs.UploaderData
  Proofs.UploaderSeq Proofs.UploaderNoDup Proofs.UploaderSums.
Import ListNotations.

(* every complete report in local/ lists each file once, unless it was there before the runs *)
Lemma rep_nodup_reach f cfgs st :
  fs_wf f -> NoDup (dnames (f_local f)) -> reach_from (init_state f cfgs) st ->
  forall n id r, d_find (f_local (s_fs st)) n = Some (id, CRep (Some r)) ->
  NoDup (map fst (r_files r)) \/ d_find (f_local f) n = Some (id, CRep (Some r)).
Proof.
  intros Hwf Hnd. induction 1 as [|st ia H IH|st c H IH]; intros n id r Hf.
  - right. exact Hf.
  - destruct ia as [i a].
    destruct (step_cases st i a) as [E | (t & e & t' & Hi & Hk & Hd & E)]; rewrite E in Hf; [eauto|].
    simpl in Hf. rewrite local_apply in Hf. destruct e as [|m|m|fd cw| |m|m cu|m|k]; eauto.
    + apply d_find_remove_some in Hf. destruct Hf as [_ Hf]. eauto.
    + rewrite d_find_add in Hf. destruct (beq m n); [discriminate|eauto].
    + rewrite d_find_set_id in Hf.
      destruct (d_find (f_local (s_fs st)) n) as [[i0 c0]|] eqn:Eo; [|discriminate].
      injection Hf as <- Hc. destruct (Nat.eqb i0 fd).
      * subst cw. destruct (report_sound f cfgs st i a t fd _ t' Hwf Hnd H Hi Hd) as (r0 & Hr0 & _ & _ & Hn0 & _).
        injection Hr0 as <-. left. exact Hn0.
      * subst c0. eauto.
  - simpl in Hf. eauto.
Qed.

Lemma nodup_map_fst {A B} (l : list (A * B)) : NoDup (map fst l) -> NoDup l.
Proof.
  induction l as [|x l IH]; simpl; intros H; constructor; inversion H; subst; auto.
  intros Hin. apply H2. apply in_map. exact Hin.
Qed.

Section Groups.
Variables (f : FS) (c : ucfg) (W : bytes).
Hypothesis Hwf : fs_wf f.
Hypothesis Hnd : NoDup (dnames (f_local f)).
Hypothesis P1a : d_mem (f_local f) (local_name W) = false.
Hypothesis P1b : d_mem (f_local f) (ready_name W) = false.
Hypothesis P1c : d_mem (up_dir f) (marker_name W) = false.
Hypothesis P1d : forall g, d_mem (f_local f) g = true -> collect_ready c g = true -> contains g W = false.
Hypothesis P2 : forall n id ct cf, d_find (f_local f) n = Some (id, ct) -> parse ct = Some cf ->
  uploader_week (cf_end cf) <> W -> contains (ready_name (uploader_week (cf_end cf))) W = false.
Hypothesis Hall : forall n cf, wfile f W n cf -> before_start (cf_end cf) (u_start c) = true.
Hypothesis Hne : exists n cf, wfile f W n cf /\ cf_counts cf <> [].

Theorem week_report_groups sched t :
  s_ths (run sched (init_state f [c])) = [t] -> t_pc t = Done ->
  exists id r,
    d_find (f_local (s_fs (run sched (init_state f [c])))) (local_name W) = Some (id, CRep (Some r)) /\
    r_week r = W /\ NoDup (map fst (r_files r)) /\
    let body := sums [] false (r_files r) in
    (* one program entry per identity that occurs among W's files *)
    NoDup (keys body) /\
    (forall p, In p (keys body) <-> exists n cf, wfile f W n cf /\ cf_prog cf = p) /\
    (* each value is the sum over exactly the files of that identity *)
    forall ws, NoDup ws -> (forall n cf, In (n, cf) ws <-> wfile f W n cf) ->
    forall p k, pval body p k = fval ws p k.
Proof.
  intros Hths Hp.
  destruct (one_report_per_week f c W Hwf P1a P1b P1c P1d P2 Hall Hne sched t Hths Hp) as (id & r & Hf & Hw & _ & Hin).
  exists id, r. split; [exact Hf|]. split; [exact Hw|].
  assert (Hn : NoDup (map fst (r_files r))).
  { destruct (rep_nodup_reach f [c] _ Hwf Hnd (reach_from_run _ sched) _ _ _ Hf) as [Hn | Hold]; [exact Hn|].
    unfold d_mem in P1a. rewrite Hold in P1a. discriminate. }
  split; [exact Hn|]. cbv zeta.
  destruct (sums_keys [] false (r_files r)) as [A B].
  split; [apply sorted_nodup; exact A|]. split.
  - intros p. rewrite B. split.
    + intros ([n cf] & He & Hpr). exists n, cf. split; [apply Hin; exact He|exact Hpr].
    + intros (n & cf & Hwf' & Hpr). exists (n, cf). split; [apply Hin; exact Hwf'|exact Hpr].
  - intros ws Hws Hiff p k. rewrite sums_val, fval_gen_local. apply fval_perm.
    apply NoDup_Permutation; [apply nodup_map_fst; exact Hn|exact Hws|].
    intros [n cf]. rewrite Hin, Hiff. tauto.
Qed.

End Groups.
