(* Proofs/AggregateFacts: the weekly aggregate of Model/Report.  Every value
   in it is the int64-wrapped sum, over exactly the files of that program
   build, of the values recorded under that name; builds and names occur
   once; plain counters and stack counters are kept apart. *)
From Coq Require Import List ZArith NArith Bool Lia.
From Tele Require Import Lib.Bytes Lib.Str Lib.Assoc Model.Config Model.ApprovalSpec Model.Report.
Import ListNotations.
Open Scope Z_scope.

(* ---------------------------------------------------------------- int64 arithmetic *)

Lemma wrap64_add_l a b : wrap64 (wrap64 a + b) = wrap64 (a + b).
Proof. unfold wrap64, two63, two64. Z.div_mod_to_equations. lia. Qed.

Lemma wrap64_add_r a b : wrap64 (a + wrap64 b) = wrap64 (a + b).
Proof. unfold wrap64, two63, two64. Z.div_mod_to_equations. lia. Qed.

Lemma wrap64_small z : - two63 <= z < two63 -> wrap64 z = z.
Proof. unfold wrap64, two63, two64. intro H. Z.div_mod_to_equations. lia. Qed.

Lemma wrap64_range z : - two63 <= wrap64 z < two63.
Proof. unfold wrap64, two63, two64. Z.div_mod_to_equations. lia. Qed.

Lemma wrap64_congr z : exists q, wrap64 z = z - q * two64.
Proof. exists ((z + two63) / two64). unfold wrap64, two63, two64. Z.div_mod_to_equations. lia. Qed.

Lemma zsum_nonneg l : 0 <= zsum l.
Proof.
  induction l as [|v l IH]; [cbn; lia|].
  change (zsum (v :: l)) with (Z.of_N v + zsum l). pose proof (N2Z.is_nonneg v). lia.
Qed.

Lemma zsum_app a b : zsum (a ++ b) = zsum a + zsum b.
Proof.
  induction a as [|v a IH]; [reflexivity|].
  change (zsum ((v :: a) ++ b)) with (Z.of_N v + zsum (a ++ b)).
  change (zsum (v :: a)) with (Z.of_N v + zsum a). lia.
Qed.

(* ---------------------------------------------------------------- one map cell under a sequence of += *)

Fixpoint acc_vals (o : option Z) (vs : list N) : option Z :=
  match vs with [] => o | v :: vs' => acc_vals (Some (bump v o)) vs' end.

Lemma acc_vals_app o a b : acc_vals o (a ++ b) = acc_vals (acc_vals o a) b.
Proof. revert o; induction a as [|v a IH]; intro o; cbn [app acc_vals]; [reflexivity | apply IH]. Qed.

Lemma acc_vals_some o vs : vs <> [] -> acc_vals o vs = Some (wrap64 (odflt o + zsum vs)).
Proof.
  revert o; induction vs as [|v vs IH]; intros o Hne; [contradiction|].
  cbn [acc_vals]. destruct vs as [|v2 vs].
  - cbn [acc_vals zsum fold_right]. unfold bump, to_int64. rewrite wrap64_add_r. f_equal. f_equal. lia.
  - rewrite IH by discriminate. cbn [odflt]. unfold bump, to_int64.
    rewrite wrap64_add_l, <- Z.add_assoc, (Z.add_comm (wrap64 _)), Z.add_assoc, wrap64_add_r.
    f_equal. f_equal. cbn [zsum fold_right]. lia.
Qed.

Lemma acc_vals_none vs : acc_vals None vs = match vs with [] => None | _ => Some (wrap64 (zsum vs)) end.
Proof. destruct vs as [|v vs]; [reflexivity|]. rewrite acc_vals_some by discriminate. reflexivity. Qed.

(* ---------------------------------------------------------------- bodies *)

Definition side (s : bool) (b : body) : cmap := if s then snd b else fst b.

Definition vals_of (counts : list (bytes * N)) (k : bytes) : list N :=
  flat_map (fun kv => if beq (fst kv) k then [snd kv] else []) counts.

Lemma add_count_get b kv k :
  aget beq k (side (is_stack k) (add_count b kv)) =
  if beq (fst kv) k then Some (bump (snd kv) (aget beq k (side (is_stack k) b)))
  else aget beq k (side (is_stack k) b).
Proof.
  unfold add_count. destruct (beq (fst kv) k) eqn:E.
  - apply beq_eq in E. subst k. destruct (is_stack (fst kv)); cbn [side fst snd];
      apply (aget_aupd_same _ _ beq beq_eq).
  - apply beq_neq in E. destruct (is_stack (fst kv)), (is_stack k); cbn [side fst snd]; try reflexivity;
      apply (aget_aupd_other _ _ beq beq_eq); congruence.
Qed.

Lemma add_count_other b kv k :
  aget beq k (side (negb (is_stack k)) (add_count b kv)) =
  if beq (fst kv) k then aget beq k (side (negb (is_stack k)) b)
  else aget beq k (side (negb (is_stack k)) (add_count b kv)).
Proof.
  destruct (beq (fst kv) k) eqn:E; [|reflexivity]. apply beq_eq in E. subst k.
  unfold add_count. destruct (is_stack (fst kv)); reflexivity.
Qed.

Lemma fold_add_count_get counts : forall b k,
  aget beq k (side (is_stack k) (fold_left add_count counts b)) =
  acc_vals (aget beq k (side (is_stack k) b)) (vals_of counts k).
Proof.
  induction counts as [|kv counts IH]; intros b k; [reflexivity|].
  cbn [fold_left]. rewrite IH, add_count_get. unfold vals_of. cbn [flat_map].
  destruct (beq (fst kv) k); reflexivity.
Qed.

Definition wf_body (b : body) : Prop :=
  NoDup (akeys (fst b)) /\ NoDup (akeys (snd b)) /\
  (forall k, In k (akeys (fst b)) -> is_stack k = false) /\
  (forall k, In k (akeys (snd b)) -> is_stack k = true).

Lemma wf_empty : wf_body empty_body.
Proof. repeat split; try constructor; intros k []. Qed.

Lemma wf_add_count b kv : wf_body b -> wf_body (add_count b kv).
Proof.
  intros [H1 [H2 [H3 H4]]]. unfold add_count. destruct (is_stack (fst kv)) eqn:E; cbn [fst snd];
    repeat split; cbn [fst snd]; auto.
  - apply (NoDup_aupd _ _ beq beq_eq). exact H2.
  - intros k Hk. apply (In_akeys_aupd _ _ beq beq_eq) in Hk as [->|Hk]; auto.
  - apply (NoDup_aupd _ _ beq beq_eq). exact H1.
  - intros k Hk. apply (In_akeys_aupd _ _ beq beq_eq) in Hk as [->|Hk]; auto.
Qed.

Lemma wf_fold_add_count counts : forall b, wf_body b -> wf_body (fold_left add_count counts b).
Proof.
  induction counts as [|kv counts IH]; intros b H; [exact H|]. cbn [fold_left]. apply IH, wf_add_count, H.
Qed.

(* ---------------------------------------------------------------- program lists *)

Lemma ident_eqb_eq a b : ident_eqb a b = true <-> a = b.
Proof.
  destruct a as [a1 a2 a3 a4 a5], b as [b1 b2 b3 b4 b5]. unfold ident_eqb.
  cbn [id_program id_version id_goversion id_goos id_goarch].
  rewrite !andb_true_iff, !beq_eq. split.
  - intros [[[[-> ->] ->] ->] ->]. reflexivity.
  - intro H. injection H. auto.
Qed.

Definition pget (ps : progs) (i : ident) (k : bytes) : option Z :=
  match aget ident_eqb i ps with
  | Some b => aget beq k (side (is_stack k) b)
  | None => None
  end.

Lemma spec_entries_cons f files i k :
  spec_entries (f :: files) i k =
  (if ident_eqb (f_ident f) i then vals_of (f_counts f) k else []) ++ spec_entries files i k.
Proof. reflexivity. Qed.

Lemma add_file_pget ps f i k :
  pget (add_file ps f) i k =
  acc_vals (pget ps i k) (if ident_eqb (f_ident f) i then vals_of (f_counts f) k else []).
Proof.
  unfold pget, add_file. destruct (ident_eqb (f_ident f) i) eqn:E.
  - apply ident_eqb_eq in E. subst i. rewrite (aget_aupd_same _ _ ident_eqb ident_eqb_eq).
    rewrite fold_add_count_get. destruct (aget ident_eqb (f_ident f) ps) as [b|]; cbn [obody]; [reflexivity|].
    destruct (is_stack k); reflexivity.
  - rewrite (aget_aupd_other _ _ ident_eqb ident_eqb_eq); [reflexivity|].
    intro H. subst i. rewrite (proj2 (ident_eqb_eq _ _) eq_refl) in E. discriminate.
Qed.

Lemma fold_add_file_pget files : forall ps i k,
  pget (fold_left add_file files ps) i k = acc_vals (pget ps i k) (spec_entries files i k).
Proof.
  induction files as [|f files IH]; intros ps i k; [reflexivity|].
  cbn [fold_left]. rewrite IH, add_file_pget, spec_entries_cons, acc_vals_app. reflexivity.
Qed.

(* value of counter k of build i in the aggregate: absent when no file of
   that build records k, otherwise the int64 sum *)
Lemma aggregate_pget files i k :
  pget (aggregate files) i k =
  match spec_entries files i k with [] => None | es => Some (wrap64 (zsum es)) end.
Proof.
  unfold aggregate. rewrite fold_add_file_pget. cbn [pget aget]. rewrite acc_vals_none.
  destruct (spec_entries files i k); reflexivity.
Qed.

Definition wf_progs (ps : progs) : Prop :=
  NoDup (akeys ps) /\ forall i b, In (i, b) ps -> wf_body b.

Lemma wf_add_file ps f : wf_progs ps -> wf_progs (add_file ps f).
Proof.
  intros [H1 H2]. split.
  - apply (NoDup_aupd _ _ ident_eqb ident_eqb_eq). exact H1.
  - intros i b Hin. apply (In_aupd _ _ ident_eqb ident_eqb_eq) in Hin as [[-> ->]|Hin]; [|eauto].
    apply wf_fold_add_count. destruct (aget ident_eqb (f_ident f) ps) as [b0|] eqn:E; cbn [obody].
    + apply (aget_In _ _ ident_eqb ident_eqb_eq) in E. eauto.
    + apply wf_empty.
Qed.

Lemma wf_fold_add_file files : forall ps, wf_progs ps -> wf_progs (fold_left add_file files ps).
Proof. induction files as [|f files IH]; intros ps H; [exact H|]. cbn [fold_left]. apply IH, wf_add_file, H. Qed.

Lemma wf_aggregate files : wf_progs (aggregate files).
Proof. apply wf_fold_add_file. split; [constructor | intros i b []]. Qed.

Lemma keys_fold_add_file files : forall ps i,
  In i (akeys (fold_left add_file files ps)) <-> In i (akeys ps) \/ exists f, In f files /\ f_ident f = i.
Proof.
  induction files as [|f files IH]; intros ps i; cbn [fold_left].
  - split; [auto | intros [H|[f [[] _]]]; exact H].
  - rewrite IH. unfold add_file at 1. rewrite (In_akeys_aupd _ _ ident_eqb ident_eqb_eq). split.
    + intros [[->|H]|[f' [H1 H2]]]; [right; exists f; split; [left|]; auto | left; exact H | right; exists f'; split; [right|]; auto].
    + intros [H|[f' [[<-|H1] H2]]]; [left; right; exact H | left; left; auto | right; exists f'; auto].
Qed.

(* the builds of the aggregate are exactly the builds of the files *)
Lemma aggregate_keys files i :
  In i (akeys (aggregate files)) <-> exists f, In f files /\ f_ident f = i.
Proof. unfold aggregate. rewrite keys_fold_add_file. cbn. split; [intros [[]|H]; exact H | auto]. Qed.

(* reading a cell of the aggregate through list membership *)
Lemma aggregate_counter files i cs ss k v :
  In (i, (cs, ss)) (aggregate files) -> In (k, v) cs ->
  is_stack k = false /\ pget (aggregate files) i k = Some v.
Proof.
  intros Hp Hk. destruct (wf_aggregate files) as [Hnd Hwf].
  destruct (Hwf _ _ Hp) as [H1 [H2 [H3 H4]]]. cbn [fst snd] in *.
  assert (Hs : is_stack k = false) by (apply H3, in_map_iff; exists (k, v); auto).
  split; [exact Hs|]. unfold pget.
  rewrite (In_aget _ _ ident_eqb ident_eqb_eq _ _ _ Hnd Hp), Hs. cbn [side fst].
  apply (In_aget _ _ beq beq_eq); assumption.
Qed.

Lemma aggregate_stack files i cs ss k v :
  In (i, (cs, ss)) (aggregate files) -> In (k, v) ss ->
  is_stack k = true /\ pget (aggregate files) i k = Some v.
Proof.
  intros Hp Hk. destruct (wf_aggregate files) as [Hnd Hwf].
  destruct (Hwf _ _ Hp) as [H1 [H2 [H3 H4]]]. cbn [fst snd] in *.
  assert (Hs : is_stack k = true) by (apply H4, in_map_iff; exists (k, v); auto).
  split; [exact Hs|]. unfold pget.
  rewrite (In_aget _ _ ident_eqb ident_eqb_eq _ _ _ Hnd Hp), Hs. cbn [side snd].
  apply (In_aget _ _ beq beq_eq); assumption.
Qed.

(* the value of a cell of the aggregate *)
Lemma pget_value files i k v :
  pget (aggregate files) i k = Some v ->
  spec_entries files i k <> [] /\ v = wrap64 (spec_sum files i k).
Proof.
  rewrite aggregate_pget. unfold spec_sum. destruct (spec_entries files i k) as [|e es]; [discriminate|].
  intro H. injection H as <-. split; [discriminate | reflexivity].
Qed.

(* a recorded counter is in the aggregate, on its side *)
Lemma aggregate_has files f k v :
  In f files -> In (k, v) (f_counts f) ->
  exists cs ss v', In (f_ident f, (cs, ss)) (aggregate files) /\
                   In (k, v') (if is_stack k then ss else cs).
Proof.
  intros Hf Hk.
  assert (Hne : spec_entries files (f_ident f) k <> []).
  { intro He. assert (Hin : In v (spec_entries files (f_ident f) k)).
    { unfold spec_entries. apply in_flat_map. exists f. split; [exact Hf|].
      rewrite (proj2 (ident_eqb_eq _ _) eq_refl). apply in_flat_map. exists (k, v). split; [exact Hk|].
      cbn [fst snd]. rewrite beq_refl. left. reflexivity. }
    rewrite He in Hin. exact Hin. }
  assert (Hp := aggregate_pget files (f_ident f) k).
  destruct (spec_entries files (f_ident f) k) as [|e es] eqn:E; [contradiction|].
  unfold pget in Hp. destruct (aget ident_eqb (f_ident f) (aggregate files)) as [[cs ss]|] eqn:Ea; [|discriminate].
  apply (aget_In _ _ ident_eqb ident_eqb_eq) in Ea. apply (aget_In _ _ beq beq_eq) in Hp.
  exists cs, ss, (wrap64 (zsum (e :: es))). split; [exact Ea|].
  destruct (is_stack k); exact Hp.
Qed.

Lemma aggregate_has_prog files f :
  In f files -> exists cs ss, In (f_ident f, (cs, ss)) (aggregate files).
Proof.
  intro Hf. assert (H : In (f_ident f) (akeys (aggregate files))) by (apply aggregate_keys; eauto).
  apply in_map_iff in H as [[i [cs ss]] [He Hin]]. cbn in He. subst i. eauto.
Qed.
