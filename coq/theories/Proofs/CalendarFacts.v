(* Proofs about Lib/Calendar: civil round trip for all Z (finite sweep of one
   400-year era lifted by periodicity), weekday facts, render/parse round trip
   on the swept range 1970-01-01 .. 2399-12-31 and beyond (2^18 days). *)
From Coq Require Import List ZArith NArith Bool Lia.
From Tele Require Import Lib.Bytes Lib.Calendar Lib.Sweep.
Import ListNotations.
Open Scope Z_scope.

Definition rt_ok (z : Z) : bool :=
  let '(y, m, d) := civil_from_days z in
  (days_from_civil y m d =? z) && valid_civil y m d.

Lemma era0_sweep : all_range 18 (-719468) rt_ok = true.
Proof. vm_cast_no_check (eq_refl true). Qed.

Lemma civil_period z k :
  civil_from_days (z + 146097 * k) =
  let '(y, m, d) := civil_from_days z in (y + 400 * k, m, d).
Proof.
  unfold civil_from_days.
  replace (z + 146097 * k + 719468) with (z + 719468 + k * 146097) by ring.
  rewrite Z_div_plus, Z_mod_plus by lia.
  unfold civil_of_era_doe.
  set (doe := (z + 719468) mod 146097).
  set (yoe := (doe - doe / 1460 + doe / 36524 - doe / 146096) / 365).
  set (doy := doe - (365 * yoe + yoe / 4 - yoe / 100)).
  set (mp := (5 * doy + 2) / 153).
  destruct (mp <? 10); cbv zeta;
  match goal with |- context [if ?c then _ else _] => destruct c end;
  f_equal; f_equal; ring.
Qed.

Lemma days_period y m d k :
  days_from_civil (y + 400 * k) m d = days_from_civil y m d + 146097 * k.
Proof.
  unfold days_from_civil.
  destruct (m <=? 2).
  - replace (y + 400 * k - 1) with (y - 1 + k * 400) by ring.
    rewrite Z_div_plus, Z_mod_plus by lia. ring.
  - replace (y + 400 * k) with (y + k * 400) by ring.
    rewrite Z_div_plus, Z_mod_plus by lia. ring.
Qed.

Lemma is_leap_period y k : is_leap (y + 400 * k) = is_leap y.
Proof.
  unfold is_leap.
  replace (y + 400 * k) with (y + (100 * k) * 4) at 1 by ring.
  replace (y + 400 * k) with (y + (4 * k) * 100) at 1 by ring.
  replace (y + 400 * k) with (y + k * 400) by ring.
  rewrite !Z_mod_plus by lia. reflexivity.
Qed.

Lemma valid_civil_period y m d k : valid_civil (y + 400 * k) m d = valid_civil y m d.
Proof. unfold valid_civil, days_in_month. rewrite is_leap_period. reflexivity. Qed.

Theorem civil_roundtrip z :
  let '(y, m, d) := civil_from_days z in
  days_from_civil y m d = z /\ valid_civil y m d = true.
Proof.
  set (k := (z + 719468) / 146097).
  set (z0 := z - 146097 * k).
  assert (Hz0 : -719468 <= z0 < -719468 + 2 ^ Z.of_nat 18).
  { subst z0 k. pose proof (Z.mod_pos_bound (z + 719468) 146097 ltac:(lia)).
    pose proof (Z.div_mod (z + 719468) 146097 ltac:(lia)).
    change (2 ^ Z.of_nat 18) with 262144. lia. }
  pose proof (all_range_spec 18 _ _ era0_sweep z0 Hz0) as H0.
  replace z with (z0 + 146097 * k) by (subst z0; ring).
  rewrite civil_period. unfold rt_ok in H0.
  destruct (civil_from_days z0) as [[y m] d].
  apply andb_true_iff in H0 as [H1 H2]. apply Z.eqb_eq in H1.
  rewrite days_period, valid_civil_period. split; [lia | exact H2].
Qed.

Lemma days_linear y m d k : days_from_civil y m (d + k) = days_from_civil y m d + k.
Proof. unfold days_from_civil, doe_of. ring. Qed.

Lemma weekday_range d : 0 <= weekday d < 7.
Proof. unfold weekday. apply Z.mod_pos_bound. lia. Qed.

Lemma weekday_add d k : weekday (d + k) = (weekday d + k) mod 7.
Proof. unfold weekday. rewrite Zplus_mod_idemp_l. f_equal. ring. Qed.

(* ---- render / parse: digit fields by finite sweep, composition by lists ---- *)

Definition d4_ok (y : Z) : bool :=
  match dec_pad 4 (Z.to_N y) with
  | [a; b; c; d] =>
      all_digits [a; b; c; d] &&
      match parse_dec [a; b; c; d] with Some n => N.eqb n (Z.to_N y) | None => false end
  | _ => false
  end.
Definition d2_ok (y : Z) : bool :=
  match dec_pad 2 (Z.to_N y) with
  | [a; b] =>
      all_digits [a; b] &&
      match parse_dec [a; b] with Some n => N.eqb n (Z.to_N y) | None => false end
  | _ => false
  end.

Lemma d4_sweep : all_range 14 0 (fun y => if y <? 10000 then d4_ok y else true) = true.
Proof. vm_cast_no_check (eq_refl true). Qed.
Lemma d2_sweep : all_range 7 0 (fun y => if y <? 100 then d2_ok y else true) = true.
Proof. vm_cast_no_check (eq_refl true). Qed.

Lemma d4_spec y : 0 <= y < 10000 -> exists a b c d,
  dec_pad 4 (Z.to_N y) = [a; b; c; d] /\ all_digits [a; b; c; d] = true /\
  parse_dec [a; b; c; d] = Some (Z.to_N y).
Proof.
  intros H. pose proof (all_range_spec 14 0 _ d4_sweep y ltac:(change (2 ^ Z.of_nat 14) with 16384; lia)) as R.
  cbv beta in R. destruct (Z.ltb_spec y 10000); [|lia]. unfold d4_ok in R.
  destruct (dec_pad 4 (Z.to_N y)) as [|a [|b [|c [|d [|? ?]]]]]; try discriminate.
  exists a, b, c, d. apply andb_true_iff in R as [R1 R2]. split; [reflexivity|]. split; [exact R1|].
  destruct (parse_dec [a; b; c; d]); [|discriminate]. apply N.eqb_eq in R2. congruence.
Qed.

Lemma d2_spec y : 0 <= y < 100 -> exists a b,
  dec_pad 2 (Z.to_N y) = [a; b] /\ all_digits [a; b] = true /\
  parse_dec [a; b] = Some (Z.to_N y).
Proof.
  intros H. pose proof (all_range_spec 7 0 _ d2_sweep y ltac:(change (2 ^ Z.of_nat 7) with 128; lia)) as R.
  cbv beta in R. destruct (Z.ltb_spec y 100); [|lia]. unfold d2_ok in R.
  destruct (dec_pad 2 (Z.to_N y)) as [|a [|b [|? ?]]]; try discriminate.
  exists a, b. apply andb_true_iff in R as [R1 R2]. split; [reflexivity|]. split; [exact R1|].
  destruct (parse_dec [a; b]); [|discriminate]. apply N.eqb_eq in R2. congruence.
Qed.

Lemma parse_fixed_4 a b c d n : all_digits [a; b; c; d] = true ->
  parse_dec [a; b; c; d] = Some n -> parse_fixed 4 [a; b; c; d] = Some (Z.of_N n).
Proof. intros H1 H2. unfold parse_fixed. rewrite H1, H2. reflexivity. Qed.
Lemma parse_fixed_2 a b n : all_digits [a; b] = true ->
  parse_dec [a; b] = Some n -> parse_fixed 2 [a; b] = Some (Z.of_N n).
Proof. intros H1 H2. unfold parse_fixed. rewrite H1, H2. reflexivity. Qed.

Lemma valid_civil_bounds y m d : valid_civil y m d = true -> 1 <= m <= 12 /\ 1 <= d <= 31.
Proof.
  unfold valid_civil, days_in_month. intros H.
  repeat (apply andb_true_iff in H as [H ?]).
  destruct (m =? 2); [destruct (is_leap y)|]; try lia.
  destruct ((m =? 4) || (m =? 6) || (m =? 9) || (m =? 11)); lia.
Qed.
Theorem parse_fmt_ymd y m d : 0 <= y < 10000 -> valid_civil y m d = true ->
  parse_date (fmt_ymd y m d) = Some (days_from_civil y m d) /\
  length (fmt_ymd y m d) = 10%nat.
Proof.
  intros Hy Hv. pose proof (valid_civil_bounds _ _ _ Hv) as [Hm Hd].
  destruct (d4_spec y Hy) as (a & b & c & e & E4 & D4 & P4).
  destruct (d2_spec m ltac:(lia)) as (m1 & m2 & Em & Dm & Pm).
  destruct (d2_spec d ltac:(lia)) as (d1 & d2 & Ed & Dd & Pd).
  unfold fmt_ymd. rewrite E4, Em, Ed.
  split; [|reflexivity].
  unfold parse_date. cbn [length app Nat.eqb sub skipn firstn nth_byte nth].
  rewrite (parse_fixed_4 _ _ _ _ _ D4 P4), (parse_fixed_2 _ _ _ Dm Pm), (parse_fixed_2 _ _ _ Dd Pd).
  rewrite !Z2N.id by lia. unfold dash. rewrite !N.eqb_refl, Hv. reflexivity.
Qed.

Lemma civil_year_range day : -719528 <= day < 2932897 ->
  let '(y, _, _) := civil_from_days day in 0 <= y < 10000.
Proof.
  intros H. pose proof (civil_roundtrip day) as R.
  destruct (civil_from_days day) as [[y m] d]. destruct R as [R V].
  pose proof (valid_civil_bounds _ _ _ V) as [Hm Hd].
  (* days_from_civil is monotone in the year: bound it crudely *)
  unfold days_from_civil, doe_of in R.
  destruct (m <=? 2) eqn:Em; destruct (2 <? m) eqn:Em2; try lia;
  Z.div_mod_to_equations; lia.
Qed.

Theorem date_roundtrip day : -719528 <= day < 2932897 ->
  parse_date (fmt_date day) = Some day /\ length (fmt_date day) = 10%nat.
Proof.
  intros H. unfold fmt_date. pose proof (civil_roundtrip day) as R.
  pose proof (civil_year_range day H) as Y.
  destruct (civil_from_days day) as [[y m] d]. destruct R as [R V].
  destruct (parse_fmt_ymd y m d Y V) as [P L]. rewrite P, R. split; [reflexivity | exact L].
Qed.

Definition hms_rt_ok (s : Z) : bool :=
  let h := fmt_hms s in
  Nat.eqb (length h) 8 &&
  match parse_fixed 2 (sub h 0 2), parse_fixed 2 (sub h 3 2), parse_fixed 2 (sub h 6 2) with
  | Some hh, Some mm, Some ss =>
      (hh * 3600 + mm * 60 + ss =? s) && (hh <? 24) && (mm <? 60) && (ss <? 60)
      && N.eqb (nth_byte h 2) colon && N.eqb (nth_byte h 5) colon
  | _, _, _ => false
  end.

Lemma hms_sweep : all_range 17 0 (fun s => if s <? 86400 then hms_rt_ok s else true) = true.
Proof. vm_cast_no_check (eq_refl true). Qed.

Lemma hms_roundtrip s : 0 <= s < 86400 -> hms_rt_ok s = true.
Proof.
  intros H. pose proof (all_range_spec 17 0 _ hms_sweep s ltac:(change (2 ^ Z.of_nat 17) with 131072; lia)) as R.
  cbv beta in R. destruct (Z.ltb_spec s 86400); [exact R | lia].
Qed.
