(* Proofs/UploaderFaultIso: one uploader.Run under an arbitrary fault plan,
   part 3: the invariants of a run and the isolation / keeps-or-drops
   theorems. *)
From Coq Require Import List ZArith NArith Bool Lia Arith.
From Tele Require Import Lib.Bytes Lib.FS Model.Span Model.Uploader Model.UploaderFault
  Proofs.FSFacts Proofs.UploaderBase Proofs.UploaderLock Proofs.UploaderNames Proofs.UploaderFiles
  Proofs.UploaderData Proofs.UploaderEver Proofs.UploaderSeq Proofs.UploaderNoDup Proofs.UploaderLocal
  Proofs.UploaderDisp Proofs.UploaderFaultFacts Proofs.UploaderFaultInv.
Import ListNotations.
Open Scope nat_scope.

Lemma fpick_now p i picks f err t t' n pan picks' :
  t_pc t = RPick -> fpick p i picks t = (t', n, pan, picks') -> names_inv t -> now_inv f err t ->
  now_inv f false t'.
Proof.
  intros Hp H N [W1 W2 W3 W6 W4 W5].
  pose proof (ni_ready _ N) as NR. rewrite Forall_forall in NR.
  rewrite Hp in W2. simpl in W2. specialize (W2 eq_refl).
  unfold fpick in H.
  destruct (t_weeks t) as [|g0 gs] eqn:Ew.
  - injection H as <- <- <- <-. unfold start_upload. adv; constructor; simpl; intros; try discriminate; eauto.
  - destruct (choose picks t (fst g0)) as [w ps].
    destruct (take_week w (g0 :: gs)) as [[files rest]|] eqn:Et.
    + destruct (not_needed w (t_uploaded t) (t_ready t)) eqn:En.
      * injection H as <- <- <- <-.
        assert (Hwit : witness_now w f).
        { unfold not_needed in En. apply orb_true_iff in En. destruct En as [Hu | Hr].
          - destruct (t_uploaded t) as [u|] eqn:Eu; [|discriminate].
            apply existsb_exists in Hu. destruct Hu as (x & Hx & Hb). apply beq_eq in Hb. subst x.
            right. right. left. apply (W1 u _ eq_refl Hx).
          - apply existsb_exists in Hr. destruct Hr as (g & Hg & Hc).
            right. right. right. exists g. auto. }
        constructor; simpl; intros; eauto; destruct files; simpl in *; try discriminate; eauto.
      * destruct (bad p i).
        -- injection H as <- <- <- <-. constructor; simpl; intros; try discriminate; eauto.
        -- destruct (has_counts files); injection H as <- <- <- <-; constructor; simpl; intros;
             try discriminate; eauto; rewrite Hp in *; try discriminate.
    + injection H as <- <- <- <-. constructor; simpl; intros; rewrite ?Hp in *; try discriminate; eauto.
Qed.

(* ---------------------------------------------------------------- the invariant of a run *)
Definition emb (x : fstate) : state := mkSt (x_fs x) (x_log x) [x_t x].

(* find_step with the handle invariant as premise (instead of reachability in Model/Uploader's system) *)
Lemma find_step' st i a n :
  fd_inv st ->
  let st' := step st (i, a) in
  d_find (f_local (s_fs st')) n = d_find (f_local (s_fs st)) n
  \/ (exists t t', nth_error (s_ths st) i = Some t /\ decide_all (s_fs st) a t = (ERemLocal n, t') /\
                   d_find (f_local (s_fs st')) n = None)
  \/ (exists t t', nth_error (s_ths st) i = Some t /\ decide_all (s_fs st) a t = (ECreateLocal n, t'))
  \/ (exists t t' fd c, nth_error (s_ths st) i = Some t /\ decide_all (s_fs st) a t = (EWriteId fd c, t') /\
                        writing t = Some (fd, n)).
Proof.
  intros (I1 & I2 & I3 & I4). simpl.
  destruct (step_cases st i a) as [-> | (t & e & t' & Hi & Hk & Hd & ->)]; [auto|].
  simpl. rewrite local_apply. destruct e; auto.
  - destruct (beq n0 n) eqn:E.
    + apply beq_eq in E. subst n0. right. left. exists t, t'. rewrite d_find_remove_same. auto.
    + apply beq_neq in E. left. apply d_find_remove_other. exact E.
  - destruct (beq n0 n) eqn:E.
    + apply beq_eq in E. subst n0. right. right. left. exists t, t'. auto.
    + left. rewrite d_find_add, E. reflexivity.
  - rewrite d_find_set_id. destruct (d_find (f_local (s_fs st)) n) as [[id c0]|] eqn:Ef; auto.
    destruct (Nat.eqb id fd) eqn:E; auto.
    apply Nat.eqb_eq in E. subst id.
    destruct (eff_writeid_writing _ _ _ _ _ _ Hd) as (n1 & Hw1 & _).
    destruct (I4 _ _ _ _ _ _ Hi Hw1 Ef) as [-> ->].
    right. right. right. exists t, t', fd, c. auto.
Qed.

Lemma fd_inv_quiet fs' log' t' :
  writing t' = None -> (forall id, In id (d_ids (f_local fs')) -> id < f_next fs') ->
  fd_inv (mkSt fs' log' [t']).
Proof.
  intros Hw Hids. split; [|split; [|split]]; simpl; auto.
  - intros i t0 fd n Hi Hwr. destruct i as [|[|i]]; simpl in Hi; try discriminate. injection Hi as <-. congruence.
  - intros i j ti tj fi ni fj nj Hij Hi Hj. destruct i as [|[|i]]; destruct j as [|[|j]]; simpl in *; try discriminate.
    contradiction.
  - intros i t0 fd n m c Hi Hwr. destruct i as [|[|i]]; simpl in Hi; try discriminate. injection Hi as <-. congruence.
Qed.

Section Run.
Variables (p : fplan) (f0 : FS) (c : ucfg) (exported : bool).
Hypothesis Hwf : fs_wf f0.
Notation L0 := (f_local f0).
Notation x0 := (finit f0 c exported).

Record rinv (x : fstate) : Prop := mkRI {
  ri_tl : tl_inv L0 (x_t x);
  ri_rel : fs_rel L0 (x_fs x);
  ri_fd : fd_inv (emb x);
  ri_now : now_inv (x_fs x) (x_err x) (x_t x);
  ri_alive : t_killed (x_t x) = false;
  ri_cfg : t_cfg (x_t x) = c
}.

Lemma rinv_init : rinv x0.
Proof.
  constructor; simpl.
  - split; [apply names_inv_new|]. split; [apply data_inv_new|constructor].
  - intros n _ v Hv. exact Hv.
  - destruct Hwf as [H1 _]. split; [|split; [|split]]; simpl; auto.
    + intros i t fd n Hi Hw. destruct i as [|[|i]]; simpl in Hi; try discriminate. injection Hi as <-. discriminate.
    + intros i j ti tj fi ni fj nj _ Hi _ Hw. destruct i as [|[|i]]; simpl in Hi; try discriminate. injection Hi as <-. discriminate.
    + intros i t fd n m c0 Hi Hw. destruct i as [|[|i]]; simpl in Hi; try discriminate. injection Hi as <-. discriminate.
  - apply now_inv_new.
  - reflexivity.
  - reflexivity.
Qed.

Lemma killed_decide f a t e t' : a <> AKill -> decide_all f a t = (e, t') -> t_killed t' = t_killed t.
Proof. intros Hk Hd. destruct a; [| | |contradiction]; dinv Hd; adv; reflexivity. Qed.

Lemma fdecide_alive_cfg i f err t e t' err' n pan :
  fdecide p i f err t = (e, t', err', n, pan) -> t_killed t' = t_killed t /\ t_cfg t' = t_cfg t.
Proof.
  intros H. destruct (fdecide_thread _ _ _ _ _ _ _ _ _ _ H) as [(f' & o & -> & _) | (p' & -> & _)].
  - destruct (decide f' o t) as [e0 t0] eqn:Ed. simpl.
    assert (Hda : decide_all f' (AStep o) t = (e0, t0)) by exact Ed. split.
    + eapply killed_decide; eauto. discriminate.
    + eapply cfg_step; eauto.
  - split; reflexivity.
Qed.

Lemma fpick_alive_cfg i picks t t' n pan picks' :
  t_pc t = RPick -> fpick p i picks t = (t', n, pan, picks') ->
  t_killed t' = t_killed t /\ t_cfg t' = t_cfg t /\ writing t' = None.
Proof.
  intros Hp H. destruct (fpick_thread _ _ _ _ _ _ _ _ Hp H) as [-> | [[w ->] | ->]].
  - assert (Hda : decide_all f0 APickNone t = (ENone, step_pick_none t)) by reflexivity.
    split; [eapply killed_decide; eauto; discriminate|]. split; [eapply cfg_step; eauto|].
    destruct (writing (step_pick_none t)) as [[fd nm]|] eqn:Ew; auto.
    destruct (writing_after _ _ _ _ _ _ _ Hda Ew) as [[_ Hw] | (Hc & _)]; [|discriminate].
    unfold writing in Hw. rewrite Hp in Hw. discriminate.
  - assert (Hda : decide_all f0 (APick w) t = (ENone, step_pick w t)) by reflexivity.
    split; [eapply killed_decide; eauto; discriminate|]. split; [eapply cfg_step; eauto|].
    destruct (writing (step_pick w t)) as [[fd nm]|] eqn:Ew; auto.
    destruct (writing_after _ _ _ _ _ _ _ Hda Ew) as [[_ Hw] | (Hc & _)]; [|discriminate].
    unfold writing in Hw. rewrite Hp in Hw. discriminate.
  - repeat split; reflexivity.
Qed.

Lemma ids_apply e (f : FS) log id :
  In id (d_ids (f_local (fst (apply_eff e f log)))) -> In id (d_ids (f_local f)) \/ id = f_next f.
Proof.
  rewrite local_apply. destruct e; auto.
  - intros H. left. eapply d_ids_remove; eauto.
  - simpl. intros [<- | H]; auto.
  - rewrite d_ids_set_id. auto.
Qed.

Lemma fdecide_fs i fs log err t e t' err' n pan :
  fdecide p i fs err t = (e, t', err', n, pan) ->
  t_killed t = false -> fs_rel L0 fs -> fd_inv (mkSt fs log [t]) ->
  fs_rel L0 (fst (apply_eff e fs log)) /\
  fd_inv (mkSt (fst (apply_eff e fs log)) (snd (apply_eff e fs log)) [t']).
Proof.
  intros Ef Hk HR HF.
  assert (Hi : nth_error (s_ths (mkSt fs log [t])) 0 = Some t) by reflexivity.
  destruct (fdecide_cases _ _ _ _ _ _ _ _ _ _ Ef) as
    [(o & Hd) | [(-> & Hw) | [(Hp & c0 & -> & ->) | [(Hp & c0 & -> & Ht) | (Hp & c0 & -> & ->)]]]].
  - (* a step of Model/Uploader *)
    assert (Hda : decide_all fs (AStep o) t = (e, t')) by exact Hd.
    pose proof (step_at (mkSt fs log [t]) 0 (AStep o) t e t' Hi Hk Hda) as Es. simpl in Es.
    split.
    + intros m Hm v Hv.
      pose proof (find_step' (mkSt fs log [t]) 0 (AStep o) m HF) as X. cbv zeta in X. rewrite Es in X.
      simpl in X.
      destruct X as [E | [(t1 & t1' & _ & _ & E) | [(t1 & t1' & Hi1 & Hd1) | (t1 & t1' & fd & c1 & Hi1 & Hd1 & Hw1)]]].
      * rewrite E in Hv. eauto.
      * congruence.
      * apply (createlocal_name fs (AStep o)) in Hd1. congruence.
      * apply writing_name in Hw1. congruence.
    + pose proof (fd_inv_step (mkSt fs log [t]) (0, AStep o) HF) as H. rewrite Es in H. exact H.
  - simpl. split; auto. destruct HF as (I1 & _). apply fd_inv_quiet; auto.
  - (* Write of W.json, possibly short *)
    assert (Hwr : writing t = Some (t_fd t, ready_name (t_week t))) by (unfold writing; rewrite Hp; reflexivity).
    destruct HF as (I1 & I2 & I3 & I4). split.
    + intros m Hm v Hv. simpl in Hv. rewrite d_find_set_id in Hv.
      destruct (d_find (f_local fs) m) as [[id c1]|] eqn:Em; [|discriminate].
      destruct (Nat.eqb id (t_fd t)) eqn:E.
      * apply Nat.eqb_eq in E. subst id. destruct (I4 0 t _ _ _ _ Hi Hwr Em) as [-> _].
        rewrite is_count_ready in Hm. discriminate.
      * injection Hv as <-. eapply HR; eauto.
    + apply fd_inv_quiet; simpl; auto. intros id. rewrite d_ids_set_id. apply I1.
  - (* Write of local.W.json *)
    assert (Hwr : writing t = Some (t_fd t, local_name (t_week t))) by (unfold writing; rewrite Hp; reflexivity).
    assert (Hw' : writing t' = None).
    { destruct Ht as [[-> _] | ->]; unfold writing, finish_week, start_del, abort_week; simpl; auto.
      destruct (t_files t); reflexivity. }
    destruct HF as (I1 & I2 & I3 & I4). split.
    + intros m Hm v Hv. simpl in Hv. rewrite d_find_set_id in Hv.
      destruct (d_find (f_local fs) m) as [[id c1]|] eqn:Em; [|discriminate].
      destruct (Nat.eqb id (t_fd t)) eqn:E.
      * apply Nat.eqb_eq in E. subst id. destruct (I4 0 t _ _ _ _ Hi Hwr Em) as [-> _].
        rewrite is_count_local in Hm. discriminate.
      * injection Hv as <-. eapply HR; eauto.
    + apply fd_inv_quiet; simpl; auto. intros id. rewrite d_ids_set_id. apply I1.
  - (* partial marker *)
    simpl. split; auto. destruct HF as (I1 & _). apply fd_inv_quiet; simpl; auto.
    intros id Hin. specialize (I1 id Hin). simpl in I1. lia.
Qed.

Lemma rinv_step picks x : rinv x -> rinv (fst (fstep p picks x)).
Proof.
  intros [(N & D & K) HR HF HN HA HC]. unfold fstep.
  destruct (x_pre x); [constructor; simpl; auto; split; auto|].
  destruct (t_pc (x_t x)) eqn:Epc.
  5: { (* the range loop *)
    destruct (fpick p (x_idx x) picks (x_t x)) as [[[t' n] pan] pk] eqn:Ef. simpl.
    destruct (fpick_alive_cfg _ _ _ _ _ _ _ Epc Ef) as (A1 & A2 & A3).
    constructor; simpl.
    - eapply tl_inv_fpick; eauto. split; auto.
    - exact HR.
    - destruct HF as (I1 & _). apply fd_inv_quiet; auto.
    - eapply fpick_now; eauto.
    - congruence.
    - congruence. }
  all: destruct (fdecide p (x_idx x) (x_fs x) (x_err x) (x_t x)) as [[[[e t'] err'] n] pan] eqn:Ef;
    destruct (apply_eff e (x_fs x) (x_log x)) as [f' log'] eqn:Ea; simpl;
    assert (Ef' : f' = fst (apply_eff e (x_fs x) (x_log x))) by (rewrite Ea; reflexivity);
    assert (El' : log' = snd (apply_eff e (x_fs x) (x_log x))) by (rewrite Ea; reflexivity);
    destruct (fdecide_alive_cfg _ _ _ _ _ _ _ _ _ Ef) as [A1 A2];
    destruct (fdecide_fs _ _ (x_log x) _ _ _ _ _ _ _ Ef HA HR HF) as [B1 B2];
    (constructor; simpl;
     [ eapply tl_inv_fdecide; eauto; split; auto
     | rewrite Ef'; exact B1
     | unfold emb; simpl; rewrite Ef', El'; exact B2
     | rewrite Ef'; eapply fdecide_now; eauto
     | congruence | congruence ]).
Qed.

Lemma rinv_reach x : freach p x0 x -> rinv x.
Proof. induction 1; [apply rinv_init|apply rinv_step; assumption]. Qed.

(* ---------------------------------------------------------------- what a step can do to a count file *)
Lemma count_step picks x n :
  rinv x -> is_count n = true ->
  let x' := fst (fstep p picks x) in
  d_find (f_local (x_fs x')) n = d_find (f_local (x_fs x)) n \/
  (d_find (f_local (x_fs x')) n = None /\ t_pc (x_t x) = RDel /\ exists rest, t_dels (x_t x) = n :: rest).
Proof.
  intros [(N & D & K) HR HF HN HA HC] Hn. unfold fstep.
  destruct (x_pre x); [left; reflexivity|].
  destruct (t_pc (x_t x)) eqn:Epc.
  5: { destruct (fpick p (x_idx x) picks (x_t x)) as [[[t' k] pan] pk]. left. reflexivity. }
  all: destruct (fdecide p (x_idx x) (x_fs x) (x_err x) (x_t x)) as [[[[e t'] err'] k] pan] eqn:Ef;
    destruct (apply_eff e (x_fs x) (x_log x)) as [f' log'] eqn:Ea; simpl;
    assert (Ef' : f' = fst (apply_eff e (x_fs x) (x_log x))) by (rewrite Ea; reflexivity); rewrite Ef'; clear Ea Ef';
    assert (Hi : nth_error (s_ths (emb x)) 0 = Some (x_t x)) by reflexivity;
    destruct (fdecide_cases _ _ _ _ _ _ _ _ _ _ Ef) as
      [(o & Hd) | [(-> & Hw) | [(Hp & c0 & -> & ->) | [(Hp & c0 & -> & Ht) | (Hp & c0 & -> & ->)]]]];
    try (left; reflexivity).
  all: try (left; simpl; rewrite d_find_set_id;
            destruct (d_find (f_local (x_fs x)) n) as [[id c1]|] eqn:Em; auto;
            destruct (Nat.eqb id (t_fd (x_t x))) eqn:E; auto;
            apply Nat.eqb_eq in E; subst id; destruct HF as (_ & _ & _ & I4);
            exfalso;
            first [ assert (Hwr : writing (x_t x) = Some (t_fd (x_t x), ready_name (t_week (x_t x))))
                      by (unfold writing; rewrite Hp; reflexivity);
                    destruct (I4 0 _ _ _ _ _ Hi Hwr Em) as [-> _]; rewrite is_count_ready in Hn; discriminate
                  | assert (Hwr : writing (x_t x) = Some (t_fd (x_t x), local_name (t_week (x_t x))))
                      by (unfold writing; rewrite Hp; reflexivity);
                    destruct (I4 0 _ _ _ _ _ Hi Hwr Em) as [-> _]; rewrite is_count_local in Hn; discriminate ]).
  all: assert (Hda : decide_all (x_fs x) (AStep o) (x_t x) = (e, t')) by exact Hd;
    pose proof (step_at (emb x) 0 (AStep o) _ e t' Hi HA Hda) as Es;
    pose proof (find_step' (emb x) 0 (AStep o) n HF) as X; cbv zeta in X; rewrite Es in X; simpl in X;
    destruct X as [E | [(t1 & t1' & Hi1 & Hd1 & E) | [(t1 & t1' & Hi1 & Hd1) | (t1 & t1' & fd & c1 & Hi1 & Hd1 & Hw1)]]];
    [ left; exact E
    | injection Hi1 as <-;
      destruct (eff_remlocal (x_fs x) (AStep o) _ _ _ Hd1) as [(Hp & rest & Hdel) | (Hp & Hnf & _)];
      [ right; split; [exact E|]; split; [congruence|exists rest; exact Hdel]
      | exfalso; assert (Hu : in_upl (t_pc (x_t x)) = true) by (destruct Hp as [-> | [-> | ->]]; reflexivity);
        destruct (ni_file _ N Hu) as (Hc & _); congruence ]
    | apply (createlocal_name (x_fs x) (AStep o)) in Hd1; congruence
    | apply writing_name in Hw1; congruence ].
Qed.

(* ---- fault_isolation, first half: a count file that cannot be parsed or
        is not expired keeps its inode and content, under every plan ---- *)
Theorem fault_active_untouched x n v :
  freach p x0 x -> is_count n = true -> d_find L0 n = Some v ->
  (forall cf, parse (snd v) = Some cf -> before_start (cf_end cf) (u_start c) = false) ->
  d_find (f_local (x_fs x)) n = Some v.
Proof.
  intros Hr Hn Hv Hprot. induction Hr as [|x picks Hr IH]; [exact Hv|].
  pose proof (rinv_reach _ Hr) as RI.
  destruct (count_step picks x n RI Hn) as [E | (_ & Hpc & rest & Hdel)].
  - rewrite E. exact IH.
  - exfalso. destruct RI as [(_ & D & _) _ _ _ _ HC].
    pose proof (di_dels _ _ D Hpc) as DD. rewrite Hdel in DD. inversion DD as [|a1 l1 H1 H2]. clear H2.
    destruct H1 as (cf & (id & ct & Hs & Hp) & Hb & _). simpl in *.
    rewrite Hv in Hs. injection Hs as ->. rewrite HC in Hb.
    specialize (Hprot cf Hp). congruence.
Qed.

(* ---- fault_isolation, second half: when a step removes a count file, a
        report for the week being handled exists in the directory at that
        moment, and the file is an expired count file of that week ---- *)
Theorem fault_delete_only_after_report x picks n :
  freach p x0 x -> is_count n = true ->
  d_find (f_local (x_fs x)) n <> None -> d_find (f_local (x_fs (fst (fstep p picks x)))) n = None ->
  witness_now (t_week (x_t x)) (x_fs x) /\
  exists id ct cf, d_find L0 n = Some (id, ct) /\ parse ct = Some cf /\
                   uploader_week (cf_end cf) = t_week (x_t x) /\
                   before_start (cf_end cf) (u_start c) = true.
Proof.
  intros Hr Hn Hsome Hnone. pose proof (rinv_reach _ Hr) as RI.
  destruct (count_step picks x n RI Hn) as [E | (_ & Hpc & rest & Hdel)]; [congruence|].
  destruct RI as [(_ & D & _) _ _ HN _ HC]. split; [apply (nw_del _ _ _ HN Hpc)|].
  pose proof (di_dels _ _ D Hpc) as DD. rewrite Hdel in DD. inversion DD as [|a1 l1 H1 H2]. clear H2.
  destruct H1 as (cf & (id & ct & Hs & Hp) & Hb & Hw). simpl in *. rewrite HC in Hb. eauto 8.
Qed.

End Run.
