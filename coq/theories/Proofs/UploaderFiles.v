(* Proofs/UploaderFiles: every change a step can make to a file of local/.
   Handles are fresh file ids: a write goes to the file the writer itself
   created, which is still empty; so a name's (id, content) changes only by
   its removal, its exclusive creation (absent -> empty), or the single
   write of its creator (empty -> body). *)
From Coq Require Import List ZArith NArith Bool Lia Arith.
From Tele Require Import Lib.Bytes Lib.FS Model.Span Model.Uploader
  Proofs.FSFacts Proofs.UploaderBase Proofs.UploaderNames.
Import ListNotations.
Open Scope nat_scope.

(* handle and name of the file a thread is about to fill *)
Definition writing (t : thread) : option (nat * bytes) :=
  match t_pc t with
  | RWriteUp => Some (t_fd t, ready_name (t_week t))
  | RWriteLocal => Some (t_fd t, local_name (t_week t))
  | _ => None
  end.

Definition fd_inv (st : state) : Prop :=
  (forall id, In id (d_ids (f_local (s_fs st))) -> id < f_next (s_fs st)) /\
  (forall i t fd n, nth_error (s_ths st) i = Some t -> writing t = Some (fd, n) -> fd < f_next (s_fs st)) /\
  (forall i j ti tj fi ni fj nj, i <> j -> nth_error (s_ths st) i = Some ti -> nth_error (s_ths st) j = Some tj ->
     writing ti = Some (fi, ni) -> writing tj = Some (fj, nj) -> fi <> fj) /\
  (forall i t fd n m c, nth_error (s_ths st) i = Some t -> writing t = Some (fd, n) ->
     d_find (f_local (s_fs st)) m = Some (fd, c) -> m = n /\ c = CRep None).

Lemma writing_after f a t e t' fd n :
  decide_all f a t = (e, t') -> writing t' = Some (fd, n) ->
  (e = ENone /\ writing t = Some (fd, n)) \/
  (e = ECreateLocal n /\ fd = f_next f /\ d_mem (f_local f) n = false).
Proof.
  intros H. unfold writing.
  destruct a; dinv H; adv; simpl; intros Hw; pcrw; dmatch Hw; pcdiscr; auto;
    injection Hw as <- <-; auto.
Qed.

Lemma eff_writeid_writing f a t fd c t' :
  decide_all f a t = (EWriteId fd c, t') -> exists n, writing t = Some (fd, n) /\ writing t' = None.
Proof.
  intros H. destruct (eff_writeid _ _ _ _ _ _ H) as (-> & [(Hp & _ & ->) | (Hp & _ & ->)]);
    unfold writing; rewrite Hp; simpl.
  - eexists. split; reflexivity.
  - eexists. split; [reflexivity|]. unfold finish_week, start_del. simpl. destruct (t_files t); reflexivity.
Qed.

Lemma d_find_remove_some {C} (d : dir C) n m v : d_find (d_remove d n) m = Some v -> n <> m /\ d_find d m = Some v.
Proof.
  intros H. destruct (beq n m) eqn:E.
  - apply beq_eq in E. subst. rewrite d_find_remove_same in H. discriminate.
  - apply beq_neq in E. rewrite d_find_remove_other in H by exact E. auto.
Qed.

Lemma fd_inv_step st ia : fd_inv st -> fd_inv (step st ia).
Proof.
  intros (I1 & I2 & I3 & I4). destruct ia as [i a].
  destruct (step_cases st i a) as [-> | (t & e & t' & Hi & Hk & Hd & ->)];
    [exact (conj I1 (conj I2 (conj I3 I4)))|].
  pose proof (next_apply e (s_fs st) (s_log st)) as Hmono.
  split; [|split; [|split]]; simpl.
  - (* ids below the next id *)
    intros id. rewrite local_apply. destruct e; simpl; intros Hin;
      try (specialize (I1 _ Hin); lia).
    + apply d_ids_remove in Hin. specialize (I1 _ Hin). lia.
    + destruct Hin as [<- | Hin]; [lia|]. specialize (I1 _ Hin). lia.
    + rewrite d_ids_set_id in Hin. specialize (I1 _ Hin). lia.
  - (* handles below the next id *)
    intros j tj fd n Hj Hw. rewrite nth_error_upd in Hj. destruct (Nat.eqb i j) eqn:Eij.
    + rewrite Hi in Hj. injection Hj as <-.
      destruct (writing_after _ _ _ _ _ _ _ Hd Hw) as [[-> Hw0] | (-> & -> & _)].
      * simpl. eapply I2; eauto.
      * simpl. lia.
    + specialize (I2 _ _ _ _ Hj Hw). lia.
  - (* handles pairwise distinct *)
    intros j k tj tk fj nj fk nk Hjk Hj Hk' Hwj Hwk. rewrite nth_error_upd in Hj, Hk'.
    destruct (Nat.eqb i j) eqn:Eij; destruct (Nat.eqb i k) eqn:Eik.
    + apply Nat.eqb_eq in Eij, Eik. subst. contradiction.
    + rewrite Hi in Hj. injection Hj as <-. apply Nat.eqb_eq in Eij. subst j. apply Nat.eqb_neq in Eik.
      destruct (writing_after _ _ _ _ _ _ _ Hd Hwj) as [[_ Hw0] | (_ & -> & _)].
      * eapply (I3 i k); eauto.
      * specialize (I2 _ _ _ _ Hk' Hwk). lia.
    + rewrite Hi in Hk'. injection Hk' as <-. apply Nat.eqb_eq in Eik. subst k. apply Nat.eqb_neq in Eij.
      destruct (writing_after _ _ _ _ _ _ _ Hd Hwk) as [[_ Hw0] | (_ & -> & _)].
      * eapply (I3 j i); eauto.
      * specialize (I2 _ _ _ _ Hj Hwj). lia.
    + eapply (I3 j k); eauto.
  - (* the file behind a handle: the writer's own, still empty *)
    intros j tj fd n m c Hj Hw Hf.
    rewrite local_apply in Hf. rewrite nth_error_upd in Hj. destruct (Nat.eqb i j) eqn:Eij.
    + rewrite Hi in Hj. injection Hj as <-. apply Nat.eqb_eq in Eij. subst j.
      destruct (writing_after _ _ _ _ _ _ _ Hd Hw) as [[-> Hw0] | (-> & -> & Hm)].
      * simpl in Hf. eapply I4; eauto.
      * rewrite d_find_add in Hf. destruct (beq n m) eqn:E.
        -- apply beq_eq in E. injection Hf as <-. auto.
        -- apply d_find_id_in in Hf. specialize (I1 _ Hf). lia.
    + apply Nat.eqb_neq in Eij. destruct e; try (eapply I4; eauto; fail).
      * apply d_find_remove_some in Hf. destruct Hf as [_ Hf]. eapply I4; eauto.
      * rewrite d_find_add in Hf. destruct (beq n0 m) eqn:E; [|eapply I4; eauto].
        injection Hf as <- <-. specialize (I2 _ _ _ _ Hj Hw). lia.
      * destruct (eff_writeid_writing _ _ _ _ _ _ Hd) as (n1 & Hw1 & _).
        rewrite d_find_set_id in Hf.
        destruct (d_find (f_local (s_fs st)) m) as [[id cc0]|] eqn:Ef; [|discriminate].
        destruct (Nat.eqb id fd0) eqn:E.
        -- apply Nat.eqb_eq in E. subst id. injection Hf as -> _.
           exfalso. apply (I3 i j t tj fd n1 fd n); auto.
        -- injection Hf as -> ->. eapply I4; eauto.
Qed.

Lemma fd_inv_reach st : reach st -> fd_inv st.
Proof.
  induction 1.
  - destruct H as [H1 _]. split; [|split; [|split]]; [exact H1| | |].
    + intros i t fd n Hi Hw. destruct (init_threads _ _ _ _ Hi) as (k & c & ->). discriminate.
    + intros i j ti tj fi ni fj nj _ Hi _ Hw. destruct (init_threads _ _ _ _ Hi) as (k & c & ->). discriminate.
    + intros i t fd n m c Hi Hw. destruct (init_threads _ _ _ _ Hi) as (k & c' & ->). discriminate.
  - apply fd_inv_step. assumption.
  - destruct IHreach as (I1 & I2 & I3 & I4). split; [|split; [|split]]; [exact I1| | |].
    + intros i t fd n Hi Hw. destruct (spawn_threads _ _ _ _ Hi) as [Hi' | [_ ->]]; [eauto|discriminate].
    + intros i j ti tj fi ni fj nj Hij Hi Hj Hwi Hwj.
      destruct (spawn_threads _ _ _ _ Hi) as [Hi' | [_ ->]]; [|discriminate].
      destruct (spawn_threads _ _ _ _ Hj) as [Hj' | [_ ->]]; [|discriminate]. eauto.
    + intros i t fd n m cc Hi Hw. destruct (spawn_threads _ _ _ _ Hi) as [Hi' | [_ ->]]; [eauto|discriminate].
Qed.

(* ---------------------------------------------------------------- every change of one file *)
Theorem find_step st i a n :
  reach st ->
  let st' := step st (i, a) in
  d_find (f_local (s_fs st')) n = d_find (f_local (s_fs st)) n
  \/ (exists t t', nth_error (s_ths st) i = Some t /\ decide_all (s_fs st) a t = (ERemLocal n, t') /\
                   d_find (f_local (s_fs st')) n = None)
  \/ (exists t t', nth_error (s_ths st) i = Some t /\ decide_all (s_fs st) a t = (ECreateLocal n, t') /\
                   d_find (f_local (s_fs st)) n = None /\
                   d_find (f_local (s_fs st')) n = Some (f_next (s_fs st), CRep None))
  \/ (exists t t' fd c, nth_error (s_ths st) i = Some t /\ decide_all (s_fs st) a t = (EWriteId fd c, t') /\
                        writing t = Some (fd, n) /\
                        d_find (f_local (s_fs st)) n = Some (fd, CRep None) /\
                        d_find (f_local (s_fs st')) n = Some (fd, c)).
Proof.
  intros Hr. simpl.
  destruct (step_cases st i a) as [-> | (t & e & t' & Hi & Hk & Hd & ->)]; [auto|].
  destruct (fd_inv_reach _ Hr) as (I1 & I2 & I3 & I4).
  simpl. rewrite local_apply. destruct e; auto.
  - destruct (beq n0 n) eqn:E.
    + apply beq_eq in E. subst n0. right. left. exists t, t'. rewrite d_find_remove_same. auto.
    + apply beq_neq in E. left. apply d_find_remove_other. exact E.
  - destruct (beq n0 n) eqn:E.
    + apply beq_eq in E. subst n0. right. right. left. exists t, t'.
      rewrite d_find_add, beq_refl. destruct (eff_createlocal _ _ _ _ _ Hd) as [Hm _].
      unfold d_mem in Hm. destruct (d_find (f_local (s_fs st)) n); [discriminate|]. auto.
    + left. rewrite d_find_add, E. reflexivity.
  - rewrite d_find_set_id. destruct (d_find (f_local (s_fs st)) n) as [[id c0]|] eqn:Ef; auto.
    destruct (Nat.eqb id fd) eqn:E; auto.
    apply Nat.eqb_eq in E. subst id.
    destruct (eff_writeid_writing _ _ _ _ _ _ Hd) as (n1 & Hw1 & _).
    destruct (I4 _ _ _ _ _ _ Hi Hw1 Ef) as [-> ->].
    right. right. right. exists t, t', fd, c. auto.
Qed.
