(* Proofs about Model/Gating, part 2: the uploader run as a whole (where
   requests come from, mode off, modes other than on/off) and the counter
   package's Open/Add. *)
From Coq Require Import String.
From Coq Require Import List ZArith NArith Bool Lia.
From Tele Require Import Lib.Bytes Lib.Calendar Proofs.CalendarFacts Gen.Consts Model.Mode Model.Gating
  Proofs.ModeFacts Proofs.DateOrder Proofs.GatingFacts.
Import ListNotations.
Open Scope Z_scope.

Lemma filter_none {A} (p : A -> bool) l : (forall x, In x l -> p x = false) -> filter p l = [].
Proof.
  induction l as [|x l IH]; intros H; [reflexivity|]. cbn [filter].
  rewrite (H x (or_introl eq_refl)). apply IH. intros y Hy. apply H. right. exact Hy.
Qed.

Lemma filter_filter {A} (p q : A -> bool) l : filter q (filter p l) = filter (fun x => p x && q x) l.
Proof.
  induction l as [|x l IH]; [reflexivity|]. cbn [filter].
  destruct (p x); cbn [filter andb]; [destruct (q x)|]; rewrite IH; reflexivity.
Qed.

Lemma ready_report_not_on mode asof name : mode <> m_on -> ready_report mode asof name = false.
Proof.
  intros H. apply beq_neq in H. unfold ready_report. rewrite H, !andb_false_r. reflexivity.
Qed.

Definition is_post (e : effect) : bool := match e with EPost _ _ => true | _ => false end.

(* the effects a run may have when the mode is off *)
Definition off_allowed (e : effect) : bool :=
  match e with
  | EReadDirLocal | EReadMode | EReadCount _ | EReadDirUpload | EMkdirUpload => true
  | _ => false
  end.

Lemma off_allowed_are_reads e : off_allowed e = true ->
  e = EReadDirLocal \/ e = EReadMode \/ (exists n, e = EReadCount n) \/ e = EReadDirUpload \/ e = EMkdirUpload.
Proof.
  destruct e; intros H; try discriminate H; auto.
  right; right; left. eexists. reflexivity.
Qed.

Lemma forallb_map_const {A} (f : A -> effect) (p : effect -> bool) l :
  (forall x, p (f x) = true) -> forallb p (map f l) = true.
Proof. intros H. induction l as [|x l IH]; [reflexivity|]. cbn. rewrite H, IH. reflexivity. Qed.

Arguments rc_start {R}.
Arguments rc_x {R}.
Arguments rc_rate {R}.
Arguments rc_resp {R}.

Section RunFacts.
Variable R : Type.
Variable rlt : R -> R -> bool.
Variable rzero : R.

Notation upload_ok' := (upload_ok R rlt rzero).
Notation create_report' := (create_report R rlt rzero).
Notation reports_loop' := (reports_loop R rlt rzero).
Notation reports' := (reports R rlt rzero).
Notation run_ma' := (run_ma R rlt rzero).
Notation run' := (run R rlt rzero).
Notation runcfg' := (runcfg R).

(* ---- findWork ---- *)
Lemma find_work_no_post mode asof d start : forallb off_allowed (snd (fst (find_work mode asof d start))) = true.
Proof.
  unfold find_work. destruct (d_local d) as [l|]; [|reflexivity].
  destruct (d_upload d); cbn [fst snd app forallb off_allowed andb];
    rewrite forallb_app, forallb_map_const by reflexivity; reflexivity.
Qed.

Lemma find_work_dirs mode asof d start :
  let d' := snd (find_work mode asof d start) in
  d_local d' = d_local d /\
  (d_upload d' = d_upload d \/ (d_upload d = None /\ d_upload d' = Some [] /\ d_local d <> None)).
Proof.
  unfold find_work. destruct (d_local d) as [l|] eqn:L; [|cbn; auto].
  destruct (d_upload d) eqn:U; cbn [snd d_local d_upload]; split; auto.
  right. repeat split. discriminate.
Qed.

Lemma find_work_ready mode asof d start n :
  In n (w_ready (fst (fst (find_work mode asof d start)))) ->
  exists l f, d_local d = Some l /\ In f l /\ lf_name f = n /\ ready_report mode asof n = true.
Proof.
  unfold find_work. destruct (d_local d) as [l|]; [|intros []].
  destruct (d_upload d); cbn [fst w_ready]; intros H; apply in_map_iff in H as (f & <- & H);
    apply filter_In in H as [H1 H2]; exists l, f; auto.
Qed.

Lemma find_work_count mode asof d start :
  w_count (fst (fst (find_work mode asof d start))) =
  match d_local d with Some l => filter (collectable start) l | None => [] end.
Proof.
  unfold find_work. destruct (d_local d) as [l|]; [|reflexivity]. destruct (d_upload d); reflexivity.
Qed.

Lemma find_work_ready_not_on mode asof d start : mode <> m_on ->
  w_ready (fst (fst (find_work mode asof d start))) = [].
Proof.
  intros H. destruct (w_ready _) as [|n r] eqn:E; [reflexivity|].
  assert (I : In n (w_ready (fst (fst (find_work mode asof d start))))) by (rewrite E; left; reflexivity).
  apply find_work_ready in I as (l & f & _ & _ & _ & C). rewrite ready_report_not_on in C by exact H. discriminate.
Qed.

(* ---- createReport / reports ---- *)
Lemma create_report_name mode asof (cfg : runcfg') l g n e l' :
  create_report' mode asof cfg l g = (Some n, e, l') ->
  n = (g_exp g ++ json_suffix)%list /\
  upload_ok' mode asof (rc_start cfg) (g_exp g) (g_earliest g) (rc_x cfg (g_exp g)) (rc_rate cfg) = true /\
  existsb lf_counts (g_files g) = true.
Proof.
  unfold create_report. destruct (existsb lf_counts (g_files g)); cbn [negb]; [|discriminate].
  destruct (local_has l _); [discriminate|]. destruct (local_has l _); [discriminate|].
  destruct (upload_ok' _ _ _ _ _ _ _); [|discriminate].
  intros H. injection H as <- _ _. auto.
Qed.

Lemma create_report_no_post mode asof (cfg : runcfg') l g :
  forallb (fun e => negb (is_post e)) (snd (fst (create_report' mode asof cfg l g))) = true.
Proof.
  unfold create_report. destruct (negb _); [reflexivity|].
  destruct (local_has l _); [cbn [fst snd]; rewrite forallb_app, forallb_map_const by reflexivity; reflexivity|].
  destruct (local_has l _); [cbn [fst snd]; rewrite forallb_app, forallb_map_const by reflexivity; reflexivity|].
  cbn [fst snd]. rewrite !forallb_app, forallb_map_const by reflexivity.
  destruct (upload_ok' _ _ _ _ _ _ _); reflexivity.
Qed.

Lemma reports_loop_ready mode asof (cfg : runcfg') uploaded gs : forall l ready r e l',
  reports_loop' mode asof cfg uploaded gs l ready = (r, e, l') ->
  forall n, In n r ->
    In n ready \/
    exists g, In g gs /\ n = (g_exp g ++ json_suffix)%list /\
              upload_ok' mode asof (rc_start cfg) (g_exp g) (g_earliest g) (rc_x cfg (g_exp g)) (rc_rate cfg) = true /\
              existsb lf_counts (g_files g) = true.
Proof.
  induction gs as [|g gs IH]; intros l ready r e l' H n Hn; cbn [reports_loop] in H.
  - injection H as <- _ _. left. exact Hn.
  - destruct (not_needed _ _ _).
    + destruct (reports_loop' mode asof cfg uploaded gs _ ready) as [[r1 e1] l1] eqn:E.
      injection H as <- _ _. destruct (IH _ _ _ _ _ E n Hn) as [I|(g' & I & J)]; [left; exact I|].
      right. exists g'. split; [right; exact I | exact J].
    + destruct (create_report' mode asof cfg l g) as [[nm e1] l1] eqn:C.
      destruct (reports_loop' mode asof cfg uploaded gs l1 _) as [[r2 e2] l2] eqn:E.
      injection H as <- _ _. destruct (IH _ _ _ _ _ E n Hn) as [I|(g' & I & J)].
      * destruct nm as [nm|]; [|left; exact I].
        apply in_app_or in I as [I|[<-|[]]]; [left; exact I|].
        right. exists g. split; [left; reflexivity|]. eapply create_report_name. exact C.
      * right. exists g'. split; [right; exact I | exact J].
Qed.

Lemma reports_loop_no_post mode asof (cfg : runcfg') uploaded gs : forall l ready,
  forallb (fun e => negb (is_post e)) (snd (fst (reports_loop' mode asof cfg uploaded gs l ready))) = true.
Proof.
  induction gs as [|g gs IH]; intros l ready; cbn [reports_loop]; [reflexivity|].
  destruct (not_needed _ _ _).
  - specialize (IH (remove_all l (map lf_name (g_files g))) ready).
    destruct (reports_loop' _ _ _ _ gs _ ready) as [[r1 e1] l1]. cbn [fst snd] in *.
    rewrite forallb_app, forallb_map_const by reflexivity. exact IH.
  - pose proof (create_report_no_post mode asof cfg l g) as C.
    destruct (create_report' mode asof cfg l g) as [[nm e1] l1]. cbn [fst snd] in C.
    specialize (IH l1 (match nm with Some n => ready ++ [n] | None => ready end)%list).
    destruct (reports_loop' _ _ _ _ gs l1 _) as [[r2 e2] l2]. cbn [fst snd] in *.
    rewrite forallb_app, C. exact IH.
Qed.

Lemma reports_no_post mode asof (cfg : runcfg') d w :
  forallb (fun e => negb (is_post e)) (snd (fst (reports' mode asof cfg d w))) = true.
Proof.
  unfold reports. destruct (beq mode m_off); [reflexivity|]. destruct (d_local d) as [l|]; [|reflexivity].
  pose proof (reports_loop_no_post mode asof cfg (w_uploaded w) (groups_of (rc_start cfg) (w_count w)) l (w_ready w)) as H.
  destruct (reports_loop' _ _ _ _ _ _ _) as [[r e] l']. cbn [fst snd] in *. exact H.
Qed.

(* ---- the upload loop ---- *)
Lemma upload_one_post (cfg : runcfg') today nm d fd n :
  In (EPost fd n) (fst (upload_one R cfg today nm d)) ->
  n = nm /\ fd = last_n 10 (trim_suffix nm json_suffix) /\ future_report today nm = false.
Proof.
  unfold upload_one. destruct (future_report today nm) eqn:F; [intros []|].
  destruct (d_local d) as [l|]; [|cbn; intros [H|[]]; discriminate].
  destruct (negb (local_has l nm)); [cbn; intros [H|[]]; discriminate|].
  destruct (Nat.ltb _ _); [cbn; intros [H|[]]; discriminate|].
  destruct (d_upload d) as [u|]; [|cbn; intros [H|[]]; discriminate].
  destruct (names_has u _); [cbn; intros [H|[]]; discriminate|].
  destruct (names_has u _); [cbn; intros [H|[H|[H|[H|[H|[]]]]]]; discriminate|].
  destruct (Z.eqb _ 200); [|destruct (_ && _)]; cbn [fst snd app In];
    intros H; repeat (destruct H as [H|H]; try discriminate H); try contradiction;
    injection H as <- <-; auto.
Qed.

Lemma upload_all_post (cfg : runcfg') today ready : forall d fd n,
  In (EPost fd n) (fst (upload_all R cfg today ready d)) ->
  In n ready /\ fd = last_n 10 (trim_suffix n json_suffix) /\ future_report today n = false.
Proof.
  induction ready as [|r rest IH]; intros d fd n H; cbn [upload_all] in H; [destruct H|].
  pose proof (upload_one_post cfg today r d fd n) as P.
  destruct (upload_one R cfg today r d) as [e d1]. cbn [fst snd] in P.
  specialize (IH d1 fd n). destruct (upload_all R cfg today rest d1) as [e2 d2]. cbn [fst] in *.
  apply in_app_or in H as [H|H].
  - destruct (P H) as (-> & -> & F). split; [left; reflexivity | auto].
  - destruct (IH H) as (I & J). split; [right; exact I | exact J].
Qed.

Lemma not_post_in l fd n : forallb (fun e => negb (is_post e)) l = true -> ~ In (EPost fd n) l.
Proof. intros H I. rewrite forallb_forall in H. specialize (H _ I). discriminate. Qed.

Lemma off_allowed_no_post l : forallb off_allowed l = true -> forallb (fun e => negb (is_post e)) l = true.
Proof.
  rewrite !forallb_forall. intros H e I. specialize (H e I). destruct e; try reflexivity; discriminate.
Qed.

(* every request of a run: which report, why it was ready, not in the future *)
Theorem posts_justified mode asof (cfg : runcfg') d fd n :
  In (EPost fd n) (fst (run_ma' mode asof cfg d)) ->
  fd = last_n 10 (trim_suffix n json_suffix) /\
  future_report (today_of (rc_start cfg)) n = false /\
  exists l, d_local d = Some l /\
    ((exists f, In f l /\ lf_name f = n /\ ready_report mode asof n = true) \/
     (exists g, In g (groups_of (rc_start cfg) (filter (collectable (rc_start cfg)) l)) /\
                n = (g_exp g ++ json_suffix)%list /\
                upload_ok' mode asof (rc_start cfg) (g_exp g) (g_earliest g) (rc_x cfg (g_exp g)) (rc_rate cfg) = true /\
                existsb lf_counts (g_files g) = true)).
Proof.
  unfold run_ma.
  pose proof (find_work_no_post mode asof d (rc_start cfg)) as N1.
  pose proof (find_work_ready mode asof d (rc_start cfg)) as W1.
  pose proof (find_work_count mode asof d (rc_start cfg)) as W2.
  pose proof (find_work_dirs mode asof d (rc_start cfg)) as W3.
  destruct (find_work mode asof d (rc_start cfg)) as [[w e1] d1]. cbn [fst snd] in *.
  pose proof (reports_no_post mode asof cfg d1 w) as N2.
  unfold reports in *.
  destruct (beq mode m_off).
  - cbn [fst snd upload_all]. intros H. exfalso.
    apply in_app_or in H as [H|H]; [eapply not_post_in; [apply off_allowed_no_post; exact N1 | exact H]|].
    rewrite app_nil_r in H. destruct H as [H|[]]. discriminate.
  - destruct W3 as [L3 _]. destruct (d_local d1) as [l|] eqn:L1.
    + pose proof (reports_loop_ready mode asof cfg (w_uploaded w) (groups_of (rc_start cfg) (w_count w)) l (w_ready w)) as RL.
      destruct (reports_loop' _ _ _ _ _ _ _) as [[r e2] l2]. cbn [fst snd] in N2.
      specialize (RL _ _ _ eq_refl).
      pose proof (upload_all_post cfg (today_of (rc_start cfg)) r {| d_local := Some l2; d_upload := d_upload d1 |} fd n) as U.
      destruct (upload_all R cfg _ r _) as [e3 d3]. cbn [fst] in *.
      intros H. apply in_app_or in H as [H|H]; [exfalso; eapply not_post_in; [apply off_allowed_no_post; exact N1 | exact H]|].
      apply in_app_or in H as [H|H]; [exfalso; eapply not_post_in; [exact N2 | exact H]|].
      destruct (U H) as (I & -> & F). split; [reflexivity|]. split; [exact F|].
      exists l. split; [congruence|].
      destruct (RL n I) as [J|(g & G1 & G2)].
      * left. destruct (W1 n J) as (l0 & f & E & Hf). exists f. assert (l0 = l) by congruence. subst l0. exact Hf.
      * right. exists g. rewrite W2, <- L3 in G1. split; [exact G1 | exact G2].
    + pose proof (upload_all_post cfg (today_of (rc_start cfg)) (w_ready w) d1 fd n) as U.
      destruct (upload_all R cfg _ (w_ready w) d1) as [e3 d3]. cbn [fst snd] in *.
      intros H. apply in_app_or in H as [H|H]; [exfalso; eapply not_post_in; [apply off_allowed_no_post; exact N1 | exact H]|].
      destruct H as [H|H]; [discriminate|].
      destruct (U H) as (I & _). destruct (W1 n I) as (l0 & f & E & _). congruence.
Qed.

Theorem post_only_when_on mode asof (cfg : runcfg') d fd n :
  In (EPost fd n) (fst (run_ma' mode asof cfg d)) -> mode = m_on.
Proof.
  intros H. apply posts_justified in H as (_ & _ & l & _ & [(f & _ & _ & Rr)|(g & _ & _ & U & _)]).
  - apply ready_report_iff in Rr. tauto.
  - apply upload_ok_iff in U. tauto.
Qed.

(* ---- mode off ---- *)
Theorem off_run asof (cfg : runcfg') d :
  let '(e, d') := run_ma' m_off asof cfg d in
  forallb off_allowed e = true /\ d_local d' = d_local d /\
  (d_upload d' = d_upload d \/ (d_upload d = None /\ d_upload d' = Some [] /\ d_local d <> None)).
Proof.
  unfold run_ma.
  pose proof (find_work_no_post m_off asof d (rc_start cfg)) as N1.
  pose proof (find_work_dirs m_off asof d (rc_start cfg)) as W3.
  destruct (find_work m_off asof d (rc_start cfg)) as [[w e1] d1]. cbn [fst snd] in *.
  unfold reports. change (beq m_off m_off) with true. cbn [upload_all].
  rewrite forallb_app, N1. split; [reflexivity | exact W3].
Qed.

(* ---- any mode other than on / off behaves as local ---- *)
Lemma upload_ok_not_on mode asof start expiry earliest x rate : mode <> m_on ->
  upload_ok' mode asof start expiry earliest x rate = false.
Proof. intros H. apply beq_neq in H. unfold upload_ok. rewrite H. reflexivity. Qed.

Lemma create_report_not_on mode asof (cfg : runcfg') l g : mode <> m_on ->
  create_report' mode asof cfg l g = create_report' m_local None cfg l g.
Proof.
  intros H. unfold create_report. rewrite upload_ok_not_on by exact H.
  rewrite (upload_ok_not_on m_local) by discriminate. reflexivity.
Qed.

Lemma reports_loop_not_on mode asof (cfg : runcfg') uploaded gs : mode <> m_on -> forall l ready,
  reports_loop' mode asof cfg uploaded gs l ready = reports_loop' m_local None cfg uploaded gs l ready.
Proof.
  intros H. induction gs as [|g gs IH]; intros l ready; cbn [reports_loop]; [reflexivity|].
  destruct (not_needed _ _ _); [rewrite IH; reflexivity|].
  rewrite (create_report_not_on mode asof cfg l g H).
  destruct (create_report' m_local None cfg l g) as [[nm e1] l1]. rewrite IH. reflexivity.
Qed.

Lemma find_work_not_on mode asof d start : mode <> m_on ->
  find_work mode asof d start = find_work m_local None d start.
Proof.
  intros H. unfold find_work. destruct (d_local d) as [l|]; [|reflexivity].
  rewrite (filter_none (fun f => ready_report mode asof (lf_name f))) by (intros; apply ready_report_not_on; exact H).
  rewrite (filter_none (fun f => ready_report m_local None (lf_name f))) by (intros; apply ready_report_not_on; discriminate).
  reflexivity.
Qed.

Theorem other_is_local_run mode asof (cfg : runcfg') d : mode <> m_on -> mode <> m_off ->
  run_ma' mode asof cfg d = run_ma' m_local None cfg d.
Proof.
  intros H1 H2. unfold run_ma. rewrite (find_work_not_on mode asof d _ H1).
  destruct (find_work m_local None d (rc_start cfg)) as [[w e1] d1].
  unfold reports. apply beq_neq in H2. rewrite H2. change (beq m_local m_off) with false.
  destruct (d_local d1) as [l|]; [|reflexivity].
  rewrite (reports_loop_not_on mode asof cfg (w_uploaded w) _ H1). reflexivity.
Qed.

(* in such a mode the report of a week is built as a local report only *)
Theorem local_builds_local_report mode asof (cfg : runcfg') l g : mode <> m_on ->
  existsb lf_counts (g_files g) = true ->
  local_has l (local_prefix ++ g_exp g ++ json_suffix) = false ->
  local_has l (g_exp g ++ json_suffix) = false ->
  let '(nm, e, l') := create_report' mode asof cfg l g in
  nm = None /\ In (ECreateLocal (local_prefix ++ g_exp g ++ json_suffix)) e /\
  ~ In (ECreateLocal (g_exp g ++ json_suffix)) e /\
  (forall f, In f (g_files g) -> In (ERemoveLocal (lf_name f)) e).
Proof.
  intros H C L1 L2. unfold create_report. rewrite upload_ok_not_on by exact H.
  rewrite C, L1, L2. cbn [negb app]. split; [reflexivity|]. split; [right; right; right; left; reflexivity|]. split.
  - intros [I|[I|[I|[I|I]]]]; try discriminate.
    + injection I as I. apply (f_equal (@length N)) in I. rewrite !app_length in I.
      cbn [length] in I. rewrite app_length in I. lia.
    + apply in_map_iff in I as (x & I & _). discriminate.
  - intros f I. right; right; right; right. apply in_map_iff. exists (lf_name f). split; [reflexivity|].
    apply in_map. exact I.
Qed.

(* ---- the sample rate matters only in mode on ---- *)
Lemma create_report_rate_not_on mode asof (cfg : runcfg') r l g : mode <> m_on ->
  create_report' mode asof (with_rate R cfg r) l g = create_report' mode asof cfg l g.
Proof.
  intros H. unfold create_report. rewrite !upload_ok_not_on by exact H. reflexivity.
Qed.

Lemma reports_loop_rate_not_on mode asof (cfg : runcfg') r uploaded gs : mode <> m_on -> forall l ready,
  reports_loop' mode asof (with_rate R cfg r) uploaded gs l ready = reports_loop' mode asof cfg uploaded gs l ready.
Proof.
  intros H. induction gs as [|g gs IH]; intros l ready; cbn [reports_loop]; [reflexivity|].
  destruct (not_needed _ _ _); [rewrite IH; reflexivity|].
  rewrite (create_report_rate_not_on mode asof cfg r l g H).
  destruct (create_report' mode asof cfg l g) as [[nm e1] l1]. rewrite IH. reflexivity.
Qed.

Lemma upload_one_rate (cfg : runcfg') r today x d :
  upload_one R (with_rate R cfg r) today x d = upload_one R cfg today x d.
Proof. reflexivity. Qed.

Lemma upload_all_rate (cfg : runcfg') r today ready : forall d,
  upload_all R (with_rate R cfg r) today ready d = upload_all R cfg today ready d.
Proof.
  induction ready as [|x rest IH]; intros d; cbn [upload_all]; [reflexivity|].
  rewrite upload_one_rate. destruct (upload_one R cfg today x d) as [e d1]. rewrite IH. reflexivity.
Qed.

Theorem rate_irrelevant_not_on mode asof (cfg : runcfg') r d : mode <> m_on ->
  run_ma' mode asof (with_rate R cfg r) d = run_ma' mode asof cfg d.
Proof.
  intros H. unfold run_ma. change (rc_start (with_rate R cfg r)) with (rc_start cfg).
  destruct (find_work mode asof d (rc_start cfg)) as [[w e1] d1].
  unfold reports. change (rc_start (with_rate R cfg r)) with (rc_start cfg).
  destruct (beq mode m_off); [rewrite upload_all_rate; reflexivity|].
  destruct (d_local d1) as [l|].
  - rewrite (reports_loop_rate_not_on mode asof cfg r (w_uploaded w) (groups_of (rc_start cfg) (w_count w)) H l (w_ready w)).
    destruct (reports_loop' _ _ _ _ _ _ _) as [[rd e2] l2]. rewrite upload_all_rate. reflexivity.
  - rewrite upload_all_rate. reflexivity.
Qed.

(* upload.Run = the run with the PUBLISHED sample rate, whatever the mode: in
   mode on it is the downloaded one, elsewhere the rate has no influence *)
Theorem run_entry_is_run published (cfg : runcfg') fs :
  run_entry R rlt rzero published cfg fs = run' (with_rate R cfg published) fs.
Proof.
  unfold run_entry. destruct (beq (mode_of (fs_mode fs)) m_on) eqn:E; [reflexivity|].
  apply beq_neq in E. unfold run.
  rewrite (rate_irrelevant_not_on _ _ cfg rzero (dirs_of fs) E).
  rewrite (rate_irrelevant_not_on _ _ cfg published (dirs_of fs) E). reflexivity.
Qed.

(* ---- the uploader has none of the counter package's effects ---- *)
Definition not_counter (e : effect) : bool :=
  match e with ECounterFile | ECounterAdd => false | _ => true end.

Lemma off_allowed_not_counter l : forallb off_allowed l = true -> forallb not_counter l = true.
Proof.
  rewrite !forallb_forall. intros H e I. specialize (H e I). destruct e; try reflexivity; discriminate.
Qed.

Lemma create_report_not_counter mode asof (cfg : runcfg') l g :
  forallb not_counter (snd (fst (create_report' mode asof cfg l g))) = true.
Proof.
  unfold create_report. destruct (negb _); [reflexivity|].
  destruct (local_has l _); [cbn [fst snd]; rewrite forallb_app, forallb_map_const by reflexivity; reflexivity|].
  destruct (local_has l _); [cbn [fst snd]; rewrite forallb_app, forallb_map_const by reflexivity; reflexivity|].
  cbn [fst snd]. rewrite !forallb_app, forallb_map_const by reflexivity.
  destruct (upload_ok' _ _ _ _ _ _ _); reflexivity.
Qed.

Lemma reports_loop_not_counter mode asof (cfg : runcfg') uploaded gs : forall l ready,
  forallb not_counter (snd (fst (reports_loop' mode asof cfg uploaded gs l ready))) = true.
Proof.
  induction gs as [|g gs IH]; intros l ready; cbn [reports_loop]; [reflexivity|].
  destruct (not_needed _ _ _).
  - specialize (IH (remove_all l (map lf_name (g_files g))) ready).
    destruct (reports_loop' _ _ _ _ gs _ ready) as [[r1 e1] l1]. cbn [fst snd] in *.
    rewrite forallb_app, forallb_map_const by reflexivity. exact IH.
  - pose proof (create_report_not_counter mode asof cfg l g) as C.
    destruct (create_report' mode asof cfg l g) as [[nm e1] l1]. cbn [fst snd] in C.
    specialize (IH l1 (match nm with Some n => ready ++ [n] | None => ready end)%list).
    destruct (reports_loop' _ _ _ _ gs l1 _) as [[r2 e2] l2]. cbn [fst snd] in *.
    rewrite forallb_app, C. exact IH.
Qed.

Lemma upload_one_not_counter (cfg : runcfg') today nm d :
  forallb not_counter (fst (upload_one R cfg today nm d)) = true.
Proof.
  unfold upload_one. destruct (future_report today nm); [reflexivity|].
  destruct (d_local d) as [l|]; [|reflexivity].
  destruct (negb (local_has l nm)); [reflexivity|].
  destruct (Nat.ltb _ _); [reflexivity|].
  destruct (d_upload d) as [u|]; [|reflexivity].
  destruct (names_has u _); [reflexivity|].
  destruct (names_has u _); [reflexivity|].
  destruct (Z.eqb _ 200); [reflexivity|]. destruct (_ && _); reflexivity.
Qed.

Lemma upload_all_not_counter (cfg : runcfg') today ready : forall d,
  forallb not_counter (fst (upload_all R cfg today ready d)) = true.
Proof.
  induction ready as [|r rest IH]; intros d; cbn [upload_all]; [reflexivity|].
  pose proof (upload_one_not_counter cfg today r d) as P.
  destruct (upload_one R cfg today r d) as [e d1]. cbn [fst] in P. specialize (IH d1).
  destruct (upload_all R cfg today rest d1) as [e2 d2]. cbn [fst] in *. rewrite forallb_app, P, IH. reflexivity.
Qed.

Lemma run_no_counter_effects mode asof (cfg : runcfg') d :
  forallb not_counter (fst (run_ma' mode asof cfg d)) = true.
Proof.
  unfold run_ma.
  pose proof (find_work_no_post mode asof d (rc_start cfg)) as N1. apply off_allowed_not_counter in N1.
  destruct (find_work mode asof d (rc_start cfg)) as [[w e1] d1]. cbn [fst snd] in N1.
  unfold reports. destruct (beq mode m_off).
  - cbn [upload_all fst]. rewrite !forallb_app, N1. reflexivity.
  - destruct (d_local d1) as [l|].
    + pose proof (reports_loop_not_counter mode asof cfg (w_uploaded w) (groups_of (rc_start cfg) (w_count w)) l (w_ready w)) as N2.
      destruct (reports_loop' _ _ _ _ _ _ _) as [[r e2] l2]. cbn [fst snd] in N2.
      pose proof (upload_all_not_counter cfg (today_of (rc_start cfg)) r {| d_local := Some l2; d_upload := d_upload d1 |}) as N3.
      destruct (upload_all R cfg _ r _) as [e3 d3]. cbn [fst] in *.
      rewrite !forallb_app, N1, N3. cbn [forallb not_counter]. rewrite N2. reflexivity.
    + pose proof (upload_all_not_counter cfg (today_of (rc_start cfg)) (w_ready w) d1) as N3.
      destruct (upload_all R cfg _ (w_ready w) d1) as [e3 d3]. cbn [fst] in *.
      rewrite !forallb_app, N1, N3. reflexivity.
Qed.

(* ---- which files a run removes ---- *)
Lemma off_allowed_no_remove l n : forallb off_allowed l = true -> ~ In (ERemoveLocal n) l.
Proof. intros H I. rewrite forallb_forall in H. specialize (H _ I). discriminate. Qed.

Lemma create_report_removes mode asof (cfg : runcfg') l g n :
  In (ERemoveLocal n) (snd (fst (create_report' mode asof cfg l g))) -> In n (map lf_name (g_files g)).
Proof.
  unfold create_report. destruct (negb _); [cbn; intros [H|[]]; discriminate|].
  assert (M : forall pre, (forall x, In x pre -> x <> ERemoveLocal n) ->
              In (ERemoveLocal n) (pre ++ map ERemoveLocal (map lf_name (g_files g))) -> In n (map lf_name (g_files g))).
  { intros pre Hp H. apply in_app_or in H as [H|H]; [exfalso; exact (Hp _ H eq_refl)|].
    apply in_map_iff in H as (x & E & I). injection E as <-. exact I. }
  destruct (local_has l _).
  { cbn [fst snd]. apply M. intros x [<-|[<-|[]]]; discriminate. }
  destruct (local_has l _).
  { cbn [fst snd]. apply M. intros x [<-|[<-|[<-|[]]]]; discriminate. }
  cbn [fst snd]. rewrite !app_assoc. apply M. intros x H.
  repeat (apply in_app_or in H as [H|H]);
    try (destruct (upload_ok' _ _ _ _ _ _ _)); cbn in H;
    repeat (destruct H as [H|H]; try (subst x; discriminate)); try contradiction.
Qed.

Lemma reports_loop_removes mode asof (cfg : runcfg') uploaded gs : forall l ready n,
  In (ERemoveLocal n) (snd (fst (reports_loop' mode asof cfg uploaded gs l ready))) ->
  exists g, In g gs /\ In n (map lf_name (g_files g)).
Proof.
  induction gs as [|g gs IH]; intros l ready n; cbn [reports_loop]; [intros []|].
  destruct (not_needed _ _ _).
  - specialize (IH (remove_all l (map lf_name (g_files g))) ready n).
    destruct (reports_loop' _ _ _ _ gs _ ready) as [[r1 e1] l1]. cbn [fst snd] in *.
    intros H. apply in_app_or in H as [H|H].
    + apply in_map_iff in H as (x & E & I). injection E as <-. exists g. split; [left; reflexivity | exact I].
    + destruct (IH H) as (g' & I & J). exists g'. split; [right; exact I | exact J].
  - pose proof (create_report_removes mode asof cfg l g n) as C.
    destruct (create_report' mode asof cfg l g) as [[nm e1] l1]. cbn [fst snd] in C.
    specialize (IH l1 (match nm with Some x => ready ++ [x] | None => ready end)%list n).
    destruct (reports_loop' _ _ _ _ gs l1 _) as [[r2 e2] l2]. cbn [fst snd] in *.
    intros H. apply in_app_or in H as [H|H].
    + exists g. split; [left; reflexivity | apply C; exact H].
    + destruct (IH H) as (g' & I & J). exists g'. split; [right; exact I | exact J].
Qed.

Lemma upload_one_removes (cfg : runcfg') today nm d n :
  In (ERemoveLocal n) (fst (upload_one R cfg today nm d)) -> n = nm.
Proof.
  unfold upload_one. destruct (future_report today nm); [intros []|].
  destruct (d_local d) as [l|]; [|cbn; intros [H|[]]; discriminate].
  destruct (negb (local_has l nm)); [cbn; intros [H|[]]; discriminate|].
  destruct (Nat.ltb _ _); [cbn; intros [H|[]]; discriminate|].
  destruct (d_upload d) as [u|]; [|cbn; intros [H|[]]; discriminate].
  destruct (names_has u _); [cbn; intros [H|[]]; discriminate|].
  destruct (names_has u _).
  { cbn. intros H. repeat (destruct H as [H|H]; try discriminate H); try contradiction. injection H as <-. reflexivity. }
  destruct (Z.eqb _ 200); [|destruct (_ && _)]; cbn [fst snd app In];
    intros H; repeat (destruct H as [H|H]; try discriminate H); try contradiction;
    injection H as <-; reflexivity.
Qed.

Lemma upload_all_removes (cfg : runcfg') today ready : forall d n,
  In (ERemoveLocal n) (fst (upload_all R cfg today ready d)) -> In n ready.
Proof.
  induction ready as [|r rest IH]; intros d n H; cbn [upload_all] in H; [destruct H|].
  pose proof (upload_one_removes cfg today r d n) as P.
  destruct (upload_one R cfg today r d) as [e d1]. cbn [fst] in P.
  specialize (IH d1 n). destruct (upload_all R cfg today rest d1) as [e2 d2]. cbn [fst] in *.
  apply in_app_or in H as [H|H]; [left; symmetry; apply P; exact H | right; apply IH; exact H].
Qed.

Lemma has_suffix_self_app w s : has_suffix (w ++ s) s = true.
Proof. apply has_suffix_app. exists w. reflexivity. Qed.

(* a run removes only count files it collected (parsable begin and end, ended
   before the start) and reports (names ending in .json) *)
Theorem removes_justified mode asof (cfg : runcfg') d n :
  In (ERemoveLocal n) (fst (run_ma' mode asof cfg d)) ->
  exists l, d_local d = Some l /\
    ((exists f, In f l /\ lf_name f = n /\ collectable (rc_start cfg) f = true) \/
     has_suffix n json_suffix = true).
Proof.
  unfold run_ma.
  pose proof (find_work_no_post mode asof d (rc_start cfg)) as N1.
  pose proof (find_work_ready mode asof d (rc_start cfg)) as W1.
  pose proof (find_work_count mode asof d (rc_start cfg)) as W2.
  pose proof (find_work_dirs mode asof d (rc_start cfg)) as W3.
  destruct (find_work mode asof d (rc_start cfg)) as [[w e1] d1]. cbn [fst snd] in *.
  destruct W3 as [L3 _]. unfold reports.
  assert (RJ : forall m, In m (w_ready w) -> has_suffix m json_suffix = true).
  { intros m I. destruct (W1 m I) as (l0 & f & _ & _ & _ & Rr). apply ready_report_iff in Rr. tauto. }
  destruct (beq mode m_off).
  - cbn [upload_all fst]. intros H. exfalso.
    apply in_app_or in H as [H|H]; [eapply off_allowed_no_remove; [exact N1 | exact H]|].
    cbn in H. destruct H as [H|[]]. discriminate.
  - destruct (d_local d1) as [l|] eqn:L1.
    + pose proof (reports_loop_removes mode asof cfg (w_uploaded w) (groups_of (rc_start cfg) (w_count w)) l (w_ready w) n) as RL.
      pose proof (reports_loop_ready mode asof cfg (w_uploaded w) (groups_of (rc_start cfg) (w_count w)) l (w_ready w)) as RR.
      destruct (reports_loop' _ _ _ _ _ _ _) as [[r e2] l2]. cbn [fst snd] in RL. specialize (RR _ _ _ eq_refl).
      pose proof (upload_all_removes cfg (today_of (rc_start cfg)) r {| d_local := Some l2; d_upload := d_upload d1 |} n) as U.
      destruct (upload_all R cfg _ r _) as [e3 d3]. cbn [fst] in *.
      intros H. exists l. split; [congruence|].
      apply in_app_or in H as [H|H]; [exfalso; eapply off_allowed_no_remove; [exact N1 | exact H]|].
      apply in_app_or in H as [H|H].
      * destruct H as [H|H]; [discriminate|]. destruct (RL H) as (g & G1 & G2). left.
        apply in_map_iff in G2 as (f & Nf & If). rewrite W2, <- L3 in G1.
        unfold groups_of in G1. apply in_map_iff in G1 as (wk & <- & _). cbn [g_files group_of] in If.
        apply filter_In in If as [If _]. apply filter_In in If as [If Cf]. exists f. auto.
      * right. destruct (RR n (U H)) as [I|(g & _ & -> & _)]; [apply RJ; exact I | apply has_suffix_self_app].
    + pose proof (upload_all_removes cfg (today_of (rc_start cfg)) (w_ready w) d1 n) as U.
      destruct (upload_all R cfg _ (w_ready w) d1) as [e3 d3]. cbn [fst] in *.
      intros H. exfalso. apply in_app_or in H as [H|H]; [eapply off_allowed_no_remove; [exact N1 | exact H]|].
      destruct H as [H|H]; [discriminate|].
      destruct (W1 n (U H)) as (l0 & f & E & _). congruence.
Qed.

Lemma in_removed_names e n : In n (removed_names e) <-> In (ERemoveLocal n) e.
Proof.
  unfold removed_names. rewrite in_flat_map. split.
  - intros (x & I & H). destruct x; cbn in H; try contradiction. destruct H as [<-|[]]. exact I.
  - intros I. exists (ERemoveLocal n). split; [exact I | left; reflexivity].
Qed.

(* the oracle on the model: a count file whose span is unknown is never removed,
   so it never contributes to anything uploadable *)
Theorem unknown_begin_ok_model mode asof recorded (cfg : runcfg') d (damaged : list (bytes * Z)) :
  (forall ne, In ne damaged -> has_suffix (fst ne) json_suffix = false /\
     forall l f, d_local d = Some l -> In f l -> lf_name f = fst ne -> lf_span f = None) ->
  let e := fst (run_ma' mode asof cfg d) in
  spec_unknown_begin_ok recorded damaged (removed_names e) (uploadable_weeks e) = true.
Proof.
  intros Hd. cbv zeta. unfold spec_unknown_begin_ok. destruct recorded; [|reflexivity]. apply forallb_forall. intros ne I.
  destruct (Hd ne I) as [NJ NS]. apply negb_true_iff. apply andb_false_iff. left.
  unfold names_has. destruct (existsb (beq (fst ne)) (removed_names _)) eqn:E; [|reflexivity].
  exfalso. apply existsb_exists in E as (x & Ix & Ex). apply beq_eq in Ex. subst x.
  apply in_removed_names in Ix. apply removes_justified in Ix as (l & L & [(f & If & Nf & Cf)|J]).
  - specialize (NS l f L If Nf). unfold collectable in Cf. rewrite NS in Cf. rewrite andb_false_r in Cf. discriminate.
  - congruence.
Qed.

(* ---- Open / Add / Run / rotation sequences with the mode off ---- *)
(* every mode-file change inside the sequence writes a file that reads off *)
Definition keeps_off (o : op R) : Prop :=
  match o with OpSetMode _ f => mode_of f = m_off | _ => True end.

Lemma off_step (o : op R) fs p : mode_of (fs_mode fs) = m_off -> p <> PMapped -> keeps_off o ->
  let '(e1, (fs1, p1)) := step R rlt rzero o (fs, p) in
  forallb off_allowed e1 = true /\ mode_of (fs_mode fs1) = m_off /\
  (fs_mode fs1 = fs_mode fs \/ exists f, o = OpSetMode R f) /\ fs_local fs1 = fs_local fs /\
  (fs_upload fs1 = fs_upload fs \/ (fs_upload fs = None /\ fs_upload fs1 = Some [])) /\ p1 <> PMapped.
Proof.
  intros M P K. destruct o as [| |cfg|expired|f]; cbn [step].
  - destruct p; [rewrite M; change (beq m_off m_off) with true| |contradiction];
      repeat split; auto; discriminate.
  - destruct p; [| |contradiction]; repeat split; auto.
  - unfold run. rewrite M. pose proof (off_run (asof_of (fs_mode fs)) cfg (dirs_of fs)) as O.
    destruct (run_ma' m_off _ cfg (dirs_of fs)) as [e d']. destruct O as (O1 & O2 & O3).
    cbn [fs_mode fs_local fs_upload dirs_of d_local d_upload] in *.
    repeat split; auto. destruct O3 as [O3|(O3 & O4 & _)]; auto.
  - unfold rotate1_step. destruct p; [rewrite M; change (beq m_off m_off) with true| |contradiction];
      repeat split; auto; discriminate.
  - cbn [keeps_off] in K. cbn [fs_mode fs_local fs_upload]. repeat split; auto. right. eexists. reflexivity.
Qed.

Theorem off_is_inert_exec (ops : list (op R)) : forall fs p, mode_of (fs_mode fs) = m_off -> p <> PMapped ->
  Forall keeps_off ops ->
  let '(e, (fs', p')) := exec R rlt rzero ops (fs, p) in
  forallb off_allowed e = true /\ mode_of (fs_mode fs') = m_off /\ fs_local fs' = fs_local fs /\
  (fs_upload fs' = fs_upload fs \/ (fs_upload fs = None /\ fs_upload fs' = Some [])) /\ p' <> PMapped.
Proof.
  induction ops as [|o ops IH]; intros fs p M P K; cbn [exec].
  - repeat split; auto.
  - inversion K as [|? ? K1 K2]; subst.
    pose proof (off_step o fs p M P K1) as S.
    destruct (step R rlt rzero o (fs, p)) as [e1 [fs1 p1]]. destruct S as (S1 & S2 & _ & S3 & S4 & S5).
    specialize (IH fs1 p1 S2 S5 K2).
    destruct (exec R rlt rzero ops (fs1, p1)) as [e2 [fs2 p2]]. destruct IH as (I1 & I2 & I3 & I4 & I5).
    rewrite forallb_app, S1, I1. repeat split; try congruence.
    destruct S4 as [S4|[S4 S4']], I4 as [I4|[I4 I4']]; [left; congruence | right; split; congruence | right; split; congruence | congruence].
Qed.

(* rotation is gated by the mode read AT that rotation: whatever the process
   state (in particular with a file mapped since the mode was on or local), a
   rotate1 under mode off creates nothing and leaves the process without a
   mapping; by off_is_inert_exec nothing is recorded from then on *)
Theorem rotation_under_off expired fs p : mode_of (fs_mode fs) = m_off ->
  let '(e, (fs', p')) := step R rlt rzero (OpRotate R expired) (fs, p) in
  forallb off_allowed e = true /\ fs' = fs /\ p' <> PMapped.
Proof.
  intros M. cbn [step]. unfold rotate1_step. destruct p; rewrite ?M; change (beq m_off m_off) with true;
    repeat split; auto; discriminate.
Qed.

Theorem off_from_rotation_on expired (ops : list (op R)) fs p : mode_of (fs_mode fs) = m_off ->
  Forall keeps_off ops ->
  let '(e, (fs', p')) := exec R rlt rzero (OpRotate R expired :: ops) (fs, p) in
  forallb off_allowed e = true /\ mode_of (fs_mode fs') = m_off /\ fs_local fs' = fs_local fs /\
  (fs_upload fs' = fs_upload fs \/ (fs_upload fs = None /\ fs_upload fs' = Some [])) /\ p' <> PMapped.
Proof.
  intros M K. cbn [exec]. pose proof (rotation_under_off expired fs p M) as S.
  destruct (step R rlt rzero (OpRotate R expired) (fs, p)) as [e1 [fs1 p1]]. destruct S as (S1 & -> & S3).
  pose proof (off_is_inert_exec ops fs p1 M S3 K) as I.
  destruct (exec R rlt rzero ops (fs, p1)) as [e2 [fs2 p2]]. destruct I as (I1 & I2).
  rewrite forallb_app, S1, I1. split; [reflexivity | exact I2].
Qed.

(* the counter package changes a count file only through a mapping, and it
   gets or keeps a mapping only at a step that read a mode other than off *)
Theorem mapping_needs_mode_not_off (o : op R) fs p :
  let '(e, (fs', p')) := step R rlt rzero o (fs, p) in
  (In ECounterFile e -> mode_of (fs_mode fs) <> m_off) /\
  (In ECounterAdd e -> p = PMapped).
Proof.
  destruct o as [| |cfg|expired|f]; cbn [step].
  - destruct p; [destruct (beq (mode_of (fs_mode fs)) m_off) eqn:E| |]; split; cbn; intros H;
      repeat (destruct H as [H|H]; try discriminate H); try contradiction.
    apply beq_neq. exact E.
  - destruct p; split; cbn; intros H; repeat (destruct H as [H|H]; try discriminate H); try contradiction; reflexivity.
  - unfold run. pose proof (run_no_counter_effects (mode_of (fs_mode fs)) (asof_of (fs_mode fs)) cfg (dirs_of fs)) as N.
    destruct (run_ma' _ _ cfg (dirs_of fs)) as [e d']. cbn [fst] in N. rewrite forallb_forall in N.
    split; intros H; specialize (N _ H); discriminate.
  - unfold rotate1_step. destruct p; [destruct (beq (mode_of (fs_mode fs)) m_off) eqn:E| |destruct (beq (mode_of (fs_mode fs)) m_off) eqn:E; [|destruct expired]];
      split; cbn; intros H; repeat (destruct H as [H|H]; try discriminate H); try contradiction;
      apply beq_neq; exact E.
  - split; intros [].
Qed.

End RunFacts.
