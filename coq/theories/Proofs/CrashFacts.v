(* Proofs/CrashFacts: lemmas about Model/Crash (property C14).
   Main result: the one-pass parser factors through the projection:
     parse_stack_pcs child crash = finish_pcs child <$> view crash
     counter_name symb child crash = finish symb child (view crash). *)
From Coq Require Import List NArith ZArith Bool Lia.
From Tele Require Import Lib.Bytes Lib.Digits Gen.Consts Model.Stack Model.Crash Proofs.StackFacts.
Import ListNotations.
Open Scope N_scope.

(* ------------------------------------------------------------ phase 3 helpers *)

(* frames_of seen from a location line: s_sig = is the symbol of this frame
   sigpanic, prev_sig = was the previous frame with a pc sigpanic *)
Definition frames_loc (s_sig prev_sig : bool) (body : list bytes) : option (list (N * bool)) :=
  match body with
  | [] => Some []
  | loc :: rest' =>
      match get_pc loc with
      | None => frames_of prev_sig rest'
      | Some pc =>
          match frames_of s_sig rest' with
          | Some fs => Some ((pc, prev_sig) :: fs)
          | None => None
          end
      end
  end.

Lemma frames_of_cons p sym rest :
  frames_of p (sym :: rest) =
  match get_symbol sym with
  | None => None
  | Some s => frames_loc (is_sigpanic s) p rest
  end.
Proof. destruct rest; reflexivity. Qed.

Definition lift (child s : N) (o : option (list (N * bool))) : result (list N) :=
  match o with
  | None => Err
  | Some fs => Ok (map (fun f => relocate child s (fst f) (snd f)) fs)
  end.

Lemma is_terminator_split l :
  is_terminator l = is_blank l || has_prefix l lit_created_by.
Proof. reflexivity. Qed.

(* ------------------------------------------------------------ the loop inside the goroutine *)

Lemma loop_on child s lines : s <> 0 ->
  (forall curr prev,
     parse_loop child s true true curr prev lines =
     lift child s (frames_of (is_sigpanic prev) (body_of lines))) /\
  (forall curr prev,
     parse_loop child s true false curr prev lines =
     lift child s (frames_loc (is_sigpanic curr) (is_sigpanic prev) (body_of lines))).
Proof.
  intro Hs. assert (Hz : (s =? 0) = false) by (apply N.eqb_neq; exact Hs).
  induction lines as [|l ls [IH1 IH2]].
  - split; intros; reflexivity.
  - split; intros curr prev; cbn [parse_loop body_of]; rewrite Hz; cbn [andb negb];
      unfold is_terminator; destruct (is_blank l); cbn [orb]; try reflexivity;
      destruct (has_prefix l lit_created_by); try reflexivity.
    + rewrite frames_of_cons. destruct (get_symbol l) as [sym|]; [|reflexivity].
      rewrite IH2. reflexivity.
    + cbn [frames_loc]. destruct (get_pc l) as [pc|].
      * rewrite IH1. destruct (frames_of (is_sigpanic curr) (body_of ls)); reflexivity.
      * rewrite IH1. reflexivity.
Qed.

(* ------------------------------------------------------------ the loop before the goroutine *)

Lemma loop_off child lines : forall sent symline curr prev,
  parse_loop child sent false symline curr prev lines =
  match preamble sent lines with
  | PErr => Err
  | PNoRun _ => Ok []
  | PRun s after => parse_loop child s true symline curr prev after
  end.
Proof.
  induction lines as [|l ls IH]; intros sent symline curr prev; [reflexivity|].
  cbn [parse_loop preamble].
  destruct ((sent =? 0) && has_prefix l lit_sentinel_sp).
  - destruct (scan_sentinel l) as [v|]; [apply IH|reflexivity].
  - cbn [negb]. destruct (is_header l).
    + destruct (sent =? 0); reflexivity.
    + apply IH.
Qed.

Lemma preamble_run_nonzero lines : forall sent s after, preamble sent lines = PRun s after -> s <> 0.
Proof.
  induction lines as [|l ls IH]; intros sent s after H; cbn [preamble] in H; [discriminate|].
  destruct ((sent =? 0) && has_prefix l lit_sentinel_sp).
  - destruct (scan_sentinel l) as [v|]; [eapply IH; exact H|discriminate].
  - destruct (is_header l).
    + destruct (N.eqb_spec sent 0); [discriminate|]. injection H as <- _. assumption.
    + eapply IH; exact H.
Qed.

Lemma is_sigpanic_nil : is_sigpanic [] = false.
Proof. reflexivity. Qed.

(* ------------------------------------------------------------ factorisation *)

Lemma parse_lines_factor child lines :
  parse_loop child 0 false true [] [] lines =
  match view_of_lines lines with
  | None => Err
  | Some v => Ok (finish_pcs child v)
  end.
Proof.
  rewrite loop_off. unfold view_of_lines.
  destruct (preamble 0 lines) as [|s|s after] eqn:E; try reflexivity.
  pose proof (preamble_run_nonzero _ _ _ _ E) as Hs.
  destruct (loop_on child s after Hs) as [H1 _]. rewrite H1, is_sigpanic_nil.
  destruct (frames_of false (body_of after)); reflexivity.
Qed.

Lemma parse_factor child crash :
  parse_stack_pcs child crash =
  match view crash with
  | None => Err
  | Some v => Ok (finish_pcs child v)
  end.
Proof. apply parse_lines_factor. Qed.

Lemma counter_name_factor symb child crash :
  counter_name symb child crash = finish symb child (view crash).
Proof.
  unfold counter_name, finish. rewrite parse_factor. destruct (view crash); reflexivity.
Qed.

(* ------------------------------------------------------------ non-interference *)

Lemma noninterference symb child c1 c2 :
  view c1 = view c2 -> counter_name symb child c1 = counter_name symb child c2.
Proof. intro H. rewrite !counter_name_factor, H. reflexivity. Qed.

Lemma noninterference_weak symb child c1 c2 :
  view c1 = view c2 ->
  counter_name symb child c1 = counter_name symb child c2 \/
  is_err (counter_name symb child c1) = true \/ is_err (counter_name symb child c2) = true.
Proof. intro H. left. apply noninterference. exact H. Qed.

Lemma error_iff_no_view symb child c :
  is_err (counter_name symb child c) = true <-> view c = None.
Proof.
  rewrite counter_name_factor. unfold finish. destruct (view c); cbn; split; congruence.
Qed.

(* only the first 16 frames of the projection matter *)
Lemma name_of_pcs_cap symb pcs : name_of_pcs symb pcs = name_of_pcs symb (firstn frame_cap pcs).
Proof. unfold name_of_pcs. rewrite firstn_firstn, Nat.min_id. reflexivity. Qed.

Lemma finish_cap symb child s fs1 fs2 :
  firstn frame_cap fs1 = firstn frame_cap fs2 ->
  finish symb child (Some (s, fs1)) = finish symb child (Some (s, fs2)).
Proof.
  intro H. unfold finish. f_equal.
  rewrite (name_of_pcs_cap symb (finish_pcs child (s, fs1))), (name_of_pcs_cap symb (finish_pcs child (s, fs2))).
  unfold finish_pcs. cbn [fst snd]. rewrite !firstn_map, H. reflexivity.
Qed.

(* ------------------------------------------------------------ shape and bounds *)

Lemma shape symb child crash name :
  counter_name symb child crash = Ok name ->
  name = lit_no_running \/
  exists pcs, pcs <> [] /\ (length pcs <= 16)%nat /\ name = encode_frames c_crash_prefix (symb pcs).
Proof.
  unfold counter_name. destruct (parse_stack_pcs child crash) as [pcs|]; [|discriminate].
  intro H. injection H as <-. unfold name_of_pcs.
  destruct (firstn frame_cap pcs) as [|p ps] eqn:E; [left; reflexivity|].
  right. exists (p :: ps). split; [discriminate|]. split; [|reflexivity].
  rewrite <- E. apply firstn_le_length.
Qed.

Lemma name_length symb child crash name :
  counter_name symb child crash = Ok name -> N.of_nat (length name) <= 4096.
Proof.
  intro H. destruct (shape _ _ _ _ H) as [->|[pcs [_ [_ ->]]]].
  - vm_compute. discriminate.
  - apply length_bound_lit.
Qed.

(* the name, expanded, lists the frames: uncompressed rendering of the frames
   the symboliser reports for the (at most 16) pcs *)
Lemma crash_prefix_ok : prefix_ok c_crash_prefix = true.
Proof. vm_compute. reflexivity. Qed.

Lemma name_lists_frames symb child crash name :
  (forall p, Forall (fun f => fn_roundtrips (fr_func f) = true) (symb p)) ->
  counter_name symb child crash = Ok name ->
  name = lit_no_running \/
  exists pcs, pcs <> [] /\ (length pcs <= 16)%nat /\
    name = encode_frames c_crash_prefix (symb pcs) /\
    (is_truncated c_crash_prefix (symb pcs) = false ->
     decode_stack name = render_plain c_crash_prefix (symb pcs)).
Proof.
  intros Hs H. destruct (shape _ _ _ _ H) as [->|[pcs [H1 [H2 ->]]]]; [left; reflexivity|].
  right. exists pcs. repeat split; try assumption.
  intro Ht. apply decode_encode; [exact crash_prefix_ok|apply Hs|exact Ht].
Qed.

Lemma relocate_lt child s pc b : relocate child s pc b < two64.
Proof. unfold relocate. destruct b; apply N.mod_lt; discriminate. Qed.

Lemma pcs_are_64bit child crash pcs :
  parse_stack_pcs child crash = Ok pcs -> Forall (fun pc => pc < two64) pcs.
Proof.
  rewrite parse_factor. destruct (view crash) as [v|]; [|discriminate].
  intro H. injection H as <-. unfold finish_pcs. apply Forall_map. apply Forall_forall.
  intros f _. apply relocate_lt.
Qed.

Lemma total symb child crash :
  counter_name symb child crash = Err \/ exists name, counter_name symb child crash = Ok name.
Proof. destruct (counter_name symb child crash) as [n|]; [right; exists n; reflexivity|left; reflexivity]. Qed.

(* ------------------------------------------------------------ text-level non-interference (1):
   the projection sees a line only through line_class *)

Definition ceq (a b : bytes) : Prop := line_class a = line_class b.

Lemma ceq_parts a b : ceq a b ->
  has_prefix a lit_sentinel_sp = has_prefix b lit_sentinel_sp /\
  scan_sentinel a = scan_sentinel b /\
  is_header a = is_header b /\
  is_terminator a = is_terminator b /\
  option_map is_sigpanic (get_symbol a) = option_map is_sigpanic (get_symbol b) /\
  get_pc a = get_pc b.
Proof.
  unfold ceq, line_class. intro H. injection H as H1 H2 H3 H4 H5 H6. repeat split; assumption.
Qed.

Definition pre_rel (r1 r2 : preamble_result) : Prop :=
  match r1, r2 with
  | PErr, PErr => True
  | PNoRun a, PNoRun b => a = b
  | PRun a x, PRun b y => a = b /\ Forall2 ceq x y
  | _, _ => False
  end.

Lemma preamble_ceq l1 l2 : Forall2 ceq l1 l2 -> forall sent, pre_rel (preamble sent l1) (preamble sent l2).
Proof.
  induction 1 as [|a b l1 l2 Hab Hl IH]; intro sent; cbn [preamble]; [reflexivity|].
  destruct (ceq_parts _ _ Hab) as [H1 [H2 [H3 _]]]. rewrite <- H1, <- H2, <- H3.
  destruct ((sent =? 0) && has_prefix a lit_sentinel_sp).
  - destruct (scan_sentinel a); [apply IH|exact I].
  - destruct (is_header a).
    + destruct (sent =? 0); [exact I|]. split; [reflexivity|exact Hl].
    + apply IH.
Qed.

Lemma body_ceq l1 l2 : Forall2 ceq l1 l2 -> Forall2 ceq (body_of l1) (body_of l2).
Proof.
  induction 1 as [|a b l1 l2 Hab Hl IH]; cbn [body_of]; [constructor|].
  destruct (ceq_parts _ _ Hab) as [_ [_ [_ [H4 _]]]]. rewrite <- H4.
  destruct (is_terminator a); [constructor|]. constructor; assumption.
Qed.

Lemma frames_ceq b1 b2 : Forall2 ceq b1 b2 ->
  (forall p, frames_of p b1 = frames_of p b2) /\
  (forall s p, frames_loc s p b1 = frames_loc s p b2).
Proof.
  induction 1 as [|a b l1 l2 Hab Hl [IH1 IH2]]; [split; reflexivity|].
  destruct (ceq_parts _ _ Hab) as [_ [_ [_ [_ [H5 H6]]]]].
  split.
  - intro p. rewrite !frames_of_cons.
    destruct (get_symbol a) as [sa|], (get_symbol b) as [sb|]; cbn [option_map] in H5; try discriminate;
      [|reflexivity].
    injection H5 as H5. rewrite H5. apply IH2.
  - intros s p. cbn [frames_loc]. rewrite <- H6. destruct (get_pc a); rewrite ?IH1; reflexivity.
Qed.

Lemma view_lines_ceq l1 l2 : Forall2 ceq l1 l2 -> view_of_lines l1 = view_of_lines l2.
Proof.
  intro H. unfold view_of_lines. pose proof (preamble_ceq _ _ H 0) as Hp.
  destruct (preamble 0 l1) as [|s1|s1 a1], (preamble 0 l2) as [|s2|s2 a2]; cbn in Hp; try contradiction;
    try reflexivity.
  - subst. reflexivity.
  - destruct Hp as [-> Ha]. destruct (frames_ceq _ _ (body_ceq _ _ Ha)) as [Hf _]. rewrite Hf. reflexivity.
Qed.

Lemma linewise_noninterference symb child c1 c2 :
  Forall2 ceq (split_byte c1 10) (split_byte c2 10) ->
  counter_name symb child c1 = counter_name symb child c2.
Proof. intro H. apply noninterference. unfold view. apply view_lines_ceq. exact H. Qed.

(* ------------------------------------------------------------ text-level non-interference (2):
   whatever follows the end of the first running goroutine is irrelevant *)

Lemma preamble_app_run lines : forall sent s after extra,
  preamble sent lines = PRun s after -> preamble sent (lines ++ extra) = PRun s (after ++ extra).
Proof.
  induction lines as [|l ls IH]; intros sent s after extra H; cbn [preamble app] in *; [discriminate|].
  destruct ((sent =? 0) && has_prefix l lit_sentinel_sp).
  - destruct (scan_sentinel l); [apply IH; exact H|discriminate].
  - destruct (is_header l).
    + destruct (sent =? 0); [discriminate|]. injection H as <- <-. reflexivity.
    + apply IH. exact H.
Qed.

Lemma body_of_stop a t rest : is_terminator t = true -> body_of (a ++ t :: rest) = body_of a.
Proof.
  intro Ht. induction a as [|x a IH]; cbn [app body_of].
  - rewrite Ht. reflexivity.
  - destruct (is_terminator x); [reflexivity|]. rewrite IH. reflexivity.
Qed.

Lemma view_lines_tail lines s after t rest1 rest2 :
  preamble 0 lines = PRun s after -> is_terminator t = true ->
  view_of_lines (lines ++ t :: rest1) = view_of_lines (lines ++ t :: rest2).
Proof.
  intros Hp Ht. unfold view_of_lines.
  rewrite (preamble_app_run _ _ _ _ (t :: rest1) Hp), (preamble_app_run _ _ _ _ (t :: rest2) Hp).
  rewrite !body_of_stop by exact Ht. reflexivity.
Qed.

(* head = the report up to the last line of the first running goroutine's
   stack; a blank line; then anything (the other goroutines) *)
Lemma other_goroutines_irrelevant symb child head tail1 tail2 s after :
  preamble 0 (split_byte head 10) = PRun s after ->
  counter_name symb child (head ++ [10; 10] ++ tail1) = counter_name symb child (head ++ [10; 10] ++ tail2).
Proof.
  intro Hp. apply noninterference. unfold view. cbn [app].
  rewrite !split_app_nl.
  assert (Hs : forall tl, split_byte (10 :: tl) 10 = [] :: split_byte tl 10).
  { intro tl. change (10 :: tl) with ([] ++ 10 :: tl). rewrite split_app_nl. reflexivity. }
  rewrite !Hs. eapply view_lines_tail; [exact Hp|reflexivity].
Qed.

(* ------------------------------------------------------------ facts about the number parsers *)

Lemma parse_digits_lt base : forall s n us v us', n < two64 ->
  parse_digits base s n us = Some (v, us') -> v < two64.
Proof.
  induction s as [|c s IH]; intros n us v us' Hn H; cbn [parse_digits] in H.
  - injection H as <- _. exact Hn.
  - destruct (c =? 95); [eapply IH; eassumption|].
    destruct (digit_val c) as [d|]; [|discriminate].
    destruct (base <=? d); [discriminate|].
    destruct (cutoff base <=? n); [discriminate|].
    destruct (N.ltb_spec max_u64 (n * base + d)); [discriminate|].
    eapply IH; [|exact H]. unfold max_u64, two64 in *. lia.
Qed.

Lemma parse_uint0_lt s v : parse_uint0 s = Some v -> v < two64.
Proof.
  unfold parse_uint0. destruct s as [|c0 rest]; [discriminate|].
  set (bd := if c0 =? 48 then _ else _). destruct bd as [base digits].
  destruct (parse_digits base digits 0 false) as [[n us]|] eqn:E; [|discriminate].
  intro H. assert (n < two64) by (eapply parse_digits_lt; [|exact E]; reflexivity).
  destruct (us && negb (underscore_ok (c0 :: rest))); [discriminate|]. injection H as <-. assumption.
Qed.

Lemma scan_sentinel_lt l v : scan_sentinel l = Some v -> v < two64.
Proof.
  unfold scan_sentinel. destruct (negb (has_prefix l lit_sentinel)); [discriminate|].
  set (r := skipn _ l).
  assert (H : forall o, match take_hex (trim_left_fuel_pats scan_spaces (length r) r) with
                        | [] => None
                        | c :: ds => let w := hex_value (c :: ds) in if w <? two64 then Some w else None
                        end = o -> o = Some v -> v < two64).
  { intros o <-. destruct (take_hex _) as [|c ds]; [discriminate|]. cbv zeta.
    destruct (N.ltb_spec (hex_value (c :: ds)) two64); [|discriminate]. intro E. injection E as <-. assumption. }
  destruct r as [|x r']; [|destruct (first_prefix (x :: r') scan_spaces)]; try discriminate; intro E; eapply H; try exact E; reflexivity.
Qed.

(* ------------------------------------------------------------ the Child process *)

(* what Child counts is the counter name of its whole standard input *)
Lemma child_counts_counter_name symb child stdin name :
  monitor_child symb child stdin = Counted name <->
  ((2 <= count_newlines stdin)%nat /\ counter_name symb child stdin = Ok name).
Proof.
  unfold monitor_child. destruct (Nat.ltb_spec (count_newlines stdin) 2) as [Hlt|Hge].
  - split; [discriminate|intros [H _]; lia].
  - destruct (counter_name symb child stdin) as [n|]; split.
    + intro H. injection H as ->. split; [exact Hge|reflexivity].
    + intros [_ H]. injection H as ->. reflexivity.
    + discriminate.
    + intros [_ H]. discriminate.
Qed.

(* hence it depends on the report only through its projection (and on whether
   it has two lines at all): in particular not on the length of any message *)
Lemma child_noninterference symb child c1 c2 :
  view c1 = view c2 -> (2 <= count_newlines c1)%nat -> (2 <= count_newlines c2)%nat ->
  monitor_child symb child c1 = monitor_child symb child c2.
Proof.
  intros Hv H1 H2. unfold monitor_child.
  destruct (Nat.ltb_spec (count_newlines c1) 2); [lia|].
  destruct (Nat.ltb_spec (count_newlines c2) 2); [lia|].
  rewrite (noninterference symb child c1 c2 Hv). reflexivity.
Qed.
