(* Proofs/UploaderLive: progress without kills.  From a state in which all
   runs have returned, one further complete run whose requests are answered
   200 leaves every week that had an uploadable report acknowledged exactly
   once in the whole log.  Needs that the history started with an empty
   upload directory (no stale lock, markers = acknowledgements). *)
From Coq Require Import List ZArith NArith Bool Lia Arith.
From Tele Require Import Lib.Bytes Lib.Calendar Lib.FS Gen.Consts Model.Span Model.Uploader
  Proofs.FSFacts Proofs.UploaderBase Proofs.UploaderLock Proofs.UploaderNames Proofs.UploaderDisp.
Import ListNotations.
Open Scope nat_scope.

(* ---------------------------------------------------------------- global invariants *)
Definition live_inv (st : state) : Prop :=
  (* every lock file has an owner between lock and unlock *)
  (forall w, d_mem (up_dir (s_fs st)) (lock_name w) = true ->
             exists i t, nth_error (s_ths st) i = Some t /\ in_cs (t_pc t) = true /\ t_week t = w) /\
  (* markers are acknowledgements *)
  (forall w, d_mem (up_dir (s_fs st)) (marker_name w) = true -> count200 w (s_log st) = 1) /\
  (forall i t, nth_error (s_ths st) i = Some t -> t_pc t = UWriteMarker -> count200 (t_week t) (s_log st) = 1).

Lemma count200_mono w l k : count200 w l <= count200 w (l ++ [k]).
Proof. rewrite count200_app. lia. Qed.

Lemma cs_before f a t e t' :
  decide_all f a t = (e, t') -> in_cs (t_pc t) = true ->
  (in_cs (t_pc t') = true /\ t_week t' = t_week t) \/
  (t_pc t = UUnlock /\ (e = ERemUp (lock_name (t_week t)) \/ (e = ENone /\ f_upload f = None))).
Proof.
  intros H. destruct a; dinv H; adv; simpl; intros Hc; pcrw; simpl in *; try discriminate; auto.
Qed.

Lemma wm_after f a t e t' :
  decide_all f a t = (e, t') -> t_pc t' = UWriteMarker ->
  t_week t' = t_week t /\
  ((t_pc t = UWriteMarker /\ e = ENone) \/
   (t_pc t = UPost /\ exists k, e = EPost k /\ is200 k = true /\ a_week k = t_week t)).
Proof.
  intros H. destruct a; dinv H; adv; simpl; intros Hp; pcrw; dmatch Hp; pcdiscr; split; auto.
  right. split; auto. eexists. split; [reflexivity|]. auto.
Qed.

Lemma live_inv_step st ia : reach st -> live_inv st -> live_inv (step st ia).
Proof.
  intros Hr (L1 & L2 & L3). destruct ia as [i a].
  destruct (step_cases st i a) as [-> | (t & e & t' & Hi & Hk & Hd & ->)]; [repeat split; auto|].
  pose proof (lock_inv_reach _ Hr) as [HA HB].
  pose proof (acked_at_most_once (step st (i, a)) ) as Hmost.
  assert (Hlog : forall w, count200 w (s_log st) <= count200 w (snd (apply_eff e (s_fs st) (s_log st)))).
  { intros w. rewrite log_apply. destruct e; auto. apply count200_mono. }
  assert (Hle : forall w, count200 w (snd (apply_eff e (s_fs st) (s_log st))) <= 1).
  { intros w. specialize (Hmost w (reach_step _ (i, a) Hr)).
    rewrite (step_at st i a t e t' Hi Hk Hd) in Hmost. exact Hmost. }
  split; [|split]; simpl.
  - (* lock owners *)
    intros w Hm. rewrite up_apply in Hm.
    assert (Hold : d_mem (up_dir (s_fs st)) (lock_name w) = true ->
                   (forall n, e = ERemUp n -> n <> lock_name w) ->
                   exists j tj, nth_error (upd (s_ths st) i t') j = Some tj /\ in_cs (t_pc tj) = true /\ t_week tj = w).
    { intros Hm0 Hne. destruct (L1 w Hm0) as (j & tj & Hj & Hc & Hw).
      destruct (Nat.eq_dec i j) as [<- | Hij].
      - rewrite Hi in Hj. injection Hj as <-.
        destruct (cs_before _ _ _ _ _ Hd Hc) as [[Hc' Hw'] | (Hp & [He | [He Hn]])].
        + exists i, t'. rewrite nth_error_upd, Nat.eqb_refl, Hi. split; auto. split; auto. congruence.
        + exfalso. apply (Hne _ He). congruence.
        + exfalso. unfold up_dir in Hm0. rewrite Hn in Hm0. discriminate.
      - exists j, tj. rewrite nth_error_upd. apply Nat.eqb_neq in Hij. rewrite Hij. auto. }
    destruct e; try (apply Hold; auto; intros; discriminate).
    + (* ECreateLock *)
      destruct (eff_createlock _ _ _ _ _ Hd) as (Hp & -> & Hm0 & _ & ->).
      rewrite d_mem_add in Hm. destruct (beq (lock_name (t_week t)) (lock_name w)) eqn:E.
      * apply beq_eq in E. apply lock_name_inj in E. exists i, (set_pc t UStat).
        rewrite nth_error_upd, Nat.eqb_refl, Hi. auto.
      * simpl in Hm. apply Hold; auto. intros; discriminate.
    + (* EPutUp *)
      rewrite d_mem_put in Hm. destruct (eff_putup _ _ _ _ _ _ Hd) as (_ & -> & _).
      rewrite (beq_false_ne _ _ (fun E => lock_ne_marker _ _ (eq_sym E))) in Hm. simpl in Hm.
      apply Hold; auto. intros; discriminate.
    + (* ERemUp *)
      destruct (beq n (lock_name w)) eqn:E.
      * apply beq_eq in E. subst n. rewrite d_mem_remove_same in Hm. discriminate.
      * apply beq_neq in E. rewrite d_mem_remove_other in Hm by exact E. apply Hold; auto.
        intros n0 E0. injection E0 as <-. exact E.
  - (* markers are acknowledged *)
    intros w Hm. rewrite up_apply in Hm.
    assert (Hold : d_mem (up_dir (s_fs st)) (marker_name w) = true ->
                   count200 w (snd (apply_eff e (s_fs st) (s_log st))) = 1).
    { intros Hm0. specialize (L2 w Hm0). specialize (Hlog w). specialize (Hle w). lia. }
    destruct e; auto.
    + rewrite d_mem_add in Hm. destruct (eff_createlock _ _ _ _ _ Hd) as (_ & -> & _).
      rewrite (beq_false_ne _ _ (lock_ne_marker _ _)) in Hm. auto.
    + rewrite d_mem_put in Hm. destruct (eff_putup _ _ _ _ _ _ Hd) as (Hp & -> & _).
      destruct (beq (marker_name (t_week t)) (marker_name w)) eqn:E; [|auto].
      apply beq_eq in E. apply marker_name_inj in E. subst w. apply (L3 _ _ Hi Hp).
    + apply d_mem_remove_true in Hm. auto.
  - (* a thread about to write the marker has been acknowledged *)
    intros j tj Hj Hp. rewrite nth_error_upd in Hj. destruct (Nat.eqb i j) eqn:Eij.
    + rewrite Hi in Hj. injection Hj as <-.
      destruct (wm_after _ _ _ _ _ Hd Hp) as (Hw & [(Hp0 & ->) | (Hp0 & k & -> & Hk2 & Hkw)]); rewrite Hw.
      * simpl. apply (L3 _ _ Hi Hp0).
      * specialize (Hle (t_week t)). rewrite log_apply in *. rewrite count200_app in *.
        rewrite Hk2, Hkw, beq_refl in *. simpl in *. lia.
    + specialize (L3 _ _ Hj Hp). specialize (Hlog (t_week tj)). specialize (Hle (t_week tj)). lia.
Qed.

Lemma live_inv_reach f cfgs st :
  fs_wf f -> up_dir f = [] -> reach_from (init_state f cfgs) st -> reach st /\ live_inv st.
Proof.
  intros Hwf Hup. induction 1 as [|st ia H IH|st c H IH].
  - split; [apply reach_init; exact Hwf|]. split; [|split].
    + simpl. intros w Hm. rewrite Hup in Hm. discriminate.
    + simpl. intros w Hm. rewrite Hup in Hm. discriminate.
    + intros i t Hi Hp. destruct (init_threads _ _ _ _ Hi) as (k & c & ->). discriminate.
  - destruct IH as [Hr HL]. split; [apply reach_step; exact Hr|]. apply live_inv_step; auto.
  - destruct IH as [Hr (L1 & L2 & L3)]. split; [apply reach_spawn; exact Hr|]. split; [|split].
    + intros w Hm. destruct (L1 w Hm) as (i & t & Hi & Hc & Hw). exists i, t. split; auto.
      apply spawn_old. exact Hi.
    + exact L2.
    + intros i t Hi Hp. destruct (spawn_threads _ _ _ _ Hi) as [H1 | [_ ->]]; [eauto|discriminate].
Qed.

(* ---------------------------------------------------------------- dates are at least ten bytes *)
Lemma length_pad_left_aux k s : length (pad_left_aux k s) = k + length s.
Proof. induction k; simpl; auto. Qed.

Lemma length_dec_pad w n : w <= length (dec_pad w n).
Proof. unfold dec_pad, pad_left. rewrite length_pad_left_aux. lia. Qed.

Lemma length_fmt_date day : 10 <= length (fmt_date day).
Proof.
  unfold fmt_date. destruct (civil_from_days day) as [[y m] d]. unfold fmt_ymd.
  rewrite !app_length. simpl.
  pose proof (length_dec_pad 4 (Z.to_N y)). pose proof (length_dec_pad 2 (Z.to_N m)).
  pose proof (length_dec_pad 2 (Z.to_N d)). lia.
Qed.

Lemma trim_suffix_app (s suf : bytes) : trim_suffix (s ++ suf) suf = s.
Proof.
  unfold trim_suffix.
  assert (H : has_suffix (s ++ suf) suf = true) by (apply has_suffix_app; eexists; reflexivity).
  rewrite H, app_length, Nat.add_sub.
  rewrite firstn_app, Nat.sub_diag, firstn_all. simpl. apply app_nil_r.
Qed.

Lemma fdate_ready w : week_ok w -> fdate (ready_name w) <> None.
Proof.
  intros [e ->]. unfold fdate, ready_name. rewrite trim_suffix_app.
  unfold uploader_week. pose proof (length_fmt_date (e / 86400)) as H.
  destruct (Nat.ltb_spec (length (fmt_date (e / 86400))) (length c_DateOnly)); [|discriminate].
  unfold c_DateOnly in *. simpl in *. lia.
Qed.

(* ---------------------------------------------------------------- one further complete run *)
Lemma mem_map_fst_in {C} (d : dir C) n : d_mem d n = true -> In n (map fst d).
Proof.
  unfold d_mem. induction d as [|[k v] d IH]; simpl; [discriminate|].
  destruct (beq k n) eqn:E; intros H.
  - apply beq_eq in E. auto.
  - auto.
Qed.

Lemma in_ins_sorted x y l : In x (ins_sorted y l) <-> x = y \/ In x l.
Proof.
  induction l as [|z l IH]; simpl.
  - intuition.
  - destruct (bleb y z); simpl; [intuition|]. rewrite IH. intuition.
Qed.

Lemma mem_in_d_names {C} (d : dir C) n : d_mem d n = true -> In n (d_names d).
Proof.
  intros H. apply mem_map_fst_in in H. unfold d_names, sort_names.
  induction (map fst d) as [|y l IH]; simpl in *; [contradiction|].
  apply in_ins_sorted. destruct H as [-> | H]; auto.
Qed.

Lemma next_upload_keeps tod l g :
  In g l -> in_future tod g = false ->
  exists f rest, next_upload tod l = Some (f, rest) /\ (f = g \/ In g rest).
Proof.
  induction l as [|x l IH]; simpl; [contradiction|]. intros [-> | Hin] Hf.
  - rewrite Hf. eauto.
  - destruct (IH Hin Hf) as (f & rest & E & H). destruct (in_future tod x); eauto.
Qed.

Definition good (a : act) : Prop := a <> AKill /\ forall o, a = AStep o -> o = O200.

Section Further.
Variables (c : ucfg) (g W : bytes).
Hypothesis Hon : u_on c = true.
Hypothesis Hcr : collect_ready c g = true.
Hypothesis Hfut : in_future (today c) g = false.
Hypothesis Hfd : fdate g = Some W.

Definition pend (fs : FS) (t : thread) : Prop :=
  match t_pc t with
  | FReadLocal => True
  | FReadCount | FReadUpload | FMkdir => In g (t_ready t)
  | RPick | RDel | RStatLocal | RStatUp | RCreateUp | RWriteUp | RCreateLocal | RWriteLocal =>
      In g (t_ready t) /\ f_upload fs <> None
  | URead | ULock | UStat | UPost => (t_file t = g \/ In g (t_up t)) /\ f_upload fs <> None
  | URemAlready | UWriteMarker | URemDone | UUnlock => t_file t <> g /\ In g (t_up t) /\ f_upload fs <> None
  | URem4xx | Done => False
  end.

Lemma rname_g : rname g.
Proof. apply (collect_ready_rname c). exact Hcr. Qed.

Lemma adv_pend fs t :
  t_cfg t = c -> In g (t_up t) -> f_upload fs <> None -> pend fs (advance t).
Proof.
  intros Hc Hin Hu. unfold advance. rewrite Hc.
  destruct (next_upload_keeps (today c) (t_up t) g Hin Hfut) as (f & rest & E & H).
  rewrite E. unfold pend. simpl. auto.
Qed.

Lemma pend_step fs log t a e t' :
  decide_all fs a t = (e, t') -> good a -> t_cfg t = c -> names_inv t -> upl_inv t ->
  d_mem (f_local fs) g = true -> count200 W log = 0 ->
  (t_pc t = ULock -> d_mem (up_dir fs) (lock_name W) = false) ->
  d_mem (up_dir fs) (marker_name W) = false ->
  pend fs t ->
  let fs' := fst (apply_eff e fs log) in
  let log' := snd (apply_eff e fs log) in
  (count200 W log' = 0 /\ d_mem (f_local fs') g = true /\ pend fs' t') \/
  (count200 W log' = 1 /\ t_pc t' = UWriteMarker /\ t_week t' = W).
Proof.
  intros Hd [Hnk Hgo] Hc N U Hg H0 HnL HnM Hp. destruct rname_g as (Gc & Gl & Gj).
  destruct a as [o | w | | ]; [| | |contradiction].
  - (* a call *)
    assert (Ho : o = O200) by (apply Hgo; reflexivity). subst o.
    simpl in Hd. unfold decide in Hd. unfold pend in Hp.
    destruct (t_pc t) eqn:Epc; try contradiction.
    + (* FReadLocal *) injection Hd as <- <-. left. simpl. repeat split; auto.
      assert (Hin : In g (filter (collect_ready (t_cfg t)) (d_names (f_local fs)))).
      { apply filter_In. split; [|rewrite Hc; exact Hcr].
        apply mem_in_d_names. exact Hg. }
      unfold pend. simpl. destruct (filter is_count (d_names (f_local fs))); simpl; exact Hin.
    + (* FReadCount *)
      destruct (t_ents t) as [|n rest]; injection Hd as <- <-; left; simpl; repeat split; auto;
        unfold pend; simpl; auto. destruct rest; simpl; exact Hp.
    + (* FReadUpload *)
      destruct (f_upload fs) as [d|] eqn:Eu; injection Hd as <- <-; left; simpl; repeat split; auto;
        unfold pend; simpl; auto; try (split; auto); try rewrite Eu; try discriminate.
    + (* FMkdir *)
      injection Hd as <- <-. left. simpl. repeat split; auto. unfold pend. simpl.
      try (split; auto); try discriminate.
    + (* RPick *)
      injection Hd as <- <-. left. simpl. repeat split; auto. unfold pend. rewrite Epc. exact Hp.
    + (* RDel *)
      destruct Hp as [Hp Hu]. destruct (t_dels t) as [|n rest] eqn:Ed; injection Hd as <- <-; left; simpl.
      * split; auto. split; auto. unfold pend. simpl. auto.
      * split; auto. split.
        -- rewrite d_mem_remove_other; auto. intros ->.
           pose proof (ni_dels _ N) as D. rewrite Ed in D. inversion D; subst. congruence.
        -- unfold pend. simpl. destruct rest; simpl; auto.
    + (* RStatLocal *)
      destruct Hp as [Hp Hu]. destruct (d_mem (f_local fs) (local_name (t_week t)));
        injection Hd as <- <-; left; simpl; (split; [exact H0|split; [exact Hg|]]); unfold pend; simpl; auto.
      destruct (t_files t); simpl; auto.
    + (* RStatUp *)
      destruct Hp as [Hp Hu]. destruct (d_mem (f_local fs) (ready_name (t_week t)));
        injection Hd as <- <-; left; simpl; (split; [exact H0|split; [exact Hg|]]); unfold pend; simpl; auto.
      * destruct (t_files t); simpl; auto.
      * destruct (t_upok t); simpl; auto.
    + (* RCreateUp *)
      destruct Hp as [Hp Hu]. destruct (d_mem (f_local fs) (ready_name (t_week t)));
        injection Hd as <- <-; left; simpl; (split; [exact H0|split]); unfold pend; simpl; auto.
      rewrite d_mem_add, Hg. apply orb_true_r.
    + (* RWriteUp *)
      destruct Hp as [Hp Hu]. injection Hd as <- <-. left. simpl. split; [exact H0|split].
      * rewrite d_mem_set_id. exact Hg.
      * unfold pend. simpl. auto.
    + (* RCreateLocal *)
      destruct Hp as [Hp Hu].
      assert (Hin : In g (if t_upok t then t_ready t ++ [ready_name (t_week t)] else t_ready t))
        by (destruct (t_upok t); auto; apply in_or_app; auto).
      destruct (d_mem (f_local fs) (local_name (t_week t)));
        injection Hd as <- <-; left; simpl; (split; [exact H0|split]); unfold pend; simpl; auto.
      * unfold finish_week, start_del. simpl. destruct (t_files t); simpl; auto.
      * rewrite d_mem_add, Hg. apply orb_true_r.
    + (* RWriteLocal *)
      destruct Hp as [Hp Hu].
      assert (Hin : In g (if t_upok t then t_ready t ++ [ready_name (t_week t)] else t_ready t))
        by (destruct (t_upok t); auto; apply in_or_app; auto).
      injection Hd as <- <-. left. simpl. split; [exact H0|split].
      * rewrite d_mem_set_id. exact Hg.
      * unfold pend, finish_week, start_del. simpl. destruct (t_files t); simpl; auto.
    + (* URead *)
      destruct Hp as [Hp Hu].
      assert (Hadv : t_file t <> g -> count200 W log = 0 /\ d_mem (f_local fs) g = true /\ pend fs (advance t)).
      { intros Hne. split; [exact H0|split; [exact Hg|]]. apply adv_pend; auto. destruct Hp; [contradiction|auto]. }
      destruct (d_get (f_local fs) (t_file t)) as [ct|] eqn:Eg.
      * destruct (fdate (t_file t)) as [d|] eqn:Ef; injection Hd as <- <-; left; simpl.
        -- split; [exact H0|split; [exact Hg|]]. unfold pend. simpl. auto.
        -- apply Hadv. intros E. rewrite E in Ef. congruence.
      * injection Hd as <- <-. left. simpl. apply Hadv. intros E. rewrite E in Eg.
        apply d_mem_false_get in Eg. congruence.
    + (* ULock *)
      destruct Hp as [Hp Hu]. destruct (f_upload fs) as [d|] eqn:Eu; [|contradiction].
      assert (Hup : up_dir fs = d) by (unfold up_dir; rewrite Eu; reflexivity).
      destruct (d_mem d (lock_name (t_week t))) eqn:El; injection Hd as <- <-; left; simpl.
      * split; [exact H0|split; [exact Hg|]]. apply adv_pend; auto; [|rewrite Eu; discriminate].
        destruct Hp as [E | Hin]; auto. exfalso.
        assert (Hw : fdate (t_file t) = Some (t_week t)) by (apply U; right; exact Epc).
        rewrite E, Hfd in Hw. injection Hw as Hw. specialize (HnL eq_refl). rewrite Hup, Hw, El in HnL. discriminate.
      * split; [exact H0|split; [exact Hg|]]. unfold pend. simpl. split; auto. discriminate.
    + (* UStat *)
      destruct Hp as [Hp Hu].
      destruct (d_mem (up_dir fs) (marker_name (t_week t))) eqn:Em; injection Hd as <- <-; left; simpl;
        (split; [exact H0|split; [exact Hg|]]); unfold pend; simpl; auto.
      assert (Hne : t_file t <> g).
      { intros E. assert (Hw : fdate (t_file t) = Some (t_week t)) by (apply U; left; rewrite Epc; reflexivity).
        rewrite E, Hfd in Hw. injection Hw as Hw. rewrite Hw, Em in HnM. discriminate. }
      destruct Hp; [contradiction|auto].
    + (* URemAlready *)
      destruct Hp as (Hne & Hin & Hu). injection Hd as <- <-. left. simpl. split; [exact H0|split].
      * rewrite d_mem_remove_other; auto.
      * unfold pend. simpl. auto.
    + (* UPost *)
      destruct Hp as [Hp Hu]. injection Hd as <- <-. cbv zeta. simpl. rewrite count200_app, H0. unfold is200. simpl.
      destruct (beq (t_week t) W) eqn:Ew.
      * right. apply beq_eq in Ew. auto.
      * left. split; [reflexivity|split; [exact Hg|]]. unfold pend. simpl.
        assert (Hne : t_file t <> g).
        { intros E. assert (Hw : fdate (t_file t) = Some (t_week t)) by (apply U; left; rewrite Epc; reflexivity).
          rewrite E, Hfd in Hw. injection Hw as Hw. rewrite Hw, beq_refl in Ew. discriminate. }
        destruct Hp; [contradiction|auto].
    + (* UWriteMarker *)
      destruct Hp as (Hne & Hin & Hu). destruct (f_upload fs) as [d|] eqn:Eu; [|contradiction].
      injection Hd as <- <-. left. simpl. split; [exact H0|split; [exact Hg|]].
      unfold pend. simpl. split; auto. split; auto. discriminate.
    + (* URemDone *)
      destruct Hp as (Hne & Hin & Hu). injection Hd as <- <-. left. simpl. split; [exact H0|split].
      * rewrite d_mem_remove_other; auto.
      * unfold pend. simpl. auto.
    + (* UUnlock *)
      destruct Hp as (Hne & Hin & Hu). destruct (f_upload fs) as [d|] eqn:Eu; [|contradiction].
      injection Hd as <- <-. left. simpl. split; [exact H0|split; [exact Hg|]].
      apply adv_pend; auto. discriminate.
  - (* the range loop picks a week *)
    simpl in Hd. unfold step_pick in Hd. unfold pend in Hp.
    destruct (t_pc t) eqn:Epc;
      try (injection Hd as <- <-; left; simpl; (split; [exact H0|split; [exact Hg|]]); unfold pend; rewrite Epc; exact Hp).
    destruct Hp as [Hp Hu].
    destruct (take_week w (t_weeks t)) as [[files rest]|];
      [|injection Hd as <- <-; left; simpl; (split; [exact H0|split; [exact Hg|]]); unfold pend; rewrite Epc; auto].
    destruct (not_needed w (t_uploaded t) (t_ready t));
      [|destruct (has_counts files)]; injection Hd as <- <-; left; simpl;
      (split; [exact H0|split; [exact Hg|]]); unfold pend; simpl; auto; try (rewrite Epc; auto; fail).
    destruct files; simpl; auto.
  - (* the range loop ends *)
    simpl in Hd. unfold step_pick_none in Hd. unfold pend in Hp.
    destruct (t_pc t) eqn:Epc;
      try (injection Hd as <- <-; left; simpl; (split; [exact H0|split; [exact Hg|]]); unfold pend; rewrite Epc; exact Hp).
    destruct Hp as [Hp Hu].
    destruct (forallb (silent t) (t_weeks t));
      injection Hd as <- <-; left; simpl; (split; [exact H0|split; [exact Hg|]]).
    + unfold start_upload. apply adv_pend; auto.
    + unfold pend. rewrite Epc. auto.
Qed.

(* ---- the state-level invariant of the further run ---- *)
Variables (f : FS) (cfgs : list ucfg) (st : state).
Hypothesis Hwf : fs_wf f.
Hypothesis Hup : up_dir f = [].
Hypothesis Hrf : reach_from (init_state f cfgs) st.
Hypothesis Hq : forall j t, nth_error (s_ths st) j = Some t -> t_pc t = Done.
Hypothesis Hgl : d_mem (f_local (s_fs st)) g = true.

Definition i0 : nat := length (s_ths st).

Definition tgt (s : state) (t : thread) : Prop :=
  (count200 W (s_log s) = 1 /\ d_mem (up_dir (s_fs s)) (marker_name W) = true) \/
  (count200 W (s_log s) = 1 /\ t_pc t = UWriteMarker /\ t_week t = W) \/
  (count200 W (s_log s) = 0 /\ d_mem (f_local (s_fs s)) g = true /\ pend (s_fs s) t).

Definition Q (s : state) : Prop :=
  reach_from (init_state f cfgs) s /\ length (s_ths s) = S i0 /\
  (forall j t, j < i0 -> nth_error (s_ths s) j = Some t -> t_pc t = Done) /\
  exists t, nth_error (s_ths s) i0 = Some t /\ t_cfg t = c /\ t_killed t = false /\ tgt s t.

Lemma done_step fs a t e t' :
  t_pc t = Done -> a <> AKill -> decide_all fs a t = (e, t') -> e = ENone /\ t' = t.
Proof.
  intros Hp Hk Hd. destruct a; simpl in Hd; [| | |contradiction].
  - unfold decide in Hd. rewrite Hp in Hd. injection Hd as <- <-. auto.
  - unfold step_pick in Hd. rewrite Hp in Hd. injection Hd as <- <-. auto.
  - unfold step_pick_none in Hd. rewrite Hp in Hd. injection Hd as <- <-. auto.
Qed.

Lemma killed_step fs a t e t' :
  a <> AKill -> decide_all fs a t = (e, t') -> t_killed t' = t_killed t.
Proof. intros Hk Hd. destruct a; [| | |contradiction]; dinv Hd; adv; reflexivity. Qed.

Lemma cfg_step' fs a t e t' : decide_all fs a t = (e, t') -> t_cfg t' = t_cfg t.
Proof. intros H. destruct a; dinv H; adv; reflexivity. Qed.

Lemma Q_spawn : Q (spawn st c).
Proof.
  destruct (live_inv_reach _ _ _ Hwf Hup Hrf) as [Hr HL].
  split; [apply rf_spawn; exact Hrf|]. split; [unfold spawn; simpl; rewrite app_length; simpl; unfold i0; lia|].
  split.
  - intros j t Hj Hn. destruct (spawn_threads _ _ _ _ Hn) as [H1 | [E _]]; [eauto|unfold i0 in Hj; lia].
  - exists (new_thread i0 c). split.
    { unfold spawn. simpl. rewrite nth_error_app2 by (unfold i0; lia). unfold i0. rewrite Nat.sub_diag. reflexivity. }
    split; [reflexivity|]. split; [reflexivity|].
    destruct (ack_inv_reach _ Hr W) as [H0 | [H1 [Hm | (j & tj & Hj & Hp & _)]]].
    + right. right. simpl. split; auto. split; auto. exact I.
    + left. simpl. auto.
    + rewrite (Hq _ _ Hj) in Hp. discriminate.
Qed.

Lemma Q_step s i a : good a -> Q s -> Q (step s (i, a)).
Proof.
  intros Hgood (Hrs & Hlen & Hold & t & Ht & Hc & Hkl & HT).
  assert (Hrs' : reach_from (init_state f cfgs) (step s (i, a))) by (apply rf_step; exact Hrs).
  destruct (live_inv_reach _ _ _ Hwf Hup Hrs) as [Hr (L1 & L2 & L3)].
  destruct (live_inv_reach _ _ _ Hwf Hup Hrs') as [Hr' _].
  destruct (step_cases s i a) as [E | (ti & e & t' & Hi & Hk & Hd & E)].
  - rewrite E in *. split; auto. split; auto. split; auto. exists t. auto.
  - destruct Hgood as [Hnk Hgo].
    destruct (Nat.lt_total i i0) as [Hlt | [-> | Hgt]].
    + (* a returned run: nothing happens *)
      pose proof (Hold _ _ Hlt Hi) as Hdone.
      destruct (done_step _ _ _ _ _ Hdone Hnk Hd) as [-> ->].
      assert (Es : step s (i, a) = s).
      { rewrite E. simpl. rewrite (upd_same _ _ _ Hi). destruct s; reflexivity. }
      rewrite Es. split; auto. split; auto. split; auto. exists t. auto.
    + (* the further run *)
      rewrite Ht in Hi. injection Hi as <-.
      split; [exact Hrs'|]. rewrite E. simpl.
      split; [rewrite length_upd; exact Hlen|]. split.
      { intros j tj Hj Hn. rewrite nth_error_upd in Hn.
        assert (Hne : Nat.eqb i0 j = false) by (apply Nat.eqb_neq; lia). rewrite Hne in Hn. eauto. }
      exists t'. rewrite nth_error_upd, Nat.eqb_refl, Ht.
      split; [reflexivity|]. split; [rewrite (cfg_step' _ _ _ _ _ Hd); exact Hc|].
      split; [rewrite (killed_step _ _ _ _ _ Hnk Hd); exact Hkl|].
      assert (Hle : count200 W (snd (apply_eff e (s_fs s) (s_log s))) <= 1).
      { pose proof (acked_at_most_once _ W Hr') as H. rewrite E in H. exact H. }
      assert (Hmono : count200 W (s_log s) <= count200 W (snd (apply_eff e (s_fs s) (s_log s)))).
      { rewrite log_apply. destruct e; auto. apply count200_mono. }
      unfold tgt. simpl.
      destruct HT as [[H1 Hm] | [(H1 & Hp & Hw) | (H0 & Hg & Hp)]].
      * left. split; [lia|]. apply marker_kept; auto. apply (remup_is_lock _ _ _ _ _ Hd).
      * destruct (wm_step _ _ _ _ _ Hd Hp) as [(Hp' & Hw' & ->) | [-> | Hn]].
        -- right. left. simpl. split; auto. split; auto. congruence.
        -- left. split; [simpl; exact H1|]. rewrite up_apply, d_mem_put, Hw, beq_refl. reflexivity.
        -- exfalso. pose proof (lock_inv_reach _ Hr) as [HA _].
           assert (Hl := HA _ _ Ht). rewrite Hp in Hl. specialize (Hl eq_refl).
           unfold up_dir in Hl. rewrite Hn in Hl. discriminate.
      * assert (HnM : d_mem (up_dir (s_fs s)) (marker_name W) = false).
        { destruct (d_mem (up_dir (s_fs s)) (marker_name W)) eqn:Em; auto.
          specialize (L2 _ Em). lia. }
        assert (HnL : t_pc t = ULock -> d_mem (up_dir (s_fs s)) (lock_name W) = false).
        { intros Hpl. destruct (d_mem (up_dir (s_fs s)) (lock_name W)) eqn:El; auto. exfalso.
          destruct (L1 _ El) as (k & tk & Hk' & Hcs & _).
          destruct (Nat.lt_total k i0) as [Hlt | [-> | Hgt]].
          - rewrite (Hold _ _ Hlt Hk') in Hcs. discriminate.
          - rewrite Ht in Hk'. injection Hk' as <-. rewrite Hpl in Hcs. discriminate.
          - assert (nth_error (s_ths s) k = None) by (apply nth_error_None; lia). congruence. }
        destruct (pend_step _ (s_log s) _ _ _ _ Hd (conj Hnk Hgo) Hc
                    (names_inv_reach _ Hr _ _ Ht) (upl_inv_reach _ Hr _ _ Ht) Hg H0 HnL HnM Hp)
          as [(A & B & C) | (A & B & C)]; auto.
    + (* no such thread *)
      assert (nth_error (s_ths s) i = None) by (apply nth_error_None; lia). congruence.
Qed.

Theorem eventual_once sched :
  Forall (fun ia => good (snd ia)) sched ->
  forall t, nth_error (s_ths (run sched (spawn st c))) i0 = Some t -> t_pc t = Done ->
  count200 W (s_log (run sched (spawn st c))) = 1.
Proof.
  intros Hs.
  assert (G : forall s, Q s -> Q (run sched s)).
  { induction Hs as [|[i a] l Hg Hl IH]; intros s HQ; simpl; auto. apply IH. apply Q_step; auto. }
  intros t Ht Hp. destruct (G _ Q_spawn) as (_ & _ & _ & t1 & Ht1 & _ & _ & HT).
  rewrite Ht in Ht1. injection Ht1 as <-.
  destruct HT as [[H1 _] | [(_ & Hp' & _) | (_ & _ & Hp')]]; auto.
  - congruence.
  - unfold pend in Hp'. rewrite Hp in Hp'. contradiction.
Qed.

End Further.
