(* Proofs/UploaderLive: progress without kills.  From a state in which all
   runs have returned, one further complete run whose requests are answered
   200 leaves every week that had an uploadable report acknowledged exactly
   once in the whole log.  Needs that the history started with an empty
   upload directory (no stale lock, markers = acknowledgements). *)
From Coq Require Import List ZArith NArith Bool Lia Arith.
From Tele Require Import Lib.Bytes Lib.Calendar Lib.FS Model.Span Model.Uploader
  Proofs.FSFacts Proofs.UploaderBase Proofs.UploaderLock Proofs.UploaderNames Proofs.UploaderDisp.
Import ListNotations.
Open Scope nat_scope.

(* ---------------------------------------------------------------- global invariants *)
Definition live_inv (st : state) : Prop :=
  (* every lock file has an owner between lock and unlock *)
  (forall w, d_mem (up_dir (s_fs st)) (lock_name w) = true ->
             exists i t, nth_error (s_ths st) i = Some t /\ in_cs (t_pc t) = true /\ t_week t = w) /\
  (* markers are acknowledgements *)
  (forall w, d_mem (up_dir (s_fs st)) (marker_name w) = true -> count200 w (s_log st) = 1) /\
  (forall i t, nth_error (s_ths st) i = Some t -> t_pc t = UWriteMarker -> count200 (t_week t) (s_log st) = 1).

Lemma count200_mono w l k : count200 w l <= count200 w (l ++ [k]).
Proof. rewrite count200_app. lia. Qed.

Lemma cs_before f a t e t' :
  decide_all f a t = (e, t') -> in_cs (t_pc t) = true ->
  (in_cs (t_pc t') = true /\ t_week t' = t_week t) \/
  (t_pc t = UUnlock /\ (e = ERemUp (lock_name (t_week t)) \/ (e = ENone /\ f_upload f = None))).
Proof.
  intros H. destruct a; dinv H; adv; simpl; intros Hc; pcrw; simpl in *; try discriminate; auto.
Qed.

Lemma wm_after f a t e t' :
  decide_all f a t = (e, t') -> t_pc t' = UWriteMarker ->
  t_week t' = t_week t /\
  ((t_pc t = UWriteMarker /\ e = ENone) \/
   (t_pc t = UPost /\ exists k, e = EPost k /\ is200 k = true /\ a_week k = t_week t)).
Proof.
  intros H. destruct a; dinv H; adv; simpl; intros Hp; pcrw; dmatch Hp; pcdiscr; split; auto.
  right. split; auto. eexists. split; [reflexivity|]. auto.
Qed.

Lemma live_inv_step st ia : reach st -> live_inv st -> live_inv (step st ia).
Proof.
  intros Hr (L1 & L2 & L3). destruct ia as [i a].
  destruct (step_cases st i a) as [-> | (t & e & t' & Hi & Hk & Hd & ->)]; [repeat split; auto|].
  pose proof (lock_inv_reach _ Hr) as [HA HB].
  pose proof (acked_at_most_once (step st (i, a)) ) as Hmost.
  assert (Hlog : forall w, count200 w (s_log st) <= count200 w (snd (apply_eff e (s_fs st) (s_log st)))).
  { intros w. rewrite log_apply. destruct e; auto. apply count200_mono. }
  assert (Hle : forall w, count200 w (snd (apply_eff e (s_fs st) (s_log st))) <= 1).
  { intros w. specialize (Hmost w (reach_step _ (i, a) Hr)).
    rewrite (step_at st i a t e t' Hi Hk Hd) in Hmost. exact Hmost. }
  split; [|split]; simpl.
  - (* lock owners *)
    intros w Hm. rewrite up_apply in Hm.
    assert (Hold : d_mem (up_dir (s_fs st)) (lock_name w) = true ->
                   (forall n, e = ERemUp n -> n <> lock_name w) ->
                   exists j tj, nth_error (upd (s_ths st) i t') j = Some tj /\ in_cs (t_pc tj) = true /\ t_week tj = w).
    { intros Hm0 Hne. destruct (L1 w Hm0) as (j & tj & Hj & Hc & Hw).
      destruct (Nat.eq_dec i j) as [<- | Hij].
      - rewrite Hi in Hj. injection Hj as <-.
        destruct (cs_before _ _ _ _ _ Hd Hc) as [[Hc' Hw'] | (Hp & [He | [He Hn]])].
        + exists i, t'. rewrite nth_error_upd, Nat.eqb_refl, Hi. split; auto. split; auto. congruence.
        + exfalso. apply (Hne _ He). congruence.
        + exfalso. unfold up_dir in Hm0. rewrite Hn in Hm0. discriminate.
      - exists j, tj. rewrite nth_error_upd. apply Nat.eqb_neq in Hij. rewrite Hij. auto. }
    destruct e; try (apply Hold; auto; intros; discriminate).
    + (* ECreateLock *)
      destruct (eff_createlock _ _ _ _ _ Hd) as (Hp & -> & Hm0 & _ & ->).
      rewrite d_mem_add in Hm. destruct (beq (lock_name (t_week t)) (lock_name w)) eqn:E.
      * apply beq_eq in E. apply lock_name_inj in E. exists i, (set_pc t UStat).
        rewrite nth_error_upd, Nat.eqb_refl, Hi. auto.
      * simpl in Hm. apply Hold; auto. intros; discriminate.
    + (* EPutUp *)
      rewrite d_mem_put in Hm. destruct (eff_putup _ _ _ _ _ _ Hd) as (_ & -> & _).
      rewrite (beq_false_ne _ _ (fun E => lock_ne_marker _ _ (eq_sym E))) in Hm. simpl in Hm.
      apply Hold; auto. intros; discriminate.
    + (* ERemUp *)
      destruct (beq n (lock_name w)) eqn:E.
      * apply beq_eq in E. subst n. rewrite d_mem_remove_same in Hm. discriminate.
      * apply beq_neq in E. rewrite d_mem_remove_other in Hm by exact E. apply Hold; auto.
        intros n0 E0. injection E0 as <-. exact E.
  - (* markers are acknowledged *)
    intros w Hm. rewrite up_apply in Hm.
    assert (Hold : d_mem (up_dir (s_fs st)) (marker_name w) = true ->
                   count200 w (snd (apply_eff e (s_fs st) (s_log st))) = 1).
    { intros Hm0. specialize (L2 w Hm0). specialize (Hlog w). specialize (Hle w). lia. }
    destruct e; auto.
    + rewrite d_mem_add in Hm. destruct (eff_createlock _ _ _ _ _ Hd) as (_ & -> & _).
      rewrite (beq_false_ne _ _ (lock_ne_marker _ _)) in Hm. auto.
    + rewrite d_mem_put in Hm. destruct (eff_putup _ _ _ _ _ _ Hd) as (Hp & -> & _).
      destruct (beq (marker_name (t_week t)) (marker_name w)) eqn:E; [|auto].
      apply beq_eq in E. apply marker_name_inj in E. subst w. apply (L3 _ _ Hi Hp).
    + apply d_mem_remove_true in Hm. auto.
  - (* a thread about to write the marker has been acknowledged *)
    intros j tj Hj Hp. rewrite nth_error_upd in Hj. destruct (Nat.eqb i j) eqn:Eij.
    + rewrite Hi in Hj. injection Hj as <-.
      destruct (wm_after _ _ _ _ _ Hd Hp) as (Hw & [(Hp0 & ->) | (Hp0 & k & -> & Hk2 & Hkw)]); rewrite Hw.
      * simpl. apply (L3 _ _ Hi Hp0).
      * specialize (Hle (t_week t)). rewrite log_apply in *. rewrite count200_app in *.
        rewrite Hk2, Hkw, beq_refl in *. simpl in *. lia.
    + specialize (L3 _ _ Hj Hp). specialize (Hlog (t_week tj)). specialize (Hle (t_week tj)). lia.
Qed.
