(* Proofs/WriterFacts: one writer's operations (openMapped, newCounter, Add on
   the returned pointer, extend, close and reopen) keep the file well-formed;
   the allocation limit only grows and stays within the file. *)
From Coq Require Import List Arith NArith ZArith Bool Lia Permutation.
From Tele Require Import Lib.Bytes Lib.BytesN Gen.Consts Model.DecodeStack Model.Layout
  Proofs.LayoutArith Proofs.LayoutRead Proofs.LayoutWrite.
Import ListNotations.
Open Scope N_scope.

(* ---------------------------------------------------------------- small facts *)

Lemma len_0_nil (l : bytes) : len l = 0 -> l = [].
Proof. destruct l; [reflexivity|]. rewrite len_cons. lia. Qed.

Lemma dropN_all l n : len l <= n -> dropN l n = [].
Proof. intro H. apply len_0_nil. rewrite len_dropN. lia. Qed.

Lemma takeN_0 l : takeN l 0 = [].
Proof. destruct l; reflexivity. Qed.

Lemma getb_zero4 k : getb [0; 0; 0; 0] k = 0.
Proof.
  rewrite getb_nth. destruct (N.to_nat k) as [|[|[|[|[|j]]]]]; reflexivity.
Qed.

Lemma get32_zero bs off : (forall i, i < 4 -> getb bs (off + i) = 0) -> get32 bs off = 0.
Proof.
  intro H. rewrite get32_getb. rewrite <- (N.add_0_r off) at 1. rewrite !H by lia. reflexivity.
Qed.

Lemma get64_zero bs off : (forall i, i < 8 -> getb bs (off + i) = 0) -> get64 bs off = 0.
Proof.
  intro H. unfold get64. rewrite !get32_zero; [reflexivity| |].
  - intros i Hi. rewrite <- N.add_assoc. apply H. lia.
  - intros i Hi. apply H. lia.
Qed.

(* WriteAt of four zero bytes ending at e, at least four bytes past the end *)
Lemma write_zeros_tail bs e : len bs + 4 <= e ->
  write_at bs (e - 4) [0; 0; 0; 0] = bs ++ zeros (e - len bs).
Proof.
  intro H. unfold write_at. change (len [0; 0; 0; 0]) with 4.
  replace (e - 4 + 4) with e by lia.
  destruct (N.ltb_spec (len bs) e) as [_|X]; [|lia].
  apply bytes_ext.
  - rewrite len_put; [reflexivity|]. change (len [0; 0; 0; 0]) with 4. rewrite len_app, len_zeros. lia.
  - intros i Hi. rewrite getb_put by (change (len [0; 0; 0; 0]) with 4; rewrite len_app, len_zeros; lia).
    change (len [0; 0; 0; 0]) with 4.
    destruct ((e - 4 <=? i) && (i <? e - 4 + 4)) eqn:E; [|reflexivity].
    apply andb_true_iff in E as [E1 E2]. apply N.leb_le in E1.
    rewrite getb_zero4. rewrite getb_app_r by lia. now rewrite getb_zeros.
Qed.

Lemma write_at_nil h : write_at [] 0 h = h.
Proof.
  unfold write_at. rewrite len_nil, N.add_0_l, N.sub_0_r.
  destruct (N.ltb_spec 0 (len h)) as [Hl|Hl].
  - cbn [app]. rewrite put_spec by (rewrite len_zeros; lia).
    rewrite takeN_0, N.add_0_l, dropN_all by (rewrite len_zeros; lia). cbn [app]. apply app_nil_r.
  - assert (E : h = []) by (apply len_0_nil; lia). subst h. reflexivity.
Qed.

Lemma slice_app_r_eq a b k n : k = len a -> n <= len b -> slice (a ++ b) k n = slice b 0 n.
Proof. intros -> H. now apply slice_app_r. Qed.

Lemma has_prefix_app_l bs t p : has_prefix bs p = true -> has_prefix (bs ++ t) p = true.
Proof.
  rewrite !has_prefix_app. intros [u ->]. exists (u ++ t). now rewrite app_assoc.
Qed.

(* ---------------------------------------------------------------- the header *)

Lemma zeros_0 : zeros 0 = [].
Proof. reflexivity. Qed.

Lemma mapped_header_shape meta h : mapped_header meta = Some h ->
  h = c_hdrPrefix ++ le32 (len h) ++ meta ++ zeros (len h - 32 - len meta).
Proof.
  intro H. pose proof (mapped_header_len _ _ H) as (El & Hm & Hb & _).
  unfold mapped_header in H. destruct (c_maxMetaLen <? len meta); [discriminate|].
  assert (En : round_int (hdr_np + 4 + len meta) 32 = len h).
  { rewrite hdr_np_val, round_int_32, El. f_equal. f_equal. lia. }
  rewrite En in H. rewrite hdr_np_val in H. change (28 - len c_hdrPrefix) with 0 in H.
  rewrite zeros_0 in H. cbn [app] in H.
  unfold u32 in H. rewrite N.mod_small in H by lia.
  replace (len h - (28 + 4 + len meta)) with (len h - 32 - len meta) in H by lia.
  congruence.
Qed.

Lemma index_byte_app_notin a b c : ~ In c a ->
  index_byte (a ++ b) c = match index_byte b c with Some i => Some (length a + i)%nat | None => None end.
Proof.
  induction a as [|x a IH]; intro H; cbn [app index_byte length].
  - destruct (index_byte b c); reflexivity.
  - destruct (N.eqb_spec x c) as [->|_]; [exfalso; apply H; now left|].
    rewrite IH by (intro; apply H; now right). destruct (index_byte b c); reflexivity.
Qed.

Lemma index_byte_zeros k : index_byte (zeros k) 0 = if k =? 0 then None else Some 0%nat.
Proof.
  rewrite zeros_repeat. destruct (N.eqb_spec k 0) as [->|H]; [reflexivity|].
  destruct (N.to_nat k) eqn:E; [lia|]. reflexivity.
Qed.

Lemma cut_nul_app_zeros meta k : ~ In 0 meta -> cut_nul (meta ++ zeros k) = meta.
Proof.
  intro H. unfold cut_nul. rewrite index_byte_app_notin by exact H. rewrite index_byte_zeros.
  destruct (k =? 0) eqn:E.
  - apply N.eqb_eq in E. subst k. rewrite zeros_0. apply app_nil_r.
  - rewrite Nat.add_0_r. rewrite firstn_app, firstn_all, Nat.sub_diag. cbn [firstn]. apply app_nil_r.
Qed.

(* a file that starts with mappedHeader(meta), meta free of NUL, has that header *)
Lemma spec_header_of_prefix bs meta h :
  mapped_header meta = Some h -> has_prefix bs h = true -> ~ In 0 meta -> len h + 2052 <= len bs ->
  spec_header bs = Some (len h, meta).
Proof.
  intros Hm Hp Hn Hfit. pose proof (mapped_header_len _ _ Hm) as (El & Hml & Hb & _ & Hmeta).
  pose proof (mapped_header_shape _ _ Hm) as Sh.
  pose proof Hp as Hp'. apply has_prefix_slice in Hp' as [Hl Hs].
  assert (G28 : get32 bs 28 = len h).
  { transitivity (get32 h 28).
    - rewrite <- Hs. symmetry. apply get32_agree. intros i Hi1 Hi2. rewrite getb_slice by lia. now rewrite N.add_0_l.
    - rewrite Sh at 1. change 28 with (len c_hdrPrefix + 0). rewrite get32_app_r. apply get32_le32. lia. }
  assert (Gm : slice bs 32 (len h - 32) = meta ++ zeros (len h - 32 - len meta)).
  { transitivity (slice h 32 (len h - 32)).
    - rewrite <- Hs at 2. rewrite slice_slice by lia. reflexivity.
    - rewrite Sh at 1. rewrite app_assoc.
      rewrite (slice_app_r_eq (c_hdrPrefix ++ le32 (len h)) _ 32)
        by (try reflexivity; rewrite len_app, len_zeros; lia).
      set (X := meta ++ zeros (len h - 32 - len meta)).
      assert (EX : len X = len h - 32) by (unfold X; rewrite len_app, len_zeros; lia).
      rewrite <- EX. apply slice_all. }
  unfold spec_header. rewrite hdr_np_val. change (28 + 4) with 32. change (4 * 512) with 2048.
  assert (Hpp : has_prefix bs c_hdrPrefix = true).
  { apply has_prefix_app in Hp as [t ->]. rewrite Sh. rewrite <- !app_assoc.
    apply has_prefix_app. eexists. reflexivity. }
  rewrite Hpp. cbn [negb]. rewrite G28.
  destruct (N.ltb_spec (len h) 32) as [|_]; [lia|]. cbn [orb].
  destruct (N.ltb_spec 16384 (len h)) as [|_]; [lia|]. cbn [orb].
  destruct (mapped_header_len _ _ Hm) as (_ & _ & _ & Hmod & _). rewrite Hmod.
  change (0 =? 0) with true. cbn [negb orb].
  destruct (N.ltb_spec (len bs) (len h + 4 + 2048)) as [|_]; [lia|].
  rewrite Gm, cut_nul_app_zeros by exact Hn. reflexivity.
Qed.

Lemma prefix_len_field bs meta h :
  mapped_header meta = Some h -> has_prefix bs h = true -> get32 bs 28 = len h.
Proof.
  intros Hm Hp. pose proof (mapped_header_len _ _ Hm) as (El & Hml & Hb & _).
  pose proof (mapped_header_shape _ _ Hm) as Sh.
  apply has_prefix_slice in Hp as [Hl Hs].
  transitivity (get32 h 28).
  - rewrite <- Hs. symmetry. apply get32_agree. intros i Hi1 Hi2. rewrite getb_slice by lia. now rewrite N.add_0_l.
  - rewrite Sh at 1. change 28 with (len c_hdrPrefix + 0). rewrite get32_app_r. apply get32_le32. lia.
Qed.

(* ---------------------------------------------------------------- invariant *)

Definition handle_ok (meta : bytes) (hdr : N) (bs : bytes) : Prop :=
  exists h, mapped_header meta = Some h /\ has_prefix bs h = true /\ hdr = len h.

(* everything at and after the allocation limit (the first record position
   when there is none yet) is zero *)
Definition tail_zero (bs : bytes) (hdr : N) : Prop :=
  forall i, (if get32 bs hdr =? 0 then first_off hdr else get32 bs hdr) <= i -> getb bs i = 0.

(* the last four bytes of the first page (the bytes openMapped's second
   creation write covers) are the same in b as in a *)
Definition tail4_same (a b : bytes) : Prop :=
  forall i, 16380 <= i -> i < 16384 -> getb b i = getb a i.

Record Inv (s : wstate) : Prop := {
  inv_read : exists m kv limit tbl, spec_read (w_bs s) = Some (w_hdr s, m, kv, limit, tbl);
  inv_handle : handle_ok (w_meta s) (w_hdr s) (w_bs s);
  inv_tail : tail_zero (w_bs s) (w_hdr s)
}.

Definition meta_ok (meta : bytes) : Prop :=
  len meta <= 512 /\ ~ In 0 meta /\ meta_kv meta <> None.

(* ---------------------------------------------------------------- openMapped, extend *)

Lemma open_mapped_big bs meta h : mapped_header meta = Some h -> 16384 <= len bs ->
  open_mapped bs meta = if has_prefix bs h then OpenOk (len h) bs else OpenErrHdr.
Proof.
  intros Hm Hl. unfold open_mapped. rewrite Hm. change c_minFileLen with 16384.
  destruct (N.ltb_spec (len bs) 16384) as [|_]; [lia|].
  pose proof (mapped_header_len _ _ Hm) as (_ & _ & Hb & _).
  unfold u32. rewrite N.mod_small by lia. reflexivity.
Qed.

Lemma round_page_mult e : round_u32 e c_pageSize mod 16384 = 0.
Proof. rewrite round_u32_page. apply N.mod_mul. lia. Qed.

Lemma extend_ok meta hdr bs e : handle_ok meta hdr bs -> len bs mod 16384 = 0 -> 16384 <= len bs ->
  extend meta bs e = Some (bs ++ zeros (round_u32 e c_pageSize - len bs)).
Proof.
  intros (h & Hm & Hp & _) Hmod Hl. unfold extend.
  pose proof (round_page_mult e) as He'. set (e' := round_u32 e c_pageSize) in *.
  destruct (N.ltb_spec (len bs) e') as [Hlt|Hge].
  - assert (len bs + 16384 <= e') by divlia.
    rewrite write_zeros_tail by lia.
    rewrite (open_mapped_big _ _ _ Hm) by (rewrite len_app; lia).
    rewrite has_prefix_app_l by exact Hp.
    destruct (N.ltb_spec (len (bs ++ zeros (e' - len bs))) e') as [X|_]; [|reflexivity].
    rewrite len_app, len_zeros in X. lia.
  - rewrite (open_mapped_big _ _ _ Hm) by exact Hl. rewrite Hp.
    destruct (N.ltb_spec (len bs) e') as [X|_]; [lia|].
    replace (e' - len bs) with 0 by lia. rewrite zeros_0, app_nil_r. reflexivity.
Qed.

(* growing keeps the invariant's parts *)
Lemma handle_ok_app meta hdr bs t : handle_ok meta hdr bs -> handle_ok meta hdr (bs ++ t).
Proof. intros (h & Hm & Hp & E). exists h. repeat split; try assumption. now apply has_prefix_app_l. Qed.

Lemma tail_zero_app bs hdr k : tail_zero bs hdr -> tail_zero (bs ++ zeros k) hdr.
Proof.
  intros H i Hi. rewrite getb_app_zeros. apply H.
  rewrite (get32_agree bs (bs ++ zeros k)) by apply agree_app_zeros. exact Hi.
Qed.

(* ---------------------------------------------------------------- create *)

Lemma Forall2_map_same {A B} (R : A -> B -> Prop) (f : A -> B) l :
  (forall i, In i l -> R i (f i)) -> Forall2 R l (map f l).
Proof.
  induction l as [|x t IH]; intro H; cbn [map]; constructor.
  - apply H. now left.
  - apply IH. intros i Hi. apply H. now right.
Qed.

Lemma concat_map_nil {A B} (l : list A) : concat (map (fun _ => @nil B) l) = [].
Proof. induction l; [reflexivity|]. cbn. assumption. Qed.

Lemma create_new meta h : mapped_header meta = Some h ->
  create [] meta = Some {| w_meta := meta; w_hdr := len h; w_bs := h ++ zeros (16384 - len h) |}.
Proof.
  intro Hm. pose proof (mapped_header_len _ _ Hm) as (_ & _ & Hb & _).
  unfold create, open_mapped. rewrite Hm. rewrite len_nil. change c_minFileLen with 16384.
  change (0 <? 16384) with true. cbv iota. rewrite write_at_nil.
  change (16384 - 4) with 16380. replace 16380 with (16384 - 4) by reflexivity.
  rewrite write_zeros_tail by lia.
  replace (has_prefix (h ++ zeros (16384 - len h)) h) with true.
  - unfold u32. rewrite N.mod_small by lia. reflexivity.
  - symmetry. apply has_prefix_app. eexists. reflexivity.
Qed.

Lemma fresh_file_read meta h kv : mapped_header meta = Some h -> ~ In 0 meta -> meta_kv meta = Some kv ->
  spec_read (h ++ zeros (16384 - len h)) = Some (len h, meta, kv, 0, map (fun _ => []) buckets).
Proof.
  intros Hm Hn Hk. pose proof (mapped_header_len _ _ Hm) as (_ & _ & Hb & _).
  set (bs := h ++ zeros (16384 - len h)).
  assert (Hlen : len bs = 16384) by (unfold bs; rewrite len_app, len_zeros; lia).
  assert (Hz : forall i, len h <= i -> getb bs i = 0).
  { intros i Hi. unfold bs. rewrite getb_app_r by exact Hi. apply getb_zeros. }
  assert (Hp : has_prefix bs h = true) by (apply has_prefix_app; eexists; reflexivity).
  apply spec_read_intro; rewrite ?Hlen; try reflexivity; try lia.
  - apply spec_header_of_prefix; try assumption. lia.
  - exact Hk.
  - symmetry. apply get32_zero. intros i Hi. apply Hz. lia.
  - apply Forall2_map_same. intros i Hi. unfold bucket_ok.
    replace (get32 bs (head_off (len h) i)) with 0.
    + unfold spec_bucket. rewrite spec_chain_0. reflexivity.
    + symmetry. apply get32_zero. intros j Hj. apply Hz. rewrite head_off_val. lia.
Qed.

Lemma create_inv meta s0 : create [] meta = Some s0 -> meta_ok meta -> Inv s0.
Proof.
  intros Hc (Hl & Hn & Hk).
  destruct (mapped_header meta) as [h|] eqn:Hm.
  2:{ unfold create, open_mapped in Hc. rewrite Hm in Hc. discriminate. }
  rewrite (create_new _ _ Hm) in Hc.
  assert (Es : s0 = {| w_meta := meta; w_hdr := len h; w_bs := h ++ zeros (16384 - len h) |}) by congruence.
  clear Hc. subst s0.
  destruct (meta_kv meta) as [kv|] eqn:Ek; [|contradiction].
  pose proof (mapped_header_len _ _ Hm) as (_ & _ & Hb & _).
  constructor; cbn [w_bs w_hdr w_meta].
  - exists meta, kv, 0, (map (fun _ => []) buckets). now apply fresh_file_read.
  - exists h. repeat split; [assumption|apply has_prefix_app; eexists; reflexivity].
  - unfold tail_zero. cbn [w_bs w_hdr w_meta]. intros i Hi.
    assert (E0 : get32 (h ++ zeros (16384 - len h)) (len h) = 0).
    { apply get32_zero. intros j Hj. rewrite getb_app_r by lia. apply getb_zeros. }
    rewrite E0 in Hi. change (0 =? 0) with true in Hi. cbv iota in Hi. rewrite first_off_val in Hi.
    rewrite getb_app_r by lia. apply getb_zeros.
Qed.

(* ---------------------------------------------------------------- the name length word *)

Lemma name_word_ok n : 1 <= n <= 4096 ->
  N.lor (u32 n) name_tag < 4294967296 /\ N.lor (u32 n) name_tag mod 16777216 = n.
Proof.
  intro H. unfold u32. rewrite N.mod_small by lia. split.
  - destruct (N.eq_dec (N.lor n name_tag) 0) as [->|Hz]; [lia|].
    change 4294967296 with (2 ^ 32). apply N.log2_lt_pow2; [lia|].
    rewrite N.log2_lor. apply N.max_lub_lt; [|reflexivity].
    apply N.log2_lt_pow2; [lia|]. change (2 ^ 32) with 4294967296. lia.
  - change 16777216 with (2 ^ 24). rewrite <- N.land_ones, N.land_lor_distr_l.
    change (N.land name_tag (N.ones 24)) with 0. rewrite N.lor_0_r, N.land_ones.
    apply N.mod_small. change (2 ^ 24) with 16777216. lia.
Qed.

(* ---------------------------------------------------------------- newCounter *)

Lemma pairwise_names (l : list rec) : pairwise rec_compat l = true -> NoDup (map r_name l).
Proof.
  induction l as [|x t IH]; cbn [pairwise map]; [constructor|].
  intro H. apply andb_true_iff in H as [H1 H2]. constructor; [|now apply IH].
  rewrite forallb_forall in H1. intro Hin. apply in_map_iff in Hin as (y & Ey & Hy).
  specialize (H1 y Hy). unfold rec_compat in H1. apply andb_true_iff in H1 as [_ H1].
  apply negb_true_iff in H1. apply beq_neq in H1. congruence.
Qed.

(* the chain of a bucket in a well-formed file *)
Lemma bucket_chain bs hdr limit tbl h : Forall2 (bucket_ok bs hdr limit) buckets tbl -> h < 512 ->
  exists c, In c tbl /\ spec_chain (chain_fuel limit) bs hdr limit (get32 bs (head_off hdr h)) = Some c /\
            Forall (fun r => hash (r_name r) = h) c.
Proof.
  intros Ht Hh. assert (Hi : In h buckets) by (now apply buckets_in).
  destruct (Forall2_in_l _ _ _ _ Ht Hi) as (c & Hc & Hb). exists c. split; [exact Hc|].
  now apply spec_bucket_inv.
Qed.

Lemma record_bucket bs hdr limit tbl r : Forall2 (bucket_ok bs hdr limit) buckets tbl ->
  In r (concat tbl) ->
  exists c, In r c /\ spec_chain (chain_fuel limit) bs hdr limit (get32 bs (head_off hdr (hash (r_name r)))) = Some c.
Proof.
  intros Ht Hr. destruct (Forall2_concat_in _ _ _ _ Ht Hr) as (i & c & Hi & Hb & _ & Hx).
  apply spec_bucket_inv in Hb as [Hc Hh]. rewrite Forall_forall in Hh. rewrite (Hh r Hx).
  exists c. split; assumption.
Qed.

Section NewCounter.
  Variables (meta : bytes) (hdr : N) (bs : bytes) (m : bytes) (kv : list (bytes * bytes))
            (limit : N) (tbl : list (list rec)) (name : bytes).
  Hypothesis Hread : spec_read bs = Some (hdr, m, kv, limit, tbl).
  Hypothesis Hhandle : handle_ok meta hdr bs.
  Hypothesis Htail : tail_zero bs hdr.
  Hypothesis Hsmall : len bs + 65536 <= 4294967296.
  Hypothesis Hname : 1 <= len name <= 4096.

  Definition nc_post (r : nc_result) (bs' : bytes) : Prop :=
    exists off limit' tbl' rcd,
      r = NCOk off /\ spec_read bs' = Some (hdr, m, kv, limit', tbl') /\
      (limit <= limit' /\ (limit' = limit \/ limit' mod 32 = 0)) /\
      len bs <= len bs' /\ len bs' <= len bs + 32768 /\
      handle_ok meta hdr bs' /\ tail_zero bs' hdr /\ tail4_same bs bs' /\
      In rcd (concat tbl') /\ r_off rcd = off /\ r_name rcd = name /\
      ((bs' = bs /\ tbl' = tbl /\ limit' = limit) \/
       (r_val rcd = 0 /\ Add rcd (concat tbl) (concat tbl') /\
        (forall r, In r (concat tbl) -> r_name r <> name))).

  Lemma new_counter_wf : nc_post (fst (new_counter meta hdr bs name)) (snd (new_counter meta hdr bs name)).
  Proof.
    pose proof (spec_read_inv _ _ _ _ _ _ Hread) as (Eh & Ek & El & H1 & H2 & H3 & H4 & H5 & Ht & Hp).
    pose proof (spec_header_inv _ _ _ Eh) as (_ & _ & Hb & _ & Hfit & _).
    assert (H544 : hdr <= 544).
    { destruct Hhandle as (h0 & Hm0 & _ & E0). destruct (mapped_header_len _ _ Hm0) as (_ & _ & X & _). lia. }
    pose proof (hash_lt name) as Hh.
    destruct (bucket_chain _ _ _ _ _ Ht Hh) as (c & Hc_in & Hc & Hc_hash).
    pose proof (spec_chain_length _ _ _ _ _ _ Hc) as Hclen.
    pose proof (head_off_val hdr (hash name)) as Eho.
    pose proof (first_off_val hdr) as Efo.
    unfold new_counter. change c_maxNameLen with 4096.
    destruct (N.eqb_spec (len name) 0) as [X|_]; [lia|].
    destruct (N.ltb_spec 4096 (len name)) as [X|_]; [lia|].
    unfold lookup_sz, load32_sz.
    destruct (N.ltb_spec (len bs) (head_off hdr (hash name) + 4)) as [X|_]; [lia|].
    assert (Hdiv : limit / 32 <= len bs / 32) by (apply N.div_le_mono; lia).
    rewrite (lookup_walk_chain bs hdr limit name _ _ _ _ 0 Hc H3).
    2:{ unfold chain_fuel in Hclen. change c_recordUnit with 32 in Hclen. lia. }
    2:{ unfold walk_fuel_sz, chain_fuel in *. change c_recordUnit with 32 in *. lia. }
    destruct (find_name name c) as [r|] eqn:Ef.
    - (* the name is there *)
      apply find_name_some in Ef as [Hr En]. cbn [fst snd].
      exists (r_off r), limit, tbl, r.
      split; [reflexivity|]. split; [exact Hread|]. split; [split; [lia|left; reflexivity]|]. split; [lia|]. split; [lia|].
      split; [exact Hhandle|]. split; [exact Htail|]. split; [intros i _ _; reflexivity|].
      split; [apply in_concat; exists c; split; assumption|]. split; [reflexivity|]. split; [exact En|].
      left. repeat split.
    - (* a new record *)
      apply find_name_none in Ef.
      assert (Hfresh : forall r, In r (concat tbl) -> r_name r <> name).
      { intros r Hr En. destruct (record_bucket _ _ _ _ _ Ht Hr) as (c' & Hrc & Hc').
        rewrite En in Hc'. rewrite Hc in Hc'. injection Hc' as <-.
        apply Ef. apply in_map_iff. exists r. split; assumption. }
      change c_limitOff with 0. rewrite N.add_0_r.
      destruct (N.ltb_spec (len bs) (hdr + 4)) as [X|_]; [lia|]. rewrite <- El.
      assert (Hlim32 : limit < 4294967296) by lia.
      assert (Hnw : place_lim hdr limit + 32768 <= 4294967296).
      { unfold place_lim. destruct (limit =? 0); lia. }
      pose proof (place_ok hdr limit (len name) Hname Hlim32 Hnw) as P.
      destruct (place hdr limit (len name)) as [start e]. cbv zeta in P.
      destruct P as (P1 & P2 & P3 & P4 & P5 & _).
      pose proof (rec_size_bounds _ Hname) as (R1 & R2 & R3).
      assert (Plim : (if limit =? 0 then first_off hdr else limit) <= start) by exact P2.
      assert (Hfs : first_off hdr <= start).
      { unfold place_lim in P2. destruct (N.eqb_spec limit 0); [exact P2|]. destruct H5; lia. }
      assert (Hle : start < len bs + 16384).
      { unfold place_lim in P3. destruct (N.eqb_spec limit 0); lia. }
      pose proof (name_word_ok _ Hname) as (W1 & W2).
      (* no uint32 overflow below the cap *)
      assert (Hnowrap : (start <? limit) || (e <? start) || (round_u32 e c_pageSize <? e) = false).
      { rewrite round_u32_page. unfold u32. rewrite (N.mod_small (e + 16383)) by lia.
        unfold place_lim in P2. apply orb_false_iff. split; [apply orb_false_iff; split|]; apply N.ltb_ge.
        - destruct (N.eqb_spec limit 0); lia.
        - lia.
        - divlia. }
      rewrite Hnowrap.
      (* the file after growing *)
      set (k := round_u32 e c_pageSize - len bs).
      assert (Hgrow : (if len bs <? e then extend meta bs e else Some bs) = Some (bs ++ zeros (if len bs <? e then k else 0))).
      { destruct (len bs <? e); [now apply (extend_ok meta hdr)|]. now rewrite zeros_0, app_nil_r. }
      rewrite Hgrow. clear Hgrow.
      set (k' := if len bs <? e then k else 0).
      set (bs1 := bs ++ zeros k').
      assert (Hk' : (len bs + k') mod 16384 = 0 /\ e <= len bs + k' /\ len bs + k' <= len bs + 32768).
      { unfold k', k. rewrite round_u32_page. unfold u32. rewrite (N.mod_small (e + 16383)) by lia.
        destruct (N.ltb_spec (len bs) e); divlia. }
      destruct Hk' as (K1 & K2 & K3).
      assert (Hlen1 : len bs1 = len bs + k') by (unfold bs1; rewrite len_app, len_zeros; reflexivity).
      pose proof (grow_ok _ _ _ _ _ _ k' Hread K1) as Hread1. fold bs1 in Hread1.
      rewrite Hlen1.
      destruct (N.ltb_spec (len bs + k') e) as [X|_]; [lia|].
      destruct (N.ltb_spec start (first_off hdr)) as [X|_]; [lia|]. cbn [orb].
      destruct (N.ltb_spec (len bs + k') (start + 16 + len name)) as [X|_]; [lia|].
      cbn [fst snd].
      assert (Ehead : get32 bs (head_off hdr (hash name)) = get32 bs1 (head_off hdr (hash name))).
      { apply get32_agree. apply agree_app_zeros. }
      rewrite Ehead.
      fold (link_record hdr bs1 start e (N.lor (u32 (len name)) name_tag)
              (get32 bs1 (head_off hdr (hash name))) name).
      assert (Hfresh1 : forall r, In r (concat tbl) -> r_name r <> name) by exact Hfresh.
      pose proof (link_all bs1 hdr m kv limit tbl Hread1 start e (N.lor (u32 (len name)) name_tag) name
                    Hname P1 Plim P4 ltac:(lia) ltac:(lia) P5 W1 W2 Hfresh1)
        as (L1 & L2 & L3 & L4 & L5 & L6).
      set (bs' := link_record hdr bs1 start e (N.lor (u32 (len name)) name_tag)
                    (get32 bs1 (head_off hdr (hash name))) name) in *.
      assert (Hv0 : get64 bs1 start = 0).
      { apply get64_zero. intros i Hi. unfold bs1. apply (tail_zero_app bs hdr k' Htail (start + i)).
        rewrite (get32_agree (bs ++ zeros k') bs) by (apply agree_sym, agree_app_zeros).
        rewrite <- El. lia. }
      rewrite Hv0 in *.
      assert (Hls : limit <= e).
      { unfold place_lim in P2. destruct (N.eqb_spec limit 0); lia. }
      assert (Hl' : len bs' = len bs + k') by exact (eq_trans L3 Hlen1).
      exists start, e, (zip_upd buckets (hash name) (start, name, 0) tbl), (start, name, 0).
      split; [reflexivity|]. split; [exact L1|].
      split; [split; [lia|right; rewrite P4; pose proof P1 as P1'; divlia]|]. split; [lia|]. split; [lia|].
      split; [|split; [|split; [|split; [|split; [reflexivity|split; [reflexivity|]]]]]].
      + destruct Hhandle as (h0 & Hm0 & Hp0 & E0). exists h0. repeat split; try assumption.
        eapply has_prefix_agree; [apply (has_prefix_app_l bs (zeros k') h0 Hp0)|lia|].
        fold bs1. rewrite <- E0. apply L4; lia.
      + (* the tail stays zero *)
        intros i Hi.
        assert (Ee : get32 bs' hdr = e).
        { apply spec_read_inv in L1. destruct L1 as (_ & _ & L1 & _). now symmetry. }
        rewrite Ee in Hi. destruct (N.eqb_spec e 0) as [X|_]; [lia|].
        rewrite <- (L4 i (i + 1)) by lia.
        unfold bs1. apply (tail_zero_app bs hdr k' Htail i).
        rewrite (get32_agree (bs ++ zeros k') bs) by (apply agree_sym, agree_app_zeros).
        rewrite <- El. lia.
      + (* the last four bytes of the first page are not touched *)
        intros i Hi1 Hi2. rewrite <- (L4 i (i + 1)).
        * unfold bs1. apply getb_app_zeros.
        * lia.
        * assert (start + rec_size (len name) <= 16352 \/ 16384 <= start) by divlia. lia.
        * lia.
        * lia.
        * lia.
      + apply (Add_in L2). now left.
      + right. repeat split; assumption.
  Qed.
End NewCounter.
