(* Proofs/UploaderLockOwner: a lock file of upload/ disappears only by the
   unlock step of the live thread that holds it; hence no step of another
   thread - in particular nothing a run does at its end - releases the lock
   of a thread whose request is in flight. *)
From Coq Require Import List ZArith NArith Bool Lia Arith.
From Tele Require Import Lib.Bytes Lib.FS Model.Span Model.Uploader
  Proofs.FSFacts Proofs.UploaderBase Proofs.UploaderLock.
Import ListNotations.

(* any name of upload/ that disappears is the lock of the stepping thread's week, removed at its unlock *)
Theorem up_removed_by_holder st i a n :
  d_mem (up_dir (s_fs st)) n = true -> d_mem (up_dir (s_fs (step st (i, a)))) n = false ->
  exists t, nth_error (s_ths st) i = Some t /\ t_killed t = false /\ t_pc t = UUnlock /\
            in_cs (t_pc t) = true /\ n = lock_name (t_week t).
Proof.
  intros Hb Ha.
  destruct (step_cases st i a) as [E | (t & e & t' & Hi & Hk & Hd & E)]; rewrite E in Ha; [congruence|].
  simpl in Ha. rewrite up_apply in Ha. destruct e.
  all: try congruence.
  - rewrite d_mem_add, Hb, orb_true_r in Ha. discriminate.
  - rewrite d_mem_put, Hb, orb_true_r in Ha. discriminate.
  - destruct (eff_remup _ _ _ _ _ Hd) as [Hp ->].
    destruct (beq (lock_name (t_week t)) n) eqn:Eb.
    + apply beq_eq in Eb. exists t. rewrite Hp. repeat split; auto.
    + rewrite d_mem_remove_other in Ha; [congruence|]. intros E'. rewrite E', beq_refl in Eb. discriminate.
Qed.

(* while thread j is in its critical section, a step of another thread leaves j's lock in place *)
Theorem lock_kept_by_others st i j a tj :
  reach st -> nth_error (s_ths st) j = Some tj -> in_cs (t_pc tj) = true -> i <> j ->
  d_mem (up_dir (s_fs (step st (i, a)))) (lock_name (t_week tj)) = true.
Proof.
  intros Hr Hj Hcs Hij.
  destruct (lock_inv_reach st Hr) as [HA HB].
  pose proof (HA _ _ Hj Hcs) as Hm.
  destruct (d_mem (up_dir (s_fs (step st (i, a)))) (lock_name (t_week tj))) eqn:E; [reflexivity|].
  destruct (up_removed_by_holder st i a _ Hm E) as (t & Hi & _ & _ & Hci & Hn).
  apply lock_name_inj in Hn. exfalso. exact (HB i j t tj Hij Hi Hj Hci Hcs (eq_sym Hn)).
Qed.
