(* Proofs/WriterInv: the invariant along every operation sequence of one
   writer; limit monotone and within the file; what an independent reader of
   the layout finds afterwards (the abstract map of the operations). *)
From Coq Require Import List Arith NArith ZArith Bool Lia Permutation.
From Tele Require Import Lib.Bytes Lib.BytesN Gen.Consts Model.DecodeStack Model.Layout
  Proofs.LayoutArith Proofs.LayoutRead Proofs.LayoutWrite Proofs.WriterFacts.
Import ListNotations.
Open Scope N_scope.

Definition small (s : wstate) : Prop := len (w_bs s) + 65536 <= 4294967296.

Definition pairs (rs : list rec) : list (bytes * N) := map (fun r => (r_name r, r_val r)) rs.

(* the state as the layout reader sees it *)
Definition reads (s : wstate) (rs : list rec) : Prop :=
  exists m kv limit tbl, spec_read (w_bs s) = Some (w_hdr s, m, kv, limit, tbl) /\ rs = concat tbl.

Lemma reads_records s rs : reads s rs -> spec_records (w_bs s) = Some rs.
Proof. intros (m & kv & limit & tbl & H & ->). unfold spec_records. now rewrite H. Qed.

Lemma Inv_reads s : Inv s -> exists rs, reads s rs.
Proof. intros [(m & kv & limit & tbl & H) _ _]. exists (concat tbl), m, kv, limit, tbl. now split. Qed.

Lemma reads_fun s rs rs' : reads s rs -> reads s rs' -> rs = rs'.
Proof.
  intros (m & kv & l & t & H & ->) (m' & kv' & l' & t' & H' & ->). rewrite H in H'. congruence.
Qed.

Lemma Inv_limit s : Inv s ->
  limit_of (w_bs s) = get32 (w_bs s) (w_hdr s) /\ limit_of (w_bs s) <= len (w_bs s).
Proof.
  intros [(m & kv & limit & tbl & H) _ _]. apply spec_read_inv in H.
  destruct H as (Eh & _ & El & _ & _ & H3 & _). unfold limit_of. rewrite Eh.
  change c_limitOff with 0. rewrite N.add_0_r. rewrite <- El. split; [reflexivity|exact H3].
Qed.

(* ---------------------------------------------------------------- Add on a record *)

Lemma rec_size_pos nl : 32 <= rec_size nl.
Proof. rewrite rec_size_eq. divlia. Qed.

Lemma compat_off_inj rs r r' : pairwise rec_compat rs = true -> In r rs -> In r' rs ->
  r_off r = r_off r' -> r = r'.
Proof.
  intros Hp Hr Hr' E. destruct (pairwise_In _ _ _ _ rec_compat_sym Hp Hr Hr') as [->|C]; [reflexivity|].
  exfalso. unfold rec_compat in C. apply andb_true_iff in C as [C _]. apply orb_true_iff in C.
  unfold r_end in C. pose proof (rec_size_pos (len (r_name r))). pose proof (rec_size_pos (len (r_name r'))).
  destruct C as [C|C]; apply N.leb_le in C; lia.
Qed.

Section AddAt.
  Variables (meta : bytes) (hdr : N) (bs : bytes) (m : bytes) (kv : list (bytes * bytes))
            (limit : N) (tbl : list (list rec)) (r0 : rec) (delta : N).
  Hypothesis Hread : spec_read bs = Some (hdr, m, kv, limit, tbl).
  Hypothesis Hhandle : handle_ok meta hdr bs.
  Hypothesis Htail : tail_zero bs hdr.
  Hypothesis Hin : In r0 (concat tbl).

  Let v' := u64 (r_val r0 + delta).
  Let bs' := add_at bs (r_off r0) delta.

  Lemma add_at_ok :
    spec_read bs' = Some (hdr, m, kv, limit, map (map (setval (r_off r0) v')) tbl) /\
    handle_ok meta hdr bs' /\ tail_zero bs' hdr /\ len bs' = len bs /\ tail4_same bs bs'.
  Proof.
    pose proof (spec_read_inv _ _ _ _ _ _ Hread) as (Eh & Ek & El & H1 & H2 & H3 & H4 & H5 & Ht & Hp).
    pose proof (wf_record_in _ _ _ _ _ Ht Hin) as [Hri _].
    pose proof (rec_in_facts _ _ _ _ Hri H3) as (_ & _ & _ & _ & F5 & _ & _ & Ev).
    pose proof (rec_size_pos (len (r_name r0))) as Hpos.
    assert (Hv : v' < 18446744073709551616) by (unfold v', u64; apply N.mod_lt; lia).
    pose proof (setval_all bs hdr m kv limit tbl Hread r0 v' Hin Hv) as (S1 & S2 & S3 & S4 & S5).
    assert (Eb : bs' = put bs (r_off r0) (le64 v')).
    { unfold bs', add_at, v'. now rewrite <- Ev. }
    rewrite Eb. pose proof (first_off_val hdr) as Efo.
    assert (Hag : forall lo hi, hi <= r_off r0 \/ r_off r0 + 8 <= lo ->
                                agree bs (put bs (r_off r0) (le64 v')) lo hi).
    { intros lo hi A. apply agree_put; rewrite len_le64; [lia|exact A]. }
    split; [exact S1|]. split; [|split; [|split; [exact S2|]]].
    3:{ intros i Hi1 Hi2. symmetry. apply (Hag i (i + 1)); try lia.
        assert (r_off r0 + rec_size (len (r_name r0)) <= 16352 \/ 16384 <= r_off r0) by divlia. lia. }
    - destruct Hhandle as (h0 & Hm0 & Hp0 & E0). exists h0. repeat split; try assumption.
      pose proof (mapped_header_len _ _ Hm0) as (_ & _ & Hb & _).
      eapply has_prefix_agree; [exact Hp0|rewrite S2; lia|]. apply Hag. lia.
    - intros i Hi.
      rewrite <- (get32_agree bs) in Hi by (apply Hag; lia).
      rewrite <- (Hag i (i + 1)) by (rewrite <- El in Hi; destruct (N.eqb_spec limit 0); lia).
      now apply Htail.
  Qed.
End AddAt.

(* ---------------------------------------------------------------- one step *)

Definition ok_result (o : op) (r : op_result) : Prop :=
  match o with
  | OpNew name | OpAdd name _ =>
      if len name =? 0 then r = REmpty else if 4096 <? len name then r = RLong else exists off, r = ROk off
  | OpExtend _ => r = RDone
  | OpReopen _ => r = RDone \/ r = RFail
  end.

(* what the operation does to the records an independent reader sees *)
Definition records_step (o : op) (r : op_result) (rs rs' : list rec) : Prop :=
  match o, r with
  | OpNew name, ROk off =>
      exists rcd, In rcd rs' /\ r_off rcd = off /\ r_name rcd = name /\
        (rs' = rs \/ (r_val rcd = 0 /\ Add rcd rs rs' /\ forall x, In x rs -> r_name x <> name))
  | OpAdd name delta, ROk off =>
      exists rcd mid, In rcd mid /\ r_off rcd = off /\ r_name rcd = name /\
        (mid = rs \/ (r_val rcd = 0 /\ Add rcd rs mid /\ forall x, In x rs -> r_name x <> name)) /\
        rs' = map (setval off (u64 (r_val rcd + delta))) mid
  | _, _ => rs' = rs
  end.

Lemma step_inv_r s o rs : Inv s -> small s -> reads s rs ->
  let '(r, s') := step s o in
  (limit_of (w_bs s') = limit_of (w_bs s) \/ limit_of (w_bs s') mod 32 = 0) /\
  Inv s' /\ ok_result o r /\ limit_of (w_bs s) <= limit_of (w_bs s') /\ len (w_bs s) <= len (w_bs s') /\
  tail4_same (w_bs s) (w_bs s') /\
  exists rs', reads s' rs' /\ records_step o r rs rs'.
Proof.
  intros HI Hs Hr. pose proof HI as [(m & kv & limit & tbl & Hread) Hh Ht].
  assert (Ers : rs = concat tbl).
  { eapply reads_fun; [exact Hr|]. exists m, kv, limit, tbl. now split. }
  subst rs.
  pose proof (Inv_limit _ HI) as [ELs _].
  pose proof (spec_read_inv _ _ _ _ _ _ Hread) as (Eh & Ek & El & H1 & H2 & H3 & H4 & H5 & Hft & Hp).
  destruct o as [name|name delta|e|meta']; cbn [step ok_result] in *.
  - (* OpNew *)
    destruct (N.eqb_spec (len name) 0) as [Hemp|Hv].
    { unfold new_counter. destruct (N.eqb_spec (len name) 0) as [_|X]; [|contradiction]. cbn [nc_to_op].
      destruct s as [sm sh sb]; cbn [w_meta w_hdr w_bs] in *.
      split; [left; reflexivity|]. split; [exact HI|]. split; [reflexivity|]. split; [lia|]. split; [lia|].
      split; [intros i _ _; reflexivity|].
      exists (concat tbl). split; [exact Hr|reflexivity]. }
    destruct (N.ltb_spec 4096 (len name)) as [Hlong|Hlen].
    + unfold new_counter. change c_maxNameLen with 4096.
      destruct (N.eqb_spec (len name) 0) as [X|_]; [contradiction|].
      destruct (N.ltb_spec 4096 (len name)) as [_|X]; [|lia]. cbn [nc_to_op].
      destruct s as [sm sh sb]; cbn [w_meta w_hdr w_bs] in *.
      split; [left; reflexivity|]. split; [exact HI|]. split; [reflexivity|]. split; [lia|]. split; [lia|].
      split; [intros i _ _; reflexivity|].
      exists (concat tbl). split; [exact Hr|reflexivity].
    + pose proof (new_counter_wf (w_meta s) (w_hdr s) (w_bs s) m kv limit tbl name Hread Hh Ht Hs
                    ltac:(lia)) as P.
      destruct (new_counter (w_meta s) (w_hdr s) (w_bs s) name) as [r bs']. cbn [fst snd] in P.
      destruct P as (off & limit' & tbl' & rcd & -> & R' & Hl & Hlen1 & Hlen2 & Hh' & Ht' & Ht4 & Hin & Eo & En & Hcase).
      cbn [nc_to_op].
      assert (HI' : Inv {| w_meta := w_meta s; w_hdr := w_hdr s; w_bs := bs' |}).
      { constructor; cbn [w_meta w_hdr w_bs]; [exists m, kv, limit', tbl'; exact R'|exact Hh'|exact Ht']. }
      pose proof (Inv_limit _ HI') as [EL' _]. cbn [w_bs w_hdr] in EL'.
      pose proof (spec_read_inv _ _ _ _ _ _ R') as (_ & _ & El' & _).
      split; [cbn [w_bs]; rewrite ELs, EL', <- El, <- El'; destruct Hl as [_ [->|X]]; [left; reflexivity|right; exact X]|].
      split; [exact HI'|]. split; [exists off; reflexivity|]. cbn [w_bs].
      split; [rewrite ELs, EL', <- El, <- El'; exact (proj1 Hl)|]. split; [exact Hlen1|]. split; [exact Ht4|].
      exists (concat tbl'). split; [exists m, kv, limit', tbl'; now split|].
      exists rcd. repeat split; try assumption.
      destruct Hcase as [(_ & -> & _)|(V0 & HA & Hf)]; [now left|right; repeat split; assumption].
  - (* OpAdd *)
    destruct (N.eqb_spec (len name) 0) as [Hemp|Hv].
    { unfold new_counter. destruct (N.eqb_spec (len name) 0) as [_|X]; [|contradiction]. cbn [nc_to_op].
      destruct s as [sm sh sb]; cbn [w_meta w_hdr w_bs] in *.
      split; [left; reflexivity|]. split; [exact HI|]. split; [reflexivity|]. split; [lia|]. split; [lia|].
      split; [intros i _ _; reflexivity|].
      exists (concat tbl). split; [exact Hr|reflexivity]. }
    destruct (N.ltb_spec 4096 (len name)) as [Hlong|Hlen].
    + unfold new_counter. change c_maxNameLen with 4096.
      destruct (N.eqb_spec (len name) 0) as [X|_]; [contradiction|].
      destruct (N.ltb_spec 4096 (len name)) as [_|X]; [|lia]. cbn [nc_to_op].
      destruct s as [sm sh sb]; cbn [w_meta w_hdr w_bs] in *.
      split; [left; reflexivity|]. split; [exact HI|]. split; [reflexivity|]. split; [lia|]. split; [lia|].
      split; [intros i _ _; reflexivity|].
      exists (concat tbl). split; [exact Hr|reflexivity].
    + pose proof (new_counter_wf (w_meta s) (w_hdr s) (w_bs s) m kv limit tbl name Hread Hh Ht Hs
                    ltac:(lia)) as P.
      destruct (new_counter (w_meta s) (w_hdr s) (w_bs s) name) as [r bs']. cbn [fst snd] in P.
      destruct P as (off & limit' & tbl' & rcd & -> & R' & Hl & Hlen1 & Hlen2 & Hh' & Ht' & Ht4 & Hin & Eo & En & Hcase).
      subst off.
      pose proof (add_at_ok (w_meta s) (w_hdr s) bs' m kv limit' tbl' rcd delta R' Hh' Ht' Hin)
        as (A1 & A2 & A3 & A4 & A5).
      assert (HI' : Inv {| w_meta := w_meta s; w_hdr := w_hdr s; w_bs := add_at bs' (r_off rcd) delta |}).
      { constructor; cbn [w_meta w_hdr w_bs]; [eexists m, kv, limit', _; exact A1|exact A2|exact A3]. }
      pose proof (Inv_limit _ HI') as [EL' _]. cbn [w_bs w_hdr] in EL'.
      pose proof (spec_read_inv _ _ _ _ _ _ A1) as (_ & _ & El' & _).
      split; [cbn [w_bs]; rewrite ELs, EL', <- El, <- El'; destruct Hl as [_ [->|X]]; [left; reflexivity|right; exact X]|].
      split; [exact HI'|]. split; [eexists; reflexivity|]. cbn [w_bs].
      split; [rewrite ELs, EL', <- El, <- El'; exact (proj1 Hl)|]. split; [rewrite A4; exact Hlen1|].
      split; [intros i Hi1 Hi2; rewrite (A5 i Hi1 Hi2); now apply Ht4|].
      eexists. split; [eexists m, kv, limit', _; split; [exact A1|reflexivity]|].
      exists rcd, (concat tbl'). repeat split; try assumption.
      * destruct Hcase as [(_ & -> & _)|(V0 & HA & Hf)]; [now left|right; repeat split; assumption].
      * now rewrite concat_map.
  - (* OpExtend *)
    rewrite (extend_ok (w_meta s) (w_hdr s)) by assumption.
    set (k := round_u32 e c_pageSize - len (w_bs s)).
    assert (Hk : (len (w_bs s) + k) mod 16384 = 0).
    { unfold k. pose proof (round_page_mult e). divlia. }
    pose proof (grow_ok _ _ _ _ _ _ k Hread Hk) as G.
    assert (HI' : Inv {| w_meta := w_meta s; w_hdr := w_hdr s; w_bs := w_bs s ++ zeros k |}).
    { constructor; cbn [w_meta w_hdr w_bs]; [exists m, kv, limit, tbl; exact G|
        now apply handle_ok_app|now apply tail_zero_app]. }
    pose proof (Inv_limit _ HI') as [EL' _]. cbn [w_bs w_hdr] in EL'.
    split; [left; cbn [w_bs]; rewrite ELs, EL'; symmetry; apply get32_agree; apply agree_app_zeros|].
    split; [exact HI'|]. split; [reflexivity|]. cbn [w_bs].
    split.
    { rewrite ELs, EL'. rewrite (get32_agree (w_bs s) (w_bs s ++ zeros k)) by apply agree_app_zeros. lia. }
    split; [rewrite len_app; lia|]. split; [intros i _ _; apply getb_app_zeros|].
    exists (concat tbl). split; [exists m, kv, limit, tbl; now split|reflexivity].
  - (* OpReopen *)
    destruct (mapped_header meta') as [h'|] eqn:Hm'.
    2:{ unfold open_mapped. rewrite Hm'.
        split; [left; reflexivity|]. split; [exact HI|]. split; [now right|]. split; [lia|]. split; [lia|].
        split; [intros i _ _; reflexivity|].
        exists (concat tbl). split; [exact Hr|reflexivity]. }
    rewrite (open_mapped_big _ _ _ Hm') by exact H2.
    destruct (has_prefix (w_bs s) h') eqn:Hp'.
    2:{ split; [left; reflexivity|]. split; [exact HI|]. split; [now right|]. split; [lia|]. split; [lia|].
        split; [intros i _ _; reflexivity|].
        exists (concat tbl). split; [exact Hr|reflexivity]. }
    pose proof (prefix_len_field _ _ _ Hm' Hp') as E28.
    pose proof (spec_header_inv _ _ _ Eh) as (_ & E28' & _).
    assert (Ehdr : len h' = w_hdr s) by congruence.
    assert (HI' : Inv {| w_meta := meta'; w_hdr := len h'; w_bs := w_bs s |}).
    { constructor; cbn [w_meta w_hdr w_bs]; rewrite ?Ehdr; [exists m, kv, limit, tbl; exact Hread| |exact Ht].
      exists h'. repeat split; [assumption|assumption|now symmetry]. }
    split; [left; reflexivity|]. split; [exact HI'|]. split; [now left|]. cbn [w_bs]. split; [lia|]. split; [lia|].
    split; [intros i _ _; reflexivity|].
    exists (concat tbl). split; [|reflexivity]. rewrite Ehdr. exists m, kv, limit, tbl. now split.
Qed.

Lemma step_inv s o rs : Inv s -> small s -> reads s rs ->
  let '(r, s') := step s o in
  Inv s' /\ ok_result o r /\ limit_of (w_bs s) <= limit_of (w_bs s') /\ len (w_bs s) <= len (w_bs s') /\
  tail4_same (w_bs s) (w_bs s') /\
  exists rs', reads s' rs' /\ records_step o r rs rs'.
Proof.
  intros HI Hs Hr. pose proof (step_inv_r s o rs HI Hs Hr) as P.
  destruct (step s o) as [r s']. exact (proj2 P).
Qed.

(* the writer only ever stores a multiple of 32 as the limit *)
Lemma step_rounded s o : Inv s -> small s -> limit_of (w_bs s) mod 32 = 0 ->
  limit_of (w_bs (snd (step s o))) mod 32 = 0.
Proof.
  intros HI Hs H0. destruct (Inv_reads _ HI) as [rs Hr].
  pose proof (step_inv_r s o rs HI Hs Hr) as P. destruct (step s o) as [r s']. cbn [snd].
  destruct P as [[->|X] _]; assumption.
Qed.

(* ---------------------------------------------------------------- sequences *)

Fixpoint all_small (s : wstate) (ops : list op) : Prop :=
  match ops with
  | [] => True
  | o :: t => small s /\ all_small (snd (step s o)) t
  end.

Lemma run_ops_cons s o t :
  run_ops s (o :: t) = (fst (step s o) :: fst (run_ops (snd (step s o)) t), snd (run_ops (snd (step s o)) t)).
Proof.
  cbn [run_ops]. destruct (step s o) as [r s1]. cbn [fst snd]. destruct (run_ops s1 t) as [rs s2]. reflexivity.
Qed.

(* writer_wf: the invariant after every operation sequence *)
Lemma run_ops_inv ops : forall s, Inv s -> all_small s ops ->
  Inv (snd (run_ops s ops)).
Proof.
  induction ops as [|o t IH]; intros s HI Hs; [exact HI|].
  rewrite run_ops_cons. cbn [snd]. destruct Hs as [Hs1 Hs2].
  destruct (Inv_reads _ HI) as [rs Hr].
  pose proof (step_inv s o rs HI Hs1 Hr) as P. destruct (step s o) as [r s1]. cbn [snd] in *.
  destruct P as (HI1 & _). now apply IH.
Qed.

Lemma Inv_wf s : Inv s -> wf_file (w_bs s) = true.
Proof. intros [(m & kv & limit & tbl & H) _ _]. unfold wf_file. now rewrite H. Qed.

Lemma all_small_firstn n : forall ops s, all_small s ops -> all_small s (firstn n ops).
Proof.
  induction n as [|n IH]; intros [|o t] s H; cbn [firstn all_small] in *; try exact I.
  destruct H as [H1 H2]. split; [exact H1|now apply IH].
Qed.

Lemma Forall_firstn {A} (P : A -> Prop) n l : Forall P l -> Forall P (firstn n l).
Proof.
  revert l; induction n as [|n IH]; intros [|x t] H; cbn [firstn]; try constructor.
  - now inversion H.
  - apply IH. now inversion H.
Qed.

Theorem writer_wf meta s0 ops : meta_ok meta -> create [] meta = Some s0 ->
  all_small s0 ops ->
  forall n, wf_file (w_bs (snd (run_ops s0 (firstn n ops)))) = true.
Proof.
  intros Hm Hc Hs n. apply Inv_wf. apply run_ops_inv.
  - eapply create_inv; eassumption.
  - now apply all_small_firstn.
Qed.

(* the WRITER keeps the limit a multiple of 32 (the format does not ask for it:
   wf_file accepts any limit at or after the end of the last record) *)
Lemma run_ops_rounded ops : forall s, Inv s -> all_small s ops -> limit_of (w_bs s) mod 32 = 0 ->
  limit_of (w_bs (snd (run_ops s ops))) mod 32 = 0.
Proof.
  induction ops as [|o t IH]; intros s HI Hs H0; [exact H0|].
  rewrite run_ops_cons. cbn [snd]. destruct Hs as [Hs1 Hs2].
  destruct (Inv_reads _ HI) as [rs Hr].
  pose proof (step_inv s o rs HI Hs1 Hr) as P.
  pose proof (step_rounded s o HI Hs1 H0) as Q.
  destruct (step s o) as [r s1]. cbn [snd] in *.
  destruct P as (HI1 & _). now apply IH.
Qed.

Lemma create_limit_zero meta s0 : create [] meta = Some s0 -> meta_ok meta -> limit_of (w_bs s0) = 0.
Proof.
  intros Hc Hm. pose proof (create_inv _ _ Hc Hm) as HI.
  destruct Hm as (Hl & Hn & Hk).
  destruct (mapped_header meta) as [h|] eqn:Hm.
  2:{ unfold create, open_mapped in Hc. rewrite Hm in Hc. discriminate. }
  rewrite (create_new _ _ Hm) in Hc.
  assert (Es : s0 = {| w_meta := meta; w_hdr := len h; w_bs := h ++ zeros (16384 - len h) |}) by congruence.
  subst s0. cbn [w_bs] in *.
  destruct (meta_kv meta) as [kv|] eqn:Ek; [|contradiction].
  pose proof (fresh_file_read _ _ _ Hm Hn Ek) as R.
  pose proof (spec_read_inv _ _ _ _ _ _ R) as (Eh & _ & El & _).
  unfold limit_of. rewrite Eh. change c_limitOff with 0. rewrite N.add_0_r. now rewrite <- El.
Qed.

Theorem writer_limit_rounded meta s0 ops : meta_ok meta -> create [] meta = Some s0 ->
  all_small s0 ops ->
  forall n, let bs := w_bs (snd (run_ops s0 (firstn n ops))) in
    limit_of bs mod 32 = 0 /\
    forall rs r, spec_records bs = Some rs -> In r rs -> r_end r <= limit_of bs.
Proof.
  intros Hm Hc Hs n. cbv zeta.
  assert (HI : Inv (snd (run_ops s0 (firstn n ops)))).
  { apply run_ops_inv; [eapply create_inv; eassumption|now apply all_small_firstn]. }
  assert (H0 : limit_of (w_bs (snd (run_ops s0 (firstn n ops)))) mod 32 = 0).
  { apply run_ops_rounded; [eapply create_inv; eassumption|now apply all_small_firstn|].
    rewrite (create_limit_zero _ _ Hc Hm). reflexivity. }
  split; [exact H0|]. intros rs r Hrs Hr.
  set (s := snd (run_ops s0 (firstn n ops))) in *.
  pose proof (Inv_limit _ HI) as [EL _].
  destruct HI as [(m & kv & limit & tbl & Hread) _ _].
  unfold spec_records in Hrs. rewrite Hread in Hrs. injection Hrs as <-.
  pose proof (spec_read_inv _ _ _ _ _ _ Hread) as (_ & _ & El & _ & _ & H3 & _ & _ & Ht & _).
  pose proof (wf_record_in _ _ _ _ _ Ht Hr) as [Hri _].
  pose proof (rec_in_facts _ _ _ _ Hri H3) as (F1 & _ & _ & F4 & _).
  rewrite EL, <- El in *. unfold r_end, rec_size.
  set (a := r_off r) in *. set (b := len (r_name r)) in *. clearbody a b. divlia.
Qed.

(* limit_monotone and limit_le_size, for every step of every sequence *)
Theorem limit_monotone s o : Inv s -> small s ->
  limit_of (w_bs s) <= limit_of (w_bs (snd (step s o))) /\ len (w_bs s) <= len (w_bs (snd (step s o))).
Proof.
  intros HI Hs. destruct (Inv_reads _ HI) as [rs Hr].
  pose proof (step_inv s o rs HI Hs Hr) as P. destruct (step s o) as [r s1]. cbn [snd].
  destruct P as (_ & _ & P1 & P2 & _). split; assumption.
Qed.

Theorem limit_le_size s : Inv s -> limit_of (w_bs s) <= len (w_bs s).
Proof. intro HI. now apply Inv_limit. Qed.

Theorem ops_succeed s o : Inv s -> small s -> ok_result o (fst (step s o)).
Proof.
  intros HI Hs. destruct (Inv_reads _ HI) as [rs Hr].
  pose proof (step_inv s o rs HI Hs Hr) as P. destruct (step s o) as [r s1]. cbn [fst].
  now destruct P as (_ & P & _).
Qed.

(* ---------------------------------------------------------------- the abstract map *)

Definition amap := bytes -> option N.

Definition amap_step (m : amap) (o : op) (r : op_result) : amap :=
  match o, r with
  | OpNew name, ROk _ =>
      fun k => if beq k name then Some (match m name with Some v => v | None => 0 end) else m k
  | OpAdd name delta, ROk _ =>
      fun k => if beq k name then Some (u64 ((match m name with Some v => v | None => 0 end) + delta)) else m k
  | _, _ => m
  end.

Fixpoint run_abs (s : wstate) (m : amap) (ops : list op) : wstate * amap :=
  match ops with
  | [] => (s, m)
  | o :: t => run_abs (snd (step s o)) (amap_step m o (fst (step s o))) t
  end.

Lemma run_abs_state ops : forall s m, fst (run_abs s m ops) = snd (run_ops s ops).
Proof.
  induction ops as [|o t IH]; intros s m; [reflexivity|]. rewrite run_ops_cons. cbn [run_abs snd]. apply IH.
Qed.

Definition repr (rs : list rec) (m : amap) : Prop :=
  pairwise rec_compat rs = true /\ forall k v, In (k, v) (pairs rs) <-> m k = Some v.

Lemma in_pairs k v rs : In (k, v) (pairs rs) <-> exists r, In r rs /\ r_name r = k /\ r_val r = v.
Proof.
  unfold pairs. rewrite in_map_iff. split.
  - intros (r & E & Hr). injection E as <- <-. now exists r.
  - intros (r & Hr & <- & <-). now exists r.
Qed.

Lemma name_inj rs r r' : pairwise rec_compat rs = true -> In r rs -> In r' rs -> r_name r = r_name r' -> r = r'.
Proof.
  intros Hp Hr Hr' E. destruct (pairwise_In _ _ _ _ rec_compat_sym Hp Hr Hr') as [->|C]; [reflexivity|].
  exfalso. unfold rec_compat in C. apply andb_true_iff in C as [_ C]. apply negb_true_iff in C.
  apply beq_neq in C. contradiction.
Qed.

Lemma repr_find rs m r : repr rs m -> In r rs -> m (r_name r) = Some (r_val r).
Proof. intros [_ H] Hr. apply H. apply in_pairs. now exists r. Qed.

Lemma repr_fresh rs m name : repr rs m -> (forall x, In x rs -> r_name x <> name) -> m name = None.
Proof.
  intros [_ H] Hf. destruct (m name) as [v|] eqn:E; [|reflexivity].
  apply H in E. apply in_pairs in E as (r & Hr & En & _). exfalso. now apply (Hf r).
Qed.

(* inserting a fresh record *)
Lemma repr_Add rs rs' m rcd : repr rs m -> pairwise rec_compat rs' = true -> Add rcd rs rs' ->
  (forall x, In x rs -> r_name x <> r_name rcd) ->
  repr rs' (fun k => if beq k (r_name rcd) then Some (r_val rcd) else m k).
Proof.
  intros [Hp H] Hp' HA Hf. split; [exact Hp'|]. intros k v. rewrite in_pairs.
  destruct (beq k (r_name rcd)) eqn:E.
  - apply beq_eq in E. subst k. split.
    + intros (r & Hr & En & Ev). apply (Add_in HA) in Hr. destruct Hr as [<-|Hr]; [now rewrite Ev|].
      exfalso. now apply (Hf r).
    + intro Ev. injection Ev as <-. exists rcd. repeat split. apply (Add_in HA). now left.
  - apply beq_neq in E. rewrite <- H, in_pairs. split.
    + intros (r & Hr & En & Ev). apply (Add_in HA) in Hr. destruct Hr as [<-|Hr]; [congruence|]. now exists r.
    + intros (r & Hr & En & Ev). exists r. repeat split; try assumption. apply (Add_in HA). now right.
Qed.

(* storing a value in a record *)
Lemma repr_setval rs m rcd v : repr rs m -> In rcd rs ->
  repr (map (setval (r_off rcd) v) rs) (fun k => if beq k (r_name rcd) then Some v else m k).
Proof.
  intros [Hp H] Hin. split.
  - rewrite pairwise_map; [exact Hp|]. intros a b. unfold rec_compat, r_end.
    now rewrite !setval_off, !setval_name.
  - intros k v0. rewrite in_pairs. destruct (beq k (r_name rcd)) eqn:E.
    + apply beq_eq in E. subst k. split.
      * intros (r & Hr & En & Ev). apply in_map_iff in Hr as (r1 & <- & Hr1).
        rewrite setval_name in En. pose proof (name_inj _ _ _ Hp Hr1 Hin En) as ->.
        unfold setval in Ev. rewrite N.eqb_refl in Ev. cbn in Ev. now rewrite Ev.
      * intro Ev. injection Ev as <-. exists (setval (r_off rcd) v rcd). split; [now apply in_map|].
        rewrite setval_name. unfold setval. rewrite N.eqb_refl. split; reflexivity.
    + apply beq_neq in E. rewrite <- H, in_pairs. split.
      * intros (r & Hr & En & Ev). apply in_map_iff in Hr as (r1 & <- & Hr1).
        rewrite setval_name in En.
        destruct (N.eqb_spec (r_off r1) (r_off rcd)) as [Eo|Hne].
        -- pose proof (compat_off_inj _ _ _ Hp Hr1 Hin Eo). congruence.
        -- unfold setval in Ev. apply N.eqb_neq in Hne. rewrite Hne in Ev.
           exists r1. repeat split; assumption.
      * intros (r & Hr & En & Ev).
        destruct (N.eqb_spec (r_off r) (r_off rcd)) as [Eo|Hne].
        -- pose proof (compat_off_inj _ _ _ Hp Hr Hin Eo). congruence.
        -- exists (setval (r_off rcd) v r). split; [now apply in_map|].
           rewrite setval_name. split; [exact En|]. unfold setval.
           apply N.eqb_neq in Hne. now rewrite Hne.
Qed.

Lemma repr_ext rs m m' : repr rs m -> (forall k, m k = m' k) -> repr rs m'.
Proof. intros [Hp H] E. split; [exact Hp|]. intros k v. rewrite H, E. reflexivity. Qed.

Lemma reads_pairwise s rs : reads s rs -> pairwise rec_compat rs = true.
Proof.
  intros (m & kv & limit & tbl & H & ->). apply spec_read_inv in H. now destruct H as (_&_&_&_&_&_&_&_&_&H).
Qed.

Lemma repr_step s o r rs rs' m : reads s rs' -> repr rs m -> records_step o r rs rs' ->
  repr rs' (amap_step m o r).
Proof.
  intros Hrd Hrep Hst. pose proof (reads_pairwise _ _ Hrd) as Hp'.
  destruct o as [name|name delta|e|meta']; destruct r; cbn [records_step amap_step] in *;
    try (subst rs'; exact Hrep).
  - destruct Hst as (rcd & Hin & Eo & En & [->|(V0 & HA & Hf)]).
    + eapply repr_ext; [exact Hrep|]. intro k. destruct (beq k name) eqn:E; [|reflexivity].
      apply beq_eq in E. subst k. rewrite <- En. now rewrite (repr_find _ _ _ Hrep Hin).
    + rewrite (repr_fresh _ _ _ Hrep Hf). rewrite <- V0, <- En. apply (repr_Add rs rs' m rcd Hrep Hp' HA).
      now rewrite En.
  - destruct Hst as (rcd & mid & Hin & Eo & En & Hmid & ->). subst off name.
    assert (Hmidrep : repr mid (fun k => if beq k (r_name rcd)
                                         then Some (match m (r_name rcd) with Some v => v | None => 0 end)
                                         else m k) /\
                      (match m (r_name rcd) with Some v => v | None => 0 end) = r_val rcd).
    { destruct Hmid as [->|(V0 & HA & Hf)].
      - rewrite (repr_find _ _ _ Hrep Hin). split; [|reflexivity].
        eapply repr_ext; [exact Hrep|]. intro k. destruct (beq k (r_name rcd)) eqn:E; [|reflexivity].
        apply beq_eq in E. subst k. now rewrite (repr_find _ _ _ Hrep Hin).
      - rewrite (repr_fresh _ _ _ Hrep Hf). split; [|now symmetry].
        rewrite <- V0. apply (repr_Add rs mid m rcd Hrep); try assumption.
        (* mid is pairwise compatible: it is rs' before the value is stored *)
        rewrite <- (pairwise_map rec_compat (setval (r_off rcd) (u64 (r_val rcd + delta)))); [exact Hp'|].
        intros a b. unfold rec_compat, r_end. now rewrite !setval_off, !setval_name. }
    destruct Hmidrep as [Hmr Ev]. rewrite Ev.
    eapply repr_ext; [apply (repr_setval mid _ rcd (u64 (r_val rcd + delta)) Hmr Hin)|].
    intro k. cbv beta. destruct (beq k (r_name rcd)); reflexivity.
Qed.

(* roundtrip_spec, first half: an independent reader of the layout finds
   exactly the abstract map of the operations *)
Lemma run_abs_repr ops : forall s m rs, Inv s -> reads s rs -> repr rs m ->
  all_small s ops ->
  let '(s', m') := run_abs s m ops in
  Inv s' /\ exists rs', reads s' rs' /\ repr rs' m'.
Proof.
  induction ops as [|o t IH]; intros s m rs HI Hr Hrep Hs; cbn [run_abs].
  - split; [exact HI|]. now exists rs.
  - destruct Hs as [Hs1 Hs2].
    pose proof (step_inv s o rs HI Hs1 Hr) as P. destruct (step s o) as [r s1]. cbn [fst snd] in *.
    destruct P as (HI1 & _ & _ & _ & _ & rs1 & Hr1 & Hst).
    apply (IH s1 (amap_step m o r) rs1 HI1 Hr1); try assumption.
    eapply repr_step; eassumption.
Qed.

Theorem roundtrip_written meta s0 ops : meta_ok meta -> create [] meta = Some s0 ->
  all_small s0 ops ->
  let '(s, m) := run_abs s0 (fun _ => None) ops in
  exists rs, spec_records (w_bs s) = Some rs /\ NoDup (map r_name rs) /\
             forall k v, In (k, v) (pairs rs) <-> m k = Some v.
Proof.
  intros Hm Hc Hs. pose proof (create_inv _ _ Hc Hm) as HI0.
  destruct (Inv_reads _ HI0) as [rs0 Hr0].
  assert (E0 : rs0 = []).
  { destruct Hm as (_ & Hn & Hk). destruct (mapped_header meta) as [h|] eqn:Hh.
    2:{ unfold create, open_mapped in Hc. rewrite Hh in Hc. discriminate. }
    rewrite (create_new _ _ Hh) in Hc.
    assert (Es : s0 = {| w_meta := meta; w_hdr := len h; w_bs := h ++ zeros (16384 - len h) |}) by congruence.
    destruct (meta_kv meta) as [kv|] eqn:Ek; [|contradiction].
    pose proof (fresh_file_read _ _ _ Hh Hn Ek) as F.
    eapply reads_fun; [exact Hr0|]. rewrite Es. cbn [w_bs w_hdr].
    eexists _, _, _, _. split; [exact F|]. symmetry. apply concat_map_nil. }
  subst rs0.
  assert (Hrep0 : repr [] (fun _ => None)).
  { split; [reflexivity|]. intros k v. cbn. split; [contradiction|discriminate]. }
  pose proof (run_abs_repr ops s0 _ [] HI0 Hr0 Hrep0 Hs) as P.
  destruct (run_abs s0 (fun _ => None) ops) as [s m]. destruct P as (_ & rs & Hr & Hp & Hrep).
  exists rs. split; [now apply reads_records|]. split; [now apply pairwise_names|exact Hrep].
Qed.
