(* Proofs/LayoutArith: arithmetic of the v1 layout: round, place, the header
   length, the hash. *)
From Coq Require Import List Arith NArith ZArith Bool Lia.
From Tele Require Import Lib.Bytes Lib.BytesN Gen.Consts Model.DecodeStack Model.Layout Model.LayoutRef.
Import ListNotations.
Open Scope N_scope.

(* ---------------------------------------------------------------- round *)

Lemma ldiff_pow2 a k : N.ldiff a (2 ^ k - 1) = a / 2 ^ k * 2 ^ k.
Proof.
  replace (2 ^ k - 1) with (N.ones k) by (rewrite N.ones_equiv; lia).
  apply N.bits_inj_iff. rewrite N.ldiff_ones_r.
  rewrite N.shiftl_mul_pow2, N.shiftr_div_pow2. reflexivity.
Qed.

Lemma round_u32_unit x : round_u32 x c_recordUnit = u32 (x + 31) / 32 * 32.
Proof.
  unfold round_u32. change (c_recordUnit - 1) with (2 ^ 5 - 1).
  rewrite ldiff_pow2. change (x + c_recordUnit - 1) with (x + 32 - 1).
  replace (x + 32 - 1) with (x + 31) by lia. reflexivity.
Qed.

Lemma round_u32_page x : round_u32 x c_pageSize = u32 (x + 16383) / 16384 * 16384.
Proof.
  unfold round_u32. change (c_pageSize - 1) with (2 ^ 14 - 1).
  rewrite ldiff_pow2. change (x + c_pageSize - 1) with (x + 16384 - 1).
  replace (x + 16384 - 1) with (x + 16383) by lia. reflexivity.
Qed.

Lemma round_int_4 x : round_int x 4 = (x + 3) / 4 * 4.
Proof.
  unfold round_int. change (4 - 1) with (2 ^ 2 - 1). rewrite ldiff_pow2.
  replace (x + 4 - 1) with (x + 3) by lia. reflexivity.
Qed.

Lemma round_int_32 x : round_int x 32 = (x + 31) / 32 * 32.
Proof.
  unfold round_int. change (32 - 1) with (2 ^ 5 - 1). rewrite ldiff_pow2.
  replace (x + 32 - 1) with (x + 31) by lia. reflexivity.
Qed.

Lemma rec_size_eq nl : rec_size nl = (nl + 47) / 32 * 32.
Proof.
  unfold rec_size. change c_recordUnit with 32.
  replace (16 + nl + 32 - 1) with (nl + 47) by lia. reflexivity.
Qed.

Lemma rec_size_bounds nl : 1 <= nl <= 4096 ->
  32 <= rec_size nl <= 4128 /\ 16 + nl <= rec_size nl /\ rec_size nl mod 32 = 0.
Proof. intro H. rewrite rec_size_eq. divlia. Qed.

Lemma hdr_np_val : hdr_np = 28.
Proof. reflexivity. Qed.

Lemma first_off_val hdr : first_off hdr = hdr + 2052.
Proof. unfold first_off. change c_hashOff with 4. change c_numHash with 512. lia. Qed.

Lemma head_off_val hdr h : head_off hdr h = hdr + 4 + 4 * h.
Proof. unfold head_off. change c_hashOff with 4. lia. Qed.

(* ---------------------------------------------------------------- place *)

Definition place_lim (hdr limit : N) : N := if limit =? 0 then first_off hdr else limit.

(* Every allocation limit and name length for which the uint32 arithmetic
   cannot wrap (the file ends at least two pages below 4 GiB). *)
Lemma place_ok hdr limit nl :
  1 <= nl <= 4096 -> limit < 4294967296 -> place_lim hdr limit + 32768 <= 4294967296 ->
  let '(s, e) := place hdr limit nl in
  let lim := place_lim hdr limit in
  let r32 := (lim + 31) / 32 * 32 in
  let n := rec_size nl in
  s mod 32 = 0 /\ lim <= s /\ s < lim + 16384 /\
  e = s + n /\
  s mod 16384 + n <= 16384 - 32 /\
  (s = r32 \/ (s = (r32 / 16384 + 1) * 16384 /\ 16384 - 32 < r32 mod 16384 + n)).
Proof.
  intros Hnl Hlim Hnw. unfold place, place_lim in *.
  rewrite !round_u32_unit, round_u32_page. rewrite rec_size_eq.
  rewrite first_off_val in *. unfold u32.
  change c_pageSize with 16384.
  destruct (N.eqb_spec limit 0) as [->|Hz].
  - set (lim := hdr + 2052) in *.
    rewrite (N.mod_small lim) by lia.
    rewrite (N.mod_small (16 + nl)) by lia.
    rewrite (N.mod_small (16 + nl + 31)) by lia.
    rewrite (N.mod_small (lim + 31)) by lia.
    rewrite (N.mod_small (lim + 16383)) by lia.
    replace (16 + nl + 31) with (nl + 47) by lia.
    set (r := (lim + 31) / 32 * 32). set (n := (nl + 47) / 32 * 32).
    assert (Hr : lim <= r /\ r < lim + 32 /\ r mod 32 = 0) by (unfold r; divlia).
    assert (Hn : 32 <= n <= 4128 /\ n mod 32 = 0) by (unfold n; divlia).
    rewrite (N.mod_small (r + n)) by lia.
    destruct (N.eqb_spec (r / 16384) ((r + n) / 16384)) as [E|E].
    + repeat split; try (left; reflexivity); divlia.
    + repeat split; try (right; split); divlia.
  - set (lim := limit) in *.
    rewrite (N.mod_small (16 + nl)) by lia.
    rewrite (N.mod_small (16 + nl + 31)) by lia.
    rewrite (N.mod_small (lim + 31)) by lia.
    rewrite (N.mod_small (lim + 16383)) by lia.
    replace (16 + nl + 31) with (nl + 47) by lia.
    set (r := (lim + 31) / 32 * 32). set (n := (nl + 47) / 32 * 32).
    assert (Hr : lim <= r /\ r < lim + 32 /\ r mod 32 = 0) by (unfold r; divlia).
    assert (Hn : 32 <= n <= 4128 /\ n mod 32 = 0) by (unfold n; divlia).
    rewrite (N.mod_small (r + n)) by lia.
    destruct (N.eqb_spec (r / 16384) ((r + n) / 16384)) as [E|E].
    + repeat split; try (left; reflexivity); divlia.
    + repeat split; try (right; split); divlia.
Qed.

(* the oracle applied to observations of the real place is the conjunction above *)
Lemma place_ok_b_model hdr limit nl :
  1 <= nl <= 4096 -> limit < 4294967296 -> place_lim hdr limit + 32768 <= 4294967296 ->
  place_ok_b hdr limit nl (place hdr limit nl) = true.
Proof.
  intros H1 H2 H3. pose proof (place_ok hdr limit nl H1 H2 H3) as P.
  destruct (place hdr limit nl) as [s e]. unfold place_ok_b.
  fold (place_lim hdr limit). cbv zeta in P.
  destruct P as (P1 & P2 & P3 & P4 & P5 & P6).
  change c_recordUnit with 32. change c_pageSize with 16384.
  repeat (apply andb_true_iff; split); try (apply N.eqb_eq; assumption);
    try (apply N.leb_le; lia); try (apply N.ltb_lt; lia).
  apply orb_true_iff. destruct P6 as [P6|[P6 _]].
  - left. apply N.eqb_eq. rewrite P6. f_equal. f_equal. lia.
  - right. apply N.eqb_eq. rewrite P6. apply N.mod_mul. lia.
Qed.

(* with no assumption at all: the start is a multiple of the record unit, the
   end is start + size in uint32 *)
Lemma place_aligned_all hdr limit nl :
  fst (place hdr limit nl) mod 32 = 0 /\
  snd (place hdr limit nl) = u32 (fst (place hdr limit nl) + round_u32 (u32 (16 + nl)) c_recordUnit).
Proof.
  unfold place. cbn [fst snd]. split; [|reflexivity].
  rewrite !round_u32_unit, round_u32_page.
  destruct (_ =? _); divlia.
Qed.

(* Spec.encode's own placement *)
Lemma spec_place_ok cur n : cur mod 32 = 0 -> 32 <= n <= 4128 -> n mod 32 = 0 ->
  let s := spec_place cur n in
  s mod 32 = 0 /\ cur <= s /\ s < cur + 16384 /\ s mod 16384 + n <= 16384 - 32.
Proof.
  intros Hc Hn Hm. unfold spec_place. change c_pageSize with 16384. change c_recordUnit with 32.
  destruct (N.leb_spec (cur mod 16384 + n) (16384 - 32)) as [H|H]; divlia.
Qed.

(* ---------------------------------------------------------------- header *)

Lemma mapped_header_len meta h : mapped_header meta = Some h ->
  len h = (len meta + 63) / 32 * 32 /\ len meta <= 512 /\ 32 <= len h <= 544 /\ len h mod 32 = 0 /\
  32 + len meta <= len h.
Proof.
  unfold mapped_header. destruct (N.ltb_spec c_maxMetaLen (len meta)) as [H|H]; [discriminate|].
  change c_maxMetaLen with 512 in H.
  intro E.
  assert (Eh : h = c_hdrPrefix ++ zeros (hdr_np - len c_hdrPrefix)
                   ++ le32 (u32 (round_int (hdr_np + 4 + len meta) 32)) ++ meta
                   ++ zeros (round_int (hdr_np + 4 + len meta) 32 - (hdr_np + 4 + len meta)))
    by congruence.
  rewrite Eh. clear E Eh. rewrite !len_app, !len_zeros, len_le32.
  rewrite hdr_np_val. change (len c_hdrPrefix) with 28. rewrite round_int_32.
  replace (28 + 4 + len meta + 31) with (len meta + 63) by lia.
  assert (28 + 4 + len meta <= (len meta + 63) / 32 * 32) by divlia.
  split; [lia|]. split; [lia|]. split; [divlia|]. split; divlia.
Qed.

(* ---------------------------------------------------------------- hash *)

Lemma lo32_u32 x : lo32 x = u32 x.
Proof. unfold lo32, u32. change 4294967295 with (N.ones 32). now rewrite N.land_ones. Qed.

Lemma fnv_fold_ref name : forall h,
  fold_left fnv_step name h = fnv1a_ref_from h name.
Proof.
  induction name as [|c t IH]; intro h; [reflexivity|].
  cbn [fold_left fnv1a_ref_from]. rewrite IH. f_equal.
  unfold fnv_step. rewrite lo32_u32. reflexivity.
Qed.

(* the model hash (constants translated from the source) is the textbook
   FNV-1a with the published 32-bit offset basis and prime, xor-folded by 16
   bits, modulo 512 *)
Lemma hash_is_fnv1a name :
  c_fnv_offset32 = 2166136261 /\ c_fnv_prime32 = 16777619 /\ c_numHash = 512 /\
  hash name = hash_ref name.
Proof.
  repeat split. unfold hash, hash_ref, fnv1a, fnv1a_ref.
  rewrite fnv_fold_ref. rewrite N.shiftr_div_pow2. reflexivity.
Qed.

Lemma hash_lt name : hash name < 512.
Proof. unfold hash. change c_numHash with 512. apply N.mod_lt. lia. Qed.

(* the constants of the source are the numbers of the published v1 format *)
Lemma v1_constants :
  c_recordUnit = 32 /\ c_pageSize = 16384 /\ c_minFileLen = 16384 /\ c_numHash = 512 /\
  c_maxNameLen = 4096 /\ c_maxMetaLen = 512 /\ c_limitOff = 0 /\ c_hashOff = 4 /\
  c_hdrPrefix = [35; 32; 116; 101; 108; 101; 109; 101; 116; 114; 121; 47; 99; 111; 117; 110; 116; 101; 114;
                 32; 102; 105; 108; 101; 32; 118; 49; 10].
Proof. repeat split. Qed.
