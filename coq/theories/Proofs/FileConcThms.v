(* Proofs/FileConcThms: consequences of the invariant (Proofs/FileConcInv)
   in the form the property C04 states them. *)
From Coq Require Import List NArith ZArith Bool Lia.
From Tele Require Import Gen.Consts Model.FileConc Proofs.FileConcBase Proofs.FileConcInv.
Import ListNotations.
Open Scope N_scope.
Set Default Proof Using "Type".

Section Thms.
Variable bucket : name -> N.
Variable nlen : name -> N.
Variable H : N.

Notation rsize := (rsize nlen).
Notation rec_start := (rec_start H).
Notation step := (step bucket nlen H).
Notation run := (run bucket nlen H).
Notation Inv := (Inv bucket nlen H).
Notation init_ok := (init_ok bucket nlen H).
Notation wf_shared := (wf_shared bucket nlen H).
Notation tinv := (tinv bucket nlen H).

Lemma reach_inv : forall st0 sched, init_ok st0 -> Inv (run sched st0).
Proof. intros. apply Inv_run. apply Inv_init. assumption. Qed.

(* ---- wf_always ---- *)
Definition linked_complete (f : file) : Prop :=
  forall b o, In o (f_chain f b) ->
    exists r, find_rec o (f_recs f) = Some r /\ r_copied r = true /\ r_lenw r = true /\
              1 <= nlen (r_name r) /\ nlen (r_name r) <= c_maxNameLen /\ bucket (r_name r) = b /\
              r_off r mod 32 = 0 /\ rec_start <= r_off r /\
              r_off r + rsize (r_name r) <= f_limit f /\ f_limit f <= f_size f /\
              r_off r / 16384 = (r_off r + rsize (r_name r)) / 16384 /\
              (r_next r = 0 \/ In (r_next r) (f_chain f b)) /\ r_next r <> DEAD.

Definition incomplete_unreachable (f : file) : Prop :=
  forall r, In r (f_recs f) ->
    r_copied r = false \/ r_lenw r = false \/ r_next r = DEAD -> unlinked f (r_off r).

Lemma wf_linked_complete : forall f, wf_shared f -> linked_complete f.
Proof.
  intros f W b o I. pose proof W as [WL WC].
  destruct (WC b) as (ND & LR & LO & NN). destruct (LR o I) as (r & E & Cp & Lw & Bk).
  pose proof (find_rec_some _ _ _ E) as [Ir Eo].
  destruct WL as (A & B & C & D & E0 & L & P & NDo & DM). destruct (L r Ir) as (L1 & L2 & L3 & L4 & L5 & L6).
  assert (Nx : r_next r = 0 \/ (In (r_next r) (f_chain f b) /\ r_next r < W32 - 32)).
  { destruct (suf_in o _ I) as (rest & Es).
    pose proof (linked_ok_suf f o _ rest LO Es) as Ln. unfold load_next in Ln. rewrite E in Ln.
    destruct rest as [|z rest']; [left; exact Ln|right]. cbn in Ln. rewrite Ln.
    assert (Iz : In z (f_chain f b)) by (apply (suf_incl o); rewrite Es; right; left; reflexivity).
    split; [exact Iz|]. destruct (LR z Iz) as (rz & Ez & _).
    pose proof (find_rec_some _ _ _ Ez) as [Irz Eoz]. destruct (L rz Irz) as (_ & _ & Z3 & _).
    destruct (rsize_facts nlen (r_name rz)) as (_ & _ & _ & Y). cbv zeta in Y. lia. }
  exists r. splits; auto.
  - destruct Nx as [Nx|[Nx _]]; auto.
  - destruct Nx as [Nx|[_ Nx]]; unfold DEAD, W32 in *; lia.
Qed.

Lemma wf_incomplete_unreachable : forall f, wf_shared f -> incomplete_unreachable f.
Proof.
  intros f W r Ir Bad b I. destruct (wf_linked_complete f W b _ I) as (r' & E & Cp & Lw & _ & _ & _ & _ & _ & _ & _ & _ & _ & Nd).
  destruct W as [(_ & _ & _ & _ & _ & _ & _ & ND & _) _].
  rewrite (In_find_rec _ r ND Ir) in E. inversion E; subst r'.
  destruct Bad as [X|[X|X]]; congruence.
Qed.

Theorem wf_always : forall st0 sched, init_ok st0 ->
  let f := fst (run sched st0) in
  wf_shared f /\ linked_complete f /\ incomplete_unreachable f.
Proof.
  intros st0 sched I0 f. destruct (reach_inv st0 sched I0) as (W & _).
  split; [exact W|]. split; [apply wf_linked_complete|apply wf_incomplete_unreachable]; exact W.
Qed.

(* ---- one_record_per_name ---- *)
Theorem one_record_per_name : forall st0 sched, init_ok st0 ->
  let f := fst (run sched st0) in
  forall b1 b2 o1 o2 nm, In o1 (f_chain f b1) -> In o2 (f_chain f b2) ->
    name_at f o1 = Some nm -> name_at f o2 = Some nm -> b1 = b2 /\ o1 = o2.
Proof.
  intros st0 sched I0 f b1 b2 o1 o2 nm I1 I2 N1 N2.
  destruct (reach_inv st0 sched I0) as ((WL & WC) & _). fold f in WC.
  destruct (WC b1) as (_ & LR1 & _ & NN). destruct (WC b2) as (_ & LR2 & _).
  destruct (LR1 o1 I1) as (r1 & E1 & _ & _ & B1). destruct (LR2 o2 I2) as (r2 & E2 & _ & _ & B2).
  unfold name_at in N1, N2. rewrite E1 in N1. rewrite E2 in N2. cbn in N1, N2.
  assert (Eb : b1 = b2) by congruence. rewrite <- Eb in *. clear Eb. split; [reflexivity|].
  (* NoDup (map name_at l) and equal images *)
  assert (Inj : forall l, NoDup (map (name_at f) l) -> In o1 l -> In o2 l -> name_at f o1 = name_at f o2 -> o1 = o2).
  { induction l as [|x l IH]; cbn; intros ND J1 J2 Eq; [contradiction|].
    inversion ND as [|? ? NI ND']; subst.
    destruct J1 as [<-|J1]; destruct J2 as [<-|J2]; auto.
    - exfalso. apply NI. rewrite Eq. apply in_map. exact J2.
    - exfalso. apply NI. rewrite <- Eq. apply in_map. exact J1. }
  apply (Inj _ NN I1 I2). unfold name_at. rewrite E1, E2. cbn. congruence.
Qed.

(* ---- monotone_bounded ---- *)
Lemma post_evolve : forall i f t, wf_shared f -> (forall r, In r (f_recs f) -> r_val r <= MAX64) ->
  tinv i f t ->
  evolve f (match fst (step_thread bucket nlen H i f t) with Some a => apply_act nlen a f | None => f end).
Proof.
  intros i f t W VB T. pose proof (step_thread_post bucket nlen H i f t W VB T) as Po.
  destruct (step_thread bucket nlen H i f t) as [oa t']. cbn [fst snd] in *.
  destruct oa as [a|]; [|apply evolve_refl]. destruct Po as (Pre & _). eapply act_evolve; eauto.
Qed.

Lemma step_evolve : forall st i, Inv st -> evolve (fst st) (fst (step st i)).
Proof.
  intros [f ts] i (W & TI & V). cbn [fst snd] in *. unfold FileConc.step.
  destruct (nth_error ts i) as [t|] eqn:E; [|apply evolve_refl].
  assert (VB : forall r, In r (f_recs f) -> r_val r <= MAX64).
  { intros r I. rewrite (V r I). unfold sat. lia. }
  pose proof (post_evolve i f t W VB (TI i t E)) as Ev.
  destruct (step_thread bucket nlen H i f t) as [oa t']. cbn [fst snd] in *. exact Ev.
Qed.

(* every step of every process: no value, nor the limit, nor the size decreases *)
Theorem monotone : forall st0 sched i, init_ok st0 ->
  let st := run sched st0 in
  f_size (fst st) <= f_size (fst (step st i)) /\
  f_limit (fst st) <= f_limit (fst (step st i)) /\
  forall o r, find_rec o (f_recs (fst st)) = Some r ->
    exists r', find_rec o (f_recs (fst (step st i))) = Some r' /\ r_name r' = r_name r /\ r_val r <= r_val r'.
Proof.
  intros st0 sched i I0 st. pose proof (step_evolve st i (reach_inv st0 sched I0)) as Ev.
  split; [apply (ev_size _ _ Ev)|]. split; [apply (ev_limit _ _ Ev)|].
  intros o r E. destruct (ev_recs _ _ Ev o r E) as (r' & E' & A & _ & _ & _ & V & _). eauto.
Qed.

(* the allocation limit never lies beyond the end of the file, at any instant
   (every prefix of every schedule: every kill point), and the step that moves
   it publishes a value that the file ALREADY reached before that step: the
   extension comes first, the limit CAS after it *)
Theorem limit_within_file : forall st0 sched i, init_ok st0 ->
  let st := run sched st0 in
  f_limit (fst st) <= f_size (fst st) /\
  (f_limit (fst (step st i)) <> f_limit (fst st) -> f_limit (fst (step st i)) <= f_size (fst st)).
Proof.
  intros st0 sched i I0 st. pose proof (reach_inv st0 sched I0) as In. fold st in In.
  destruct st as [f ts]. destruct In as (W & TI & V). cbn [fst snd] in *.
  split; [destruct W as [(_ & _ & L & _) _]; exact L|].
  unfold FileConc.step. destruct (nth_error ts i) as [t|] eqn:E; [|cbn; intro X; congruence].
  assert (VB : forall r, In r (f_recs f) -> r_val r <= MAX64).
  { intros r I. rewrite (V r I). unfold sat. lia. }
  pose proof (step_thread_post bucket nlen H i f t W VB (TI i t E)) as Po.
  destruct (step_thread bucket nlen H i f t) as [oa t']. cbn [fst snd] in *.
  destruct oa as [a|]; [|intro X; congruence]. destruct Po as (Pre & _).
  destruct a; cbn in *; try (intro X; congruence).
  intros _. destruct Pre as (_ & _ & L & _). exact L.
Qed.

Definition begun_rel (t : thread) : Prop :=
  t_begun t = (if in_add (t_pc t) then (t_cell t, t_amt t) :: t_succ t else t_succ t).

Lemma sum_begun_ge : forall t c, begun_rel t -> sum_to c (t_succ t) <= sum_to c (t_begun t).
Proof.
  intros t c Bg. rewrite Bg. destruct (in_add (t_pc t)); [|lia]. rewrite sum_to_cons. lia.
Qed.

Lemma total_le_begun : forall c ts, (forall t, In t ts -> begun_rel t) -> total c ts <= total_begun c ts.
Proof.
  intros c ts. induction ts as [|a ts IH]; intro B; [cbn; lia|].
  rewrite total_cons, total_begun_cons.
  pose proof (sum_begun_ge a c (B a (or_introl eq_refl))).
  assert (total c ts <= total_begun c ts) by (apply IH; intros; apply B; right; assumption). lia.
Qed.

Lemma inv_begun_rel : forall st, Inv st -> forall t, In t (snd st) -> begun_rel t.
Proof.
  intros [f ts] (_ & TI & _) t It. cbn [fst snd] in *. apply In_nth_error in It. destruct It as (i & E).
  destruct (TI i t E) as (_ & _ & _ & _ & Bg & _). exact Bg.
Qed.

(* at every reachable state every value is the saturated sum of its initial
   value and the increments whose cell CAS succeeded, which never exceeds
   the increments begun on it *)
Theorem bounded : forall st0 sched, init_ok st0 ->
  let st := run sched st0 in
  forall r, In r (f_recs (fst st)) ->
    r_val r = sat (r_init r + total (r_off r) (snd st)) /\
    total (r_off r) (snd st) <= total_begun (r_off r) (snd st) /\
    r_val r <= sat (r_init r + total_begun (r_off r) (snd st)).
Proof.
  intros st0 sched I0 st r Ir. pose proof (reach_inv st0 sched I0) as In. fold st in In.
  pose proof In as (_ & _ & V).
  pose proof (total_le_begun (r_off r) (snd st) (inv_begun_rel st In)) as Le.
  split; [exact (V r Ir)|]. split; [exact Le|]. rewrite (V r Ir). unfold sat. lia.
Qed.

(* ---- exact_at_quiescence ---- *)
(* a process that has returned from all its calls has no increment pending:
   everything it began has succeeded *)
Theorem exact_at_quiescence : forall st0 sched (killed : nat -> Prop), init_ok st0 ->
  let st := run sched st0 in
  (forall i t, nth_error (snd st) i = Some t -> ~ killed i -> t_pc t = Done) ->
  (forall r, In r (f_recs (fst st)) -> r_val r = sat (r_init r + total (r_off r) (snd st))) /\
  (forall i t, nth_error (snd st) i = Some t -> ~ killed i -> t_begun t = t_succ t) /\
  (forall i t, nth_error (snd st) i = Some t -> killed i ->
     t_begun t = t_succ t \/ exists c k, t_begun t = (c, k) :: t_succ t).
Proof.
  intros st0 sched killed I0 st Q. pose proof (reach_inv st0 sched I0) as In. fold st in In.
  pose proof In as (_ & TI & V). split; [exact V|]. split.
  - intros i t E NK. destruct (TI i t E) as (_ & _ & _ & _ & Bg & _). rewrite (Q i t E NK) in Bg. exact Bg.
  - intros i t E K. destruct (TI i t E) as (_ & _ & _ & _ & Bg & _).
    destruct (in_add (t_pc t)); [right; eauto|left; exact Bg].
Qed.

(* the ledger t_succ grows exactly at a successful cell CAS, by the amount added *)
Theorem ledger_exact : forall i f t, wf_shared f -> (forall r, In r (f_recs f) -> r_val r <= MAX64) -> tinv i f t ->
  let oa := fst (step_thread bucket nlen H i f t) in
  let t' := snd (step_thread bucket nlen H i f t) in
  match oa with
  | Some (AVal c v) => exists k, v = cell_add (load_val f c) k /\ t_succ t' = (c, k) :: t_succ t
  | _ => t_succ t' = t_succ t
  end.
Proof.
  intros i f t W VB T. pose proof (step_thread_post bucket nlen H i f t W VB T) as Po.
  destruct (step_thread bucket nlen H i f t) as [oa t']. cbn [fst snd] in *. unfold post in Po.
  destruct oa as [a|]; [|exact (proj2 Po)]. destruct Po as (_ & _ & Es). destruct a; exact Es.
Qed.

End Thms.
