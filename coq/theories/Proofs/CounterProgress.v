(* Progress for Model/CounterConc: no call waits for another thread.  A call
   that runs alone from ANY reachable state returns within a bounded number
   of its own steps (obstruction freedom): there are no spin-waits; a failed
   CAS is followed by a reload after which, absent interference, the CAS
   succeeds.  Proved with a rank on (shared state, thread) that every step of
   the thread strictly decreases. *)
From Coq Require Import List ZArith NArith Bool Lia Arith.
From Tele Require Import Gen.Consts Model.CounterConc Proofs.CounterWord Proofs.CounterInv Proofs.CounterThms.
Import ListNotations.

Definition stale (s : shared) (t : thread) : nat := if Z.eqb (s_word s) (t_st t) then 0 else 2.
Definition stale2 (s : shared) (t : thread) : nat := if Z.eqb (s_word s) (t_old t) then 0 else 2.

(* work left for a lock holder: set havePtr (and look the pointer up), flush extra *)
Definition phi (s : shared) : nat :=
  (if w_have (s_word s) then 0 else 40) + (if Z.eqb (w_extra (s_word s)) 0 then 0 else 20).

Definition cell_stale (s : shared) (t : thread) : nat :=
  match s_ptr s with
  | Some g => if Z.eqb (cell_of s g) (t_old t) then 0 else 2
  | None => 0
  end.

Definition nmax (np : nops) : nat := Nat.max (n_after_store_rotate np) (n_after_store_extend np).

(* a lookup that extends the file is followed by a second lookup: the work a
   full file still holds in store for whoever looks the counter up *)
Definition fullw (s : shared) : nat := if s_full s then 100 else 0.

Definition rank (np : nops) (s : shared) (t : thread) : nat :=
  match t_pc t with
  | Done | Crash => 0
  | _ => fullw s
  end +
  match t_pc t with
  | Done | Crash => 0
  | CClose => 1
  | GClose => 81
  | GRfLoad => 82
  | GIvCas => 83 + stale2 s t
  | GIvLoad => 84
  | LCas => phi s + 10 + stale s t
  | LLoad => phi s + 11
  | LCellCas => phi s + 14 + cell_stale s t
  | LCellLoad => phi s + 15
  | LLook2 => phi s + 17
  | LLook1 => phi s + 18
  | RCas => 90 + stale s t
  | RLoad => 91
  | AXCas => 94 + stale s t
  | AXLoad => 95
  | ACellCas => 96 + cell_stale s t
  | ACellLoad => 97
  | ACas => 100 + stale s t
  | ALoad => 101
  | AIdle => 103
  | RfCas => 104 + stale s t
  | RfLoad => 105
  | IvCas => 108 + stale s t
  | IvLoad => 109
  | CNop k => 111 + k
  | CStore => 213 + nmax np   (* the store of a full file adds fullw = 100 *)
  | CPre => 214 + nmax np
  | CIdle => 215 + nmax np
  end.

Definition rank_bound (np : nops) : nat := 316 + nmax np.

Definition live (t : thread) : bool := match t_pc t with Done | Crash => false | _ => true end.

Lemma phi_le s : (phi s <= 60)%nat.
Proof. unfold phi. destruct (w_have (s_word s)), (Z.eqb (w_extra (s_word s)) 0); lia. Qed.

Ltac rk Hpc :=
  unfold rank, stale, cell_stale, goto_nops, after_release, to_close in *;
  cbn [t_pc t_st t_old t_amt t_kind t_prev t_prev2 t_tgt with_pc with_st with_old with_amt] in *;
  try rewrite Hpc in *.

(* phi after the word operations *)
Lemma phi_same_fields s s' :
  w_have (s_word s') = w_have (s_word s) -> w_extra (s_word s') = w_extra (s_word s) -> phi s' = phi s.
Proof. intros A B. unfold phi. rewrite A, B. reflexivity. Qed.

Lemma phi_set_have w s s' : s_word s = w -> 0 <= w < W64 -> w_have w = false -> s_word s' = w_set_have w ->
  (phi s' + 40 = phi s)%nat.
Proof.
  intros Ew Hw Hh Ew'. pose proof (fields_of _ Hw) as F. pose proof (f_set_have _ _ _ _ F) as F'.
  unfold phi. rewrite Ew, Ew', Hh, (fields_have _ _ _ _ F'), (fields_extra _ _ _ _ F'). lia.
Qed.

Lemma phi_clear_extra w s s' : s_word s = w -> 0 <= w < W64 -> w_extra w <> 0 -> s_word s' = w_clear_extra w ->
  (phi s' + 20 = phi s)%nat.
Proof.
  intros Ew Hw He Ew'. pose proof (fields_of _ Hw) as F. pose proof (f_clear_extra _ _ _ _ F) as F'.
  unfold phi. rewrite Ew, Ew', (fields_have _ _ _ _ F'), (fields_extra _ _ _ _ F').
  destruct (Z.eqb_spec (w_extra w) 0); [contradiction|]. cbn. lia.
Qed.

Lemma stale_fresh s t p : stale s (with_st t p (s_word s)) = 0%nat.
Proof. unfold stale. cbn. rewrite Z.eqb_refl. reflexivity. Qed.

Lemma stale_le s t : (stale s t <= 2)%nat.
Proof. unfold stale. destruct (Z.eqb _ _); lia. Qed.
Lemma cell_stale_le s t : (cell_stale s t <= 2)%nat.
Proof. unfold cell_stale. destruct (s_ptr s); [destruct (Z.eqb _ _)|]; lia. Qed.

(* only the store of a changer that opens an existing full file sets s_full *)
Lemma full_mono np s t s' t' : step_thread np s t = (s', t') -> t_pc t <> CStore -> s_full s' = true -> s_full s = true.
Proof.
  unfold step_thread. intros H Hn.
  destruct (t_pc t); try (exfalso; apply Hn; reflexivity);
    repeat match goal with
           | H : (if ?c then _ else _) = _ |- _ => destruct c eqn:?
           | H : match ?c with Some _ => _ | None => _ end = _ |- _ => destruct c eqn:?
           | H : match ?c with NewFile => _ | SameFile => _ | NoFile => _ | FullFile => _ end = _ |- _ => destruct c
           end;
    injection H as <- _; cbn; auto; try discriminate; try congruence.
Qed.

Lemma fullw_le np s t s' t' : step_thread np s t = (s', t') -> t_pc t <> CStore -> (fullw s' <= fullw s)%nat.
Proof.
  intros H Hn. pose proof (full_mono np s t s' t' H Hn) as M. unfold fullw.
  destruct (s_full s'); [rewrite (M eq_refl); lia | destruct (s_full s); lia].
Qed.

Lemma fullw_bound s : (fullw s <= 100)%nat.
Proof. unfold fullw. destruct (s_full s); lia. Qed.

(* the rank of the stepping thread strictly decreases *)
Lemma rank_decreases np s t s' t' :
  step_thread np s t = (s', t') -> live t = true ->
  0 <= s_word s < W64 ->
  (0 < needs_ptr t -> s_ptr s <> None) ->
  (rank np s' t' < rank np s t)%nat.
Proof.
  intros H Hl Hw Hnp. pose proof (fullw_le np s t s' t' H) as Hf.
  pose proof (fullw_bound s) as Fb. pose proof (fullw_bound s') as Fb'.
  unfold step_thread in H. unfold live in Hl.
  pose proof (phi_le s) as Pl.
  destruct (t_pc t) eqn:Hpc; try discriminate.
  all: try (assert (Hf' := Hf ltac:(intro X; discriminate X)); clear Hf; rename Hf' into Hf).
  - (* AIdle *) injection H as <- <-. rk Hpc. lia.
  - (* ALoad *) injection H as <- <-. unfold rank. rewrite Hpc. cbn [t_pc with_st]. rewrite stale_fresh. lia.
  - (* ACas *)
    unfold rank at 2. rewrite Hpc. unfold stale at 1.
    destruct (Z.eqb_spec (s_word s) (t_st t)) as [Ew|Ne].
    2:{ repeat match goal with H : (if ?c then _ else _) = _ |- _ => destruct c end;
        injection H as <- <-; rk Hpc; lia. }
    rewrite <- Ew in H.
    repeat match goal with
           | H : (if ?c then _ else _) = _ |- _ => destruct c
           | H : match ?c with Some _ => _ | None => _ end = _ |- _ => destruct c
           end; injection H as <- <-; unfold rank; cbn [t_pc with_st with_pc];
      try (pose proof (phi_le (set_sat (set_word s (w_set_locked (w_add_extra (s_word s) (t_amt t)))) (add_extra_saturates (s_word s) (t_amt t)))));
      try (pose proof (stale_le (set_word s (w_inc_reader (s_word s))) (with_st t AXCas (w_inc_reader (s_word s)))));
      try (pose proof (stale_le (set_sat (set_word s (w_set_locked (w_add_extra (s_word s) (t_amt t)))) (add_extra_saturates (s_word s) (t_amt t)))
                                (with_st t LCas (w_set_locked (w_add_extra (s_word s) (t_amt t))))));
      lia.
  - (* AXCas *)
    unfold rank at 2. rewrite Hpc. unfold stale at 1.
    destruct (Z.eqb_spec (s_word s) (t_st t)) as [Ew|Ne]; injection H as <- <-; unfold rank; cbn [t_pc with_st with_pc]; [|lia].
    match goal with |- context [stale ?a ?b] => pose proof (stale_le a b) end. lia.
  - (* AXLoad *) injection H as <- <-. unfold rank. rewrite Hpc. cbn [t_pc with_st]. rewrite stale_fresh. lia.
  - (* ACellLoad *)
    destruct (s_ptr s) as [g|] eqn:Ep; [|exfalso; apply Hnp; [unfold needs_ptr; rewrite Hpc; lia | reflexivity]].
    injection H as <- <-. unfold rank. rewrite Hpc. cbn [t_pc with_old]. unfold cell_stale. cbn [touch s_ptr t_old with_old].
    rewrite Ep. change (cell_of (touch s g) g) with (cell_of s g). rewrite Z.eqb_refl. lia.
  - (* ACellCas *)
    destruct (s_ptr s) as [g|] eqn:Ep; [|exfalso; apply Hnp; [unfold needs_ptr; rewrite Hpc; lia | reflexivity]].
    unfold rank at 2. rewrite Hpc. unfold cell_stale at 1. rewrite Ep.
    destruct (Z.eqb_spec (cell_of s g) (t_old t)) as [Eo|Ne]; injection H as <- <-; unfold rank; cbn [t_pc with_pc]; [|lia].
    match goal with |- context [stale ?a ?b] => pose proof (stale_le a b) end. lia.
  - (* RCas *)
    unfold rank at 2. rewrite Hpc. unfold stale at 1.
    destruct (Z.eqb_spec (s_word s) (t_st t)) as [Ew|Ne].
    2:{ repeat match goal with H : (if ?c then _ else _) = _ |- _ => destruct c end;
        injection H as <- <-; rk Hpc; lia. }
    repeat match goal with H : (if ?c then _ else _) = _ |- _ => destruct c end;
      injection H as <- <-; unfold rank; cbn [t_pc with_st with_pc]; [|lia].
    match goal with |- context [stale ?a ?b] => pose proof (stale_le a b) end.
    match goal with |- context [phi ?a] => pose proof (phi_le a) end. lia.
  - (* RLoad *) injection H as <- <-. unfold rank. rewrite Hpc. cbn [t_pc with_st]. rewrite stale_fresh. lia.
  - (* LCas *)
    unfold rank at 2. rewrite Hpc. unfold stale at 1.
    destruct (Z.eqb_spec (s_word s) (t_st t)) as [Ew|Ne].
    2:{ repeat match goal with
               | H : (if ?c then _ else _) = _ |- _ => destruct c
               | H : match ?c with Some _ => _ | None => _ end = _ |- _ => destruct c
               end; injection H as <- <-; rk Hpc; lia. }
    rewrite <- Ew in H.
    destruct (negb (w_have (s_word s))) eqn:Ch.
    + apply negb_true_iff in Ch. injection H as <- <-. unfold rank. cbn [t_pc with_st].
      pose proof (phi_set_have (s_word s) s (set_word s (w_set_have (s_word s))) eq_refl Hw Ch eq_refl). lia.
    + destruct (Z.eqb_spec (w_extra (s_word s)) 0) as [E0|E0].
      * injection H as <- <-. unfold after_release, to_close.
        destruct (t_kind t); [|destruct (t_prev t)]; unfold rank; cbn [t_pc with_pc]; lia.
      * destruct (s_ptr s) eqn:Ep; injection H as <- <-.
        -- unfold rank. cbn [t_pc with_amt].
           pose proof (phi_clear_extra (s_word s) s (set_word s (w_clear_extra (s_word s))) eq_refl Hw E0 eq_refl). lia.
        -- unfold after_release, to_close.
           destruct (t_kind t); [|destruct (t_prev t)]; unfold rank; cbn [t_pc with_pc]; lia.
  - (* LLoad *) injection H as <- <-. unfold rank. rewrite Hpc. cbn [t_pc with_st]. rewrite stale_fresh. lia.
  - (* LLook1 *)
    destruct (s_cur s); injection H as <- <-; unfold rank; rewrite Hpc; cbn [t_pc with_pc].
    + lia.
    + change (phi (set_ptr s None)) with (phi s).
      match goal with |- context [stale ?a ?b] => pose proof (stale_le a b) end. lia.
  - (* LLook2 *)
    assert (Plain : (s', t') = (set_ptr s (s_cur s), with_pc t LCas) -> (rank np s' t' < rank np s t)%nat).
    { intros X. injection X as -> ->. unfold rank. rewrite Hpc. cbn [t_pc with_pc].
      change (phi (set_ptr s (s_cur s))) with (phi s). change (fullw (set_ptr s (s_cur s))) with (fullw s).
      match goal with |- context [stale ?a ?b] => pose proof (stale_le a b) end. lia. }
    destruct (s_cur s) as [g0|] eqn:Ec; [|apply Plain; rewrite <- H; reflexivity].
    destruct (t_prev2 t) eqn:Epv; [apply Plain; rewrite <- H; reflexivity|].
    destruct (s_full s) eqn:Efu; [|apply Plain; rewrite <- H; reflexivity].
    injection H as <- <-. unfold rank. rewrite Hpc. cbn [t_pc]. unfold fullw. cbn [s_full]. rewrite Efu. lia.
  - (* GIvLoad *)
    destruct (w_have (s_word s)); injection H as <- <-; unfold rank; rewrite Hpc; cbn [t_pc with_st2 with_pc]; [|lia].
    unfold stale2. cbn [t_old with_st2]. rewrite Z.eqb_refl. lia.
  - (* GIvCas *)
    unfold rank at 2. rewrite Hpc. unfold stale2 at 1.
    destruct (Z.eqb_spec (s_word s) (t_old t)) as [Ew|Ne]; injection H as <- <-; unfold rank; cbn [t_pc with_pc]; [|lia].
    change (fullw (set_word s (w_clear_have (t_old t)))) with (fullw s). lia.
  - (* GRfLoad *)
    destruct (w_have (s_word s) || (0 <? w_readers (s_word s)) || (w_extra (s_word s) =? 0))%Z; injection H as <- <-;
      unfold rank; rewrite Hpc; cbn [t_pc with_pc]; lia.
  - (* GClose *)
    destruct (t_prev2 t); injection H as <- <-; unfold rank; rewrite Hpc; cbn [t_pc with_pc].
    + match goal with |- context [stale ?a ?b] => pose proof (stale_le a b) end.
      match goal with |- context [phi ?a] => pose proof (phi_le a) end. lia.
    + match goal with |- context [stale ?a ?b] => pose proof (stale_le a b) end.
      match goal with |- context [phi ?a] => pose proof (phi_le a) end. lia.
  - (* LCellLoad *)
    destruct (s_ptr s) as [g|] eqn:Ep; [|exfalso; apply Hnp; [unfold needs_ptr; rewrite Hpc; lia | reflexivity]].
    injection H as <- <-. unfold rank. rewrite Hpc. cbn [t_pc with_old]. unfold cell_stale. cbn [touch s_ptr t_old with_old].
    rewrite Ep. change (cell_of (touch s g) g) with (cell_of s g). rewrite Z.eqb_refl.
    change (phi (touch s g)) with (phi s). lia.
  - (* LCellCas *)
    destruct (s_ptr s) as [g|] eqn:Ep; [|exfalso; apply Hnp; [unfold needs_ptr; rewrite Hpc; lia | reflexivity]].
    unfold rank at 2. rewrite Hpc. unfold cell_stale at 1. rewrite Ep.
    destruct (Z.eqb_spec (cell_of s g) (t_old t)) as [Eo|Ne]; injection H as <- <-; unfold rank; cbn [t_pc with_pc with_amt].
    + match goal with |- context [stale ?a ?b] => pose proof (stale_le a b) end.
      match goal with |- context [phi ?a] => change (phi a) with (phi s) end. lia.
    + change (phi (touch s g)) with (phi s). lia.
  - (* CIdle *) injection H as <- <-. destruct (t_tgt t); unfold rank; rewrite Hpc; cbn [t_pc with_pc]; lia.
  - (* CPre *) injection H as <- <-. unfold rank. rewrite Hpc. cbn [t_pc with_pc]. lia.
  - (* CStore *)
    assert (G : forall k t0, (k <= nmax np)%nat -> t_pc t0 = Done -> forall s0, (rank np s0 (goto_nops t0 k IvLoad) < fullw s0 + 113 + nmax np)%nat).
    { intros k t0 Hk _ s0. destruct k; unfold goto_nops, rank; cbn [t_pc with_pc]; lia. }
    unfold rank at 2. rewrite Hpc.
    destruct (t_tgt t); [| destruct (s_cur s); [destruct (s_tight s)|] | |]; injection H as <- <-;
      try (eapply Nat.lt_le_trans; [apply G; [unfold nmax; lia | reflexivity] | lia]);
      unfold rank; cbn [t_pc with_pc]; lia.
  - (* CNop *) injection H as <- <-. destruct k; unfold rank; rewrite Hpc; cbn [t_pc with_pc]; lia.
  - (* IvLoad *)
    destruct (w_have (s_word s)); injection H as <- <-; unfold rank; rewrite Hpc; cbn [t_pc with_st]; [rewrite stale_fresh|]; lia.
  - (* IvCas *)
    unfold rank at 2. rewrite Hpc. unfold stale at 1.
    destruct (Z.eqb_spec (s_word s) (t_st t)) as [Ew|Ne]; injection H as <- <-; unfold rank; cbn [t_pc with_pc]; lia.
  - (* RfLoad *)
    destruct (w_have (s_word s) || (0 <? w_readers (s_word s)) || (w_extra (s_word s) =? 0))%Z; injection H as <- <-.
    + unfold to_close. cbn [t_prev with_st]. destruct (t_prev t); unfold rank; rewrite Hpc; cbn [t_pc with_pc with_st]; lia.
    + unfold rank. rewrite Hpc. cbn [t_pc with_st]. rewrite stale_fresh. lia.
  - (* RfCas *)
    unfold rank at 2. rewrite Hpc. unfold stale at 1.
    destruct (Z.eqb_spec (s_word s) (t_st t)) as [Ew|Ne]; injection H as <- <-; unfold rank; cbn [t_pc with_pc with_st]; [|lia].
    match goal with |- context [stale ?a ?b] => pose proof (stale_le a b) end.
    match goal with |- context [phi ?a] => pose proof (phi_le a) end. lia.
  - (* CClose *)
    destruct (t_prev t); injection H as <- <-; unfold rank; rewrite Hpc; cbn [t_pc with_pc]; lia.
Qed.

Lemma nth_error_upd_same {A} (l : list A) i x y : nth_error l i = Some y -> nth_error (upd l i x) i = Some x.
Proof. revert i; induction l as [|z l IHl]; intros [|i] H; cbn in *; try discriminate; auto. Qed.

(* from any state satisfying the invariant, thread i running alone completes
   its call within `rank` of its own steps *)
Lemma solo_from_inv np T : forall r st i t,
  Inv T st -> nth_error (snd st) i = Some t -> (rank np (fst st) t <= r)%nat ->
  exists n, (n <= r)%nat /\
    forall t', nth_error (snd (run np (repeat i n) st)) i = Some t' -> live t' = false.
Proof.
  induction r as [|r IH]; intros [s ts] i t I Hn Hr; cbn [fst snd] in *.
  - exists 0%nat. split; [lia|]. cbn [repeat run fold_left snd]. intros t' Ht'. rewrite Hn in Ht'. injection Ht' as <-.
    unfold rank, live in *. destruct (t_pc t); try reflexivity; try lia.
    all: try (pose proof (phi_le s)); lia.
  - destruct (live t) eqn:Hl.
    2:{ exists 0%nat. split; [lia|]. cbn [repeat run fold_left snd]. intros t' Ht'. rewrite Hn in Ht'. injection Ht' as <-. exact Hl. }
    pose proof (inv_step np T (s, ts) i I) as I'.
    unfold step in I'. rewrite Hn in I'. destruct (step_thread np s t) as [s' t'] eqn:Hs.
    assert (Hdec : (rank np s' t' < rank np s t)%nat).
    { destruct I as (r0 & h & e & F & C & TL & W & NP & _).
      apply (rank_decreases np s t s' t' Hs Hl (fields_range _ _ _ _ F)).
      intros Hp. apply NP. pose proof (sum_others_bound _ _ _ Hn) as (_ & _ & _ & B4 & _). lia. }
    destruct (IH (s', upd ts i t') i t' I' (nth_error_upd_same _ _ _ _ Hn) ltac:(cbn [fst]; lia)) as (n & Hle & Hfin).
    exists (S n). split; [lia|]. cbn [repeat run fold_left]. unfold step at 2. rewrite Hn, Hs. exact Hfin.
Qed.

Theorem solo_completes np s0 ts0 sched i t : good_init s0 ts0 ->
  nth_error (snd (run np sched (s0, ts0))) i = Some t ->
  exists n, (n <= rank np (fst (run np sched (s0, ts0))) t)%nat /\
    forall t', nth_error (snd (run np (repeat i n) (run np sched (s0, ts0)))) i = Some t' -> live t' = false.
Proof.
  intros G Hn. eapply solo_from_inv; [apply (reach_inv np s0 ts0 sched G) | exact Hn | lia].
Qed.

(* a call not in the (unbounded) no-op run of a changer has rank at most rank_bound *)
Lemma rank_bounded np s t : (forall k, t_pc t <> CNop k) -> (rank np s t <= rank_bound np)%nat.
Proof.
  intros H. unfold rank, rank_bound. pose proof (phi_le s). pose proof (stale_le s t). pose proof (cell_stale_le s t).
  assert (stale2 s t <= 2)%nat by (unfold stale2; destruct (Z.eqb _ _); lia).
  assert (fullw s <= 100)%nat by (unfold fullw; destruct (s_full s); lia).
  destruct (t_pc t) eqn:E; try lia. exfalso. eapply H; eauto.
Qed.
