(* Proofs/ApprovalReports: the viewer's description of a weekly REPORT
   (newTelemetryReport after fix a1becfe: summary from the identity, the
   Counters and the Stacks).  For every configuration and every program of a
   report whose Counters keys are plain names and whose Stacks keys are stack
   names (every report the uploader writes, C01_aggregate_wf): the set
   verdict is the documented one and the listed names are exactly the
   displayed names of the counters AND stack counters the uploader drops; no
   approved item is ever called excluded; the executable report oracle
   reports nothing on the model. *)
From Coq Require Import List ZArith NArith Bool Lia.
From Tele Require Import Lib.Bytes Lib.Str Lib.Assoc Lib.Calendar Model.Config Model.ApprovalSpec Model.Report
  Model.Approval Proofs.ConfigFacts Proofs.AggregateFacts Proofs.ReportFacts Proofs.ApprovalFacts.
Import ListNotations.
Open Scope N_scope.

Definition plain_keys (p : ident * body) : Prop :=
  (forall k, In k (map fst (fst (snd p))) -> is_stack k = false) /\
  (forall k, In k (map fst (snd (snd p))) -> is_stack k = true).

(* the items of a program of a report: counter names, then stack names *)
Definition report_items (p : ident * body) : list bytes :=
  map fst (fst (snd p)) ++ map fst (snd (snd p)).

Lemma summary_names_match l : summary_names (match l with [] => SClean | l' => SCounters l' end) = l.
Proof. destruct l; reflexivity. Qed.

Lemma filter_all_true {A} (f : A -> bool) l : (forall x, In x l -> f x = true) -> filter f l = l.
Proof.
  induction l as [|a l IH]; intro H; [reflexivity|]. cbn [filter].
  rewrite (H a (or_introl eq_refl)), IH; [reflexivity|]. intros x Hx. apply H. right. exact Hx.
Qed.

(* with disjoint key sets the single map is just Counters followed by Stacks *)
Lemma report_program_counts p : plain_keys p ->
  map fst (f_counts (report_program_file p)) = report_items p.
Proof.
  intros [Hc Hs]. unfold report_program_file, report_items. cbn [f_counts]. rewrite map_map. cbn [fst].
  rewrite map_app. f_equal. f_equal. apply filter_all_true. intros [k v] Hin. cbn [fst].
  apply negb_true_iff. destruct (memb k (map fst (snd (snd p)))) eqn:E; [|reflexivity].
  apply memb_In in E. apply Hs in E. rewrite (Hc k) in E; [discriminate|]. apply in_map_iff. exists (k, v). auto.
Qed.

Lemma dropped_names_keys u prog (l : list (bytes * N)) :
  map (fun kv : bytes * N => display_name (fst kv))
      (filter (fun kv : bytes * N => negb (uploader_keeps (new_config u) 0 prog (fst kv))) l) =
  map display_name (filter (fun k => negb (approved_itemb u prog k)) (map fst l)).
Proof.
  induction l as [|[k v] l IH]; [reflexivity|]. cbn [map filter fst].
  destruct (deciders_item_agree u prog k) as [-> _].
  destruct (approved_itemb u prog k); cbn [negb map fst]; [exact IH | f_equal; exact IH].
Qed.

(* the names the report view lists: the displayed names (a stack's title) of
   exactly the counters and stack counters that are not approved *)
Theorem viewer_report_names u p :
  approved_build u (fst p) -> plain_keys p ->
  summary_names (viewer_report_summary (new_config u) p) =
  map display_name (filter (fun k => negb (approved_itemb u (id_program (fst p)) k)) (report_items p)).
Proof.
  intros Ha Hp. unfold viewer_report_summary.
  assert (Hid : f_ident (report_program_file p) = fst p) by reflexivity.
  pose proof (viewer_items_iff_uploader u (report_program_file p)) as Hs. rewrite Hid in Hs.
  destruct (Hs Ha) as [Hsum _]. cbv zeta in Hsum. rewrite Hsum, summary_names_match, dropped_names_keys.
  rewrite (report_program_counts p Hp). reflexivity.
Qed.

Lemma viewer_report_set u p :
  summary_excludes_set (viewer_report_summary (new_config u) p) = negb (approved_buildb u (fst p)).
Proof.
  unfold viewer_report_summary. rewrite viewer_set_iff.
  change (f_ident (report_program_file p)) with (fst p). rewrite build_ok_approvedb. reflexivity.
Qed.

(* never a false claim; nothing dropped is left out *)
Theorem viewer_report_lists_dropped u p : approved_build u (fst p) -> plain_keys p ->
  (forall n, In n (summary_names (viewer_report_summary (new_config u) p)) ->
             exists k, In k (report_items p) /\ display_name k = n /\ approved_itemb u (id_program (fst p)) k = false) /\
  (forall k, In k (report_items p) -> approved_itemb u (id_program (fst p)) k = false ->
             In (display_name k) (summary_names (viewer_report_summary (new_config u) p))).
Proof.
  intros Ha Hp. rewrite (viewer_report_names u p Ha Hp). split.
  - intros n Hn. apply in_map_iff in Hn as [k [Hd Hk]]. apply filter_In in Hk as [Hin Hna].
    apply negb_true_iff in Hna. eauto.
  - intros k Hin Hna. apply in_map. apply filter_In. rewrite Hna. auto.
Qed.

(* the report oracle on the model: nothing *)
Theorem viewer_report_check_model u p : plain_keys p ->
  viewer_report_check u p (viewer_report_summary (new_config u) p) = [].
Proof.
  intros Hp. unfold viewer_report_check. cbv zeta. rewrite viewer_report_set, Bool.eqb_reflx. cbn [app].
  destruct (approved_buildb u (fst p)) eqn:Ea; [|reflexivity].
  pose proof (proj1 (approved_buildb_spec u _) Ea) as Hb.
  destruct (viewer_report_lists_dropped u p Hb Hp) as [Hsound Hcomplete].
  destruct Hp as [Hc Hs].
  set (names := summary_names (viewer_report_summary (new_config u) p)) in *.
  assert (H1 : forallb (fun n => existsb (fun k => beq k n && negb (approved_counterb u (id_program (fst p)) k))
                                          (map fst (fst (snd p))) ||
                                 existsb (fun k => beq (stack_title k) n && negb (approved_stackb u (id_program (fst p)) k))
                                          (map fst (snd (snd p)))) names = true).
  { apply forallb_forall. intros n Hn. destruct (Hsound n Hn) as [k [Hin [Hd Hna]]].
    unfold report_items in Hin. apply in_app_iff in Hin. apply orb_true_iff.
    unfold display_name, approved_itemb in *. destruct Hin as [Hin|Hin].
    - rewrite (Hc k Hin) in *. left. apply existsb_exists. exists k. subst n. rewrite beq_refl, Hna. auto.
    - rewrite (Hs k Hin) in *. right. apply existsb_exists. exists k. subst n. rewrite beq_refl, Hna. auto. }
  assert (H2 : forallb (fun k => approved_counterb u (id_program (fst p)) k || memb k names)
                       (map fst (fst (snd p))) = true).
  { apply forallb_forall. intros k Hk. destruct (approved_counterb u (id_program (fst p)) k) eqn:E; [reflexivity|].
    cbn [orb]. apply memb_In. assert (Hi : In k (report_items p)) by (apply in_app_iff; left; exact Hk).
    pose proof (Hcomplete k Hi) as H. unfold approved_itemb, display_name in H. rewrite (Hc k Hk) in H. auto. }
  assert (H3 : forallb (fun k => approved_stackb u (id_program (fst p)) k || memb (stack_title k) names)
                       (map fst (snd (snd p))) = true).
  { apply forallb_forall. intros k Hk. destruct (approved_stackb u (id_program (fst p)) k) eqn:E; [reflexivity|].
    cbn [orb]. apply memb_In. assert (Hi : In k (report_items p)) by (apply in_app_iff; right; exact Hk).
    pose proof (Hcomplete k Hi) as H. unfold approved_itemb, display_name in H. rewrite (Hs k Hk) in H. auto. }
  rewrite H1, H2, H3. reflexivity.
Qed.
