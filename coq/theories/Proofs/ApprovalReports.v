(* Proofs/ApprovalReports: the viewer's description of a weekly REPORT
   (newTelemetryReport: summary from the identity and the Counters map).
   For every configuration and every program of a report whose Counters keys
   are plain names (every report the uploader writes): the set verdict is the
   documented one and the listed names are exactly the plain counters the
   uploader drops - no approved item is ever called excluded.  The Stacks of a
   report are not examined: an unapproved stack is not mentioned (finding 19,
   witness below); that is the only failure the oracle can report on the model. *)
From Coq Require Import List ZArith NArith Bool Lia.
From Tele Require Import Lib.Bytes Lib.Str Lib.Assoc Lib.Calendar Model.Config Model.ApprovalSpec Model.Report
  Model.Approval Proofs.ConfigFacts Proofs.AggregateFacts Proofs.ReportFacts Proofs.ApprovalFacts.
Import ListNotations.
Open Scope N_scope.

Definition plain_keys (p : ident * body) : Prop :=
  forall k, In k (map fst (fst (snd p))) -> is_stack k = false.

Lemma summary_names_match l : summary_names (match l with [] => SClean | l' => SCounters l' end) = l.
Proof. destruct l; reflexivity. Qed.

(* the names listed for a program of a report: the plain counters that are not approved *)
Theorem viewer_report_names u p :
  approved_build u (fst p) -> plain_keys p ->
  summary_names (viewer_report_summary (new_config u) p) =
  filter (fun k => negb (approved_counterb u (id_program (fst p)) k)) (map fst (fst (snd p))).
Proof.
  intros Ha Hp. unfold viewer_report_summary.
  pose proof (viewer_items_iff_uploader u (report_program_file p) Ha) as [Hs _]. cbv zeta in Hs.
  cbn [report_program_file f_ident f_counts] in Hs. rewrite Hs.
  rewrite summary_names_match. clear Hs.
  unfold plain_keys in Hp. induction (fst (snd p)) as [|[k v] l IH]; [reflexivity|].
  cbn [map filter fst] in *.
  assert (Hk : is_stack k = false) by (apply Hp; left; reflexivity).
  assert (Hkeep : uploader_keeps (new_config u) 0 (id_program (fst p)) k = approved_counterb u (id_program (fst p)) k).
  { destruct (deciders_item_agree u (id_program (fst p)) k) as [-> _]. unfold approved_itemb. rewrite Hk. reflexivity. }
  rewrite Hkeep. destruct (approved_counterb u (id_program (fst p)) k); cbn [negb map fst].
  - apply IH. intros k' Hk'. apply Hp. right. exact Hk'.
  - unfold display_name at 1. rewrite Hk. f_equal. apply IH. intros k' Hk'. apply Hp. right. exact Hk'.
Qed.

Lemma viewer_report_set u p :
  summary_excludes_set (viewer_report_summary (new_config u) p) = negb (approved_buildb u (fst p)).
Proof.
  unfold viewer_report_summary. rewrite viewer_set_iff. cbn [report_program_file f_ident].
  rewrite build_ok_approvedb. reflexivity.
Qed.

(* the report oracle on the model: nothing, except the omitted-stack class *)
Theorem viewer_report_check_model u p : plain_keys p ->
  forall cl, In cl (viewer_report_check u p (viewer_report_summary (new_config u) p)) ->
  cl = AViewerReportStackOmitted /\ approved_buildb u (fst p) = true /\
  exists k, In k (map fst (snd (snd p))) /\ approved_stackb u (id_program (fst p)) k = false.
Proof.
  intros Hp cl. unfold viewer_report_check. cbv zeta. rewrite viewer_report_set, Bool.eqb_reflx. cbn [app].
  destruct (approved_buildb u (fst p)) eqn:Ea; [|intros []].
  rewrite (viewer_report_names u p (proj1 (approved_buildb_spec u _) Ea) Hp).
  set (names := filter (fun k => negb (approved_counterb u (id_program (fst p)) k)) (map fst (fst (snd p)))).
  assert (H1 : forallb (fun n => existsb (fun k => beq k n && negb (approved_counterb u (id_program (fst p)) k))
                                          (map fst (fst (snd p))) ||
                                 existsb (fun k => beq (stack_title k) n && negb (approved_stackb u (id_program (fst p)) k))
                                          (map fst (snd (snd p)))) names = true).
  { apply forallb_forall. intros n Hn. subst names. apply filter_In in Hn as [Hin Hna].
    apply orb_true_iff. left. apply existsb_exists. exists n. rewrite beq_refl. auto. }
  assert (H2 : forallb (fun k => approved_counterb u (id_program (fst p)) k || memb k names)
                       (map fst (fst (snd p))) = true).
  { apply forallb_forall. intros k Hk. destruct (approved_counterb u (id_program (fst p)) k) eqn:E; [reflexivity|].
    cbn [orb]. apply memb_In. subst names. apply filter_In. rewrite E. auto. }
  rewrite H1, H2. cbn [app].
  destruct (forallb (fun k => approved_stackb u (id_program (fst p)) k || memb (stack_title k) names)
                    (map fst (snd (snd p)))) eqn:E3; [intros []|].
  intros [<-|[]]. split; [reflexivity|]. split; [reflexivity|].
  destruct (existsb (fun k => negb (approved_stackb u (id_program (fst p)) k)) (map fst (snd (snd p)))) eqn:Ex.
  - apply existsb_exists in Ex as [k [Hk Hn]]. apply negb_true_iff in Hn. eauto.
  - exfalso. assert (Ht : forallb (fun k => approved_stackb u (id_program (fst p)) k || memb (stack_title k) names)
                                  (map fst (snd (snd p))) = true).
    { apply forallb_forall. intros k Hk. destruct (approved_stackb u (id_program (fst p)) k) eqn:Es; [reflexivity|].
      assert (Hc : existsb (fun k => negb (approved_stackb u (id_program (fst p)) k)) (map fst (snd (snd p))) = true)
        by (apply existsb_exists; exists k; rewrite Es; auto). congruence. }
    congruence.
Qed.

(* in particular no approved stack (nor any approved item) is ever called excluded by the report view *)
Theorem viewer_report_no_false_claim u p n :
  approved_build u (fst p) -> plain_keys p ->
  In n (summary_names (viewer_report_summary (new_config u) p)) ->
  In n (map fst (fst (snd p))) /\ approved_counterb u (id_program (fst p)) n = false.
Proof.
  intros Ha Hp Hn. rewrite (viewer_report_names u p Ha Hp) in Hn. apply filter_In in Hn as [H1 H2].
  apply negb_true_iff in H2. auto.
Qed.

From Coq Require Import String.
Local Open Scope string_scope.
Local Open Scope list_scope.
Local Open Scope N_scope.
(* finding 19: an unapproved stack counter of a local report is not mentioned by the report view *)
Theorem viewer_report_stack_refuted :
  exists u p, approved_buildb u (fst p) = true /\
    (exists k v, In (k, v) (snd (snd p)) /\ approved_stackb u (id_program (fst p)) k = false) /\
    viewer_report_summary (new_config u) p = SClean.
Proof.
  exists (w_cfg [mkCC (s2b "foo") bits_one] []), (w_id, ([(s2b "foo", 3%Z)], [(s2b "stk" ++ [10] ++ s2b "f", 7%Z)])).
  split; [vm_compute; reflexivity|]. split; [|vm_compute; reflexivity].
  exists (s2b "stk" ++ [10] ++ s2b "f"), 7%Z. split; [left; reflexivity | vm_compute; reflexivity].
Qed.
