(* Proofs/FileFaultFacts: for EVERY fault plan the open / extend sequences
   make a bounded number of file-system calls and end mapped or parked, never
   in a panic; in the parked state increments only touch the in-memory word. *)
From Coq Require Import List NArith ZArith Bool Lia Arith.
From Tele Require Import Gen.Consts Lib.Bytes Model.FileFault Model.CounterConc.
Import ListNotations.

Ltac split_fails :=
  repeat match goal with
         | |- context [fails ?p ?i ?w] => destruct (fails p i w)
         end.

Lemma week_end_total : forall p day sd i fs,
  let '(o, j, _) := week_end p day sd i fs in (i + 1 <= j <= i + 4)%nat /\ o <> Panic.
Proof.
  intros p day sd i fs. unfold week_end.
  destruct (fails p i false || match fs_week fs with None => true | Some _ => false end).
  - destruct (fails p (i + 1) false); cbn [negb]; [split; [lia|discriminate]|].
    destruct (p (i + 2)%nat); cbn [negb]; try (split; [lia|discriminate]).
    destruct (fails p (i + 3) false); [split; [lia|discriminate]|]. cbn [fs_week].
    destruct (N.of_nat (length (trim_space [day; 10%N])) =? 0)%N eqn:Q; [split; [lia|discriminate]|].
    destruct (trim_space [day; 10%N]); [cbn in Q; discriminate|split; [lia|discriminate]].
  - cbn [negb]. destruct (fails p (i + 1) false); [split; [lia|discriminate]|].
    destruct (fs_week fs) as [content|]; [|split; [lia|discriminate]].
    destruct (N.of_nat (length (trim_space content)) =? 0)%N eqn:Q; [split; [lia|discriminate]|].
    destruct (trim_space content); [cbn in Q; discriminate|split; [lia|discriminate]].
Qed.

Lemma open_mapped_total : forall p i fs,
  let '(o, j, _) := open_mapped p i fs in (i + 1 <= j <= i + 7)%nat /\ o <> Panic.
Proof.
  intros p i fs. unfold open_mapped.
  destruct (fails p i false); [split; [lia|discriminate]|].
  destruct (fs_file fs) eqn:Ef;
    repeat (split_fails; cbv beta iota zeta; cbn [negb fs_file fs_week]; rewrite ?Ef);
    split; try lia; discriminate.
Qed.

(* opening: at most 12 calls whatever fails, and the result is mapped or parked *)
Theorem rotate1_total : forall p day sd mode fs,
  let '(o, n, _) := rotate1 p day sd mode fs in (n <= 12)%nat /\ (o = Mapped \/ o = Parked).
Proof.
  intros p day sd mode fs. unfold rotate1.
  destruct (mode_off mode); [split; [lia|auto]|].
  pose proof (week_end_total p day sd 0 fs) as W.
  destruct (week_end p day sd 0 fs) as [[o i] fs1]. destruct W as [Wi Wo].
  destruct o; try (split; [lia|auto]); [|congruence].
  destruct (fails p i false); [split; [lia|auto]|].
  pose proof (open_mapped_total p (i + 1) fs1) as O.
  destruct (open_mapped p (i + 1) fs1) as [[o2 j] fs2]. destruct O as [Oi Oo].
  split; [lia|]. destruct o2; auto. congruence.
Qed.

Theorem extend_total : forall p i, (i + 1 <= snd (extend p i) <= i + 6)%nat.
Proof. intros p i. unfold extend. split_fails; cbn [snd]; lia. Qed.

(* the whole scenario: at most 18 calls *)
Theorem scenario_total : forall p day sd mode fs,
  let '(o, i, ok, n) := scenario p day sd mode fs in
  (i <= 12 /\ n <= 18 /\ i <= n)%nat /\ (o = Mapped \/ o = Parked) /\ (ok = true -> o = Mapped).
Proof.
  intros p day sd mode fs. unfold scenario.
  pose proof (rotate1_total p day sd mode fs) as R. destruct (rotate1 p day sd mode fs) as [[o i] fs1]. destruct R as [Ri Ro].
  destruct o.
  - pose proof (extend_total p i) as E. destruct (extend p i) as [ok j]. cbn [snd] in E.
    split; [lia|]. split; [auto|]. auto.
  - split; [lia|]. split; [auto|]. discriminate.
  - destruct Ro; discriminate.
Qed.

(* ---- parked: no current mapping, no pointer.  Every step of an Add (any
        interleaving: this is a one-step fact of the C03 transition system)
        leaves every persisted cell alone and keeps the state parked; the
        amount goes to the in-memory word ---- *)
Definition add_pc (p : pc) : bool :=
  match p with
  | AIdle | ALoad | ACas | AXCas | AXLoad | RCas | RLoad
  | LCas | LLoad | LLook1 | LLook2 | Done => true      (* the program points of an Add that has no pointer *)
  | _ => false
  end.

Theorem parked_add_in_memory : forall np s t,
  add_pc (t_pc t) = true -> t_kind t = Adder -> s_cur s = None -> s_ptr s = None ->
  let '(s', t') := step_thread np s t in
  s_cells s' = s_cells s /\ s_cur s' = None /\ s_ptr s' = None /\ s_closed s' = s_closed s /\
  add_pc (t_pc t') = true /\ t_kind t' = Adder.
Proof.
  intros np s t Pc Kd Cur Ptr. unfold step_thread.
  destruct (t_pc t) eqn:E; try discriminate; cbn [add_pc] in *;
    unfold after_release; rewrite ?Kd, ?Cur, ?Ptr;
    try destruct (w_extra (t_st t) =? 0)%Z;
    repeat match goal with
           | |- context [if ?c then _ else _] => destruct c
           end;
    unfold after_release, to_close, set_word, set_sat, set_ptr, with_pc, with_st, with_old, with_amt; cbn;
    rewrite ?Kd, ?Cur, ?Ptr, ?E; cbn; auto 10.
Qed.
