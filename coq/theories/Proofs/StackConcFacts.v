(* Proofs/StackConcFacts: any interleaving of atomic Incs leaves exactly one
   counter per call stack, holding the number of Incs made from it. *)
From Coq Require Import List NArith Bool Lia.
From Tele Require Import Lib.Bytes Model.StackConc.
Import ListNotations.
Open Scope N_scope.

Definition key_dec : forall a b : list N, {a = b} + {a <> b} := list_eq_dec N.eq_dec.

Lemma beq_dec a b : beq a b = if key_dec a b then true else false.
Proof.
  destruct (key_dec a b) as [->|H]; [apply beq_refl|apply beq_neq; exact H].
Qed.

Lemma inc_entries_same k st : entries k (inc_atomic k st) = match entries k st with O => 1%nat | n => n end.
Proof.
  induction st as [|[k' v] st IH]; cbn [inc_atomic entries]; [rewrite beq_refl; reflexivity|].
  destruct (beq k' k) eqn:E; cbn [entries]; rewrite E; [reflexivity|exact IH].
Qed.

Lemma inc_entries_other k j st : k <> j -> entries j (inc_atomic k st) = entries j st.
Proof.
  intro H. induction st as [|[k' v] st IH]; cbn [inc_atomic entries].
  - assert (E : beq k j = false) by (apply beq_neq; exact H). rewrite E. reflexivity.
  - destruct (beq k' k) eqn:E; cbn [entries]; [reflexivity|]. rewrite IH. reflexivity.
Qed.

Lemma inc_total_same k st : (entries k st <= 1)%nat -> total k (inc_atomic k st) = total k st + 1.
Proof.
  induction st as [|[k' v] st IH]; cbn [inc_atomic entries total]; intro Hle.
  - rewrite beq_refl. reflexivity.
  - destruct (beq k' k) eqn:E; cbn [total]; rewrite E; [lia|]. rewrite IH by exact Hle. reflexivity.
Qed.

Lemma inc_total_other k j st : k <> j -> total j (inc_atomic k st) = total j st.
Proof.
  intro H. induction st as [|[k' v] st IH]; cbn [inc_atomic total].
  - assert (E : beq k j = false) by (apply beq_neq; exact H). rewrite E. reflexivity.
  - destruct (beq k' k) eqn:E; cbn [total].
    + apply beq_eq in E. subst k'. assert (E2 : beq k j = false) by (apply beq_neq; exact H). rewrite E2. reflexivity.
    + rewrite IH. reflexivity.
Qed.

(* invariant of fold_left: generalised over the starting state *)
Lemma run_from hist : forall st j,
  (entries j st <= 1)%nat ->
  (entries j st = 0%nat -> total j st = 0) ->
  let fin := fold_left (fun s k => inc_atomic k s) hist st in
  (entries j fin <= 1)%nat /\
  (entries j fin = 0%nat <-> (entries j st = 0%nat /\ ~ In j hist)) /\
  total j fin = total j st + N.of_nat (count_occ key_dec hist j).
Proof.
  induction hist as [|k hist IH]; intros st j Hle Hz; cbn [fold_left count_occ].
  - cbv zeta. split; [exact Hle|]. split; [|lia]. split; [intro H; split; [exact H|intros []]|intros [H _]; exact H].
  - destruct (key_dec k j) as [->|Hkj].
    + specialize (IH (inc_atomic j st) j).
      assert (H1 : (entries j (inc_atomic j st) <= 1)%nat).
      { rewrite inc_entries_same. destruct (entries j st) as [|[|n]]; lia. }
      assert (H2 : entries j (inc_atomic j st) <> 0%nat).
      { rewrite inc_entries_same. destruct (entries j st); lia. }
      destruct (IH H1 ltac:(intro; contradiction)) as [A [B C]].
      split; [exact A|]. split.
      * split; [intro H; apply B in H; destruct H; contradiction|intros [_ H]; exfalso; apply H; left; reflexivity].
      * rewrite C, inc_total_same by exact Hle. lia.
    + specialize (IH (inc_atomic k st) j).
      rewrite inc_entries_other, inc_total_other in IH by exact Hkj.
      destruct (IH Hle Hz) as [A [B C]].
      split; [exact A|]. split; [|exact C].
      rewrite B. split; intros [H1 H2]; (split; [exact H1|]).
      * intros [H|H]; [contradiction|exact (H2 H)].
      * intro H. apply H2. right. exact H.
Qed.

(* every sequence of atomic Incs: one counter per call stack that occurs, none
   for the others, holding the number of its Incs *)
Lemma atomic_incs_one_counter hist j :
  entries j (run_atomic hist) = (if in_dec key_dec j hist then 1 else 0)%nat /\
  total j (run_atomic hist) = N.of_nat (count_occ key_dec hist j).
Proof.
  unfold run_atomic.
  destruct (run_from hist [] j (le_0_n _) (fun _ => eq_refl)) as [A [B C]].
  cbn [entries total] in *. split; [|rewrite C; lia].
  destruct (in_dec key_dec j hist) as [Hin|Hnin].
  - set (e := entries j (fold_left (fun (s : cstate) (k : list N) => inc_atomic k s) hist [])) in *.
    destruct e as [|[|n]]; [|reflexivity|lia].
    exfalso. destruct B as [B _]. destruct (B eq_refl) as [_ H]. exact (H Hin).
  - apply B. split; [reflexivity|exact Hnin].
Qed.

(* an interleaving contains every thread's Incs, no more *)
Lemma interleaving_count ths h : interleaving ths h -> forall j,
  count_occ key_dec h j = fold_right (fun t acc => (count_occ key_dec t j + acc)%nat) 0%nat ths.
Proof.
  induction 1 as [ths Hall|pre k t post h _ IH]; intro j.
  - cbn [count_occ]. induction Hall as [|t ths -> _ IHa]; [reflexivity|]. cbn [fold_right count_occ]. exact IHa.
  - cbn [count_occ]. rewrite (IH j). clear IH.
    induction pre as [|p pre IHp]; cbn [app fold_right count_occ].
    + destruct (key_dec k j); lia.
    + destruct (key_dec k j); cbn [app fold_right] in IHp |- *; lia.
Qed.

Lemma concurrent_incs_one_counter ths h j : interleaving ths h ->
  (entries j (run_atomic h) <= 1)%nat /\
  (In j h -> entries j (run_atomic h) = 1%nat) /\
  total j (run_atomic h) =
    N.of_nat (fold_right (fun t acc => (count_occ key_dec t j + acc)%nat) 0%nat ths).
Proof.
  intro Hi. destruct (atomic_incs_one_counter h j) as [A B].
  rewrite <- (interleaving_count _ _ Hi j). split; [|split; [|exact B]].
  - rewrite A. destruct (in_dec key_dec j h); lia.
  - intro Hin. rewrite A. destruct (in_dec key_dec j h); [reflexivity|contradiction].
Qed.

(* without the lock across lookup and append: two first Incs of one stack that
   both looked up before either appended leave two counters *)
Lemma unlocked_find_or_append_refuted :
  let k := [1; 2] in
  entries k (append_new k (append_new k [])) = 2%nat.
Proof. reflexivity. Qed.
