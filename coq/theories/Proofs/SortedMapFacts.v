(* Proofs/SortedMapFacts: lemmas about Lib/SortedMap (generic in the key
   order, which is supplied as a [cmp_ok] record). *)
From Coq Require Import List NArith Bool Lia.
From Tele Require Import Lib.SortedMap.
Import ListNotations.

Record cmp_ok {A : Type} (c : A -> A -> comparison) : Prop := {
  c_eq : forall a b, c a b = Eq <-> a = b;
  c_sym : forall a b, c b a = CompOpp (c a b);
  c_trans : forall a b d, c a b = Lt -> c b d = Lt -> c a d = Lt
}.

Lemma N_cmp_ok : cmp_ok N.compare.
Proof.
  split.
  - intros a b. apply N.compare_eq_iff.
  - intros a b. apply N.compare_antisym.
  - intros a b d H1 H2. rewrite N.compare_lt_iff in *. lia.
Qed.

Section LexFacts.
  Variable A : Type.
  Variable c : A -> A -> comparison.
  Hypothesis Hc : cmp_ok c.

  Lemma c_refl a : c a a = Eq.
  Proof. apply (c_eq c Hc). reflexivity. Qed.

  Lemma lex_eq : forall a b, lex_cmp c a b = Eq <-> a = b.
  Proof.
    induction a as [|x a IH]; intros [|y b]; simpl; split; intro H;
      try discriminate; try reflexivity.
    - destruct (c x y) eqn:E; try discriminate.
      apply (c_eq c Hc) in E. apply IH in H. congruence.
    - injection H as -> ->. rewrite c_refl. apply IH. reflexivity.
  Qed.

  Lemma lex_sym : forall a b, lex_cmp c b a = CompOpp (lex_cmp c a b).
  Proof.
    induction a as [|x a IH]; intros [|y b]; simpl; try reflexivity.
    rewrite (c_sym c Hc x y). destruct (c x y); simpl; auto.
  Qed.

  Lemma lex_trans : forall a b d, lex_cmp c a b = Lt -> lex_cmp c b d = Lt -> lex_cmp c a d = Lt.
  Proof.
    induction a as [|x a IH]; intros [|y b] [|z d]; simpl; intros H1 H2;
      try discriminate; try reflexivity.
    destruct (c x y) eqn:E1; try discriminate.
    - apply (c_eq c Hc) in E1. subst y.
      destruct (c x z) eqn:E2; try discriminate; try reflexivity.
      eapply IH; eauto.
    - destruct (c y z) eqn:E2; try discriminate.
      + apply (c_eq c Hc) in E2. subst z. rewrite E1. reflexivity.
      + rewrite (c_trans c Hc _ _ _ E1 E2). reflexivity.
  Qed.

  Lemma lex_cmp_ok : cmp_ok (lex_cmp c).
  Proof. split; [apply lex_eq | apply lex_sym | apply lex_trans]. Qed.

  (* a proper prefix is smaller *)
  Lemma lex_prefix_lt : forall a x r, lex_cmp c a (a ++ x :: r) = Lt.
  Proof. induction a as [|y a IH]; intros; simpl; [reflexivity|]. rewrite c_refl. apply IH. Qed.
End LexFacts.

Section MapFacts.
  Variables K V : Type.
  Variable cmp : K -> K -> comparison.
  Hypothesis Hc : cmp_ok cmp.

  Notation get := (@SortedMap.get K V cmp).
  Notation put := (@SortedMap.put K V cmp).

  Fixpoint sorted (m : list (K * V)) : Prop :=
    match m with
    | [] => True
    | (k, _) :: m' => (forall k', In k' (keys m') -> cmp k k' = Lt) /\ sorted m'
    end.

  Lemma cmp_refl k : cmp k k = Eq.
  Proof. apply (c_eq cmp Hc). reflexivity. Qed.

  Lemma cmp_gt_lt a b : cmp a b = Gt -> cmp b a = Lt.
  Proof. intro H. rewrite (c_sym cmp Hc a b), H. reflexivity. Qed.

  Lemma cmp_neq a b : a <> b -> cmp a b <> Eq.
  Proof. intros H E. apply (c_eq cmp Hc) in E. contradiction. Qed.

  Lemma get_put_same k v m : get k (put k v m) = Some v.
  Proof.
    induction m as [|[k' v'] m IH]; simpl.
    - rewrite cmp_refl. reflexivity.
    - destruct (cmp k k') eqn:E; simpl.
      + rewrite cmp_refl. reflexivity.
      + rewrite cmp_refl. reflexivity.
      + rewrite E. exact IH.
  Qed.

  Lemma get_put_other k k2 v m : k2 <> k -> get k2 (put k v m) = get k2 m.
  Proof.
    intro Hne. induction m as [|[k' v'] m IH]; simpl.
    - destruct (cmp k2 k) eqn:E; try reflexivity. exfalso. eapply cmp_neq; eauto.
    - destruct (cmp k k') eqn:E; simpl.
      + apply (c_eq cmp Hc) in E. subst k'.
        destruct (cmp k2 k) eqn:E2; try reflexivity. exfalso. eapply cmp_neq; eauto.
      + destruct (cmp k2 k) eqn:E2; try reflexivity. exfalso. eapply cmp_neq; eauto.
      + destruct (cmp k2 k'); try reflexivity; exact IH.
  Qed.

  Lemma get_put k k2 v m :
    get k2 (put k v m) = match cmp k2 k with Eq => Some v | _ => get k2 m end.
  Proof.
    destruct (cmp k2 k) eqn:E.
    - apply (c_eq cmp Hc) in E. subst. apply get_put_same.
    - apply get_put_other. intros ->. rewrite cmp_refl in E. discriminate.
    - apply get_put_other. intros ->. rewrite cmp_refl in E. discriminate.
  Qed.

  Lemma keys_put k v m k' : In k' (keys (put k v m)) <-> k' = k \/ In k' (keys m).
  Proof.
    induction m as [|[k0 v0] m IH]; simpl.
    - intuition.
    - destruct (cmp k k0) eqn:E; simpl.
      + apply (c_eq cmp Hc) in E. subst. intuition.
      + intuition.
      + rewrite IH. intuition.
  Qed.

  Lemma put_sorted k v m : sorted m -> sorted (put k v m).
  Proof.
    induction m as [|[k0 v0] m IH]; simpl; intro Hs.
    - split; [intros ? []|exact I].
    - destruct Hs as [Hlt Hs]. destruct (cmp k k0) eqn:E; simpl.
      + apply (c_eq cmp Hc) in E. subst. split; assumption.
      + split; [|split; assumption].
        intros k' [<-|Hin]; [exact E|]. eapply (c_trans cmp Hc); eauto.
      + split; [|apply IH; exact Hs].
        intros k' Hin. apply keys_put in Hin as [->|Hin]; [apply cmp_gt_lt; exact E | apply Hlt; exact Hin].
  Qed.

  Lemma get_none_lt k m : (forall k', In k' (keys m) -> cmp k k' = Lt) -> get k m = None.
  Proof.
    induction m as [|[k0 v0] m IH]; simpl; intro H; [reflexivity|].
    rewrite (H k0) by (left; reflexivity). apply IH. intros; apply H; right; assumption.
  Qed.

  Lemma get_in k v m : get k m = Some v -> In (k, v) m.
  Proof.
    induction m as [|[k0 v0] m IH]; simpl; [discriminate|].
    destruct (cmp k k0) eqn:E; intro H.
    - apply (c_eq cmp Hc) in E. injection H as ->. subst. left; reflexivity.
    - right; auto.
    - right; auto.
  Qed.

  Lemma in_keys k v (m : list (K * V)) : In (k, v) m -> In k (keys m).
  Proof. intro H. apply (in_map fst) in H. exact H. Qed.

  Lemma in_get k v m : sorted m -> In (k, v) m -> get k m = Some v.
  Proof.
    induction m as [|[k0 v0] m IH]; simpl; [intros _ []|].
    intros [Hlt Hs] [H|H].
    - injection H as -> ->. rewrite cmp_refl. reflexivity.
    - assert (E : cmp k0 k = Lt) by (apply Hlt; eapply in_keys; eauto).
      rewrite (c_sym cmp Hc k0 k), E. simpl. apply IH; assumption.
  Qed.

  Lemma get_some_in_keys k v m : get k m = Some v -> In k (keys m).
  Proof. intro H. eapply in_keys. apply get_in. exact H. Qed.

  Lemma in_keys_get k m : In k (keys m) -> exists v, get k m = Some v.
  Proof.
    induction m as [|[k0 v0] m IH]; simpl; [intros []|].
    intros [<-|H].
    - rewrite cmp_refl. eauto.
    - destruct (cmp k k0); eauto.
  Qed.

  Lemma sorted_keys_nodup m : sorted m -> NoDup (keys m).
  Proof.
    induction m as [|[k0 v0] m IH]; simpl; intro Hs; [constructor|].
    destruct Hs as [Hlt Hs]. constructor; [|auto].
    intro Hin. apply Hlt in Hin. rewrite cmp_refl in Hin. discriminate.
  Qed.

  Lemma put_lt_all k v m : (forall k', In k' (keys m) -> cmp k k' = Lt) -> put k v m = (k, v) :: m.
  Proof.
    destruct m as [|[k0 v0] m]; simpl; intro H; [reflexivity|].
    rewrite (H k0) by (left; reflexivity). reflexivity.
  Qed.
End MapFacts.
Arguments sorted {K V} cmp m.

Section FmfFacts.
  Variables K V W : Type.
  Variable cmp : K -> K -> comparison.
  Hypothesis Hc : cmp_ok cmp.
  Variable f : V -> option W.

  Lemma keys_fmf_incl k (m : list (K * V)) : In k (keys (fmf f m)) -> In k (keys m).
  Proof.
    induction m as [|[k0 v0] m IH]; simpl; [intros []|].
    destruct (f v0); simpl; intuition.
  Qed.

  Lemma fmf_sorted (m : list (K * V)) : sorted cmp m -> sorted cmp (fmf f m).
  Proof.
    induction m as [|[k0 v0] m IH]; simpl; [auto|].
    intros [Hlt Hs]. destruct (f v0); simpl; [split|]; auto.
    intros k' Hin. apply Hlt. eapply keys_fmf_incl; eauto.
  Qed.

  Lemma get_fmf k (m : list (K * V)) : sorted cmp m ->
    get cmp k (fmf f m) = match get cmp k m with Some v => f v | None => None end.
  Proof.
    induction m as [|[k0 v0] m IH]; simpl; [reflexivity|].
    intros [Hlt Hs]. destruct (cmp k k0) eqn:E.
    - apply (c_eq cmp Hc) in E. subst k0.
      destruct (f v0) eqn:Ef; simpl.
      + rewrite (cmp_refl _ cmp Hc). reflexivity.
      + apply (get_none_lt _ _ cmp). intros k' Hin. apply Hlt. eapply keys_fmf_incl; eauto.
    - destruct (f v0); simpl; [rewrite E|]; apply IH; exact Hs.
    - destruct (f v0); simpl; [rewrite E|]; apply IH; exact Hs.
  Qed.

  Lemma fmf_put_some k v w (m : list (K * V)) : sorted cmp m -> f v = Some w ->
    fmf f (put cmp k v m) = put cmp k w (fmf f m).
  Proof.
    intros Hs Hf. induction m as [|[k0 v0] m IH]; simpl.
    - rewrite Hf. reflexivity.
    - destruct Hs as [Hlt Hs]. destruct (cmp k k0) eqn:E; simpl.
      + rewrite Hf. apply (c_eq cmp Hc) in E. subst k0.
        destruct (f v0); simpl.
        * rewrite (cmp_refl _ cmp Hc). reflexivity.
        * symmetry. apply put_lt_all. intros k' Hin. apply Hlt. eapply keys_fmf_incl; eauto.
      + rewrite Hf. destruct (f v0); simpl.
        * rewrite E. reflexivity.
        * symmetry. apply put_lt_all. intros k' Hin. apply keys_fmf_incl in Hin.
          eapply (c_trans cmp Hc); eauto.
      + destruct (f v0); simpl; [rewrite E|]; rewrite (IH Hs); reflexivity.
  Qed.

  Lemma fmf_put_none k v (m : list (K * V)) : f v = None -> get cmp k m = None ->
    fmf f (put cmp k v m) = fmf f m.
  Proof.
    intros Hf. induction m as [|[k0 v0] m IH]; simpl; intro Hg.
    - rewrite Hf. reflexivity.
    - destruct (cmp k k0) eqn:E; simpl; try discriminate.
      + rewrite Hf. reflexivity.
      + rewrite (IH Hg). reflexivity.
  Qed.
End FmfFacts.
