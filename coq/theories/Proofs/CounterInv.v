(* The inductive invariant of Model/CounterConc, for any number of threads
   and any schedule: reader/lock counting, conservation of amounts. *)
From Coq Require Import List ZArith NArith Bool Lia.
From Tele Require Import Gen.Consts Model.CounterConc Proofs.CounterWord.
Import ListNotations.
Open Scope Z_scope.

(* ---- per-thread measures ---- *)
Definition rd (t : thread) : Z :=
  match t_pc t with AXCas | AXLoad | ACellLoad | ACellCas | RCas | RLoad => 1 | _ => 0 end.
Definition lk (t : thread) : Z :=
  match t_pc t with LCas | LLoad | LLook1 | LLook2 | LCellLoad | LCellCas | GIvLoad | GIvCas | GRfLoad | GClose => 1 | _ => 0 end.
Definition undep (t : thread) : Z :=
  match t_pc t with
  | AIdle | ALoad | ACas | AXCas | AXLoad | ACellLoad | ACellCas => t_amt t
  | _ => 0 end.
Definition carry (t : thread) : Z :=
  match t_pc t with LCellLoad | LCellCas => t_amt t | _ => 0 end.
Definition unbegun (t : thread) : Z :=
  match t_pc t with AIdle => t_amt t | _ => 0 end.

Fixpoint sumf (f : thread -> Z) (l : list thread) : Z :=
  match l with [] => 0 | t :: l' => f t + sumf f l' end.

Lemma sumf_upd f l i t t' : nth_error l i = Some t ->
  sumf f (upd l i t') = sumf f l - f t + f t'.
Proof.
  revert i; induction l as [|x l IH]; intros [|i] H; cbn in *; try discriminate.
  - injection H as ->. lia.
  - rewrite (IH _ H). lia.
Qed.

Lemma upd_length {A} (l : list A) i x : length (upd l i x) = length l.
Proof. revert i; induction l as [|y l IH]; intros [|i]; cbn; auto. Qed.

Lemma sumf_split f l i t : nth_error l i = Some t -> exists rest, sumf f l = f t + rest /\
  (forall t', sumf f (upd l i t') = f t' + rest).
Proof.
  intros H. exists (sumf f l - f t). split; [lia|]. intros t'. rewrite (sumf_upd _ _ _ _ _ H). lia.
Qed.

Lemma sumf_nonneg f l : (forall t, In t l -> 0 <= f t) -> 0 <= sumf f l.
Proof.
  induction l as [|x l IH]; intros H; cbn; [lia|].
  pose proof (H x (or_introl eq_refl)). pose proof (IH (fun t Ht => H t (or_intror Ht))). lia.
Qed.

Lemma rd_lk_bound t : 0 <= rd t /\ 0 <= lk t /\ rd t + lk t <= 1.
Proof. unfold rd, lk. destruct (t_pc t); lia. Qed.

Lemma sum_rd_lk_le l : 0 <= sumf rd l /\ 0 <= sumf lk l /\ sumf rd l + sumf lk l <= Z.of_nat (length l).
Proof.
  induction l as [|x l IH]; cbn [sumf length]; [lia|].
  pose proof (rd_lk_bound x). lia.
Qed.

(* ---- sums over cells ---- *)
Lemma persisted_upd cells i v : (i < length cells)%nat ->
  fold_right Z.add 0 (upd cells i v) = fold_right Z.add 0 cells - nth i cells 0 + v.
Proof.
  revert i; induction cells as [|c cells IH]; intros [|i] H; cbn in *; try lia.
  rewrite IH by lia. lia.
Qed.

Lemma persisted_app cells v : fold_right Z.add 0 (cells ++ [v]) = fold_right Z.add 0 cells + v.
Proof. induction cells as [|c cells IH]; cbn; lia. Qed.

(* ---- thread-local and shared well-formedness ---- *)
Definition tl_ok (t : thread) : Prop :=
  0 <= t_amt t /\ (t_pc t = RfCas -> w_readers (t_st t) = 0).

Definition wf (s : shared) : Prop :=
  (forall g, s_ptr s = Some g -> (g < length (s_maps s))%nat) /\
  (forall g, s_cur s = Some g -> (g < length (s_maps s))%nat) /\
  Forall (fun f => (f < length (s_cells s))%nat) (s_maps s) /\
  Forall (fun c => 0 <= c < W64) (s_cells s) /\
  (forall g, s_new s = Some g -> (g < length (s_maps s))%nat).

Lemma wf_file_of s g : wf s -> (g < length (s_maps s))%nat -> (file_of s g < length (s_cells s))%nat.
Proof.
  intros (_ & _ & Hm & _ & _) Hg. unfold file_of. rewrite Forall_forall in Hm. apply Hm. apply nth_In. exact Hg.
Qed.

Lemma wf_cell_range s g : wf s -> (g < length (s_maps s))%nat -> 0 <= cell_of s g < W64.
Proof.
  intros W Hg. pose proof (wf_file_of _ _ W Hg) as Hf. destruct W as (_ & _ & _ & Hc & _).
  unfold cell_of. rewrite Forall_forall in Hc. apply Hc. apply nth_In. exact Hf.
Qed.

Lemma Forall_upd {A} (P : A -> Prop) l i x : Forall P l -> P x -> Forall P (upd l i x).
Proof.
  revert i; induction l as [|y l IH]; intros [|i] H Hx; cbn; auto; inversion H; subst; constructor; auto.
Qed.

(* ---- how the shared-state updaters act on what the invariant mentions ---- *)
Lemma wf_set_word s w : wf s -> wf (set_word s w). Proof. intros W; exact W. Qed.
Lemma wf_set_sat s b : wf s -> wf (set_sat s b). Proof. intros W; exact W. Qed.
Lemma wf_touch s g : wf s -> wf (touch s g). Proof. intros W; exact W. Qed.
Lemma wf_set_ptr_cur s : wf s -> wf (set_ptr s (s_cur s)).
Proof. intros (A & B & C & D & E). split; [exact B|]. split; [exact B|]. split; [exact C|]. split; assumption. Qed.
Lemma wf_set_ptr_none s : wf s -> wf (set_ptr s None).
Proof. intros (A & B & C & D & E). split; [intros g H; discriminate|]. split; [exact B|]. split; [exact C|]. split; assumption. Qed.
Lemma wf_set_ptr_new s : wf s -> wf (set_ptr s (s_new s)).
Proof. intros (A & B & C & D & E). split; [exact E|]. split; [exact B|]. split; [exact C|]. split; assumption. Qed.
Lemma wf_set_cell s g v : wf s -> 0 <= v < W64 -> wf (set_cell s g v).
Proof.
  intros (A & B & C & D & E) Hv. split; [exact A|]. split; [exact B|]. cbn [set_cell s_maps s_cells s_new]. split; [|split].
  - rewrite upd_length. exact C.
  - apply Forall_upd; assumption.
  - exact E.
Qed.

Lemma persisted_set_cell s g v : wf s -> (g < length (s_maps s))%nat ->
  persisted (set_cell s g v) = persisted s - cell_of s g + v.
Proof.
  intros W Hg. unfold persisted, set_cell, cell_of. cbn [s_cells].
  apply persisted_upd. apply wf_file_of; assumption.
Qed.

Definition needs_ptr (t : thread) : Z :=
  match t_pc t with ACellLoad | ACellCas | LCellLoad | LCellCas => 1 | _ => 0 end.
Definition crashed (t : thread) : bool := match t_pc t with Crash => true | _ => false end.

Definition pendI (t : thread) : Z :=
  match t_pc t with CNop _ | IvLoad | IvCas | GIvLoad | GIvCas => 1 | _ => 0 end.
Definition pendR (t : thread) : Z :=
  match t_pc t with RfLoad | RfCas => 1 | _ => 0 end.
Definition look (t : thread) : Z :=
  match t_pc t with LLook1 | LLook2 | GIvLoad | GIvCas | GRfLoad | GClose => 1 | _ => 0 end.
Definition xr (t : thread) : Z :=
  match t_pc t with AXCas | AXLoad => 1 | _ => 0 end.
(* lock holders whose lookup extended the file and that have finished their
   own invalidate: havePtr stays clear until they set it again *)
Definition gp (t : thread) : Z :=
  match t_pc t with GRfLoad | GClose => 1 | _ => 0 end.

(* the "somebody is responsible" clauses behind nothing-unpersisted:
   h = havePtr, e = extra, LK/RD = lock holders / readers, PI = changers that
   stored a mapping and have not finished invalidating, PR = changers that
   have not finished refreshing, LO = lock holders inside file.lookup,
   XR = readers that found a nil pointer *)
Definition S_ok (h : bool) (e : Z) (ptr cur : option nat) (LK RD PI PR LO XR GP : Z) : Prop :=
  (h = true -> ptr <> cur -> LO = 0 -> 1 <= PI) /\
  (0 < XR -> ptr = None) /\
  (LK = 0 -> h = true -> ptr <> None -> e = 0) /\
  (0 < e -> LK = 1 \/ 1 <= RD \/ (h = true /\ ptr = None) \/ 1 <= PI + PR) /\
  (0 < GP -> h = false).

Definition cnt_ok (r Rt Lt Rr Lr : Z) : Prop :=
  (r = LOCKED /\ Lt + Lr = 1 /\ Rt + Rr = 0) \/ (r = Rt + Rr /\ Lt + Lr = 0).

Definition local_post (s : shared) (t : thread) (e : Z) (s' : shared) (t' : thread) (Rr Lr NPr PIr PRr LOr XRr GPr : Z) : Prop :=
  exists r' h' e', Fields (s_word s') r' h' e' /\ cnt_ok r' (rd t') (lk t') Rr Lr /\ tl_ok t' /\ wf s' /\
    (0 < needs_ptr t' + NPr -> s_ptr s' <> None) /\ crashed t' = false /\
    S_ok h' e' (s_ptr s') (s_cur s') (lk t' + Lr) (rd t' + Rr) (pendI t' + PIr) (pendR t' + PRr) (look t' + LOr) (xr t' + XRr) (gp t' + GPr) /\
    persisted s' + e' + carry t' + undep t' <= persisted s + e + carry t + undep t /\
    (s_sat s' = false -> s_sat s = false /\
       persisted s' + e' + carry t' + undep t' = persisted s + e + carry t + undep t).

Lemma persisted_set_sat s b : persisted (set_sat s b) = persisted s. Proof. reflexivity. Qed.
Lemma persisted_set_word s w : persisted (set_word s w) = persisted s. Proof. reflexivity. Qed.
Lemma persisted_touch s g : persisted (touch s g) = persisted s. Proof. reflexivity. Qed.
Lemma persisted_set_ptr s p : persisted (set_ptr s p) = persisted s. Proof. reflexivity. Qed.
Lemma word_set_sat s b : s_word (set_sat s b) = s_word s. Proof. reflexivity. Qed.
Lemma word_touch s g : s_word (touch s g) = s_word s. Proof. reflexivity. Qed.
Lemma word_set_ptr s p : s_word (set_ptr s p) = s_word s. Proof. reflexivity. Qed.
Lemma word_set_cell s g v : s_word (set_cell s g v) = s_word s. Proof. reflexivity. Qed.
Lemma word_set_word s w : s_word (set_word s w) = w. Proof. reflexivity. Qed.
Lemma sat_touch s g : s_sat (touch s g) = s_sat s. Proof. reflexivity. Qed.
Lemma sat_set_cell s g v : s_sat (set_cell s g v) = s_sat s. Proof. reflexivity. Qed.
Lemma sat_set_ptr s p : s_sat (set_ptr s p) = s_sat s. Proof. reflexivity. Qed.
Lemma sat_set_word s w : s_sat (set_word s w) = s_sat s. Proof. reflexivity. Qed.
Lemma sat_set_sat s b : s_sat (set_sat s b) = s_sat s || b. Proof. reflexivity. Qed.
Ltac psimp := rewrite ?persisted_set_sat, ?persisted_set_word, ?persisted_touch, ?persisted_set_ptr,
  ?word_set_sat, ?word_touch, ?word_set_ptr, ?word_set_cell, ?word_set_word,
  ?sat_touch, ?sat_set_cell, ?sat_set_ptr, ?sat_set_word, ?sat_set_sat in *.

Ltac ms Hpc :=
  unfold rd, lk, carry, undep, needs_ptr, crashed, pendI, pendR, look, xr, gp, tl_ok, cnt_ok, S_ok in *;
  cbn [t_pc t_amt t_st t_kind t_old t_prev t_prev2 t_tgt t_after with_pc with_st with_st2 with_old with_amt to_close after_release goto_nops] in *;
  try rewrite Hpc in *; cbn iota beta in *.

(* a step that leaves the shared state alone *)
Lemma post_same s t e t' r h Rr Lr NPr PIr PRr LOr XRr GPr :
  Fields (s_word s) r h e -> wf s ->
  cnt_ok r (rd t') (lk t') Rr Lr -> tl_ok t' ->
  (0 < needs_ptr t' + NPr -> s_ptr s <> None) -> crashed t' = false ->
  S_ok h e (s_ptr s) (s_cur s) (lk t' + Lr) (rd t' + Rr) (pendI t' + PIr) (pendR t' + PRr) (look t' + LOr) (xr t' + XRr) (gp t' + GPr) ->
  carry t' + undep t' = carry t + undep t ->
  local_post s t e s t' Rr Lr NPr PIr PRr LOr XRr GPr.
Proof.
  intros F W C T N K SO E. exists r, h, e.
  split; [exact F|]. split; [exact C|]. split; [exact T|]. split; [exact W|].
  split; [exact N|]. split; [exact K|]. split; [exact SO|]. split; [lia|].
  intros H. split; [exact H | lia].
Qed.

(* discharges an S_ok goal from the unfolded pre-state clauses: forward
   chaining of implications whose premise is provable, case split, arithmetic *)
Ltac fwd :=
  repeat match goal with
         | H : _ /\ _ |- _ => destruct H
         | H : ?A -> ?B |- _ =>
             let HA := fresh "HA" in
             assert (HA : A) by (clear H; first [assumption | lia | congruence | discriminate
                                               | (intro; congruence) | (intro; lia) | (intro; discriminate)]);
             specialize (H HA); clear HA
         end.
Ltac sok_fin :=
  first [ lia | congruence | assumption | discriminate
        | (left; sok_fin) | (right; sok_fin) | (split; sok_fin) ].
Ltac sok Hpc :=
  ms Hpc; cbn [set_word set_sat set_ptr set_cell touch s_ptr s_cur] in *;
  try match goal with hh : bool |- _ => destruct hh end;
  try match goal with ss : shared |- _ => destruct (s_ptr ss) eqn:? end;
  cbn [andb negb] in *; rewrite ?andb_true_r, ?andb_false_r in *;
  repeat match goal with H : context [if ?c then _ else _] |- _ => destruct c eqn:? end;
  repeat match goal with
         | H : (_ =? _) = false |- _ => apply Z.eqb_neq in H
         | H : (_ =? _) = true |- _ => apply Z.eqb_eq in H
         end;
  repeat split; intros; fwd;
  repeat match goal with H : _ \/ _ |- _ => destruct H; fwd end;
  sok_fin.

Ltac same_leaf Hpc F W T N r h :=
  apply (post_same _ _ _ _ r h);
  [ exact F | exact W | ms Hpc; lia
  | ms Hpc; destruct T; split; [assumption | try (intros; discriminate); try assumption]
  | ms Hpc; try exact N; try (intros; lia) | ms Hpc; reflexivity
  | sok Hpc
  | ms Hpc; lia ].

(* the leaf shared by every "add n to extra" CAS *)
Lemma extra_leaf s t e r h (n : Z) s' t' Rr Lr NPr PIr PRr LOr XRr GPr w' r' :
  Fields (s_word s) r h e -> 0 <= n -> wf s ->
  Fields w' r' h (extra_after e n) ->
  s' = set_sat (set_word s w') (add_extra_saturates (s_word s) n) ->
  cnt_ok r' (rd t') (lk t') Rr Lr -> tl_ok t' ->
  (0 < needs_ptr t' + NPr -> s_ptr s <> None) -> crashed t' = false ->
  S_ok h (extra_after e n) (s_ptr s) (s_cur s) (lk t' + Lr) (rd t' + Rr) (pendI t' + PIr) (pendR t' + PRr) (look t' + LOr) (xr t' + XRr) (gp t' + GPr) ->
  carry t' + undep t' + n = carry t + undep t ->
  local_post s t e s' t' Rr Lr NPr PIr PRr LOr XRr GPr.
Proof.
  intros F Hn W F' -> C T N K SO E.
  destruct (f_add_extra _ _ _ _ n F Hn) as [_ Es].
  pose proof F as (_ & _ & He).
  pose proof (extra_after_le e n He Hn) as Hx.
  exists r', h, (extra_after e n). psimp.
  split; [exact F'|]. split; [exact C|]. split; [exact T|]. split; [exact W|].
  split; [exact N|]. split; [exact K|]. split; [exact SO|]. split; [lia|].
  intros Hs. apply orb_false_iff in Hs as [Hs1 Hs2]. split; [exact Hs1|].
  rewrite Es in Hs2. rewrite (extra_after_exact _ _ Hs2). lia.
Qed.

Ltac npg := cbn [set_word set_sat set_ptr set_cell touch s_ptr] in *;
  first [ assumption | (intros; lia) | (intros _; congruence) ].
Ltac fin Hpc := ms Hpc; first [ assumption | lia | (split; [assumption | intros; discriminate]) | (intros; lia) | reflexivity ].

Lemma step_local np s t s' t' r h e Rr Lr NPr PIr PRr LOr XRr GPr n :
  step_thread np s t = (s', t') ->
  Fields (s_word s) r h e -> 0 <= Rr -> 0 <= Lr -> Rr + Lr + 1 <= n -> n < LOCKED ->
  0 <= NPr <= Rr + Lr -> 0 <= PIr -> 0 <= PRr -> 0 <= LOr <= Lr -> 0 <= XRr <= Rr -> 0 <= GPr <= Lr ->
  cnt_ok r (rd t) (lk t) Rr Lr -> tl_ok t -> wf s ->
  (0 < needs_ptr t + NPr -> s_ptr s <> None) -> crashed t = false ->
  S_ok h e (s_ptr s) (s_cur s) (lk t + Lr) (rd t + Rr) (pendI t + PIr) (pendR t + PRr) (look t + LOr) (xr t + XRr) (gp t + GPr) ->
  local_post s t e s' t' Rr Lr NPr PIr PRr LOr XRr GPr.
Proof.
  intros H F HRr HLr Hn HnL HNP HPI HPR HLO HXR HGP C T W N K SO.
  pose proof (extra_after_le e (t_amt t)) as Hx0.
  pose proof (fields_readers _ _ _ _ F) as Er.
  pose proof (fields_have _ _ _ _ F) as Eh.
  pose proof (fields_extra _ _ _ _ F) as Ee.
  pose proof (fields_locked _ _ _ _ F) as El.
  pose proof F as (_ & Hr & He).
  pose proof T as [Ta Tr].
  unfold step_thread in H.
  destruct (t_pc t) eqn:Hpc.
  - (* AIdle *) injection H as <- <-. same_leaf Hpc F W T N r h.
  - (* ALoad *) injection H as <- <-. same_leaf Hpc F W T N r h.
  - (* ACas *)
    destruct (Z.eqb_spec (s_word s) (t_st t)) as [Ew|Ne].
    2:{ repeat match goal with H : (if ?c then _ else _) = _ |- _ => destruct c end;
        injection H as <- <-; same_leaf Hpc F W T N r h. }
    rewrite <- Ew in H. rewrite El, Eh, Er in H.
    destruct (r =? LOCKED) eqn:Elk; cbn [negb andb] in H.
    + injection H as <- <-.
      eapply (extra_leaf s t e r h (t_amt t)); [exact F | exact Ta | exact W | apply (f_add_extra _ _ _ _ _ F Ta) | reflexivity | fin Hpc | fin Hpc | fin Hpc | fin Hpc | sok Hpc | fin Hpc].
    + apply Z.eqb_neq in Elk. destruct h; cbn [negb andb] in H.
      * assert (Hrr : r = Rr /\ Lr = 0) by (ms Hpc; lia). destruct Hrr as [-> ->].
        pose proof (f_inc _ _ _ _ F ltac:(rewrite LOCKED_v, HAVE_v in *; lia)) as F'.
        destruct (s_ptr s) eqn:Ep; injection H as <- <-;
        (exists (Rr + 1), true, e; psimp; split; [exact F'|]; ms Hpc; psimp;
         split; [lia|]; split; [split; [assumption|intros; discriminate]|]; split; [exact W|];
         split; [cbn [set_word s_ptr]; first [assumption | rewrite Ep; assumption | intros _; congruence]|]; split; [reflexivity|]; split; [sok Hpc|];
         split; [lia|]; intros Hs; split; [exact Hs|lia]).
      * destruct (0 <? r) eqn:Er0; injection H as <- <-.
        -- eapply (extra_leaf s t e r false (t_amt t)); [exact F | exact Ta | exact W | apply (f_add_extra _ _ _ _ _ F Ta) | reflexivity | fin Hpc | fin Hpc | fin Hpc | fin Hpc | sok Hpc | fin Hpc].
        -- apply Z.ltb_ge in Er0. assert (Hr0 : r = 0) by lia. clear Er. subst r.
           eapply (extra_leaf s t e 0 false (t_amt t)); [exact F | exact Ta | exact W | apply f_set_locked with (r := 0); apply (f_add_extra _ _ _ _ _ F Ta) | reflexivity | fin Hpc | fin Hpc | fin Hpc | fin Hpc | sok Hpc | fin Hpc].
  - (* AXCas *)
    destruct (Z.eqb_spec (s_word s) (t_st t)) as [Ew|Ne].
    2:{ injection H as <- <-; same_leaf Hpc F W T N r h. }
    rewrite <- Ew in H. injection H as <- <-.
    eapply (extra_leaf s t e r h (t_amt t)); [exact F | exact Ta | exact W | apply (f_add_extra _ _ _ _ _ F Ta) | reflexivity | fin Hpc | fin Hpc | fin Hpc | fin Hpc | sok Hpc | fin Hpc].
  - (* AXLoad *) injection H as <- <-. same_leaf Hpc F W T N r h.
  - (* ACellLoad *)
    destruct (s_ptr s) as [g|] eqn:Ep; [|exfalso; ms Hpc; apply N; [lia|reflexivity]].
    injection H as <- <-.
    exists r, h, e. psimp. split; [exact F|]. ms Hpc. psimp.
    split; [lia|]. split; [split; [assumption|intros; discriminate]|].
    split; [apply wf_touch; exact W|]. split; [npg|].
    split; [reflexivity|]. split; [sok Hpc|]. split; [lia|]. intros Hs. split; [exact Hs|lia].
  - (* ACellCas *)
    destruct (s_ptr s) as [g|] eqn:Ep; [|exfalso; ms Hpc; apply N; [lia|reflexivity]].
    pose proof W as (Wp & _). pose proof (Wp g Ep) as Hg.
    pose proof (wf_cell_range _ _ W Hg) as Hc.
    destruct (Z.eqb_spec (cell_of s g) (t_old t)) as [Eo|Ne]; injection H as <- <-.
    + destruct (cell_add_bounds (t_old t) (t_amt t) ltac:(rewrite <- Eo; exact Hc) Ta) as (B1 & B2 & B3).
      exists r, h, e. psimp. split; [exact F|]. ms Hpc. psimp.
      rewrite (persisted_set_cell (touch s g) g _ (wf_touch _ _ W) Hg). psimp.
      change (cell_of (touch s g) g) with (cell_of s g).
      split; [lia|]. split; [split; [assumption|intros; discriminate]|].
      split; [apply wf_set_cell; [apply wf_touch; exact W | lia]|].
      split; [npg|].
      split; [reflexivity|]. split; [sok Hpc|]. split; [lia|].
      intros Hs. apply orb_false_iff in Hs as [Hs1 Hs2]. split; [exact Hs1|].
      rewrite (B3 Hs2). lia.
    + exists r, h, e. psimp. split; [exact F|]. ms Hpc. psimp.
      split; [lia|]. split; [split; [assumption|intros; discriminate]|].
      split; [apply wf_touch; exact W|]. split; [npg|].
      split; [reflexivity|]. split; [sok Hpc|]. split; [lia|]. intros Hs. split; [exact Hs|lia].
  - (* RCas *)
    destruct (Z.eqb_spec (s_word s) (t_st t)) as [Ew|Ne].
    2:{ repeat match goal with H : (if ?c then _ else _) = _ |- _ => destruct c end;
        injection H as <- <-; same_leaf Hpc F W T N r h. }
    rewrite <- Ew in H. rewrite Eh, Er in H.
    assert (Hrr : r = 1 + Rr /\ Lr = 0 /\ r <> LOCKED).
    { ms Hpc. rewrite LOCKED_v, HAVE_v in *. lia. }
    destruct Hrr as (Hr1 & -> & Hnl).
    destruct ((r =? 1) && negb h) eqn:Cd; injection H as <- <-.
    + apply andb_true_iff in Cd as [Cr Ch]. apply Z.eqb_eq in Cr.
      exists LOCKED, h, e. psimp. split; [apply (f_set_locked _ _ _ _ F)|]. ms Hpc. psimp.
      split; [lia|]. split; [split; [assumption|intros; discriminate]|]. split; [exact W|].
      split; [npg|]. split; [reflexivity|]. split; [sok Hpc|]. split; [lia|]. intros Hs. split; [exact Hs|lia].
    + exists (r - 1), h, e. psimp. split; [apply (f_dec _ _ _ _ F); lia|]. ms Hpc. psimp.
      split; [lia|]. split; [split; [assumption|intros; discriminate]|]. split; [exact W|].
      split; [npg|]. split; [reflexivity|]. split; [sok Hpc|]. split; [lia|]. intros Hs. split; [exact Hs|lia].
  - (* RLoad *) injection H as <- <-. same_leaf Hpc F W T N r h.
  - (* LCas *)
    assert (Hlk : r = LOCKED /\ Lr = 0 /\ Rr = 0 /\ NPr = 0).
    { ms Hpc. lia. }
    destruct Hlk as (-> & -> & -> & ->).
    destruct (Z.eqb_spec (s_word s) (t_st t)) as [Ew|Ne].
    2:{ repeat match goal with
               | H : (if ?c then _ else _) = _ |- _ => destruct c
               | H : match ?c with Some _ => _ | None => _ end = _ |- _ => destruct c
               end;
        injection H as <- <-; same_leaf Hpc F W T N LOCKED h. }
    rewrite <- Ew in H. rewrite Eh, Ee in H.
    destruct h; cbn [negb] in H.
    + destruct (if e =? 0 then None else s_ptr s) as [g|] eqn:Cd; injection H as <- <-.
      * (* clearExtra, start flushing *)
        exists LOCKED, true, 0. psimp. split; [apply (f_clear_extra _ _ _ _ F)|]. ms Hpc. psimp.
        split; [lia|]. split; [split; [lia|intros; discriminate]|]. split; [exact W|].
        split; [intros _; cbn [set_word s_ptr]; destruct (e =? 0); [discriminate Cd | rewrite Cd; discriminate]|].
        split; [reflexivity|]. split; [sok Hpc|]. split; [lia|]. intros Hs. split; [exact Hs|lia].
      * (* unlock *)
        exists 0, true, e. psimp. split; [apply (f_clear_locked _ _ _ _ F)|].
        unfold after_release, to_close. destruct (t_kind t); [|destruct (t_prev t)]; ms Hpc; psimp;
        (split; [lia|]; split; [split; [assumption|intros; discriminate]|]; split; [exact W|];
         split; [npg|]; split; [reflexivity|]; split; [sok Hpc|]; split; [lia|]; intros Hs; split; [exact Hs|lia]).
    + (* setHavePtr *)
      injection H as <- <-.
      exists LOCKED, true, e. psimp. split; [apply (f_set_have _ _ _ _ F)|]. ms Hpc. psimp.
      split; [lia|]. split; [split; [assumption|intros; discriminate]|]. split; [exact W|].
      split; [npg|]. split; [reflexivity|]. split; [sok Hpc|]. split; [lia|]. intros Hs. split; [exact Hs|lia].
  - (* LLoad *) injection H as <- <-. same_leaf Hpc F W T N r h.
  - (* LLook1 *)
    assert (Hlk : r = LOCKED /\ Lr = 0 /\ Rr = 0 /\ NPr = 0) by (ms Hpc; lia).
    destruct Hlk as (-> & -> & -> & ->).
    destruct (s_cur s) eqn:Ec; injection H as <- <-.
    + same_leaf Hpc F W T N LOCKED h.
    + exists LOCKED, h, e. psimp. split; [exact F|]. ms Hpc. psimp.
      split; [lia|]. split; [split; [assumption|intros; discriminate]|].
      split; [apply wf_set_ptr_none; exact W|].
      split; [npg|]. split; [reflexivity|]. split; [sok Hpc|]. split; [lia|]. intros Hs. split; [exact Hs|lia].
  - (* LLook2 *)
    assert (Hlk : r = LOCKED /\ Lr = 0 /\ Rr = 0 /\ NPr = 0) by (ms Hpc; lia).
    destruct Hlk as (-> & -> & -> & ->).
    assert (Plain : (s', t') = (set_ptr s (s_cur s), with_pc t LCas) ->
                    local_post s t e s' t' 0 0 0 PIr PRr LOr XRr GPr).
    { intros X. injection X as -> ->.
      exists LOCKED, h, e. psimp. split; [exact F|]. ms Hpc. psimp.
      split; [lia|]. split; [split; [assumption|intros; discriminate]|].
      split; [apply wf_set_ptr_cur; exact W|].
      split; [npg|]. split; [reflexivity|]. split; [sok Hpc|]. split; [lia|]. intros Hs. split; [exact Hs|lia]. }
    destruct (s_cur s) as [g0|] eqn:Ec; [|apply Plain; rewrite <- H; reflexivity].
    destruct (t_prev2 t) eqn:Epv; [apply Plain; rewrite <- H; reflexivity|].
    destruct (s_full s) eqn:Efu; [|apply Plain; rewrite <- H; reflexivity].
    (* the lookup extends the file *)
    injection H as <- <-. pose proof W as (Wp & Wc & Wm & Wl & Wn).
    exists LOCKED, h, e. split; [exact F|]. ms Hpc.
    split; [lia|]. split; [split; [assumption|intros; discriminate]|]. split.
    { split; [|split; [|split; [|split]]]; cbn [s_ptr s_cur s_maps s_cells s_new].
      - intros g Hg. rewrite app_length. specialize (Wp g Hg). cbn. lia.
      - intros g Hg. injection Hg as <-. rewrite app_length. cbn. lia.
      - apply Forall_app. split; [exact Wm|]. constructor; [|constructor].
        apply wf_file_of; [exact W | apply Wc; exact Ec].
      - exact Wl.
      - intros g Hg. injection Hg as <-. rewrite app_length. cbn. lia. }
    split; [cbn [s_ptr]; exact N|]. split; [reflexivity|]. split; [cbn [s_ptr s_cur]; sok Hpc|].
    unfold persisted. cbn [s_cells s_sat].
    split; [lia|]. intros Hs. split; [exact Hs|lia].
  - (* GIvLoad *)
    destruct (w_have (s_word s)) eqn:Ehh; injection H as <- <-.
    + same_leaf Hpc F W T N r h.
    + subst h. same_leaf Hpc F W T N r false.
  - (* GIvCas *)
    destruct (Z.eqb_spec (s_word s) (t_old t)) as [Ew|Ne]; injection H as <- <-.
    2:{ same_leaf Hpc F W T N r h. }
    rewrite <- Ew.
    exists r, false, e. psimp. split; [apply (f_clear_have _ _ _ _ F)|]. ms Hpc. psimp.
    split; [lia|]. split; [split; [assumption|intros; discriminate]|]. split; [exact W|].
    split; [npg|]. split; [reflexivity|]. split; [sok Hpc|]. split; [lia|]. intros Hs. split; [exact Hs|lia].
  - (* GRfLoad *)
    assert (Hlk : r = LOCKED /\ Lr = 0 /\ Rr = 0 /\ NPr = 0) by (ms Hpc; lia).
    destruct Hlk as (-> & -> & -> & ->).
    destruct (w_have (s_word s) || (0 <? w_readers (s_word s)) || (w_extra (s_word s) =? 0)) eqn:Cd;
      injection H as <- <-.
    + same_leaf Hpc F W T N LOCKED h.
    + exfalso. rewrite Er in Cd. apply orb_false_iff in Cd as [Cd _]. apply orb_false_iff in Cd as [_ Cd].
      apply Z.ltb_ge in Cd. rewrite LOCKED_v in Cd. lia.
  - (* GClose *)
    assert (Hlk : r = LOCKED /\ Lr = 0 /\ Rr = 0 /\ NPr = 0) by (ms Hpc; lia).
    destruct Hlk as (-> & -> & -> & ->).
    assert (Hh : h = false).
    { destruct SO as (_ & _ & _ & _ & S5). apply S5. ms Hpc. lia. }
    clear Eh. subst h. pose proof W as (Wp & Wc & Wm & Wl & Wn).
    destruct (t_prev2 t) as [g|]; injection H as <- <-.
    + exists LOCKED, false, e. split; [exact F|]. ms Hpc.
      split; [lia|]. split; [split; [assumption|intros; discriminate]|].
      split; [split; [exact Wn|]; split; [exact Wc|]; split; [exact Wm|]; split; [exact Wl|exact Wn]|].
      split; [intros; lia|]. split; [reflexivity|].
      split; [cbn [s_ptr s_cur]; repeat split; intros; try discriminate; try lia; auto|].
      change (persisted (mkS (s_word s) (s_new s) (s_cur s) (s_maps s) (g :: s_closed s) (s_cells s) (s_faults s) (s_sat s) (s_full s) (s_new s) (s_tight s))) with (persisted s).
      cbn [s_sat]. split; [lia|]. intros Hs. split; [exact Hs|lia].
    + exists LOCKED, false, e. psimp. split; [exact F|]. ms Hpc. psimp.
      split; [lia|]. split; [split; [assumption|intros; discriminate]|].
      split; [apply wf_set_ptr_new; exact W|].
      split; [intros; lia|]. split; [reflexivity|].
      split; [cbn [set_ptr s_ptr s_cur]; repeat split; intros; try discriminate; try lia; auto|].
      split; [lia|]. intros Hs. split; [exact Hs|lia].
  - (* LCellLoad *)
    destruct (s_ptr s) as [g|] eqn:Ep; [|exfalso; ms Hpc; apply N; [lia|reflexivity]].
    injection H as <- <-.
    exists r, h, e. psimp. split; [exact F|]. ms Hpc. psimp.
    split; [lia|]. split; [split; [assumption|intros; discriminate]|].
    split; [apply wf_touch; exact W|]. split; [npg|].
    split; [reflexivity|]. split; [sok Hpc|]. split; [lia|]. intros Hs. split; [exact Hs|lia].
  - (* LCellCas *)
    destruct (s_ptr s) as [g|] eqn:Ep; [|exfalso; ms Hpc; apply N; [lia|reflexivity]].
    pose proof W as (Wp & _). pose proof (Wp g Ep) as Hg.
    pose proof (wf_cell_range _ _ W Hg) as Hc.
    destruct (Z.eqb_spec (cell_of s g) (t_old t)) as [Eo|Ne]; injection H as <- <-.
    + destruct (cell_add_bounds (t_old t) (t_amt t) ltac:(rewrite <- Eo; exact Hc) Ta) as (B1 & B2 & B3).
      exists r, h, e. psimp. split; [exact F|]. ms Hpc. psimp.
      rewrite (persisted_set_cell (touch s g) g _ (wf_touch _ _ W) Hg). psimp.
      change (cell_of (touch s g) g) with (cell_of s g).
      split; [lia|]. split; [split; [lia|intros; discriminate]|].
      split; [apply wf_set_cell; [apply wf_touch; exact W | lia]|].
      split; [npg|].
      split; [reflexivity|]. split; [sok Hpc|]. split; [lia|].
      intros Hs. apply orb_false_iff in Hs as [Hs1 Hs2]. split; [exact Hs1|].
      rewrite (B3 Hs2). lia.
    + exists r, h, e. psimp. split; [exact F|]. ms Hpc. psimp.
      split; [lia|]. split; [split; [assumption|intros; discriminate]|].
      split; [apply wf_touch; exact W|]. split; [npg|].
      split; [reflexivity|]. split; [sok Hpc|]. split; [lia|]. intros Hs. split; [exact Hs|lia].
  - (* CIdle *) injection H as <- <-. destruct (t_tgt t); same_leaf Hpc F W T N r h.
  - (* CPre *) injection H as <- <-. same_leaf Hpc F W T N r h.
  - (* CStore *)
    assert (Hgo : forall k, let t0 := mkT Done Changer (t_st t) (t_amt t) (t_old t) (s_cur s) (t_prev2 t) (t_tgt t) Done in
              rd (goto_nops t0 k IvLoad) = 0 /\ lk (goto_nops t0 k IvLoad) = 0 /\ carry (goto_nops t0 k IvLoad) = 0 /\
              undep (goto_nops t0 k IvLoad) = 0 /\ needs_ptr (goto_nops t0 k IvLoad) = 0 /\
              crashed (goto_nops t0 k IvLoad) = false /\ tl_ok (goto_nops t0 k IvLoad) /\
              pendI (goto_nops t0 k IvLoad) = 1 /\ pendR (goto_nops t0 k IvLoad) = 0 /\
              look (goto_nops t0 k IvLoad) = 0 /\ xr (goto_nops t0 k IvLoad) = 0 /\ gp (goto_nops t0 k IvLoad) = 0).
    { intros k t0. destruct k; cbn; repeat split; try assumption; intros; discriminate. }
    assert (Hme : rd t = 0 /\ lk t = 0 /\ carry t = 0 /\ undep t = 0 /\ needs_ptr t = 0) by (ms Hpc; lia).
    destruct Hme as (M1 & M2 & M3 & M4 & M5). rewrite M1, M2 in C. rewrite M5 in N.
    pose proof W as (Wp & Wc & Wm & Wl & Wn).
    destruct (t_tgt t) eqn:Etg.
    + (* NewFile *)
      injection H as <- <-.
      destruct (Hgo (n_after_store_rotate np)) as (G1 & G2 & G3 & G4 & G5 & G6 & G7 & G8 & G9 & G10 & G11 & G12).
      exists r, h, e. split; [exact F|]. rewrite G1, G2, G3, G4, G5, G8, G9, G10, G11, G12, M3, M4.
      split; [exact C|]. split; [exact G7|]. split.
      { split; [|split; [|split; [|split]]]; cbn [s_ptr s_cur s_maps s_cells s_new].
        - intros g Hg. rewrite app_length. specialize (Wp g Hg). cbn. lia.
        - intros g Hg. injection Hg as <-. rewrite app_length. cbn. lia.
        - apply Forall_app. split.
          + eapply Forall_impl; [|exact Wm]. intros a Ha. cbn beta in *. rewrite app_length. cbn [length]. lia.
          + constructor; [rewrite app_length; cbn; lia | constructor].
        - apply Forall_app. split; [exact Wl|]. constructor; [rewrite W64_v; lia | constructor].
        - intros g Hg. rewrite app_length. specialize (Wn g Hg). cbn. lia. }
      split; [exact N|]. split; [exact G6|]. split; [sok Hpc|].
      unfold persisted. cbn [s_cells s_sat]. rewrite persisted_app.
      split; [lia|]. intros Hs. split; [exact Hs|lia].
    + (* SameFile *)
      destruct (s_cur s) as [g0|] eqn:Ec; [destruct (s_tight s) eqn:Eti|]; injection H as <- <-.
      * destruct (Hgo (n_after_store_extend np)) as (G1 & G2 & G3 & G4 & G5 & G6 & G7 & G8 & G9 & G10 & G11 & G12).
        exists r, h, e. split; [exact F|]. rewrite G1, G2, G3, G4, G5, G8, G9, G10, G11, G12, M3, M4.
        split; [exact C|]. split; [exact G7|]. split.
        { split; [|split; [|split; [|split]]]; cbn [s_ptr s_cur s_maps s_cells s_new].
          - intros g Hg. rewrite app_length. specialize (Wp g Hg). cbn. lia.
          - intros g Hg. injection Hg as <-. rewrite app_length. cbn. lia.
          - apply Forall_app. split; [exact Wm|]. constructor; [|constructor].
            apply wf_file_of; [exact W | apply Wc; reflexivity].
          - exact Wl.
          - intros g Hg. rewrite app_length. specialize (Wn g Hg). cbn. lia. }
        split; [exact N|]. split; [exact G6|]. split; [sok Hpc|].
        unfold persisted. cbn [s_cells s_sat].
        split; [lia|]. intros Hs. split; [exact Hs|lia].
      * same_leaf Hpc F W T N r h.
      * same_leaf Hpc F W T N r h.
    + (* NoFile *)
      injection H as <- <-.
      destruct (Hgo (n_after_store_rotate np)) as (G1 & G2 & G3 & G4 & G5 & G6 & G7 & G8 & G9 & G10 & G11 & G12).
      exists r, h, e. split; [exact F|]. rewrite G1, G2, G3, G4, G5, G8, G9, G10, G11, G12, M3, M4.
      split; [exact C|]. split; [exact G7|]. split.
      { split; [|split; [|split; [|split]]]; cbn [s_ptr s_cur s_maps s_cells s_new]; try assumption. intros g Hg. discriminate. }
      split; [exact N|]. split; [exact G6|]. split; [sok Hpc|].
      unfold persisted. cbn [s_cells s_sat].
      split; [lia|]. intros Hs. split; [exact Hs|lia].
    + (* FullFile *)
      injection H as <- <-.
      destruct (Hgo (n_after_store_rotate np)) as (G1 & G2 & G3 & G4 & G5 & G6 & G7 & G8 & G9 & G10 & G11 & G12).
      exists r, h, e. split; [exact F|]. rewrite G1, G2, G3, G4, G5, G8, G9, G10, G11, G12, M3, M4.
      split; [exact C|]. split; [exact G7|]. split.
      { split; [|split; [|split; [|split]]]; cbn [s_ptr s_cur s_maps s_cells s_new].
        - intros g Hg. rewrite app_length. specialize (Wp g Hg). cbn. lia.
        - intros g Hg. injection Hg as <-. rewrite app_length. cbn. lia.
        - apply Forall_app. split.
          + eapply Forall_impl; [|exact Wm]. intros a Ha. cbn beta in *. rewrite app_length. cbn [length]. lia.
          + constructor; [rewrite app_length; cbn; lia | constructor].
        - apply Forall_app. split; [exact Wl|]. constructor; [rewrite W64_v; lia | constructor].
        - intros g Hg. rewrite app_length. specialize (Wn g Hg). cbn. lia. }
      split; [exact N|]. split; [exact G6|]. split; [sok Hpc|].
      unfold persisted. cbn [s_cells s_sat]. rewrite persisted_app.
      split; [lia|]. intros Hs. split; [exact Hs|lia].
  - (* CNop *) injection H as <- <-. destruct k; same_leaf Hpc F W T N r h.
  - (* IvLoad *)
    destruct (w_have (s_word s)); injection H as <- <-; same_leaf Hpc F W T N r h.
  - (* IvCas *)
    destruct (Z.eqb_spec (s_word s) (t_st t)) as [Ew|Ne]; injection H as <- <-.
    2:{ same_leaf Hpc F W T N r h. }
    rewrite <- Ew.
    exists r, false, e. psimp. split; [apply (f_clear_have _ _ _ _ F)|]. ms Hpc. psimp.
    split; [lia|]. split; [split; [assumption|intros; discriminate]|]. split; [exact W|].
    split; [npg|]. split; [reflexivity|]. split; [sok Hpc|]. split; [lia|]. intros Hs. split; [exact Hs|lia].
  - (* RfLoad *)
    destruct (w_have (s_word s) || (0 <? w_readers (s_word s)) || (w_extra (s_word s) =? 0)) eqn:Cd;
      injection H as <- <-.
    + rewrite Eh, Er, Ee in Cd.
      apply orb_true_iff in Cd as [Cd|Cd]; [apply orb_true_iff in Cd as [Cd|Cd]; [|apply Z.ltb_lt in Cd]|];
      unfold to_close; cbn [t_prev with_st]; destruct (t_prev t); same_leaf Hpc F W T N r h.
    + apply orb_false_iff in Cd as [Cd _]. apply orb_false_iff in Cd as [_ Cd]. apply Z.ltb_ge in Cd.
      apply (post_same _ _ _ _ r h); [exact F | exact W | ms Hpc; lia | | ms Hpc; exact N | ms Hpc; reflexivity | sok Hpc | ms Hpc; lia].
      ms Hpc. split; [assumption|]. intros _. lia.
  - (* RfCas *)
    destruct (Z.eqb_spec (s_word s) (t_st t)) as [Ew|Ne]; injection H as <- <-.
    2:{ same_leaf Hpc F W T N r h. }
    rewrite <- Ew in *.
    assert (Hz : r = 0 /\ Rr = 0 /\ Lr = 0 /\ NPr = 0).
    { pose proof (Tr eq_refl) as Hz. ms Hpc. rewrite LOCKED_v in *. lia. }
    destruct Hz as (Hr0 & -> & -> & ->).
    exists LOCKED, h, e. psimp. split; [apply (f_set_locked _ _ _ _ F)|]. ms Hpc. psimp.
    split; [lia|]. split; [split; [assumption|intros; discriminate]|]. split; [exact W|].
    split; [npg|]. split; [reflexivity|]. split; [sok Hpc|]. split; [lia|]. intros Hs. split; [exact Hs|lia].
  - (* CClose *)
    destruct (t_prev t) as [g|]; injection H as <- <-.
    + exists r, h, e. split; [exact F|]. ms Hpc.
      split; [lia|]. split; [split; [assumption|intros; discriminate]|]. split; [exact W|].
      split; [exact N|]. split; [reflexivity|]. split; [sok Hpc|].
      change (persisted (mkS (s_word s) (s_ptr s) (s_cur s) (s_maps s) (g :: s_closed s) (s_cells s) (s_faults s) (s_sat s) (s_full s) (s_new s) (s_tight s))) with (persisted s).
      cbn [s_sat]. split; [lia|]. intros Hs. split; [exact Hs|lia].
    + same_leaf Hpc F W T N r h.
  - (* Crash *) ms Hpc. discriminate.
  - (* Done *) injection H as <- <-. same_leaf Hpc F W T N r h.
Qed.

(* ---- the global invariant ---- *)

Definition Inv (TOTAL : Z) (st : state) : Prop :=
  let '(s, ts) := st in
  exists r h e, Fields (s_word s) r h e /\
    cnt_ok r (sumf rd ts) (sumf lk ts) 0 0 /\
    Forall tl_ok ts /\ wf s /\
    (0 < sumf needs_ptr ts -> s_ptr s <> None) /\
    Forall (fun t => crashed t = false) ts /\
    S_ok h e (s_ptr s) (s_cur s) (sumf lk ts) (sumf rd ts) (sumf pendI ts) (sumf pendR ts) (sumf look ts) (sumf xr ts) (sumf gp ts) /\
    Z.of_nat (length ts) < LOCKED /\
    persisted s + e + sumf carry ts + sumf undep ts <= TOTAL /\
    (s_sat s = false -> persisted s + e + sumf carry ts + sumf undep ts = TOTAL).

Lemma sum_others_bound l i t : nth_error l i = Some t ->
  0 <= sumf rd l - rd t /\ 0 <= sumf lk l - lk t /\
  (sumf rd l - rd t) + (sumf lk l - lk t) + 1 <= Z.of_nat (length l) /\
  0 <= sumf needs_ptr l - needs_ptr t <= (sumf rd l - rd t) + (sumf lk l - lk t) /\
  0 <= sumf pendI l - pendI t /\ 0 <= sumf pendR l - pendR t /\
  0 <= sumf look l - look t <= sumf lk l - lk t /\
  0 <= sumf xr l - xr t <= sumf rd l - rd t /\
  0 <= sumf gp l - gp t <= sumf lk l - lk t.
Proof.
  assert (P : forall x, 0 <= needs_ptr x <= rd x + lk x /\ 0 <= pendI x /\ 0 <= pendR x /\
                        0 <= look x <= lk x /\ 0 <= xr x <= rd x /\ 0 <= gp x <= lk x).
  { intros x. unfold needs_ptr, rd, lk, pendI, pendR, look, xr, gp. destruct (t_pc x); lia. }
  assert (D : forall l, 0 <= sumf needs_ptr l <= sumf rd l + sumf lk l /\ 0 <= sumf pendI l /\ 0 <= sumf pendR l /\
                        0 <= sumf look l <= sumf lk l /\ 0 <= sumf xr l <= sumf rd l /\ 0 <= sumf gp l <= sumf lk l).
  { clear -P. induction l as [|y l IH]; cbn [sumf]; [lia|]. pose proof (P y). lia. }
  revert i; induction l as [|x l IH]; intros [|i] H; cbn [nth_error] in H; try discriminate.
  - injection H as ->. cbn [sumf length]. pose proof (sum_rd_lk_le l) as (A & B & C).
    pose proof (D l). lia.
  - specialize (IH _ H). cbn [sumf length]. pose proof (rd_lk_bound x). pose proof (P x). lia.
Qed.

Lemma nth_error_Forall {A} (P : A -> Prop) l i x : Forall P l -> nth_error l i = Some x -> P x.
Proof. intros F H. rewrite Forall_forall in F. apply F. eapply nth_error_In; eauto. Qed.

Theorem inv_step np T st i : Inv T st -> Inv T (step np st i).
Proof.
  destruct st as [s ts]. intros I. unfold step.
  destruct (nth_error ts i) as [t|] eqn:Hn; [|exact I].
  destruct (step_thread np s t) as [s' t'] eqn:Hs.
  destruct I as (r & h & e & F & C & TL & W & NP & CR & SO & LEN & LE & EQ).
  pose proof (sum_others_bound _ _ _ Hn) as (B1 & B2 & B3 & B4 & B5 & B6 & B7 & B8 & B9).
  pose proof (sumf_upd gp _ _ _ t' Hn) as Ugp.
  pose proof (sumf_upd pendI _ _ _ t' Hn) as Upi.
  pose proof (sumf_upd pendR _ _ _ t' Hn) as Upr.
  pose proof (sumf_upd look _ _ _ t' Hn) as Ulo.
  pose proof (sumf_upd xr _ _ _ t' Hn) as Uxr.
  pose proof (sumf_upd rd _ _ _ t' Hn) as Urd.
  pose proof (sumf_upd lk _ _ _ t' Hn) as Ulk.
  pose proof (sumf_upd carry _ _ _ t' Hn) as Uca.
  pose proof (sumf_upd undep _ _ _ t' Hn) as Uun.
  pose proof (sumf_upd needs_ptr _ _ _ t' Hn) as Unp.
  assert (L := step_local np s t s' t' r h e (sumf rd ts - rd t) (sumf lk ts - lk t)
                 (sumf needs_ptr ts - needs_ptr t) (sumf pendI ts - pendI t) (sumf pendR ts - pendR t)
                 (sumf look ts - look t) (sumf xr ts - xr t) (sumf gp ts - gp t) (Z.of_nat (length ts)) Hs F B1 B2 B3 LEN B4 B5 B6 B7 B8 B9).
  assert (C' : cnt_ok r (rd t) (lk t) (sumf rd ts - rd t) (sumf lk ts - lk t)).
  { unfold cnt_ok in *. lia. }
  specialize (L C' (nth_error_Forall _ _ _ _ TL Hn) W).
  assert (NP' : 0 < needs_ptr t + (sumf needs_ptr ts - needs_ptr t) -> s_ptr s <> None).
  { intros Hp. apply NP. lia. }
  specialize (L NP' (nth_error_Forall _ _ _ _ CR Hn)).
  assert (SO' : S_ok h e (s_ptr s) (s_cur s) (lk t + (sumf lk ts - lk t)) (rd t + (sumf rd ts - rd t))
                  (pendI t + (sumf pendI ts - pendI t)) (pendR t + (sumf pendR ts - pendR t))
                  (look t + (sumf look ts - look t)) (xr t + (sumf xr ts - xr t)) (gp t + (sumf gp ts - gp t))).
  { replace (lk t + (sumf lk ts - lk t)) with (sumf lk ts) by lia.
    replace (rd t + (sumf rd ts - rd t)) with (sumf rd ts) by lia.
    replace (pendI t + (sumf pendI ts - pendI t)) with (sumf pendI ts) by lia.
    replace (pendR t + (sumf pendR ts - pendR t)) with (sumf pendR ts) by lia.
    replace (look t + (sumf look ts - look t)) with (sumf look ts) by lia.
    replace (xr t + (sumf xr ts - xr t)) with (sumf xr ts) by lia.
    replace (gp t + (sumf gp ts - gp t)) with (sumf gp ts) by lia. exact SO. }
  specialize (L SO').
  destruct L as (r' & h' & e' & F' & Cn & T' & W' & N' & K' & S' & LE' & EQ').
  exists r', h', e'. split; [exact F'|].
  rewrite Urd, Ulk, Uca, Uun, Unp, Upi, Upr, Ulo, Uxr, Ugp.
  split; [unfold cnt_ok in *; lia|].
  split; [apply Forall_upd; assumption|]. split; [exact W'|].
  split; [intros Hp; apply N'; lia|].
  split; [apply Forall_upd; assumption|].
  split.
  { replace (sumf lk ts - lk t + lk t') with (lk t' + (sumf lk ts - lk t)) by lia.
    replace (sumf rd ts - rd t + rd t') with (rd t' + (sumf rd ts - rd t)) by lia.
    replace (sumf pendI ts - pendI t + pendI t') with (pendI t' + (sumf pendI ts - pendI t)) by lia.
    replace (sumf pendR ts - pendR t + pendR t') with (pendR t' + (sumf pendR ts - pendR t)) by lia.
    replace (sumf look ts - look t + look t') with (look t' + (sumf look ts - look t)) by lia.
    replace (sumf xr ts - xr t + xr t') with (xr t' + (sumf xr ts - xr t)) by lia.
    replace (sumf gp ts - gp t + gp t') with (gp t' + (sumf gp ts - gp t)) by lia. exact S'. }
  rewrite upd_length. split; [exact LEN|].
  split; [lia|]. intros Hsat. destruct (EQ' Hsat) as [Hs0 E0]. specialize (EQ Hs0). lia.
Qed.

Theorem inv_run np T sched : forall st, Inv T st -> Inv T (run np sched st).
Proof.
  induction sched as [|i sched IH]; intros st I; [exact I|].
  cbn [run fold_left]. apply IH. apply inv_step. exact I.
Qed.

(* ---- initial states ---- *)
Definition fresh_thread (t : thread) : Prop :=
  (t_pc t = AIdle /\ 0 <= t_amt t) \/ (t_pc t = CIdle /\ t_amt t = 0).

Lemma fresh_measures t : fresh_thread t ->
  rd t = 0 /\ lk t = 0 /\ carry t = 0 /\ needs_ptr t = 0 /\ crashed t = false /\ tl_ok t /\
  0 <= undep t /\ undep t = unbegun t /\ pendI t = 0 /\ pendR t = 0 /\ look t = 0 /\ xr t = 0 /\ gp t = 0.
Proof.
  unfold fresh_thread, rd, lk, carry, needs_ptr, crashed, tl_ok, undep, unbegun, pendI, pendR, look, xr, gp.
  intros [[-> H]|[-> H]]; repeat split; try lia; try (intros; discriminate).
Qed.

(* quiescent initial states: a valid pointer is the current mapping's, and
   extra is pending only while there is no pointer to flush it through *)
Definition init_clean (s : shared) : Prop :=
  (w_have (s_word s) = true -> s_ptr s = s_cur s) /\
  (w_have (s_word s) = true -> s_ptr s <> None -> w_extra (s_word s) = 0) /\
  (0 < w_extra (s_word s) -> w_have (s_word s) = true /\ s_ptr s = None).

Theorem inv_init s ts :
  0 <= s_word s < W64 -> wf s -> Forall fresh_thread ts -> Z.of_nat (length ts) < LOCKED ->
  w_readers (s_word s) = 0 -> init_clean s ->
  Inv (persisted s + w_extra (s_word s) + sumf unbegun ts) (s, ts).
Proof.
  intros Hw W FR LEN R0 (IC1 & IC2 & IC3).
  pose proof (fields_of _ Hw) as F. rewrite R0 in F.
  assert (M : sumf rd ts = 0 /\ sumf lk ts = 0 /\ sumf carry ts = 0 /\ sumf needs_ptr ts = 0 /\
              Forall tl_ok ts /\ Forall (fun t => crashed t = false) ts /\ sumf undep ts = sumf unbegun ts /\
              sumf pendI ts = 0 /\ sumf pendR ts = 0 /\ sumf look ts = 0 /\ sumf xr ts = 0 /\ sumf gp ts = 0).
  { clear -FR. induction ts as [|t ts IH]; cbn [sumf]; [repeat split; constructor|].
    inversion FR as [|? ? Ft FR']; subst. destruct (IH FR') as (A & B & C & D & E & G & H & I1 & I2 & I3 & I4 & I5).
    destruct (fresh_measures _ Ft) as (a & b & c & d & e & g & _ & h & i1 & i2 & i3 & i4 & i5).
    repeat split; try lia; constructor; assumption. }
  destruct M as (M1 & M2 & M3 & M4 & M5 & M6 & M7 & M8 & M9 & M10 & M11 & M12).
  exists 0, (w_have (s_word s)), (w_extra (s_word s)).
  split; [exact F|]. rewrite M1, M2, M3, M4, M7, M8, M9, M10, M11, M12.
  split; [unfold cnt_ok; right; lia|]. split; [exact M5|]. split; [exact W|].
  split; [intros; lia|]. split; [exact M6|].
  split.
  { unfold S_ok. split; [intros Hh Hne _; exfalso; apply Hne; apply IC1; exact Hh|].
    split; [intros; lia|]. split; [intros _ Hh Hp; apply IC2; assumption|].
    split; [intros He; right; right; left; apply IC3; exact He|]. intros; lia. }
  split; [exact LEN|].
  split; [lia|]. intros _. lia.
Qed.
