(* Proofs/DateKey: the key yyyymmdd of a day number is strictly increasing
   (one 400-year era swept by vm_compute, lifted by periodicity). *)
From Coq Require Import List ZArith NArith Bool Lia.
From Tele Require Import Lib.Bytes Lib.Calendar Lib.Sweep Proofs.CalendarFacts.
Import ListNotations.
Open Scope Z_scope.

(* ---- the key yyyymmdd is strictly increasing in the day number ---- *)
Definition kkey (z : Z) : Z := let '(y, m, d) := civil_from_days z in y * 10000 + m * 100 + d.

Definition kstep_ok (z : Z) : bool := kkey z <? kkey (z + 1).
(* 2^17 + 2^14 = 147456 >= 146097 days: one 400-year era *)
Lemma kstep_sweep : all_range 17 (-719468) kstep_ok && all_range 14 (-588396) kstep_ok = true.
Proof. vm_cast_no_check (eq_refl true). Qed.

Lemma kstep_sweep_spec z : -719468 <= z < -719468 + 146097 -> kkey z < kkey (z + 1).
Proof.
  intros H. pose proof kstep_sweep as S. apply andb_true_iff in S as [S1 S2].
  apply Z.ltb_lt. change (kstep_ok z = true).
  destruct (Z_lt_ge_dec z (-588396)).
  - apply (all_range_spec 17 _ _ S1). change (2 ^ Z.of_nat 17) with 131072. lia.
  - apply (all_range_spec 14 _ _ S2). change (2 ^ Z.of_nat 14) with 16384. lia.
Qed.

Lemma kkey_period z k : kkey (z + 146097 * k) = kkey z + 4000000 * k.
Proof.
  unfold kkey. rewrite civil_period. destruct (civil_from_days z) as [[y m] d]. ring.
Qed.

Lemma kkey_step z : kkey z < kkey (z + 1).
Proof.
  set (k := (z + 719468) / 146097).
  set (z0 := z - 146097 * k).
  assert (Hz0 : -719468 <= z0 < -719468 + 146097).
  { subst z0 k. pose proof (Z.mod_pos_bound (z + 719468) 146097 ltac:(lia)).
    pose proof (Z.div_mod (z + 719468) 146097 ltac:(lia)). lia. }
  pose proof (kstep_sweep_spec z0 Hz0) as S.
  replace z with (z0 + 146097 * k) by (subst z0; ring).
  replace (z0 + 146097 * k + 1) with ((z0 + 1) + 146097 * k) by ring.
  rewrite !kkey_period. lia.
Qed.

Lemma kkey_mono a b : a < b -> kkey a < kkey b.
Proof.
  intros H. replace b with (a + 1 + (b - a - 1)) by ring.
  assert (Hn : 0 <= b - a - 1) by lia. generalize (b - a - 1) Hn. clear.
  apply (natlike_ind (fun n => kkey a < kkey (a + 1 + n))).
  - rewrite Z.add_0_r. apply kkey_step.
  - intros n Hn IH. pose proof (kkey_step (a + 1 + n)).
    replace (a + 1 + Z.succ n) with (a + 1 + n + 1) by lia. lia.
Qed.

Lemma kkey_order a b : (kkey a <? kkey b) = (a <? b).
Proof.
  destruct (Z.ltb_spec a b) as [H|H].
  - apply Z.ltb_lt. apply kkey_mono. exact H.
  - apply Z.ltb_ge. destruct (Z.eq_dec a b) as [->|Hne]; [lia|].
    pose proof (kkey_mono b a ltac:(lia)). lia.
Qed.

