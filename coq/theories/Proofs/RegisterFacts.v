(* The lock-free registration list (Model/Register): for every schedule and
   any number of threads (several may register the same counter) the list
   from the head is a duplicate-free chain ending at the end marker, and once
   all registrations have returned every registered counter is in it. *)
From Coq Require Import List Arith Bool Lia.
From Tele Require Import Model.Register.
Import ListNotations.

Inductive Chain (s : rshared) : ptr -> list nat -> Prop :=
  | Chain_end : Chain s PEnd []
  | Chain_cons c l : Chain s (next_of s c) l -> Chain s (PCtr c) (c :: l).

Definition HeadChain (s : rshared) (l : list nat) : Prop :=
  match r_head s with PNil => l = [] | p => Chain s p l end.

Definition owner (t : rthread) : bool :=
  rt_wrote t && match rt_pc t with RHead | RNext | RLink | RDbgFail => true | _ => false end.
Definition own (c : nat) (t : rthread) : nat := if owner t && Nat.eqb (rt_c t) c then 1 else 0.
Fixpoint sumn (f : rthread -> nat) (l : list rthread) : nat :=
  match l with [] => 0 | t :: l' => f t + sumn f l' end.
Definition inl (c : nat) (l : list nat) : nat := if mem c l then 1 else 0.
Definition nz (p : ptr) : nat := match p with PNil => 0 | _ => 1 end.

(* per-thread facts (they mention the shared next table) *)
Definition tok (s : rshared) (t : rthread) : Prop :=
  rt_c t < length (r_next s) /\
  match rt_pc t with
  | RIdle | RTest | RDbgNext => rt_wrote t = false
  | RDbgOk | RInv | RRef => next_of s (rt_c t) <> PNil
  | RDbgFail => True
  | RLink => rt_wrote t = true /\ next_of s (rt_c t) = as_next (rt_head t) /\ rt_head t <> PEnd
  | RNext => rt_head t <> PEnd
  | RDone => next_of s (rt_c t) <> PNil
  | RHead => True
  end.

Definition RInv (st : rstate) : Prop :=
  let '(s, ts) := st in
  exists l, HeadChain s l /\ NoDup l /\ r_head s <> PEnd /\
    (forall c, In c l -> c < length (r_next s)) /\
    (forall c, c < length (r_next s) -> sumn (own c) ts + inl c l = nz (next_of s c)) /\
    Forall (tok s) ts.

(* ---- list update lemmas ---- *)
Lemma rupd_length {A} (l : list A) i x : length (rupd l i x) = length l.
Proof. revert i; induction l as [|y l IH]; intros [|i]; cbn; auto. Qed.
Lemma nth_rupd_same {A} (l : list A) i x d : i < length l -> nth i (rupd l i x) d = x.
Proof. revert i; induction l as [|y l IH]; intros [|i] H; cbn in *; try lia; auto. apply IH; lia. Qed.
Lemma nth_rupd_other {A} (l : list A) i j x d : i <> j -> nth j (rupd l i x) d = nth j l d.
Proof. revert i j; induction l as [|y l IH]; intros [|i] [|j] H; cbn; auto; try lia. Qed.
Lemma sumn_rupd f l i t t' : nth_error l i = Some t -> sumn f (rupd l i t') + f t = sumn f l + f t'.
Proof.
  revert i; induction l as [|x l IH]; intros [|i] H; cbn in *; try discriminate.
  - injection H as ->. lia.
  - specialize (IH _ H). lia.
Qed.
Lemma Forall_rupd {A} (P : A -> Prop) l i x : Forall P l -> P x -> Forall P (rupd l i x).
Proof. revert i; induction l as [|y l IH]; intros [|i] H Hx; cbn; auto; inversion H; subst; constructor; auto. Qed.
Lemma nth_error_Forall {A} (P : A -> Prop) l i x : Forall P l -> nth_error l i = Some x -> P x.
Proof. intros F H. rewrite Forall_forall in F. apply F. eapply nth_error_In; eauto. Qed.
Lemma mem_In c l : mem c l = true <-> In c l.
Proof.
  induction l as [|y l IH]; cbn; [split; [discriminate|tauto]|].
  rewrite orb_true_iff, Nat.eqb_eq, IH. split; intros [H|H]; auto.
Qed.
Lemma inl_In c l : inl c l = 1 <-> In c l.
Proof. unfold inl. destruct (mem c l) eqn:E; [apply mem_In in E; tauto|]. split; [discriminate|]. intro H. apply mem_In in H. congruence. Qed.
Lemma inl_le c l : inl c l <= 1. Proof. unfold inl; destruct (mem c l); lia. Qed.
Lemma inl_cons c x l : inl c (x :: l) = if Nat.eqb c x then 1 else inl c l.
Proof. unfold inl. cbn. destruct (Nat.eqb c x); reflexivity. Qed.

Lemma chain_frame s p l c x :
  Chain s p l -> ~ In c l -> Chain (mkR (r_head s) (rupd (r_next s) c x)) p l.
Proof.
  intros H. induction H as [|c0 l0 H IH]; intros Hn; [constructor|].
  constructor. unfold next_of in *. cbn [r_next].
  rewrite nth_rupd_other by (intro E; apply Hn; left; auto).
  apply IH. intro; apply Hn; right; auto.
Qed.
Lemma headchain_frame s l c x : HeadChain s l -> ~ In c l ->
  HeadChain (mkR (r_head s) (rupd (r_next s) c x)) l.
Proof.
  unfold HeadChain. cbn [r_head]. intros H Hn. destruct (r_head s) eqn:E; [exact H | |];
    rewrite <- E; (eapply chain_frame in H; [|exact Hn]); rewrite E in *; exact H.
Qed.
Lemma chain_head s h p l : Chain s p l -> Chain (mkR h (r_next s)) p l.
Proof. intros H; induction H; constructor; auto. Qed.

Lemma own_other c t : rt_c t <> c -> own c t = 0.
Proof. intros H. unfold own. destruct (Nat.eqb_spec (rt_c t) c); [contradiction|]. rewrite andb_false_r. reflexivity. Qed.
Lemma own_same t : own (rt_c t) t = if owner t then 1 else 0.
Proof. unfold own. rewrite Nat.eqb_refl, andb_true_r. reflexivity. Qed.

(* an update of next[c0] by the thread that owns / acquires c0 keeps the
   per-thread facts of every OTHER thread, provided no other thread at RLink
   registers c0 *)
Lemma tok_other s c0 x u : x <> PNil -> tok s u ->
  (rt_pc u = RLink -> rt_c u <> c0) ->
  tok (mkR (r_head s) (rupd (r_next s) c0 x)) u.
Proof.
  intros Hx [Hc Hu] Hl. split; [cbn [r_next]; rewrite rupd_length; exact Hc|].
  unfold next_of in *. cbn [r_next].
  assert (Hnn : nth (rt_c u) (r_next s) PNil <> PNil -> nth (rt_c u) (rupd (r_next s) c0 x) PNil <> PNil).
  { intros Hu0. destruct (Nat.eq_dec c0 (rt_c u)) as [->|Ne].
    - rewrite nth_rupd_same by exact Hc. exact Hx.
    - rewrite nth_rupd_other by exact Ne. exact Hu0. }
  destruct (rt_pc u) eqn:E; auto.
  destruct Hu as (A & B & C). split; [exact A|]. split; [|exact C].
  rewrite nth_rupd_other by (specialize (Hl eq_refl); congruence). exact B.
Qed.

Lemma tok_head s h u : tok s u -> tok (mkR h (r_next s)) u.
Proof. intros H; exact H. Qed.

Lemma as_next_nz h : as_next h <> PNil.
Proof. destruct h; discriminate. Qed.

Lemma sumn_own_zero_in c ts u : sumn (own c) ts = 0 -> In u ts -> own c u = 0.
Proof.
  induction ts as [|x ts IH]; cbn; [tauto|]. intros H [->|Hu]; [lia|]. apply IH; [lia|exact Hu].
Qed.

(* if t (at index i) owns c and the total is at most 1, nobody else owns c *)
Lemma others_not_owner c ts i t : nth_error ts i = Some t -> own c t = 1 -> sumn (own c) ts <= 1 ->
  forall j u, nth_error ts j = Some u -> j <> i -> own c u = 0.
Proof.
  revert i; induction ts as [|x ts IH]; intros [|i] Hn Ho Hs [|j] u Hu Hji; cbn in *; try discriminate; try lia.
  - injection Hn as ->. assert (sumn (own c) ts = 0) by lia.
    apply (sumn_own_zero_in c ts u H). eapply nth_error_In; eauto.
  - injection Hu as ->. specialize (IH i Hn Ho). 
    assert (own c u <= 1) by (unfold own; destruct (owner u && (rt_c u =? c)); lia).
    assert (1 <= sumn (own c) ts).
    { clear -Hn Ho. revert i Hn; induction ts as [|y ts IH]; intros [|i] Hn; cbn in *; try discriminate.
      - injection Hn as ->. lia.
      - specialize (IH _ Hn). lia. }
    lia.
  - eapply IH; eauto. 
    assert (0 <= own c x) by lia. lia.
Qed.

Lemma ptr_eqb_eq a b : ptr_eqb a b = true -> a = b.
Proof. destruct a, b; cbn; try discriminate; auto. intros H; apply Nat.eqb_eq in H; congruence. Qed.

Lemma own_le c t : own c t <= 1.
Proof. unfold own. destruct (owner t && (rt_c t =? c)); lia. Qed.

Lemma sumn_ge_in c ts i t : nth_error ts i = Some t -> own c t <= sumn (own c) ts.
Proof.
  revert i; induction ts as [|x ts IH]; intros [|i] H; cbn in *; try discriminate.
  - injection H as ->. lia.
  - specialize (IH _ H). lia.
Qed.

(* a step that changes neither the shared state nor the ownership of t *)
Lemma rinv_local s ts i t t' l :
  nth_error ts i = Some t ->
  HeadChain s l -> NoDup l -> r_head s <> PEnd ->
  (forall c, In c l -> c < length (r_next s)) ->
  (forall c, c < length (r_next s) -> sumn (own c) ts + inl c l = nz (next_of s c)) ->
  Forall (tok s) ts ->
  (forall c, own c t' = own c t) -> tok s t' ->
  RInv (s, rupd ts i t').
Proof.
  intros Hn HC ND HE HB E TK Ho Tt'. exists l.
  split; [exact HC|]. split; [exact ND|]. split; [exact HE|]. split; [exact HB|].
  split; [|apply Forall_rupd; assumption].
  intros c Hc. pose proof (sumn_rupd (own c) ts i t t' Hn). rewrite Ho in H. specialize (E c Hc). lia.
Qed.

Theorem rinv_step st i : RInv st -> RInv (rstep st i).
Proof.
  destruct st as [s ts]. intros I. unfold rstep.
  destruct (nth_error ts i) as [t|] eqn:Hn; [|exact I].
  destruct (rstep_thread s t) as [s' t'] eqn:Hs.
  destruct I as (l & HC & ND & HE & HB & E & TK).
  pose proof (nth_error_Forall _ _ _ _ TK Hn) as [Tc Tt].
  unfold rstep_thread in Hs.
  destruct (rt_pc t) eqn:Hpc.
  - (* RIdle *)
    injection Hs as <- <-. apply (rinv_local s ts i t _ l); auto.
    + intros c. unfold own, owner. cbn. rewrite Hpc, Tt. reflexivity.
    + split; [exact Tc | reflexivity].
  - (* RTest *)
    destruct (next_of s (rt_c t)) eqn:En; injection Hs as <- <-;
      (apply (rinv_local s ts i t _ l); auto;
       [ intros cc; unfold own, owner; cbn; rewrite Hpc, Tt; reflexivity
       | split; [exact Tc | cbn; try exact I; try (rewrite En; discriminate); auto ] ]).
  - (* RHead *)
    injection Hs as <- <-. apply (rinv_local s ts i t _ l); auto.
    + intros c. unfold own, owner. cbn. rewrite Hpc. reflexivity.
    + split; [exact Tc | cbn; exact HE].
  - (* RNext *)
    set (c0 := rt_c t) in *. set (nx := as_next (rt_head t)) in *.
    assert (Hnx : nx <> PNil) by apply as_next_nz.
    destruct (rt_wrote t) eqn:Hw.
    + (* store by the owner *)
      injection Hs as <- <-.
      assert (Hot : own c0 t = 1) by (unfold own, owner; rewrite Hw, Hpc; fold c0; rewrite Nat.eqb_refl; reflexivity).
      pose proof (sumn_ge_in c0 ts i t Hn) as Hge. pose proof (E c0 Tc) as E0.
      assert (Hnz : nz (next_of s c0) = 1) by (destruct (next_of s c0); cbn in *; lia).
      assert (Hin : inl c0 l = 0) by lia.
      assert (Hnl : ~ In c0 l) by (intro X; apply inl_In in X; lia).
      exists l. cbn [r_head r_next].
      split; [apply headchain_frame; assumption|].
      split; [exact ND|]. split; [exact HE|]. split; [intros c Hc; rewrite rupd_length; apply HB; exact Hc|].
      split.
      * intros c Hc. rewrite rupd_length in Hc.
        pose proof (sumn_rupd (own c) ts i t (mkRT RLink c0 true (rt_head t)) Hn) as U.
        assert (Eo : own c (mkRT RLink c0 true (rt_head t)) = own c t).
        { unfold own, owner. cbn. rewrite Hw, Hpc. reflexivity. }
        rewrite Eo in U. specialize (E c Hc). unfold next_of in *. cbn [r_next].
        destruct (Nat.eq_dec c0 c) as [<-|Ne].
        -- rewrite nth_rupd_same by exact Tc. destruct nx; [contradiction| |]; cbn; lia.
        -- rewrite nth_rupd_other by exact Ne. lia.
      * apply Forall_rupd.
        -- rewrite Forall_forall in *. intros u Hu. apply tok_other; auto.
           intros Hul Ec.
           destruct (In_nth_error _ _ Hu) as [j Hj].
           destruct (Nat.eq_dec j i) as [->|Nji]; [rewrite Hn in Hj; injection Hj as <-; congruence|].
           pose proof (others_not_owner c0 ts i t Hn Hot ltac:(lia) j u Hj Nji) as Z.
           destruct (TK u Hu) as [_ Tu]. rewrite Hul in Tu. destruct Tu as (Wu & _).
           unfold own, owner in Z. rewrite Wu, Hul, Ec, Nat.eqb_refl in Z. discriminate.
        -- split; [cbn [r_next rt_c]; rewrite rupd_length; exact Tc|]. cbn.
           split; [reflexivity|]. split; [|exact Tt]. unfold next_of. cbn [r_next]. apply nth_rupd_same. exact Tc.
    + destruct (next_of s c0) eqn:En.
      * (* CAS nil -> next succeeds: t becomes the owner *)
        injection Hs as <- <-.
        pose proof (E c0 Tc) as E0. rewrite En in E0. cbn [nz] in E0.
        assert (Hs0 : sumn (own c0) ts = 0) by lia. assert (Hin : inl c0 l = 0) by lia.
        assert (Hnl : ~ In c0 l) by (intro X; apply inl_In in X; lia).
        exists l. cbn [r_head r_next].
        split; [apply headchain_frame; assumption|].
        split; [exact ND|]. split; [exact HE|]. split; [intros c Hc; rewrite rupd_length; apply HB; exact Hc|].
        split.
        -- intros c Hc. rewrite rupd_length in Hc.
           pose proof (sumn_rupd (own c) ts i t (mkRT RLink c0 true (rt_head t)) Hn) as U.
           assert (Eo : own c t = 0) by (unfold own, owner; rewrite Hw; reflexivity).
           specialize (E c Hc). unfold next_of in *. cbn [r_next].
           destruct (Nat.eq_dec c0 c) as [<-|Ne].
           ++ rewrite nth_rupd_same by exact Tc.
              assert (own c0 (mkRT RLink c0 true (rt_head t)) = 1) by (unfold own, owner; cbn; rewrite Nat.eqb_refl; reflexivity).
              destruct nx; [contradiction| |]; cbn; lia.
           ++ rewrite nth_rupd_other by exact Ne.
              assert (own c (mkRT RLink c0 true (rt_head t)) = 0) by (apply own_other; cbn; exact Ne). lia.
        -- apply Forall_rupd.
           ++ rewrite Forall_forall in *. intros u Hu. apply tok_other; auto.
              intros Hul Ec. pose proof (sumn_own_zero_in c0 ts u Hs0 Hu) as Z.
              destruct (TK u Hu) as [_ Tu]. rewrite Hul in Tu. destruct Tu as (Wu & _).
              unfold own, owner in Z. rewrite Wu, Hul, Ec, Nat.eqb_refl in Z. discriminate.
           ++ split; [cbn [r_next rt_c]; rewrite rupd_length; exact Tc|]. cbn.
              split; [reflexivity|]. split; [|exact Tt]. unfold next_of. cbn [r_next]. apply nth_rupd_same. exact Tc.
      * injection Hs as <- <-. apply (rinv_local s ts i t _ l); auto.
        -- intros c. unfold own, owner. cbn. rewrite Hw. reflexivity.
        -- split; [exact Tc | reflexivity].
      * injection Hs as <- <-. apply (rinv_local s ts i t _ l); auto.
        -- intros cc. unfold own, owner. cbn. rewrite Hw. reflexivity.
        -- split; [exact Tc | reflexivity].
  - (* RLink *)
    destruct Tt as (Hw & Hnx & Hhe). set (c0 := rt_c t) in *.
    destruct (ptr_eqb (r_head s) (rt_head t)) eqn:Hq; injection Hs as <- <-.
    + apply ptr_eqb_eq in Hq.
      assert (Hot : own c0 t = 1) by (unfold own, owner; rewrite Hw, Hpc; fold c0; rewrite Nat.eqb_refl; reflexivity).
      pose proof (sumn_ge_in c0 ts i t Hn) as Hge. pose proof (E c0 Tc) as E0.
      assert (Hnz : nz (next_of s c0) = 1) by (destruct (next_of s c0); cbn in *; lia).
      assert (Hin : inl c0 l = 0) by lia.
      assert (Hnl : ~ In c0 l) by (intro X; apply inl_In in X; lia).
      exists (c0 :: l). cbn [r_head r_next].
      split.
      { unfold HeadChain. cbn [r_head]. constructor.
        change (next_of (mkR (PCtr c0) (r_next s)) c0) with (next_of s c0). rewrite Hnx, <- Hq.
        apply chain_head. unfold HeadChain in HC. destruct (r_head s) eqn:Eh; cbn [as_next].
        - subst l. constructor.
        - contradiction.
        - exact HC. }
      split; [constructor; assumption|]. split; [discriminate|].
      split; [intros c [<-|Hc]; [exact Tc | apply HB; exact Hc]|].
      split.
      * intros c Hc. pose proof (sumn_rupd (own c) ts i t (mkRT RDbgOk c0 (rt_wrote t) (rt_head t)) Hn) as U.
        assert (own c (mkRT RDbgOk c0 (rt_wrote t) (rt_head t)) = 0) by (unfold own, owner; cbn; rewrite andb_false_r; reflexivity).
        specialize (E c Hc). change (next_of (mkR (PCtr c0) (r_next s)) c) with (next_of s c).
        rewrite inl_cons. destruct (Nat.eqb_spec c c0) as [->|Ne].
        -- lia.
        -- assert (own c t = 0) by (apply own_other; fold c0; congruence). lia.
      * apply Forall_rupd; [exact TK|]. split; [exact Tc|]. cbn.
        unfold next_of in Hnx. rewrite Hnx. apply as_next_nz.
    + apply (rinv_local s ts i t _ l); auto.
      * intros c. unfold own, owner. cbn. rewrite Hpc. reflexivity.
      * split; [exact Tc | exact I].
  - (* RDbgNext *)
    injection Hs as <- <-. apply (rinv_local s ts i t _ l); auto.
    + intros c. unfold own, owner. cbn. rewrite Hpc, Tt. reflexivity.
    + split; [exact Tc | exact Tt].
  - (* RDbgFail *)
    injection Hs as <- <-. apply (rinv_local s ts i t _ l); auto.
    + intros c. unfold own, owner. cbn. rewrite Hpc. reflexivity.
    + split; [exact Tc | exact I].
  - (* RDbgOk *)
    injection Hs as <- <-. apply (rinv_local s ts i t _ l); auto.
    + intros c. unfold own, owner. cbn. rewrite Hpc, !andb_false_r. reflexivity.
    + split; [exact Tc | exact Tt].
  - (* RInv *)
    injection Hs as <- <-. apply (rinv_local s ts i t _ l); auto.
    + intros c. unfold own, owner. cbn. rewrite Hpc, !andb_false_r. reflexivity.
    + split; [exact Tc | exact Tt].
  - (* RRef *)
    injection Hs as <- <-. apply (rinv_local s ts i t _ l); auto.
    + intros c. unfold own, owner. cbn. rewrite Hpc, !andb_false_r. reflexivity.
    + split; [exact Tc | exact Tt].
  - (* RDone *)
    injection Hs as <- <-. apply (rinv_local s ts i t _ l); auto. split; [exact Tc|]. rewrite Hpc. exact Tt.
Qed.

Theorem rinv_run sched : forall st, RInv st -> RInv (rrun sched st).
Proof.
  induction sched as [|i sched IH]; intros st I; [exact I|].
  cbn [rrun fold_left]. apply IH. apply rinv_step. exact I.
Qed.

Lemma nth_repeat {A} (x d : A) n i : nth i (repeat x n) d = if Nat.ltb i n then x else d.
Proof.
  revert i; induction n as [|n IH]; intros [|i]; cbn [repeat nth]; auto. rewrite IH.
  destruct (Nat.ltb_spec i n), (Nat.ltb_spec (S i) (S n)); try lia; reflexivity.
Qed.

Lemma idle_no_owner c who : sumn (own c) (map (fun c => mkRT RIdle c false PNil) who) = 0.
Proof. induction who as [|w who IH]; cbn [map sumn]; [reflexivity|]. rewrite IH. reflexivity. Qed.

Theorem rinv_init n who : Forall (fun c => c < n) who -> RInv (rinit n who).
Proof.
  intros Hw. unfold rinit. exists []. cbn [r_head r_next].
  split; [reflexivity|]. split; [constructor|]. split; [discriminate|]. split; [intros c []|].
  split.
  - intros c Hc. rewrite repeat_length in Hc. unfold next_of. cbn [r_next]. rewrite nth_repeat.
    destruct (Nat.ltb_spec c n); [|lia]. cbn.
    rewrite idle_no_owner. reflexivity.
  - induction who as [|w who IH]; cbn; constructor; inversion Hw; subst; auto.
    split; [cbn; rewrite repeat_length; assumption | reflexivity].
Qed.

(* ---- what the invariant gives ---- *)
Lemma all_done_no_owner ts c : forallb rdone ts = true -> sumn (own c) ts = 0.
Proof.
  induction ts as [|t ts IH]; cbn; [reflexivity|]. intros H. apply andb_true_iff in H as [Ht H].
  rewrite (IH H). unfold own, owner, rdone in *. destruct (rt_pc t); try discriminate; rewrite ?andb_false_r; reflexivity.
Qed.

(* every reachable state: the list from the head is a duplicate-free chain
   ending at the end marker *)
Theorem list_well_formed n who sched : Forall (fun c => c < n) who ->
  let '(s, ts) := rrun sched (rinit n who) in
  exists l, HeadChain s l /\ NoDup l /\ (forall c, In c l -> c < length (r_next s)).
Proof.
  intros Hw. pose proof (rinv_run sched _ (rinv_init n who Hw)) as I.
  destruct (rrun sched (rinit n who)) as [s ts].
  destruct I as (l & HC & ND & _ & HB & _). exists l. auto.
Qed.

(* once all registrations have returned, every registered counter is in the list *)
Theorem all_registered n who sched : Forall (fun c => c < n) who ->
  let '(s, ts) := rrun sched (rinit n who) in
  forallb rdone ts = true ->
  exists l, HeadChain s l /\ NoDup l /\ forall t, In t ts -> In (rt_c t) l.
Proof.
  intros Hw. pose proof (rinv_run sched _ (rinv_init n who Hw)) as I.
  destruct (rrun sched (rinit n who)) as [s ts].
  destruct I as (l & HC & ND & _ & HB & E & TK). intros D.
  exists l. split; [exact HC|]. split; [exact ND|]. intros t Ht.
  rewrite Forall_forall in TK. destruct (TK t Ht) as [Tc Tt].
  assert (Hd : rt_pc t = RDone).
  { rewrite forallb_forall in D. specialize (D t Ht). unfold rdone in D. destruct (rt_pc t); try discriminate; reflexivity. }
  rewrite Hd in Tt. specialize (E _ Tc). rewrite (all_done_no_owner ts (rt_c t) D) in E.
  apply inl_In. destruct (next_of s (rt_c t)); [contradiction| |]; cbn in E; lia.
Qed.

(* the executable oracle agrees with the propositional chain *)
Lemma chain_compute s p l fuel : Chain s p l -> length l < fuel -> chain fuel s p = Some l.
Proof.
  intros H. revert fuel. induction H as [|c l H IH]; intros [|fuel] Hl; cbn in *; try lia; [reflexivity|].
  rewrite (IH fuel) by lia. reflexivity.
Qed.

Lemma nodup_bounded_length l n : NoDup l -> (forall c, In c l -> c < n) -> length l <= n.
Proof.
  intros ND HB. rewrite <- (seq_length n 0). apply NoDup_incl_length; [exact ND|].
  intros c Hc. apply in_seq. specialize (HB c Hc). lia.
Qed.

Lemma nodupb_true l : NoDup l -> nodupb l = true.
Proof.
  induction 1 as [|x l Hn ND IH]; cbn; [reflexivity|]. rewrite IH, andb_true_r.
  destruct (mem x l) eqn:E; [apply mem_In in E; contradiction | reflexivity].
Qed.

Theorem oracle_accepts n who sched : Forall (fun c => c < n) who ->
  let '(s, ts) := rrun sched (rinit n who) in
  list_ok s = true /\ (forallb rdone ts = true -> quiescent_ok s ts = true).
Proof.
  intros Hw. pose proof (all_registered n who sched Hw) as A.
  pose proof (rinv_run sched _ (rinv_init n who Hw)) as I.
  destruct (rrun sched (rinit n who)) as [s ts].
  destruct I as (l & HC & ND & HE & HB & _ & _).
  assert (CH : chain_from_head s = Some l).
  { unfold chain_from_head, HeadChain in *. destruct (r_head s) eqn:Eh; [subst; reflexivity | contradiction |].
    apply chain_compute; [exact HC|]. pose proof (nodup_bounded_length l _ ND HB). lia. }
  split; [unfold list_ok; rewrite CH; apply nodupb_true; exact ND|].
  intros D. destruct (A D) as (l' & HC' & ND' & Hin).
  assert (l' = l).
  { clear -HC HC'. unfold HeadChain in *. destruct (r_head s); [congruence | inversion HC; inversion HC'; congruence|].
    revert l' HC'. induction HC as [|cc ll H IH]; intros l' H'; inversion H'; subst; [reflexivity|]. f_equal. apply IH. assumption. }
  subst l'. unfold quiescent_ok. rewrite CH, (nodupb_true _ ND). cbn [andb].
  apply forallb_forall. intros t Ht. apply orb_true_iff. right. apply mem_In. apply Hin. exact Ht.
Qed.

(* ---- a register call can return before its counter is on the list ---- *)
(* At EVERY instant, for a call that has returned: its counter is on the list,
   or exactly one other call has claimed it (wrote c.next) and has not linked
   it yet.  That call goes on to RLink and, once its CAS on the head succeeds,
   through RInv and RRef: it redoes for this counter the invalidation pass a
   mapping changer's walk may have missed (fix f518e0b). *)
Lemma sumn_pos_witness f ts : 0 < sumn f ts -> exists j t, nth_error ts j = Some t /\ 0 < f t.
Proof.
  induction ts as [|x ts IH]; cbn [sumn]; [lia|]. intros H.
  destruct (Nat.eq_dec (f x) 0) as [E|E].
  - destruct IH as (j & t & Hj & Ht); [lia|]. exists (S j), t. auto.
  - exists 0, x. split; [reflexivity | lia].
Qed.

Theorem returned_means_listed_or_claimed n who sched : Forall (fun c => c < n) who ->
  let '(s, ts) := rrun sched (rinit n who) in
  forall t, In t ts -> rt_pc t = RDone ->
  exists l, HeadChain s l /\
    (In (rt_c t) l \/
     exists j u, nth_error ts j = Some u /\ rt_c u = rt_c t /\ rt_wrote u = true /\
       (rt_pc u = RHead \/ rt_pc u = RNext \/ rt_pc u = RLink \/ rt_pc u = RDbgFail)).
Proof.
  intros Hw. pose proof (rinv_run sched _ (rinv_init n who Hw)) as I.
  destruct (rrun sched (rinit n who)) as [s ts].
  destruct I as (l & HC & ND & _ & HB & E & TK). intros t Ht Hd.
  exists l. split; [exact HC|].
  rewrite Forall_forall in TK. destruct (TK t Ht) as [Tc Tt]. rewrite Hd in Tt.
  specialize (E _ Tc).
  assert (Hnz : nz (next_of s (rt_c t)) = 1) by (destruct (next_of s (rt_c t)); [contradiction | reflexivity | reflexivity]).
  rewrite Hnz in E. unfold inl in E. destruct (mem (rt_c t) l) eqn:M.
  - left. apply inl_In. unfold inl. rewrite M. lia.
  - right. destruct (sumn_pos_witness (own (rt_c t)) ts ltac:(lia)) as (j & u & Hj & Hu).
    exists j, u. split; [exact Hj|]. unfold own, owner in Hu.
    destruct (rt_wrote u) eqn:W; cbn [andb] in Hu; [|lia].
    destruct (Nat.eqb_spec (rt_c u) (rt_c t)) as [Ec|Ec]; [|rewrite andb_false_r in Hu; lia].
    split; [exact Ec|]. split; [reflexivity|].
    destruct (rt_pc u); cbn in Hu; try lia; auto.
Qed.

(* the hazard is real: two calls for counter 0; the first claims it and is
   parked before linking, the second finds c.next set and returns - with the
   list still empty *)
Theorem early_return_before_link :
  let '(s, ts) := rrun [0; 0; 0; 0; 1; 1] (rinit 1 [0; 0]) in
  exists t, nth_error ts 1 = Some t /\ rt_pc t = RDone /\ r_head s = PNil.
Proof. vm_compute. eexists. repeat split. Qed.
