(* The lock-free registration list (Model/Register): for every schedule and
   any number of threads (several may register the same counter) the list
   from the head is a duplicate-free chain ending at the end marker, and once
   all registrations have returned every registered counter is in it. *)
From Coq Require Import List Arith Bool Lia.
From Tele Require Import Model.Register.
Import ListNotations.

Inductive Chain (s : rshared) : ptr -> list nat -> Prop :=
  | Chain_end : Chain s PEnd []
  | Chain_cons c l : Chain s (next_of s c) l -> Chain s (PCtr c) (c :: l).

Definition HeadChain (s : rshared) (l : list nat) : Prop :=
  match r_head s with PNil => l = [] | p => Chain s p l end.

Definition owner (t : rthread) : bool :=
  rt_wrote t && match rt_pc t with RHead | RNext | RLink => true | _ => false end.
Definition own (c : nat) (t : rthread) : nat := if owner t && Nat.eqb (rt_c t) c then 1 else 0.
Fixpoint sumn (f : rthread -> nat) (l : list rthread) : nat :=
  match l with [] => 0 | t :: l' => f t + sumn f l' end.
Definition inl (c : nat) (l : list nat) : nat := if mem c l then 1 else 0.
Definition nz (p : ptr) : nat := match p with PNil => 0 | _ => 1 end.

(* per-thread facts (they mention the shared next table) *)
Definition tok (s : rshared) (t : rthread) : Prop :=
  rt_c t < length (r_next s) /\
  match rt_pc t with
  | RIdle | RTest => rt_wrote t = false
  | RLink => rt_wrote t = true /\ next_of s (rt_c t) = as_next (rt_head t) /\ rt_head t <> PEnd
  | RNext => rt_head t <> PEnd
  | RDone => next_of s (rt_c t) <> PNil
  | RHead => True
  end.

Definition RInv (st : rstate) : Prop :=
  let '(s, ts) := st in
  exists l, HeadChain s l /\ NoDup l /\ r_head s <> PEnd /\
    (forall c, In c l -> c < length (r_next s)) /\
    (forall c, c < length (r_next s) -> sumn (own c) ts + inl c l = nz (next_of s c)) /\
    Forall (tok s) ts.

(* ---- list update lemmas ---- *)
Lemma rupd_length {A} (l : list A) i x : length (rupd l i x) = length l.
Proof. revert i; induction l as [|y l IH]; intros [|i]; cbn; auto. Qed.
Lemma nth_rupd_same {A} (l : list A) i x d : i < length l -> nth i (rupd l i x) d = x.
Proof. revert i; induction l as [|y l IH]; intros [|i] H; cbn in *; try lia; auto. apply IH; lia. Qed.
Lemma nth_rupd_other {A} (l : list A) i j x d : i <> j -> nth j (rupd l i x) d = nth j l d.
Proof. revert i j; induction l as [|y l IH]; intros [|i] [|j] H; cbn; auto; try lia. Qed.
Lemma sumn_rupd f l i t t' : nth_error l i = Some t -> sumn f (rupd l i t') + f t = sumn f l + f t'.
Proof.
  revert i; induction l as [|x l IH]; intros [|i] H; cbn in *; try discriminate.
  - injection H as ->. lia.
  - specialize (IH _ H). lia.
Qed.
Lemma Forall_rupd {A} (P : A -> Prop) l i x : Forall P l -> P x -> Forall P (rupd l i x).
Proof. revert i; induction l as [|y l IH]; intros [|i] H Hx; cbn; auto; inversion H; subst; constructor; auto. Qed.
Lemma nth_error_Forall {A} (P : A -> Prop) l i x : Forall P l -> nth_error l i = Some x -> P x.
Proof. intros F H. rewrite Forall_forall in F. apply F. eapply nth_error_In; eauto. Qed.
Lemma mem_In c l : mem c l = true <-> In c l.
Proof.
  induction l as [|y l IH]; cbn; [split; [discriminate|tauto]|].
  rewrite orb_true_iff, Nat.eqb_eq, IH. split; intros [H|H]; auto.
Qed.
Lemma inl_In c l : inl c l = 1 <-> In c l.
Proof. unfold inl. destruct (mem c l) eqn:E; [apply mem_In in E; tauto|]. split; [discriminate|]. intro H. apply mem_In in H. congruence. Qed.
Lemma inl_le c l : inl c l <= 1. Proof. unfold inl; destruct (mem c l); lia. Qed.
Lemma inl_cons c x l : inl c (x :: l) = if Nat.eqb c x then 1 else inl c l.
Proof. unfold inl. cbn. destruct (Nat.eqb c x); reflexivity. Qed.

Lemma chain_frame s p l c x :
  Chain s p l -> ~ In c l -> Chain (mkR (r_head s) (rupd (r_next s) c x)) p l.
Proof.
  intros H. induction H as [|c0 l0 H IH]; intros Hn; [constructor|].
  constructor. unfold next_of in *. cbn [r_next].
  rewrite nth_rupd_other by (intro E; apply Hn; left; auto).
  apply IH. intro; apply Hn; right; auto.
Qed.
Lemma chain_head s h p l : Chain s p l -> Chain (mkR h (r_next s)) p l.
Proof. intros H; induction H; constructor; auto. Qed.

Lemma own_other c t : rt_c t <> c -> own c t = 0.
Proof. intros H. unfold own. destruct (Nat.eqb_spec (rt_c t) c); [contradiction|]. rewrite andb_false_r. reflexivity. Qed.
Lemma own_same t : own (rt_c t) t = if owner t then 1 else 0.
Proof. unfold own. rewrite Nat.eqb_refl, andb_true_r. reflexivity. Qed.
