(* Proofs/ReportPrograms: approval is decided PER PROGRAM.  What the upload
   filter keeps of one program of a weekly report does not depend on the other
   programs of that report, nor on their order. *)
From Coq Require Import List ZArith NArith Bool Lia.
From Tele Require Import Lib.Bytes Lib.Str Lib.Assoc Model.Config Model.ApprovalSpec Model.Report
  Proofs.ConfigFacts Proofs.AggregateFacts Proofs.ReportFacts.
Import ListNotations.
Open Scope Z_scope.

Lemma filter_upload_app c x a b :
  filter_upload c x (a ++ b) = filter_upload c x a ++ filter_upload c x b.
Proof. unfold filter_upload. rewrite filter_app, map_app. reflexivity. Qed.

(* the filtered image of a program is the same wherever it stands and whatever surrounds it *)
Theorem upload_program_independent c x before p after :
  filter_upload c x (before ++ p :: after) =
  filter_upload c x before ++ filter_upload c x [p] ++ filter_upload c x after.
Proof. rewrite filter_upload_app. change (p :: after) with ([p] ++ after). rewrite filter_upload_app. reflexivity. Qed.

Lemma filter_upload_one c x p :
  filter_upload c x [p] = if build_ok c (fst p) then [trim_prog c x p] else [].
Proof. unfold filter_upload. cbn [filter]. destruct (build_ok c (fst p)); reflexivity. Qed.

(* the verdict on one stack / counter of one program: only the program's own
   name, the item's name and X enter *)
Theorem upload_item_verdict c x ps i cs0 ss0 k v :
  In (i, (cs0, ss0)) ps -> build_ok c i = true ->
  (In (k, v) cs0 -> keep_counter c x (id_program i) (k, v) = true ->
   exists cs ss, In (i, (cs, ss)) (filter_upload c x ps) /\ In (k, v) cs) /\
  (In (k, v) ss0 -> keep_stack c x (id_program i) (k, v) = true ->
   exists cs ss, In (i, (cs, ss)) (filter_upload c x ps) /\ In (k, v) ss).
Proof.
  intros Hin Hb. split; intros Hk Hkeep;
    exists (filter (keep_counter c x (id_program i)) cs0), (filter (keep_stack c x (id_program i)) ss0);
    (split; [apply in_filter_upload; exists cs0, ss0; auto | apply filter_In; auto]).
Qed.

(* order of the week's programs: permuting the report permutes the upload *)
Theorem upload_order_irrelevant c x p q :
  filter_upload c x [p; q] = filter_upload c x [p] ++ filter_upload c x [q] /\
  filter_upload c x [q; p] = filter_upload c x [q] ++ filter_upload c x [p].
Proof. split; apply (filter_upload_app c x [_] [_]). Qed.

(* which recorded values enter the sum of counter k of build i: exactly those
   of files whose five identity fields (Program path in full, Version,
   GoVersion, GOOS, GOARCH) equal i; a file of any other program - even one
   with the same base name, version and platform - contributes nothing *)
Theorem spec_entries_in files i k v :
  In v (spec_entries files i k) <-> exists f, In f files /\ f_ident f = i /\ In (k, v) (f_counts f).
Proof.
  unfold spec_entries. rewrite in_flat_map. split.
  - intros [f [Hf Hin]]. destruct (ident_eqb (f_ident f) i) eqn:E; [|destruct Hin].
    apply ident_eqb_eq in E. apply in_flat_map in Hin as [[k' v'] [Hk Hin]]. cbn [fst snd] in Hin.
    destruct (beq k' k) eqn:Ek; [|destruct Hin]. apply beq_eq in Ek. destruct Hin as [<-|[]]. subst k'.
    exists f. auto.
  - intros [f [Hf [Hi Hk]]]. exists f. split; [exact Hf|]. rewrite (proj2 (ident_eqb_eq _ _) Hi).
    apply in_flat_map. exists (k, v). split; [exact Hk|]. cbn [fst snd]. rewrite beq_refl. left. reflexivity.
Qed.

Theorem other_program_contributes_nothing files g i k :
  f_ident g <> i -> spec_entries (g :: files) i k = spec_entries files i k.
Proof.
  intro Hne. rewrite spec_entries_cons. destruct (ident_eqb (f_ident g) i) eqn:E; [|reflexivity].
  apply ident_eqb_eq in E. contradiction.
Qed.
