(* Proofs/DateInverse: civil_from_days inverts days_from_civil on valid dates
   (one 400-year era swept by vm_compute, lifted by periodicity). *)
From Coq Require Import List ZArith NArith Bool Lia.
From Tele Require Import Lib.Bytes Lib.Calendar Lib.Sweep Proofs.CalendarFacts.
Import ListNotations.
Open Scope Z_scope.

(* ---- civil_from_days inverts days_from_civil on valid dates ---- *)
Definition inv_ok (i : Z) : bool :=
  let y := i / 512 in let m := (i / 32) mod 16 in let d := i mod 32 in
  if valid_civil y m d then
    let '(y2, m2, d2) := civil_from_days (days_from_civil y m d) in
    (y2 =? y) && (m2 =? m) && (d2 =? d)
  else true.

(* indices 0 .. 204799 = 2^17 + 2^16 + 2^13 cover years 0..399 *)
Lemma inv_sweep :
  all_range 17 0 inv_ok && all_range 16 131072 inv_ok && all_range 13 196608 inv_ok = true.
Proof. vm_cast_no_check (eq_refl true). Qed.

Lemma inv_sweep_spec i : 0 <= i < 204800 -> inv_ok i = true.
Proof.
  intros H. pose proof inv_sweep as S.
  apply andb_true_iff in S as [S S3]. apply andb_true_iff in S as [S1 S2].
  destruct (Z_lt_ge_dec i 131072); [|destruct (Z_lt_ge_dec i 196608)].
  - apply (all_range_spec 17 0 _ S1). change (2 ^ Z.of_nat 17) with 131072. lia.
  - apply (all_range_spec 16 131072 _ S2). change (2 ^ Z.of_nat 16) with 65536. lia.
  - apply (all_range_spec 13 196608 _ S3). change (2 ^ Z.of_nat 13) with 8192. lia.
Qed.

Theorem civil_inverse y m d : valid_civil y m d = true ->
  civil_from_days (days_from_civil y m d) = (y, m, d).
Proof.
  intros V. pose proof (valid_civil_bounds _ _ _ V) as [Hm Hd].
  set (k := y / 400). set (y0 := y mod 400).
  assert (Hy : y = y0 + 400 * k) by (subst y0 k; pose proof (Z.div_mod y 400 ltac:(lia)); lia).
  assert (Hy0 : 0 <= y0 < 400) by (subst y0; apply Z.mod_pos_bound; lia).
  set (i := y0 * 512 + m * 32 + d).
  assert (Hi : 0 <= i < 204800) by (subst i; lia).
  pose proof (inv_sweep_spec i Hi) as S. unfold inv_ok in S.
  assert (E1 : i / 512 = y0) by (subst i; Z.div_mod_to_equations; lia).
  assert (E2 : (i / 32) mod 16 = m) by (subst i; Z.div_mod_to_equations; lia).
  assert (E3 : i mod 32 = d) by (subst i; Z.div_mod_to_equations; lia).
  rewrite E1, E2, E3 in S.
  assert (V0 : valid_civil y0 m d = true) by (rewrite Hy, valid_civil_period in V; exact V).
  rewrite V0 in S.
  rewrite Hy, days_period, civil_period.
  destruct (civil_from_days (days_from_civil y0 m d)) as [[y2 m2] d2].
  apply andb_true_iff in S as [S S3]. apply andb_true_iff in S as [S1 S2].
  apply Z.eqb_eq in S1, S2, S3. rewrite S1, S2, S3. reflexivity.
Qed.

