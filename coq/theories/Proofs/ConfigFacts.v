(* Proofs/ConfigFacts: what the lookup tables of Model/Config mean in terms of
   the configuration's lists (the documented semantics as Props), the
   specification of expand, and the characterisation of the shared rate table. *)
From Coq Require Import List NArith Bool Lia.
From Tele Require Import Lib.Bytes Lib.Str Model.Config Model.ApprovalSpec.
Import ListNotations.
Open Scope N_scope.

(* ---------------------------------------------------------------- documented semantics (Prop) *)

Definition counter_entry (u : upload_cfg) (prog k : bytes) (r : N) : Prop :=
  exists p c, In p (uc_programs u) /\ pc_name p = prog /\ In c (pc_counters p) /\
              In k (expand (cc_name c)) /\ cc_rate c = r.
Definition stack_entry (u : upload_cfg) (prog name : bytes) (r : N) : Prop :=
  exists p s, In p (uc_programs u) /\ pc_name p = prog /\ In s (pc_stacks p) /\
              cc_name s = name /\ cc_rate s = r.
Definition rate_entry (u : upload_cfg) (prog name : bytes) (r : N) : Prop :=
  counter_entry u prog name r \/ stack_entry u prog name r.
Definition approved_build (u : upload_cfg) (i : ident) : Prop :=
  In (id_goos i) (uc_goos u) /\ In (id_goarch i) (uc_goarch u) /\ In (id_goversion i) (uc_goversion u) /\
  exists p, In p (uc_programs u) /\ pc_name p = id_program i /\ In (id_version i) (pc_versions p).

(* every (program, name) has at most one configured rate *)
Definition cfg_rate_unambiguous (u : upload_cfg) : Prop :=
  forall prog name r1 r2, rate_entry u prog name r1 -> rate_entry u prog name r2 -> r1 = r2.

(* ---------------------------------------------------------------- expand *)

Lemma expand_plain name : ~ In ch_lbrace name -> expand name = [name].
Proof. intro H. unfold expand. rewrite (cut_byte_notfound _ _ H). reflexivity. Qed.

Lemma expand_braces p rest : ~ In ch_lbrace p ->
  expand (p ++ ch_lbrace :: rest) =
  map (fun b => p ++ b) (split_byte (trim_suffix rest [ch_rbrace]) ch_comma).
Proof. intro H. unfold expand. rewrite (cut_byte_app _ _ _ H). reflexivity. Qed.

(* the documented syntax: prefix{b1,...,bn} *)
Lemma expand_buckets p bs : ~ In ch_lbrace p -> bs <> [] ->
  (forall b, In b bs -> ~ In ch_comma b) ->
  expand (p ++ ch_lbrace :: join bs [ch_comma] ++ [ch_rbrace]) = map (fun b => p ++ b) bs.
Proof.
  intros Hp Hne Hc. rewrite (expand_braces _ _ Hp), trim_suffix_app, split_join by assumption.
  reflexivity.
Qed.

Lemma expand_spec p bs k : ~ In ch_lbrace p -> bs <> [] ->
  (forall b, In b bs -> ~ In ch_comma b) ->
  (In k (expand (p ++ ch_lbrace :: join bs [ch_comma] ++ [ch_rbrace])) <-> exists b, In b bs /\ k = p ++ b).
Proof.
  intros Hp Hne Hc. rewrite expand_buckets by assumption. rewrite in_map_iff.
  split; intros [b [H1 H2]]; exists b; split; auto.
Qed.

Lemma expand_nonempty name : expand name <> [].
Proof.
  unfold expand. destruct (cut_byte name ch_lbrace) as [[a b] [|]]; [|discriminate].
  destruct (split_byte (trim_suffix b [ch_rbrace]) ch_comma) eqn:E; [|discriminate].
  exfalso. eapply split_byte_nonempty; eauto.
Qed.

(* ---------------------------------------------------------------- tables *)

Section Tables.
  Variable u : upload_cfg.
  Let c := new_config u.

  Lemma has_goos_spec s : has_goos c s = true <-> In s (uc_goos u).
  Proof. apply memb_In. Qed.
  Lemma has_goarch_spec s : has_goarch c s = true <-> In s (uc_goarch u).
  Proof. apply memb_In. Qed.
  Lemma has_goversion_spec s : has_goversion c s = true <-> In s (uc_goversion u).
  Proof. apply memb_In. Qed.

  Lemma has_program_spec s : has_program c s = true <-> exists p, In p (uc_programs u) /\ pc_name p = s.
  Proof.
    unfold has_program. rewrite memb_In. subst c. cbn [new_config t_program]. rewrite in_map_iff.
    split; intros [p [H1 H2]]; exists p; auto.
  Qed.

  Lemma has_version_spec prog v : has_version c prog v = true <->
    exists p, In p (uc_programs u) /\ pc_name p = prog /\ In v (pc_versions p).
  Proof.
    unfold has_version. rewrite memk_In. subst c. cbn [new_config t_pgversion]. rewrite in_flat_map.
    split.
    - intros [p [Hp Hin]]. apply in_map_iff in Hin as [v' [He Hv]]. injection He as <- <-.
      exists p. auto.
    - intros [p [Hp [Hn Hv]]]. exists p. split; [exact Hp|]. apply in_map_iff. exists v. subst. auto.
  Qed.

  Lemma in_counter_keys p prog k : In (prog, k) (counter_keys p) <->
    pc_name p = prog /\ exists cc, In cc (pc_counters p) /\ In k (expand (cc_name cc)).
  Proof.
    unfold counter_keys. rewrite in_flat_map. split.
    - intros [cc [Hc Hin]]. apply in_map_iff in Hin as [e [He Hin]]. injection He as <- <-.
      split; [reflexivity|]. exists cc. auto.
    - intros [<- [cc [Hc Hin]]]. exists cc. split; [exact Hc|]. apply in_map_iff. exists k. auto.
  Qed.

  Lemma has_counter_spec prog k : has_counter c prog k = true <-> exists r, counter_entry u prog k r.
  Proof.
    unfold has_counter. rewrite memk_In. subst c. cbn [new_config t_pgcounter]. rewrite in_flat_map.
    split.
    - intros [p [Hp Hin]]. apply in_counter_keys in Hin as [Hn [cc [Hc He]]].
      exists (cc_rate cc), p, cc. auto.
    - intros [r [p [cc [Hp [Hn [Hc [He _]]]]]]]. exists p. split; [exact Hp|].
      apply in_counter_keys. split; [exact Hn|]. exists cc. auto.
  Qed.

  Lemma has_stack_spec prog name : has_stack c prog name = true <-> exists r, stack_entry u prog name r.
  Proof.
    unfold has_stack. rewrite memk_In. subst c. cbn [new_config t_pgstack]. rewrite in_flat_map.
    split.
    - intros [p [Hp Hin]]. unfold stack_keys in Hin. apply in_map_iff in Hin as [s [He Hs]].
      injection He as <- <-. exists (cc_rate s), p, s. auto.
    - intros [r [p [s [Hp [Hn [Hs [He _]]]]]]]. exists p. split; [exact Hp|].
      unfold stack_keys. apply in_map_iff. exists s. subst. auto.
  Qed.

  (* the writes into the shared rate map are exactly the configured
     (program, expanded counter name, rate) and (program, stack name, rate) *)
  Lemma in_rate_writes prog name r :
    In ((prog, name), r) (t_rate c) <-> rate_entry u prog name r.
  Proof.
    subst c. cbn [new_config t_rate]. rewrite in_flat_map. unfold rate_entry. split.
    - intros [p [Hp Hin]]. unfold rate_writes in Hin. apply in_app_iff in Hin as [Hin|Hin].
      + left. unfold counter_rate_writes in Hin. apply in_flat_map in Hin as [cc [Hc Hin]].
        apply in_map_iff in Hin as [e [He Hin]]. injection He as <- <- <-.
        exists p, cc. auto.
      + right. unfold stack_rate_writes in Hin. apply in_map_iff in Hin as [s [He Hs]].
        injection He as <- <- <-. exists p, s. auto.
    - intros [[p [cc [Hp [Hn [Hc [He Hr]]]]]] | [p [s [Hp [Hn [Hs [He Hr]]]]]]]; exists p; (split; [exact Hp|]);
        unfold rate_writes; apply in_app_iff.
      + left. unfold counter_rate_writes. apply in_flat_map. exists cc. split; [exact Hc|].
        apply in_map_iff. exists name. subst. auto.
      + right. unfold stack_rate_writes. apply in_map_iff. exists s. subst. auto.
  Qed.
End Tables.

(* a map read after writes returns one of the written values for that key *)
Definition lw_step (key : pgkey) (acc : N) (w : pgkey * N) : N :=
  if key_eqb (fst w) key then snd w else acc.

Lemma last_write_acc key writes : forall acc,
  fold_left (lw_step key) writes acc = acc /\ (forall r, ~ In (key, r) writes) \/
  In (key, fold_left (lw_step key) writes acc) writes.
Proof.
  induction writes as [|[k r] ws IH]; intro acc; cbn [fold_left].
  - left. split; [reflexivity | intros r []].
  - unfold lw_step at 2 4. cbn [fst snd]. destruct (key_eqb k key) eqn:E.
    + apply key_eqb_eq in E. subst k. destruct (IH r) as [[He Hn]|Hin].
      * right. rewrite He. left. reflexivity.
      * right. right. exact Hin.
    + destruct (IH acc) as [[He Hn]|Hin].
      * left. split; [exact He|]. intros r' [H|H]; [|exact (Hn r' H)].
        injection H as -> _. rewrite (proj2 (key_eqb_eq key key) eq_refl) in E. discriminate.
      * right. right. exact Hin.
Qed.

Lemma last_write_in key writes r0 : In (key, r0) writes -> In (key, last_write key writes) writes.
Proof.
  intro H. change (last_write key writes) with (fold_left (lw_step key) writes 0).
  destruct (last_write_acc key writes 0) as [[_ Hn]|Hin]; [|exact Hin].
  exfalso. exact (Hn r0 H).
Qed.

(* the table rate of a configured name is one of its configured rates ... *)
Lemma rate_is_entry u prog name r0 :
  rate_entry u prog name r0 -> rate_entry u prog name (rate (new_config u) prog name).
Proof.
  intro H. apply in_rate_writes. unfold rate. eapply last_write_in. apply in_rate_writes. exact H.
Qed.

(* ... hence THE configured rate when the configuration is unambiguous *)
Lemma rate_table_functional u prog name r :
  cfg_rate_unambiguous u -> rate_entry u prog name r -> rate (new_config u) prog name = r.
Proof.
  intros Hu H. apply (Hu prog name); [|exact H]. eapply rate_is_entry. exact H.
Qed.

(* ---------------------------------------------------------------- the boolean specification reflects the Props *)

Lemma in_counter_rates u prog k r : In r (counter_rates u prog k) <-> counter_entry u prog k r.
Proof.
  unfold counter_rates, counter_entry. rewrite in_flat_map. split.
  - intros [p [Hp Hin]]. destruct (beq (pc_name p) prog) eqn:E; [|contradiction].
    apply beq_eq in E. apply in_flat_map in Hin as [cc [Hc Hin]].
    destruct (memb k (expand (cc_name cc))) eqn:E2; [|contradiction].
    destruct Hin as [<-|[]]. apply memb_In in E2. exists p, cc. auto.
  - intros [p [cc [Hp [Hn [Hc [He Hr]]]]]]. exists p. split; [exact Hp|].
    rewrite (proj2 (beq_eq _ _) Hn). apply in_flat_map. exists cc. split; [exact Hc|].
    rewrite (proj2 (memb_In _ _) He). left. exact Hr.
Qed.

Lemma in_stack_rates u prog name r : In r (stack_rates u prog name) <-> stack_entry u prog name r.
Proof.
  unfold stack_rates, stack_entry. rewrite in_flat_map. split.
  - intros [p [Hp Hin]]. destruct (beq (pc_name p) prog) eqn:E; [|contradiction].
    apply beq_eq in E. apply in_flat_map in Hin as [s [Hs Hin]].
    destruct (beq (cc_name s) name) eqn:E2; [|contradiction].
    destruct Hin as [<-|[]]. apply beq_eq in E2. exists p, s. auto.
  - intros [p [s [Hp [Hn [Hs [He Hr]]]]]]. exists p. split; [exact Hp|].
    rewrite (proj2 (beq_eq _ _) Hn). apply in_flat_map. exists s. split; [exact Hs|].
    rewrite (proj2 (beq_eq _ _) He). left. exact Hr.
Qed.

Lemma nonempty_In {A} (l : list A) : nonempty l = true <-> exists x, In x l.
Proof.
  destruct l as [|a l]; cbn; split; try discriminate.
  - intros [x []].
  - intros _. exists a. left. reflexivity.
  - reflexivity.
Qed.

Lemma approved_counterb_spec u prog k :
  approved_counterb u prog k = true <-> exists r, counter_entry u prog k r.
Proof.
  unfold approved_counterb. rewrite nonempty_In. split; intros [r H]; exists r; apply in_counter_rates; exact H.
Qed.

Lemma approved_stackb_spec u prog k :
  approved_stackb u prog k = true <-> exists r, stack_entry u prog (stack_title k) r.
Proof.
  unfold approved_stackb. rewrite nonempty_In. split; intros [r H]; exists r; apply in_stack_rates; exact H.
Qed.

Lemma approved_buildb_spec u i : approved_buildb u i = true <-> approved_build u i.
Proof.
  unfold approved_buildb, approved_build. rewrite !andb_true_iff, !memb_In, existsb_exists.
  split.
  - intros [[[H1 H2] H3] [p [Hp Hl]]]. unfold lists_version in Hl.
    apply andb_true_iff in Hl as [Hn Hv]. apply beq_eq in Hn. apply memb_In in Hv.
    repeat split; auto. exists p. auto.
  - intros [H1 [H2 [H3 [p [Hp [Hn Hv]]]]]]. repeat split; auto. exists p. split; [exact Hp|].
    unfold lists_version. rewrite (proj2 (beq_eq _ _) Hn), (proj2 (memb_In _ _) Hv). reflexivity.
Qed.

(* the table-based build test of the three deciders is the documented one *)
Lemma has_tables_build u i :
  has_goos (new_config u) (id_goos i) && has_goarch (new_config u) (id_goarch i) &&
  has_goversion (new_config u) (id_goversion i) && has_program (new_config u) (id_program i) &&
  has_version (new_config u) (id_program i) (id_version i) = true <-> approved_build u i.
Proof.
  rewrite !andb_true_iff, has_goos_spec, has_goarch_spec, has_goversion_spec, has_program_spec, has_version_spec.
  unfold approved_build. split.
  - intros [[[[H1 H2] H3] _] H5]. auto.
  - intros [H1 [H2 [H3 [p [Hp [Hn Hv]]]]]]. repeat split; auto; exists p; auto.
Qed.

(* the class predicate of finding 13 implies agreement of all entries of that name *)
Lemma rates_agree_spec l : rates_agree l = true -> forall r1 r2, In r1 l -> In r2 l -> r1 = r2.
Proof.
  destruct l as [|r l]; [intros _ r1 r2 []|]. cbn [rates_agree]. intro H.
  assert (Ha : forall x, In x (r :: l) -> x = r).
  { intros x [<-|Hx]; [reflexivity|]. rewrite forallb_forall in H. apply H in Hx. apply N.eqb_eq in Hx. auto. }
  intros r1 r2 H1 H2. rewrite (Ha _ H1), (Ha _ H2). reflexivity.
Qed.

Lemma in_all_rates u prog name r : In r (all_rates u prog name) <-> rate_entry u prog name r.
Proof. unfold all_rates, rate_entry. rewrite in_app_iff, in_counter_rates, in_stack_rates. reflexivity. Qed.

Lemma name_unambiguous_rate u prog name r :
  name_unambiguousb u prog name = true -> rate_entry u prog name r -> rate (new_config u) prog name = r.
Proof.
  intros Hu H. apply (rates_agree_spec _ Hu); apply in_all_rates; [|exact H].
  eapply rate_is_entry. exact H.
Qed.

Lemma unambiguous_all u : (forall prog name, name_unambiguousb u prog name = true) -> cfg_rate_unambiguous u.
Proof.
  intros H prog name r1 r2 H1 H2. apply (rates_agree_spec _ (H prog name)); apply in_all_rates; assumption.
Qed.
