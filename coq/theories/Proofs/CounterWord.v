(* Field view of the counter state word (Model/CounterConc).  The numeric
   values come from Gen/Consts.v: if the Go constants change, the `_v`
   lemmas below stop compiling and every theorem depending on the layout is
   re-examined. *)
From Coq Require Import List ZArith NArith Bool Lia.
From Tele Require Import Gen.Consts Model.CounterConc.
Open Scope Z_scope.

Lemma HAVE_v : HAVE = 1073741824. Proof. reflexivity. Qed.
Lemma LOCKED_v : LOCKED = 1073741823. Proof. reflexivity. Qed.
Lemma XUNIT_v : XUNIT = 2147483648. Proof. reflexivity. Qed.
Lemma MAXEXTRA_v : MAXEXTRA = 8589934591. Proof. reflexivity. Qed.
Lemma W64_v : W64 = 18446744073709551616. Proof. reflexivity. Qed.
(* the layout facts the protocol relies on *)
Lemma layout_facts :
  LOCKED = HAVE - 1 /\ XUNIT = 2 * HAVE /\ (MAXEXTRA + 1) * XUNIT = W64 /\
  Z.of_N c_stateReaders = LOCKED /\ Z.of_N c_stateExtra = MAXEXTRA * XUNIT.
Proof. repeat split; reflexivity. Qed.

Definition b2z (b : bool) : Z := if b then 1 else 0.

Definition Fields (w r : Z) (h : bool) (e : Z) : Prop :=
  w = r + b2z h * HAVE + e * XUNIT /\ 0 <= r < HAVE /\ 0 <= e <= MAXEXTRA.

Ltac consts := rewrite ?HAVE_v, ?LOCKED_v, ?XUNIT_v, ?MAXEXTRA_v, ?W64_v in *.

Lemma fields_range w r h e : Fields w r h e -> 0 <= w < W64.
Proof. intros (E & Hr & He). subst w. consts. destruct h; cbn [b2z]; lia. Qed.

Lemma fields_readers w r h e : Fields w r h e -> w_readers w = r.
Proof.
  intros (E & Hr & He). subst w. unfold w_readers. consts.
  replace (r + b2z h * 1073741824 + e * 2147483648) with (r + (b2z h + 2 * e) * 1073741824) by ring.
  rewrite Z_mod_plus_full. apply Z.mod_small. lia.
Qed.

Lemma fields_div w r h e : Fields w r h e -> w / HAVE = b2z h + 2 * e.
Proof.
  intros (E & Hr & He). subst w. consts.
  replace (r + b2z h * 1073741824 + e * 2147483648) with (r + (b2z h + 2 * e) * 1073741824) by ring.
  rewrite Z_div_plus_full by lia. rewrite Z.div_small by lia. ring.
Qed.

Lemma fields_have w r h e : Fields w r h e -> w_have w = h.
Proof.
  intros F. unfold w_have. rewrite (fields_div _ _ _ _ F).
  rewrite Z.odd_add_mul_2. destruct h; reflexivity.
Qed.

Lemma fields_extra w r h e : Fields w r h e -> w_extra w = e.
Proof.
  intros (E & Hr & He). subst w. unfold w_extra. consts.
  replace (r + b2z h * 1073741824 + e * 2147483648) with ((r + b2z h * 1073741824) + e * 2147483648) by ring.
  rewrite Z_div_plus_full by lia. rewrite Z.div_small; [ring|]. destruct h; cbn [b2z]; lia.
Qed.

Lemma fields_locked w r h e : Fields w r h e -> w_locked w = (r =? LOCKED).
Proof. intros F. unfold w_locked. rewrite (fields_readers _ _ _ _ F). reflexivity. Qed.

Lemma fields_of w : 0 <= w < W64 -> Fields w (w_readers w) (w_have w) (w_extra w).
Proof.
  intros Hw. unfold Fields, w_readers, w_have, w_extra. consts.
  pose proof (Z.div_mod w 1073741824 ltac:(lia)) as D1.
  pose proof (Z.mod_pos_bound w 1073741824 ltac:(lia)) as B1.
  pose proof (Z.div_mod (w / 1073741824) 2 ltac:(lia)) as D2.
  pose proof (Z.mod_pos_bound (w / 1073741824) 2 ltac:(lia)) as B2.
  assert (E : w / 2147483648 = w / 1073741824 / 2).
  { rewrite Z.div_div by lia. reflexivity. }
  assert (O : b2z (Z.odd (w / 1073741824)) = (w / 1073741824) mod 2).
  { rewrite Zmod_odd. destruct (Z.odd (w / 1073741824)); reflexivity. }
  rewrite E. split; [rewrite O; lia|]. split; [lia|].
  split; [apply Z.div_pos; [apply Z.div_pos|]; lia|].
  assert (w / 1073741824 < 17179869184) by (apply Z.div_lt_upper_bound; lia).
  assert (w / 1073741824 / 2 < 8589934592) by (apply Z.div_lt_upper_bound; lia). lia.
Qed.

Lemma fields_inj w r h e r' h' e' : Fields w r h e -> Fields w r' h' e' -> r = r' /\ h = h' /\ e = e'.
Proof.
  intros F F'. rewrite <- (fields_readers _ _ _ _ F), <- (fields_have _ _ _ _ F), <- (fields_extra _ _ _ _ F).
  rewrite (fields_readers _ _ _ _ F'), (fields_have _ _ _ _ F'), (fields_extra _ _ _ _ F'). auto.
Qed.

(* ---- the operations in the field view ---- *)

Lemma f_inc w r h e : Fields w r h e -> r + 1 < HAVE -> Fields (w_inc_reader w) (r + 1) h e.
Proof.
  intros F Hr. pose proof (fields_range _ _ _ _ F) as Rg. destruct F as (E & Hr0 & He).
  unfold w_inc_reader. rewrite Z.mod_small.
  - split; [lia|]. split; lia.
  - subst w. consts. destruct h; cbn [b2z]; lia.
Qed.

Lemma f_dec w r h e : Fields w r h e -> 1 <= r -> Fields (w_dec_reader w) (r - 1) h e.
Proof.
  intros F Hr. pose proof (fields_range _ _ _ _ F) as Rg. destruct F as (E & Hr0 & He).
  unfold w_dec_reader. rewrite Z.mod_small.
  - split; [lia|]. split; lia.
  - subst w. consts. destruct h; cbn [b2z]; lia.
Qed.

Lemma f_set_locked w r h e : Fields w r h e -> Fields (w_set_locked w) LOCKED h e.
Proof.
  intros F. unfold w_set_locked. rewrite (fields_readers _ _ _ _ F). destruct F as (E & Hr0 & He).
  split; [rewrite E; ring|]. split; consts; lia.
Qed.

Lemma f_clear_locked w r h e : Fields w r h e -> Fields (w_clear_locked w) 0 h e.
Proof.
  intros F. unfold w_clear_locked. rewrite (fields_readers _ _ _ _ F). destruct F as (E & Hr0 & He).
  split; [rewrite E; ring|]. split; consts; lia.
Qed.

Lemma f_set_have w r h e : Fields w r h e -> Fields (w_set_have w) r true e.
Proof.
  intros F. unfold w_set_have. rewrite (fields_have _ _ _ _ F). destruct F as (E & Hr0 & He).
  destruct h; unfold Fields; cbn [b2z] in *; (split; [rewrite E; ring|split; consts; lia]).
Qed.

Lemma f_clear_have w r h e : Fields w r h e -> Fields (w_clear_have w) r false e.
Proof.
  intros F. unfold w_clear_have. rewrite (fields_have _ _ _ _ F). destruct F as (E & Hr0 & He).
  destruct h; unfold Fields; cbn [b2z] in *; (split; [rewrite E; ring|split; consts; lia]).
Qed.

Lemma f_clear_extra w r h e : Fields w r h e -> Fields (w_clear_extra w) r h 0.
Proof.
  intros (E & Hr0 & He). unfold w_clear_extra. subst w. consts.
  replace (r + b2z h * 1073741824 + e * 2147483648) with ((r + b2z h * 1073741824) + e * 2147483648) by ring.
  rewrite Z_mod_plus_full, Z.mod_small by (destruct h; cbn [b2z]; lia).
  unfold Fields. consts. split; [lia|]. split; lia.
Qed.

Definition extra_after (e n : Z) : Z :=
  if (W64 <=? e + n) || (MAXEXTRA <? e + n) then MAXEXTRA else e + n.

Lemma f_add_extra w r h e n : Fields w r h e -> 0 <= n ->
  Fields (w_add_extra w n) r h (extra_after e n) /\ add_extra_saturates w n = ((W64 <=? e + n) || (MAXEXTRA <? e + n)).
Proof.
  intros F Hn. unfold w_add_extra, add_extra_saturates, extra_after. rewrite (fields_extra _ _ _ _ F).
  pose proof (f_clear_extra _ _ _ _ F) as (E0 & Hr0 & _). destruct F as (E & _ & He).
  split; [|reflexivity].
  destruct ((W64 <=? e + n) || (MAXEXTRA <? e + n)) eqn:C.
  - split; [lia|]. split; lia.
  - apply orb_false_iff in C as [C1 C2]. apply Z.leb_gt in C1. apply Z.ltb_ge in C2.
    split; [lia|]. split; lia.
Qed.

Lemma extra_after_le e n : 0 <= e <= MAXEXTRA -> 0 <= n -> e <= extra_after e n <= e + n.
Proof.
  intros He Hn. unfold extra_after.
  destruct ((W64 <=? e + n) || (MAXEXTRA <? e + n)) eqn:C; [|lia].
  apply orb_true_iff in C as [C|C]; [apply Z.leb_le in C | apply Z.ltb_lt in C]; consts; lia.
Qed.

Lemma extra_after_exact e n : (W64 <=? e + n) || (MAXEXTRA <? e + n) = false -> extra_after e n = e + n.
Proof. intros C. unfold extra_after. rewrite C. reflexivity. Qed.

Lemma cell_add_bounds old n : 0 <= old < W64 -> 0 <= n ->
  old <= cell_add old n <= old + n /\ cell_add old n < W64 /\
  ((W64 <=? old + n) = false -> cell_add old n = old + n).
Proof.
  intros Ho Hn. unfold cell_add. destruct (Z.leb_spec W64 (old + n)); consts; repeat split; try lia; discriminate.
Qed.
