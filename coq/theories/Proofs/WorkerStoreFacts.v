(* Proofs/WorkerStoreFacts: sequences of operations on the worker's buckets
   (Model/WorkerStore): writing an object replaces it, so after ANY history a
   re-merge of a day leaves exactly the currently stored reports in the merged
   object, and the chart made from it counts exactly those. *)
From Coq Require Import List NArith ZArith Bool Permutation Sorted Lia.
From Tele Require Import Lib.Bytes Lib.Calendar Lib.Sort Gen.Consts Model.Worker Model.WorkerStore
  Proofs.WorkerFacts Proofs.WorkerSpec Proofs.WorkerChart Proofs.WorkerOracle.
Import ListNotations.

Lemma b_get_put {V} n (v : V) b n' :
  b_get (b_put n v b) n' = if beq n' n then Some v else b_get b n'.
Proof.
  induction b as [|[k v0] b IH]; cbn [b_put b_get]; [reflexivity|].
  bcase n k.
  - subst k. cbn [b_get]. destruct (beq n' n); reflexivity.
  - cbn [b_get]. rewrite IH. bcase n' k; [|reflexivity].
    subst k. assert (Hn : beq n' n = false) by (apply beq_neq; congruence). rewrite Hn. reflexivity.
Qed.

Lemma b_get_del {V} n (b : bucket V) : b_get (b_del n b) n = None.
Proof.
  unfold b_del. induction b as [|[k v0] b IH]; cbn [filter b_get fst]; [reflexivity|].
  bcase n k; cbn [negb]; [exact IH|]. cbn [b_get].
  assert (Hn : beq n k = false) by (apply beq_neq; exact E). rewrite Hn. exact IH.
Qed.

Section StoreFacts.
  Variable R : Type.
  Variable enc : R -> bytes.
  Variable dec : bytes -> option R.
  Variable proj : R -> report.
  Variable ord : bucket bytes -> bucket bytes.
  Hypothesis enc_no_nl : forall r, ~ In nl (enc r).
  Hypothesis enc_nonempty : forall r, enc r <> [].
  Hypothesis dec_enc : forall r, dec (enc r) = Some r.

  (* whatever the merged bucket held before (nothing, a longer object, a
     shorter one): after /merge/ the day's object is one line per currently
     stored report and reads back as exactly those *)
  Theorem remerge_reads_current st date rs :
    map dec (day_objects ord (ws_upload st) date) = map (@Some R) rs ->
    let '(st', resp) := do_merge R enc dec ord st date in
    resp = RespMerge (length rs) true /\
    ws_upload st' = ws_upload st /\ ws_chart st' = ws_chart st /\
    (forall n, n <> date ++ json_ext -> b_get (ws_merged st') n = b_get (ws_merged st) n) /\
    exists file, b_get (ws_merged st') (date ++ json_ext) = Some file /\
                 unframe file = map enc rs /\ read_merged R dec file = Some rs.
  Proof.
    intro H. unfold do_merge.
    destruct (merge_one_line_per_object R enc dec enc_no_nl enc_nonempty dec_enc _ _ H) as [file [Hm [Hu _]]].
    pose proof (read_all R enc dec enc_no_nl enc_nonempty dec_enc _ _ H) as Hr.
    rewrite Hm in *. cbn [fst] in Hr. cbn [ws_upload ws_chart ws_merged].
    assert (Hlen : length (day_objects ord (ws_upload st) date) = length rs).
    { rewrite <- (map_length dec), H, map_length. reflexivity. }
    rewrite Hlen. split; [reflexivity|]. split; [reflexivity|]. split; [reflexivity|]. split.
    - intros n Hn. rewrite b_get_put. assert (E : beq n (date ++ json_ext) = false) by (apply beq_neq; exact Hn).
      rewrite E. reflexivity.
    - exists file. rewrite b_get_put, beq_refl. auto.
  Qed.

  Variable it : iter.
  Variables lts ltg : bytes -> bytes -> bool.
  Variable cfg : config.

  (* ... and the chart of that day made afterwards counts exactly them,
     replacing whatever chart object was there *)
  Theorem chart_after_remerge st day rs :
    iter_ok it -> cfg_ok lts ltg cfg ->
    map dec (day_objects ord (ws_upload st) (fmt_date day)) = map (@Some R) rs ->
    let st1 := fst (do_merge R enc dec ord st (fmt_date day)) in
    exists cd,
      do_chart R dec proj it lts ltg cfg st1 day day =
        (mkWS (ws_upload st1) (ws_merged st1) (b_put (chart_object_name day day) cd (ws_chart st1)),
         RespChart (ChartOk (chart_object_name day day) cd)) /\
      cd_num cd = length rs /\
      chart_ok lts ltg cfg (fmt_date day) (fmt_date day) (map proj rs) cd = true.
  Proof.
    intros Hit Hcfg H. pose proof (remerge_reads_current st (fmt_date day) rs H) as Hm.
    destruct (do_merge R enc dec ord st (fmt_date day)) as [st1 resp]. cbn [fst].
    destruct Hm as [_ [_ [_ [_ [file [Hg [_ Hr]]]]]]].
    assert (Hread : read_state_day R dec proj st1 day = ROk (map proj rs)).
    { unfold read_state_day. rewrite Hg, Hr. reflexivity. }
    assert (Hn : Z.to_nat (day - day + 1) = 1%nat) by lia.
    destruct (handle_chart_total it lts ltg cfg (read_state_day R dec proj st1) day day Hit Hcfg (Z.le_refl _)) as [cd Hc].
    { rewrite Hn. intros i Hi. assert (i = 0%nat) by lia. subst i. rewrite Z.add_0_r. eauto. }
    exists cd. unfold do_chart. rewrite Hc. split; [reflexivity|].
    destruct (handle_chart_ok_spec it lts ltg cfg _ day day _ cd Hit Hcfg Hc) as [_ [_ [_ Hs]]].
    rewrite Hn in Hs. cbn [days_reports] in Hs. rewrite Hread in Hs. cbn [reps_of] in Hs. rewrite app_nil_r in Hs.
    split; [|apply chart_ok_iff; exact Hs].
    destruct Hs as [_ [_ [Hnum _]]]. rewrite Hnum, map_length. reflexivity.
  Qed.
End StoreFacts.

(* a concrete history: three reports stored and merged, one withdrawn and one
   re-stored shorter, merged again: the merged object is the two-line object,
   nothing of the longer first one survives (unary codec of WorkerFacts) *)
Definition ex_enc (n : nat) : bytes := repeat 65%N (S n).
Definition ex_dec (b : bytes) : option nat := Some (pred (length b)).
Definition ex_ops : list wop :=
  [ OpPut [100; 47; 97]%N (ex_enc 5); OpPut [100; 47; 98]%N (ex_enc 7); OpPut [100; 47; 99]%N (ex_enc 2);
    OpMerge [100%N];
    OpDel [100; 47; 97]%N; OpPut [100; 47; 98]%N (ex_enc 1);
    OpMerge [100%N] ].

Lemma example_remerge :
  let '(st, resps) := run_ops nat ex_enc ex_dec (fun _ => mkReport [] 0%Z []) (fun b => b) iter_id bltb bltb
                              (mkCfg [] [] [] []) ws_empty ex_ops in
  resps = [RespNone; RespNone; RespNone; RespMerge 3 true; RespNone; RespNone; RespMerge 2 true] /\
  b_get (ws_merged st) ([100%N] ++ json_ext) = Some (frame [ex_enc 1; ex_enc 2]).
Proof. vm_compute. split; reflexivity. Qed.
