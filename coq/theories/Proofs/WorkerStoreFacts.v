(* Proofs/WorkerStoreFacts: sequences of operations on the worker's buckets
   (Model/WorkerStore): writing an object replaces it, so after ANY history a
   re-merge of a day leaves exactly the currently stored reports in the merged
   object, and the chart made from it counts exactly those. *)
From Coq Require Import List NArith ZArith Bool Permutation Sorted Lia.
From Tele Require Import Lib.Bytes Lib.Calendar Lib.Sort Gen.Consts Model.Worker Model.WorkerStore
  Proofs.WorkerFacts Proofs.WorkerSpec Proofs.WorkerChart Proofs.WorkerOracle.
Import ListNotations.

Lemma b_get_put {V} n (v : V) b n' :
  b_get (b_put n v b) n' = if beq n' n then Some v else b_get b n'.
Proof.
  induction b as [|[k v0] b IH]; cbn [b_put b_get]; [reflexivity|].
  bcase n k.
  - subst k. cbn [b_get]. destruct (beq n' n); reflexivity.
  - cbn [b_get]. rewrite IH. bcase n' k; [|reflexivity].
    subst k. assert (Hn : beq n' n = false) by (apply beq_neq; congruence). rewrite Hn. reflexivity.
Qed.

Lemma b_get_del {V} n (b : bucket V) : b_get (b_del n b) n = None.
Proof.
  unfold b_del. induction b as [|[k v0] b IH]; cbn [filter b_get fst]; [reflexivity|].
  bcase n k; cbn [negb]; [exact IH|]. cbn [b_get].
  assert (Hn : beq n k = false) by (apply beq_neq; exact E). rewrite Hn. exact IH.
Qed.

(* the walk goes on past an unlistable directory: wherever the stray
   directories fall, the listing is that of the stored objects *)
Lemma walk_weave prefix : forall pos (fs : bucket bytes) (bs : list bytes),
  walk (weave pos (map (fun nv => UFile (fst nv) (snd nv)) fs) (map UBadDir bs)) prefix
  = filter (fun nv => has_prefix (fst nv) prefix) fs.
Proof.
  assert (Hfs : forall fs : bucket bytes,
             walk (map (fun nv => UFile (fst nv) (snd nv)) fs) prefix = filter (fun nv => has_prefix (fst nv) prefix) fs).
  { induction fs as [|[n d] fs IH]; [reflexivity|]. cbn [map walk filter fst snd]. rewrite IH. reflexivity. }
  assert (Hbs : forall bs, walk (map UBadDir bs) prefix = []).
  { induction bs as [|b bs IH]; [reflexivity | exact IH]. }
  assert (Happ : forall a b, walk (a ++ b) prefix = walk a prefix ++ walk b prefix).
  { induction a as [|[n d|n] a IH]; intro b; cbn [app walk]; [reflexivity| |apply IH].
    destruct (has_prefix n prefix); [cbn [app]; f_equal|]; apply IH. }
  induction pos as [|[|] pos IH]; intros fs bs; cbn [weave].
  - rewrite Happ, Hfs, Hbs, app_nil_r. reflexivity.
  - destruct bs as [|b bs]; cbn [map walk]; [apply (IH fs []) | apply IH].
  - destruct fs as [|[n d] fs]; cbn [map walk filter fst snd]; [apply (IH [] bs)|].
    rewrite (IH fs bs). reflexivity.
Qed.

Theorem listing_ignores_strays ord pos st date :
  day_objects ord pos st date = map snd (filter (fun nv => has_prefix (fst nv) date) (ord (ws_upload st))).
Proof. unfold day_objects, day_entries. rewrite walk_weave. reflexivity. Qed.

(* the mutated walk that stops at the first unlistable directory loses objects: the two differ *)
Fixpoint walk_aborting (es : list uentry) (prefix : bytes) : bucket bytes :=
  match es with
  | [] => []
  | UFile n d :: r => if has_prefix n prefix then (n, d) :: walk_aborting r prefix else walk_aborting r prefix
  | UBadDir _ :: _ => []
  end.
Lemma aborting_walk_differs :
  walk [UBadDir [33%N]; UFile [50%N] [65%N]] [50%N] = [([50%N], [65%N])] /\
  walk_aborting [UBadDir [33%N]; UFile [50%N] [65%N]] [50%N] = [].
Proof. split; reflexivity. Qed.

(* ------------------------------------------------------------------ *)
(* handleCopy: every object of every day of the range arrives *)

Lemma fold_put_preserve (l : bucket bytes) : forall (d : bucket bytes) n v,
  b_get d n = Some v -> (forall v', In (n, v') l -> v' = v) ->
  b_get (fold_left (fun d nv => b_put (fst nv) (snd nv) d) l d) n = Some v.
Proof.
  induction l as [|[n' v'] l IH]; intros d n v Hg Hl; cbn [fold_left]; [exact Hg|].
  apply IH; [|intros v0 H0; apply Hl; right; exact H0]. cbn [fst snd]. rewrite b_get_put.
  bcase n n'; [|exact Hg]. subst n'. f_equal. apply Hl. left. reflexivity.
Qed.

Lemma fold_put_in (l : bucket bytes) : forall (d : bucket bytes) n v,
  In (n, v) l -> (forall v', In (n, v') l -> v' = v) ->
  b_get (fold_left (fun d nv => b_put (fst nv) (snd nv) d) l d) n = Some v.
Proof.
  induction l as [|[n' v'] l IH]; intros d n v Hin Hl; [destruct Hin|]. cbn [fold_left fst snd].
  destruct Hin as [E|Hin].
  - injection E as -> ->. apply fold_put_preserve; [rewrite b_get_put, beq_refl; reflexivity|].
    intros v0 H0. apply Hl. right. exact H0.
  - apply IH; [exact Hin|]. intros v0 H0. apply Hl. right. exact H0.
Qed.

Section CopyFacts.
  Variable ord : bucket bytes -> bucket bytes.
  Hypothesis Hord : forall l, Permutation (ord l) l.
  Variable src : bucket bytes.
  Hypothesis Hnd : NoDup (map fst src).

  Lemma src_unique n v v' : In (n, v) src -> In (n, v') src -> v' = v.
  Proof.
    clear Hord. induction src as [|[n0 v0] l IH]; intros Hin Hin'; [destruct Hin|].
    cbn [map fst] in Hnd. inversion Hnd as [|? ? Hn Hnd']; subst.
    destruct Hin as [E|Hin], Hin' as [E'|Hin'].
    - congruence.
    - injection E as -> ->. exfalso. apply Hn. apply in_map_iff. exists (n, v'). auto.
    - injection E' as -> ->. exfalso. apply Hn. apply in_map_iff. exists (n, v). auto.
    - apply IH; assumption.
  Qed.

  Lemma day_list_unique n v dd v' : In (n, v) src ->
    In (n, v') (ord (filter (fun nv : bytes * bytes => has_prefix (fst nv) (fmt_date dd)) src)) -> v' = v.
  Proof.
    intros Hin H. apply (Permutation_in _ (Hord _)) in H. apply filter_In in H as [H _].
    eapply src_unique; eauto.
  Qed.

  Lemma copy_days_preserve n v (Hin : In (n, v) src) : forall days dst,
    b_get dst n = Some v -> b_get (fold_left (copy_day ord src) days dst) n = Some v.
  Proof.
    induction days as [|dd days IH]; intros dst Hg; cbn [fold_left]; [exact Hg|].
    apply IH. unfold copy_day. apply fold_put_preserve; [exact Hg|]. intros v'. apply day_list_unique. exact Hin.
  Qed.

  Lemma copy_days_covers n v day (Hin : In (n, v) src) (Hpre : has_prefix n (fmt_date day) = true) :
    forall days dst, In day days -> b_get (fold_left (copy_day ord src) days dst) n = Some v.
  Proof.
    induction days as [|dd days IH]; intros dst Hd; [destruct Hd|]. cbn [fold_left].
    destruct Hd as [->|Hd]; [|apply IH; exact Hd].
    apply copy_days_preserve; [exact Hin|]. unfold copy_day. apply fold_put_in.
    - apply (Permutation_in _ (Permutation_sym (Hord _))). apply filter_In. split; [exact Hin | exact Hpre].
    - intros v'. apply day_list_unique. exact Hin.
  Qed.

  (* the range is every day from start to end inclusive, whatever years it spans *)
  Lemma range_days_in start end_ day : In day (range_days start end_) <-> (start <= day <= end_)%Z.
  Proof.
    unfold range_days. rewrite in_map_iff. split.
    - intros [i [<- Hi]]. apply in_seq in Hi. lia.
    - intro H. exists (Z.to_nat (day - start)). split; [lia|]. apply in_seq. lia.
  Qed.

  Theorem copy_covers_range dst start end_ day n v :
    (start <= day <= end_)%Z -> In (n, v) src -> has_prefix n (fmt_date day) = true ->
    b_get (copy_range ord src dst start end_) n = Some v.
  Proof.
    intros Hday Hin Hpre. unfold copy_range. apply (copy_days_covers n v day Hin Hpre).
    apply range_days_in. exact Hday.
  Qed.
End CopyFacts.

(* ------------------------------------------------------------------ *)
(* descriptors: a merge needs one reader at a time, whatever the number of
   stored reports *)

Section FdFacts.
  Variable R : Type.
  Variable enc : R -> bytes.
  Variable dec : bytes -> option R.

  Theorem merge_fd_any_number free objs :
    (1 <= free)%nat -> merge_fd R enc dec free objs = merge R enc dec objs.
  Proof.
    intro Hf. unfold merge_fd, merge.
    assert (E : merge_lines_fd R enc dec free objs = merge_lines R enc dec objs).
    { destruct free as [|f]; [lia|]. induction objs as [|o objs IH]; cbn [merge_lines_fd merge_lines]; [reflexivity|].
      destruct (dec o); [|reflexivity]. rewrite IH. reflexivity. }
    rewrite E. reflexivity.
  Qed.

  Lemma open_peak_merge objs : forall peak,
    open_peak (merge_events R dec objs) 0 peak = (Nat.max peak (if is_nil objs then 0 else 1), 0)%nat.
  Proof.
    induction objs as [|o objs IH]; intro peak; cbn [merge_events is_nil].
    - cbn [open_peak]. rewrite Nat.max_0_r. reflexivity.
    - destruct (dec o).
      + cbn [open_peak Nat.pred]. rewrite IH. f_equal. destruct objs; cbn [is_nil]; lia.
      + cbn [open_peak Nat.pred]. reflexivity.
  Qed.

  (* at most one upload reader is open at any time and none when the handler returns *)
  Theorem merge_one_reader_at_a_time objs :
    open_peak (merge_events R dec objs) 0 0 = ((if is_nil objs then 0 else 1)%nat, 0%nat).
  Proof. rewrite open_peak_merge. reflexivity. Qed.
End FdFacts.

(* ------------------------------------------------------------------ *)
(* write / list coherence over histories: what Objects(prefix) lists is
   exactly what was written and not withdrawn, under that prefix *)

Lemma b_put_keys {V} n (v : V) b : forall k, In k (map fst (b_put n v b)) <-> k = n \/ In k (map fst b).
Proof.
  induction b as [|[k0 v0] b IH]; intro k; cbn [b_put map fst In].
  - split; [intros [<-|[]]; auto | intros [->|[]]; auto].
  - bcase n k0.
    + subst k0. cbn [map fst In]. split; [intros [<-|?]; auto | intros [->|[<-|?]]; auto].
    + cbn [map fst In]. rewrite IH. split; [intros [?|[?|?]]; auto | intros [?|[?|?]]; auto].
Qed.

Lemma b_put_nodup {V} n (v : V) b : NoDup (map fst b) -> NoDup (map fst (b_put n v b)).
Proof.
  induction b as [|[k0 v0] b IH]; intro H; cbn [b_put map fst].
  - constructor; [intros [] | constructor].
  - inversion H as [|? ? Hn Hb]; subst. bcase n k0.
    + subst k0. cbn [map fst]. constructor; assumption.
    + cbn [map fst]. constructor; [|apply IH; exact Hb].
      intro Hin. apply b_put_keys in Hin as [->|Hin]; [congruence | contradiction].
Qed.

Lemma b_get_in {V} (b : bucket V) : NoDup (map fst b) -> forall n v, In (n, v) b <-> b_get b n = Some v.
Proof.
  induction b as [|[k0 v0] b IH]; intros H n v; cbn [b_get In].
  - split; [intros [] | discriminate].
  - inversion H as [|? ? Hn Hb]; subst. cbn [fst] in Hn. bcase n k0.
    + subst k0. split.
      * intros [E'|Hin]; [injection E' as ->; reflexivity|].
        exfalso. apply Hn. apply in_map_iff. exists (n, v). split; [reflexivity | exact Hin].
      * intro E'. injection E' as ->. left. reflexivity.
    + rewrite <- (IH Hb). split; [intros [E'|?]; [injection E' as -> ->; congruence | assumption] | auto].
Qed.

Section Coherence.
  Variable R : Type.
  Variable enc : R -> bytes.
  Variable dec : bytes -> option R.
  Variable proj : R -> report.
  Variable ord : bucket bytes -> bucket bytes.
  Hypothesis Hord : forall l, Permutation (ord l) l.
  Variable pos : list bool.
  Variable it : iter.
  Variables lts ltg : bytes -> bytes -> bool.
  Variable cfg : config.

  Lemma step_upload_nodup st o :
    NoDup (map fst (ws_upload st)) ->
    NoDup (map fst (ws_upload (fst (step R enc dec proj ord pos it lts ltg cfg st o)))).
  Proof.
    intro H. destruct o as [n d|n|n|k|date|s e|s e fd k]; cbn [step fst ws_upload]; try exact H.
    - apply b_put_nodup. exact H.
    - unfold b_del. apply NoDup_map_filter. exact H.
    - unfold do_merge. destruct (merge R enc dec (day_objects ord pos st date)) as [[file count] ok]. exact H.
    - unfold do_chart. destruct (handle_chart it lts ltg cfg (read_state_day R dec proj st) s e); exact H.
    - unfold do_chart_fault.
      destruct (handle_chart_fault it lts ltg (Some (fd, k)) cfg (read_state_day R dec proj st) s e); exact H.
  Qed.

  (* a /chart/ request hit by a read fault on a day of the range whose merged
     object exists fails and leaves every bucket, the chart object included, as it was *)
  Theorem chart_fault_leaves_state st s e fd k :
    (s <= fd <= e)%Z -> read_state_day R dec proj st fd <> RNotFound ->
    exists r, step R enc dec proj ord pos it lts ltg cfg st (OpChartFault s e fd k) = (st, RespChart r) /\
              forall name cd, r <> ChartOk name cd.
  Proof.
    intros Hfd Hnf. cbn [step]. unfold do_chart_fault.
    destruct (chart_read_fault_is_error it lts ltg cfg (read_state_day R dec proj st) s e (Some (fd, k))) as [_ Hf].
    specialize (Hf fd k eq_refl Hfd Hnf).
    destruct (handle_chart_fault it lts ltg (Some (fd, k)) cfg (read_state_day R dec proj st) s e) as [name cd| | | |] eqn:E.
    - exfalso. exact (Hf name cd eq_refl).
    - eexists. split; [reflexivity | discriminate].
    - eexists. split; [reflexivity | discriminate].
    - eexists. split; [reflexivity | discriminate].
    - eexists. split; [reflexivity | discriminate].
  Qed.

  Lemma run_ops_upload_nodup ops : forall st,
    NoDup (map fst (ws_upload st)) ->
    NoDup (map fst (ws_upload (fst (run_ops R enc dec proj ord pos it lts ltg cfg st ops)))).
  Proof.
    induction ops as [|o ops IH]; intros st H; cbn [run_ops]; [exact H|].
    pose proof (step_upload_nodup st o H) as H1.
    destruct (step R enc dec proj ord pos it lts ltg cfg st o) as [st1 r]. cbn [fst] in H1.
    specialize (IH st1 H1).
    destruct (run_ops R enc dec proj ord pos it lts ltg cfg st1 ops) as [st2 rs]. exact IH.
  Qed.

  (* after any history from the empty buckets -- uploads, withdrawals, stray
     directories, bucket directories moved behind symbolic links, merges,
     charts -- the listing for a day is exactly the objects currently stored
     under that prefix, each with its current content *)
  Theorem listing_is_what_was_written ops date n d :
    let st := fst (run_ops R enc dec proj ord pos it lts ltg cfg ws_empty ops) in
    In (n, d) (walk (day_entries ord pos st) date) <->
    b_get (ws_upload st) n = Some d /\ has_prefix n date = true.
  Proof.
    cbv zeta. set (st := fst (run_ops R enc dec proj ord pos it lts ltg cfg ws_empty ops)).
    assert (Hnd : NoDup (map fst (ws_upload st))) by (apply run_ops_upload_nodup; constructor).
    unfold day_entries. rewrite walk_weave, filter_In. cbn [fst].
    rewrite <- (b_get_in _ Hnd). split; intros [H1 H2]; (split; [|exact H2]).
    - apply (Permutation_in _ (Hord _)). exact H1.
    - apply (Permutation_in _ (Permutation_sym (Hord _))). exact H1.
  Qed.
End Coherence.

Section StoreFacts.
  Variable R : Type.
  Variable enc : R -> bytes.
  Variable dec : bytes -> option R.
  Variable proj : R -> report.
  Variable ord : bucket bytes -> bucket bytes.
  Variable pos : list bool.
  Hypothesis enc_no_nl : forall r, ~ In nl (enc r).
  Hypothesis enc_nonempty : forall r, enc r <> [].
  Hypothesis dec_enc : forall r, dec (enc r) = Some r.

  (* whatever the merged bucket held before (nothing, a longer object, a
     shorter one): after /merge/ the day's object is one line per currently
     stored report and reads back as exactly those *)
  Theorem remerge_reads_current st date rs :
    map dec (day_objects ord pos st date) = map (@Some R) rs ->
    let '(st', resp) := do_merge R enc dec ord pos st date in
    resp = RespMerge (length rs) true /\
    ws_upload st' = ws_upload st /\ ws_stray st' = ws_stray st /\ ws_chart st' = ws_chart st /\
    (forall n, n <> date ++ json_ext -> b_get (ws_merged st') n = b_get (ws_merged st) n) /\
    exists file, b_get (ws_merged st') (date ++ json_ext) = Some file /\
                 unframe file = map enc rs /\ read_merged R dec file = Some rs.
  Proof.
    intro H. unfold do_merge.
    destruct (merge_one_line_per_object R enc dec enc_no_nl enc_nonempty dec_enc _ _ H) as [file [Hm [Hu _]]].
    pose proof (read_all R enc dec enc_no_nl enc_nonempty dec_enc _ _ H) as Hr.
    rewrite Hm in *. cbn [fst] in Hr. cbn [ws_upload ws_stray ws_chart ws_merged].
    assert (Hlen : length (day_objects ord pos st date) = length rs).
    { rewrite <- (map_length dec), H, map_length. reflexivity. }
    rewrite Hlen. split; [reflexivity|]. split; [reflexivity|]. split; [reflexivity|]. split; [reflexivity|]. split.
    - intros n Hn. rewrite b_get_put. assert (E : beq n (date ++ json_ext) = false) by (apply beq_neq; exact Hn).
      rewrite E. reflexivity.
    - exists file. rewrite b_get_put, beq_refl. auto.
  Qed.

  Variable it : iter.
  Variables lts ltg : bytes -> bytes -> bool.
  Variable cfg : config.

  (* ... and the chart of that day made afterwards counts exactly them,
     replacing whatever chart object was there *)
  Theorem chart_after_remerge st day rs :
    iter_ok it -> cfg_ok lts ltg cfg ->
    map dec (day_objects ord pos st (fmt_date day)) = map (@Some R) rs ->
    let st1 := fst (do_merge R enc dec ord pos st (fmt_date day)) in
    exists cd,
      do_chart R dec proj it lts ltg cfg st1 day day =
        (mkWS (ws_upload st1) (ws_stray st1) (ws_merged st1) (b_put (chart_object_name day day) cd (ws_chart st1)),
         RespChart (ChartOk (chart_object_name day day) cd)) /\
      cd_num cd = length rs /\
      chart_ok lts ltg cfg (fmt_date day) (fmt_date day) (map proj rs) cd = true.
  Proof.
    intros Hit Hcfg H. pose proof (remerge_reads_current st (fmt_date day) rs H) as Hm.
    destruct (do_merge R enc dec ord pos st (fmt_date day)) as [st1 resp]. cbn [fst].
    destruct Hm as [_ [_ [_ [_ [_ [file [Hg [_ Hr]]]]]]]].
    assert (Hread : read_state_day R dec proj st1 day = ROk (map proj rs)).
    { unfold read_state_day. rewrite Hg, Hr. reflexivity. }
    assert (Hn : Z.to_nat (day - day + 1) = 1%nat) by lia.
    destruct (handle_chart_total it lts ltg cfg (read_state_day R dec proj st1) day day Hit Hcfg (Z.le_refl _)) as [cd Hc].
    { rewrite Hn. intros i Hi. assert (i = 0%nat) by lia. subst i. rewrite Z.add_0_r. eauto. }
    exists cd. unfold do_chart. rewrite Hc. split; [reflexivity|].
    destruct (handle_chart_ok_spec it lts ltg cfg _ day day _ cd Hit Hcfg Hc) as [_ [_ [_ Hs]]].
    rewrite Hn in Hs. cbn [days_reports] in Hs. rewrite Hread in Hs. cbn [reps_of] in Hs. rewrite app_nil_r in Hs.
    split; [|apply chart_ok_iff; exact Hs].
    destruct Hs as [_ [_ [Hnum _]]]. rewrite Hnum, map_length. reflexivity.
  Qed.
End StoreFacts.

(* a concrete history: three reports stored and merged, one withdrawn, one
   re-stored shorter, an unlistable directory met first by the walk, merged again: the merged object is the two-line object,
   nothing of the longer first one survives (unary codec of WorkerFacts) *)
Definition ex_enc (n : nat) : bytes := repeat 65%N (S n).
Definition ex_dec (b : bytes) : option nat := Some (pred (length b)).
Definition ex_ops : list wop :=
  [ OpPut [100; 47; 97]%N (ex_enc 5); OpPut [100; 47; 98]%N (ex_enc 7); OpPut [100; 47; 99]%N (ex_enc 2);
    OpMerge [100%N];
    OpDel [100; 47; 97]%N; OpPut [100; 47; 98]%N (ex_enc 1); OpStray [33; 255]%N;
    OpMerge [100%N] ].

Lemma example_remerge :
  let '(st, resps) := run_ops nat ex_enc ex_dec (fun _ => mkReport [] 0%Z []) (fun b => b) [true] iter_id bltb bltb
                              (mkCfg [] [] [] []) ws_empty ex_ops in
  resps = [RespNone; RespNone; RespNone; RespMerge 3 true; RespNone; RespNone; RespNone; RespMerge 2 true] /\
  b_get (ws_merged st) ([100%N] ++ json_ext) = Some (frame [ex_enc 1; ex_enc 2]).
Proof. vm_compute. split; reflexivity. Qed.
