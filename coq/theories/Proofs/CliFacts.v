(* Proofs/CliFacts: lemmas about Model/Cli (gotelemetry on/local/off/clean). *)
From Coq Require Import List ZArith NArith Bool Lia String.
From Tele Require Import Lib.Bytes Lib.Calendar Gen.Consts Model.Cli Proofs.CalendarFacts.
Import ListNotations.
Open Scope N_scope.

(* ------------------------------------------------ induction on trees *)

Section NodeInd.
  Variable P : node -> Prop.
  Hypothesis HF : forall d, P (File d).
  Hypothesis HD : forall es, Forall (fun e => P (snd e)) es -> P (Dir es).
  Fixpoint node_ind' (n : node) : P n :=
    match n with
    | File d => HF d
    | Dir es =>
        HD es ((fix go (l : dirents) : Forall (fun e => P (snd e)) l :=
                  match l with
                  | [] => Forall_nil _
                  | (k, v) :: r => Forall_cons (k, v) (node_ind' v) (go r)
                  end) es)
    end.
End NodeInd.

Lemma node_eqb_eq : forall a b, node_eqb a b = true <-> a = b.
Proof.
  induction a as [d | es IH] using node_ind'; intros [d' | es']; cbn [node_eqb]; try (split; discriminate).
  - rewrite beq_eq. split; [intros -> | intros [= ->]]; reflexivity.
  - revert es'. induction es as [|[k v] r IHr]; intros [|[k' v'] r'].
    + split; reflexivity.
    + split; discriminate.
    + split; discriminate.
    + inversion IH as [|? ? Hv Hr]; subst. cbn [snd] in Hv.
      rewrite !andb_true_iff, beq_eq, Hv, (IHr Hr r').
      split.
      * intros [[-> ->] [= ->]]. reflexivity.
      * intros [= -> -> ->]. repeat split; reflexivity.
Qed.

Lemma node_eqb_refl a : node_eqb a a = true.
Proof. apply node_eqb_eq. reflexivity. Qed.

Lemma entry_eqb_eq e1 e2 : entry_eqb e1 e2 = true <-> e1 = e2.
Proof.
  unfold entry_eqb. rewrite andb_true_iff, beq_eq, node_eqb_eq.
  destruct e1, e2; cbn [fst snd]. split; [intros [-> ->] | intros [= -> ->]]; auto.
Qed.

Lemma mem_entry_In e es : mem_entry e es = true <-> In e es.
Proof.
  unfold mem_entry. rewrite existsb_exists. split.
  - intros [x [Hin He]]. apply entry_eqb_eq in He. subst. exact Hin.
  - intros Hin. exists e. split; [exact Hin | apply entry_eqb_eq; reflexivity].
Qed.

Lemma tree_eqb_eq a b : tree_eqb a b = true <-> a = b.
Proof.
  destruct a, b; cbn [tree_eqb]; try (split; discriminate); [|split; reflexivity].
  rewrite node_eqb_eq. split; [intros [= ->] | intros [= ->]]; reflexivity.
Qed.

(* ------------------------------------------------------- assoc facts *)

Lemma assoc_In k es n : assoc k es = Some n -> In (k, n) es.
Proof.
  induction es as [|[k' v] r IH]; cbn [assoc]; [discriminate|].
  destruct (beq k' k) eqn:E.
  - intros [= ->]. apply beq_eq in E. subst. left. reflexivity.
  - intros H. right. auto.
Qed.

Lemma assoc_None_notin k es : assoc k es = None -> forall n, ~ In (k, n) es.
Proof.
  induction es as [|[k' v] r IH]; cbn [assoc]; intros H n; [intros []|].
  destruct (beq k' k) eqn:E; [discriminate|].
  intros [[= -> ->] | Hin]; [rewrite beq_refl in E; discriminate | exact (IH H n Hin)].
Qed.

Lemma In_assoc_nodup k n es : NoDup (map fst es) -> In (k, n) es -> assoc k es = Some n.
Proof.
  induction es as [|[k' v] r IH]; cbn [map fst assoc]; intros ND Hin; [destruct Hin|].
  inversion ND as [|? ? Hnot ND']; subst.
  destruct Hin as [[= -> ->] | Hin].
  - rewrite beq_refl. reflexivity.
  - destruct (beq k' k) eqn:E.
    + apply beq_eq in E. subst. exfalso. apply Hnot. apply (in_map fst) in Hin. exact Hin.
    + auto.
Qed.

(* ------------------------------------------------------------- clean *)

(* the entries of a cleaned data directory are exactly the entries that were
   there and are not (selected by name and removable); nodes are compared with
   their whole contents *)
Lemma clean_dir_In sufs es e :
  In e (clean_dir sufs es) <-> In e es /\ cli_doomed sufs e = false.
Proof.
  unfold clean_dir. rewrite filter_In, negb_true_iff. reflexivity.
Qed.

Lemma clean_dir_nodup sufs es : NoDup (map fst es) -> NoDup (map fst (clean_dir sufs es)).
Proof.
  induction es as [|e r IH]; cbn [clean_dir filter map]; intros ND; [constructor|].
  inversion ND as [|? ? Hnot ND']; subst.
  destruct (negb (cli_doomed sufs e)); cbn [map]; [constructor|]; auto.
  intros Hin. apply Hnot. apply in_map_iff in Hin as [x [Hx Hin]].
  apply in_map_iff. exists x. split; [exact Hx|]. apply filter_In in Hin. tauto.
Qed.

Lemma assoc_clean_dir sufs es k : NoDup (map fst es) ->
  assoc k (clean_dir sufs es) =
  match assoc k es with
  | Some n => if cli_doomed sufs (k, n) then None else Some n
  | None => None
  end.
Proof.
  intros ND. destruct (assoc k es) as [n|] eqn:A.
  - destruct (cli_doomed sufs (k, n)) eqn:D.
    + destruct (assoc k (clean_dir sufs es)) as [n'|] eqn:A'; [|reflexivity].
      apply assoc_In in A'. apply clean_dir_In in A' as [Hin D'].
      apply (In_assoc_nodup _ _ _ ND) in Hin. congruence.
    + apply In_assoc_nodup; [apply clean_dir_nodup; exact ND|].
      apply clean_dir_In. split; [apply assoc_In; exact A | exact D].
  - destruct (assoc k (clean_dir sufs es)) as [n'|] eqn:A'; [|reflexivity].
    apply assoc_In in A'. apply clean_dir_In in A' as [Hin _].
    exfalso. exact (assoc_None_notin _ _ A _ Hin).
Qed.

(* whatever is still found under a selected name cannot be removed
   (a directory that has entries); no uniqueness assumption *)
Lemma assoc_clean_dir_left sufs es k n :
  assoc k (clean_dir sufs es) = Some n -> has_any_suffix k sufs = true -> removable n = false.
Proof.
  intros A S. apply assoc_In in A. apply clean_dir_In in A as [_ D].
  unfold cli_doomed in D. cbn [fst snd] in D. rewrite S in D. exact D.
Qed.

Lemma assoc_clean_sub name sufs es a :
  assoc a (clean_sub name sufs es) =
  if beq a name
  then match assoc a es with
       | Some (Dir sub) => Some (Dir (clean_dir sufs sub))
       | o => o
       end
  else assoc a es.
Proof.
  induction es as [|[k v] r IH]; cbn [clean_sub map assoc fst snd].
  - destruct (beq a name); reflexivity.
  - fold (clean_sub name sufs r).
    destruct (beq k name) eqn:Ekn.
    + apply beq_eq in Ekn. subst k.
      destruct v as [d | sub]; cbn [assoc fst snd]; destruct (beq name a) eqn:Ea.
      * apply beq_eq in Ea. subst a. rewrite beq_refl. reflexivity.
      * exact IH.
      * apply beq_eq in Ea. subst a. rewrite beq_refl. reflexivity.
      * exact IH.
    + cbn [assoc]. destruct (beq k a) eqn:Ea.
      * apply beq_eq in Ea. subst a. rewrite Ekn. reflexivity.
      * exact IH.
Qed.

Lemma names_distinct :
  beq n_local n_upload = false /\ beq n_upload n_local = false /\
  beq n_mode n_local = false /\ beq n_mode n_upload = false /\
  beq n_local n_mode = false /\ beq n_upload n_mode = false.
Proof. repeat split; vm_compute; reflexivity. Qed.

Lemma data_dir_sufs_cases d sufs : data_dir_sufs d = Some sufs ->
  (d = n_local /\ sufs = cli_local_sufs) \/ (d = n_upload /\ sufs = cli_upload_sufs).
Proof.
  unfold data_dir_sufs. destruct (beq d n_local) eqn:E1.
  - apply beq_eq in E1. intros [= <-]. left. auto.
  - destruct (beq d n_upload) eqn:E2; [|discriminate].
    apply beq_eq in E2. intros [= <-]. right. auto.
Qed.

(* first level of the cleaned tree *)
Lemma assoc_clean_root es a :
  assoc a (clean_sub n_upload cli_upload_sufs (clean_sub n_local cli_local_sufs es)) =
  match data_dir_sufs a, assoc a es with
  | Some sufs, Some (Dir sub) => Some (Dir (clean_dir sufs sub))
  | _, o => o
  end.
Proof.
  rewrite !assoc_clean_sub. unfold data_dir_sufs.
  destruct names_distinct as [LU [UL _]].
  destruct (beq a n_local) eqn:E1.
  - apply beq_eq in E1. subst a. rewrite LU.
    destruct (assoc n_local es) as [[d|sub]|]; reflexivity.
  - destruct (beq a n_upload) eqn:E2.
    + destruct (assoc a es) as [[d|sub]|]; reflexivity.
    + destruct (assoc a es) as [[d|sub]|]; reflexivity.
Qed.

(* shallow observation of a path: a file with its bytes, or "a directory" *)
Inductive obs := OFile (d : bytes) | ODir.
Definition shallow (n : node) : obs := match n with File d => OFile d | Dir _ => ODir end.
Definition observe (p : list bytes) (t : tree) : option obs := option_map shallow (lookup p t).

(* the paths `clean` is meant to delete: <data dir>/<name> with a selected
   name, being a file or an empty directory *)
Definition cli_targetb (t : tree) (p : list bytes) : bool :=
  match p with
  | [d; name] =>
      match data_dir_sufs d, lookup p t with
      | Some sufs, Some n => cli_doomed sufs (name, n)
      | _, _ => false
      end
  | _ => false
  end.

(* no two entries of local/ (of upload/) have the same name *)
Definition data_names_unique (t : tree) : Prop :=
  forall d sub, data_dir_sufs d <> None -> lookup [d] t = Some (Dir sub) -> NoDup (map fst sub).

Lemma lookup_in_nil p : lookup_in p [] = None.
Proof. destruct p as [|a [|b r]]; reflexivity. Qed.

Lemma lookup_in_cons2 a b r es :
  lookup_in (a :: b :: r) es =
  match assoc a es with Some (Dir sub) => lookup_in (b :: r) sub | _ => None end.
Proof. reflexivity. Qed.

Lemma lookup_clean_dir_deep sufs sub b c r : NoDup (map fst sub) ->
  lookup_in (b :: c :: r) (clean_dir sufs sub) = lookup_in (b :: c :: r) sub.
Proof.
  intros ND. rewrite !lookup_in_cons2, (assoc_clean_dir _ _ _ ND).
  destruct (assoc b sub) as [n|]; [|reflexivity].
  destruct (cli_doomed sufs (b, n)) eqn:D; [|reflexivity].
  unfold cli_doomed in D. cbn [fst snd] in D. apply andb_true_iff in D as [_ R].
  destruct n as [d | [|e es]]; try reflexivity; [|discriminate].
  destruct r; reflexivity.
Qed.

Lemma targetb_spec es a b r :
  cli_targetb (Some es) (a :: b :: r) =
  match r with
  | [] => match data_dir_sufs a, (match assoc a es with Some (Dir sub) => assoc b sub | _ => None end) with
          | Some sufs, Some n => cli_doomed sufs (b, n)
          | _, _ => false
          end
  | _ :: _ => false
  end.
Proof. destruct r; reflexivity. Qed.

Theorem clean_path_exact t : data_names_unique t -> forall p,
  (cli_targetb t p = true -> lookup p (cli_clean t) = None) /\
  (cli_targetb t p = false -> observe p (cli_clean t) = observe p t).
Proof.
  intros U p. destruct t as [es|]; [|split; intros _; reflexivity].
  unfold observe. cbn [cli_clean lookup].
  destruct p as [|a [|b r]].
  - split; [discriminate | reflexivity].
  - split; [discriminate|]. intros _. cbn [lookup_in]. rewrite assoc_clean_root.
    destruct (data_dir_sufs a); [|reflexivity].
    destruct (assoc a es) as [[d|sub]|]; reflexivity.
  - rewrite targetb_spec, !lookup_in_cons2, assoc_clean_root.
    destruct (data_dir_sufs a) as [sufs|] eqn:DS.
    + destruct (assoc a es) as [[d|sub]|] eqn:A.
      * split; [destruct r; discriminate | reflexivity].
      * assert (ND : NoDup (map fst sub)).
        { apply (U a sub); [congruence|]. cbn [lookup lookup_in]. exact A. }
        destruct r as [|c r].
        -- cbn [lookup_in]. rewrite (assoc_clean_dir _ _ _ ND).
           destruct (assoc b sub) as [n|]; [|split; [discriminate | reflexivity]].
           destruct (cli_doomed sufs (b, n)); split; try discriminate; reflexivity.
        -- split; [discriminate|]. intros _.
           rewrite (lookup_clean_dir_deep _ _ _ _ _ ND). reflexivity.
      * split; [destruct r; discriminate | reflexivity].
    + split; [destruct r; discriminate | reflexivity].
Qed.

(* no uniqueness assumption: nothing selected and removable is left *)
Theorem clean_leaves_no_target t d sufs name n :
  data_dir_sufs d = Some sufs ->
  lookup [d; name] (cli_clean t) = Some n -> has_any_suffix name sufs = true ->
  removable n = false.
Proof.
  intros DS L S. destruct t as [es|]; [|discriminate].
  cbn [cli_clean lookup] in L. rewrite lookup_in_cons2, assoc_clean_root, DS in L.
  destruct (assoc d es) as [[x|sub]|]; try discriminate.
  cbn [lookup_in] in L. exact (assoc_clean_dir_left _ _ _ _ L S).
Qed.

(* entry-level form, no uniqueness assumption, nodes with their whole
   contents *)
Theorem clean_entries_exact es d :
  match data_dir_sufs d, assoc d es with
  | Some sufs, Some (Dir sub) =>
      exists sub', assoc d (ents (cli_clean (Some es))) = Some (Dir sub') /\
                   forall e, In e sub' <-> In e sub /\ cli_doomed sufs e = false
  | _, o => assoc d (ents (cli_clean (Some es))) = o
  end.
Proof.
  cbn [cli_clean ents]. rewrite assoc_clean_root.
  destruct (data_dir_sufs d) as [sufs|]; [|reflexivity].
  destruct (assoc d es) as [[x|sub]|]; try reflexivity.
  exists (clean_dir sufs sub). split; [reflexivity|]. intros e. apply clean_dir_In.
Qed.

Lemma clean_dir_idem sufs es : clean_dir sufs (clean_dir sufs es) = clean_dir sufs es.
Proof.
  unfold clean_dir. induction es as [|e r IH]; cbn [filter]; [reflexivity|].
  destruct (negb (cli_doomed sufs e)) eqn:E; cbn [filter]; [rewrite E, IH|]; auto.
Qed.

Lemma clean_sub_idem name sufs es : clean_sub name sufs (clean_sub name sufs es) = clean_sub name sufs es.
Proof.
  unfold clean_sub. rewrite map_map. apply map_ext. intros [k v]. cbn [fst snd].
  destruct (beq k name) eqn:E; cbn [fst snd]; [|rewrite E; reflexivity].
  destruct v as [x|sub]; cbn [fst snd]; rewrite E; [reflexivity|].
  rewrite clean_dir_idem. reflexivity.
Qed.

Lemma clean_sub_comm n1 s1 n2 s2 es : beq n1 n2 = false ->
  clean_sub n1 s1 (clean_sub n2 s2 es) = clean_sub n2 s2 (clean_sub n1 s1 es).
Proof.
  intros NE. unfold clean_sub. rewrite !map_map. apply map_ext. intros [k v]. cbn [fst snd].
  destruct (beq k n2) eqn:E2; destruct (beq k n1) eqn:E1; cbn [fst snd]; rewrite ?E1, ?E2; try reflexivity.
  - apply beq_eq in E1, E2. subst. rewrite beq_refl in NE. discriminate.
  - destruct v; cbn [fst snd]; rewrite ?E1, ?E2; reflexivity.
  - destruct v; cbn [fst snd]; rewrite ?E1, ?E2; reflexivity.
Qed.

Theorem clean_idempotent t : cli_clean (cli_clean t) = cli_clean t.
Proof.
  destruct t as [es|]; [|reflexivity]. cbn [cli_clean]. f_equal.
  destruct names_distinct as [LU _].
  rewrite (clean_sub_comm n_local _ n_upload _ (clean_sub n_local cli_local_sufs es) LU).
  rewrite !clean_sub_idem. reflexivity.
Qed.

(* clean never touches the mode file, the telemetry directory's existence,
   or what Mode() reads *)
Lemma clean_mode_entry es :
  assoc n_mode (ents (cli_clean (Some es))) = assoc n_mode es.
Proof.
  cbn [cli_clean ents]. rewrite assoc_clean_root.
  replace (data_dir_sufs n_mode) with (@None (list bytes)) by (vm_compute; reflexivity).
  reflexivity.
Qed.

Theorem clean_keeps_mode t : cli_read_mode (cli_clean t) = cli_read_mode t.
Proof.
  destruct t as [es|]; [|reflexivity].
  pose proof (clean_mode_entry es) as H. cbn [cli_clean ents] in H.
  cbn [cli_clean cli_read_mode]. rewrite H. reflexivity.
Qed.

(* -------------------------------------------------------------- mode *)

Lemma assoc_set_entry_same k v es : assoc k (set_entry k v es) = Some v.
Proof.
  induction es as [|[k' v'] r IH]; cbn [set_entry assoc].
  - rewrite beq_refl. reflexivity.
  - destruct (beq k' k) eqn:E; cbn [assoc]; rewrite E; [reflexivity | exact IH].
Qed.

Lemma assoc_set_entry_other k v es a : beq k a = false -> assoc a (set_entry k v es) = assoc a es.
Proof.
  intros NE. induction es as [|[k' v'] r IH]; cbn [set_entry assoc].
  - rewrite NE. reflexivity.
  - destruct (beq k' k) eqn:E; cbn [assoc].
    + apply beq_eq in E. subst k'. rewrite NE. reflexivity.
    + rewrite IH. reflexivity.
Qed.

Lemma set_entry_In k v es e : In e (set_entry k v es) -> fst e = k \/ In e es.
Proof.
  induction es as [|[k' v'] r IH]; cbn [set_entry].
  - intros [<- | []]. left. reflexivity.
  - destruct (beq k' k) eqn:E.
    + intros [<- | Hin]; [left; apply beq_eq; exact E | right; right; exact Hin].
    + intros [<- | Hin]; [right; left; reflexivity|].
      destruct (IH Hin); [left | right; right]; assumption.
Qed.

Lemma In_set_entry k v es e : In e es -> fst e <> k -> In e (set_entry k v es).
Proof.
  intros Hin NE. induction es as [|[k' v'] r IH]; [destruct Hin|].
  cbn [set_entry]. destruct (beq k' k) eqn:E.
  - destruct Hin as [<- | Hin]; [apply beq_eq in E; contradiction | right; exact Hin].
  - destruct Hin as [<- | Hin]; [left; reflexivity | right; auto].
Qed.

(* a path other than <dir>/mode sees the same node (with its whole contents)
   before and after a mode command *)
Lemma lookup_in_set_mode_file es d p : p <> [n_mode] ->
  match assoc n_mode es with Some (Dir _) => False | _ => True end ->
  lookup_in p (set_entry n_mode (File d) es) = lookup_in p es.
Proof.
  intros NE ND. destruct p as [|a [|b r]]; [reflexivity | |].
  - cbn [lookup_in]. apply assoc_set_entry_other.
    destruct (beq n_mode a) eqn:E; [|reflexivity]. apply beq_eq in E. subst. contradiction.
  - rewrite !lookup_in_cons2. destruct (beq n_mode a) eqn:E.
    + apply beq_eq in E. subst a. rewrite assoc_set_entry_same.
      destruct (assoc n_mode es) as [[x|sub]|]; try reflexivity. destruct ND.
    + rewrite (assoc_set_entry_other _ _ _ _ E). reflexivity.
Qed.

Theorem mode_cmd_frame_one c today t p : p <> [n_mode] ->
  lookup p (fst (cli_mode_cmd c today t)) = lookup p t.
Proof.
  intros NE. unfold cli_mode_cmd.
  destruct (beq (fst (cli_read_mode t)) (mode_str c)); [reflexivity|].
  unfold cli_set_mode. destruct (parse_date (fmt_date today)).
  - destruct t as [es|].
    + destruct (assoc n_mode es) as [[x|sub]|] eqn:A; cbn [fst lookup]; try reflexivity;
        apply lookup_in_set_mode_file; try exact NE; rewrite A; exact I.
    + cbn [fst lookup]. destruct p as [|a [|b r]]; try reflexivity.
      * cbn [lookup_in assoc]. destruct (beq n_mode a) eqn:E; [|reflexivity].
        apply beq_eq in E. subst. contradiction.
      * rewrite lookup_in_cons2. cbn [assoc]. destruct (beq n_mode a); reflexivity.
  - destruct t as [es|]; cbn [fst lookup]; [reflexivity | apply lookup_in_nil].
Qed.

Definition mode_cmds (ms : list (mcmd * Z)) : list (cmd * Z) :=
  map (fun mz => (CMode (fst mz), snd mz)) ms.

Theorem mode_cmds_frame ms : forall t p, p <> [n_mode] ->
  lookup p (cli_run_all (mode_cmds ms) t) = lookup p t.
Proof.
  induction ms as [|[m z] r IH]; intros t p NE; [reflexivity|].
  cbn [mode_cmds map cli_run_all fold_left fst snd cli_run].
  change (fold_left _ (map _ r) ?x) with (cli_run_all (mode_cmds r) x).
  rewrite (IH _ p NE). apply mode_cmd_frame_one. exact NE.
Qed.

Theorem mode_cmd_noop c today t :
  fst (cli_read_mode t) = mode_str c -> cli_mode_cmd c today t = (t, true).
Proof.
  intros H. unfold cli_mode_cmd. rewrite H, beq_refl. reflexivity.
Qed.

(* ---- what the written file reads back as ---- *)

Lemma parse_fixed_digits w s z : parse_fixed w s = Some z -> Datatypes.length s = w /\ all_digits s = true.
Proof.
  unfold parse_fixed. destruct (Nat.eqb (Datatypes.length s) w && all_digits s) eqn:E; [|discriminate].
  apply andb_true_iff in E as [L D]. apply Nat.eqb_eq in L. auto.
Qed.

(* a string time.Parse(DateOnly) accepts is dddd-dd-dd *)
Lemma parse_date_shape s z : parse_date s = Some z ->
  exists a b c d e f g h,
    s = [a; b; c; d; dash; e; f; dash; g; h] /\ all_digits [a; b; c; d; e; f; g; h] = true.
Proof.
  unfold parse_date. destruct (Nat.eqb (Datatypes.length s) 10) eqn:L; [|discriminate].
  apply Nat.eqb_eq in L.
  destruct s as [|a [|b [|c [|d [|x [|e [|f [|y [|g [|h [|? ?]]]]]]]]]]]; try discriminate.
  cbn [sub skipn firstn nth_byte nth].
  destruct (parse_fixed 4 [a; b; c; d]) eqn:P4; [|discriminate].
  destruct (parse_fixed 2 [e; f]) eqn:P2; [|discriminate].
  destruct (parse_fixed 2 [g; h]) eqn:P3; [|discriminate].
  destruct (N.eqb x dash) eqn:X; [|discriminate].
  destruct (N.eqb y dash) eqn:Y; [|discriminate].
  intros _. apply N.eqb_eq in X, Y. subst.
  apply parse_fixed_digits in P4 as [_ D4], P2 as [_ D2], P3 as [_ D3].
  exists a, b, c, d, e, f, g, h. split; [reflexivity|].
  cbn [all_digits forallb] in *. repeat (apply andb_true_iff in D4 as [? D4]).
  repeat (apply andb_true_iff in D2 as [? D2]). repeat (apply andb_true_iff in D3 as [? D3]).
  repeat match goal with Hx : is_digit _ = true |- _ => rewrite Hx; clear Hx end. reflexivity.
Qed.

Lemma digit_cases c : is_digit c = true ->
  c = 48 \/ c = 49 \/ c = 50 \/ c = 51 \/ c = 52 \/ c = 53 \/ c = 54 \/ c = 55 \/ c = 56 \/ c = 57.
Proof.
  unfold is_digit. intros H. apply andb_true_iff in H as [A B].
  apply N.leb_le in A, B. lia.
Qed.

Definition head_differs (c : N) (p : bytes) : bool :=
  match p with [] => false | p0 :: _ => negb (N.eqb c p0) end.

Lemma first_prefix_none_by_head c rest pats :
  forallb (head_differs c) pats = true -> first_prefix (c :: rest) pats = None.
Proof.
  induction pats as [|p r IH]; cbn [forallb first_prefix]; [reflexivity|].
  intros H. apply andb_true_iff in H as [H1 H2].
  destruct p as [|p0 p']; [discriminate|].
  cbn [head_differs] in H1. apply negb_true_iff in H1.
  cbn [has_prefix]. rewrite H1. cbn [andb]. auto.
Qed.

Lemma digit_not_space_tail c : is_digit c = true -> forallb (head_differs c) space_seqs_rev = true.
Proof.
  intros H. apply digit_cases in H.
  repeat (destruct H as [-> | H]; [vm_compute; reflexivity|]). subst. vm_compute. reflexivity.
Qed.

Lemma digit_not_space c : is_digit c = true -> N.eqb c 32 = false.
Proof.
  intros H. apply digit_cases in H.
  repeat (destruct H as [-> | H]; [reflexivity|]). subst. reflexivity.
Qed.

(* TrimSpace leaves a string alone whose first byte starts no white-space
   sequence and whose last byte is a digit *)
Lemma trim_space_id c mid h :
  forallb (head_differs c) space_seqs = true -> is_digit h = true ->
  trim_space (c :: mid ++ [h]) = c :: mid ++ [h].
Proof.
  intros Hc Hh. unfold trim_space.
  cbn [Datatypes.length trim_left_fuel_pats]. rewrite (first_prefix_none_by_head _ _ _ Hc).
  change (c :: mid ++ [h]) with ((c :: mid) ++ [h]). rewrite rev_app_distr. cbn [rev app].
  cbn [Datatypes.length trim_left_fuel_pats].
  rewrite (first_prefix_none_by_head _ _ _ (digit_not_space_tail _ Hh)).
  change (h :: rev mid ++ [c]) with ([h] ++ rev (c :: mid)).
  rewrite rev_app_distr, rev_involutive. reflexivity.
Qed.

Lemma mode_str_head c : exists x xs, mode_str c = x :: xs /\
  forallb (head_differs x) space_seqs = true /\ index_byte (mode_str c) 32 = None.
Proof.
  destruct c; cbn [mode_str]; eexists; eexists; (split; [vm_compute; reflexivity|]); split; vm_compute; reflexivity.
Qed.

Lemma index_byte_app_none s t c : index_byte s c = None ->
  index_byte (s ++ c :: t) c = Some (Datatypes.length s).
Proof.
  induction s as [|x s IH]; cbn [index_byte app Datatypes.length].
  - rewrite N.eqb_refl. reflexivity.
  - destruct (N.eqb x c); [discriminate|].
    destruct (index_byte s c); [discriminate|]. intros _. rewrite IH by reflexivity. reflexivity.
Qed.

Lemma skipn_S_app (m : bytes) x d : skipn (S (Datatypes.length m)) (m ++ x :: d) = d.
Proof. induction m as [|y m IH]; [reflexivity | exact IH]. Qed.

Definition in_date_range (day : Z) : Prop := (-719528 <= day < 2932897)%Z.

Theorem mode_file_roundtrip c today : in_date_range today ->
  cli_mode_parse (mode_file_bytes (mode_str c) today) = (mode_str c, Some today).
Proof.
  intros R. destruct (date_roundtrip today R) as [P _].
  destruct (parse_date_shape _ _ P) as (a & b & c0 & d & e & f & g & h & Sh & D).
  destruct (mode_str_head c) as (x & xs & M & Hx & Hi).
  unfold cli_mode_parse, mode_file_bytes.
  assert (T : trim_space (mode_str c ++ [32] ++ fmt_date today) = mode_str c ++ [32] ++ fmt_date today).
  { rewrite M, Sh. cbn [app].
    replace (x :: xs ++ 32 :: [a; b; c0; d; dash; e; f; dash; g; h])
      with (x :: (xs ++ 32 :: [a; b; c0; d; dash; e; f; dash; g]) ++ [h])
      by (rewrite <- app_assoc; reflexivity).
    apply trim_space_id; [exact Hx|].
    cbn [all_digits forallb] in D. repeat (apply andb_true_iff in D as [? D]). assumption. }
  rewrite T. cbn [app]. rewrite (index_byte_app_none _ _ _ Hi).
  rewrite firstn_app, Nat.sub_diag, firstn_all. cbn [firstn]. rewrite app_nil_r.
  replace (skipn (S (Datatypes.length (mode_str c))) (mode_str c ++ 32 :: fmt_date today)) with (fmt_date today).
  - rewrite P. reflexivity.
  - symmetry. apply skipn_S_app.
Qed.

Lemma date_ok today : in_date_range today -> parse_date (fmt_date today) = Some today.
Proof. intros R. exact (proj1 (date_roundtrip today R)). Qed.

Definition set_mode_result (m : bytes) (today : Z) (t : tree) : tree * bool :=
  match t with
  | None => (Some [(n_mode, File (mode_file_bytes m today))], true)
  | Some es =>
      match assoc n_mode es with
      | Some (Dir _) => (t, false)
      | _ => (Some (set_entry n_mode (File (mode_file_bytes m today)) es), true)
      end
  end.

Lemma set_mode_spec m today t : in_date_range today -> cli_set_mode m today t = set_mode_result m today t.
Proof. intros R. unfold cli_set_mode. rewrite (date_ok _ R). reflexivity. Qed.

Lemma mode_cmd_spec c today t : in_date_range today ->
  cli_mode_cmd c today t =
  if beq (fst (cli_read_mode t)) (mode_str c) then (t, true) else set_mode_result (mode_str c) today t.
Proof. intros R. unfold cli_mode_cmd. rewrite (set_mode_spec _ _ _ R). reflexivity. Qed.

Lemma set_mode_result_ok m today t :
  snd (set_mode_result m today t) = negb (mode_is_dir t).
Proof.
  destruct t as [es|]; [|reflexivity]. cbn [set_mode_result mode_is_dir].
  destruct (assoc n_mode es) as [[x|sub]|]; reflexivity.
Qed.

Lemma set_mode_result_fail m today t :
  snd (set_mode_result m today t) = false -> fst (set_mode_result m today t) = t.
Proof.
  destruct t as [es|]; [|discriminate]. cbn [set_mode_result].
  destruct (assoc n_mode es) as [[x|sub]|]; try discriminate. reflexivity.
Qed.

(* a mode command that has to write succeeds unless the mode path is a
   directory, and then the file reads back as (requested mode, today) *)
Theorem mode_cmd_sets c today t : in_date_range today ->
  fst (cli_read_mode t) <> mode_str c -> mode_is_dir t = false ->
  snd (cli_mode_cmd c today t) = true /\
  cli_read_mode (fst (cli_mode_cmd c today t)) = (mode_str c, Some today).
Proof.
  intros R NE ND. unfold cli_mode_cmd.
  apply beq_neq in NE. rewrite NE. unfold cli_set_mode. rewrite (date_ok _ R).
  destruct t as [es|].
  - cbn [mode_is_dir] in ND.
    destruct (assoc n_mode es) as [[x|sub]|] eqn:A; try discriminate;
      cbn [fst snd cli_read_mode]; rewrite assoc_set_entry_same; (split; [reflexivity|]);
      apply mode_file_roundtrip; exact R.
  - cbn [fst snd cli_read_mode assoc]. rewrite beq_refl. split; [reflexivity|].
    apply mode_file_roundtrip; exact R.
Qed.

(* after any successful mode command the mode that is read is the requested
   one *)
Theorem mode_cmd_reports c today t : in_date_range today ->
  snd (cli_mode_cmd c today t) = true ->
  fst (cli_read_mode (fst (cli_mode_cmd c today t))) = mode_str c.
Proof.
  intros R OK. destruct (beq (fst (cli_read_mode t)) (mode_str c)) eqn:E.
  - apply beq_eq in E. rewrite (mode_cmd_noop _ _ _ E). exact E.
  - assert (MD : mode_is_dir t = false).
    { rewrite (mode_cmd_spec _ _ _ R), E, set_mode_result_ok in OK.
      apply negb_true_iff in OK. exact OK. }
    apply beq_neq in E.
    destruct (mode_cmd_sets c today t R E MD) as [_ RB]. rewrite RB. reflexivity.
Qed.

(* the only failure: the mode path is a directory (then Mode() reads the
   default "local", so only on/off can hit it); nothing changes *)
Theorem mode_cmd_fails_iff c today t : in_date_range today ->
  (snd (cli_mode_cmd c today t) = false <->
   mode_is_dir t = true /\ c <> Local).
Proof.
  intros R. unfold cli_mode_cmd.
  destruct (mode_is_dir t) eqn:MD.
  - destruct t as [es|]; [|discriminate]. cbn [mode_is_dir] in MD.
    cbn [cli_read_mode]. destruct (assoc n_mode es) as [[x|sub]|] eqn:A; try discriminate.
    cbn [fst]. destruct c; cbn [mode_str].
    + unfold cli_set_mode. rewrite (date_ok _ R), A. cbn [snd].
      split; [|reflexivity]. intros _. split; [reflexivity | discriminate].
    + rewrite beq_refl. cbn [snd]. split; [discriminate|]. intros [_ H]. congruence.
    + unfold cli_set_mode. rewrite (date_ok _ R), A. cbn [snd].
      split; [|reflexivity]. intros _. split; [reflexivity | discriminate].
  - split; [|intros [H _]; discriminate].
    destruct (beq (fst (cli_read_mode t)) (mode_str c)) eqn:E; [discriminate|].
    apply beq_neq in E. destruct (mode_cmd_sets c today t R E MD) as [OK _].
    unfold cli_mode_cmd in OK. apply beq_neq in E. rewrite E in OK. rewrite OK. discriminate.
Qed.

Theorem mode_cmd_failure_inert c today t : in_date_range today ->
  snd (cli_mode_cmd c today t) = false -> fst (cli_mode_cmd c today t) = t.
Proof.
  intros R. rewrite (mode_cmd_spec _ _ _ R).
  destruct (beq (fst (cli_read_mode t)) (mode_str c)); [reflexivity|].
  apply set_mode_result_fail.
Qed.

(* ------------------------------------------- mixed command histories *)

Definition is_mode_cmd (cz : cmd * Z) : bool := match fst cz with CMode _ => true | _ => false end.

(* the mode path's node *)
Definition mode_entry (t : tree) : option node := lookup [n_mode] t.

Lemma read_mode_by_entry t1 t2 : mode_entry t1 = mode_entry t2 -> cli_read_mode t1 = cli_read_mode t2.
Proof.
  unfold mode_entry. destruct t1 as [e1|], t2 as [e2|]; cbn [lookup lookup_in cli_read_mode]; intros H.
  - rewrite H. reflexivity.
  - rewrite H. reflexivity.
  - rewrite <- H. reflexivity.
  - reflexivity.
Qed.

(* what a mode command does to the mode path depends on the mode path only *)
Lemma mode_cmd_entry_congr c d t1 t2 : mode_entry t1 = mode_entry t2 ->
  mode_entry (fst (cli_mode_cmd c d t1)) = mode_entry (fst (cli_mode_cmd c d t2)).
Proof.
  intros H. unfold cli_mode_cmd. rewrite (read_mode_by_entry _ _ H).
  destruct (beq (fst (cli_read_mode t2)) (mode_str c)); [exact H|].
  unfold cli_set_mode. destruct (parse_date (fmt_date d)).
  - unfold mode_entry in *. destruct t1 as [e1|], t2 as [e2|]; cbn [lookup lookup_in] in H.
    + rewrite H. destruct (assoc n_mode e2) as [[x|sub]|] eqn:A; cbn [fst lookup lookup_in];
        rewrite ?assoc_set_entry_same; try reflexivity. congruence.
    + rewrite H. cbn [fst lookup lookup_in assoc]. rewrite assoc_set_entry_same, beq_refl. reflexivity.
    + rewrite <- H. cbn [fst lookup lookup_in assoc]. rewrite assoc_set_entry_same, beq_refl. reflexivity.
    + reflexivity.
  - unfold mode_entry in *. destruct t1 as [e1|], t2 as [e2|]; cbn [fst lookup lookup_in assoc] in *; auto.
Qed.

Lemma clean_mode_entry_tree t : mode_entry (cli_clean t) = mode_entry t.
Proof.
  destruct t as [es|]; [|reflexivity]. pose proof (clean_mode_entry es) as H.
  cbn [cli_clean ents] in H. unfold mode_entry. cbn [cli_clean lookup lookup_in]. exact H.
Qed.

(* in any history of on/local/off/clean/env the mode path evolves exactly as
   if only the mode commands had run *)
Theorem history_mode_path cs : forall t1 t2, mode_entry t1 = mode_entry t2 ->
  mode_entry (cli_run_all cs t1) = mode_entry (cli_run_all (filter is_mode_cmd cs) t2).
Proof.
  induction cs as [|[c d] r IH]; intros t1 t2 H; [exact H|].
  cbn [cli_run_all fold_left filter is_mode_cmd fst snd].
  destruct c as [m| |]; cbn [cli_run fst fold_left].
  - apply IH. apply mode_cmd_entry_congr. exact H.
  - apply IH. rewrite clean_mode_entry_tree. exact H.
  - apply IH. exact H.
Qed.

Definition same_except_mode (t1 t2 : tree) : Prop :=
  forall p, p <> [n_mode] -> lookup p t1 = lookup p t2.

Lemma lookup_clean_head a rest t :
  lookup (a :: rest) (cli_clean t) =
  match t with
  | None => None
  | Some es =>
      let o := match data_dir_sufs a, assoc a es with
               | Some sufs, Some (Dir sub) => Some (Dir (clean_dir sufs sub))
               | _, o => o
               end in
      match rest with
      | [] => o
      | _ :: _ => match o with Some (Dir sub) => lookup_in rest sub | _ => None end
      end
  end.
Proof.
  destruct t as [es|]; [|reflexivity]. cbn [cli_clean lookup].
  destruct rest; [cbn [lookup_in] | rewrite lookup_in_cons2]; rewrite assoc_clean_root; reflexivity.
Qed.

Lemma assoc_by_lookup a t1 t2 : lookup [a] t1 = lookup [a] t2 ->
  match t1 with Some es => assoc a es | None => None end =
  match t2 with Some es => assoc a es | None => None end.
Proof. destruct t1, t2; exact (fun H => H). Qed.

Lemma clean_respects t1 t2 : same_except_mode t1 t2 -> same_except_mode (cli_clean t1) (cli_clean t2).
Proof.
  intros H p NE. destruct p as [|a rest]; [destruct t1, t2; reflexivity|].
  destruct (beq a n_mode) eqn:E.
  - apply beq_eq in E. subst a. destruct rest as [|b r]; [contradiction|].
    (* below the mode path: clean leaves that entry alone *)
    assert (L : forall t, lookup (n_mode :: b :: r) (cli_clean t) = lookup (n_mode :: b :: r) t).
    { intros [es|]; [|reflexivity]. cbn [cli_clean lookup]. rewrite !lookup_in_cons2, assoc_clean_root.
      replace (data_dir_sufs n_mode) with (@None (list bytes)) by (vm_compute; reflexivity). reflexivity. }
    rewrite !L. apply H. discriminate.
  - assert (NA : [a] <> [n_mode]) by (intros [= ->]; rewrite beq_refl in E; discriminate).
    pose proof (assoc_by_lookup a t1 t2 (H [a] NA)) as A.
    rewrite !lookup_clean_head.
    destruct t1 as [e1|], t2 as [e2|]; cbn zeta.
    + rewrite A. reflexivity.
    + rewrite A. destruct (data_dir_sufs a); destruct rest; reflexivity.
    + rewrite <- A. destruct (data_dir_sufs a); destruct rest; reflexivity.
    + reflexivity.
Qed.

(* ... and every other path evolves exactly as if only the clean commands had
   run *)
Theorem history_other_paths cs : forall t1 t2, same_except_mode t1 t2 ->
  same_except_mode (cli_run_all cs t1) (cli_run_all (filter (fun cz => negb (is_mode_cmd cz)) cs) t2).
Proof.
  induction cs as [|[c d] r IH]; intros t1 t2 H; [exact H|].
  cbn [cli_run_all fold_left filter is_mode_cmd fst snd].
  destruct c as [m| |]; cbn [negb cli_run fst fold_left].
  - apply IH. intros p NE. rewrite (mode_cmd_frame_one m d t1 p NE). apply H. exact NE.
  - apply IH. apply clean_respects. exact H.
  - apply IH. exact H.
Qed.

(* ------------------------------------------ the oracle and the model *)

Definition root_names_unique (t : tree) : Prop :=
  match t with Some es => NoDup (map fst es) | None => True end.

Lemma clean_dir_ok_model sufs sub : clean_dir_ok sufs sub (clean_dir sufs sub) = true.
Proof.
  unfold clean_dir_ok. rewrite !andb_true_iff. repeat split; apply forallb_forall; intros e Hin.
  - apply clean_dir_In in Hin as [_ D]. rewrite D. reflexivity.
  - destruct (cli_doomed sufs e) eqn:D; [reflexivity|]. cbn [orb].
    apply mem_entry_In. apply clean_dir_In. auto.
  - apply mem_entry_In. apply clean_dir_In in Hin. tauto.
Qed.

Lemma In_assoc_some k v es : In (k, v) es -> has_name k es = true.
Proof.
  intros Hin. unfold has_name. destruct (assoc k es) eqn:A; [reflexivity|].
  exfalso. exact (assoc_None_notin _ _ A _ Hin).
Qed.

Lemma clean_sub_fst name sufs es : map fst (clean_sub name sufs es) = map fst es.
Proof.
  unfold clean_sub. rewrite map_map. apply map_ext. intros [k v]. cbn [fst snd].
  destruct (beq k name); [destruct v|]; reflexivity.
Qed.

Lemma clean_root_ok_model es : NoDup (map fst es) ->
  clean_root_ok es (clean_sub n_upload cli_upload_sufs (clean_sub n_local cli_local_sufs es)) = true.
Proof.
  intros ND. unfold clean_root_ok. apply andb_true_iff. split; apply forallb_forall; intros [k v] Hin; cbn [fst snd].
  - pose proof (In_assoc_nodup _ _ _ ND Hin) as A.
    destruct (data_dir_sufs k) as [sufs|] eqn:DS.
    + destruct v as [x|sub].
      * apply mem_entry_In. apply assoc_In. rewrite assoc_clean_root, DS, A. reflexivity.
      * rewrite assoc_clean_root, DS, A. apply clean_dir_ok_model.
    + apply mem_entry_In. apply assoc_In. rewrite assoc_clean_root, DS, A. reflexivity.
  - assert (Hk : In k (map fst es)).
    { rewrite <- (clean_sub_fst n_local cli_local_sufs es), <- (clean_sub_fst n_upload cli_upload_sufs).
      apply (in_map fst) in Hin. exact Hin. }
    apply in_map_iff in Hk as [[k' v'] [Ek Hin']]. cbn [fst] in Ek. subst k'.
    exact (In_assoc_some _ _ _ Hin').
Qed.

Lemma others_same_set_entry es d : others_same es (set_entry n_mode (File d) es) = true.
Proof.
  unfold others_same. apply andb_true_iff. split; apply forallb_forall; intros e Hin.
  - destruct (beq (fst e) n_mode) eqn:E; [reflexivity|]. cbn [orb]. apply mem_entry_In.
    apply In_set_entry; [exact Hin|]. apply beq_neq. exact E.
  - destruct (beq (fst e) n_mode) eqn:E; [reflexivity|]. cbn [orb]. apply mem_entry_In.
    apply set_entry_In in Hin as [Hk | Hin]; [|exact Hin].
    rewrite Hk, beq_refl in E. discriminate.
Qed.

Theorem oracle_accepts_model c today t : in_date_range today -> root_names_unique t ->
  dir_diff_ok c today t (fst (cli_run c today t)) (snd (cli_run c today t)) = true.
Proof.
  intros R U. destruct c as [m| |]; cbn [cli_run dir_diff_ok fst snd].
  - unfold mode_cmd_ok. destruct (beq (fst (cli_read_mode t)) (mode_str m)) eqn:E.
    + apply beq_eq in E. rewrite (mode_cmd_noop _ _ _ E). cbn [fst snd andb]. apply tree_eqb_eq. reflexivity.
    + apply beq_neq in E. destruct (mode_is_dir t) eqn:MD.
      * assert (F : snd (cli_mode_cmd m today t) = false).
        { apply (mode_cmd_fails_iff m today t R). split; [exact MD|]. intros ->.
          destruct t as [es|]; [|discriminate]. cbn [mode_is_dir] in MD. cbn [cli_read_mode] in E.
          destruct (assoc n_mode es) as [[x|sub]|]; try discriminate. apply E. reflexivity. }
        rewrite F, (mode_cmd_failure_inert _ _ _ R F). cbn [negb andb]. apply tree_eqb_eq. reflexivity.
      * destruct (mode_cmd_sets m today t R E MD) as [OK RB]. rewrite OK, RB. cbn [fst snd andb].
        rewrite beq_refl. cbn [opt_z_eqb]. rewrite Z.eqb_refl, !andb_true_r.
        unfold cli_mode_cmd. apply beq_neq in E. rewrite E. unfold cli_set_mode. rewrite (date_ok _ R).
        destruct t as [es|]; [|reflexivity]. cbn [mode_is_dir] in MD.
        destruct (assoc n_mode es) as [[x|sub]|]; try discriminate; cbn [fst ents andb];
          apply others_same_set_entry.
  - cbn [andb]. destruct t as [es|]; [|reflexivity]. cbn [cli_clean clean_ok].
    apply clean_root_ok_model. exact U.
  - cbn [andb]. apply tree_eqb_eq. reflexivity.
Qed.

(* what the oracle's verdict means *)
Theorem clean_dir_ok_sound sufs before after : clean_dir_ok sufs before after = true ->
  forall e, In e after <-> In e before /\ cli_doomed sufs e = false.
Proof.
  unfold clean_dir_ok. rewrite !andb_true_iff, !forallb_forall. intros [[A B] C] e. split.
  - intros Hin. split; [apply mem_entry_In; auto|]. apply negb_true_iff. auto.
  - intros [Hin D]. specialize (B e Hin). rewrite D in B. apply mem_entry_In. exact B.
Qed.

Theorem others_same_sound before after : others_same before after = true ->
  forall e, fst e <> n_mode -> (In e before <-> In e after).
Proof.
  unfold others_same. rewrite andb_true_iff, !forallb_forall. intros [A B] e NE.
  apply beq_neq in NE. split; intros Hin.
  - specialize (A e Hin). rewrite NE in A. apply mem_entry_In. exact A.
  - specialize (B e Hin). rewrite NE in B. apply mem_entry_In. exact B.
Qed.

Theorem clean_root_ok_sound before after : clean_root_ok before after = true ->
  (forall k v, In (k, v) before ->
     match data_dir_sufs k, v with
     | Some sufs, Dir sub =>
         exists sub', assoc k after = Some (Dir sub') /\
                      forall e, In e sub' <-> In e sub /\ cli_doomed sufs e = false
     | _, _ => In (k, v) after
     end) /\
  (forall k v, In (k, v) after -> has_name k before = true).
Proof.
  unfold clean_root_ok. rewrite andb_true_iff, !forallb_forall. intros [A B]. split.
  - intros k v Hin. specialize (A _ Hin). cbn [fst snd] in A.
    destruct (data_dir_sufs k) as [sufs|]; [destruct v as [x|sub]|]; try (apply mem_entry_In; exact A).
    destruct (assoc k after) as [[x|sub']|]; try discriminate.
    exists sub'. split; [reflexivity|]. apply clean_dir_ok_sound. exact A.
  - intros k v Hin. exact (B _ Hin).
Qed.

Corollary history_mode_path_same cs t :
  mode_entry (cli_run_all cs t) = mode_entry (cli_run_all (filter is_mode_cmd cs) t).
Proof. exact (history_mode_path cs t t eq_refl). Qed.

Corollary history_other_paths_same cs t p : p <> [n_mode] ->
  lookup p (cli_run_all cs t) =
  lookup p (cli_run_all (filter (fun cz => negb (is_mode_cmd cz)) cs) t).
Proof. exact (history_other_paths cs t t (fun _ _ => eq_refl) p). Qed.

(* ------------------------------------------------------ instants and zones *)

Definition in_instant_range (now : Z) : Prop := (-719528 * 86400 <= now < 2932897 * 86400)%Z.

Lemma instant_day_range now : in_instant_range now -> in_date_range (utc_day now).
Proof.
  unfold in_instant_range, in_date_range, utc_day. intros H.
  split; [apply Z.div_le_lower_bound | apply Z.div_lt_upper_bound]; lia.
Qed.

(* the local zone of the process does not matter *)
Theorem run_at_zone_independent c now off1 off2 t :
  cli_run_at c now off1 t = cli_run_at c now off2 t.
Proof. reflexivity. Qed.

(* a mode command that writes records the UTC date of the instant, in every
   zone - also when the local calendar date differs *)
Theorem mode_cmd_records_utc_date m now off t : in_instant_range now ->
  fst (cli_read_mode t) <> mode_str m -> mode_is_dir t = false ->
  snd (cli_run_at (CMode m) now off t) = true /\
  cli_read_mode (fst (cli_run_at (CMode m) now off t)) = (mode_str m, Some (now / 86400)%Z).
Proof.
  intros R NE MD. unfold cli_run_at. cbn [cli_run].
  exact (mode_cmd_sets m (utc_day now) t (instant_day_range _ R) NE MD).
Qed.

(* the distinction is real: at the zones of the date line the local date is a
   different one at some hours *)
Lemma local_date_differs :
  local_day 0 (-43200) <> utc_day 0 /\ local_day 36000 50400 <> utc_day 36000.
Proof. split; vm_compute; discriminate. Qed.

Theorem oracle_accepts_model_at c now off t : in_instant_range now -> root_names_unique t ->
  dir_diff_ok c (utc_day now) t (fst (cli_run_at c now off t)) (snd (cli_run_at c now off t)) = true.
Proof. intros R U. exact (oracle_accepts_model c (utc_day now) t (instant_day_range _ R) U). Qed.

(* ------------------------------------------------------ no directory *)

(* without a telemetry directory a mode command succeeds exactly when the mode
   it asks for is the one in force ("off"); clean and env always do *)
Theorem nodir_mode_cmd_ok m : cli_run_nodir (CMode m) = true <-> mode_str m = lit_off.
Proof. destruct m; cbn; split; intros H; try reflexivity; try discriminate. Qed.

Theorem nodir_other_ok : cli_run_nodir CClean = true /\ cli_run_nodir CEnv = true.
Proof. split; reflexivity. Qed.

(* ------------------------------------------------------ temporary directory *)

Theorem run_env_tmpdir_independent c now off tmp1 tmp2 t :
  cli_run_env c now off tmp1 t = cli_run_env c now off tmp2 t.
Proof. reflexivity. Qed.

(* wherever TMPDIR points, a mode command that has to write succeeds and the
   requested mode with the UTC date is read back *)
Theorem mode_cmd_sets_any_tmpdir m now off tmp t : in_instant_range now ->
  fst (cli_read_mode t) <> mode_str m -> mode_is_dir t = false ->
  snd (cli_run_env (CMode m) now off tmp t) = true /\
  cli_read_mode (fst (cli_run_env (CMode m) now off tmp t)) = (mode_str m, Some (now / 86400)%Z).
Proof. unfold cli_run_env. apply mode_cmd_records_utc_date. Qed.
