(* Extraction of the C18 model (run from ocaml/gen). ExtrOcamlBasic only. *)
From Coq Require Import Extraction ExtrOcamlBasic.
From Tele Require Import Lib.Bytes Lib.Calendar Lib.SortedMap Model.Bucket.
Extraction Language OCaml.
Extraction "bucket_model.ml" fs_init sput step_w step_w_spec world_init step_world list_ctx listing_ok step_fs step_spec deviating collides components join_path
  name_ok resolve upload_name merge_name chart_name g_string parse_date.
