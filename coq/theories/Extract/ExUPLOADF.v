From Coq Require Import Extraction ExtrOcamlBasic.
From Tele Require Import Lib.FS Model.Span Model.Uploader Model.UploaderFault.
Extraction Language OCaml.
Extraction "uploadf_model.ml" frun finit fdone call_bound entries mkCfg mkCF mkFS
  x_fs x_log x_t x_idx x_panic x_err f_local f_upload sums
  a_week a_body a_out r_week r_last r_up r_files t_pc
  before_start uploader_week.
