(* Extraction of the C02 model (run from ocaml/gen). ExtrOcamlBasic only. *)
From Coq Require Import Extraction ExtrOcamlBasic ZArith.
From Tele Require Import Lib.Bytes Lib.Calendar Model.Mode Model.Gating.
Extraction Language OCaml.
Extraction "c02_model.ml" parse_mode dir_mode mode_time mode_of asof_of set_mode set_mode_file valid_mode
  trim_space zero_day too_old re_date report_date_raw ready_report future_report upload_ok
  run run_entry exec step spec_uploadable spec_leftover_sendable spec_post_allowed sentinel_involved spec_unknown_begin_ok removed_names uploadable_weeks week_of
  has_suffix has_prefix beq json_suffix local_prefix lock_suffix m_on m_off m_local
  Z.add Z.mul Z.sub Z.div Z.ltb Z.leb Z.eqb.
