(* Extraction of the C09 model (run from ocaml/gen). ExtrOcamlBasic only. *)
From Coq Require Import Extraction ExtrOcamlBasic.
From Tele Require Import Lib.Bytes Lib.Calendar Model.Span.
Extraction Language OCaml.
Extraction "c09_model.ml" weekend_of_bytes counter_span span_ok meta_time_begin meta_time_end
  name_date rotate_keeps uploader_consumes uploader_week uploader_reads fmt_date has_suffix second_opener beq timer_chain timer_delay run_entries run_leaves.
