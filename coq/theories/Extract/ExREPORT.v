(* Extraction of the C01 model (run from ocaml/gen). ExtrOcamlBasic only. *)
From Coq Require Import Extraction ExtrOcamlBasic.
From Tele Require Import Lib.Bytes Lib.Str Lib.Assoc Model.Config Model.ApprovalSpec Model.Report Model.ReportRuns.
Extraction Language OCaml.
Extraction "report_model.ml" expand new_config has_goos has_goarch has_goversion has_program has_version
  has_counter has_counter_prefix has_stack rate create_report report_check local_check
  name_unambiguousb approved_buildb run_uploader run_spec expired_now run_fetching week_reports week_files.
