(* Extraction of the C10 model (run from ocaml/gen). ExtrOcamlBasic only. *)
From Coq Require Import Extraction ExtrOcamlBasic NArith ZArith.
From Tele Require Import Lib.Bytes Lib.BytesN Model.DecodeStack Model.Layout Model.LayoutMulti Model.LayoutRace Model.Parse Model.LayoutRef.
Extraction Language OCaml.
Extraction "layout_model.ml" len get32 place place_ok_b hash hash_ref mapped_header spec_header cut_nul
  create step step_f race pc_tag grace gpc_tag run_ops wf_file spec_read spec_records spec_decode spec_encode meta_kv decode_stack
  last_wins parse twin_clash_from limit_of zeros N.ltb N.leb N.add N.sub N.modulo N.div N.mul Z.of_N.
