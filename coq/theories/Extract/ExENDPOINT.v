(* Extraction of the C12 model (run from ocaml/gen). ExtrOcamlBasic only. *)
From Coq Require Import Extraction ExtrOcamlBasic.
From Tele Require Import Lib.Bytes Lib.Calendar Lib.SortedMap Model.Bucket Model.Endpoint.
Extraction Language OCaml.
Extraction "endpoint_model.ml" expand mk_pconfig handle handle_http handle_wire expected expected_wire valid_request program_ok has_counter has_stack stack_prefix object_name object_content
  fs_init fput write components join_path g_string two_level mkRequest q_path serve.
