(* Extraction of the C06 model (run from ocaml/gen). ExtrOcamlBasic only. *)
From Coq Require Import Extraction ExtrOcamlBasic NArith ZArith.
From Tele Require Import Lib.Bytes Lib.BytesN Model.DecodeStack Model.Layout Model.Parse.
Extraction Language OCaml.
Extraction "parse_model.ml" len get32 parse parse_with spec_read decode_stack last_wins
  twin_clash_from linked_pairs read_counter read_file find_last N.ltb N.leb N.add N.sub Z.of_N.
