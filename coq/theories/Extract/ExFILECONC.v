(* Extraction of the C04 model (run from ocaml/gen). ExtrOcamlBasic only. *)
From Coq Require Import Extraction ExtrOcamlBasic ZArith NArith.
From Tele Require Import Model.FileConc.
Extraction Language OCaml.
Extraction "fileconc_model.ml" step macro_step run spawn blank empty_file pending obs_of scan_of stray_of
  wf_obsb uniq_obsb value_in bounded_ok monotone_ok all_ents rsize is_internal
  Z.of_N Z.to_N (* common.ml needs the type z *).
