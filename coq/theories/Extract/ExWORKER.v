(* Extraction of the C13 model (run from ocaml/gen). ExtrOcamlBasic only. *)
From Coq Require Import Extraction ExtrOcamlBasic.
From Tele Require Import Lib.Bytes Lib.Calendar Lib.Sort Model.Worker Model.WorkerStore.
Extraction Language OCaml.
Extraction "worker_model.ml" frame unframe merge read_merged handle_chart read_day chart_ok programs_ok
  go_major_minor split_counter_name expand is_toolchain
  rank_lt iter_id group max_week spec_count chart_object_name fmt_date
  step run_ops ws_empty b_get read_state_day day_objects copy_range merge_fd merge_events open_peak handle_chart_ctx handle_chart_fault.
