From Coq Require Import Extraction ExtrOcamlBasic.
From Tele Require Import Lib.FS Model.Span Model.Uploader.
Extraction Language OCaml.
Extraction "upload_model.ml" step run init_state new_thread mkCfg mkCF mkFS mkSt
  s_fs s_log s_ths f_local f_upload sums week_reports_ok quiescent finished
  a_week a_body a_out a_by r_week r_last r_up r_files t_pc t_killed
  local_name ready_name marker_name lock_name is_count is_localrep is_json collect_ready
  before_start after_start uploader_week acks_once two_bodies acked_twice count200 not_needed fdate re_date in_future today.
