From Coq Require Import Extraction ExtrOcamlBasic.
From Tele Require Import Model.CounterConc Model.CounterMulti.
Extraction Language OCaml.
Extraction "conc_model.ml" step default_nops adder changer init_of obs_of all_done instant_ok final_ok
  w_extra w_readers w_have MAXEXTRA
  mstep adderM changerM minit mobs mflags m_all_done regwin_faults.
