(* Extraction of the C15 model (run from ocaml/gen). ExtrOcamlBasic only. *)
From Coq Require Import Extraction ExtrOcamlBasic.
From Tele Require Import Lib.Bytes Lib.Digits Gen.Consts Model.Stack.
Extraction Language OCaml.
Extraction "stack_model.ml" encode_frames encode_raw is_truncated render_plain decode_stack is_stack
  cut_last_dot path_of run fn_roundtrips fn_identified prefix_ok c_maxNameLen c_truncated_marker.
