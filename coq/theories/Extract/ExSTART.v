(* Extraction of the C16 model (run from ocaml/gen). ExtrOcamlBasic only. *)
From Coq Require Import Extraction ExtrOcamlBasic.
From Tele Require Import Lib.Bytes Lib.Sched Gen.Consts Model.Start.
Extraction Language OCaml.
Extraction "start_model.ml" start_run spawned program_run spawned_e program_run_env spawned_env program_run_file spawned_file program_run_cfg spawned_cfg history_run history_spaced mode_of_file mode_of_bytes effective_mode dir_known start_ok launch_ok is_sidecar token_state_allows
  trun tinit winners c_tokenPeriod_ns c_telemetryChildVar c_telemetryUploadVar lit_1 lit_2 lit_off lit_on beq
  count.
