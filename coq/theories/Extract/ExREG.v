From Coq Require Import Extraction ExtrOcamlBasic NArith ZArith.
From Tele Require Import Model.Register.
Extraction Language OCaml.
(* Z.add / N.add only so that the glue's integer types exist *)
Extraction "reg_model.ml" rstep rinit list_ok quiescent_ok rdone chain_from_head Z.add N.add.
