(* Extraction of the C14 model (run from ocaml/gen). ExtrOcamlBasic only. *)
From Coq Require Import Extraction ExtrOcamlBasic.
From Tele Require Import Lib.Bytes Lib.Digits Gen.Consts Model.Stack Model.Crash.
Extraction Language OCaml.
Extraction "crash_model.ml" parse_stack_pcs counter_name view finish finish_pcs name_of_pcs is_err
  parse_uint0 scan_sentinel get_symbol get_pc lit_no_running c_crash_prefix encode_frames encode_raw render_plain decode_stack monitor_child.
