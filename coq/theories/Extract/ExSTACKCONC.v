(* Extraction of the concurrent part of the C15 model (run from ocaml/gen).
   Z.of_N is extracted only because ocaml/common.ml mentions the type z. *)
From Coq Require Import Extraction ExtrOcamlBasic ZArith NArith.
From Tele Require Import Lib.Bytes Model.StackConc.
Extraction Language OCaml.
Extraction "stackconc_model.ml" run_atomic entries total Z.of_N.
