(* Extraction of the C19 model (run from ocaml/gen). ExtrOcamlBasic only. *)
From Coq Require Import Extraction ExtrOcamlBasic.
From Tele Require Import Lib.Bytes Lib.Calendar Model.Cli.
Extraction Language OCaml.
Extraction "cli_model.ml" cli_run cli_run_at cli_run_env cli_run_nodir cli_env_output_nodir cli_set_mode_at utc_day local_day cli_run_all cli_set_mode cli_mode_parse cli_read_mode cli_env_output
  date_or_zero dir_diff_ok mode_cmd_ok clean_ok others_same tree_eqb mode_is_dir mode_str ents
  has_prefix beq fmt_date.
