(* Extraction of the C11 model (run from ocaml/gen). ExtrOcamlBasic only. *)
From Coq Require Import Extraction ExtrOcamlBasic.
From Tele Require Import Lib.Bytes Lib.Str Lib.Assoc Lib.Calendar Model.Config Model.ApprovalSpec Model.Report Model.Approval.
Extraction Language OCaml.
Extraction "approval_model.ml" new_config server_validate server_status viewer_summary viewer_active_meta
  viewer_active server_check viewer_check viewer_report_summary viewer_report_check viewer_summary_check config_at viewer_charts viewer_chart_check stored_check server_store filter_upload aggregate parse_date approved_buildb.
