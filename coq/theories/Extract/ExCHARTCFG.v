(* Extraction of the C17 models (run from ocaml/gen). ExtrOcamlBasic only. *)
From Coq Require Import Extraction ExtrOcamlBasic.
From Tele Require Import Lib.Bytes Lib.Text Model.ChartCfg Model.ConfigGen.
Extraction Language OCaml.
Extraction "chartcfg_model.ml" all_keys key_name key_kind is_slice perr_code parse render
  valid_record style_ok roundtrip_ok chart_eqb
  generate pad_versions lists_ok versions_ok adjacent_ok nodup_b superset_b validate is_toolchain.
