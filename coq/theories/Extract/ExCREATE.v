(* Extraction of the file-creation model of C04 (run from ocaml/gen). ExtrOcamlBasic only. *)
From Coq Require Import Extraction ExtrOcamlBasic ZArith NArith.
From Tele Require Import Model.FileCreate.
Extraction Language OCaml.
Extraction "create_model.ml" cstep crun fresh_opener step_opener Z.of_N Z.to_N.
