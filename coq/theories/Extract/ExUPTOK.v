From Coq Require Import Extraction ExtrOcamlBasic NArith ZArith.
From Tele Require Import Gen.Consts Model.Start Model.UploadStarts.
Extraction Language OCaml.
Extraction "uptok_model.ml" starts_hist not_starved rate_ok c_tokenPeriod_ns N.add Nat.add.
