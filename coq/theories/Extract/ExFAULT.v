(* Extraction of the C05 counter-file models (run from ocaml/gen). ExtrOcamlBasic only. *)
From Coq Require Import Extraction ExtrOcamlBasic ZArith NArith.
From Tele Require Import Model.FileRest Model.FileFault.
Extraction Language OCaml.
Extraction "fault_model.ml" lookup new_counter add_cell table_end place32 head_off fnv rd32 rd64
  scenario rotate1 extend Z.of_N Z.to_N.
