(* Lib/Digits: positional rendering of unbounded naturals and integers as Go's
   fmt renders them (%d, %+d, %x), for ALL N / Z (fuel = bit length, proved
   sufficient), with the lemmas the stack-name proofs need: rendering is
   injective, non-empty, and made of digit characters only.
   Executable definitions first, then lemmas. *)
From Coq Require Import List NArith ZArith Bool Lia.
From Tele Require Import Lib.Bytes.
Import ListNotations.
Open Scope N_scope.

(* least significant digit first *)
Fixpoint digits_rev (base : N) (fuel : nat) (n : N) : list N :=
  match fuel with
  | O => []
  | S f => if n <? base then [n] else (n mod base) :: digits_rev base f (n / base)
  end.
Definition fuel_of (n : N) : nat := S (N.to_nat (N.log2 n)).
Definition digits (base n : N) : list N := rev (digits_rev base (fuel_of n) n).

(* '0'..'9','a'..'z' *)
Definition digit_char (d : N) : N := if d <? 10 then 48 + d else 87 + d.

Definition fmt_dec (n : N) : bytes := map digit_char (digits 10 n).      (* %d of a non-negative value *)
Definition fmt_hex (n : N) : bytes := map digit_char (digits 16 n).      (* %x *)
Definition fmt_d (z : Z) : bytes :=                                       (* %d *)
  (if (z <? 0)%Z then [45] else []) ++ fmt_dec (Z.abs_N z).
Definition fmt_plus_d (z : Z) : bytes :=                                  (* %+d *)
  (if (z <? 0)%Z then [45] else [43]) ++ fmt_dec (Z.abs_N z).

(* value of a digit list, least significant first *)
Fixpoint value_rev (base : N) (ds : list N) : N :=
  match ds with
  | [] => 0
  | d :: ds' => d + base * value_rev base ds'
  end.

(* ---------------------------------------------------------------- lemmas *)

Lemma digits_rev_value base : 2 <= base -> forall fuel n,
  n < 2 ^ N.of_nat fuel -> (0 < fuel)%nat ->
  value_rev base (digits_rev base fuel n) = n.
Proof.
  intros Hb fuel. induction fuel as [|f IH]; intros n Hn Hf; [lia|].
  cbn [digits_rev]. destruct (N.ltb_spec n base) as [Hlt|Hge].
  - cbn [value_rev]. lia.
  - cbn [value_rev].
    assert (Hf1 : (0 < f)%nat).
    { destruct f; [|lia]. cbn in Hn. lia. }
    rewrite IH; [| |exact Hf1].
    + pose proof (N.div_mod n base ltac:(lia)). lia.
    + rewrite Nat2N.inj_succ, N.pow_succ_r' in Hn.
      apply N.div_lt_upper_bound; [lia|].
      assert (2 * 2 ^ N.of_nat f <= base * 2 ^ N.of_nat f) by (apply N.mul_le_mono_r; exact Hb).
      lia.
Qed.

Lemma fuel_of_bound n : n < 2 ^ N.of_nat (fuel_of n).
Proof.
  unfold fuel_of. rewrite Nat2N.inj_succ, N2Nat.id.
  destruct (N.eq_dec n 0) as [->|Hn]; [cbn; lia|].
  apply N.log2_spec. lia.
Qed.

Lemma digits_value base n : 2 <= base -> value_rev base (rev (digits base n)) = n.
Proof.
  intro Hb. unfold digits. rewrite rev_involutive.
  apply digits_rev_value; [exact Hb|apply fuel_of_bound|unfold fuel_of; lia].
Qed.

Lemma digits_inj base a b : 2 <= base -> digits base a = digits base b -> a = b.
Proof.
  intros Hb H. rewrite <- (digits_value base a Hb), <- (digits_value base b Hb), H. reflexivity.
Qed.

Lemma digits_rev_lt base : 0 < base -> forall fuel n, Forall (fun d => d < base) (digits_rev base fuel n).
Proof.
  intros Hb fuel. induction fuel as [|f IH]; intros n; cbn [digits_rev]; [constructor|].
  destruct (N.ltb_spec n base) as [Hlt|Hge].
  - constructor; [exact Hlt|constructor].
  - constructor; [apply N.mod_lt; lia|apply IH].
Qed.

Lemma digits_lt base n : 0 < base -> Forall (fun d => d < base) (digits base n).
Proof.
  intro Hb. unfold digits. apply Forall_rev. apply digits_rev_lt. exact Hb.
Qed.

Lemma digits_rev_nonempty base fuel n : (0 < fuel)%nat -> digits_rev base fuel n <> [].
Proof.
  destruct fuel as [|f]; [lia|]. intros _. cbn [digits_rev].
  destruct (n <? base); discriminate.
Qed.

Lemma digits_nonempty base n : digits base n <> [].
Proof.
  unfold digits. intro H. apply (f_equal (@rev N)) in H. rewrite rev_involutive in H. change (rev (@nil N)) with (@nil N) in H.
  refine (digits_rev_nonempty _ _ _ _ H). unfold fuel_of. lia.
Qed.

Lemma digit_char_inj a b : a < 36 -> b < 36 -> digit_char a = digit_char b -> a = b.
Proof.
  unfold digit_char. intros Ha Hb.
  destruct (N.ltb_spec a 10), (N.ltb_spec b 10); lia.
Qed.

Lemma map_digit_char_inj l1 : forall l2,
  Forall (fun d => d < 36) l1 -> Forall (fun d => d < 36) l2 ->
  map digit_char l1 = map digit_char l2 -> l1 = l2.
Proof.
  induction l1 as [|a l1 IH]; intros [|b l2] H1 H2 H; try discriminate; [reflexivity|].
  cbn [map] in H. injection H as Hab Hl.
  inversion H1; inversion H2; subst.
  f_equal; [apply digit_char_inj; assumption|apply IH; assumption].
Qed.

Lemma Forall_lt_weaken (l : list N) a b : a <= b -> Forall (fun d => d < a) l -> Forall (fun d => d < b) l.
Proof. intros Hab H. eapply Forall_impl; [|exact H]. cbn. intros; lia. Qed.

Lemma fmt_dec_inj a b : fmt_dec a = fmt_dec b -> a = b.
Proof.
  unfold fmt_dec. intro H. apply (digits_inj 10); [lia|].
  apply map_digit_char_inj; [| |exact H];
    (apply Forall_lt_weaken with (a := 10); [lia|apply digits_lt; lia]).
Qed.

Lemma fmt_hex_inj a b : fmt_hex a = fmt_hex b -> a = b.
Proof.
  unfold fmt_hex. intro H. apply (digits_inj 16); [lia|].
  apply map_digit_char_inj; [| |exact H];
    (apply Forall_lt_weaken with (a := 16); [lia|apply digits_lt; lia]).
Qed.

Lemma fmt_dec_nonempty n : fmt_dec n <> [].
Proof.
  unfold fmt_dec. intro H. apply map_eq_nil in H. exact (digits_nonempty _ _ H).
Qed.
Lemma fmt_hex_nonempty n : fmt_hex n <> [].
Proof.
  unfold fmt_hex. intro H. apply map_eq_nil in H. exact (digits_nonempty _ _ H).
Qed.

(* character classes *)
Definition is_dec_char (c : N) : Prop := 48 <= c <= 57.
Definition is_hex_char (c : N) : Prop := 48 <= c <= 57 \/ 97 <= c <= 102.

Lemma fmt_dec_chars n : Forall is_dec_char (fmt_dec n).
Proof.
  unfold fmt_dec. apply Forall_map.
  eapply Forall_impl; [|apply (digits_lt 10 n); lia].
  intros d Hd. cbn in Hd. unfold is_dec_char, digit_char.
  destruct (N.ltb_spec d 10); lia.
Qed.

Lemma fmt_hex_chars n : Forall is_hex_char (fmt_hex n).
Proof.
  unfold fmt_hex. apply Forall_map.
  eapply Forall_impl; [|apply (digits_lt 16 n); lia].
  intros d Hd. cbn in Hd. unfold is_hex_char, digit_char.
  destruct (N.ltb_spec d 10); lia.
Qed.

Lemma fmt_d_inj a b : fmt_d a = fmt_d b -> a = b.
Proof.
  unfold fmt_d. intro H.
  destruct (Z.ltb_spec a 0) as [Ha|Ha], (Z.ltb_spec b 0) as [Hb|Hb]; cbn [app] in H.
  - injection H as H. apply fmt_dec_inj in H. lia.
  - exfalso. pose proof (fmt_dec_chars (Z.abs_N b)) as Hc.
    destruct (fmt_dec (Z.abs_N b)) as [|c l] eqn:E; [discriminate|].
    injection H as H1 _. inversion Hc as [|? ? Hc1 _]; subst. unfold is_dec_char in Hc1. lia.
  - exfalso. pose proof (fmt_dec_chars (Z.abs_N a)) as Hc.
    destruct (fmt_dec (Z.abs_N a)) as [|c l] eqn:E; [discriminate|].
    injection H as H1 _. inversion Hc as [|? ? Hc1 _]; subst. unfold is_dec_char in Hc1. lia.
  - apply fmt_dec_inj in H. lia.
Qed.

Lemma fmt_plus_d_inj a b : fmt_plus_d a = fmt_plus_d b -> a = b.
Proof.
  unfold fmt_plus_d. intro H.
  destruct (Z.ltb_spec a 0) as [Ha|Ha], (Z.ltb_spec b 0) as [Hb|Hb]; cbn [app] in H;
    injection H as H; try discriminate; apply fmt_dec_inj in H; lia.
Qed.

(* the characters of a signed rendering: sign or decimal digit *)
Definition is_signed_char (c : N) : Prop := c = 43 \/ c = 45 \/ is_dec_char c.

Lemma fmt_d_chars z : Forall is_signed_char (fmt_d z).
Proof.
  unfold fmt_d. apply Forall_app. split.
  - destruct (z <? 0)%Z; [constructor; [right; left; reflexivity|constructor]|constructor].
  - eapply Forall_impl; [|apply fmt_dec_chars]. intros c Hc. right. right. exact Hc.
Qed.
Lemma fmt_plus_d_chars z : Forall is_signed_char (fmt_plus_d z).
Proof.
  unfold fmt_plus_d. apply Forall_app. split.
  - destruct (z <? 0)%Z; (constructor; [|constructor]); [right; left; reflexivity|left; reflexivity].
  - eapply Forall_impl; [|apply fmt_dec_chars]. intros c Hc. right. right. exact Hc.
Qed.

Lemma fmt_d_nonempty z : fmt_d z <> [].
Proof.
  unfold fmt_d. intro H. apply app_eq_nil in H as [_ H]. exact (fmt_dec_nonempty _ H).
Qed.
