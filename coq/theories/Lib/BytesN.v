(* Lib/BytesN: byte strings addressed by binary offsets (N), as the counter
   file code addresses its mapping: bounded reads of little-endian words,
   slices, in-place overwrites.  Executable definitions first (they avoid
   unary numbers so that the extracted code handles multi-page files), then
   the lemmas relating them to firstn/skipn/nth and to each other. *)
From Coq Require Import List Arith NArith ZArith Bool Lia.
From Tele Require Import Lib.Bytes.
Import ListNotations.
Open Scope N_scope.

(* lia extended with div/mod by constants *)
Ltac divlia := zify; Z.to_euclidean_division_equations; lia.

(* length as a binary number, one pass, no unary intermediate *)
Fixpoint len_acc (bs : bytes) (acc : N) : N :=
  match bs with [] => acc | _ :: t => len_acc t (N.succ acc) end.
Definition len (bs : bytes) : N := len_acc bs 0.

Fixpoint takeN (l : bytes) (n : N) : bytes :=
  match l with
  | [] => []
  | x :: t => if n =? 0 then [] else x :: takeN t (N.pred n)
  end.

Fixpoint dropN (l : bytes) (n : N) : bytes :=
  match l with
  | [] => []
  | x :: t => if n =? 0 then l else dropN t (N.pred n)
  end.

Definition getb (bs : bytes) (i : N) : N :=
  match dropN bs i with x :: _ => x | [] => 0 end.

Definition word4 (a b c d : N) : N := a + 256 * (b + 256 * (c + 256 * d)).

(* little-endian uint32 at off; bytes beyond the end read as 0 *)
Definition get32 (bs : bytes) (off : N) : N :=
  match dropN bs off with
  | a :: b :: c :: d :: _ => word4 a b c d
  | [a; b; c] => word4 a b c 0
  | [a; b] => word4 a b 0 0
  | [a] => word4 a 0 0 0
  | [] => 0
  end.

Definition get64 (bs : bytes) (off : N) : N := get32 bs off + 4294967296 * get32 bs (off + 4).

Definition slice (bs : bytes) (off n : N) : bytes := takeN (dropN bs off) n.

(* overwrite len d bytes at off (callers guarantee off + len d <= len bs) *)
Fixpoint overwrite (l d : bytes) : bytes :=
  match d, l with
  | [], _ => l
  | y :: d', _ :: l' => y :: overwrite l' d'
  | _, [] => d
  end.
Fixpoint put (bs : bytes) (off : N) (d : bytes) : bytes :=
  match bs with
  | [] => d
  | x :: t => if off =? 0 then overwrite bs d else x :: put t (N.pred off) d
  end.

Definition zeros (n : N) : bytes := N.iter n (cons 0) [].

Definition all_zero (bs : bytes) : bool := forallb (N.eqb 0) bs.

(* ------------------------------------------------------------------ *)
(* relation to the unary library                                       *)

Lemma takeN_firstn l : forall n, takeN l n = firstn (N.to_nat n) l.
Proof.
  induction l as [|x t IH]; intro n; cbn [takeN].
  - now rewrite firstn_nil.
  - destruct (N.eqb_spec n 0) as [->|Hn]; [reflexivity|].
    replace (N.to_nat n) with (S (N.to_nat (N.pred n))) by lia.
    cbn [firstn]. now rewrite IH.
Qed.

Lemma dropN_skipn l : forall n, dropN l n = skipn (N.to_nat n) l.
Proof.
  induction l as [|x t IH]; intro n; cbn [dropN].
  - now rewrite skipn_nil.
  - destruct (N.eqb_spec n 0) as [->|Hn]; [reflexivity|].
    replace (N.to_nat n) with (S (N.to_nat (N.pred n))) by lia.
    cbn [skipn]. now rewrite IH.
Qed.

Lemma getb_nth bs i : getb bs i = nth (N.to_nat i) bs 0.
Proof.
  unfold getb. rewrite dropN_skipn.
  rewrite <- (firstn_skipn (N.to_nat i) bs) at 2.
  destruct (Nat.le_gt_cases (length bs) (N.to_nat i)) as [H|H].
  - rewrite skipn_all2 by exact H. rewrite app_nil_r.
    rewrite nth_overflow; [reflexivity|]. rewrite firstn_length. lia.
  - rewrite app_nth2; rewrite firstn_length; [|lia].
    replace (N.to_nat i - Nat.min (N.to_nat i) (length bs))%nat with 0%nat by lia.
    destruct (skipn (N.to_nat i) bs); reflexivity.
Qed.

Lemma len_acc_length bs : forall acc, len_acc bs acc = acc + N.of_nat (length bs).
Proof.
  induction bs as [|x t IH]; intro acc; cbn [len_acc length]; [lia|]. rewrite IH. lia.
Qed.
Lemma len_length bs : len bs = N.of_nat (length bs).
Proof. unfold len. now rewrite len_acc_length. Qed.

Lemma len_nil : len [] = 0. Proof. reflexivity. Qed.
Lemma len_cons x l : len (x :: l) = len l + 1.
Proof. rewrite !len_length. cbn [length]. lia. Qed.
Lemma len_app a b : len (a ++ b) = len a + len b.
Proof. rewrite !len_length. rewrite app_length. lia. Qed.

Lemma len_takeN l n : len (takeN l n) = N.min n (len l).
Proof. rewrite !len_length. rewrite takeN_firstn, firstn_length. lia. Qed.

Lemma len_dropN l n : len (dropN l n) = len l - n.
Proof. rewrite !len_length. rewrite dropN_skipn, skipn_length. lia. Qed.

Lemma len_slice bs off n : off + n <= len bs -> len (slice bs off n) = n.
Proof. intro H. unfold slice. rewrite len_takeN, len_dropN. lia. Qed.

Lemma len_slice_le bs off n : len (slice bs off n) <= n.
Proof. unfold slice. rewrite len_takeN. lia. Qed.

Lemma zeros_repeat n : zeros n = repeat 0 (N.to_nat n).
Proof.
  unfold zeros. induction n as [|n IH] using N.peano_ind; [reflexivity|].
  rewrite N.iter_succ, IH, N2Nat.inj_succ. reflexivity.
Qed.

Lemma len_zeros n : len (zeros n) = n.
Proof. rewrite !len_length. rewrite zeros_repeat, repeat_length. lia. Qed.

Lemma overwrite_spec l d : (length d <= length l)%nat ->
  overwrite l d = d ++ skipn (length d) l.
Proof.
  revert l; induction d as [|y d IH]; intros l H.
  - destruct l; reflexivity.
  - destruct l as [|x l]; [cbn in H; lia|]. cbn [overwrite length skipn app]. f_equal. apply IH. cbn in H. lia.
Qed.

Lemma put_spec bs : forall off d, off + len d <= len bs ->
  put bs off d = takeN bs off ++ d ++ dropN bs (off + len d).
Proof.
  induction bs as [|x t IH]; intros off d H.
  - rewrite len_nil in H. assert (len d = 0) by lia. destruct d; [reflexivity|].
    rewrite len_cons in *. lia.
  - cbn [put takeN]. destruct (N.eqb_spec off 0) as [->|Hn].
    + rewrite overwrite_spec by (rewrite !len_length in H; lia).
      cbn [app]. f_equal. rewrite dropN_skipn. f_equal. rewrite len_length. lia.
    + cbn [app]. f_equal. rewrite IH by (rewrite len_cons in H; lia).
      f_equal. f_equal. cbn [dropN].
      destruct (N.eqb_spec (off + len d) 0) as [E|E]; [lia|]. f_equal. lia.
Qed.

Lemma len_put bs off d : off + len d <= len bs -> len (put bs off d) = len bs.
Proof.
  intro H. rewrite put_spec by exact H. rewrite !len_app, len_takeN, len_dropN. lia.
Qed.

Lemma getb_overflow bs i : len bs <= i -> getb bs i = 0.
Proof. intro H. rewrite getb_nth. apply nth_overflow. rewrite !len_length in H. lia. Qed.

Lemma getb_app_l a b i : i < len a -> getb (a ++ b) i = getb a i.
Proof. intro H. rewrite !getb_nth. apply app_nth1. rewrite !len_length in H. lia. Qed.

Lemma getb_app_r a b i : len a <= i -> getb (a ++ b) i = getb b (i - len a).
Proof.
  intro H. rewrite !getb_nth. rewrite !len_length in *. rewrite app_nth2 by lia.
  f_equal. lia.
Qed.

Lemma getb_zeros n i : getb (zeros n) i = 0.
Proof.
  rewrite getb_nth, zeros_repeat.
  destruct (Nat.lt_ge_cases (N.to_nat i) (N.to_nat n)) as [H|H].
  - now rewrite nth_repeat.
  - apply nth_overflow. rewrite repeat_length. lia.
Qed.

Lemma getb_app_zeros bs n i : getb (bs ++ zeros n) i = getb bs i.
Proof.
  destruct (N.lt_ge_cases i (len bs)) as [H|H].
  - now apply getb_app_l.
  - rewrite getb_app_r by exact H. rewrite getb_zeros. symmetry. now apply getb_overflow.
Qed.

Lemma getb_takeN bs n i : i < n -> getb (takeN bs n) i = getb bs i.
Proof.
  intro H. rewrite !getb_nth, takeN_firstn.
  rewrite <- (firstn_skipn (N.to_nat n) bs) at 2.
  destruct (Nat.lt_ge_cases (N.to_nat i) (length (firstn (N.to_nat n) bs))) as [H1|H1].
  - now rewrite app_nth1.
  - rewrite nth_overflow by exact H1. symmetry. apply nth_overflow.
    rewrite firstn_length in H1. rewrite app_length, firstn_length, skipn_length. lia.
Qed.

Lemma getb_dropN bs n i : getb (dropN bs n) i = getb bs (n + i).
Proof.
  rewrite !getb_nth, dropN_skipn.
  rewrite <- (firstn_skipn (N.to_nat n) bs) at 2.
  destruct (Nat.le_gt_cases (N.to_nat n) (length bs)) as [H|H].
  - rewrite app_nth2; rewrite firstn_length; [|lia]. f_equal. lia.
  - rewrite skipn_all2 by lia. rewrite app_nil_r. rewrite !nth_overflow; auto.
    + rewrite firstn_length. lia.
    + cbn. lia.
Qed.

Lemma getb_slice bs off n i : i < n -> getb (slice bs off n) i = getb bs (off + i).
Proof. intro H. unfold slice. rewrite getb_takeN by exact H. apply getb_dropN. Qed.

Lemma getb_put bs off d i : off + len d <= len bs ->
  getb (put bs off d) i =
  if (off <=? i) && (i <? off + len d) then getb d (i - off) else getb bs i.
Proof.
  intro H. rewrite put_spec by exact H.
  destruct (N.leb_spec off i) as [H1|H1]; cbn [andb].
  - rewrite getb_app_r by (rewrite len_takeN; lia).
    rewrite len_takeN. replace (N.min off (len bs)) with off by lia.
    destruct (N.ltb_spec i (off + len d)) as [H2|H2].
    + apply getb_app_l. lia.
    + rewrite getb_app_r by lia. rewrite getb_dropN. f_equal. lia.
  - rewrite getb_app_l by (rewrite len_takeN; lia). now apply getb_takeN.
Qed.

(* extensionality: equal length and equal bytes *)
Lemma bytes_ext a b : len a = len b -> (forall i, i < len a -> getb a i = getb b i) -> a = b.
Proof.
  intros Hl H. apply (nth_ext a b 0 0).
  - rewrite !len_length in Hl. lia.
  - intros n Hn. specialize (H (N.of_nat n)). rewrite !getb_nth, Nat2N.id in H.
    apply H. rewrite !len_length. lia.
Qed.

Lemma slice_ext2 a b i j n : i + n <= len a -> j + n <= len b ->
  (forall k, k < n -> getb a (i + k) = getb b (j + k)) -> slice a i n = slice b j n.
Proof.
  intros Ha Hb H. apply bytes_ext.
  - now rewrite !len_slice.
  - intros k Hk. rewrite len_slice in Hk by exact Ha. rewrite !getb_slice by exact Hk. now apply H.
Qed.

Lemma slice_ext a b off n : off + n <= len a -> off + n <= len b ->
  (forall i, i < n -> getb a (off + i) = getb b (off + i)) -> slice a off n = slice b off n.
Proof. apply slice_ext2. Qed.

Lemma slice_all bs : slice bs 0 (len bs) = bs.
Proof.
  apply bytes_ext.
  - rewrite len_slice; lia.
  - intros i Hi. rewrite len_slice in Hi by lia. now rewrite getb_slice.
Qed.

Lemma slice_app_l a b : slice (a ++ b) 0 (len a) = a.
Proof.
  apply bytes_ext.
  - rewrite len_slice; [reflexivity|]. rewrite len_app. lia.
  - intros i Hi. rewrite len_slice in Hi by (rewrite len_app; lia).
    rewrite getb_slice by exact Hi. now apply getb_app_l.
Qed.

Lemma get32_getb bs off :
  get32 bs off = word4 (getb bs off) (getb bs (off + 1)) (getb bs (off + 2)) (getb bs (off + 3)).
Proof.
  rewrite <- !getb_dropN. unfold get32.
  rewrite <- (N.add_0_r off) at 2. rewrite <- !getb_dropN.
  unfold getb.
  destruct (dropN bs off) as [|a [|b [|c [|d t]]]]; reflexivity.
Qed.

Lemma get32_ext2 a b i j :
  (forall k, k < 4 -> getb a (i + k) = getb b (j + k)) -> get32 a i = get32 b j.
Proof.
  intro H. rewrite !get32_getb.
  rewrite <- (N.add_0_r i) at 1. rewrite <- (N.add_0_r j) at 1. rewrite !H by lia. reflexivity.
Qed.

Lemma get32_ext a b off :
  (forall i, i < 4 -> getb a (off + i) = getb b (off + i)) -> get32 a off = get32 b off.
Proof. apply get32_ext2. Qed.

Lemma get64_ext2 a b i j :
  (forall k, k < 8 -> getb a (i + k) = getb b (j + k)) -> get64 a i = get64 b j.
Proof.
  intro H. unfold get64. f_equal.
  - apply get32_ext2. intros k Hk. apply H. lia.
  - f_equal. apply get32_ext2. intros k Hk. rewrite <- !N.add_assoc. apply H. lia.
Qed.

Lemma get64_ext a b off :
  (forall i, i < 8 -> getb a (off + i) = getb b (off + i)) -> get64 a off = get64 b off.
Proof. apply get64_ext2. Qed.

(* bytes < 256 *)
Definition bytes_ok (bs : bytes) : Prop := Forall (fun x => x < 256) bs.

Lemma getb_lt bs i : bytes_ok bs -> getb bs i < 256.
Proof.
  intro H. rewrite getb_nth.
  destruct (Nat.lt_ge_cases (N.to_nat i) (length bs)) as [Hi|Hi].
  - unfold bytes_ok in H. rewrite Forall_forall in H. apply H. now apply nth_In.
  - rewrite nth_overflow by exact Hi. lia.
Qed.

Lemma get32_lt bs off : bytes_ok bs -> get32 bs off < 4294967296.
Proof.
  intro H. rewrite get32_getb. unfold word4.
  pose proof (getb_lt bs off H). pose proof (getb_lt bs (off + 1) H).
  pose proof (getb_lt bs (off + 2) H). pose proof (getb_lt bs (off + 3) H). lia.
Qed.

Lemma get64_lt bs off : bytes_ok bs -> get64 bs off < 18446744073709551616.
Proof.
  intro H. unfold get64.
  pose proof (get32_lt bs off H). pose proof (get32_lt bs (off + 4) H). lia.
Qed.

Lemma le32_ok v : bytes_ok (le32 v).
Proof.
  unfold le32, bytes_ok. repeat constructor; apply N.mod_lt; lia.
Qed.

Lemma len_le32 v : len (le32 v) = 4. Proof. reflexivity. Qed.
Lemma len_le64 v : len (le64 v) = 8. Proof. reflexivity. Qed.

Lemma le32_word v : v < 4294967296 ->
  word4 (v mod 256) ((v / 256) mod 256) ((v / 65536) mod 256) ((v / 16777216) mod 256) = v.
Proof.
  intro H. unfold word4.
  change 65536 with (256 * 256). change 16777216 with (256 * 256 * 256).
  rewrite <- !N.div_div by lia.
  pose proof (N.div_mod v 256). pose proof (N.div_mod (v / 256) 256).
  pose proof (N.div_mod (v / 256 / 256) 256).
  assert (v / 256 / 256 / 256 < 256).
  { repeat (apply N.div_lt_upper_bound; [lia|]). lia. }
  rewrite (N.mod_small (v / 256 / 256 / 256)) by assumption. lia.
Qed.

Lemma get32_le32 v t : v < 4294967296 -> get32 (le32 v ++ t) 0 = v.
Proof. intro H. exact (le32_word v H). Qed.

Lemma get32_put_same bs off v : off + 4 <= len bs -> v < 4294967296 ->
  get32 (put bs off (le32 v)) off = v.
Proof.
  intros H Hv. transitivity (get32 (le32 v ++ []) 0); [|now apply get32_le32].
  rewrite app_nil_r. apply get32_ext2. intros i Hi.
  rewrite getb_put by (rewrite len_le32; exact H). rewrite len_le32.
  replace ((off <=? off + i) && (off + i <? off + 4)) with true
    by (symmetry; apply andb_true_iff; split; [apply N.leb_le|apply N.ltb_lt]; lia).
  f_equal. lia.
Qed.

Lemma get32_put_other bs off d i : off + len d <= len bs ->
  i + 4 <= off \/ off + len d <= i -> get32 (put bs off d) i = get32 bs i.
Proof.
  intros H Hd. apply get32_ext. intros j Hj. rewrite getb_put by exact H.
  replace ((off <=? i + j) && (i + j <? off + len d)) with false; [reflexivity|].
  symmetry. apply andb_false_iff.
  destruct Hd; [left; apply N.leb_gt|right; apply N.ltb_ge]; lia.
Qed.

Lemma get64_put_other bs off d i : off + len d <= len bs ->
  i + 8 <= off \/ off + len d <= i -> get64 (put bs off d) i = get64 bs i.
Proof.
  intros H Hd. unfold get64. rewrite !get32_put_other by (try exact H; lia). reflexivity.
Qed.

Lemma get64_le64 v t : v < 18446744073709551616 -> get64 (le64 v ++ t) 0 = v.
Proof.
  intro H. unfold get64, le64.
  assert (Hq : v / 4294967296 < 4294967296) by (apply N.div_lt_upper_bound; lia).
  assert (Hr : v mod 4294967296 < 4294967296) by (apply N.mod_lt; lia).
  rewrite <- app_assoc.
  rewrite (get32_le32 _ _ Hr).
  replace (get32 (le32 (v mod 4294967296) ++ le32 (v / 4294967296) ++ t) (0 + 4))
    with (get32 (le32 (v / 4294967296) ++ t) 0).
  - rewrite (get32_le32 _ _ Hq). pose proof (N.div_mod v 4294967296). lia.
  - unfold le32. reflexivity.
Qed.

Lemma get64_put_same bs off v : off + 8 <= len bs -> v < 18446744073709551616 ->
  get64 (put bs off (le64 v)) off = v.
Proof.
  intros H Hv. transitivity (get64 (le64 v ++ []) 0); [|now apply get64_le64].
  rewrite app_nil_r. apply get64_ext2. intros i Hi.
  rewrite getb_put by (rewrite len_le64; exact H). rewrite len_le64.
  replace ((off <=? off + i) && (off + i <? off + 8)) with true
    by (symmetry; apply andb_true_iff; split; [apply N.leb_le|apply N.ltb_lt]; lia).
  f_equal. lia.
Qed.

Lemma slice_put_same bs off d : off + len d <= len bs -> slice (put bs off d) off (len d) = d.
Proof.
  intro H. apply bytes_ext.
  - rewrite len_slice; [reflexivity|]. now rewrite len_put.
  - intros i Hi. rewrite len_slice in Hi by (now rewrite len_put).
    rewrite getb_slice by exact Hi. rewrite getb_put by exact H.
    replace ((off <=? off + i) && (off + i <? off + len d)) with true
      by (symmetry; apply andb_true_iff; split; [apply N.leb_le|apply N.ltb_lt]; lia).
    f_equal. lia.
Qed.

Lemma slice_put_other bs off d i n : off + len d <= len bs -> i + n <= len bs ->
  i + n <= off \/ off + len d <= i -> slice (put bs off d) i n = slice bs i n.
Proof.
  intros H Hn Hd. apply slice_ext; [now rewrite len_put|exact Hn|].
  intros j Hj. rewrite getb_put by exact H.
  replace ((off <=? i + j) && (i + j <? off + len d)) with false; [reflexivity|].
  symmetry. apply andb_false_iff.
  destruct Hd; [left; apply N.leb_gt|right; apply N.ltb_ge]; lia.
Qed.

Lemma slice_slice bs off n i k : i + k <= n -> off + n <= len bs ->
  slice (slice bs off n) i k = slice bs (off + i) k.
Proof.
  intros H Hn. apply slice_ext2.
  - rewrite len_slice; lia.
  - lia.
  - intros j Hj. rewrite getb_slice by lia. f_equal. lia.
Qed.

Lemma dropN_0 bs : dropN bs 0 = bs.
Proof. destruct bs; reflexivity. Qed.

Lemma takeN_dropN bs n : takeN bs n ++ dropN bs n = bs.
Proof. rewrite takeN_firstn, dropN_skipn. apply firstn_skipn. Qed.

Lemma has_prefix_slice bs p : has_prefix bs p = true <-> (len p <= len bs /\ slice bs 0 (len p) = p).
Proof.
  rewrite has_prefix_app. split.
  - intros [t ->]. split; [rewrite len_app; lia|apply slice_app_l].
  - intros [Hl Hs]. exists (dropN bs (len p)). rewrite <- Hs at 1.
    unfold slice. rewrite dropN_0. symmetry. apply takeN_dropN.
Qed.

Lemma bytes_ok_app a b : bytes_ok (a ++ b) <-> bytes_ok a /\ bytes_ok b.
Proof. apply Forall_app. Qed.

Lemma bytes_ok_zeros n : bytes_ok (zeros n).
Proof.
  rewrite zeros_repeat. unfold bytes_ok. apply Forall_forall. intros x Hx.
  apply repeat_spec in Hx. subst. lia.
Qed.

Lemma bytes_ok_takeN bs n : bytes_ok bs -> bytes_ok (takeN bs n).
Proof. intro H. rewrite <- (takeN_dropN bs n) in H. apply bytes_ok_app in H. tauto. Qed.

Lemma bytes_ok_dropN bs n : bytes_ok bs -> bytes_ok (dropN bs n).
Proof. intro H. rewrite <- (takeN_dropN bs n) in H. apply bytes_ok_app in H. tauto. Qed.

Lemma bytes_ok_slice bs off n : bytes_ok bs -> bytes_ok (slice bs off n).
Proof. intro H. unfold slice. now apply bytes_ok_takeN, bytes_ok_dropN. Qed.

Lemma bytes_ok_overwrite l d : bytes_ok l -> bytes_ok d -> bytes_ok (overwrite l d).
Proof.
  revert l; induction d as [|y d IH]; intros l Hl Hd; [destruct l; exact Hl|].
  destruct l as [|x l]; [exact Hd|]. cbn [overwrite].
  inversion Hl; inversion Hd; subst. constructor; [assumption|now apply IH].
Qed.

Lemma bytes_ok_put bs : forall off d, bytes_ok bs -> bytes_ok d -> bytes_ok (put bs off d).
Proof.
  induction bs as [|x t IH]; intros off d H Hd; cbn [put]; [exact Hd|].
  destruct (off =? 0); [now apply bytes_ok_overwrite|].
  inversion H; subst. constructor; [assumption|now apply IH].
Qed.
