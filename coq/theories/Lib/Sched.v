(* Lib/Sched: interleaving semantics for small concurrent programs.

   A system is a step function `step : St -> A -> St`; a schedule is a list
   of actions (typically "thread i takes its next atomic step", or an
   environment action such as time passing); `run` folds the schedule.  Every
   interleaving of any number of threads is a schedule, so a statement
   `forall sched, ...` quantifies over all of them, with no bound on the
   number of threads or steps.

   The thread pool is a list of program counters; `upd` replaces one, `count`
   counts the threads satisfying a predicate, and `count_upd` says how a
   one-thread update changes a count. *)
From Coq Require Import List Arith Bool Lia.
Import ListNotations.

Section Run.
  Variables (St A : Type) (step : St -> A -> St).

  Definition run (sched : list A) (st : St) : St := fold_left step sched st.

  Lemma run_nil st : run [] st = st.
  Proof. reflexivity. Qed.
  Lemma run_cons a sched st : run (a :: sched) st = run sched (step st a).
  Proof. reflexivity. Qed.
  Lemma run_app s1 s2 st : run (s1 ++ s2) st = run s2 (run s1 st).
  Proof. unfold run. apply fold_left_app. Qed.

  (* an invariant preserved by every action holds after every schedule *)
  Lemma run_invariant (Inv : St -> Prop) :
    (forall st a, Inv st -> Inv (step st a)) ->
    forall sched st, Inv st -> Inv (run sched st).
  Proof.
    intros Hstep sched. induction sched as [|a r IH]; intros st H; [exact H|].
    rewrite run_cons. apply IH. apply Hstep. exact H.
  Qed.

  (* the same with an invariant that may mention the rest of the schedule
     (e.g. "the time still to elapse") *)
  Lemma run_invariant_sched (Inv : St -> list A -> Prop) :
    (forall st a rest, Inv st (a :: rest) -> Inv (step st a) rest) ->
    forall sched st, Inv st sched -> Inv (run sched st) [].
  Proof.
    intros Hstep sched. induction sched as [|a r IH]; intros st H; [exact H|].
    rewrite run_cons. apply IH. apply Hstep. exact H.
  Qed.
End Run.

Section Pool.
  Variable PC : Type.

  Fixpoint upd (i : nat) (x : PC) (l : list PC) : list PC :=
    match l, i with
    | [], _ => []
    | _ :: t, O => x :: t
    | h :: t, S j => h :: upd j x t
    end.

  Definition count (f : PC -> bool) (l : list PC) : nat := length (filter f l).

  Lemma upd_length i x l : length (upd i x l) = length l.
  Proof. revert i; induction l as [|h t IH]; intros [|j]; cbn; auto. Qed.

  Lemma nth_error_upd_same i x l old : nth_error l i = Some old -> nth_error (upd i x l) i = Some x.
  Proof.
    revert i; induction l as [|h t IH]; intros [|j]; cbn; try discriminate; auto.
  Qed.

  Lemma nth_error_upd_other i j x l : i <> j -> nth_error (upd i x l) j = nth_error l j.
  Proof.
    revert i j; induction l as [|h t IH]; intros [|i] [|j] NE; cbn; auto; try contradiction.
  Qed.

  Lemma upd_none i x l : nth_error l i = None -> upd i x l = l.
  Proof.
    revert i; induction l as [|h t IH]; intros [|j]; cbn; try discriminate; auto.
    intros H. f_equal. auto.
  Qed.

  Definition b2n (b : bool) : nat := if b then 1 else 0.

  Lemma count_cons f h t : count f (h :: t) = b2n (f h) + count f t.
  Proof. unfold count. cbn. destruct (f h); reflexivity. Qed.

  (* replacing thread i (which was at `old`) by `x` moves one unit of count *)
  Lemma count_upd f i x l old : nth_error l i = Some old ->
    count f (upd i x l) + b2n (f old) = count f l + b2n (f x).
  Proof.
    revert i; induction l as [|h t IH]; intros [|j]; cbn [nth_error upd]; try discriminate.
    - intros [= ->]. rewrite !count_cons. lia.
    - intros H. rewrite !count_cons. specialize (IH j H). lia.
  Qed.

  Lemma count_repeat f x n : count f (repeat x n) = if f x then n else 0.
  Proof.
    induction n as [|n IH]; cbn [repeat]; [destruct (f x); reflexivity|].
    rewrite count_cons, IH. destruct (f x); reflexivity.
  Qed.

  Lemma count_zero f l : count f l = 0 <-> forall x, In x l -> f x = false.
  Proof.
    induction l as [|h t IH]; [split; [intros _ x [] | reflexivity]|].
    rewrite count_cons. split.
    - intros H x [<- | Hin].
      + destruct (f h); [cbn in H; lia | reflexivity].
      + apply IH; [destruct (f h); cbn in H; lia | exact Hin].
    - intros H. rewrite (H h (or_introl eq_refl)). cbn. apply IH. intros x Hin. apply H. right. exact Hin.
  Qed.

  Lemma count_le_length f l : count f l <= length l.
  Proof.
    induction l as [|h t IH]; [apply Nat.le_refl|]. rewrite count_cons. cbn [length].
    destruct (f h); cbn [b2n]; lia.
  Qed.
End Pool.

Arguments run {St A} step sched st.
Arguments upd {PC} i x l.
Arguments count {PC} f l.
