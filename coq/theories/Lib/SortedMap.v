(* Lib/SortedMap: association lists kept sorted by a comparison function, and
   the lexicographic lift of a comparison to lists.  Executable definitions
   only; lemmas are in Proofs/SortedMapFacts.v. *)
From Coq Require Import List.
Import ListNotations.

Section Lex.
  Variable A : Type.
  Variable c : A -> A -> comparison.
  (* lexicographic order on lists; a proper prefix is smaller *)
  Fixpoint lex_cmp (a b : list A) : comparison :=
    match a, b with
    | [], [] => Eq
    | [], _ :: _ => Lt
    | _ :: _, [] => Gt
    | x :: a', y :: b' => match c x y with Eq => lex_cmp a' b' | r => r end
    end.
End Lex.
Arguments lex_cmp {A} c a b.

Section SMap.
  Variables K V : Type.
  Variable cmp : K -> K -> comparison.

  (* first entry whose key compares Eq *)
  Fixpoint get (k : K) (m : list (K * V)) : option V :=
    match m with
    | [] => None
    | (k', v) :: m' => match cmp k k' with Eq => Some v | _ => get k m' end
    end.

  (* sorted insertion; an existing key is overwritten *)
  Fixpoint put (k : K) (v : V) (m : list (K * V)) : list (K * V) :=
    match m with
    | [] => [(k, v)]
    | (k', v') :: m' =>
        match cmp k k' with
        | Eq => (k, v) :: m'
        | Lt => (k, v) :: (k', v') :: m'
        | Gt => (k', v') :: put k v m'
        end
    end.

  Definition keys (m : list (K * V)) : list K := map fst m.
End SMap.
Arguments get {K V} cmp k m.
Arguments put {K V} cmp k v m.
Arguments keys {K V} m.

Section FilterMap.
  Variables K V W : Type.
  Variable f : V -> option W.
  Fixpoint fmf (m : list (K * V)) : list (K * W) :=
    match m with
    | [] => []
    | (k, v) :: m' => match f v with Some w => (k, w) :: fmf m' | None => fmf m' end
    end.
End FilterMap.
Arguments fmf {K V W} f m.
