(* Lib/Str: single-byte-separator string functions (strings.Cut / Split / Join
   / TrimSuffix with a one-byte separator) in structural form, with the
   lemmas the configuration / report models need.  Lib/Bytes has the general
   substring versions; cut_byte_is_cut ties the two. *)
From Coq Require Import List NArith Arith Bool Lia.
From Tele Require Import Lib.Bytes.
Import ListNotations.
Open Scope N_scope.

(* strings.Cut(s, string(c)) *)
Fixpoint cut_byte (s : bytes) (c : N) : bytes * bytes * bool :=
  match s with
  | [] => ([], [], false)
  | x :: s' =>
      if N.eqb x c then ([], s', true)
      else let '(a, b, f) := cut_byte s' c in (x :: a, b, f)
  end.

Definition before_byte (s : bytes) (c : N) : bytes := fst (fst (cut_byte s c)).

(* strings.Contains(s, string(c)) *)
Definition has_byte (s : bytes) (c : N) : bool := existsb (N.eqb c) s.

Lemma has_byte_In s c : has_byte s c = true <-> In c s.
Proof.
  unfold has_byte. rewrite existsb_exists. split.
  - intros [x [Hin He]]. apply N.eqb_eq in He. subst. exact Hin.
  - intro H. exists c. split; [exact H | apply N.eqb_refl].
Qed.

Lemma has_byte_false s c : has_byte s c = false <-> ~ In c s.
Proof.
  rewrite <- has_byte_In. destruct (has_byte s c); split; intro H; try reflexivity;
    try discriminate; try (intro; discriminate). exfalso. apply H. reflexivity.
Qed.

Lemma cut_byte_app p c r : ~ In c p -> cut_byte (p ++ c :: r) c = (p, r, true).
Proof.
  induction p as [|y p IH]; intro Hn.
  - cbn [app cut_byte]. rewrite N.eqb_refl. reflexivity.
  - cbn [app cut_byte]. destruct (N.eqb_spec y c) as [->|Hne].
    + exfalso. apply Hn. left. reflexivity.
    + rewrite IH; [reflexivity|]. intro H. apply Hn. right. exact H.
Qed.

Lemma cut_byte_found_fwd s c : forall a b,
  cut_byte s c = (a, b, true) -> s = a ++ c :: b /\ ~ In c a.
Proof.
  induction s as [|x s IH]; intros a b; cbn [cut_byte]; [discriminate|].
  destruct (N.eqb_spec x c) as [->|Hne].
  - intro H. injection H as <- <-. split; [reflexivity | intros []].
  - destruct (cut_byte s c) as [[a' b'] f'].
    intro H. injection H as <- <- ->. destruct (IH a' b' eq_refl) as [-> Hn].
    split; [reflexivity|]. intros [H|H]; [congruence | contradiction].
Qed.

Lemma cut_byte_found s c a b :
  cut_byte s c = (a, b, true) <-> s = a ++ c :: b /\ ~ In c a.
Proof.
  split; [apply cut_byte_found_fwd|]. intros [-> Hn]. apply cut_byte_app. exact Hn.
Qed.

Lemma cut_byte_notfound s c : ~ In c s -> cut_byte s c = (s, [], false).
Proof.
  induction s as [|x s IH]; intro Hn; cbn [cut_byte]; [reflexivity|].
  destruct (N.eqb_spec x c) as [->|Hne].
  - exfalso. apply Hn. left. reflexivity.
  - rewrite IH; [reflexivity|]. intro H. apply Hn. right. exact H.
Qed.

Lemma cut_byte_flag s c : snd (cut_byte s c) = has_byte s c.
Proof.
  unfold has_byte. induction s as [|x s IH]; cbn [cut_byte existsb]; [reflexivity|].
  rewrite (N.eqb_sym c x). destruct (N.eqb x c); [reflexivity|].
  destruct (cut_byte s c) as [[a b] f]. cbn in *. exact IH.
Qed.

Lemma before_byte_notin s c : ~ In c (before_byte s c).
Proof.
  unfold before_byte. destruct (cut_byte s c) as [[a b] [|]] eqn:E; cbn.
  - apply cut_byte_found in E. tauto.
  - assert (H := cut_byte_flag s c). rewrite E in H. cbn in H. symmetry in H.
    apply has_byte_false in H. rewrite (cut_byte_notfound _ _ H) in E. injection E as <- _. exact H.
Qed.

Lemma before_byte_nostack s c : ~ In c s -> before_byte s c = s.
Proof. intro H. unfold before_byte. rewrite (cut_byte_notfound _ _ H). reflexivity. Qed.

(* the structural cut is the library's substring cut for a one-byte separator *)
Lemma index_sub_single s c :
  index_sub s [c] = index_byte s c.
Proof.
  induction s as [|x s IH]; [reflexivity|].
  cbn [index_sub has_prefix index_byte]. rewrite andb_true_r.
  destruct (N.eqb x c); [reflexivity|]. rewrite IH. reflexivity.
Qed.

Lemma cut_byte_is_cut s c : cut_byte s c = cut s [c].
Proof.
  unfold cut. rewrite index_sub_single.
  induction s as [|x s IH]; [reflexivity|].
  cbn [cut_byte index_byte]. destruct (N.eqb x c) eqn:E; [reflexivity|].
  rewrite IH. destruct (index_byte s c) as [i|]; reflexivity.
Qed.

(* ---- Split / Join with a one-byte separator ---- *)

Lemma split_byte_nosep s c : ~ In c s -> split_byte s c = [s].
Proof.
  induction s as [|x s IH]; intro Hn; [reflexivity|].
  cbn [split_byte]. rewrite IH by (intro H; apply Hn; right; exact H).
  destruct (N.eqb_spec x c) as [->|_]; [|reflexivity].
  exfalso. apply Hn. left. reflexivity.
Qed.

Lemma split_byte_app a c s : ~ In c a ->
  split_byte (a ++ c :: s) c = a :: split_byte s c.
Proof.
  induction a as [|x a IH]; intro Hn.
  - cbn [app split_byte]. destruct (split_byte s c) as [|h t] eqn:E.
    + exfalso. eapply split_byte_nonempty; eauto.
    + rewrite N.eqb_refl. reflexivity.
  - cbn [app split_byte]. rewrite IH by (intro H; apply Hn; right; exact H).
    destruct (N.eqb_spec x c) as [->|_]; [|reflexivity].
    exfalso. apply Hn. left. reflexivity.
Qed.

Lemma split_join bs c : bs <> [] -> (forall b, In b bs -> ~ In c b) ->
  split_byte (join bs [c]) c = bs.
Proof.
  induction bs as [|a bs IH]; intros Hne Hall; [contradiction|].
  destruct bs as [|b bs].
  - cbn [join]. apply split_byte_nosep. apply Hall. left. reflexivity.
  - rewrite join_cons2. change ([c] ++ join (b :: bs) [c]) with (c :: join (b :: bs) [c]).
    rewrite split_byte_app by (apply Hall; left; reflexivity).
    f_equal. apply IH; [discriminate | intros; apply Hall; right; assumption].
Qed.

Lemma has_prefix_refl_app p t : has_prefix (p ++ t) p = true.
Proof. apply has_prefix_app. exists t. reflexivity. Qed.

Lemma trim_suffix_app s suf : trim_suffix (s ++ suf) suf = s.
Proof.
  unfold trim_suffix.
  assert (H : has_suffix (s ++ suf) suf = true) by (apply has_suffix_app; exists s; reflexivity).
  rewrite H, app_length. replace (length s + length suf - length suf)%nat with (length s + 0)%nat by lia.
  rewrite firstn_app_2. cbn. apply app_nil_r.
Qed.

Lemma trim_suffix_none s suf : has_suffix s suf = false -> trim_suffix s suf = s.
Proof. intro H. unfold trim_suffix. rewrite H. reflexivity. Qed.

(* membership in a list of byte strings *)
Definition memb (x : bytes) (l : list bytes) : bool := existsb (beq x) l.

Lemma memb_In x l : memb x l = true <-> In x l.
Proof.
  unfold memb. rewrite existsb_exists. split.
  - intros [y [Hin He]]. apply beq_eq in He. subst. exact Hin.
  - intro H. exists x. split; [exact H | apply beq_refl].
Qed.

Definition pgkey := (bytes * bytes)%type.
Definition key_eqb (a b : pgkey) : bool := beq (fst a) (fst b) && beq (snd a) (snd b).

Lemma key_eqb_eq a b : key_eqb a b = true <-> a = b.
Proof.
  destruct a as [a1 a2], b as [b1 b2]. unfold key_eqb. cbn [fst snd].
  rewrite andb_true_iff, !beq_eq. split; [intros [-> ->]; reflexivity | intro H; injection H; auto].
Qed.

Definition memk (x : pgkey) (l : list pgkey) : bool := existsb (key_eqb x) l.

Lemma memk_In x l : memk x l = true <-> In x l.
Proof.
  unfold memk. rewrite existsb_exists. split.
  - intros [y [Hin He]]. apply key_eqb_eq in He. subst. exact Hin.
  - intro H. exists x. split; [exact H | apply key_eqb_eq; reflexivity].
Qed.
