(* Lib/Assoc: association lists used as models of Go maps and of "find or
   append" slices: first-match lookup, update-in-place-or-append. *)
From Coq Require Import List Bool.
Import ListNotations.

Section Assoc.
  Variables K V : Type.
  Variable eqb : K -> K -> bool.

  Fixpoint aget (k : K) (m : list (K * V)) : option V :=
    match m with
    | [] => None
    | (k', v) :: m' => if eqb k k' then Some v else aget k m'
    end.

  (* if k is present: replace its value by f (Some old) in place;
     otherwise append (k, f None) at the end *)
  Fixpoint aupd (k : K) (f : option V -> V) (m : list (K * V)) : list (K * V) :=
    match m with
    | [] => [(k, f None)]
    | (k', v) :: m' =>
        if eqb k k' then (k', f (Some v)) :: m' else (k', v) :: aupd k f m'
    end.

  Definition akeys (m : list (K * V)) : list K := map fst m.

  Hypothesis eqb_eq : forall a b, eqb a b = true <-> a = b.

  Lemma eqb_refl' a : eqb a a = true.
  Proof. apply eqb_eq. reflexivity. Qed.

  Lemma eqb_neq' a b : a <> b -> eqb a b = false.
  Proof. intro H. destruct (eqb a b) eqn:E; [apply eqb_eq in E; contradiction | reflexivity]. Qed.

  Lemma aget_aupd_same k f m : aget k (aupd k f m) = Some (f (aget k m)).
  Proof.
    induction m as [|[k' v] m IH]; cbn [aupd aget].
    - rewrite eqb_refl'. reflexivity.
    - destruct (eqb k k') eqn:E; cbn [aget]; rewrite E; [reflexivity | exact IH].
  Qed.

  Lemma aget_aupd_other k k2 f m : k2 <> k -> aget k2 (aupd k f m) = aget k2 m.
  Proof.
    intro Hne. induction m as [|[k' v] m IH]; cbn [aupd aget].
    - rewrite (eqb_neq' _ _ Hne). reflexivity.
    - destruct (eqb k k') eqn:E; cbn [aget].
      + apply eqb_eq in E. subst k'. rewrite (eqb_neq' _ _ Hne). reflexivity.
      + destruct (eqb k2 k'); [reflexivity | exact IH].
  Qed.

  Lemma aget_In k v m : aget k m = Some v -> In (k, v) m.
  Proof.
    induction m as [|[k' v'] m IH]; cbn [aget]; [discriminate|].
    destruct (eqb k k') eqn:E.
    - intro H. injection H as ->. apply eqb_eq in E. subst. left. reflexivity.
    - intro H. right. apply IH. exact H.
  Qed.

  Lemma In_aget k v m : NoDup (akeys m) -> In (k, v) m -> aget k m = Some v.
  Proof.
    induction m as [|[k' v'] m IH]; cbn [aget akeys map fst]; intros Hnd Hin; [contradiction|].
    inversion Hnd as [|? ? Hni Hnd']; subst.
    destruct Hin as [H|H].
    - injection H as -> ->. rewrite eqb_refl'. reflexivity.
    - destruct (eqb k k') eqn:E.
      + apply eqb_eq in E. subst k'. exfalso. apply Hni. apply in_map_iff. exists (k, v). split; [reflexivity|exact H].
      + apply IH; assumption.
  Qed.

  Lemma aget_None_notin k m : aget k m = None <-> ~ In k (akeys m).
  Proof.
    induction m as [|[k' v'] m IH]; cbn [aget akeys map fst].
    - split; [intros _ [] | reflexivity].
    - destruct (eqb k k') eqn:E.
      + apply eqb_eq in E. subst. split; [discriminate | intro H; exfalso; apply H; left; reflexivity].
      + rewrite IH. split.
        * intros H [H1|H1]; [subst; rewrite eqb_refl' in E; discriminate | contradiction].
        * intros H H1. apply H. right. exact H1.
  Qed.

  Lemma akeys_aupd k f m :
    akeys (aupd k f m) = if aget k m then akeys m else akeys m ++ [k].
  Proof.
    induction m as [|[k' v] m IH]; cbn [aupd aget akeys map fst app]; [reflexivity|].
    destruct (eqb k k') eqn:E; cbn [map fst]; [reflexivity|].
    fold (akeys (aupd k f m)). rewrite IH. destruct (aget k m); reflexivity.
  Qed.

  Lemma NoDup_aupd k f m : NoDup (akeys m) -> NoDup (akeys (aupd k f m)).
  Proof.
    intro H. rewrite akeys_aupd. destruct (aget k m) eqn:E; [exact H|].
    apply aget_None_notin in E.
    apply NoDup_rev in H. rewrite <- (rev_involutive (akeys m ++ [k])).
    apply NoDup_rev. rewrite rev_app_distr. cbn. constructor; [|exact H].
    rewrite <- in_rev. exact E.
  Qed.

  Lemma In_akeys_aupd k k2 f m : In k2 (akeys (aupd k f m)) <-> k2 = k \/ In k2 (akeys m).
  Proof.
    rewrite akeys_aupd. destruct (aget k m) eqn:E.
    - split; [right; assumption|]. intros [->|H]; [|exact H].
      apply aget_In in E. apply in_map_iff. exists (k, v). split; [reflexivity | exact E].
    - rewrite in_app_iff. cbn. split; [intros [H|[H|[]]]; auto | intros [H|H]; auto].
  Qed.
  Lemma In_aupd k f m k2 v2 :
    In (k2, v2) (aupd k f m) -> (k2 = k /\ v2 = f (aget k m)) \/ In (k2, v2) m.
  Proof.
    induction m as [|[k' v] m IH]; cbn [aupd aget].
    - intros [H|[]]. injection H as <- <-. left. auto.
    - destruct (eqb k k') eqn:E.
      + intros [H|H].
        * injection H as <- <-. apply eqb_eq in E. left. auto.
        * right. right. exact H.
      + intros [H|H].
        * right. left. exact H.
        * destruct (IH H) as [H1|H1]; [left; exact H1 | right; right; exact H1].
  Qed.

  Lemma aget_Some_key k v m : aget k m = Some v -> In k (akeys m).
  Proof. intro H. apply aget_In in H. apply in_map_iff. exists (k, v). auto. Qed.
End Assoc.

Arguments aget {K V} eqb k m.
Arguments aupd {K V} eqb k f m.
Arguments akeys {K V} m.
