(* Lib/Sort: insertion sort by a key under a boolean "less", the
   postcondition of Go's sort.Slice (a permutation in which no later element
   is less than an earlier one), and uniqueness of that permutation when
   "less" is a strict total order on the (distinct) keys.  Second part: the
   lexical order on byte strings (Go's string <, Lib/Bytes.bcmp) is such an
   order. *)
From Coq Require Import List Bool NArith Permutation Sorted Lia.
From Tele Require Import Lib.Bytes.
Import ListNotations.

Section Sort.
  Variables (A K : Type) (kf : A -> K) (lt : K -> K -> bool).

  Fixpoint insert (x : A) (l : list A) : list A :=
    match l with
    | [] => [x]
    | y :: l' => if lt (kf x) (kf y) then x :: y :: l' else y :: insert x l'
    end.

  Fixpoint isort (l : list A) : list A :=
    match l with
    | [] => []
    | x :: l' => insert x (isort l')
    end.

  (* what sort.Slice guarantees for a consistent less *)
  Definition wsorted (l : list A) : Prop :=
    StronglySorted (fun a b => lt (kf b) (kf a) = false) l.

  Fixpoint wsortedb (l : list A) : bool :=
    match l with
    | [] => true
    | a :: l' => forallb (fun b => negb (lt (kf b) (kf a))) l' && wsortedb l'
    end.

  Lemma wsortedb_spec l : wsortedb l = true <-> wsorted l.
  Proof.
    unfold wsorted. induction l as [|a l IH]; cbn [wsortedb].
    - split; [constructor | reflexivity].
    - rewrite andb_true_iff, forallb_forall, IH. split.
      + intros [H1 H2]. constructor; [exact H2|]. apply Forall_forall. intros b Hb.
        specialize (H1 b Hb). destruct (lt (kf b) (kf a)); [discriminate | reflexivity].
      + intros H. inversion H as [|? ? H2 H1]; subst. split; [|exact H2].
        intros b Hb. rewrite Forall_forall in H1. rewrite (H1 b Hb). reflexivity.
  Qed.

  Lemma insert_perm x l : Permutation (insert x l) (x :: l).
  Proof.
    induction l as [|y l IH]; cbn [insert]; [reflexivity|].
    destruct (lt (kf x) (kf y)); [reflexivity|].
    rewrite IH. apply perm_swap.
  Qed.

  Lemma isort_perm l : Permutation (isort l) l.
  Proof.
    induction l as [|x l IH]; cbn [isort]; [reflexivity|].
    rewrite insert_perm. constructor. exact IH.
  Qed.

  Lemma isort_in x l : In x (isort l) <-> In x l.
  Proof.
    split; apply Permutation_in; [apply isort_perm | symmetry; apply isort_perm].
  Qed.

  (* the order properties, required only on a domain D of keys *)
  Variable D : K -> Prop.
  Definition lt_asym := forall a b, D a -> D b -> lt a b = true -> lt b a = false.
  Definition lt_trans := forall a b c, D a -> D b -> D c -> lt a b = true -> lt b c = true -> lt a c = true.
  Definition lt_total := forall a b, D a -> D b -> a <> b -> lt a b = true \/ lt b a = true.

  Lemma insert_wsorted (Hasym : lt_asym) (Htrans : lt_trans) x l :
    D (kf x) -> Forall (fun a => D (kf a)) l -> wsorted l -> wsorted (insert x l).
  Proof.
    unfold wsorted. intros Dx Dl Hs. induction l as [|y l IH]; cbn [insert].
    - constructor; constructor.
    - inversion Hs as [|? ? Hs' Hy]; subst. inversion Dl as [|? ? Dy Dl']; subst.
      destruct (lt (kf x) (kf y)) eqn:E.
      + constructor; [exact Hs|]. constructor.
        * apply (Hasym _ _ Dx Dy E).
        * rewrite Forall_forall in *. intros z Hz.
          destruct (lt (kf z) (kf x)) eqn:Ez; [|reflexivity].
          rewrite <- (Hy z Hz). symmetry. apply (Htrans _ _ _ (Dl' z Hz) Dx Dy Ez E).
      + constructor; [apply IH; assumption|].
        apply Forall_forall. intros z Hz.
        apply (Permutation_in _ (insert_perm x l)) in Hz. destruct Hz as [<-|Hz]; [exact E|].
        rewrite Forall_forall in Hy. apply Hy. exact Hz.
  Qed.

  Lemma isort_wsorted (Hasym : lt_asym) (Htrans : lt_trans) l :
    Forall (fun a => D (kf a)) l -> wsorted (isort l).
  Proof.
    induction l as [|x l IH]; intros Dl; cbn [isort].
    - constructor.
    - inversion Dl as [|? ? Dx Dl']; subst. apply insert_wsorted.
      + exact Hasym.
      + exact Htrans.
      + exact Dx.
      + apply Forall_forall. intros z Hz. apply (proj1 (isort_in z l)) in Hz.
        rewrite Forall_forall in Dl'. apply Dl'. exact Hz.
      + apply IH. exact Dl'.
  Qed.

  (* uniqueness of the sorted permutation *)
  Lemma wsorted_unique (Htotal : lt_total) : forall l1 l2,
    Permutation l1 l2 -> NoDup (map kf l1) -> Forall (fun a => D (kf a)) l1 ->
    wsorted l1 -> wsorted l2 -> l1 = l2.
  Proof.
    unfold wsorted.
    induction l1 as [|a l1 IH]; intros l2 Hp Hnd Dl H1 H2.
    - apply Permutation_nil in Hp. subst. reflexivity.
    - destruct l2 as [|b l2]; [apply Permutation_sym, Permutation_nil in Hp; discriminate|].
      inversion H1 as [|? ? H1' Ha]; subst. inversion H2 as [|? ? H2' Hb]; subst.
      inversion Hnd as [|? ? Hna Hnd']; subst. inversion Dl as [|? ? Da Dl']; subst.
      assert (Eab : a = b).
      { assert (Hin_a : In a (b :: l2)) by (apply (Permutation_in _ Hp); left; reflexivity).
        assert (Hin_b : In b (a :: l1)) by (apply (Permutation_in _ (Permutation_sym Hp)); left; reflexivity).
        destruct Hin_a as [E|Hin_a]; [symmetry; exact E|].
        destruct Hin_b as [E|Hin_b]; [exact E|].
        exfalso.
        rewrite Forall_forall in Ha, Hb, Dl'.
        pose proof (Ha b Hin_b) as Lba. pose proof (Hb a Hin_a) as Lab.
        assert (Hne : kf a <> kf b).
        { intro E. apply Hna. rewrite E. apply in_map. exact Hin_b. }
        destruct (Htotal _ _ Da (Dl' b Hin_b) Hne) as [T|T]; congruence. }
      subst b. f_equal. apply IH; auto. apply (Permutation_cons_inv Hp).
  Qed.

  Lemma sorted_perm_is_isort (Hasym : lt_asym) (Htrans : lt_trans) (Htotal : lt_total) l l' :
    Permutation l' l -> NoDup (map kf l) -> Forall (fun a => D (kf a)) l ->
    wsorted l' -> l' = isort l.
  Proof.
    intros Hp Hnd Dl Hs.
    assert (Dl' : Forall (fun a => D (kf a)) l').
    { rewrite Forall_forall in *. intros z Hz. apply Dl. apply (Permutation_in _ Hp Hz). }
    apply (wsorted_unique Htotal); auto.
    - rewrite Hp. symmetry. apply isort_perm.
    - apply (Permutation_NoDup (l := map kf l)); [|exact Hnd].
      apply Permutation_map. symmetry. exact Hp.
    - apply isort_wsorted; auto.
  Qed.
End Sort.

Arguments insert {A K}.
Arguments isort {A K}.
Arguments wsorted {A K}.
Arguments wsortedb {A K}.

(* ------------------------------------------------------------------ *)
(* the lexical order on byte strings *)

Lemma bcmp_refl a : bcmp a a = Eq.
Proof. induction a as [|x a IH]; cbn [bcmp]; [reflexivity|]. rewrite N.compare_refl. exact IH. Qed.

Lemma bcmp_eq a : forall b, bcmp a b = Eq -> a = b.
Proof.
  induction a as [|x a IH]; intros [|y b] H; cbn [bcmp] in H; try discriminate; [reflexivity|].
  destruct (N.compare x y) eqn:E; try discriminate.
  apply N.compare_eq in E. subst. f_equal. apply IH. exact H.
Qed.

Lemma bcmp_opp a : forall b, bcmp b a = CompOpp (bcmp a b).
Proof.
  induction a as [|x a IH]; intros [|y b]; cbn [bcmp]; try reflexivity.
  rewrite (N.compare_antisym x y). destruct (N.compare x y); cbn [CompOpp]; auto.
Qed.

Lemma bcmp_lt_trans a : forall b c, bcmp a b = Lt -> bcmp b c = Lt -> bcmp a c = Lt.
Proof.
  induction a as [|x a IH]; intros [|y b] [|z c] H1 H2; cbn [bcmp] in *; try discriminate; try reflexivity.
  destruct (N.compare x y) eqn:E1; try discriminate.
  - apply N.compare_eq in E1. subst y.
    destruct (N.compare x z) eqn:E2; try discriminate; [|reflexivity]. eapply IH; eauto.
  - destruct (N.compare y z) eqn:E2; try discriminate.
    + apply N.compare_eq in E2. subst z. rewrite E1. reflexivity.
    + assert (E3 : N.compare x z = Lt).
      { apply N.compare_lt_iff. apply N.compare_lt_iff in E1. apply N.compare_lt_iff in E2. eapply N.lt_trans; eauto. }
      rewrite E3. reflexivity.
Qed.

Lemma bltb_irrefl a : bltb a a = false.
Proof. unfold bltb. rewrite bcmp_refl. reflexivity. Qed.

Lemma bltb_asym a b : bltb a b = true -> bltb b a = false.
Proof. unfold bltb. rewrite (bcmp_opp a b). destruct (bcmp a b); cbn; congruence. Qed.

Lemma bltb_trans a b c : bltb a b = true -> bltb b c = true -> bltb a c = true.
Proof.
  unfold bltb. intros H1 H2.
  destruct (bcmp a b) eqn:E1; try discriminate. destruct (bcmp b c) eqn:E2; try discriminate.
  rewrite (bcmp_lt_trans _ _ _ E1 E2). reflexivity.
Qed.

Lemma bltb_total a b : a <> b -> bltb a b = true \/ bltb b a = true.
Proof.
  unfold bltb. intro Hne. rewrite (bcmp_opp a b).
  destruct (bcmp a b) eqn:E; cbn; auto. apply bcmp_eq in E. contradiction.
Qed.

Lemma bleb_refl a : bleb a a = true.
Proof. unfold bleb. rewrite bcmp_refl. reflexivity. Qed.

Lemma bleb_total a b : bleb a b = true \/ bleb b a = true.
Proof. unfold bleb. rewrite (bcmp_opp a b). destruct (bcmp a b); cbn; auto. Qed.

Lemma bleb_antisym a b : bleb a b = true -> bleb b a = true -> a = b.
Proof.
  unfold bleb. rewrite (bcmp_opp a b). destruct (bcmp a b) eqn:E; cbn; try discriminate.
  intros _ _. apply bcmp_eq. exact E.
Qed.

Lemma bleb_trans a b c : bleb a b = true -> bleb b c = true -> bleb a c = true.
Proof.
  unfold bleb. intros H1 H2.
  destruct (bcmp a b) eqn:E1; try discriminate.
  - apply bcmp_eq in E1. subst. exact H2.
  - destruct (bcmp b c) eqn:E2; try discriminate.
    + apply bcmp_eq in E2. subst. rewrite E1. reflexivity.
    + rewrite (bcmp_lt_trans _ _ _ E1 E2). reflexivity.
Qed.

Lemma bleb_false_lt a b : bleb a b = false -> bleb b a = true.
Proof. intro H. destruct (bleb_total a b); congruence. Qed.

(* the lexical "less" satisfies the three order hypotheses on every domain *)
Lemma lex_asym D : lt_asym bytes bltb D.
Proof. intros a b _ _. apply bltb_asym. Qed.
Lemma lex_trans D : lt_trans bytes bltb D.
Proof. intros a b c _ _ _. apply bltb_trans. Qed.
Lemma lex_total D : lt_total bytes bltb D.
Proof. intros a b _ _. apply bltb_total. Qed.
