(* Lib/Sweep: exhaustive boolean check of a Z interval of length 2^k by binary
   splitting (no large nat numerals), with the lemma lifting it to forall. *)
From Coq Require Import ZArith Bool Lia.
Open Scope Z_scope.

Fixpoint all_range (k : nat) (lo : Z) (f : Z -> bool) : bool :=
  match k with
  | O => f lo
  | S k' => all_range k' lo f && all_range k' (lo + 2 ^ Z.of_nat k') f
  end.

Lemma all_range_spec k : forall lo f, all_range k lo f = true ->
  forall z, lo <= z < lo + 2 ^ Z.of_nat k -> f z = true.
Proof.
  induction k as [|k IH]; intros lo f H z Hz.
  - simpl in *. assert (z = lo) by lia. subst. exact H.
  - cbn [all_range] in H. apply andb_true_iff in H as [H1 H2].
    rewrite Nat2Z.inj_succ, Z.pow_succ_r in Hz by lia.
    destruct (Z_lt_ge_dec z (lo + 2 ^ Z.of_nat k)).
    + apply (IH _ _ H1). lia.
    + apply (IH _ _ H2). lia.
Qed.
