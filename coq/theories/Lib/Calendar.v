(* Lib/Calendar: proleptic Gregorian calendar over Z (days since 1970-01-01),
   weekday, Go's "2006-01-02" and UTC RFC3339 rendering and strict parsing.
   Executable definitions only; proofs are in Proofs/CalendarFacts.v. *)
From Coq Require Import List ZArith NArith Bool.
From Tele Require Import Lib.Bytes.
Import ListNotations.
Open Scope Z_scope.

(* ---- civil <-> days (era decomposition, 400-year eras of 146097 days,
        years starting on March 1st) ---- *)

Definition doe_of (yoe m d : Z) : Z :=
  let mp := if 2 <? m then m - 3 else m + 9 in
  let doy := (153 * mp + 2) / 5 + d - 1 in
  yoe * 365 + yoe / 4 - yoe / 100 + doy.

Definition days_from_civil (y m d : Z) : Z :=
  let y' := if m <=? 2 then y - 1 else y in
  let era := y' / 400 in
  let yoe := y' mod 400 in
  era * 146097 + doe_of yoe m d - 719468.

Definition civil_of_era_doe (era doe : Z) : Z * Z * Z :=
  let yoe := (doe - doe / 1460 + doe / 36524 - doe / 146096) / 365 in
  let doy := doe - (365 * yoe + yoe / 4 - yoe / 100) in
  let mp := (5 * doy + 2) / 153 in
  let d := doy - (153 * mp + 2) / 5 + 1 in
  let m := if mp <? 10 then mp + 3 else mp - 9 in
  let y := yoe + era * 400 in
  ((if m <=? 2 then y + 1 else y), m, d).

Definition civil_from_days (z : Z) : Z * Z * Z :=
  let z' := z + 719468 in
  civil_of_era_doe (z' / 146097) (z' mod 146097).

(* Go: Sunday = 0; 1970-01-01 was a Thursday *)
Definition weekday (day : Z) : Z := (day + 4) mod 7.

Definition is_leap (y : Z) : bool :=
  ((y mod 4 =? 0) && negb (y mod 100 =? 0)) || (y mod 400 =? 0).

Definition days_in_month (y m : Z) : Z :=
  if m =? 2 then (if is_leap y then 29 else 28)
  else if (m =? 4) || (m =? 6) || (m =? 9) || (m =? 11) then 30 else 31.

Definition valid_civil (y m d : Z) : bool :=
  (1 <=? m) && (m <=? 12) && (1 <=? d) && (d <=? days_in_month y m).

(* ---- rendering ---- *)

Definition dash : N := 45%N.
Definition colon : N := 58%N.

(* "2006-01-02" of a day number; years outside 0..9999 are rendered with as
   many digits as needed (Go does the same), the theorems restrict the range *)
Definition fmt_ymd (y m d : Z) : bytes :=
  dec_pad 4 (Z.to_N y) ++ [dash] ++ dec_pad 2 (Z.to_N m) ++ [dash] ++ dec_pad 2 (Z.to_N d).

Definition fmt_date (day : Z) : bytes :=
  let '(y, m, d) := civil_from_days day in fmt_ymd y m d.

Definition fmt_hms (s : Z) : bytes :=
  dec_pad 2 (Z.to_N (s / 3600)) ++ [colon] ++ dec_pad 2 (Z.to_N ((s / 60) mod 60))
    ++ [colon] ++ dec_pad 2 (Z.to_N (s mod 60)).

(* time.Time.Format(time.RFC3339) of a UTC instant given in unix seconds *)
Definition fmt_rfc3339 (t : Z) : bytes :=
  fmt_date (t / 86400) ++ [84%N] ++ fmt_hms (t mod 86400) ++ [90%N].

(* ---- strict parsing ---- *)

Definition all_digits (s : bytes) : bool := forallb is_digit s.

Definition parse_fixed (w : nat) (s : bytes) : option Z :=
  if Nat.eqb (length s) w && all_digits s then
    match parse_dec s with Some n => Some (Z.of_N n) | None => None end
  else None.

(* time.Parse("2006-01-02", s): exactly dddd-dd-dd, valid month and day *)
Definition parse_date (s : bytes) : option Z :=
  if Nat.eqb (length s) 10 then
    match parse_fixed 4 (sub s 0 4), parse_fixed 2 (sub s 5 2), parse_fixed 2 (sub s 8 2) with
    | Some y, Some m, Some d =>
        if N.eqb (nth_byte s 4) dash && N.eqb (nth_byte s 7) dash && valid_civil y m d
        then Some (days_from_civil y m d) else None
    | _, _, _ => None
    end
  else None.

(* the UTC "Z" form of RFC3339 without fractional seconds: dddd-dd-ddTdd:dd:ddZ *)
Definition parse_rfc3339z (s : bytes) : option Z :=
  if Nat.eqb (length s) 20 then
    match parse_date (sub s 0 10),
          parse_fixed 2 (sub s 11 2), parse_fixed 2 (sub s 14 2), parse_fixed 2 (sub s 17 2) with
    | Some day, Some hh, Some mm, Some ss =>
        if N.eqb (nth_byte s 10) 84%N && N.eqb (nth_byte s 13) colon && N.eqb (nth_byte s 16) colon
           && N.eqb (nth_byte s 19) 90%N && (hh <? 24) && (mm <? 60) && (ss <? 60)
        then Some (day * 86400 + hh * 3600 + mm * 60 + ss) else None
    | _, _, _, _ => None
    end
  else None.
