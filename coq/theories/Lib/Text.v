(* Lib/Text: single-byte string helpers (strings.Index / Contains / Cut with a
   one-byte separator), strings.TrimRightFunc(unicode.IsSpace), lines, and the
   facts about Lib/Bytes.trim_space that the chart-config round trip needs.
   Executable definitions first, then lemmas. *)
From Coq Require Import List NArith ZArith Bool Lia.
From Tele Require Import Lib.Bytes.
Import ListNotations.
Open Scope N_scope.

Definition is_empty (s : bytes) : bool := match s with [] => true | _ => false end.

(* strings.Contains(s, string(c)) *)
Definition has_byte (c : N) (s : bytes) : bool := existsb (N.eqb c) s.

(* strings.Cut(s, string(c)): the part before the first c (whole s if none) *)
Definition cut_before (s : bytes) (c : N) : bytes :=
  match index_byte s c with Some i => firstn i s | None => s end.

(* linear-time reverse (List.rev is quadratic once extracted; lines of 64 KiB
   and more are part of the correspondence suite) *)
Definition frev (s : bytes) : bytes := rev_append s [].

(* strings.TrimRightFunc(s, unicode.IsSpace) *)
Definition trim_right_space (s : bytes) : bytes :=
  frev (trim_left_fuel_pats space_seqs_rev (length s) (frev s)).

(* Lib/Bytes.trim_space and has_suffix with the linear reverse (proved equal below) *)
Definition ftrim_space (s : bytes) : bytes :=
  let l := trim_left_fuel_pats space_seqs (length s) s in
  frev (trim_left_fuel_pats space_seqs_rev (length l) (frev l)).
Definition fhas_suffix (s p : bytes) : bool := has_prefix (frev s) (frev p).

(* no leading / trailing white space (what TrimSpace leaves unchanged) *)
Definition no_lead (s : bytes) : bool :=
  match first_prefix s space_seqs with None => true | Some _ => false end.
Definition no_trail (s : bytes) : bool :=
  match first_prefix (frev s) space_seqs_rev with None => true | Some _ => false end.
Definition trimmed (s : bytes) : bool := no_lead s && no_trail s.

(* ASCII blank: space or tab *)
Definition blank (c : N) : bool := (c =? 32) || (c =? 9).
Definition all_blank (s : bytes) : bool := forallb blank s.

(* text = lines each terminated by '\n' *)
Definition unlines (ls : list bytes) : bytes := concat (map (fun l => l ++ [10]) ls).

(* ------------------------------------------------------------------ lemmas *)

Lemma frev_rev s : frev s = rev s.
Proof. unfold frev. symmetry. apply rev_alt. Qed.
Lemma ftrim_space_eq s : ftrim_space s = trim_space s.
Proof. unfold ftrim_space, trim_space. rewrite !frev_rev. reflexivity. Qed.
Lemma fhas_suffix_eq s p : fhas_suffix s p = has_suffix s p.
Proof. unfold fhas_suffix, has_suffix. rewrite !frev_rev. reflexivity. Qed.

Lemma has_byte_app c a b : has_byte c (a ++ b) = has_byte c a || has_byte c b.
Proof. apply existsb_app. Qed.

Lemma has_byte_cons c x s : has_byte c (x :: s) = (c =? x) || has_byte c s.
Proof. reflexivity. Qed.

Lemma has_byte_false_in c s : has_byte c s = false <-> ~ In c s.
Proof.
  unfold has_byte. split.
  - intros H Hin. assert (existsb (N.eqb c) s = true) as E.
    { apply existsb_exists. exists c. split; [assumption | apply N.eqb_refl]. }
    congruence.
  - intros H. destruct (existsb (N.eqb c) s) eqn:E; [|reflexivity].
    apply existsb_exists in E as [x [Hx Hc]]. apply N.eqb_eq in Hc. subst. contradiction.
Qed.

Lemma has_byte_blank c s : all_blank s = true -> blank c = false -> has_byte c s = false.
Proof.
  intros Hb Hc. induction s as [|x s IH]; [reflexivity|].
  cbn [all_blank forallb] in Hb. apply andb_true_iff in Hb as [Hx Hs].
  rewrite has_byte_cons, (IH Hs), orb_false_r.
  destruct (N.eqb_spec c x) as [->|]; [congruence | reflexivity].
Qed.

Lemma has_byte_rev c s : has_byte c (rev s) = has_byte c s.
Proof.
  induction s as [|x s IH]; [reflexivity|].
  cbn [rev]. rewrite has_byte_app, IH, has_byte_cons. cbn [has_byte existsb]. rewrite orb_false_r. apply orb_comm.
Qed.

Lemma has_byte_firstn c n s : has_byte c s = false -> has_byte c (firstn n s) = false.
Proof.
  revert n; induction s as [|x s IH]; intros [|n] H; try reflexivity.
  cbn [firstn]. rewrite has_byte_cons in *. apply orb_false_iff in H as [H1 H2].
  rewrite H1, (IH n H2). reflexivity.
Qed.

Lemma has_byte_skipn c n s : has_byte c s = false -> has_byte c (skipn n s) = false.
Proof.
  revert n; induction s as [|x s IH]; intros [|n] H; try reflexivity; try assumption.
  cbn [skipn]. rewrite has_byte_cons in H. apply orb_false_iff in H as [H1 H2]. apply IH; assumption.
Qed.

(* index_byte: first occurrence *)
Lemma index_byte_app_hit s c t : has_byte c s = false -> index_byte (s ++ c :: t) c = Some (length s).
Proof.
  induction s as [|x s IH]; intros H.
  - cbn. rewrite N.eqb_refl. reflexivity.
  - rewrite has_byte_cons in H. apply orb_false_iff in H as [H1 H2].
    cbn [app index_byte length]. rewrite N.eqb_sym, H1, (IH H2). reflexivity.
Qed.

Lemma index_byte_none s c : has_byte c s = false -> index_byte s c = None.
Proof.
  induction s as [|x s IH]; intros H; [reflexivity|].
  rewrite has_byte_cons in H. apply orb_false_iff in H as [H1 H2].
  cbn [index_byte]. rewrite N.eqb_sym, H1, (IH H2). reflexivity.
Qed.

Lemma index_byte_some s c i : index_byte s c = Some i ->
  s = firstn i s ++ c :: skipn (S i) s /\ has_byte c (firstn i s) = false.
Proof.
  revert i; induction s as [|x s IH]; intros i H; [discriminate|].
  cbn [index_byte] in H. destruct (N.eqb_spec x c) as [->|Hne].
  - injection H as <-. split; reflexivity.
  - destruct (index_byte s c) as [j|] eqn:E; [|discriminate]. injection H as <-.
    destruct (IH j eq_refl) as [H1 H2]. cbn [firstn skipn]. split.
    + cbn [app]. f_equal. exact H1.
    + rewrite has_byte_cons, H2, orb_false_r. apply N.eqb_neq. congruence.
Qed.

Lemma firstn_app_exact {A} (a b : list A) : firstn (length a) (a ++ b) = a.
Proof. induction a; cbn; [destruct b; reflexivity | f_equal; assumption]. Qed.
Lemma skipn_app_exact {A} (a b : list A) : skipn (length a) (a ++ b) = b.
Proof. induction a; cbn; [reflexivity | assumption]. Qed.
Lemma skipn_S_app_exact {A} (a : list A) x b : skipn (S (length a)) (a ++ x :: b) = b.
Proof. induction a; cbn; [reflexivity | assumption]. Qed.

Lemma cut_before_hit s c t : has_byte c s = false -> cut_before (s ++ c :: t) c = s.
Proof. intros H. unfold cut_before. rewrite (index_byte_app_hit s c t H). apply firstn_app_exact. Qed.
Lemma cut_before_none s c : has_byte c s = false -> cut_before s c = s.
Proof. intros H. unfold cut_before. rewrite (index_byte_none s c H). reflexivity. Qed.

(* ---- trimming *)

Lemma tl_pats_none pats fuel s : first_prefix s pats = None -> trim_left_fuel_pats pats fuel s = s.
Proof. intros H. destruct fuel; cbn; [reflexivity | rewrite H; reflexivity]. Qed.

Lemma first_prefix_blank_fwd c s : blank c = true -> first_prefix (c :: s) space_seqs = Some [c].
Proof.
  unfold blank. intros H. apply orb_true_iff in H as [H|H]; apply N.eqb_eq in H; subst; reflexivity.
Qed.
Lemma first_prefix_blank_rev c s : blank c = true -> first_prefix (c :: s) space_seqs_rev = Some [c].
Proof.
  unfold blank. intros H. apply orb_true_iff in H as [H|H]; apply N.eqb_eq in H; subst; reflexivity.
Qed.

Section Strip.
  Variable pats : list bytes.
  Hypothesis Hblank : forall c s, blank c = true -> first_prefix (c :: s) pats = Some [c].

  Lemma tl_pats_strip ws v k : all_blank ws = true -> first_prefix v pats = None ->
    trim_left_fuel_pats pats (length ws + k) (ws ++ v) = v.
  Proof.
    intros Hws Hv. induction ws as [|c ws IH].
    - cbn [app]. apply tl_pats_none. exact Hv.
    - cbn [all_blank forallb] in Hws. apply andb_true_iff in Hws as [Hc Hws].
      cbn [length plus app trim_left_fuel_pats]. rewrite (Hblank c _ Hc). cbn [length skipn].
      apply IH. exact Hws.
  Qed.
End Strip.

Lemma tl_strip_fwd ws v n : all_blank ws = true -> no_lead v = true -> (length ws <= n)%nat ->
  trim_left_fuel_pats space_seqs n (ws ++ v) = v.
Proof.
  intros Hws Hv Hn. unfold no_lead in Hv.
  destruct (first_prefix v space_seqs) eqn:E; [discriminate|].
  replace n with (length ws + (n - length ws))%nat by lia.
  apply tl_pats_strip; auto using first_prefix_blank_fwd.
Qed.
Lemma tl_strip_rev ws v n : all_blank ws = true -> first_prefix v space_seqs_rev = None -> (length ws <= n)%nat ->
  trim_left_fuel_pats space_seqs_rev n (ws ++ v) = v.
Proof.
  intros Hws Hv Hn.
  replace n with (length ws + (n - length ws))%nat by lia.
  apply tl_pats_strip; auto using first_prefix_blank_rev.
Qed.

Lemma all_blank_rev ws : all_blank (rev ws) = all_blank ws.
Proof.
  unfold all_blank. induction ws as [|c ws IH]; [reflexivity|].
  cbn [rev forallb]. rewrite forallb_app, IH. cbn [forallb]. rewrite andb_true_r. apply andb_comm.
Qed.
Lemma all_blank_app a b : all_blank (a ++ b) = all_blank a && all_blank b.
Proof. apply forallb_app. Qed.

(* appending 7-bit bytes after a non-empty string does not create or remove a
   leading white-space sequence: continuation bytes are all >= 128. *)
Definition ascii7 (s : bytes) : bool := forallb (fun c => c <? 128) s.
Definition high_tail (p : bytes) : bool :=
  match p with [] => false | _ :: t => forallb (fun c => 128 <=? c) t end.

Lemma has_prefix_app_ascii v w p : forallb (fun c => 128 <=? c) p = true -> ascii7 w = true ->
  has_prefix (v ++ w) p = has_prefix v p.
Proof.
  revert p; induction v as [|a v IH]; intros p Hp Hw.
  - cbn [app]. destruct p as [|z p]; [destruct w; reflexivity|].
    destruct w as [|x w]; [reflexivity|].
    cbn [forallb] in Hp. apply andb_true_iff in Hp as [Hz _].
    cbn [ascii7 forallb] in Hw. apply andb_true_iff in Hw as [Hx _].
    cbn [has_prefix]. apply N.leb_le in Hz. apply N.ltb_lt in Hx.
    destruct (N.eqb_spec x z); [lia | reflexivity].
  - destruct p as [|z p]; [reflexivity|].
    cbn [forallb] in Hp. apply andb_true_iff in Hp as [_ Hp].
    cbn [app has_prefix]. rewrite (IH p Hp Hw). reflexivity.
Qed.

Lemma first_prefix_app_ascii pats a v w : forallb high_tail pats = true -> ascii7 w = true ->
  first_prefix ((a :: v) ++ w) pats = first_prefix (a :: v) pats.
Proof.
  intros Hp Hw. induction pats as [|p pats IH]; [reflexivity|].
  cbn [forallb] in Hp. apply andb_true_iff in Hp as [Hh Hps].
  cbn [first_prefix].
  assert (has_prefix ((a :: v) ++ w) p = has_prefix (a :: v) p) as E.
  { destruct p as [|z p]; [discriminate|]. cbn [high_tail] in Hh.
    cbn [app has_prefix]. rewrite (has_prefix_app_ascii v w p Hh Hw). reflexivity. }
  rewrite E, (IH Hps). reflexivity.
Qed.

Lemma space_seqs_high : forallb high_tail space_seqs = true.
Proof. vm_compute. reflexivity. Qed.
Lemma space_seqs_rev_high : forallb high_tail space_seqs_rev = true.
Proof. vm_compute. reflexivity. Qed.

Lemma no_lead_app_ascii v w : v <> [] -> ascii7 w = true -> no_lead (v ++ w) = no_lead v.
Proof.
  intros Hv Hw. destruct v as [|a v]; [contradiction|]. unfold no_lead.
  rewrite (first_prefix_app_ascii _ a v w space_seqs_high Hw). reflexivity.
Qed.

(* no_trail (w ++ v) = no_trail v for non-empty v and 7-bit w *)
Lemma no_trail_app_ascii v w : v <> [] -> ascii7 w = true -> no_trail (w ++ v) = no_trail v.
Proof.
  intros Hv Hw. unfold no_trail. rewrite !frev_rev, rev_app_distr.
  destruct (rev v) as [|a rv] eqn:E.
  - exfalso. apply Hv. rewrite <- (rev_involutive v), E. reflexivity.
  - rewrite (first_prefix_app_ascii _ a rv (rev w) space_seqs_rev_high); [reflexivity|].
    unfold ascii7 in *. rewrite forallb_forall in *. intros x Hx. apply Hw. apply in_rev. exact Hx.
Qed.

Lemma all_blank_ascii ws : all_blank ws = true -> ascii7 ws = true.
Proof.
  unfold all_blank, ascii7. rewrite !forallb_forall. intros H x Hx. specialize (H x Hx).
  unfold blank in H. apply orb_true_iff in H as [H|H]; apply N.eqb_eq in H; subst; reflexivity.
Qed.

Lemma trim_space_nil : trim_space [] = [].
Proof. reflexivity. Qed.

(* the workhorse: blanks around a trimmed value are removed *)
Lemma trim_space_strip ws1 v ws2 : all_blank ws1 = true -> all_blank ws2 = true -> trimmed v = true ->
  trim_space (ws1 ++ v ++ ws2) = v.
Proof.
  intros H1 H2 Hv. unfold trimmed in Hv. apply andb_true_iff in Hv as [Hl Ht].
  destruct v as [|a v].
  - (* only blanks *)
    cbn [app]. unfold trim_space.
    assert (trim_left_fuel_pats space_seqs (length (ws1 ++ ws2)) (ws1 ++ ws2) = []) as E.
    { pose proof (tl_strip_fwd (ws1 ++ ws2) [] (length (ws1 ++ ws2))) as P.
      rewrite app_nil_r in P. apply P; [| reflexivity | lia].
      rewrite all_blank_app, H1, H2. reflexivity. }
    rewrite E. reflexivity.
  - unfold trim_space.
    assert (no_lead ((a :: v) ++ ws2) = true) as Hl2.
    { rewrite no_lead_app_ascii; [exact Hl | discriminate | apply all_blank_ascii; exact H2]. }
    rewrite (tl_strip_fwd ws1 ((a :: v) ++ ws2) _ H1 Hl2) by (rewrite app_length; lia).
    rewrite rev_app_distr.
    unfold no_trail in Ht. rewrite frev_rev in Ht. destruct (first_prefix (rev (a :: v)) space_seqs_rev) eqn:E; [discriminate|].
    rewrite (tl_strip_rev (rev ws2) (rev (a :: v)) _); [apply rev_involutive | | exact E | ].
    + rewrite all_blank_rev. exact H2.
    + rewrite rev_length, app_length. lia.
Qed.

Lemma trim_space_blank ws : all_blank ws = true -> trim_space ws = [].
Proof.
  intros H. pose proof (trim_space_strip ws [] [] H eq_refl eq_refl) as P.
  cbn [app] in P. rewrite app_nil_r in P. exact P.
Qed.

Lemma trim_space_trimmed v : trimmed v = true -> trim_space v = v.
Proof.
  intros H. pose proof (trim_space_strip [] v [] eq_refl eq_refl H) as P.
  cbn [app] in P. rewrite app_nil_r in P. exact P.
Qed.

Lemma trim_right_strip x ws : all_blank ws = true -> no_trail x = true -> trim_right_space (x ++ ws) = x.
Proof.
  intros Hw Ht. unfold trim_right_space. rewrite !frev_rev, rev_app_distr.
  unfold no_trail in Ht. rewrite frev_rev in Ht. destruct (first_prefix (rev x) space_seqs_rev) eqn:E; [discriminate|].
  rewrite (tl_strip_rev (rev ws) (rev x) _); [apply rev_involutive | | exact E | ].
  - rewrite all_blank_rev. exact Hw.
  - rewrite rev_length, app_length. lia.
Qed.

(* a string whose last byte is 7-bit and not white space has no trailing space *)
Lemma no_trail_last x c : c <? 128 = true -> blank c = false ->
  (c =? 10) || (c =? 11) || (c =? 12) || (c =? 13) = false -> no_trail (x ++ [c]) = true.
Proof.
  intros H7 Hb Hc. unfold no_trail. rewrite !frev_rev, rev_app_distr. cbn [rev app].
  unfold blank in Hb. apply orb_false_iff in Hb as [Hb1 Hb2].
  apply orb_false_iff in Hc as [Hc Hc4]. apply orb_false_iff in Hc as [Hc Hc3].
  apply orb_false_iff in Hc as [Hc1 Hc2].
  apply N.ltb_lt in H7.
  assert (forall k, 128 <= k -> (c =? k) = false) as Hhi by (intros k Hk; apply N.eqb_neq; lia).
  unfold space_seqs_rev, space_seqs. cbn [map rev app first_prefix has_prefix].
  rewrite Hb1, Hb2, Hc1, Hc2, Hc3, Hc4.
  rewrite !Hhi by lia. reflexivity.
Qed.

Lemma no_lead_first c s : c <? 128 = true -> blank c = false ->
  (c =? 10) || (c =? 11) || (c =? 12) || (c =? 13) = false -> no_lead (c :: s) = true.
Proof.
  intros H7 Hb Hc. unfold no_lead.
  unfold blank in Hb. apply orb_false_iff in Hb as [Hb1 Hb2].
  apply orb_false_iff in Hc as [Hc Hc4]. apply orb_false_iff in Hc as [Hc Hc3].
  apply orb_false_iff in Hc as [Hc1 Hc2].
  apply N.ltb_lt in H7.
  assert (forall k, 128 <= k -> (c =? k) = false) as Hhi by (intros k Hk; apply N.eqb_neq; lia).
  unfold space_seqs. cbn [first_prefix has_prefix].
  rewrite Hb1, Hb2, Hc1, Hc2, Hc3, Hc4.
  rewrite !Hhi by lia. reflexivity.
Qed.

(* monotonicity: a prefix match survives appending *)
Lemma has_prefix_app_mono v w p : has_prefix v p = true -> has_prefix (v ++ w) p = true.
Proof.
  revert v; induction p as [|z p IH]; intros v H; [reflexivity|].
  destruct v as [|a v]; [discriminate|]. cbn [app has_prefix] in *.
  apply andb_true_iff in H as [H1 H2]. rewrite H1, (IH v H2). reflexivity.
Qed.
Lemma first_prefix_app_none v w pats : first_prefix (v ++ w) pats = None -> first_prefix v pats = None.
Proof.
  induction pats as [|p pats IH]; [reflexivity|]. cbn [first_prefix].
  destruct (has_prefix v p) eqn:E.
  - rewrite (has_prefix_app_mono v w p E). discriminate.
  - destruct (has_prefix (v ++ w) p); [discriminate | exact IH].
Qed.

(* a suffix of a string without trailing space has no trailing space *)
Lemma no_trail_suffix a b : no_trail (a ++ b) = true -> no_trail b = true.
Proof.
  unfold no_trail. rewrite !frev_rev, rev_app_distr. intros H.
  destruct (first_prefix (rev b ++ rev a) space_seqs_rev) eqn:E; [discriminate|].
  rewrite (first_prefix_app_none _ _ _ E). reflexivity.
Qed.
Lemma no_lead_prefix a b : no_lead (a ++ b) = true -> no_lead a = true.
Proof.
  unfold no_lead. intros H.
  destruct (first_prefix (a ++ b) space_seqs) eqn:E; [discriminate|].
  rewrite (first_prefix_app_none _ _ _ E). reflexivity.
Qed.

(* ---- lines *)

Lemma split_byte_app_sep l c rest : has_byte c l = false ->
  split_byte (l ++ c :: rest) c = l :: split_byte rest c.
Proof.
  induction l as [|x l IH]; intros H.
  - cbn [app split_byte]. destruct (split_byte rest c) eqn:E.
    + exfalso. eapply split_byte_nonempty; eauto.
    + rewrite N.eqb_refl. reflexivity.
  - rewrite has_byte_cons in H. apply orb_false_iff in H as [H1 H2].
    cbn [app split_byte]. rewrite (IH H2). rewrite N.eqb_sym, H1. reflexivity.
Qed.

Lemma split_unlines ls : Forall (fun l => has_byte 10 l = false) ls ->
  split_byte (unlines ls) 10 = ls ++ [[]].
Proof.
  induction 1 as [|l ls Hl _ IH]; [reflexivity|].
  unfold unlines in *. cbn [map concat]. rewrite <- app_assoc. cbn [app].
  rewrite (split_byte_app_sep l 10 _ Hl), IH. reflexivity.
Qed.

(* ---- the same facts for the linear-time twins used by the models *)
Lemma ftrim_space_nil : ftrim_space [] = [].
Proof. reflexivity. Qed.
Lemma ftrim_space_strip ws1 v ws2 : all_blank ws1 = true -> all_blank ws2 = true -> trimmed v = true ->
  ftrim_space (ws1 ++ v ++ ws2) = v.
Proof. rewrite ftrim_space_eq. apply trim_space_strip. Qed.
Lemma ftrim_space_blank ws : all_blank ws = true -> ftrim_space ws = [].
Proof. rewrite ftrim_space_eq. apply trim_space_blank. Qed.
Lemma ftrim_space_trimmed v : trimmed v = true -> ftrim_space v = v.
Proof. rewrite ftrim_space_eq. apply trim_space_trimmed. Qed.
