(* Lib/Bytes: byte strings as lists of N (each < 256), basic string
   operations mirroring Go's strings/bytes package functions that the models
   use.  Executable definitions first, then lemmas. *)
From Coq Require Import String Ascii.
From Coq Require Import List NArith ZArith Bool Lia.
Import ListNotations.
Open Scope N_scope.

Definition byte := N.
Definition bytes := list N.

(* string literal -> bytes; used only at definition time *)
Definition s2b (s : string) : bytes :=
  map N_of_ascii (list_ascii_of_string s).

Fixpoint beq (a b : bytes) : bool :=
  match a, b with
  | [], [] => true
  | x :: a', y :: b' => N.eqb x y && beq a' b'
  | _, _ => false
  end.

Lemma beq_eq a b : beq a b = true <-> a = b.
Proof.
  revert b; induction a as [|x a IH]; intros [|y b]; simpl; split; intro H;
    try discriminate; try reflexivity.
  - apply andb_true_iff in H as [H1 H2]. apply N.eqb_eq in H1. apply IH in H2. congruence.
  - injection H as -> ->. rewrite N.eqb_refl. apply IH. reflexivity.
Qed.

Lemma beq_refl a : beq a a = true.
Proof. apply beq_eq. reflexivity. Qed.

Lemma beq_neq a b : beq a b = false <-> a <> b.
Proof.
  split; intro H.
  - intro E. apply beq_eq in E. congruence.
  - destruct (beq a b) eqn:E; [apply beq_eq in E; contradiction | reflexivity].
Qed.

(* lexicographic comparison, as Go's string < *)
Fixpoint bcmp (a b : bytes) : comparison :=
  match a, b with
  | [], [] => Eq
  | [], _ => Lt
  | _, [] => Gt
  | x :: a', y :: b' =>
      match N.compare x y with Eq => bcmp a' b' | c => c end
  end.
Definition bltb a b := match bcmp a b with Lt => true | _ => false end.
Definition bleb a b := match bcmp a b with Gt => false | _ => true end.

Fixpoint has_prefix (s p : bytes) {struct p} : bool :=
  match p, s with
  | [], _ => true
  | y :: p', x :: s' => N.eqb x y && has_prefix s' p'
  | _ :: _, [] => false
  end.

Definition has_suffix (s p : bytes) : bool :=
  has_prefix (rev s) (rev p).

Lemma has_prefix_app s p : has_prefix s p = true <-> exists t, s = p ++ t.
Proof.
  revert s; induction p as [|y p IH]; intros s; simpl.
  - split; [intros _; exists s; reflexivity | reflexivity].
  - destruct s as [|x s].
    + split; [discriminate | intros [t H]; discriminate].
    + rewrite andb_true_iff, N.eqb_eq, IH. split.
      * intros [-> [t ->]]. exists t. reflexivity.
      * intros [t H]. injection H as -> ->. split; [reflexivity | exists t; reflexivity].
Qed.

Lemma has_suffix_app s p : has_suffix s p = true <-> exists t, s = t ++ p.
Proof.
  unfold has_suffix. rewrite has_prefix_app. split; intros [t H].
  - exists (rev t). rewrite <- (rev_involutive s), H, rev_app_distr, rev_involutive. reflexivity.
  - exists (rev t). rewrite H, rev_app_distr. reflexivity.
Qed.

(* strings.Index for a single byte: position of first occurrence *)
Fixpoint index_byte (s : bytes) (c : N) : option nat :=
  match s with
  | [] => None
  | x :: s' => if N.eqb x c then Some O
               else match index_byte s' c with Some i => Some (S i) | None => None end
  end.

(* strings.Index for a substring *)
Fixpoint index_sub (s p : bytes) : option nat :=
  if has_prefix s p then Some O else
  match s with
  | [] => None
  | _ :: s' => match index_sub s' p with Some i => Some (S i) | None => None end
  end.

Definition contains (s p : bytes) : bool :=
  match index_sub s p with Some _ => true | None => false end.

(* strings.Cut(s, sep) : (before, after, found) *)
Definition cut (s sep : bytes) : bytes * bytes * bool :=
  match index_sub s sep with
  | Some i => (firstn i s, skipn (i + length sep) s, true)
  | None => (s, [], false)
  end.

(* strings.LastIndex for single byte *)
Definition last_index_byte (s : bytes) (c : N) : option nat :=
  match index_byte (rev s) c with
  | Some i => Some (length s - 1 - i)%nat
  | None => None
  end.

(* strings.Split(s, sep) for a single-byte separator: always >= 1 element *)
Fixpoint split_byte (s : bytes) (c : N) : list bytes :=
  match s with
  | [] => [[]]
  | x :: s' =>
      match split_byte s' c with
      | [] => [[x]] (* unreachable *)
      | h :: t => if N.eqb x c then [] :: h :: t else (x :: h) :: t
      end
  end.

Fixpoint join (l : list bytes) (sep : bytes) : bytes :=
  match l with
  | [] => []
  | [a] => a
  | a :: l' => a ++ sep ++ join l' sep
  end.

Lemma split_byte_nonempty s c : split_byte s c <> [].
Proof.
  induction s as [|x s IH]; simpl; [discriminate|].
  destruct (split_byte s c); [contradiction|]. destruct (N.eqb x c); discriminate.
Qed.

Lemma join_cons2 a b l sep : join (a :: b :: l) sep = a ++ sep ++ join (b :: l) sep.
Proof. reflexivity. Qed.

Lemma join_split_byte s c : join (split_byte s c) [c] = s.
Proof.
  induction s as [|x s IH]; [reflexivity|].
  cbn [split_byte].
  destruct (split_byte s c) as [|h t] eqn:E.
  - exfalso. eapply split_byte_nonempty; eauto.
  - destruct (N.eqb_spec x c) as [->|Hne].
    + rewrite join_cons2, IH. reflexivity.
    + destruct t as [|h2 t].
      * cbn [join] in *. congruence.
      * rewrite join_cons2 in *. rewrite <- IH. reflexivity.
Qed.

Definition trim_suffix (s suf : bytes) : bytes :=
  if has_suffix s suf then firstn (length s - length suf) s else s.
Definition trim_prefix (s p : bytes) : bytes :=
  if has_prefix s p then skipn (length p) s else s.

(* Unicode white space as Go's unicode.IsSpace: the valid UTF-8 encodings *)
Definition space_seqs : list bytes :=
  [ [9]; [10]; [11]; [12]; [13]; [32];
    [0xC2; 0x85]; [0xC2; 0xA0];
    [0xE1; 0x9A; 0x80];
    [0xE2; 0x80; 0x80]; [0xE2; 0x80; 0x81]; [0xE2; 0x80; 0x82]; [0xE2; 0x80; 0x83];
    [0xE2; 0x80; 0x84]; [0xE2; 0x80; 0x85]; [0xE2; 0x80; 0x86]; [0xE2; 0x80; 0x87];
    [0xE2; 0x80; 0x88]; [0xE2; 0x80; 0x89]; [0xE2; 0x80; 0x8A];
    [0xE2; 0x80; 0xA8]; [0xE2; 0x80; 0xA9]; [0xE2; 0x80; 0xAF];
    [0xE2; 0x81; 0x9F]; [0xE3; 0x80; 0x80] ].

Fixpoint first_prefix (s : bytes) (l : list bytes) : option bytes :=
  match l with
  | [] => None
  | p :: l' => if has_prefix s p then Some p else first_prefix s l'
  end.

Definition space_seqs_rev : list bytes := map (@rev N) space_seqs.
Fixpoint trim_left_fuel_pats (pats : list bytes) (fuel : nat) (s : bytes) : bytes :=
  match fuel with
  | O => s
  | S f => match first_prefix s pats with
           | Some p => trim_left_fuel_pats pats f (skipn (length p) s)
           | None => s
           end
  end.
Definition trim_space (s : bytes) : bytes :=
  let l := trim_left_fuel_pats space_seqs (length s) s in
  rev (trim_left_fuel_pats space_seqs_rev (length l) (rev l)).

(* little-endian loads on byte lists *)
Definition nth_byte (s : bytes) (i : nat) : N := nth i s 0.
Definition load32 (s : bytes) (off : nat) : N :=
  nth_byte s off + 256 * (nth_byte s (off+1) + 256 * (nth_byte s (off+2) + 256 * nth_byte s (off+3))).
Definition load64 (s : bytes) (off : nat) : N :=
  load32 s off + 4294967296 * load32 s (off+4).
Definition le32 (v : N) : bytes :=
  [v mod 256; (v / 256) mod 256; (v / 65536) mod 256; (v / 16777216) mod 256].
Definition le64 (v : N) : bytes := le32 (v mod 4294967296) ++ le32 (v / 4294967296).

Definition sub (s : bytes) (off len : nat) : bytes := firstn len (skipn off s).

Definition is_digit (c : N) : bool := (48 <=? c) && (c <=? 57).

(* decimal rendering of a natural number, zero padded to width w *)
Fixpoint dec_digits (fuel : nat) (n : N) (acc : bytes) : bytes :=
  match fuel with
  | O => acc
  | S f => if n <? 10 then (48 + n) :: acc
           else dec_digits f (n / 10) ((48 + n mod 10) :: acc)
  end.
Definition dec_of_N (n : N) : bytes := dec_digits 40 n [].
Fixpoint pad_left_aux (k : nat) (s : bytes) : bytes :=
  match k with O => s | S k' => 48 :: pad_left_aux k' s end.
Definition pad_left (w : nat) (s : bytes) : bytes :=
  pad_left_aux (w - length s) s.
Definition dec_pad (w : nat) (n : N) : bytes := pad_left w (dec_of_N n).

Fixpoint parse_dec_acc (s : bytes) (acc : N) : option N :=
  match s with
  | [] => Some acc
  | c :: s' => if is_digit c then parse_dec_acc s' (acc * 10 + (c - 48)) else None
  end.
Definition parse_dec (s : bytes) : option N :=
  match s with [] => None | _ => parse_dec_acc s 0 end.
