(* Lib/FS: a small file system for the uploader model.  A directory is an
   association list  name -> (file id, content); the file id plays the role
   of the inode: an open handle refers to the id, so a write through a handle
   whose file has been unlinked (and possibly re-created under the same name)
   is invisible, exactly as on POSIX.

   create_excl creates an EMPTY file; filling it is a separate set_id step,
   so a concurrent reader can observe the created-but-unwritten file.

   Executable definitions only (facts are in Proofs/FSFacts.v). *)
From Coq Require Import List ZArith NArith Bool.
From Tele Require Import Lib.Bytes.
Import ListNotations.

Section Dir.
Variable C : Type.

Definition dir := list (bytes * (nat * C)).

Fixpoint d_find (d : dir) (n : bytes) : option (nat * C) :=
  match d with
  | [] => None
  | (m, v) :: d' => if beq m n then Some v else d_find d' n
  end.

Definition d_mem (d : dir) (n : bytes) : bool :=
  match d_find d n with Some _ => true | None => false end.

Definition d_get (d : dir) (n : bytes) : option C :=
  match d_find d n with Some (_, c) => Some c | None => None end.

Fixpoint d_remove (d : dir) (n : bytes) : dir :=
  match d with
  | [] => []
  | (m, v) :: d' => if beq m n then d_remove d' n else (m, v) :: d_remove d' n
  end.

(* precondition for a faithful use: n absent *)
Definition d_add (d : dir) (n : bytes) (id : nat) (c : C) : dir := (n, (id, c)) :: d.

(* write through a handle: the linked file with this id, if any *)
Fixpoint d_set_id (d : dir) (id : nat) (c : C) : dir :=
  match d with
  | [] => []
  | (m, (i, c0)) :: d' =>
      if Nat.eqb i id then (m, (i, c)) :: d_set_id d' id c else (m, (i, c0)) :: d_set_id d' id c
  end.

(* os.WriteFile: truncate-and-write an existing file (same inode) or create *)
Fixpoint d_put (d : dir) (n : bytes) (id : nat) (c : C) : dir :=
  match d with
  | [] => [(n, (id, c))]
  | (m, (i, c0)) :: d' =>
      if beq m n then (m, (i, c)) :: d' else (m, (i, c0)) :: d_put d' n id c
  end.

(* os.ReadDir: names in byte order *)
Fixpoint ins_sorted (x : bytes) (l : list bytes) : list bytes :=
  match l with
  | [] => [x]
  | y :: l' => if bleb x y then x :: l else y :: ins_sorted x l'
  end.
Definition sort_names (l : list bytes) : list bytes := fold_right ins_sorted [] l.
Definition d_names (d : dir) : list bytes := sort_names (map fst d).

Definition d_ids (d : dir) : list nat := map (fun e => fst (snd e)) d.

End Dir.

Arguments d_find {C}. Arguments d_mem {C}. Arguments d_get {C}. Arguments d_remove {C}.
Arguments d_add {C}. Arguments d_set_id {C}. Arguments d_put {C}. Arguments d_names {C}.
Arguments d_ids {C}.

(* the telemetry directory: local/ always exists (the uploader returns at
   once otherwise), upload/ may be missing until findWork creates it *)
Record fs (C : Type) := mkFS {
  f_local : dir C;
  f_upload : option (dir C);
  f_next : nat            (* next fresh file id *)
}.
Arguments mkFS {C}. Arguments f_local {C}. Arguments f_upload {C}. Arguments f_next {C}.

Definition up_dir {C} (f : fs C) : dir C := match f_upload f with Some d => d | None => [] end.
Definition set_local {C} (f : fs C) (d : dir C) : fs C := mkFS d (f_upload f) (f_next f).
Definition set_upload {C} (f : fs C) (d : dir C) : fs C := mkFS (f_local f) (Some d) (f_next f).
Definition bump {C} (f : fs C) : fs C := mkFS (f_local f) (f_upload f) (S (f_next f)).
